/-!
  Model of the ToUnicode character-map reader and writer (property C19, second half).

  Rust item                                                       model definition
  ------------------------------------------------------------   -----------------------------------------
  parser/lexer/mod.rs `is_whitespace`, `Lexer::is_delimiter`       `isWs`, `isDelim`
  `Lexer::next_word` / `next` (white space, `%` comments, `/name`,
     `<<` `>>`, single delimiters, regular words)                  `scan`, `nextWord`
  parser/lexer/str.rs `HexStringLexer::next_hex_byte` + iterator   `hexStr`
  parser/mod.rs `parse_with_lexer(.., ParseFlags::STRING)`         `parseStr`
  `parse_with_lexer(.., STRING | ARRAY)` (array loop with `peek`)  `parseStrOrArr`, `parseArr`
  font.rs `utf16be_to_string` (`chunks_exact(2)`, `decode_utf16`)  `units`, `utf16Decode`
  `parse_cid`                                                      `parseCid`
  `ToUnicodeMap` (`HashMap<u16, SmallString>`; `insert`, `get`)    `Map`, `Map.insert`, `Map.get`
  `parse_cmap`: outer `while let Ok(substr) = lexer.next()`,
     the `beginbfchar` loop, the `beginbfrange` loop (string form
     with last-byte increment, array form with `zip`)              `outer`, `bfchar`, `bfrange`, `rangeStr`,
                                                                   `rangeArr`, `parseCMap`
  `write_cid`, `write_unicode` (`encode_utf16`, `{:04X}`)          `writeCid`, `writeUnicode`, `utf16Encode`
  `write_cmap`: sorted list, maximal runs `cid == first + i as u16`
     (u16 addition, overflow-checked), `group_by(len == 1)`        `blocks`, `emit`, `writeCMap`

  The lexer state is the *remaining input* (`buf[pos..]`): `parse_cmap` only moves forward, except that
  `parse_with_lexer_ctx` restores the position when it fails — the model then simply keeps the old suffix.
  The lexer fragment is the one of /repo main after the repairs of D1 (form feed is white space), D3 (a comment
  ends at CR as well as at LF) and `00d132b` (NUL is white space inside a hexadecimal string); D2 (`+` sign) only
  touches `elemUnmodelled`; `Lexer::seek_substr` (repaired by the C08 package) is not used by `parse_cmap`.
  The model describes the code after the `fix:` commit for defect D39 (`write_cmap` separated the strings of
  the range form with `", "`, which `parse_cmap` cannot read; now a single space).

  Fragment: inside `beginbfchar`/`beginbfrange` sections the model covers hexadecimal strings `<…>` and arrays
  of them.  A literal string `( … )`, a nested array, or an array element that is (or may be) another kind of
  object makes the model answer `unmodelled` (the full object parser is the subject of C03/C04).  Unicode
  strings are lists of scalar values (`Nat`).
-/

namespace CMap

abbrev Bytes := List UInt8

/-- result of a modelled function: value, `Err(_)`, outside the modelled fragment, out of fuel -/
inductive R (α : Type) where
  | ok : α → R α
  | err : R α
  | unmodelled : R α
  | oof : R α
deriving Repr, DecidableEq, Inhabited

/-- `is_whitespace`: NUL, space, CR, LF, tab, form feed -/
def isWs (b : UInt8) : Bool := b == 0 || b == 32 || b == 13 || b == 10 || b == 9 || b == 12

/-- a comment ends at LF or CR -/
def isEol (b : UInt8) : Bool := b == 10 || b == 13

/-- `b"()<>[]{}/%".contains(b)` -/
def isDelim (b : UInt8) : Bool :=
  b == 40 || b == 41 || b == 60 || b == 62 || b == 91 || b == 93 || b == 123 || b == 125 || b == 47 || b == 37

def isRegular (b : UInt8) : Bool := !isWs b && !isDelim b

/-- the start of `next_word`: EOF check, `skip_whitespace`, then the `while buf[pos] == b'%'` loop: skip
    past the next `\n` or `\r` if there is one (otherwise only past the `%`!), skip white space again.  `inC`:
    inside a comment that is known to end.  `none` = `Err(EOF)`. -/
def scan : Bool → Bytes → Option Bytes
  | _, [] => none
  | true, b :: r => if isEol b then scan false r else scan true r
  | false, b :: r =>
    if isWs b then scan false r
    else if b == 37 then (if r.any isEol then scan true r else scan false r)
    else some (b :: r)

/-- `Lexer::next_word`: lexeme and remaining input -/
def nextWord (bs : Bytes) : Option (Bytes × Bytes) :=
  match scan false bs with
  | none => none
  | some [] => none
  | some (b :: r) =>
    if isDelim b then
      if b == 47 then
        some (b :: r.takeWhile isRegular, r.dropWhile isRegular)
      else match r with
        | b2 :: r2 => if (b == 60 && b2 == 60) || (b == 62 && b2 == 62) then some ([b, b2], r2) else some ([b], r)
        | [] => some ([b], r)
    else some ((b :: r).takeWhile isRegular, (b :: r).dropWhile isRegular)

def nib (c : UInt8) : Option Nat :=
  if 48 ≤ c && c ≤ 57 then some (c.toNat - 48)
  else if 65 ≤ c && c ≤ 70 then some (c.toNat - 55)
  else if 97 ≤ c && c ≤ 102 then some (c.toNat - 87)
  else none

/-- white space inside a hexadecimal string (`next_non_whitespace_char`): space, tab, LF, CR, FF, NUL -/
def isHexWs (b : UInt8) : Bool := b == 32 || b == 9 || b == 10 || b == 13 || b == 12 || b == 0

/-- the `HexStringLexer` iterator, input right after `<`: decoded bytes and the input after `>`.
    `hi`: a pending high nibble (an odd final digit counts as `h0`). -/
def hexStr : Option Nat → List UInt8 → Bytes → Option (Bytes × Bytes)
  | _, _, [] => none
  | hi, acc, b :: r =>
    if isHexWs b then hexStr hi acc r
    else match hi with
      | none =>
        if b == 62 then some (acc.reverse, r)
        else match nib b with
          | some h => hexStr (some h) acc r
          | none => none
      | some h =>
        if b == 62 then some ((UInt8.ofNat (h * 16) :: acc).reverse, r)
        else match nib b with
          | some l => hexStr none (UInt8.ofNat (h * 16 + l) :: acc) r
          | none => none

/-- `parse_with_lexer(lexer, &NoResolve, ParseFlags::STRING)`: `Ok(Primitive::String)` only for a string;
    every other first lexeme fails one of the `check(flags, …)` calls or is an unknown word -/
def parseStr (bs : Bytes) : R (Bytes × Bytes) :=
  match nextWord bs with
  | none => .err
  | some (w, rest) =>
    if w = [60] then (match hexStr none [] rest with | some x => .ok x | none => .err)
    else if w = [40] then .unmodelled
    else .err

/-- first lexeme of an array element parsed with `ParseFlags::ANY` that is certainly rejected
    (`UnknownType`): not a string, not something that is or may be another object -/
def elemUnmodelled (w : Bytes) : Bool :=
  match w with
  | [] => true
  | b :: _ =>
    b == 40 || b == 91 || b == 47 || (48 ≤ b && b ≤ 57) || b == 45 || b == 43 || b == 46 ||
    w = [60, 60] || w = [116, 114, 117, 101] || w = [102, 97, 108, 115, 101] || w = [110, 117, 108, 108]

/-- the array loop: `if lexer.peek()?.equals(b"]") { break }`, element, …; then `lexer.next()` -/
def parseArr : Nat → Bytes → List Bytes → R (List Bytes × Bytes)
  | 0, _, _ => .oof
  | f + 1, bs, acc =>
    match nextWord bs with
    | none => .err                                   -- peek gives the empty lexeme, the element fails with EOF
    | some (w, rest) =>
      if w = [93] then .ok (acc.reverse, rest)
      else if w = [60] then
        match hexStr none [] rest with
        | some (s, r) => parseArr f r (s :: acc)
        | none => .err
      else if elemUnmodelled w then .unmodelled
      else .err

inductive Val where
  | str (s : Bytes)
  | arr (xs : List Bytes)
deriving Repr, DecidableEq

/-- `parse_with_lexer(lexer, &NoResolve, ParseFlags::STRING | ParseFlags::ARRAY)` -/
def parseStrOrArr (bs : Bytes) : R (Val × Bytes) :=
  match nextWord bs with
  | none => .err
  | some (w, rest) =>
    if w = [60] then (match hexStr none [] rest with | some (s, r) => .ok (.str s, r) | none => .err)
    else if w = [40] then .unmodelled
    else if w = [91] then
      match parseArr (rest.length + 1) rest [] with
      | .ok (xs, r) => .ok (.arr xs, r)
      | .err => .err
      | .unmodelled => .unmodelled
      | .oof => .oof
    else .err

/-- `data.chunks_exact(2).map(|w| u16::from_be_bytes(..))` (a trailing odd byte is dropped) -/
def units : Bytes → List Nat
  | a :: b :: r => (a.toNat * 256 + b.toNat) :: units r
  | _ => []

/-- `char::decode_utf16(..)` collected into `Result<_, _>`: `none` on an unpaired surrogate -/
def utf16Decode : List Nat → Option (List Nat)
  | [] => some []
  | u :: r =>
    if u < 0xD800 ∨ 0xDFFF < u then (utf16Decode r).map (u :: ·)
    else if u ≤ 0xDBFF then
      match r with
      | v :: r' =>
        if 0xDC00 ≤ v ∧ v ≤ 0xDFFF then (utf16Decode r').map ((0x10000 + (u - 0xD800) * 0x400 + (v - 0xDC00)) :: ·)
        else none
      | [] => none
    else none

/-- `utf16be_to_string` -/
def decodeStr (s : Bytes) : Option (List Nat) := utf16Decode (units s)

/-- `parse_cid` -/
def parseCid : Bytes → Option Nat
  | [a, b] => some (a.toNat * 256 + b.toNat)
  | [a] => some a.toNat
  | _ => none

/-- `ToUnicodeMap`: newest binding first -/
abbrev Map := List (Nat × List Nat)

def Map.insert (m : Map) (cid : Nat) (u : List Nat) : Map := (cid, u) :: m

def Map.get (m : Map) (cid : Nat) : Option (List Nat) := (m.find? (·.1 == cid)).map (·.2)

/-- `match utf16be_to_string(bytes) { Ok(unicode) => map.insert(cid, unicode), Err(_) => warn!(..) }` -/
def insertDecoded (m : Map) (cid : Nat) (s : Bytes) : Map :=
  match decodeStr s with
  | some u => m.insert cid u
  | none => m

/-- `let last = unicode_data.last_mut().unwrap(); if *last < 255 { *last += 1 } else { break }` -/
def incLast : Bytes → Option Bytes
  | [] => none
  | [b] => if b < 255 then some [b + 1] else none
  | a :: r => (incLast r).map (a :: ·)

/-- the string form of a range: `n` codes from `cid` on -/
def rangeStr : Nat → Nat → Bytes → Map → Map
  | 0, _, _, m => m
  | n + 1, cid, s, m =>
    let m' := insertDecoded m cid s
    match incLast s with
    | some s' => rangeStr n (cid + 1) s' m'
    | none => m'

/-- the array form: `(cid_start..=cid_end).zip(array)` -/
def rangeArr : Nat → Nat → List Bytes → Map → Map
  | 0, _, _, m => m
  | _, _, [], m => m
  | n + 1, cid, s :: ss, m => rangeArr n (cid + 1) ss (insertDecoded m cid s)

/-- the `beginbfchar => loop { … }`; returns the input position at `break` and the map -/
def bfchar : Nat → Bytes → Map → R (Bytes × Map)
  | 0, _, _ => .oof
  | f + 1, bs, m =>
    match parseStr bs with
    | .err => .ok (bs, m)                            -- `a.is_err()`: break, position restored
    | .unmodelled => .unmodelled
    | .oof => .oof
    | .ok (a, r1) =>
      match parseStr r1 with
      | .err => .ok (r1, m)                          -- `_ => break`
      | .unmodelled => .unmodelled
      | .oof => .oof
      | .ok (b, r2) =>
        match parseCid a with
        | none => .err                               -- `parse_cid(&cid_data)?`
        | some cid => bfchar f r2 (insertDecoded m cid b)

/-- the `beginbfrange => loop { … }` -/
def bfrange : Nat → Bytes → Map → R (Bytes × Map)
  | 0, _, _ => .oof
  | f + 1, bs, m =>
    match parseStr bs with
    | .err => .ok (bs, m)
    | .unmodelled => .unmodelled
    | .oof => .oof
    | .ok (a, r1) =>
      -- `b` and `c` are both parsed before anything is looked at
      match parseStr r1 with
      | .unmodelled => .unmodelled
      | .oof => .oof
      | .err =>
        match parseStrOrArr r1 with
        | .ok (_, r3) => .ok (r3, m)
        | .err => .ok (r1, m)
        | .unmodelled => .unmodelled
        | .oof => .oof
      | .ok (b, r2) =>
        match parseStrOrArr r2 with
        | .err => .ok (r2, m)
        | .unmodelled => .unmodelled
        | .oof => .oof
        | .ok (.str s, r3) =>
          if s.length > 0 then
            match parseCid a, parseCid b with
            | some lo, some hi => bfrange f r3 (rangeStr (hi + 1 - lo) lo s m)
            | _, _ => .err
          else .ok (r3, m)
        | .ok (.arr xs, r3) =>
          match parseCid a, parseCid b with
          | some lo, some hi => bfrange f r3 (rangeArr (hi + 1 - lo) lo xs m)
          | _, _ => .err

def kwBfchar : Bytes := [98, 101, 103, 105, 110, 98, 102, 99, 104, 97, 114]          -- beginbfchar
def kwBfrange : Bytes := [98, 101, 103, 105, 110, 98, 102, 114, 97, 110, 103, 101]   -- beginbfrange
def kwEndcmap : Bytes := [101, 110, 100, 99, 109, 97, 112]                           -- endcmap

/-- `while let Ok(substr) = lexer.next() { match substr.as_slice() { … } }` -/
def outer : Nat → Bytes → Map → R Map
  | 0, _, _ => .oof
  | f + 1, bs, m =>
    match nextWord bs with
    | none => .ok m
    | some (w, rest) =>
      if w = kwBfchar then
        match bfchar f rest m with
        | .ok (r, m') => outer f r m'
        | .err => .err
        | .unmodelled => .unmodelled
        | .oof => .oof
      else if w = kwBfrange then
        match bfrange f rest m with
        | .ok (r, m') => outer f r m'
        | .err => .err
        | .unmodelled => .unmodelled
        | .oof => .oof
      else if w = kwEndcmap then .ok m
      else outer f rest m

/-- `parse_cmap(data)` -/
def parseCMap (bs : Bytes) : R Map := outer (bs.length + 1) bs []

/-! ### writer -/

def hexDigit (n : Nat) : UInt8 := if n < 10 then UInt8.ofNat (48 + n) else UInt8.ofNat (55 + n)

/-- `{:04X}` of a `u16` -/
def hex4 (n : Nat) : Bytes :=
  [hexDigit (n / 4096 % 16), hexDigit (n / 256 % 16), hexDigit (n / 16 % 16), hexDigit (n % 16)]

/-- `write_cid` -/
def writeCid (cid : Nat) : Bytes := 60 :: hex4 cid ++ [62]

/-- `char::encode_utf16` over the characters of the string -/
def utf16Encode : List Nat → List Nat
  | [] => []
  | c :: r =>
    if c < 0x10000 then c :: utf16Encode r
    else (0xD800 + (c - 0x10000) / 0x400) :: (0xDC00 + (c - 0x10000) % 0x400) :: utf16Encode r

/-- `write_unicode` -/
def writeUnicode (u : List Nat) : Bytes := 60 :: (utf16Encode u).flatMap hex4 ++ [62]

abbrev Entry := Nat × List Nat

/-- result of the writer: `write_cmap` returns a `String`, but `first_cid + i as u16` is a checked `u16`
    addition -/
inductive W (α : Type) where
  | ok : α → W α
  | panic : W α
deriving Repr, DecidableEq

/-- the `from_fn` iterator of maximal runs: `cur` is the current block (reversed), `first` its first cid; the
    predicate `cid == first_cid + i as u16` is evaluated on the element at index `i = cur.length` -/
def blocksAux : List Entry → Nat → List Entry → W (List (List Entry))
  | cur, _, [] => .ok [cur.reverse]
  | cur, first, e :: rest =>
    let i := cur.length % 65536
    if first + i ≥ 65536 then .panic
    else if e.1 = first + i then blocksAux (e :: cur) first rest
    else match blocksAux [e] e.1 rest with
      | .ok bs => .ok (cur.reverse :: bs)
      | .panic => .panic

def blocks : List Entry → W (List (List Entry))
  | [] => .ok []
  | e :: rest => blocksAux [e] e.1 rest

def strBfcharBegin : Bytes := [98, 101, 103, 105, 110, 98, 102, 99, 104, 97, 114, 10]
def strBfcharEnd : Bytes := [101, 110, 100, 98, 102, 99, 104, 97, 114, 10]
def strBfrangeBegin : Bytes := [98, 101, 103, 105, 110, 98, 102, 114, 97, 110, 103, 101, 10]
def strBfrangeEnd : Bytes := [101, 110, 100, 98, 102, 114, 97, 110, 103, 101, 10]

def header (single : Bool) : Bytes := if single then strBfcharBegin else strBfrangeBegin
def footer (single : Bool) : Bytes := if single then strBfcharEnd else strBfrangeEnd

def joinSp : List Bytes → Bytes
  | [] => []
  | [x] => x
  | x :: xs => x ++ 32 :: joinSp xs

/-- the lines written for one block -/
def blockLines (single : Bool) (b : List Entry) : Bytes :=
  if single then b.flatMap (fun e => writeCid e.1 ++ 32 :: writeUnicode e.2 ++ [10])
  else match b.head?, b.getLast? with
    | some f, some l =>
      writeCid f.1 ++ 32 :: writeCid l.1 ++ [32, 91] ++ joinSp (b.map (fun e => writeUnicode e.2)) ++ [93, 10]
    | _, _ => []                                     -- `block[0]` on an empty block: blocks are never empty

/-- `for (single, group) in &blocks.group_by(|b| b.len() == 1)`: `st` = kind of the group being written -/
def emit : Option Bool → List (List Entry) → Bytes
  | none, [] => []
  | some s, [] => footer s
  | st, b :: bs =>
    let s := b.length == 1
    let pre := match st with
      | none => header s
      | some s0 => if s0 == s then [] else footer s0 ++ header s
    pre ++ blockLines s b ++ emit (some s) bs

/-- `write_cmap(map)`; `list` is the map's entries sorted (by cid: keys are unique) -/
def writeCMap (list : List Entry) : W Bytes :=
  match blocks list with
  | .ok bs => .ok (emit none bs)
  | .panic => .panic

end CMap
