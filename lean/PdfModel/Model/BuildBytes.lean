import PdfModel.Model.SaveBytes

/-!
  `PdfBuilder::build` (pdf/src/build.rs) as BYTES: the operations of `CatalogBuilder::build` on an empty storage
  (promises for the leaves, the page tree, per page its resources, its content stream and the leaf itself, the
  catalog) with every value a primitive, and the final `save` rendered by `SaveBytes.saveB`.

  Rust                                                          model
  ------------------------------------------------------------  ---------------------------------------------
  Storage::empty: refs = [Free], backend = "%PDF-1.7\n"          `emptyB`
  Trailer { root, id: ["foo","bar"], info_dict, prev: None }     trailer of `emptyB` (the root's number is known
                                                                  beforehand: `3n + 2`)
  PageTree { parent: None, kids, count, .. }.to_primitive        `treeVal`   (/Type /Pages /Kids /Count)
  update.create(page.resources)                                  `.create p.res`
  Content::to_primitive: update.create(Stream::new((), data))    `.create (contentVal p.content)`
  Page { .. }.to_dict: `other.clone()`, then `insert` of /Type,   `pageVal` (`SaveBytes.mergeDict` = the
    /Parent, /Resources, the boxes present, /Contents, /Rotate,    `Dictionary::insert`s in field order)
    /Metadata /LGIDict /VP if present
  update.fulfill(promise, PagesNode::Leaf(page))                 `.fulfil`
  Catalog { version: "1.7", pages, .. }.to_primitive             `catalogVal` (/Type /Catalog /Version /Pages)
  storage.save(&mut trailer); into_inner()                       `buildB`

  What a page *contains* is a parameter, already in primitive form (`PageB`): the builder's `other` dictionary, the
  rendered boxes / rotation / metadata entries in field order, the resources dictionary, the bytes of the content
  stream (`serialize_ops`: C08) — how typed values become those primitives is the business of C15 / C08; the harness
  obtains them from the library's own `to_primitive` of the fields.  The composition — numbering, the page
  dictionary's insert order, framing, cross-reference stream, trailer — is what is modelled here.
-/

namespace BuildBytes
open Storage PdfLex Xref SaveBytes

variable {R : Type}

def kPagesT : List UInt8 := [80, 97, 103, 101, 115]            -- Pages
def kKids : List UInt8 := [75, 105, 100, 115]                  -- Kids
def kCount : List UInt8 := [67, 111, 117, 110, 116]            -- Count
def kCatalog : List UInt8 := [67, 97, 116, 97, 108, 111, 103]  -- Catalog
def kVersion : List UInt8 := [86, 101, 114, 115, 105, 111, 110] -- Version
def k17 : List UInt8 := [49, 46, 55]                            -- 1.7
def kPage : List UInt8 := [80, 97, 103, 101]                    -- Page
def kParent : List UInt8 := [80, 97, 114, 101, 110, 116]        -- Parent
def kResources : List UInt8 := [82, 101, 115, 111, 117, 114, 99, 101, 115]  -- Resources
def kContents : List UInt8 := [67, 111, 110, 116, 101, 110, 116, 115]       -- Contents

/-- what a page consists of, in primitive form -/
structure PageB (R : Type) where
  /-- `PageBuilder.other` -/
  other : Dict R
  /-- /MediaBox /CropBox /TrimBox, those present, in this order -/
  boxes : List (List UInt8 × Prim R)
  /-- /Rotate, then /Metadata /LGIDict /VP, those present -/
  rest : List (List UInt8 × Prim R)
  /-- `Resources::to_primitive` -/
  res : Prim R
  /-- `serialize_ops(ops)` -/
  content : List UInt8

def treeVal (kids : List Nat) : Prim R :=
  .dict [(kType, .name kPagesT), (kKids, .arr (kids.map fun k => .ref k 0)), (kCount, .int kids.length)]

def pageVal (tree res c : Nat) (p : PageB R) : Prim R :=
  .dict (mergeDict p.other
    ([(kType, .name kPage), (kParent, .ref tree 0), (kResources, .ref res 0)] ++ p.boxes ++ [(kContents, .ref c 0)] ++ p.rest))

def contentVal (data : List UInt8) : Prim R := .stream [(kwLength, .int data.length)] (.pending data)

def catalogVal (tree : Nat) : Prim R :=
  .dict [(kType, .name kCatalog), (kVersion, .name k17), (kPagesT, .ref tree 0)]

/-- the loop over the pages: page `k` (0-based) of `n`: resources `n+2+2k`, content stream `n+3+2k`, leaf `k+1` -/
def pageOps (n : Nat) : Nat → List (PageB R) → List (OpB R)
  | _, [] => []
  | k, p :: ps =>
    .create p.res :: .create (contentVal p.content) :: .fulfil (k + 1) (pageVal (n + 1) (n + 2 + 2 * k) (n + 3 + 2 * k) p)
      :: pageOps n (k + 1) ps

/-- `CatalogBuilder::build` followed by `storage.create(catalog)` -/
def buildOps (pages : List (PageB R)) : List (OpB R) :=
  List.replicate pages.length .promise ++ [.create (treeVal (List.range' 1 pages.length))] ++
    pageOps pages.length 0 pages ++ [.create (catalogVal (pages.length + 1))]

/-- `%PDF-1.7\n` -/
def headerBytes : List UInt8 := [37, 80, 68, 70, 45, 49, 46, 55, 10]

/-- `"foo"`, `"bar"` -/
def builderIds : List (List UInt8) := [[102, 111, 111], [98, 97, 114]]

/-- `Storage::empty` with the trailer `PdfBuilder::build` makes for `n` pages -/
def emptyB (info : Option (Prim R)) (n : Nat) : BDoc R :=
  ⟨⟨⟨[.free 0 65535], [], [], false, [], [], 9, 0, 0⟩, ⟨(3 * n + 2, 0), info, none⟩⟩, builderIds, headerBytes⟩

/-- the state in which `PdfBuilder::build` calls `save` -/
def prepared (fmt : R → List UInt8) (pages : List (PageB R)) (info : Option (Prim R)) : BDoc R :=
  (runB fmt (emptyB info pages.length) (buildOps pages)).1

/-- `PdfBuilder::build`: the file (the catalog the builder made loads as a catalog: `typed = true`) -/
def buildB (fmt : R → List UInt8) (pages : List (PageB R)) (info : Option (Prim R)) : Out (List UInt8) :=
  match saveB fmt true (prepared fmt pages info) with
  | (b', .ok _) => .ok b'.bytes
  | (_, .err) => .err
  | (_, .panic) => .panic
  | (_, .oof) => .oof

end BuildBytes
