import PdfModel.Core.Out

/-!
  Model of the /Differences array of a simple font's /Encoding (property C19, simple fonts: which glyph name a
  character code selects).

  Rust item (pdf/src/encoding.rs)                              model definition
  ---------------------------------------------------------   --------------------------------------
  the elements of the /Differences array                        `DP ν` (ν = glyph names, opaque)
  the `for part in …` loop of `Encoding::from_primitive`
     (`gid = code as u32`, `differences.insert(gid, name)`,
      `gid.checked_add(1)` or `Err`)                            `readDiffs`
  `differences: HashMap<u32, SmallString>`                      `DMap ν` (newest binding first), `DMap.get`
  `Encoding::to_primitive`: sorted entries, a new code number
     wherever `last + 1 != gid`, `gid as i32`                    `writeDiffs`, `toI32`

  `code as u32` of an `i32`: a negative code becomes a huge one (`ofI32`).
-/

namespace FontEncoding

inductive DP (ν : Type) where
  | int (i : Int)
  | name (n : ν)
  | other
deriving Repr

abbrev DMap (ν : Type) := List (Nat × ν)

def DMap.get {ν : Type} (m : DMap ν) (code : Nat) : Option ν := (m.find? (·.1 == code)).map (·.2)

/-- `code as u32` -/
def ofI32 (i : Int) : Nat := if i < 0 then 4294967296 - i.natAbs else i.toNat

/-- `gid as i32` -/
def toI32 (g : Nat) : Int := if g < 2147483648 then (g : Int) else (g : Int) - 4294967296

/-- the loop over the /Differences array; `gid` starts at 0 -/
def readDiffs {ν : Type} : Nat → List (DP ν) → DMap ν → Out (DMap ν)
  | _, [], m => .ok m
  | _, .int c :: r, m => readDiffs (ofI32 c) r m
  | gid, .name n :: r, m =>
    if gid + 1 ≥ 4294967296 then .err            -- `gid.checked_add(1)` fails
    else readDiffs (gid + 1) r ((gid, n) :: m)
  | _, .other :: _, _ => .err                     -- "Unknown part primitive"

/-- `Encoding::to_primitive`'s list for the sorted entries; `last`: the previous code. `n + 1 == gid` is a checked
    `u32` addition. -/
def writeDiffs {ν : Type} : Option Nat → List (Nat × ν) → Out (List (DP ν))
  | _, [] => .ok []
  | last, (g, n) :: r =>
    match writeDiffs (some g) r with
    | .ok rest =>
      match last with
      | some l =>
        if l + 1 ≥ 4294967296 then .panic
        else if l + 1 = g then .ok (.name n :: rest) else .ok (.int (toI32 g) :: .name n :: rest)
      | none => .ok (.int (toI32 g) :: .name n :: rest)
    | .err => .err
    | .panic => .panic
    | .oof => .oof

end FontEncoding
