import PdfModel.Model.Parser
import PdfModel.Model.Xref

/-!
  (C01 package; `Model/XrefTable.lean` of the C02 package models the same reader with its round-trip theorems)
  Cursor-level model of the cross-reference *table* reader and of the dispatcher in front of it,
  `pdf/src/parser/parse_xref.rs`.

  Rust item                                   model definition
  ------------------------------------------  ------------------------------------------------------
  lexer.next_as::<u32>()                      `nextU32` (`parseU32`: `str::parse::<u32>`)
  the `for i in 0..num_ids` loop              `xrefEntryLoop` (fuel: rounds; every round consumes three lexemes)
  the `while lexer.peek()? != "trailer"` loop `xrefSectionLoop` (fuel: rounds; every round consumes two lexemes)
  parse_xref_table_and_trailer                `parseXrefTable` (sections, trailer dictionary, cursor)
  parse_xref_stream_and_trailer, up to        `xrefStreamHead` (`parse_indirect_stream`, then `trailer <<…>>` or the
    the typed `Stream::<XRefInfo>`              stream's own dictionary); the typed conversion, the decoding of the
                                                data and the `/Index` loop are `Model/XrefStream`, `Model/Numeric`
  read_xref_and_trailer_at                    `readXrefAt` (`xref` → table; otherwise `lexer.back()?` → stream)

  `num_ids` is a `u32` taken from the file: up to 2^32-1 rounds are *asked for*, but a round that finds no three
  lexemes ends the function, so at most `buf.size` rounds run (`Lemmas/TotalXrefTable.xrefEntryLoop_spec` shows
  that `buf.size + 1` units of fuel are never used up).
-/

namespace PdfLex

def kwXref : List UInt8 := [120, 114, 101, 102]
def kwTrailer : List UInt8 := [116, 114, 97, 105, 108, 101, 114]
def kwF : List UInt8 := [102]
def kwN : List UInt8 := [110]

/-- `str::from_utf8(tok)?.parse::<u32>()` -/
def parseU32 (t : List UInt8) : Option Nat :=
  let ds := stripPlus t
  if ds.isEmpty || !allDigits ds then none
  else if decVal ds > 4294967295 then none else some (decVal ds)

/-- `lexer.next_as::<u32>()`: value and new position -/
def nextU32 (buf : Buf) (pos : Nat) : Out (Nat × Nat) :=
  (next buf pos).bind fun w =>
  match parseU32 (slice buf w.1 w.2) with
  | some n => .ok (n, w.2)
  | none => .err

/-- the `for i in 0..num_ids` loop (`left` = rounds still asked for; `acc` reversed) -/
def xrefEntryLoop (buf : Buf) : Nat → Nat → Nat → List Xref.XRef → Out (List Xref.XRef × Nat)
  | _, 0, pos, acc => .ok (acc.reverse, pos)
  | 0, _ + 1, _, _ => .oof
  | fuel + 1, left + 1, pos, acc =>
    (next buf pos).bind fun w1 =>
    if slice buf w1.1 w1.2 == kwTrailer then .err else
    (next buf w1.2).bind fun w2 =>
    (next buf w2.2).bind fun w3 =>
    let t1 := slice buf w1.1 w1.2
    let t2 := slice buf w2.1 w2.2
    if slice buf w3.1 w3.2 == kwF then
      match parseU64 t1, parseU64 t2 with
      | some a, some g => xrefEntryLoop buf fuel left w3.2 (.free a g :: acc)
      | _, _ => .err
    else if slice buf w3.1 w3.2 == kwN then
      match parseU64 t1, parseU64 t2 with
      | some a, some g => xrefEntryLoop buf fuel left w3.2 (.raw a g :: acc)
      | _, _ => .err
    else .err

/-- the `while lexer.peek()? != "trailer"` loop (`acc` reversed): the sections and the position of `trailer` -/
def xrefSectionLoop (buf : Buf) : Nat → Nat → List Xref.Sub → Out (List Xref.Sub × Nat)
  | 0, _, _ => .oof
  | fuel + 1, pos, acc =>
    (peek buf pos).bind fun pk =>
    if slice buf pk.1 pk.2 == kwTrailer then .ok (acc.reverse, pos) else
    (nextU32 buf pos).bind fun (startId, p1) =>
    (nextU32 buf p1).bind fun (numIds, p2) =>
    (xrefEntryLoop buf (buf.size + 1) numIds p2 []).bind fun (es, p3) =>
    xrefSectionLoop buf fuel p3 (⟨startId, es⟩ :: acc)

/-- `parse_xref_table_and_trailer(lexer, resolve)`: sections, trailer dictionary and the cursor behind it -/
def parseXrefTable {R : Type} (env : Env R) (buf : Buf) (pos : Nat) : Out ((List Xref.Sub × Dict R) × Nat) :=
  (xrefSectionLoop buf (buf.size + 1) pos []).bind fun (secs, p) =>
  (nextExpect buf p kwTrailer).bind fun p1 =>
  (parseWithLexer env buf (defaultFuel buf) p1 Flags.dict).bind fun (v, p2) =>
  -- `trailer.into_dictionary()`
  match v with
  | .dict d => .ok ((secs, d), p2)
  | _ => .err

/-- `parse_xref_stream_and_trailer` up to the typed conversion: the stream object as read and the trailer
    dictionary (`trailer <<…>>` when that keyword follows, else the stream's own dictionary) -/
def xrefStreamHead {R : Type} (env : Env R) (buf : Buf) (pos : Nat) : Out ((Prim R × Dict R) × Nat) :=
  (parseIndirectStream env buf (defaultFuel buf) pos).bind fun ((_, stm), p) =>
  (next buf p).bind fun w =>
  if slice buf w.1 w.2 == kwTrailer then
    (parseWithLexer env buf (defaultFuel buf) w.2 Flags.dict).bind fun (v, p2) =>
    match v with
    | .dict d => .ok ((stm, d), p2)
    | _ => .err
  else
    match stm with
    | .stream info _ => .ok ((stm, info), w.2)
    | _ => .err

/-- what `read_xref_and_trailer_at` found -/
inductive XrefRead (R : Type) where
  | table (secs : List Xref.Sub) (trailer : Dict R)
  | stream (stm : Prim R) (trailer : Dict R)

/-- `read_xref_and_trailer_at(lexer, resolve)` -/
def readXrefAt {R : Type} (env : Env R) (buf : Buf) (pos : Nat) : Out (XrefRead R × Nat) :=
  (next buf pos).bind fun w =>
  if slice buf w.1 w.2 == kwXref then
    (parseXrefTable env buf w.2).bind fun ((secs, d), p) => .ok (.table secs d, p)
  else
    (back buf w.2).bind fun b =>
    (xrefStreamHead env buf b.1).bind fun ((stm, d), p) => .ok (.stream stm d, p)

end PdfLex
