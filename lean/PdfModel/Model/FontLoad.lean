import PdfModel.Model.Handwritten2

/-!
  `Font::from_primitive` (pdf/src/font.rs): the dispatch and the dictionary surgery — C01.

  Rust                                                                 here
  -------------------------------------------------------------------  ---------------------------------------------
  `p.resolve(resolve)?.into_dictionary()?`                              head of `fontPlan`
  `dict.require("Font", "Subtype")?` (removes the entry)                `dget` / `derase`, `MissingEntry`
  `t!(FontType::from_primitive(..))` (derived name enum)                `Derive.readEnum` over the generated `FontType`
  `dict.expect("Font", "Type", "Font", true)?`                          `Derive.expect`
  the `/BaseFont` rule (absent only for Type3)                          `baseFont`
  `dict.remove("Encoding").map(Object::from_primitive).transpose()?`    `Derive.readEncoding` (C15/C19 model)
  `dict.remove("ToUnicode")` → `Some(RcRef::<Stream<()>>::from_primitive(p)?)` recorded: `Plan.toUnicode` is the argument
  `_other = dict.clone()`                                               `Plan.other`
  Type0: `/DescendantFonts` resolved, truncated to one element, put back `truncDescendants`
  `Type0Font::from_dict` / `TFont::from_dict` / `CIDFont::from_dict`     recorded: `Plan.loader`, `Plan.dict`
  everything else: `FontData::Other(dict)`                              `Loader.other`
  `Font::from_primitive`                                                `readFont` = `fontPlan` + the recorded calls run
                                                                        through the derived reader (`Derive.readStructD`)

  `fontPlan` is what the function itself does; the two loads it hands over to (`ToUnicode`, the `from_dict` of the
  subtype) can only make it fail (`?`), so the real loader succeeds iff the plan does and both recorded calls do.
  `readFont` runs them through the model of the derived readers, whose leaf readers are a parameter (`sem`), so the
  nesting font-in-font (`Type0Font.descendant_fonts: Vec<MaybeRef<Font>>`) is a level of `Model/HandTower`.
  Not modelled: an `/Encoding` that is a stream object (read as its dictionary).
-/

namespace FontLoad
open Derive

/-- which `from_dict` the subtype selects -/
inductive Loader where
  | type0
  /-- `TFont` for Type1 and TrueType -/
  | tfont
  /-- `CIDFont` for CIDFontType0 and CIDFontType2 -/
  | cid
  /-- MMType1, Type3: the dictionary is kept -/
  | other
  deriving DecidableEq, Repr

def loaderOf (subtype : String) : Loader :=
  if subtype = "Type0" then .type0
  else if subtype = "Type1" ∨ subtype = "TrueType" then .tfont
  else if subtype = "CIDFontType0" ∨ subtype = "CIDFontType2" then .cid
  else .other

structure Plan where
  subtype : String
  name : Option String
  encoding : Option (String × FontEncoding.DMap String)
  /-- the argument of `RcRef::<Stream<()>>::from_primitive`, if the key is there (the `Option` is the key's presence:
      a `null` value is handed to the reader of the reference and refused) -/
  toUnicode : Option Prim
  /-- `_other` -/
  other : Dict
  loader : Loader
  /-- the dictionary the subtype's `from_dict` is handed -/
  dict : Dict

/-- the derived reader of `FontType` answers with the name it matched -/
def readSubtype (env : Env) (fontType : Schema) (p : Prim) : R String :=
  match readEnum env fontType p with
  | .error e => .error (.tryE e)
  | .ok (.leaf (.name n)) => .ok n
  | .ok _ => .error .other

/-- `/BaseFont`: `t!(t!(name.clone().resolve(resolve)).into_name())`; absent only for Type3 -/
def baseFont (env : Env) (d : Dict) (subtype : String) : R (Option String) :=
  match dget "BaseFont" d with
  | some q =>
    match resolve1 env q with
    | .error e => .error (.tryE e)
    | .ok (.name n) => .ok (some n)
    | .ok _ => .error (.tryE .other)
  | none => if subtype = "Type3" then .ok none else .error (.missingEntry "BaseFont")

/-- `/DescendantFonts` of a composite font: resolved, cut to its first element, put back -/
def truncDescendants (env : Env) (d : Dict) : R Dict :=
  match dget "DescendantFonts" d with
  | none => .ok d
  | some q =>
    match resolve1 env q with
    | .error e => .error (.tryE e)
    | .ok (.arr xs) => .ok (dinsert "DescendantFonts" (.arr (xs.take 1)) (derase "DescendantFonts" d))
    | .ok r => .ok (dinsert "DescendantFonts" r (derase "DescendantFonts" d))

def readEncodingOpt (env : Env) (d : Dict) : R (Option (String × FontEncoding.DMap String)) :=
  match dget "Encoding" d with
  | none => .ok none
  | some q =>
    match readEncoding env env.depth q with
    | .ok e => .ok (some e)
    | .error e => .error e

/-- `Font::from_primitive` up to the two loads it hands over to -/
def fontPlan (env : Env) (fontType : Schema) (p : Prim) : R Plan :=
  match resolve1 env p with
  | .error e => .error e
  | .ok (.dict d0) =>
    match dget "Subtype" d0 with
    | none => .error (.missingEntry "Subtype")
    | some st =>
      let d1 := derase "Subtype" d0
      match readSubtype env fontType st with
      | .error e => .error e
      | .ok subtype =>
        match expect d1 "Type" "Font" true with
        | .error e => .error e
        | .ok () =>
          match baseFont env d1 subtype with
          | .error e => .error e
          | .ok name =>
            match readEncodingOpt env d1 with
            | .error e => .error e
            | .ok enc =>
              let d2 := derase "Encoding" d1
              let tu := dget "ToUnicode" d2
              let d3 := derase "ToUnicode" d2
              let loader := loaderOf subtype
              match (if loader = .type0 then truncDescendants env d3 else .ok d3) with
              | .error e => .error e
              | .ok d4 =>
                .ok { subtype := subtype, name := name, encoding := enc, toUnicode := tu, other := d3,
                      loader := loader, dict := d4 }
  | .ok _ => .error .other

/-- the four derived models the loader uses -/
structure Schemas where
  fontType : Schema
  type0 : Schema
  tfont : Schema
  cid : Schema

inductive FontData where
  | type0 (v : Val)
  | tfont (v : Val)
  | cid (v : Val)
  | other (d : Dict)

structure FontV where
  plan : Plan
  toUnicode : Option Val
  data : FontData

/-- the shape read for a `/ToUnicode` entry that is there -/
def toUnicodeShape : Shape := .rcRef (.leafApp "Stream" (.leaf "()"))

def readToUnicode (cfg : Cfg) (sem : Sem) (env : Env) : Option Prim → R (Option Val)
  | none => .ok none
  | some q =>
    match readShape cfg sem env toUnicodeShape q with
    | .ok v => .ok (some v)
    | .error e => .error e

/-- the recorded calls, run through the derived readers -/
def runPlan (cfg : Cfg) (sem : Sem) (S : Schemas) (env : Env) (pl : Plan) : R FontV :=
  match readToUnicode cfg sem env pl.toUnicode with
  | .error e => .error e
  | .ok tu =>
    match pl.loader with
    | .type0 =>
      match readStructD cfg sem env S.type0 pl.dict with
      | .ok v => .ok ⟨pl, tu, .type0 v⟩
      | .error e => .error e
    | .tfont =>
      match readStructD cfg sem env S.tfont pl.dict with
      | .ok v => .ok ⟨pl, tu, .tfont v⟩
      | .error e => .error e
    | .cid =>
      match readStructD cfg sem env S.cid pl.dict with
      | .ok v => .ok ⟨pl, tu, .cid v⟩
      | .error e => .error e
    | .other => .ok ⟨pl, tu, .other pl.dict⟩

/-- `Font::from_primitive` -/
def readFont (cfg : Cfg) (sem : Sem) (S : Schemas) (env : Env) (p : Prim) : R FontV :=
  match fontPlan env S.fontType p with
  | .error e => .error e
  | .ok pl => runPlan cfg sem S env pl

end FontLoad
