import PdfModel.Model.Derive

/-!
# Hand-written reader / writer pairs (C15)

| Rust                                                                  | here |
|-----------------------------------------------------------------------|------|
| `impl Object for Action` / `impl ObjectWrite for Action` (object/types.rs) | `readAction`, `writeAction` |
| `impl Object for MaybeNamedDest` (`String` → `Named`, else the `Dest` reader) | `readNamedDest`, `writeNamedDest` |
| `impl ObjectWrite for Date`: the validity test and the format string     | `Date`, `dateValid`, `dateDigits` |
| `impl Object for Date`: the slices `2..6`, `6..8`, … of the string        | `dateParse` |

`Action::Goto(dest)` is the value `pair (leaf (name "GoTo")) dest`, `Action::Other(dict)` is `leaf (dict d)`.
The destination itself (`Dest`, an array) is a parameter: `rdDest` / `wrDest`.

`withS` distinguishes the pinned commit (`false`: the writer emitted `<< /D dest >>`, defect D37) from the
repaired writer (`true`: `<< /S /GoTo /D dest >>`).
-/

namespace Derive

def readNamedDest (rdDest : Prim → R Val) (env : Env) (p : Prim) : R Val :=
  -- `Reference(r) => resolve(r)?`; a dictionary is replaced by its `/D`; a string is a named destination
  match resolve1 env p with
  | .error e => .error e
  | .ok (.str s) => .ok (.leaf (.str s))
  | .ok (.dict d) =>
    match dget "D" d with
    | none => .error (.missingEntry "D")
    | some q => rdDest q
  | .ok q => rdDest q

def writeNamedDest (wrDest : Val → R Prim) : Val → R Prim
  | .leaf (.str s) => .ok (.str s)
  | v => wrDest v

/-- `Action::from_primitive` -/
def readAction (rdDest : Prim → R Val) (env : Env) (p : Prim) : R Val :=
  match resolve1 env p with
  | .error e => .error e
  | .ok (.dict d) =>
    match dget "S" d with
    | none => .error .other                       -- `try_opt!(d.get("S"))`
    | some (.name s) =>
      if s = "GoTo" then
        match dget "D" d with
        | none => .error .other                   -- `try_opt!(d.remove("D"))`
        | some q =>
          match readNamedDest rdDest env q with
          | .ok v => .ok (.pair (.leaf (.name "GoTo")) v)
          | .error e => .error (.tryE e)
      else .ok (.leaf (.dict d))
    | some _ => .error .other                     -- `.as_name()?`
  | .ok _ => .error (.tryE .other)                -- `t!(… .into_dictionary())`

/-- `Action::to_primitive` -/
def writeAction (withS : Bool) (wrDest : Val → R Prim) : Val → R Prim
  | .pair (.leaf (.name "GoTo")) dest =>
    match writeNamedDest wrDest dest with
    | .error e => .error e
    | .ok q =>
      .ok (.dict (if withS then dinsert "D" q (dinsert "S" (.name "GoTo") []) else dinsert "D" q []))
  | .leaf (.dict d) => .ok (.dict d)
  | _ => .error .other

/-- an `Action::Other` the reader gives back as such: it names an action type other than `GoTo` -/
def otherActionValid (d : Dict) : Bool :=
  match dget "S" d with
  | some (.name s) => s != "GoTo"
  | _ => false

/-! ## Dates (`primitive.rs`) -/

structure Date where
  year : Nat
  month : Nat
  day : Nat
  hour : Nat
  minute : Nat
  second : Nat
  /-- `TimeRel`: 0 `Earlier` (`-`), 1 `Later` (`+`), 2 `Universal` (`Z`) -/
  rel : Nat
  tzHour : Nat
  tzMinute : Nat
  deriving DecidableEq, Repr

/-- the test at the head of `Date::to_primitive`; `monthChecked = false` is the pinned commit (the month, a
    `u8`, was not tested: a month ≥ 100 printed with three digits) -/
def dateValid (monthChecked : Bool) (d : Date) : Bool :=
  !(d.year > 9999 || (monthChecked && d.month > 99) || d.day > 99 || d.hour > 23 || d.minute ≥ 60 || d.second ≥ 60
    || d.tzHour ≥ 24 || d.tzMinute ≥ 60)

/-- `{n:02}` for a `u8`: two digits, three from 100 on -/
def digits2 (n : Nat) : List Nat :=
  if n < 100 then [n / 10, n % 10] else [n / 100, n / 10 % 10, n % 10]

/-- `{n:04}` for a `u16`: four digits, five from 10000 on -/
def digits4 (n : Nat) : List Nat :=
  if n < 10000 then [n / 1000, n / 100 % 10, n / 10 % 10, n % 10]
  else [n / 10000, n / 1000 % 10, n / 100 % 10, n / 10 % 10, n % 10]

/-- the characters between `D:` and the time-zone sign, as digit values
    (`format!("D:{year:04}{month:02}{day:02}{hour:02}{minute:02}{second:02}{o}{tz_hour:02}'{tz_minute:02}")`) -/
def dateDigits (d : Date) : List Nat :=
  digits4 d.year ++ digits2 d.month ++ digits2 d.day ++ digits2 d.hour ++ digits2 d.minute ++ digits2 d.second

/-- the characters after the sign; the apostrophe is the value 39 -/
def zoneChars (d : Date) : List Nat := digits2 d.tzHour ++ [39] ++ digits2 d.tzMinute

def digitsVal (ds : List Nat) : Nat := ds.foldl (fun a x => a * 10 + x) 0

/-- the reader's view: the year is `s[2..6]`, then `time[6..8]`, `[8..10]`, … (offsets below are relative to the
    first digit), the zone is `zone[0..2]` and `zone[3..5]`; `rel` comes from the sign character itself -/
def dateParse (ds zone : List Nat) (rel : Nat) : Date :=
  { year := digitsVal (ds.take 4)
    month := digitsVal ((ds.drop 4).take 2)
    day := digitsVal ((ds.drop 6).take 2)
    hour := digitsVal ((ds.drop 8).take 2)
    minute := digitsVal ((ds.drop 10).take 2)
    second := digitsVal ((ds.drop 12).take 2)
    rel := rel
    tzHour := digitsVal (zone.take 2)
    tzMinute := digitsVal ((zone.drop 3).take 2) }

/-- write, then read -/
def dateRoundTrip (d : Date) : Date := dateParse (dateDigits d) (zoneChars d) d.rel

/-! ## Destinations (`object/types.rs`: `Dest::from_primitive`, `Dest::from_array`, `impl ObjectWrite for Dest`) -/

/-- `DestView`; `f32` values as bit patterns -/
inductive DestView where
  | xyz (left top : Option Nat) (zoom : Nat)
  | fit
  | fitH (top : Nat)
  | fitV (left : Nat)
  | fitR (left bottom right top : Nat)
  | fitB
  | fitBH (top : Nat)
  deriving DecidableEq, Repr

/-- `Dest { page: Option<Ref<Page>>, view }` -/
structure DestV where
  page : Option (Nat × Nat)
  view : DestView
  deriving DecidableEq, Repr

def optNumber : Option Nat → Prim
  | none => .null
  | some b => .real b

/-- `Dest::to_primitive` -/
def writeDest (d : DestV) : Prim :=
  let page : Prim := match d.page with
    | none => .null
    | some (i, g) => .ref i g
  .arr (page :: match d.view with
    | .xyz l t z => [.name "XYZ", optNumber l, optNumber t, .real z]
    | .fit => [.name "Fit"]
    | .fitH t => [.name "FitH", .real t]
    | .fitV l => [.name "FitV", .real l]
    | .fitR l b r t => [.name "FitR", .real l, .real b, .real r, .real t]
    | .fitB => [.name "FitB"]
    | .fitBH t => [.name "FitBH", .real t])

/-- `match *try_opt!(array.get(i)) { Null => None, Integer(n) => Some(n as f32), Number(f) => Some(f), _ => Err }` -/
def optCoord : Option Prim → R (Option Nat)
  | none => .error .other
  | some .null => .ok none
  | some (.int n) => .ok (some (f32OfInt n))
  | some (.real b) => .ok (some b)
  | some _ => .error .other

/-- `try_opt!(array.get(i)).as_number()?` -/
def coord : Option Prim → R Nat
  | some (.int n) => .ok (f32OfInt n)
  | some (.real b) => .ok b
  | _ => .error .other

/-- the zoom of `/XYZ`: absent and `null` are 0.0 -/
def zoomOf : Option Prim → R Nat
  | none => .ok 0
  | some .null => .ok 0
  | some (.int n) => .ok (f32OfInt n)
  | some (.real b) => .ok b
  | some _ => .error .other

/-- the page of a destination: `Option<Ref<Page>>::from_primitive(array[0])` -/
def destPage (tolerant : Bool) : Option Prim → R (Option (Nat × Nat))
  | none => .error .other
  | some .null => .ok none
  | some (.ref i g) => .ok (some (i, g))
  | some _ => if tolerant then .ok none else .error .other

/-- `Dest::from_array` -/
def readDestArr (tolerant : Bool) (xs : List Prim) : R DestV :=
  match destPage tolerant xs[0]? with
  | .error e => .error e
  | .ok page =>
    match (xs[1]? : Option Prim) with
    | some (Prim.name kind) =>
      let view : R DestView :=
        if kind = "XYZ" then
          match optCoord xs[2]?, optCoord xs[3]?, zoomOf xs[4]? with
          | .ok l, .ok t, .ok z => .ok (.xyz l t z)
          | _, _, _ => .error .other
        else if kind = "Fit" then .ok .fit
        else if kind = "FitH" then (match coord xs[2]? with | .ok t => .ok (.fitH t) | .error e => .error e)
        else if kind = "FitV" then (match coord xs[2]? with | .ok l => .ok (.fitV l) | .error e => .error e)
        else if kind = "FitR" then
          match coord xs[2]?, coord xs[3]?, coord xs[4]?, coord xs[5]? with
          | .ok l, .ok b, .ok r, .ok t => .ok (.fitR l b r t)
          | _, _, _, _ => .error .other
        else if kind = "FitB" then .ok .fitB
        else if kind = "FitBH" then (match coord xs[2]? with | .ok t => .ok (.fitBH t) | .error e => .error e)
        else .error .other
      match view with
      | .ok v => .ok { page := page, view := v }
      | .error e => .error e
    | _ => .error .other

/-- `Dest::from_primitive`: resolve a reference once, take `/D` of a dictionary, `t!(p.as_array())` -/
def readDest (env : Env) (p : Prim) : R DestV :=
  match resolve1 env p with
  | .error e => .error e
  | .ok q =>
    let q' : R Prim := match q with
      | .dict d => (match dget "D" d with | some x => .ok x | none => .error (.missingEntry "D"))
      | x => .ok x
    match q' with
    | .error e => .error e
    | .ok (.arr xs) => readDestArr env.tolerant xs
    | .ok _ => .error (.tryE .other)

end Derive
