import PdfModel.Model.Offsets
import PdfModel.Model.Parser

/-
  The token-level parsers of `Model/Offsets.lean` instantiated with the concrete lexer / parser models
  (`Model/Lexer.lean`, `Model/StrLexer.lean`, `Model/Parser.lean`), and the two call shapes of
  pdf/src/backend.rs / pdf/src/file.rs that hand a buffer to them:

  Rust                                                            model
  ----                                                            -----
  parse(slice, resolve, flags) in the compressed branch            concreteP.parseMember
  Lexer::with_offset(read(pos ..), pos); parse_indirect_object     readObjectAt  (and concreteP.objAt, which
                                                                   runs it with offset 0 and lets
                                                                   Model/Offsets add the position)
  Lexer::new(read(..)); seek_substr_back; next()?.to::<usize>()    locateXrefC   (the concrete twin of
                                                                   Offsets.locateXref)
  trailer /Size, /Prev; ObjStm /N, /First; as_usize                kwSize … asNat

  What stays a parameter is third-party or not modelled at byte level anywhere in the framework:
  `env.parseReal` (`f32::from_str`), `env.resolveLen` (the resolver seen from inside `parse_stream_object`),
  `dec` (the filter chain of an object stream: zlib, …), `X` (the cross-reference section reader:
  `read_xref_and_trailer_at`) and `S` (the item loop of `Storage::scan`).
-/

namespace PdfShift

/-- map over the value of an outcome -/
def omap {α β : Type} (f : α → β) : Out α → Out β
  | .ok a => .ok (f a)
  | .err => .err
  | .panic => .panic
  | .oof => .oof

end PdfShift

namespace Offsets
open PdfLex PdfShift

variable {R : Type}

def flagsNat : Offsets.Flags → Nat
  | .any => PdfLex.Flags.any
  | .integer => PdfLex.Flags.integer

def kwSize : List UInt8 := [83, 105, 122, 101]
def kwPrev : List UInt8 := [80, 114, 101, 118]
def kwN : List UInt8 := [78]
def kwFirst : List UInt8 := [70, 105, 114, 115, 116]

/-- `Primitive::as_usize` / `as_u32`: a non-negative integer -/
def asNat (v : Prim R) : Out Nat :=
  match v with
  | .int n => if n ≥ 0 then .ok n.toNat else .err
  | _ => .err

/-- what `parse_indirect_object` returned, in the vocabulary of `Offsets.ObjParse`: a stream is reported with
    the range of its data relative to the buffer (the lexer offset is 0) -/
def toObjParse (r : Out (((Nat × Nat) × Prim R) × Nat)) : Out (ObjParse (Prim R)) :=
  match r with
  | .ok ((_, .stream info (.inFile _ _ lo hi)), _) => .ok (.stream (.dict info) lo (.direct (hi - lo)))
  | .ok ((_, v), _) => .ok (.plain v)
  | .err => .err | .panic => .panic | .oof => .oof

def concreteP (env : Env R) (pfuel : Nat) (dec : Dict R → OffLex.Bytes → Out OffLex.Bytes)
    (X : OffLex.Bytes → Out (List Xref.Sub × Dict R)) (S : OffLex.Bytes → List (Out (Obj (Prim R)))) :
    Parsers (Prim R) (Dict R) where
  xrefAt := X
  sizeOf := fun tr => match dictGet tr kwSize with
    | some v => asNat v
    | none => .err
  prevOf := fun tr => (dictGet tr kwPrev).map asNat
  objAt := fun fl sfx => toObjParse (parseIndirectObject { env with fileOffset := 0 } sfx.toArray pfuel 0 (flagsNat fl))
  streamEnd := fun _ => .ok ()
  asLen := asNat
  stmHead := fun info => match info with
    | .dict d =>
      match dictGet d kwN, dictGet d kwFirst with
      | some n, some f => (asNat n).bind fun n => (asNat f).bind fun f => .ok (n, f)
      | _, _ => .err
    | _ => .err
  decode := fun info raw => match info with
    | .dict d => dec d raw
    | _ => .err
  parseMember := fun fl slice => omap Prod.fst (parse { env with fileOffset := 0 } slice.toArray (flagsNat fl))
  scanItems := S

/-- `Lexer::with_offset(t!(self.backend.read(pos ..)), pos)` + `parse_indirect_object(&mut lexer, …, flags)`
    with `pos = start_offset.checked_add(entry offset)`: the value read -/
def readObjectAt (env : Env R) (fuel : Nat) (buf : OffLex.Bytes) (start off flags : Nat) : Out (Prim R) :=
  match suffixAt buf start off with
  | .ok (q, sfx) => omap (fun r => r.1.2) (parseIndirectObject { env with fileOffset := q } sfx.toArray fuel 0 flags)
  | .err => .err | .panic => .panic | .oof => .oof

/-- `Backend::locate_xref_offset` with `Lexer::next` of `Model/Lexer.lean` and `parseU64` -/
def locateXrefC (buf : OffLex.Bytes) : Out Nat :=
  match OffLex.findLast startxrefKw (buf.take (buf.length - 1)) with
  | none => .err
  | some s =>
    match PdfLex.next buf.toArray (s + startxrefKw.length) with
    | .ok w =>
      match parseU64 (slice buf.toArray w.1 w.2) with
      | some n => .ok n
      | none => .err
    | .err => .err | .panic => .panic | .oof => .oof

end Offsets
