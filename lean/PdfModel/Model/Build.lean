import PdfModel.Model.Storage

/-!
  Model of `pdf/src/build.rs`: `CatalogBuilder::build` and `PdfBuilder::build`, on top of the storage
  model (`Model/Storage.lean`). What is modelled is the *order* in which object numbers are promised,
  created and fulfilled (including the objects that `to_primitive` creates on the way: the content
  stream of a page), the values left pending, and the final `save`. The payloads of a page (boxes,
  rotation, other entries), of its resources, of its content stream and of the info dictionary are
  abstract: their dictionary / operator form is the business of C15 / C08.

  Rust                                                 model
  ----                                                 -----
  Storage::empty (refs = XRefTable::new(0),            emptySt
     backend = "%PDF-1.7\n", start_offset = 0)
  kids_promise = pages.map(|_| update.promise())       promiseN
  PagesRc::create(PageTree { count, kids, .. })        create (.tree kids n)
  update.create(page.resources)                        create (.resources r)
  update.fulfill(promise, PagesNode::Leaf(page))       fulfilPage: `update` looks the slot up, then
     Page::to_primitive → Content::to_primitive          `to_primitive` creates the content stream
     → update.create(stream)                              (create (.content ops)), then the page value
                                                          goes into `changes`
  Catalog { version, pages: tree, .. }                 .catalog tree
  PdfBuilder::build: storage.create(catalog),          build
     Trailer { root, info_dict, .. }, storage.save
-/

namespace Build
open Storage Xref

/-- the values a built document consists of; `A R C I` are the payloads of a page (attributes),
    its resources, its content stream (operations) and the info dictionary -/
inductive BVal (A R C I : Type) where
  | tree (kids : List Nat) (count : Nat)
  | page (parent res content : Nat) (a : A)
  | resources (r : R)
  | content (c : C)
  | catalog (pages : Nat)
  | info (i : I)
  | xref
deriving Repr, DecidableEq

structure PageSpec (A R C : Type) where
  attrs : A
  res : R
  ops : C
deriving Repr, DecidableEq

variable {A R C I : Type}

abbrev BV (A R C I : Type) := BVal A R C I

/-- `Storage::empty`: the table holds only the head of the free list, the backend the header line -/
def emptySt (cached : Bool) : St (BV A R C I) :=
  ⟨[.free 0 65535], [], [], cached, [], [], 9, 0, 0⟩

/-- everything a builder writes is serialisable -/
def params : Params (BV A R C I) := ⟨fun _ => true, fun _ => .xref, fun _ _ _ => .xref⟩

/-- `pages.iter().map(|_| update.promise()).collect()` -/
def promiseN (st : St (BV A R C I)) : Nat → St (BV A R C I) × List Nat
  | 0 => (st, [])
  | n + 1 =>
    let (st1, id) := promise st
    let (st2, ids) := promiseN st1 n
    (st2, id :: ids)

/-- `update.fulfill(promise, PagesNode::Leaf(page))` -/
def fulfilPage (st : St (BV A R C I)) (pid tree res : Nat) (p : PageSpec A R C) :
    St (BV A R C I) × Out (Nat × Nat) :=
  match st.refs[pid]? with
  | none => (st, .err)
  | some (.free _ _) => (st, .panic)
  | some .invalid => (st, .panic)
  | some e =>
    let g := match e with
      | .raw _ g => g
      | _ => 0
    -- obj.to_primitive(self): /Contents is written as a new stream object
    let (st1, c) := create st (.content p.ops)
    ({ st1 with changes := chInsert st1.changes pid (.page tree res c p.attrs, g), cache := [] }, .ok (pid, g))

/-- the loop `for (page, promise) in self.pages.into_iter().zip(kids_promise)` -/
def fillPages (tree : Nat) : St (BV A R C I) → List (PageSpec A R C × Nat) → St (BV A R C I) × Out Unit
  | st, [] => (st, .ok ())
  | st, (p, pid) :: rest =>
    let (st1, res) := create st (.resources p.res)
    match fulfilPage st1 pid tree res p with
    | (st2, .ok _) => fillPages tree st2 rest
    | (st2, .err) => (st2, .err)
    | (st2, .panic) => (st2, .panic)
    | (st2, .oof) => (st2, .oof)

/-- `CatalogBuilder::build`: the state afterwards and the number of the page tree root -/
def buildCatalog (st : St (BV A R C I)) (pages : List (PageSpec A R C)) : St (BV A R C I) × Out Nat :=
  let (st1, kids) := promiseN st pages.length
  let (st2, tree) := create st1 (.tree kids pages.length)
  match fillPages tree st2 (pages.zip kids) with
  | (st3, .ok ()) => (st3, .ok tree)
  | (st3, .err) => (st3, .err)
  | (st3, .panic) => (st3, .panic)
  | (st3, .oof) => (st3, .oof)

/-- `PdfBuilder::build` up to the `save`: the document and its trailer -/
def prepare (cached : Bool) (pages : List (PageSpec A R C)) (info : Option I) : Out (Doc (BV A R C I)) :=
  match buildCatalog (emptySt cached) pages with
  | (st, .ok tree) =>
    let (st1, root) := create st (.catalog tree)
    .ok ⟨st1, ⟨(root, 0), info.map .info, none⟩⟩
  | (_, .err) => .err
  | (_, .panic) => .panic
  | (_, .oof) => .oof

/-- `PdfBuilder::build` -/
def build (L : Layout) (cached : Bool) (pages : List (PageSpec A R C)) (info : Option I) :
    Out (Doc (BV A R C I) × SaveInfo) :=
  match prepare cached pages info with
  | .ok d =>
    match save params L d with
    | (d', .ok i) => .ok (d', i)
    | (_, .err) => .err
    | (_, .panic) => .panic
    | (_, .oof) => .oof
  | .err => .err
  | .panic => .panic
  | .oof => .oof

/-! ### reading a document back as a page list (specification side of `build_pages`) -/

def pageAt (rd : Nat → Rd (BV A R C I)) (tree : Nat) (k : Nat) : Option (PageSpec A R C) :=
  match rd k with
  | .val (.page parent res content a) =>
    if parent = tree then
      match rd res, rd content with
      | .val (.resources r), .val (.content c) => some ⟨a, r, c⟩
      | _, _ => none
    else none
  | _ => none

def allSome {α : Type} : List (Option α) → Option (List α)
  | [] => some []
  | none :: _ => none
  | some x :: rest => match allSome rest with
    | some xs => some (x :: xs)
    | none => none

/-- the pages of the document whose catalog is object `root`, in order, as far as `rd` can read them:
    catalog → page tree root (with a /Count that matches its kids) → leaves -/
def pagesOf (rd : Nat → Rd (BV A R C I)) (root : Nat) : Option (List (PageSpec A R C)) :=
  match rd root with
  | .val (.catalog t) =>
    match rd t with
    | .val (.tree kids count) =>
      if count = kids.length then allSome (kids.map (pageAt rd t)) else none
    | _ => none
  | _ => none

end Build
