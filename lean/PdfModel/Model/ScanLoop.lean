import PdfModel.Model.XrefTable
import PdfModel.Model.OffsetsConcrete

/-
  Model of the item loop of `Storage::scan` (pdf/src/file.rs), after the D26 repair, on the concrete lexer /
  parser (`Model/Lexer.lean`, `Model/Parser.lean`).

  Rust                                                              model
  ----                                                              -----
  locate_xref_offset; start.checked_add; read(start .. end)          scanC  (locateXrefC, checkedAdd, readRange)
  Lexer::with_offset(slice, start_offset)                            the slice as buffer, lexer offset = `start`
  std::iter::from_fn(move || loop { … })                             step (one call of the closure), items (the
                                                                     calls until it answers `None`)
  parse_indirect_object(&mut lexer, &resolver, decoder, all())       PdfLex.parseIndirectObject, flags 1023
     Ok((r, p))              → Some(Ok(Object(r, p)))                  Item.obj
     Err(e) if e.is_eof()    → None                                   eofInHeader  (see below)
     Err(e) → lexer.set_pos(pos); if let Ok(s) = lexer.next() …
        "xref": skip_xref (`while lexer.next()? != "trailer" {}`),     skipXref
                then parse_with_lexer(&NoResolve, DICT) + into_dictionary   XrefTable.trailerDict
                Ok → Some(Ok(Trailer(d)))                              Item.trailer
        "startxref" if lexer.next().is_ok() → continue                 the recursive call of `step`
        anything else, or one of the above failing → Some(Err(e))      Item.error

  `is_eof`: the model's `.err` carries no kind.  The three header lexemes of `parse_indirect_object`
  (`id`, `gen`, `obj`) can only fail to be *read* with `PdfError::EOF`, and that is what ends the
  iteration of every well-formed file (the slice ends behind the last object).  An EOF raised deeper inside
  the object (a truncated last object) also ends the real iteration; the model reports an error item
  there.  That case is outside the files C17 quantifies over and is recorded as such in the harness.
-/

namespace ScanLoop
open PdfLex XrefTable Offsets

variable {R : Type}

inductive Item (R : Type) where
  | obj (id gen : Nat) (v : Prim R)
  | trailer (d : Dict R)
  | error
deriving Repr

/-- `startxref` -/
def kwStartxref : List UInt8 := [115, 116, 97, 114, 116, 120, 114, 101, 102]

/-- did `parse_indirect_object` fail because one of its three header lexemes could not be read (EOF)? -/
def eofInHeader (buf : Buf) (pos : Nat) : Bool :=
  match next buf pos with
  | .ok w1 =>
    match parseU64 (slice buf w1.1 w1.2) with
    | none => false
    | some _ =>
      match next buf w1.2 with
      | .ok w2 =>
        match parseU64 (slice buf w2.1 w2.2) with
        | none => false
        | some _ =>
          match next buf w2.2 with
          | .ok _ => false
          | _ => true
      | _ => true
  | _ => true

/-- `while lexer.next()? != "trailer" {}`: the position behind the keyword -/
def skipXref (buf : Buf) : Nat → Nat → Out Nat
  | 0, _ => .oof
  | fuel + 1, pos =>
    match next buf pos with
    | .ok w => if slice buf w.1 w.2 == kwTrailer then .ok w.2 else skipXref buf fuel w.2
    | .err => .err | .panic => .panic | .oof => .oof

/-- one call of the closure: the item (`none` = the iterator ends) and where the lexer stands -/
def step (env : Env R) (buf : Buf) (pfuel : Nat) : Nat → Nat → Out (Option (Item R) × Nat)
  | 0, _ => .oof
  | fuel + 1, pos =>
    match parseIndirectObject env buf pfuel pos 1023 with
    | .ok (((id, gen), v), q) => .ok (some (.obj id gen v), q)
    | .panic => .panic
    | .oof => .oof
    | .err =>
      if eofInHeader buf pos then .ok (none, pos)
      else
        match next buf pos with
        | .ok w =>
          if slice buf w.1 w.2 == kwXref then
            match skipXref buf (buf.size + 1) w.2 with
            | .ok q =>
              match trailerDict env buf pfuel q with
              | .ok (d, q2) => .ok (some (.trailer d), q2)
              | .err => .ok (some .error, q)
              | .panic => .panic
              | .oof => .oof
            | .err => .ok (some .error, w.2)
            | .panic => .panic
            | .oof => .oof
          else if slice buf w.1 w.2 == kwStartxref then
            match next buf w.2 with
            | .ok w2 => step env buf pfuel fuel w2.2
            | .err => .ok (some .error, w.2)
            | .panic => .panic
            | .oof => .oof
          else .ok (some .error, w.2)
        | .err => .ok (some .error, pos)
        | .panic => .panic
        | .oof => .oof

/-- everything the iterator yields -/
def items (env : Env R) (buf : Buf) (pfuel : Nat) : Nat → Nat → Out (List (Item R))
  | 0, _ => .oof
  | fuel + 1, pos =>
    match step env buf pfuel (buf.size + 2) pos with
    | .ok (none, _) => .ok []
    | .ok (some it, q) =>
      match items env buf pfuel fuel q with
      | .ok rest => .ok (it :: rest)
      | .err => .err | .panic => .panic | .oof => .oof
    | .err => .err | .panic => .panic | .oof => .oof

/-- `Storage::scan`: the slice from the header to the newest cross-reference section, lexer offset = the
    header position (the D26 repair), the items -/
def scanC (env : Env R) (buf : List UInt8) (start : Nat) : Out (List (Item R)) :=
  match locateXrefC buf with
  | .ok x =>
    match checkedAdd start x with
    | .ok stop =>
      match readRange buf start stop with
      | .ok sl => items { env with fileOffset := start } sl.toArray (PdfLex.defaultFuel sl.toArray) (sl.length + 2) 0
      | .err => .err | .panic => .panic | .oof => .oof
    | .err => .err | .panic => .panic | .oof => .oof
  | .err => .err | .panic => .panic | .oof => .oof

/-- the code before the D26 repair: end of the range not relative to the header, lexer offset 0, `unwrap` -/
def scanOldC (env : Env R) (buf : List UInt8) (start : Nat) : Out (List (Item R)) :=
  match locateXrefC buf with
  | .ok x =>
    match readRange buf start x with
    | .ok sl => items { env with fileOffset := 0 } sl.toArray (PdfLex.defaultFuel sl.toArray) (sl.length + 2) 0
    | _ => .panic
  | _ => .panic

end ScanLoop
