import PdfModel.Core.Out

/-
  Numeric parameters taken from the file, with *arbitrary* values, cast as the Rust casts them.
  `fixed = true` is the code after the C14 repairs, `fixed = false` the code before (kept so that the
  panic witnesses stay checkable).

  Rust                                                          model
  ----                                                          -----
  parse_xref_section_from_stream (parser/parse_xref.rs)         xrefCount, readU64, readEntry, readEntries, xrefSection
  read_u64_from_stream                                          readU64
  parse_xref_stream_and_trailer: the /Index loop                xrefSections
  ObjectStream::from_primitive (offset table),                  objOffsets
  ObjectStream::get_object_slice + the `data.get(range)` of     objSlice
    Storage::resolve_ref (object/stream.rs, file.rs)
  Encoding::from_primitive, /Differences (encoding.rs)          differences
  PsFunc::parse: the text between '{' and '}' (function.rs)     psBody
  PsFunc::exec_inner / exec                                     execOp, execInner, exec
  fax_decode: /Columns, /Rows (enc.rs)                          faxDims

  `usize` is `bits` wide (64 here, 32 on wasm32): `wrapOk bits n` is "n fits".
-/

namespace Numeric

def fits (bits n : Nat) : Bool := n < 2 ^ bits

-- ---------------------------------------------------------------------------------------------------
-- cross-reference streams

/-- number of entries a section reads: the check `num_entries * (w0+w1+w2) > data.len()` -/
def xrefCount (bits : Nat) (fixed tolerant : Bool) (num w0 w1 w2 len : Nat) : Out Nat :=
  if fixed then
    -- checked_add twice, zero is an error, compare with data.len() / entry_len
    if !(fits bits (w0 + w1)) then .err else
    if !(fits bits (w0 + w1 + w2)) then .err else
    let e := w0 + w1 + w2
    if e = 0 then .err else
    let maxEntries := len / e
    if num > maxEntries then (if tolerant then .ok maxEntries else .err) else .ok num
  else
    if !(fits bits (w0 + w1)) then .panic else
    if !(fits bits (w0 + w1 + w2)) then .panic else
    let e := w0 + w1 + w2
    if !(fits bits (num * e)) then .panic else
    if num * e > len then
      (if tolerant then (if e = 0 then .panic else .ok (len / e)) else .err)
    else .ok num

def beValue : List Nat → Nat
  | [] => 0
  | b :: rest => b * 256 ^ rest.length + beValue rest

/-- `read_u64_from_stream(width, data)`: value and the data left -/
def readU64 (width : Nat) (data : List Nat) : Out (Nat × List Nat) :=
  if width > 8 then .err else
  if width > data.length then .err else
  .ok (beValue (data.take width), data.drop width)

inductive XEntry where
  | free (next gen : Nat)
  | raw (pos gen : Nat)
  | stream (sid idx : Nat)
deriving Repr, DecidableEq, Inhabited

/-- one iteration of the entry loop -/
def readEntry (w0 w1 w2 : Nat) (data : List Nat) : Out (XEntry × List Nat) :=
  match (if w0 = 0 then Out.ok (1, data) else readU64 w0 data) with
  | .ok (ty, d1) =>
    match readU64 w1 d1 with
    | .ok (f1, d2) =>
      match readU64 w2 d2 with
      | .ok (f2, d3) =>
        if ty = 0 then .ok (.free f1 f2, d3)
        else if ty = 1 then .ok (.raw f1 f2, d3)
        else if ty = 2 then .ok (.stream f1 f2, d3)
        else .err
      | .err => .err | .panic => .panic | .oof => .oof
    | .err => .err | .panic => .panic | .oof => .oof
  | .err => .err | .panic => .panic | .oof => .oof

def readEntries (w0 w1 w2 : Nat) : Nat → List Nat → List XEntry → Out (List XEntry × List Nat)
  | 0, data, acc => .ok (acc.reverse, data)
  | n + 1, data, acc =>
    match readEntry w0 w1 w2 data with
    | .ok (e, rest) => readEntries w0 w1 w2 n rest (e :: acc)
    | .err => .err | .panic => .panic | .oof => .oof

/-- `parse_xref_section_from_stream`; `width` is the /W array -/
def xrefSection (bits : Nat) (fixed tolerant : Bool) (num : Nat) (width : List Nat) (data : List Nat) : Out (List XEntry × List Nat) :=
  match width with
  | [w0, w1, w2] =>
    match xrefCount bits fixed tolerant num w0 w1 w2 data.length with
    | .ok n => readEntries w0 w1 w2 n data []
    | .err => .err | .panic => .panic | .oof => .oof
  | _ => .err

/-- the /Index loop of `parse_xref_stream_and_trailer`: pairs (first id, count) -/
def xrefSections (bits : Nat) (fixed tolerant : Bool) (width : List Nat) : List (Nat × Nat) → List Nat → List (Nat × List XEntry) → Out (List (Nat × List XEntry))
  | [], _, acc => .ok acc.reverse
  | (first, num) :: rest, data, acc =>
    match xrefSection bits fixed tolerant num width data with
    | .ok (es, left) => xrefSections bits fixed tolerant width rest left ((first, es) :: acc)
    | .err => .err | .panic => .panic | .oof => .oof

-- ---------------------------------------------------------------------------------------------------
-- object streams

/-- `ObjectStream::from_primitive`: N pairs "object number, offset" read as u64 / usize; `none` is a
    token that is not such a number (negative, too large, not a number, end of data) -/
def objOffsets : Nat → List (Option Nat × Option Nat) → List Nat → Out (List Nat)
  | 0, _, acc => .ok acc.reverse
  | _ + 1, [], _ => .err
  | n + 1, (some _, some off) :: rest, acc => objOffsets n rest (off :: acc)
  | _ + 1, _ :: _, _ => .err

/-- the end of member `index`: the end of the data for the last member, else the next position -/
def objStop (bits : Nat) (fixed : Bool) (first : Nat) (offsets : List Nat) (index dataLen : Nat) : Out Nat :=
  if index = offsets.length - 1 then .ok dataLen else
  match offsets[index + 1]? with
  | none => .panic   -- unreachable for index < offsets.length
  | some o2 => if !(fits bits (first + o2)) then (if fixed then .err else .panic) else .ok (first + o2)

/-- `get_object_slice(index)` followed by `data.get(range)`: the byte range of member `index` -/
def objSlice (bits : Nat) (fixed : Bool) (first : Nat) (offsets : List Nat) (index dataLen : Nat) : Out (Nat × Nat) :=
  if index ≥ offsets.length then .err else
  match offsets[index]? with
  | none => .panic   -- unreachable: guarded by the test above
  | some o =>
    if !(fits bits (first + o)) then (if fixed then .err else .panic) else
    match objStop bits fixed first offsets index dataLen with
    | .ok e => if first + o ≤ e ∧ e ≤ dataLen then .ok (first + o, e) else .err
    | .err => .err | .panic => .panic | .oof => .oof

-- ---------------------------------------------------------------------------------------------------
-- /Differences

inductive DPart where
  | code (c : Int)      -- an i32 from the file
  | name (n : Nat)
  | other
deriving Repr, DecidableEq, Inhabited

def insertDiff (m : List (Nat × Nat)) (gid name : Nat) : List (Nat × Nat) :=
  match m with
  | [] => [(gid, name)]
  | (g, n) :: rest =>
    if gid < g then (gid, name) :: (g, n) :: rest
    else if gid = g then (gid, name) :: rest
    else (g, n) :: insertDiff rest gid name

/-- `code as u32` for an i32 -/
def asU32 (c : Int) : Nat := (c % 4294967296).toNat

/-- the loop over the parts of a /Differences array; the map as a list sorted by code -/
def differences (fixed : Bool) : List DPart → Nat → List (Nat × Nat) → Out (List (Nat × Nat))
  | [], _, m => .ok m
  | .code c :: rest, _, m => differences fixed rest (asU32 c) m
  | .name n :: rest, gid, m =>
    if gid + 1 > 4294967295 then (if fixed then .err else .panic)
    else differences fixed rest (gid + 1) (insertDiff m gid n)
  | .other :: _, _, _ => .err

-- ---------------------------------------------------------------------------------------------------
-- PostScript calculator functions

def findFirst (c : Nat) : List Nat → Nat → Option Nat
  | [], _ => none
  | b :: rest, i => if b = c then some i else findFirst c rest (i + 1)

def findLast (c : Nat) : List Nat → Nat → Option Nat → Option Nat
  | [], _, last => last
  | b :: rest, i, last => findLast c rest (i + 1) (if b = c then some i else last)

/-- `PsFunc::parse`: the bytes between the first '{' and the last '}' -/
def psBody (fixed : Bool) (s : List Nat) : Out (List Nat) :=
  match findFirst 123 s 0, findLast 125 s 0 none with
  | some start, some stop =>
    if start + 1 ≤ stop then .ok ((s.take stop).drop (start + 1))
    else (if fixed then .err else .panic)
  | _, _ => .err

/-- the arithmetic of the value type (f32 in the implementation) is a parameter: totality does not
    depend on it. `toIsize` / `toUsize` are the saturating `as` casts. -/
structure Arith (V : Type) where
  ofInt : Int → V
  add : V → V → V
  sub : V → V → V
  mul : V → V → V
  abs : V → V
  toIsize : V → Int
  toUsize : V → Nat

inductive PsOp (V : Type) where
  | int (i : Int)
  | value (v : V)
  | add | sub | abs | mul | dup | exch | roll | index | cvr | pop

def isizeMin : Int := -9223372036854775808

/-- `Vec::pop`: the stack is kept bottom → top like the `Vec` -/
def pop? {V : Type} (st : List V) : Option (V × List V) :=
  match st.reverse with
  | [] => none
  | top :: rest => some (top, rest.reverse)

def rotateRight {V : Type} (l : List V) (k : Nat) : List V := l.drop (l.length - k) ++ l.take (l.length - k)
def rotateLeft {V : Type} (l : List V) (k : Nat) : List V := l.drop k ++ l.take k

def binop {V : Type} (f : V → V → V) (st : List V) : Out (List V) :=
  match pop? st with
  | none => .err
  | some (b, st1) =>
    match pop? st1 with
    | none => .err
    | some (a, st2) => .ok (st2 ++ [f a b])

/-- one step of `exec_inner` -/
def execOp {V : Type} (A : Arith V) (fixed : Bool) (op : PsOp V) (st : List V) : Out (List V) :=
  match op with
  | .int i => .ok (st ++ [A.ofInt i])
  | .value v => .ok (st ++ [v])
  | .dup => match pop? st with
    | none => .err
    | some (v, st1) => .ok (st1 ++ [v, v])
  | .exch => match pop? st with
    | none => .err
    | some (b, st1) => match pop? st1 with
      | none => .err
      | some (a, st2) => .ok (st2 ++ [b, a])
  | .add => binop A.add st
  | .sub => binop A.sub st
  | .mul => binop A.mul st
  | .abs => match pop? st with
    | none => .err
    | some (a, st1) => .ok (st1 ++ [A.abs a])
  | .cvr => .ok st
  | .pop => match pop? st with
    | none => .err
    | some (_, st1) => .ok st1
  | .index => match pop? st with
    | none => .err
    | some (v, st1) =>
      let n := A.toUsize v
      if n ≥ st1.length then .err else
      match st1[st1.length - n - 1]? with
      | none => .panic   -- unreachable
      | some x => .ok (st1 ++ [x])
  | .roll => match pop? st with
    | none => .err
    | some (vj, st1) => match pop? st1 with
      | none => .err
      | some (vn, st2) =>
        let j := A.toIsize vj
        let n := A.toUsize vn
        if n > st2.length then (if fixed then .err else .panic) else
        let keep := st2.take (st2.length - n)
        let top := st2.drop (st2.length - n)
        if fixed then
          (if n = 0 then .ok st2 else .ok (keep ++ rotateRight top (j % (n : Int)).toNat))
        else if j > 0 then
          (if j.toNat > n then .panic else .ok (keep ++ rotateRight top j.toNat))
        else if j = isizeMin then .panic
        else (if (-j).toNat > n then .panic else .ok (keep ++ rotateLeft top (-j).toNat))

def execInner {V : Type} (A : Arith V) (fixed : Bool) : List (PsOp V) → List V → Out (List V)
  | [], st => .ok st
  | op :: rest, st =>
    match execOp A fixed op st with
    | .ok st' => execInner A fixed rest st'
    | .err => .err | .panic => .panic | .oof => .oof

/-- `PsFunc::exec(input, output)`: the output slice must have the length of the final stack -/
def exec {V : Type} (A : Arith V) (fixed : Bool) (ops : List (PsOp V)) (input : List V) (outLen : Nat) : Out (List V) :=
  match execInner A fixed ops input with
  | .ok st => if outLen ≠ st.length then .err else .ok st
  | .err => .err | .panic => .panic | .oof => .oof

-- ---------------------------------------------------------------------------------------------------
-- CCITT fax dimensions

/-- what `fax_decode` does with /Columns and /Rows (u32 from the file) before any decoding:
    `ok (width, height)` are the values handed to the decoder (height 0 = unknown) -/
def faxDims (fixed : Bool) (columns rows : Nat) : Out (Nat × Nat) :=
  if fixed then
    if columns = 0 ∨ columns > 65535 then .err else
    if rows > 65535 then .err else .ok (columns, rows)
  else
    -- `columns as u16`, `rows as u16`, `Vec::with_capacity(columns * rows)`, `buf.len() % columns`
    if columns * rows ≥ 2 ^ 63 then .panic else   -- capacity overflow
    if columns = 0 then .panic else .ok (columns % 65536, rows % 65536)


/-- `fax_decode` with the data: a coded row takes at least one bit, `/Rows` above `8 · data.len()` is an
    error. `ok (width, height)`: the decoder writes at most `height` rows of `width` bytes when `height > 0`. -/
def faxDimsData (columns rows dataLen : Nat) : Out (Nat × Nat) :=
  match faxDims true columns rows with
  | .ok (c, r) => if r > 8 * dataLen then .err else .ok (c, r)
  | o => o

-- ---------------------------------------------------------------------------------------------------
-- key lengths of the standard security handler (crypt.rs)
--
-- `Model/Crypt.lean` (owned by the C06 package) models `from_password` with total list operations
-- (`take`): it says *what* is hashed. What follows is the other half: the slice and buffer arithmetic of
-- the same lines, with the key length as an arbitrary number, where every `&x[..n]` can fail.

/-- `&buf[..n]` on a buffer of `len` bytes -/
def sliceTo (n len : Nat) : Out Unit := if n ≤ len then .ok () else .panic

/-- `Rc4::new(key)`: `assert!(!key.is_empty() && key.len() <= 256)` -/
def rc4Key (len : Nat) : Out Unit := if 0 < len ∧ len ≤ 256 then .ok () else .panic

/-- `filter_key_bits`: the crypt filter gives the key length in bytes, `n.checked_mul(8)` in u32
    (`fixed = false`: the unchecked `8 * n`) -/
def cfKeyBits (fixed : Bool) (n : Nat) : Out Nat :=
  if 8 * n < 4294967296 then .ok (8 * n) else (if fixed then .err else .panic)

def seqU (a : Out Unit) (b : Out Unit) : Out Unit :=
  match a with
  | .ok _ => b
  | o => o

/-- `key_derivation_user_password_rc4`: step h) slices the 16 byte digest, then the key buffer of
    `max key_size 16` bytes takes the digest. `clamp = false` is the code without the `min(key_size, 16)`. -/
def userKeySlices (clamp : Bool) (revision keySize : Nat) : Out Unit :=
  seqU (if revision ≥ 3 then sliceTo (if clamp then min keySize 16 else keySize) 16 else .ok ())
       (sliceTo 16 (max keySize 16))

/-- the slices and cipher keys of `from_password` for revisions 2–4, in order; `userOk`: the user
    password check succeeds (otherwise the owner path is taken) -/
def keySchedule (clamp : Bool) (revision keyBits : Nat) (userOk : Bool) : Out Unit :=
  let keySize := keyBits / 8
  if keySize = 0 then .err else
  -- `MAX_KEY_SIZE = 32`: refused before the buffer of `max key_size 16` bytes is allocated
  if keySize > 32 then .err else
  seqU (userKeySlices clamp revision keySize) <|
  -- `&key[..min(key_size, 16)]` of a key of `max key_size 16` bytes, as an RC4 key
  seqU (sliceTo (min keySize 16) (max keySize 16)) <|
  seqU (rc4Key (min keySize 16)) <|
  if userOk then .ok () else
  -- owner path: `key_size > 16` is refused, `&hash[..key_size]`, the wrap key keys RC4, the user key again,
  -- then `&key[..key_size]`
  if keySize > 16 then .err else
  seqU (sliceTo keySize 16) <|
  seqU (rc4Key keySize) <|
  seqU (userKeySlices clamp revision keySize) <|
  seqU (sliceTo keySize (max keySize 16)) (rc4Key keySize)

/-- `Decoder::decrypt`, methods V2 / AESV2: `n = min(key_size, 16)` bytes of the key (`keyLen` bytes
    long) go into a buffer of 21 / 41 bytes followed by 5 / 9 more; the object key has `min(n + 5, 16)` bytes -/
def objectKeySlices (aes : Bool) (keySize keyLen : Nat) : Out Unit :=
  let n := min keySize 16
  seqU (sliceTo n keyLen) <|
  seqU (sliceTo (n + (if aes then 9 else 5)) (if aes then 41 else 21)) <|
  if aes then .ok () else rc4Key (min (n + 5) 16)

/-- bytes `from_password` allocates for the key of revisions 2–4 (`vec![0u8; key_size.max(16)]`, twice on
    the owner path); `bounded = false` is the code that did not refuse long keys -/
def keyBufferBytes (bounded : Bool) (keyBits : Nat) : Nat :=
  let keySize := keyBits / 8
  if keySize = 0 then 0 else if bounded && decide (keySize > 32) then 0 else 2 * max keySize 16

end Numeric
