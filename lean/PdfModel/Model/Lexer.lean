import PdfModel.Core.Out

/-!
  Model of `pdf/src/parser/lexer/mod.rs` (cursor based: `buf : Array UInt8`, `pos : Nat`).

  Rust item                                   model definition
  ------------------------------------------  ------------------------------------------------------
  is_whitespace (fn, l.43)                    `isWhitespace`
  b"()<>[]{}/%".contains (is_delimiter)       `isDelimiter`
  boundary(data, pos, cond)                   `boundary` (`data[pos ..]` panics when pos > len) over `scanWhile`
  boundary_rev(data, pos, cond)               `boundaryRev` (`data[.. pos]` panics when pos > len) over `scanBack`
  Lexer::skip_whitespace                      `skipWhitespace`
  Lexer::is_whitespace / is_delimiter (pos)   `isWsAt` / `isDelimAt`
  Lexer::advance_pos                          `advancePos`
  Lexer::new_substr                           `newSubstr` (range swap + slice panic)
  Lexer::next_word                            `nextWord` = `tokenStart` (white-space, comment loop `skipComments`)
                                              then `lexemeAt` (regular run = `scanRegular`)
  Lexer::next / peek / back / next_expect     `next` / `peek` / `back` / `nextExpect`
  Lexer::next_stream                          `nextStream`
  Lexer::set_pos / offset_pos / read_n        `setPos` / `offsetPos` / `readN`
  Lexer::get_remaining_slice                  `remainingStart` (the panic of `&buf[pos..]`)
  Lexer::set_pos_from_end                     `setPosFromEnd`
  Lexer::seek_substr / seek_substr_back       `seekSubstr` / `seekSubstrBack` (over `findFwd` / `findBack`)
  Lexer::ctx                                  `ctxRange`
  Lexer::seek_newline / incr_pos              `seekNewline` / `incrPos`
  Substr::is_integer / real_number            `isInteger` / `realNumber` (on the token bytes)
  Substr::to::<i32> / to::<u64>               `parseI32` / `parseU64` (str::from_utf8 + FromStr, `none` = Err)
  Substr::equals                              list equality on `slice`

  A `Substr` is the pair `(start, stop)` of positions into `buf` (`file_offset` = lexer offset + start);
  its bytes are `slice buf start stop`.  Every error of `next_word` is `PdfError::EOF`, which is why `peek`
  may map `.err` to the empty lexeme.

  Loops are structurally recursive on a fuel argument.  For the plain scans the fuel is `buf.size - pos`
  and running out of it *is* reaching the end of the buffer (no `oof`); the comment loop of `next_word`
  gets `buf.size` and reports `oof` (never reached: every round consumes a byte).

  usize arithmetic: `+` that can exceed `usize::MAX` (2^64-1) is an explicit `.panic` (overflow checks are
  on in the harness), `wrapping_add` wraps.
-/

namespace PdfLex

abbrev Buf := Array UInt8

def usizeMax : Nat := 18446744073709551615

/-- `fn is_whitespace(b)`: NUL, HT, LF, FF, CR, SP -/
def isWhitespace (b : UInt8) : Bool :=
  b == 0 || b == 32 || b == 13 || b == 10 || b == 9 || b == 12

/-- `b"()<>[]{}/%".contains(b)` -/
def isDelimiter (b : UInt8) : Bool :=
  b == 40 || b == 41 || b == 60 || b == 62 || b == 91 || b == 93 || b == 123 || b == 125 || b == 47 || b == 37

/-- neither white-space nor delimiter -/
def isRegular (b : UInt8) : Bool := !isWhitespace b && !isDelimiter b

def isDigit (b : UInt8) : Bool := 48 ≤ b && b ≤ 57

/-- the bytes of `buf[start .. stop]` (empty where the range is empty) -/
def slice (buf : Buf) (start stop : Nat) : List UInt8 := (buf.extract start stop).toList

/-- first index `≥ pos` whose byte does not satisfy `cond`; `buf.size` if there is none.
    Called with `fuel = buf.size - pos`. -/
def scanWhile (buf : Buf) (cond : UInt8 → Bool) : Nat → Nat → Nat
  | 0, _ => buf.size
  | fuel + 1, pos =>
    match buf[pos]? with
    | none => buf.size
    | some b => if cond b then scanWhile buf cond fuel (pos + 1) else pos

/-- `boundary(data, pos, cond)` -/
def boundary (buf : Buf) (pos : Nat) (cond : UInt8 → Bool) : Out Nat :=
  if pos > buf.size then .panic else .ok (scanWhile buf cond (buf.size - pos) pos)

/-- going down from `pos`: the least `q ≤ pos` such that all bytes of `buf[q .. pos]` satisfy `cond` -/
def scanBack (buf : Buf) (cond : UInt8 → Bool) : Nat → Nat
  | 0 => 0
  | pos + 1 =>
    match buf[pos]? with
    | none => pos + 1
    | some b => if cond b then scanBack buf cond pos else pos + 1

/-- `boundary_rev(data, pos, cond)` -/
def boundaryRev (buf : Buf) (pos : Nat) (cond : UInt8 → Bool) : Out Nat :=
  if pos > buf.size then .panic else .ok (scanBack buf cond pos)

/-- `Lexer::skip_whitespace(pos)` -/
def skipWhitespace (buf : Buf) (pos : Nat) : Out Nat :=
  (boundary buf pos isWhitespace).bind fun p => if p ≥ buf.size then .err else .ok p

def isWsAt (buf : Buf) (pos : Nat) : Bool :=
  match buf[pos]? with
  | some b => isWhitespace b
  | none => false

def isDelimAt (buf : Buf) (pos : Nat) : Bool :=
  match buf[pos]? with
  | some b => isDelimiter b
  | none => false

/-- `Lexer::advance_pos` -/
def advancePos (buf : Buf) (pos : Nat) : Out Nat :=
  if pos < buf.size then .ok (pos + 1) else .err

/-- `Lexer::new_substr(range)`: a backward range is turned round, then `&self.buf[range]` -/
def newSubstr (buf : Buf) (start stop : Nat) : Out (Nat × Nat) :=
  let r : Nat × Nat := if start > stop then (stop + 1, start + 1) else (start, stop)
  if r.1 > r.2 || r.2 > buf.size then .panic else .ok r

/-- the `while !is_whitespace(pos) && !is_delimiter(pos) { advance or break }` run -/
def scanRegular (buf : Buf) (pos : Nat) : Nat := scanWhile buf isRegular (buf.size - pos) pos

/-- index of the first CR or LF at or after `pos` (`buf[pos..].iter().position(..)`, as absolute index) -/
def findEol (buf : Buf) : Nat → Nat → Option Nat
  | 0, _ => none
  | fuel + 1, pos =>
    match buf[pos]? with
    | none => none
    | some b => if b == 10 || b == 13 then some pos else findEol buf fuel (pos + 1)

/-- the comment loop of `next_word`, entered after the first `skip_whitespace` -/
def skipComments (buf : Buf) : Nat → Nat → Out Nat
  | fuel, pos =>
    if buf[pos]? == some 37 then
      match fuel with
      | 0 => .oof
      | fuel + 1 =>
        let pos1 := pos + 1
        -- `self.buf[pos..]`
        if pos1 > buf.size then .panic else
        let pos2 := match findEol buf (buf.size - pos1) pos1 with
          | some p => p + 1
          | none => pos1
        (skipWhitespace buf pos2).bind fun p => skipComments buf fuel p
    else .ok pos

/-- `self.buf.get(pos..=pos+1)` is `<<` or `>>` -/
def isDouble (buf : Buf) (pos : Nat) : Bool :=
  match buf[pos]?, buf[pos + 1]? with
  | some a, some c => (a == 60 && c == 60) || (a == 62 && c == 62)
  | _, _ => false

/-- first part of `next_word`: white-space and comments are skipped; the position where the lexeme starts -/
def tokenStart (buf : Buf) (pos : Nat) : Out Nat :=
  (skipWhitespace buf pos).bind fun p0 => skipComments buf buf.size p0

/-- second part of `next_word`: the lexeme that starts at `start` -/
def lexemeAt (buf : Buf) (start : Nat) : Out (Nat × Nat) :=
  if isDelimAt buf start then
    match buf[start]? with
    | none => .panic   -- `self.buf[pos]`
    | some b =>
      if b == 47 then
        (advancePos buf start).bind fun p =>
        newSubstr buf start (scanRegular buf p)
      else
        (if isDouble buf start then advancePos buf start else Out.ok start).bind fun p1 =>
        (advancePos buf p1).bind fun p2 =>
        newSubstr buf start p2
  else
    newSubstr buf start (scanRegular buf start)

/-- `Lexer::next_word`: `(start, stop)` of the lexeme; the new position is `stop` -/
def nextWord (buf : Buf) (pos : Nat) : Out (Nat × Nat) :=
  if pos == buf.size then .err else
  (tokenStart buf pos).bind fun start => lexemeAt buf start

/-- `Lexer::next`: lexeme and new position -/
def next (buf : Buf) (pos : Nat) : Out (Nat × Nat) := nextWord buf pos

/-- `Lexer::peek` -/
def peek (buf : Buf) (pos : Nat) : Out (Nat × Nat) :=
  match nextWord buf pos with
  | .ok w => .ok w
  | .err => newSubstr buf pos pos
  | .panic => .panic
  | .oof => .oof

/-- `Lexer::back`: `(start, stop)` of the previous lexeme, new position `start` -/
def back (buf : Buf) (pos : Nat) : Out (Nat × Nat) :=
  (boundaryRev buf pos isWhitespace).bind fun endPos =>
  (boundaryRev buf endPos fun b => !isWhitespace b).bind fun startPos =>
  newSubstr buf startPos endPos

/-- `Lexer::next_expect(expected)`: new position -/
def nextExpect (buf : Buf) (pos : Nat) (expected : List UInt8) : Out Nat :=
  (next buf pos).bind fun w =>
  if slice buf w.1 w.2 == expected then .ok w.2 else .err

/-- "stream" -/
def kwStream : List UInt8 := [115, 116, 114, 101, 97, 109]

/-- `Lexer::next_stream`: new position (just past the end-of-line after the keyword) -/
def nextStream (buf : Buf) (pos : Nat) : Out Nat :=
  (nextWord buf pos).bind fun w =>
  -- `let pos = end - word.len()`
  let wlen := w.2 - w.1
  if wlen > w.2 then .panic else
  let p := w.2 - wlen
  -- `self.buf[pos ..]`
  if p > buf.size then .panic else
  -- `pos + 6`, `pos + 7`
  match buf[p + 6]? with
  | none => .err
  | some b0 =>
    if b0 == 10 then .ok (p + 7)
    else if b0 == 13 then
      match buf[p + 7]? with
      | none => .err
      | some b1 => if b1 != 10 then .err else .ok (p + 8)
    else .err

/-- `Lexer::set_pos(wanted)`: new position (the returned substring only matters through its slice panic) -/
def setPos (buf : Buf) (pos wanted : Nat) : Out Nat :=
  let newPos := min wanted buf.size
  (if pos < newPos then newSubstr buf pos newPos else newSubstr buf newPos pos).bind fun _ => .ok newPos

/-- `Lexer::offset_pos(offset)` (`wrapping_add`) -/
def offsetPos (buf : Buf) (pos offset : Nat) : Out Nat :=
  setPos buf pos ((pos + offset) % (usizeMax + 1))

/-- `Lexer::read_n(n)`: `(start, stop)` of the returned substring and the new position
    (`pos.saturating_add(n)`; at or beyond the end the cursor is put on the last byte, `len.saturating_sub(1)`) -/
def readN (buf : Buf) (pos n : Nat) : Out ((Nat × Nat) × Nat) :=
  let startPos := pos
  let p := min (pos + n) usizeMax
  let p' := if p ≥ buf.size then buf.size - 1 else p
  (if startPos < buf.size then newSubstr buf startPos p' else newSubstr buf 0 0).bind fun s => .ok (s, p')

/-- `Lexer::read_n` before the repair: `self.pos += n` and `self.buf.len() - 1` were plain arithmetic
    (overflow panics with overflow checks on; kept for the witness in `Props/C01`) -/
def readNOld (buf : Buf) (pos n : Nat) : Out ((Nat × Nat) × Nat) :=
  let startPos := pos
  if pos + n > usizeMax then .panic else
  let p := pos + n
  (if p ≥ buf.size then (if buf.size = 0 then Out.panic else Out.ok (buf.size - 1)) else Out.ok p).bind fun p' =>
  (if startPos < buf.size then newSubstr buf startPos p' else newSubstr buf 0 0).bind fun s => .ok (s, p')

/-- `Lexer::get_remaining_slice`: `&self.buf[self.pos..]` -/
def remainingStart (buf : Buf) (pos : Nat) : Out Nat :=
  if pos > buf.size then .panic else .ok pos

/-- `Lexer::set_pos_from_end(n)`: `set_pos(len.saturating_sub(n).saturating_sub(1))` -/
def setPosFromEnd (buf : Buf) (pos n : Nat) : Out Nat :=
  setPos buf pos (buf.size - n - 1)

/-- `rest.windows(pat.len()).position(|w| w == pat)` over `buf[i ..]`, as an absolute index: the first `j ≥ i`
    with `buf[j .. j + pat.len()] == pat` (fuel `buf.size - i + 1`; a window must fit into the buffer) -/
def findFwd (buf : Buf) (pat : List UInt8) : Nat → Nat → Option Nat
  | 0, _ => none
  | fuel + 1, i =>
    if i + pat.length > buf.size then none
    else if slice buf i (i + pat.length) == pat then some i
    else findFwd buf pat fuel (i + 1)

/-- `Lexer::seek_substr(pat)`: the traversed substring (`None` when `pat` does not occur) and the new position.
    `slice::windows(0)` panics; `self.buf.get(start..)` is `None` when `start > len` (never under the invariant). -/
def seekSubstr (buf : Buf) (pos : Nat) (pat : List UInt8) : Out (Option (Nat × Nat) × Nat) :=
  if pos > buf.size then .ok (none, max pos buf.size)
  else if pat.length == 0 then .panic
  else match findFwd buf pat (buf.size - pos + 1) pos with
    | some i =>
      -- `self.pos = start + offset + substr.len()`; `new_substr(start .. self.pos - substr.len())`
      let p := i + pat.length
      (newSubstr buf pos (p - pat.length)).bind fun s => .ok (some s, p)
    | none => .ok (none, max pos buf.size)

/-- `buf[.. stop].windows(pat.len()).rposition(|w| w == pat)`: the greatest start `< k` of a window equal to `pat`
    (called with `k = stop - pat.len() + 1`, so that every candidate window ends at or before `stop`) -/
def findBack (buf : Buf) (pat : List UInt8) : Nat → Option Nat
  | 0 => none
  | i + 1 => if slice buf i (i + pat.length) == pat then some i else findBack buf pat i

/-- `Lexer::seek_substr_back(pat)`: the substring between the end of the match and the old position, and the
    new position (just behind the match).  `&self.buf[.. end]` panics when `end > len`, `windows(0)` panics. -/
def seekSubstrBack (buf : Buf) (pos : Nat) (pat : List UInt8) : Out ((Nat × Nat) × Nat) :=
  if pos > buf.size then .panic
  else if pat.length == 0 then .panic
  else if pat.length > pos then .err
  else match findBack buf pat (pos - pat.length + 1) with
    | some i =>
      let p := i + pat.length
      (newSubstr buf p pos).bind fun s => .ok (s, p)
    | none => .err

/-- `Lexer::incr_pos`: the cursor never goes beyond the last byte (`pos >= len.saturating_sub(1)` → `false`) -/
def incrPos (buf : Buf) (pos : Nat) : Bool × Nat :=
  if pos ≥ buf.size - 1 then (false, pos) else (true, pos + 1)

/-- the `while self.buf.get(pos).map_or(false, |&b| b != b'\n') && self.incr_pos() {}` loop of `seek_newline`
    (fuel `buf.size - pos`) -/
def seekNewlineLoop (buf : Buf) : Nat → Nat → Nat
  | 0, pos => pos
  | fuel + 1, pos =>
    match buf[pos]? with
    | none => pos
    | some b =>
      if b != 10 then
        (if (incrPos buf pos).1 then seekNewlineLoop buf fuel (pos + 1) else pos)
      else pos

/-- `Lexer::seek_newline` (not used by the library itself): the skipped substring and the new position -/
def seekNewline (buf : Buf) (pos : Nat) : Out ((Nat × Nat) × Nat) :=
  let p := seekNewlineLoop buf (buf.size - pos) pos
  let p2 := (incrPos buf p).2
  (newSubstr buf pos p2).bind fun s => .ok (s, p2)

/-- `Lexer::ctx` (debugging aid): `&self.buf[self.pos.saturating_sub(40) .. self.buf.len().min(self.pos + 40)]` -/
def ctxRange (buf : Buf) (pos : Nat) : Out (Nat × Nat) :=
  if pos + 40 > usizeMax then .panic else
  let a := pos - 40
  let b := min buf.size (pos + 40)
  if a > b || b > buf.size then .panic else .ok (a, b)

/-! ### `Substr` classification (on the bytes of the lexeme) -/

def allDigits (t : List UInt8) : Bool := t.all isDigit

/-- `Substr::is_integer` -/
def isInteger (t : List UInt8) : Bool :=
  match t with
  | [] => false
  | b :: rest =>
    if b == 45 || b == 43 then
      if t.length < 2 then false else allDigits rest
    else allDigits t

/-- split at the first `.`: `(before, after)`; `none` when there is no `.` -/
def splitDot : List UInt8 → Option (List UInt8 × List UInt8)
  | [] => none
  | b :: rest =>
    if b == 46 then some ([], rest)
    else match splitDot rest with
      | some (a, c) => some (b :: a, c)
      | none => none

/-- length of the leading run of digits, `none` when the whole list is digits
    (`slice.iter().position(|&b| !b.is_ascii_digit())`) -/
def nonDigitPos : List UInt8 → Option Nat
  | [] => none
  | b :: rest =>
    if isDigit b then (nonDigitPos rest).map (· + 1) else some 0

/-- `Substr::real_number`: the (possibly shortened) lexeme that is handed to `f32::from_str` -/
def realNumber (t : List UInt8) : Option (List UInt8) :=
  match t with
  | [] => none
  | b :: rest =>
    let signed := b == 45 || b == 43
    if signed && t.length < 2 then none else
    let s1 := if signed then rest else t
    let s2? : Option (List UInt8) := match splitDot s1 with
      | some (a, c) => if allDigits a then some c else none
      | none => some s1
    match s2? with
    | none => none
    | some s2 =>
      match nonDigitPos s2 with
      | some len => if len == 0 then none else some (t.take (t.length - s2.length + len))
      | none => some t

/-- decimal value of a digit string -/
def decVal (t : List UInt8) : Nat := t.foldl (fun a d => a * 10 + (d.toNat - 48)) 0

/-- an optional leading `+` is dropped (`FromStr` for integers) -/
def stripPlus : List UInt8 → List UInt8
  | 43 :: rest => rest
  | t => t

/-- `str::from_utf8(tok)?.parse::<u64>()` (`none` = `Err`): optional `+`, one or more digits, `≤ u64::MAX` -/
def parseU64 (t : List UInt8) : Option Nat :=
  let ds := stripPlus t
  if ds.isEmpty || !allDigits ds then none
  else if decVal ds > 18446744073709551615 then none else some (decVal ds)

/-- `str::from_utf8(tok)?.parse::<i32>()` -/
def parseI32 (t : List UInt8) : Option Int :=
  match t with
  | 45 :: ds =>
    if ds.isEmpty || !allDigits ds then none
    else if decVal ds > 2147483648 then none else some (- (decVal ds : Int))
  | _ =>
    let ds := stripPlus t
    if ds.isEmpty || !allDigits ds then none
    else if decVal ds > 2147483647 then none else some (decVal ds : Int)

end PdfLex
