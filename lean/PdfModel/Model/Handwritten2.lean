import PdfModel.Model.Handwritten
import PdfModel.Model.FontEncoding

/-!
# More hand-written reader / writer pairs (C15)

| Rust                                                                                         | here |
|----------------------------------------------------------------------------------------------|------|
| `impl Object for MaybeNamedDest` / `impl ObjectWrite` over `Dest`                               | `NamedDest`, `readNamedDestV`, `writeNamedDestV` |
| `impl Object for NumberTree<T>`, `impl ObjectWrite for NumberTree<T>` (object/types.rs)          | `NumTree`, `readNumTree`, `writeNumTree` |
| `impl Object for NameTree<T>` (the writer is `todo!()`)                                          | `NameTreeV`, `readNameTree`; `specNameTree` is what a writer would have to emit |
| `impl Object for CidToGidMap` / `impl ObjectWrite` (font.rs), `Stream::<()>` as far as needed     | `CidMap`, `readCidMap`, `writeCidMap`, `unitStreamData` |
| `AppearanceStreamEntry::from_primitive_depth` / `to_primitive` (with the `/On null` repair)       | `ASE`, `APrim`, `readASE`, `writeASE` |
| `impl Object for Pattern` / `impl ObjectWrite` — the dispatch on dictionary vs stream            | `PatternV`, `readPattern`, `writePattern` |
| `#[derive(Object)] #[pdf(is_stream)] enum XObject` + `impl ObjectWrite for XObject`                | `readXObject`, `writeXObject` |
| `impl Object for Encoding` / `impl ObjectWrite` (encoding.rs); the /Differences loop is `Model/FontEncoding.lean` | `EncodingV`, `readEncoding`, `writeEncoding` |

`TPrim` is what such a reader is handed: a plain primitive or a stream (dictionary + raw data). `APrim` is an
appearance entry *after* resolution (`p.resolve(resolve)?` at every level): the references themselves are not
modelled there. Typed parts that are themselves big readers (`FormXObject`, the content operations of a pattern,
the three stream dictionaries of an `XObject`) are parameters with their own law as hypothesis.
-/

namespace Derive

/-! ## MaybeNamedDest -/

inductive NamedDest where
  | named (s : List UInt8)
  | direct (d : DestV)
  deriving DecidableEq, Repr

/-- `MaybeNamedDest::from_primitive`: resolve once; a dictionary is replaced by its `/D`; a string is a named
    destination; anything else must be a destination array -/
def readNamedDestV (env : Env) (p : Prim) : R NamedDest :=
  match resolve1 env p with
  | .error e => .error e
  | .ok (.str s) => .ok (.named s)
  | .ok (.dict d) =>
    match dget "D" d with
    | none => .error (.missingEntry "D")
    | some (.str s) => .ok (.named s)
    | some (.arr xs) => (readDestArr env.tolerant xs).map .direct
    | some _ => .error (.tryE .other)
  | .ok (.arr xs) => (readDestArr env.tolerant xs).map .direct
  | .ok _ => .error (.tryE .other)

def writeNamedDestV : NamedDest → Prim
  | .named s => .str s
  | .direct d => writeDest d

/-! ## Number trees and name trees -/

inductive NumNode where
  | leaf (items : List (Int × Val))
  | inter (kids : List (Nat × Nat))

structure NumTree where
  limits : Option (Int × Int)
  node : NumNode

def asRefs : List Prim → R (List (Nat × Nat))
  | [] => .ok []
  | .ref i g :: r =>
    match asRefs r with
    | .ok t => .ok ((i, g) :: t)
    | .error e => .error e
  | _ :: _ => .error .other

/-- `for (key, item) in list.into_iter().tuples()`: an odd last element is dropped -/
def readNums (rdT : Prim → R Val) : List Prim → R (List (Int × Val))
  | .int k :: v :: r =>
    match rdT v with
    | .error e => .error (.tryE e)
    | .ok x =>
      match readNums rdT r with
      | .ok t => .ok ((k, x) :: t)
      | .error e => .error e
  | _ :: _ :: _ => .error (.tryE .other)
  | _ => .ok []

/-- `NumberTree::from_primitive` -/
def readNumTree (rdT : Prim → R Val) (env : Env) (p : Prim) : R NumTree :=
  match resolve1 env p with
  | .error e => .error e
  | .ok (.dict d) =>
    let limits : R (Option (Int × Int)) :=
      match dget "Limits" d with
      | none => .ok none
      | some l =>
        match resolve1 env l with
        | .error e => .error e
        | .ok (.arr [.int a, .int b]) => .ok (some (a, b))
        | .ok (.arr [_, _]) => .error (.tryE .other)
        | .ok (.arr _) => .error .other
        | .ok _ => .error (.tryE .other)
    match limits with
    | .error e => .error e
    | .ok lim =>
      match dget "Kids" d, dget "Nums" d with
      | some kids, _ =>
        match resolve1 env kids with
        | .error e => .error e
        | .ok (.arr xs) =>
          match asRefs xs with
          | .ok ks => .ok ⟨lim, .inter ks⟩
          | .error e => .error (.tryE e)
        | .ok _ => .error .other
      | none, some (.arr xs) =>
        match readNums rdT xs with
        | .ok items => .ok ⟨lim, .leaf items⟩
        | .error e => .error e
      | none, some _ => .error .other
      | none, none => .ok ⟨lim, .inter []⟩
  | .ok _ => .error .other

def writeNums (wrT : Val → R Prim) : List (Int × Val) → R (List Prim)
  | [] => .ok []
  | (k, v) :: r =>
    match wrT v with
    | .error e => .error e
    | .ok p =>
      match writeNums wrT r with
      | .ok t => .ok (.int k :: p :: t)
      | .error e => .error e

/-- `NumberTree::to_primitive` -/
def writeNumTree (wrT : Val → R Prim) (t : NumTree) : R Prim :=
  let d0 : Dict := match t.limits with
    | some (a, b) => dinsert "Limits" (.arr [.int a, .int b]) []
    | none => []
  match t.node with
  | .leaf items =>
    match writeNums wrT items with
    | .ok ps => .ok (.dict (dinsert "Nums" (.arr ps) d0))
    | .error e => .error e
  | .inter kids => .ok (.dict (dinsert "Kids" (.arr (kids.map fun k => .ref k.1 k.2)) d0))

inductive NameNode where
  | leaf (items : List (List UInt8 × Val))
  | inter (kids : List (Nat × Nat))

structure NameTreeV where
  limits : Option (List UInt8 × List UInt8)
  node : NameNode

/-- `for pair in names.chunks_exact(2)`: name `resolve`d then `into_string`, value through `T` -/
def readNames (rdT : Prim → R Val) (env : Env) : List Prim → R (List (List UInt8 × Val))
  | n :: v :: r =>
    match resolve1 env n with
    | .error e => .error e
    | .ok (.str s) =>
      match rdT v with
      | .error e => .error (.tryE e)
      | .ok x =>
        match readNames rdT env r with
        | .ok t => .ok ((s, x) :: t)
        | .error e => .error e
    | .ok _ => .error .other
  | _ => .ok []

/-- `NameTree::from_primitive` -/
def readNameTree (rdT : Prim → R Val) (env : Env) (p : Prim) : R NameTreeV :=
  match resolve1 env p with
  | .error e => .error e
  | .ok (.dict d) =>
    let limits : R (Option (List UInt8 × List UInt8)) :=
      match dget "Limits" d with
      | none => .ok none
      | some l =>
        match resolve1 env l with
        | .error e => .error e
        | .ok (.arr [.str a, .str b]) => .ok (some (a, b))
        | .ok _ => .error .other
    match limits with
    | .error e => .error e
    | .ok lim =>
      match dget "Kids" d, dget "Names" d with
      | some kids, _ =>
        match resolve1 env kids with
        | .error e => .error e
        | .ok (.arr xs) =>
          match asRefs xs with
          | .ok ks => .ok ⟨lim, .inter ks⟩
          | .error e => .error (.tryE e)
        | .ok _ => .error .other
      | none, some names =>
        match resolve1 env names with
        | .error e => .error e
        | .ok (.arr xs) =>
          match readNames rdT env xs with
          | .ok items => .ok ⟨lim, .leaf items⟩
          | .error e => .error e
        | .ok _ => .error .other
      | none, none => .ok ⟨lim, .inter []⟩
  | .ok _ => .error (.tryE .other)

def specNames (wrT : Val → R Prim) : List (List UInt8 × Val) → R (List Prim)
  | [] => .ok []
  | (k, v) :: r =>
    match wrT v with
    | .error e => .error e
    | .ok p =>
      match specNames wrT r with
      | .ok t => .ok (.str k :: p :: t)
      | .error e => .error e

/-- `<< /Limits [(a) (b)] /Names [(k1) v1 …] >>` resp. `/Kids [refs]`, the counterpart of `NumberTree::to_primitive` -/
def specNameTree (wrT : Val → R Prim) (t : NameTreeV) : R Prim :=
  let d0 : Dict := match t.limits with
    | some (a, b) => dinsert "Limits" (.arr [.str a, .str b]) []
    | none => []
  match t.node with
  | .leaf items =>
    match specNames wrT items with
    | .ok ps => .ok (.dict (dinsert "Names" (.arr ps) d0))
    | .error e => .error e
  | .inter kids => .ok (.dict (dinsert "Kids" (.arr (kids.map fun k => .ref k.1 k.2)) d0))

/-! ## Streams as far as these pairs need them -/

inductive TPrim where
  | plain (p : Prim)
  | stream (info : Dict) (data : List UInt8)

/-- `Stream::<()>::from_stream` + `data()` for a stream without filters: `/Length` must be there and be a
    non-negative integer (`StreamInfo::from_primitive`), `/Filter` absent, null or empty. A stream with filters
    is outside this model (`oof`). -/
def unitStreamData (info : Dict) (data : List UInt8) : R (List UInt8) :=
  match dget "Length" info with
  | none => .error (.missingEntry "Length")
  | some (.int n) =>
    if n < 0 then .error .other
    else
      match dget "Filter" info with
      | none | some .null | some (.arr []) => .ok data
      | some _ => .error .oof
  | some _ => .error .oof

/-! ## CidToGidMap -/

inductive CidMap where
  | identity
  | table (t : List Nat)
  deriving DecidableEq, Repr

/-- `data.chunks_exact(2).map(|c| (c[0] as u16) << 8 | c[1] as u16)` -/
def pairsBE : List UInt8 → List Nat
  | a :: b :: r => (a.toNat * 256 + b.toNat) :: pairsBE r
  | _ => []

def readCidMap : TPrim → R CidMap
  | .plain (.name n) => if n = "Identity" then .ok .identity else .error .other
  | .stream info data =>
    match unitStreamData info data with
    | .ok d => .ok (.table (pairsBE d))
    | .error e => .error e
  | .plain _ => .error .other

/-- `v.to_be_bytes()` of a `u16` -/
def bytesBE (t : List Nat) : List UInt8 := t.flatMap fun v => [UInt8.ofNat (v / 256), UInt8.ofNat (v % 256)]

/-- `CidToGidMap::to_primitive`: `/Identity`, or `Stream::new((), data)` whose dictionary is just `/Length` -/
def writeCidMap : CidMap → TPrim
  | .identity => .plain (.name "Identity")
  | .table t => .stream [("Length", .int (2 * t.length))] (bytesBE t)

/-! ## Appearance entries -/

/-- an appearance entry with every reference already resolved -/
inductive APrim where
  | stream (info : Dict) (data : List UInt8)
  | dict (kvs : List (String × APrim))
  | other

inductive ASE where
  | single (form : Val)
  | dict (states : List (String × ASE))

def readStates (f : APrim → R ASE) : List (String × APrim) → R (List (String × ASE))
  | [] => .ok []
  | (k, v) :: r =>
    match f v with
    | .error e => .error e
    | .ok x =>
      match readStates f r with
      | .ok t => .ok ((k, x) :: t)
      | .error e => .error e

/-- `AppearanceStreamEntry::from_primitive_depth` -/
def readASE (rdForm : Dict → List UInt8 → R Val) : Nat → APrim → R ASE
  | _, .stream info data =>
    match rdForm info data with
    | .ok v => .ok (.single v)
    | .error e => .error e
  | 0, .dict _ => .error .other                                   -- "nested too deeply"
  | d + 1, .dict kvs =>
    match readStates (fun v => readASE rdForm d v) kvs with
    | .ok st => .ok (.dict st)
    | .error e => .error e
  | _, .other => .error .other

def writeStates (f : ASE → R APrim) : List (String × ASE) → R (List (String × APrim))
  | [] => .ok []
  | (k, v) :: r =>
    match f v with
    | .error e => .error e
    | .ok x =>
      match writeStates f r with
      | .ok t => .ok ((k, x) :: t)
      | .error e => .error e

/-- `AppearanceStreamEntry::to_primitive` (repaired: an empty map is an empty dictionary, not `null`); `fuel`
    bounds the nesting of the value -/
def writeASE (wrForm : Val → R (Dict × List UInt8)) : Nat → ASE → R APrim
  | _, .single v =>
    match wrForm v with
    | .ok (info, data) => .ok (.stream info data)
    | .error e => .error e
  | 0, .dict _ => .error .oof
  | n + 1, .dict st =>
    match writeStates (fun v => writeASE wrForm n v) st with
    | .ok kvs => .ok (.dict kvs)
    | .error e => .error e

/-- nesting depth of dictionaries in an appearance entry -/
def ASE.depth : Nat → ASE → Bool
  | _, .single _ => true
  | 0, .dict _ => false
  | n + 1, .dict st => st.all fun kv => ASE.depth n kv.2

/-! ## Pattern: dictionary or stream -/

inductive PatternV where
  /-- `Pattern::Dict(PatternDict)` -/
  | dict (d : Val)
  /-- `Pattern::Stream(PatternDict, ops)`; the operations are carried as the data they serialise to -/
  | stream (d : Val) (ops : List UInt8)

/-- `Pattern::from_primitive` after `p.resolve(resolve)?`; `rdDict` is `PatternDict::from_dict`, `parseOps` the
    content parser. The stream branch removes the stream entries first (`StreamInfo::from_primitive`). -/
def readPattern (rdDict : Dict → R Val) (parseOps : List UInt8 → R (List UInt8)) : TPrim → R PatternV
  | .plain (.dict d) =>
    match rdDict d with
    | .ok v => .ok (.dict v)
    | .error e => .error e
  | .stream info data =>
    match unitStreamData info data with
    | .error e => .error e
    | .ok raw =>
      match rdDict (derase "Filter" (derase "Length" info)) with
      | .error e => .error e
      | .ok v =>
        match parseOps raw with
        | .ok ops => .ok (.stream v ops)
        | .error e => .error (.tryE e)
  | .plain _ => .error .other

/-- `Pattern::to_primitive`: the dictionary, or `Stream::new_with_filters(dict, serialize_ops(ops), [])` -/
def writePattern (wrDict : Val → R Dict) (serOps : List UInt8 → R (List UInt8)) : PatternV → R TPrim
  | .dict v =>
    match wrDict v with
    | .ok d => .ok (.plain (.dict d))
    | .error e => .error e
  | .stream v ops =>
    match serOps ops with
    | .error e => .error e
    | .ok data =>
      match wrDict v with
      | .ok d => .ok (.stream (dinsert "Length" (.int data.length) d) data)
      | .error e => .error e

/-! ## XObject: dispatch on `/Subtype` -/

/-- the derived stream-enum reader: the stream, `/Subtype` must be a name, the variant's own reader on the whole
    stream. `variants`: (PDF name, variant) from the schema. -/
def readXObject (variants : List Variant) (rdInner : String → Dict → List UInt8 → R Val) : TPrim → R (String × Val)
  | .stream info data =>
    match dget "Subtype" info with
    | none => .error (.missingEntry "Subtype")
    | some (.name s) =>
      match findName s variants with
      | some v =>
        match rdInner v.ident info data with
        | .ok x => .ok (v.ident, x)
        | .error e => .error e
      | none => .error .other
    | some _ => .error .other
  | .plain _ => .error .other

/-- `XObject::to_primitive`: the variant's stream with `/Subtype` and `/Type /XObject` inserted -/
def writeXObject (tagOf : String → Option String) (wrInner : String → Val → R (Dict × List UInt8)) :
    String × Val → R TPrim
  | (ident, x) =>
    match tagOf ident with
    | none => .error .other
    | some tag =>
      match wrInner ident x with
      | .ok (info, data) => .ok (.stream (dinsert "Type" (.name "XObject") (dinsert "Subtype" (.name tag) info)) data)
      | .error e => .error e

/-! ## Encoding -/

/-- `Encoding { base, differences }`: the base as the name it is written as (`BaseEncoding` is a derived name enum
    with an `other` variant: any name), the differences sorted by code as the writer sorts them -/
structure EncodingV where
  base : String
  diffs : List (Nat × String)
  deriving DecidableEq, Repr

def dpOf : Prim → FontEncoding.DP String
  | .int i => .int i
  | .name n => .name n
  | _ => .other

def primOfDP : FontEncoding.DP String → Prim
  | .int i => .int i
  | .name n => .name n
  | .other => .null

def ofOut {α : Type} : Out α → R α
  | .ok a => .ok a
  | .err => .error .other
  | .panic => .error .oof
  | .oof => .error .oof

/-- `Encoding::from_primitive` (a reference is followed; a stream is read as its dictionary — not modelled here):
    the base encoding's name and the differences as inserted (newest binding first) -/
def readEncoding (env : Env) : Nat → Prim → R (String × FontEncoding.DMap String)
  | _, .name n => .ok (n, [])
  | _, .dict d =>
    let base : R String :=
      match dget "BaseEncoding" d with
      | none => .ok "None"
      | some p =>
        match resolve1 env p with
        | .ok (.name n) => .ok n
        | .ok _ => .error .other
        | .error e => .error e
    match base with
    | .error e => .error e
    | .ok b =>
      match dget "Differences" d with
      | none => .ok (b, [])
      | some p =>
        match resolve1 env p with
        | .error e => .error e
        | .ok (.arr xs) =>
          match ofOut (FontEncoding.readDiffs 0 (xs.map dpOf) []) with
          | .ok m => .ok (b, m)
          | .error e => .error e
        | .ok _ => .error .other
  | 0, .ref _ _ => .error .oof
  | n + 1, .ref id _ =>
    match env.resolve id with
    | .ok q => readEncoding env n q
    | .error e => .error e
  | _, _ => .error .other

/-- `Encoding::to_primitive`: the base name alone if there are no differences, else the dictionary with the
    compacted /Differences array (`FontEncoding.writeDiffs` over the entries sorted by code) -/
def writeEncoding (e : EncodingV) : R Prim :=
  match e.diffs with
  | [] => .ok (.name e.base)
  | l =>
    match ofOut (FontEncoding.writeDiffs none l) with
    | .ok items => .ok (.dict (dinsert "Differences" (.arr (items.map primOfDP)) (dinsert "BaseEncoding" (.name e.base) [])))
    | .error e => .error e

/-- the entries of a differences map sorted by code, the newest binding of a code winning (what iterating the
    `HashMap` and `diff_list.sort()` gives the writer) -/
def insertSortedKey (kv : Nat × String) : List (Nat × String) → List (Nat × String)
  | [] => [kv]
  | x :: xs => if kv.1 < x.1 then kv :: x :: xs else if kv.1 = x.1 then x :: xs else x :: insertSortedKey kv xs

def sortDiffs (m : FontEncoding.DMap String) : List (Nat × String) :=
  m.foldl (fun acc kv => insertSortedKey kv acc) []

end Derive
