import PdfModel.Model.Import

/-! Statement-side definitions for C20: what it means for the state of an importer (memo `map`, created
    objects `objs`) to be a faithful, closed, single copy of a part of the source graph. -/

namespace Import

/-- the references `ks` are the copies of the targets of the edges `es`, position by position -/
def Mapped (m : List (Nat × Nat)) : List Edge → List Nat → Prop
  | [], [] => True
  | e :: es, k :: ks => lk m e.tgt = some k ∧ Mapped m es ks
  | _, _ => False

/-- **closed**: every reference inside a created object points at a created object -/
def Closed (st : St) : Prop :=
  ∀ ob ∈ st.objs, ∀ k ∈ ob.kids, ∃ ob' ∈ st.objs, ob'.id = k

/-- **once**: the memo is a function on source objects, every memo entry owns exactly one created object
    and no two created objects share a number -/
def Once (st : St) : Prop :=
  (st.map.map Prod.fst).Nodup ∧ st.objs.map (·.id) = st.map.map Prod.snd ∧ (st.objs.map (·.id)).Nodup

/-- **iso**: the copy of a source object carries its payload, and its references are the copies of the
    source object's references (those the traversal visits for the kind of edge it was first reached by) -/
def Iso (src : Src) (st : St) : Prop :=
  ∀ o n, lk st.map o = some n →
    ∃ node ob k, src o = some node ∧ ob ∈ st.objs ∧ ob.id = n ∧ ob.payload = node.payload ∧
      Mapped st.map (node.kids k) ob.kids

/-- the memo of `st'` extends the memo of `st`: copies are never moved or replaced -/
def MemoExt (st st' : St) : Prop := ∀ o n, lk st.map o = some n → lk st'.map o = some n

/-- a source graph all of whose references lead to existing objects and whose edges go down a rank
    (i.e. the part that matters is acyclic), seen from the objects in `roots` -/
structure Acyclic (src : Src) (rank : Nat → Nat) : Prop where
  down : ∀ o node k e, src o = some node → e ∈ node.kids k → rank e.tgt < rank o
  total : ∀ o node k e, src o = some node → e ∈ node.kids k → src e.tgt ≠ none

/-- executable check of `Acyclic` for a finite source given as a table (sound: `acyclic_of_check`) -/
def acyclicCheck (nodes : List (Nat × Node)) (rank : Nat → Nat) : Bool :=
  nodes.all fun p => (p.2.kidsPrim ++ p.2.kidsTyped).all fun e =>
    decide (rank e.tgt < rank p.1) && (nodes.lookup e.tgt).isSome

end Import
