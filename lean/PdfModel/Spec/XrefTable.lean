import PdfModel.Spec.Syntax
import PdfModel.Spec.Render
import PdfModel.Model.Xref

/-!
  Statement side of the classic cross-reference table (ISO 32000-1 §7.5.4): which byte strings a
  conforming writer may emit for a list of subsections, independently of the reader.

  * `TableText subs txt` — the relation.  `txt` is what stands between the separator behind the keyword
    `xref` and the keyword `trailer`: for every subsection the two header numbers (first object number,
    number of entries; unsigned decimals, leading zeros allowed) and then its entries, each entry the
    three tokens *offset / next free number*, *generation*, `n` / `f`.  Every token is followed by a
    separator `Sep`: a non-empty run of white-space bytes and comments (`PdfSyntax.Gap`).  This covers
    the fixed 20-byte entry `nnnnnnnnnn ggggg n eol` with its three legal two-byte line ends
    (SP CR, SP LF, CR LF; `StrictEntry`, `strict_entry_conformant` in `Lemmas/XrefTable`), any
    white-space / end-of-line between and behind the header numbers, comments wherever the lexical
    conventions allow them, and any splitting of a section into subsections (the list `subs` is
    arbitrary: empty subsections, overlapping ones, any order).
    Compressed entries cannot be expressed in this format: `EntryText` has no case for them.
  * `SectionText subs trailerTxt txt` — a whole section: optional gap, `xref`, separator, the table,
    `trailer`, optional gap, the text of the trailer dictionary.
  * `writeSection` — an executable conforming writer, every layout choice drawn from a `Tape` (as the C03
    printer `Spec/Render`, whose `gap`, `natTok` and dictionary printer it reuses).  The Rust twin
    (`harness/src/c02.rs`, `write_section`) draws the same numbers in the same order; the driver compares
    both outputs byte for byte.  `Lemmas/XrefTable.writeTable_conformant`: whatever the tape, the output
    satisfies `TableText`.
-/

namespace XrefTableSpec
open PdfSyntax (Gap NatTok Digits digitsVal)
open Xref

def u64Max : Nat := 18446744073709551615
def u32Max : Nat := 4294967295

/-- `trailer` -/
def kwTrailer : List UInt8 := [116, 114, 97, 105, 108, 101, 114]
/-- `xref` -/
def kwXref : List UInt8 := [120, 114, 101, 102]

/-- a separator: a non-empty run of white-space and comments -/
def Sep (g : List UInt8) : Prop := Gap g ∧ g ≠ []

/-- the text of one entry, including the separator that follows its keyword -/
inductive EntryText : XRef → List UInt8 → Prop where
  | inuse (a g1 b g2 g3 : List UInt8) (pos gen : Nat) : NatTok a pos → NatTok b gen →
      Sep g1 → Sep g2 → Sep g3 → pos ≤ u64Max → gen ≤ u64Max →
      EntryText (.raw pos gen) (a ++ g1 ++ b ++ g2 ++ 110 :: g3)
  | free (a g1 b g2 g3 : List UInt8) (nxt gen : Nat) : NatTok a nxt → NatTok b gen →
      Sep g1 → Sep g2 → Sep g3 → nxt ≤ u64Max → gen ≤ u64Max →
      EntryText (.free nxt gen) (a ++ g1 ++ b ++ g2 ++ 102 :: g3)

inductive EntriesText : List XRef → List UInt8 → Prop where
  | nil : EntriesText [] []
  | cons (e : XRef) (es : List XRef) (t ts : List UInt8) : EntryText e t → EntriesText es ts →
      EntriesText (e :: es) (t ++ ts)

/-- one subsection: `first count` and the entries -/
def SubText (s : Sub) (txt : List UInt8) : Prop :=
  ∃ a g1 b g2 body, txt = a ++ g1 ++ b ++ g2 ++ body ∧ NatTok a s.first ∧ NatTok b s.entries.length ∧
    Sep g1 ∧ Sep g2 ∧ s.first ≤ u32Max ∧ s.entries.length ≤ u32Max ∧ EntriesText s.entries body

/-- the subsections of a section, in file order -/
inductive TableText : List Sub → List UInt8 → Prop where
  | nil : TableText [] []
  | cons (s : Sub) (ss : List Sub) (t ts : List UInt8) : SubText s t → TableText ss ts →
      TableText (s :: ss) (t ++ ts)

/-- a whole classic section up to the end of the trailer dictionary's text `trailerTxt` -/
def SectionText (subs : List Sub) (trailerTxt : List UInt8) (txt : List UInt8) : Prop :=
  ∃ g0 g1 tbl g2, txt = g0 ++ kwXref ++ g1 ++ tbl ++ kwTrailer ++ g2 ++ trailerTxt ∧
    Gap g0 ∧ Sep g1 ∧ TableText subs tbl ∧ Gap g2

/-- the two-byte line ends of a 20-byte entry -/
def Eol2 (e : List UInt8) : Prop := e = [32, 13] ∨ e = [32, 10] ∨ e = [13, 10]

/-- the fixed-format entry of §7.5.4: 10 digits, SP, 5 digits, SP, `n` | `f`, two-byte line end -/
def StrictEntry (e : XRef) (t : List UInt8) : Prop :=
  ∃ a b eol, a.length = 10 ∧ b.length = 5 ∧ Digits a ∧ Digits b ∧ Eol2 eol ∧
    ((e = .raw (digitsVal a) (digitsVal b) ∧ t = a ++ 32 :: b ++ 32 :: 110 :: eol) ∨
     (e = .free (digitsVal a) (digitsVal b) ∧ t = a ++ 32 :: b ++ 32 :: 102 :: eol))

/-! ### the executable writer -/

open PdfSpec (Tape draw gap natTok zeros)
open PdfLex (fmtNat Prim Dict)

/-- `n` in decimal, zero-padded on the left to at least `w` digits (`{:0w}`) -/
def pad (w n : Nat) : List UInt8 :=
  let ds := fmtNat n
  zeros (w - ds.length) ++ ds

def eolBytes (k : Nat) : List UInt8 :=
  if k == 0 then [32, 13] else if k == 1 then [32, 10] else [13, 10]

/-- the 20-byte entry (longer when a number does not fit its field); nothing for entries that a classic
    table cannot hold -/
def entryBytes : XRef → Nat → List UInt8
  | .raw p g, k => pad 10 p ++ 32 :: pad 5 g ++ 32 :: 110 :: eolBytes k
  | .free n g, k => pad 10 n ++ 32 :: pad 5 g ++ 32 :: 102 :: eolBytes k
  | _, _ => []

def writeEntries : List XRef → Tape → List UInt8 × Tape
  | [], t => ([], t)
  | e :: es, t =>
    let (k, t) := draw 3 t
    let (r, t) := writeEntries es t
    (entryBytes e k ++ r, t)

/-- header numbers with 0–2 leading zeros, separated and followed by a non-empty gap (white-space of
    any kind, comments); after the entries an optional gap (blank or comment lines) -/
def writeSub (s : Sub) (t : Tape) : List UInt8 × Tape :=
  let (a, t) := natTok s.first t
  let (g1, t) := gap true t
  let (b, t) := natTok s.entries.length t
  let (g2, t) := gap true t
  let (es, t) := writeEntries s.entries t
  let (g3, t) := gap false t
  (a ++ g1 ++ b ++ g2 ++ es ++ g3, t)

def writeTable : List Sub → Tape → List UInt8 × Tape
  | [], t => ([], t)
  | s :: ss, t =>
    let (a, t) := writeSub s t
    let (r, t) := writeTable ss t
    (a ++ r, t)

/-- a whole section followed by `tail`: the trailer dictionary is printed by the C03 printer -/
def writeSection {R : Type} (fmtReal : R → List UInt8) (subs : List Sub) (trailer : Dict R) (tail : List UInt8)
    (t : Tape) : List UInt8 × Tape :=
  let (trl, t) := PdfSpec.renderWithTail fmtReal (.dict trailer) tail t
  let (g2, t) := gap false t
  let (tbl, t) := writeTable subs t
  let (g1, t) := gap true t
  let (g0, t) := gap false t
  (g0 ++ kwXref ++ g1 ++ tbl ++ kwTrailer ++ g2 ++ trl, t)

end XrefTableSpec
