/-!
# Lean-native MD5, SHA-256/384/512 and the AES forward block function

These are *not* part of the model of pdf-rs and no theorem of `Props/C06` depends on them: in the theorems
the primitives are parameters with explicit hypotheses. They exist for the model driver:

* to cross-check every entry of the oracle tables the harness sends (computed there with the RustCrypto
  crates): a table entry that contradicts the Lean-native value is reported as `bad-table`;
* to instantiate the primitives of the revision 6 hash (Algorithm 2.B: ≥ 64 rounds of AES-128-CBC over
  several kilobytes plus one SHA-2 each), for which tables would run to megabytes per case.

They are validated against published test vectors at the end of this file (`#guard`, evaluated at build
time) and, on every run, against the harness' tables. The constant tables were produced by
`tools/gen_c06_tables.py` (sines, roots of primes, GF(2^8) inverse + affine map).
-/

namespace Prim

abbrev Bytes := List UInt8

def md5K : Array UInt32 := #[
  0xd76aa478, 0xe8c7b756, 0x242070db, 0xc1bdceee, 0xf57c0faf, 0x4787c62a, 0xa8304613, 0xfd469501, 0x698098d8,
  0x8b44f7af, 0xffff5bb1, 0x895cd7be, 0x6b901122, 0xfd987193, 0xa679438e, 0x49b40821, 0xf61e2562, 0xc040b340,
  0x265e5a51, 0xe9b6c7aa, 0xd62f105d, 0x02441453, 0xd8a1e681, 0xe7d3fbc8, 0x21e1cde6, 0xc33707d6, 0xf4d50d87,
  0x455a14ed, 0xa9e3e905, 0xfcefa3f8, 0x676f02d9, 0x8d2a4c8a, 0xfffa3942, 0x8771f681, 0x6d9d6122, 0xfde5380c,
  0xa4beea44, 0x4bdecfa9, 0xf6bb4b60, 0xbebfbc70, 0x289b7ec6, 0xeaa127fa, 0xd4ef3085, 0x04881d05, 0xd9d4d039,
  0xe6db99e5, 0x1fa27cf8, 0xc4ac5665, 0xf4292244, 0x432aff97, 0xab9423a7, 0xfc93a039, 0x655b59c3, 0x8f0ccc92,
  0xffeff47d, 0x85845dd1, 0x6fa87e4f, 0xfe2ce6e0, 0xa3014314, 0x4e0811a1, 0xf7537e82, 0xbd3af235, 0x2ad7d2bb,
  0xeb86d391]

def sha256K : Array UInt32 := #[
  0x428a2f98, 0x71374491, 0xb5c0fbcf, 0xe9b5dba5, 0x3956c25b, 0x59f111f1, 0x923f82a4, 0xab1c5ed5, 0xd807aa98,
  0x12835b01, 0x243185be, 0x550c7dc3, 0x72be5d74, 0x80deb1fe, 0x9bdc06a7, 0xc19bf174, 0xe49b69c1, 0xefbe4786,
  0x0fc19dc6, 0x240ca1cc, 0x2de92c6f, 0x4a7484aa, 0x5cb0a9dc, 0x76f988da, 0x983e5152, 0xa831c66d, 0xb00327c8,
  0xbf597fc7, 0xc6e00bf3, 0xd5a79147, 0x06ca6351, 0x14292967, 0x27b70a85, 0x2e1b2138, 0x4d2c6dfc, 0x53380d13,
  0x650a7354, 0x766a0abb, 0x81c2c92e, 0x92722c85, 0xa2bfe8a1, 0xa81a664b, 0xc24b8b70, 0xc76c51a3, 0xd192e819,
  0xd6990624, 0xf40e3585, 0x106aa070, 0x19a4c116, 0x1e376c08, 0x2748774c, 0x34b0bcb5, 0x391c0cb3, 0x4ed8aa4a,
  0x5b9cca4f, 0x682e6ff3, 0x748f82ee, 0x78a5636f, 0x84c87814, 0x8cc70208, 0x90befffa, 0xa4506ceb, 0xbef9a3f7,
  0xc67178f2]

def sha256H : Array UInt32 := #[
  0x6a09e667, 0xbb67ae85, 0x3c6ef372, 0xa54ff53a, 0x510e527f, 0x9b05688c, 0x1f83d9ab, 0x5be0cd19]

def sha512K : Array UInt64 := #[
  0x428a2f98d728ae22, 0x7137449123ef65cd, 0xb5c0fbcfec4d3b2f, 0xe9b5dba58189dbbc, 0x3956c25bf348b538,
  0x59f111f1b605d019, 0x923f82a4af194f9b, 0xab1c5ed5da6d8118, 0xd807aa98a3030242, 0x12835b0145706fbe,
  0x243185be4ee4b28c, 0x550c7dc3d5ffb4e2, 0x72be5d74f27b896f, 0x80deb1fe3b1696b1, 0x9bdc06a725c71235,
  0xc19bf174cf692694, 0xe49b69c19ef14ad2, 0xefbe4786384f25e3, 0x0fc19dc68b8cd5b5, 0x240ca1cc77ac9c65,
  0x2de92c6f592b0275, 0x4a7484aa6ea6e483, 0x5cb0a9dcbd41fbd4, 0x76f988da831153b5, 0x983e5152ee66dfab,
  0xa831c66d2db43210, 0xb00327c898fb213f, 0xbf597fc7beef0ee4, 0xc6e00bf33da88fc2, 0xd5a79147930aa725,
  0x06ca6351e003826f, 0x142929670a0e6e70, 0x27b70a8546d22ffc, 0x2e1b21385c26c926, 0x4d2c6dfc5ac42aed,
  0x53380d139d95b3df, 0x650a73548baf63de, 0x766a0abb3c77b2a8, 0x81c2c92e47edaee6, 0x92722c851482353b,
  0xa2bfe8a14cf10364, 0xa81a664bbc423001, 0xc24b8b70d0f89791, 0xc76c51a30654be30, 0xd192e819d6ef5218,
  0xd69906245565a910, 0xf40e35855771202a, 0x106aa07032bbd1b8, 0x19a4c116b8d2d0c8, 0x1e376c085141ab53,
  0x2748774cdf8eeb99, 0x34b0bcb5e19b48a8, 0x391c0cb3c5c95a63, 0x4ed8aa4ae3418acb, 0x5b9cca4f7763e373,
  0x682e6ff3d6b2b8a3, 0x748f82ee5defb2fc, 0x78a5636f43172f60, 0x84c87814a1f0ab72, 0x8cc702081a6439ec,
  0x90befffa23631e28, 0xa4506cebde82bde9, 0xbef9a3f7b2c67915, 0xc67178f2e372532b, 0xca273eceea26619c,
  0xd186b8c721c0c207, 0xeada7dd6cde0eb1e, 0xf57d4f7fee6ed178, 0x06f067aa72176fba, 0x0a637dc5a2c898a6,
  0x113f9804bef90dae, 0x1b710b35131c471b, 0x28db77f523047d84, 0x32caab7b40c72493, 0x3c9ebe0a15c9bebc,
  0x431d67c49c100d4c, 0x4cc5d4becb3e42b6, 0x597f299cfc657e2a, 0x5fcb6fab3ad6faec, 0x6c44198c4a475817]

def sha512H : Array UInt64 := #[
  0x6a09e667f3bcc908, 0xbb67ae8584caa73b, 0x3c6ef372fe94f82b, 0xa54ff53a5f1d36f1, 0x510e527fade682d1,
  0x9b05688c2b3e6c1f, 0x1f83d9abfb41bd6b, 0x5be0cd19137e2179]

def sha384H : Array UInt64 := #[
  0xcbbb9d5dc1059ed8, 0x629a292a367cd507, 0x9159015a3070dd17, 0x152fecd8f70e5939, 0x67332667ffc00b31,
  0x8eb44a8768581511, 0xdb0c2e0d64f98fa7, 0x47b5481dbefa4fa4]

def aesSbox : Array UInt8 := #[
  0x63, 0x7c, 0x77, 0x7b, 0xf2, 0x6b, 0x6f, 0xc5, 0x30, 0x01, 0x67, 0x2b, 0xfe, 0xd7, 0xab, 0x76, 0xca, 0x82,
  0xc9, 0x7d, 0xfa, 0x59, 0x47, 0xf0, 0xad, 0xd4, 0xa2, 0xaf, 0x9c, 0xa4, 0x72, 0xc0, 0xb7, 0xfd, 0x93, 0x26,
  0x36, 0x3f, 0xf7, 0xcc, 0x34, 0xa5, 0xe5, 0xf1, 0x71, 0xd8, 0x31, 0x15, 0x04, 0xc7, 0x23, 0xc3, 0x18, 0x96,
  0x05, 0x9a, 0x07, 0x12, 0x80, 0xe2, 0xeb, 0x27, 0xb2, 0x75, 0x09, 0x83, 0x2c, 0x1a, 0x1b, 0x6e, 0x5a, 0xa0,
  0x52, 0x3b, 0xd6, 0xb3, 0x29, 0xe3, 0x2f, 0x84, 0x53, 0xd1, 0x00, 0xed, 0x20, 0xfc, 0xb1, 0x5b, 0x6a, 0xcb,
  0xbe, 0x39, 0x4a, 0x4c, 0x58, 0xcf, 0xd0, 0xef, 0xaa, 0xfb, 0x43, 0x4d, 0x33, 0x85, 0x45, 0xf9, 0x02, 0x7f,
  0x50, 0x3c, 0x9f, 0xa8, 0x51, 0xa3, 0x40, 0x8f, 0x92, 0x9d, 0x38, 0xf5, 0xbc, 0xb6, 0xda, 0x21, 0x10, 0xff,
  0xf3, 0xd2, 0xcd, 0x0c, 0x13, 0xec, 0x5f, 0x97, 0x44, 0x17, 0xc4, 0xa7, 0x7e, 0x3d, 0x64, 0x5d, 0x19, 0x73,
  0x60, 0x81, 0x4f, 0xdc, 0x22, 0x2a, 0x90, 0x88, 0x46, 0xee, 0xb8, 0x14, 0xde, 0x5e, 0x0b, 0xdb, 0xe0, 0x32,
  0x3a, 0x0a, 0x49, 0x06, 0x24, 0x5c, 0xc2, 0xd3, 0xac, 0x62, 0x91, 0x95, 0xe4, 0x79, 0xe7, 0xc8, 0x37, 0x6d,
  0x8d, 0xd5, 0x4e, 0xa9, 0x6c, 0x56, 0xf4, 0xea, 0x65, 0x7a, 0xae, 0x08, 0xba, 0x78, 0x25, 0x2e, 0x1c, 0xa6,
  0xb4, 0xc6, 0xe8, 0xdd, 0x74, 0x1f, 0x4b, 0xbd, 0x8b, 0x8a, 0x70, 0x3e, 0xb5, 0x66, 0x48, 0x03, 0xf6, 0x0e,
  0x61, 0x35, 0x57, 0xb9, 0x86, 0xc1, 0x1d, 0x9e, 0xe1, 0xf8, 0x98, 0x11, 0x69, 0xd9, 0x8e, 0x94, 0x9b, 0x1e,
  0x87, 0xe9, 0xce, 0x55, 0x28, 0xdf, 0x8c, 0xa1, 0x89, 0x0d, 0xbf, 0xe6, 0x42, 0x68, 0x41, 0x99, 0x2d, 0x0f,
  0xb0, 0x54, 0xbb, 0x16]


/-! ## helpers -/

@[inline] def rotl32 (x : UInt32) (k : UInt32) : UInt32 := (x <<< k) ||| (x >>> (32 - k))
@[inline] def rotr32 (x : UInt32) (k : UInt32) : UInt32 := (x >>> k) ||| (x <<< (32 - k))
@[inline] def rotr64 (x : UInt64) (k : UInt64) : UInt64 := (x >>> k) ||| (x <<< (64 - k))

def le32 (a : Array UInt8) (o : Nat) : UInt32 :=
  (a.getD o 0).toUInt32 ||| ((a.getD (o+1) 0).toUInt32 <<< 8) ||| ((a.getD (o+2) 0).toUInt32 <<< 16) ||| ((a.getD (o+3) 0).toUInt32 <<< 24)
def be32 (a : Array UInt8) (o : Nat) : UInt32 :=
  ((a.getD o 0).toUInt32 <<< 24) ||| ((a.getD (o+1) 0).toUInt32 <<< 16) ||| ((a.getD (o+2) 0).toUInt32 <<< 8) ||| (a.getD (o+3) 0).toUInt32
def be64 (a : Array UInt8) (o : Nat) : UInt64 :=
  ((be32 a o).toUInt64 <<< 32) ||| (be32 a (o+4)).toUInt64

def pushLe32 (out : Array UInt8) (x : UInt32) : Array UInt8 :=
  (((out.push x.toUInt8).push (x >>> 8).toUInt8).push (x >>> 16).toUInt8).push (x >>> 24).toUInt8
def pushBe32 (out : Array UInt8) (x : UInt32) : Array UInt8 :=
  (((out.push (x >>> 24).toUInt8).push (x >>> 16).toUInt8).push (x >>> 8).toUInt8).push x.toUInt8
def pushBe64 (out : Array UInt8) (x : UInt64) : Array UInt8 :=
  pushBe32 (pushBe32 out (x >>> 32).toUInt32) x.toUInt32

/-- Merkle–Damgård padding: 0x80, zeros up to `block - lenBytes` modulo `block`, the bit length -/
def mdPad (msg : Array UInt8) (block lenBytes : Nat) (bigEndian : Bool) : Array UInt8 := Id.run do
  let bitLen := msg.size * 8
  let mut a := msg.push 0x80
  while a.size % block ≠ block - lenBytes do
    a := a.push 0
  for k in [0:lenBytes] do
    let shift := if bigEndian then 8 * (lenBytes - 1 - k) else 8 * k
    a := a.push (UInt8.ofNat ((bitLen >>> shift) % 256))
  return a

/-! ## MD5 (RFC 1321) -/

def md5Shift : Array UInt32 := #[7, 12, 17, 22, 5, 9, 14, 20, 4, 11, 16, 23, 6, 10, 15, 21]

def md5 (msg : Bytes) : Bytes := Id.run do
  let data := mdPad msg.toArray 64 8 false
  let mut a0 : UInt32 := 0x67452301
  let mut b0 : UInt32 := 0xefcdab89
  let mut c0 : UInt32 := 0x98badcfe
  let mut d0 : UInt32 := 0x10325476
  for chunk in [0:data.size / 64] do
    let base := chunk * 64
    let mut a := a0
    let mut b := b0
    let mut c := c0
    let mut d := d0
    for i in [0:64] do
      let (f, g) :=
        if i < 16 then ((b &&& c) ||| (~~~b &&& d), i)
        else if i < 32 then ((d &&& b) ||| (~~~d &&& c), (5 * i + 1) % 16)
        else if i < 48 then (b ^^^ c ^^^ d, (3 * i + 5) % 16)
        else (c ^^^ (b ||| ~~~d), (7 * i) % 16)
      let f2 := f + a + md5K.getD i 0 + le32 data (base + 4 * g)
      a := d
      d := c
      c := b
      b := b + rotl32 f2 (md5Shift.getD (i / 16 * 4 + i % 4) 0)
    a0 := a0 + a
    b0 := b0 + b
    c0 := c0 + c
    d0 := d0 + d
  return (pushLe32 (pushLe32 (pushLe32 (pushLe32 #[] a0) b0) c0) d0).toList

/-! ## SHA-256 (FIPS 180-4) -/

def sha256 (msg : Bytes) : Bytes := Id.run do
  let data := mdPad msg.toArray 64 8 true
  let mut h := sha256H
  for chunk in [0:data.size / 64] do
    let base := chunk * 64
    let mut w : Array UInt32 := Array.mkEmpty 64
    for t in [0:16] do
      w := w.push (be32 data (base + 4 * t))
    for t in [16:64] do
      let w15 := w.getD (t - 15) 0
      let w2 := w.getD (t - 2) 0
      let s0 := rotr32 w15 7 ^^^ rotr32 w15 18 ^^^ (w15 >>> 3)
      let s1 := rotr32 w2 17 ^^^ rotr32 w2 19 ^^^ (w2 >>> 10)
      w := w.push (w.getD (t - 16) 0 + s0 + w.getD (t - 7) 0 + s1)
    let mut a := h.getD 0 0
    let mut b := h.getD 1 0
    let mut c := h.getD 2 0
    let mut d := h.getD 3 0
    let mut e := h.getD 4 0
    let mut f := h.getD 5 0
    let mut g := h.getD 6 0
    let mut hh := h.getD 7 0
    for t in [0:64] do
      let s1 := rotr32 e 6 ^^^ rotr32 e 11 ^^^ rotr32 e 25
      let ch := (e &&& f) ^^^ (~~~e &&& g)
      let t1 := hh + s1 + ch + sha256K.getD t 0 + w.getD t 0
      let s0 := rotr32 a 2 ^^^ rotr32 a 13 ^^^ rotr32 a 22
      let maj := (a &&& b) ^^^ (a &&& c) ^^^ (b &&& c)
      let t2 := s0 + maj
      hh := g
      g := f
      f := e
      e := d + t1
      d := c
      c := b
      b := a
      a := t1 + t2
    h := #[h.getD 0 0 + a, h.getD 1 0 + b, h.getD 2 0 + c, h.getD 3 0 + d, h.getD 4 0 + e, h.getD 5 0 + f, h.getD 6 0 + g, h.getD 7 0 + hh]
  return (h.foldl pushBe32 #[]).toList

/-! ## SHA-512 / SHA-384 (FIPS 180-4) -/

def sha512Core (init : Array UInt64) (msg : Bytes) : Array UInt64 := Id.run do
  let data := mdPad msg.toArray 128 16 true
  let mut h := init
  for chunk in [0:data.size / 128] do
    let base := chunk * 128
    let mut w : Array UInt64 := Array.mkEmpty 80
    for t in [0:16] do
      w := w.push (be64 data (base + 8 * t))
    for t in [16:80] do
      let w15 := w.getD (t - 15) 0
      let w2 := w.getD (t - 2) 0
      let s0 := rotr64 w15 1 ^^^ rotr64 w15 8 ^^^ (w15 >>> 7)
      let s1 := rotr64 w2 19 ^^^ rotr64 w2 61 ^^^ (w2 >>> 6)
      w := w.push (w.getD (t - 16) 0 + s0 + w.getD (t - 7) 0 + s1)
    let mut a := h.getD 0 0
    let mut b := h.getD 1 0
    let mut c := h.getD 2 0
    let mut d := h.getD 3 0
    let mut e := h.getD 4 0
    let mut f := h.getD 5 0
    let mut g := h.getD 6 0
    let mut hh := h.getD 7 0
    for t in [0:80] do
      let s1 := rotr64 e 14 ^^^ rotr64 e 18 ^^^ rotr64 e 41
      let ch := (e &&& f) ^^^ (~~~e &&& g)
      let t1 := hh + s1 + ch + sha512K.getD t 0 + w.getD t 0
      let s0 := rotr64 a 28 ^^^ rotr64 a 34 ^^^ rotr64 a 39
      let maj := (a &&& b) ^^^ (a &&& c) ^^^ (b &&& c)
      let t2 := s0 + maj
      hh := g
      g := f
      f := e
      e := d + t1
      d := c
      c := b
      b := a
      a := t1 + t2
    h := #[h.getD 0 0 + a, h.getD 1 0 + b, h.getD 2 0 + c, h.getD 3 0 + d, h.getD 4 0 + e, h.getD 5 0 + f, h.getD 6 0 + g, h.getD 7 0 + hh]
  return h

def sha512 (msg : Bytes) : Bytes := ((sha512Core sha512H msg).foldl pushBe64 #[]).toList
def sha384 (msg : Bytes) : Bytes := (((sha512Core sha384H msg).foldl pushBe64 #[]).toList).take 48

/-! ## AES forward cipher (FIPS 197), 128 and 256 bit keys -/

@[inline] def xtime (a : UInt8) : UInt8 := (a <<< 1) ^^^ (if a &&& 0x80 ≠ 0 then 0x1b else 0)
@[inline] def sub (b : UInt8) : UInt8 := aesSbox.getD b.toNat 0

/-- the expanded key: `4 * (Nr + 1)` words of 4 bytes, flat -/
def aesExpand (key : Array UInt8) : Array UInt8 := Id.run do
  let nk := key.size / 4
  let nr := nk + 6
  let mut w := key
  let mut rcon : UInt8 := 1
  for i in [nk:4 * (nr + 1)] do
    let mut t0 := w.getD (4 * (i - 1)) 0
    let mut t1 := w.getD (4 * (i - 1) + 1) 0
    let mut t2 := w.getD (4 * (i - 1) + 2) 0
    let mut t3 := w.getD (4 * (i - 1) + 3) 0
    if i % nk = 0 then
      let r0 := sub t1 ^^^ rcon
      let r1 := sub t2
      let r2 := sub t3
      let r3 := sub t0
      t0 := r0; t1 := r1; t2 := r2; t3 := r3
      rcon := xtime rcon
    else if nk > 6 ∧ i % nk = 4 then
      t0 := sub t0; t1 := sub t1; t2 := sub t2; t3 := sub t3
    w := w.push (w.getD (4 * (i - nk)) 0 ^^^ t0)
    w := w.push (w.getD (4 * (i - nk) + 1) 0 ^^^ t1)
    w := w.push (w.getD (4 * (i - nk) + 2) 0 ^^^ t2)
    w := w.push (w.getD (4 * (i - nk) + 3) 0 ^^^ t3)
  return w

def addRoundKey (s w : Array UInt8) (round : Nat) : Array UInt8 :=
  Array.ofFn (n := 16) fun k => s.getD k.val 0 ^^^ w.getD (16 * round + k.val) 0

def subShift (s : Array UInt8) : Array UInt8 :=
  -- SubBytes then ShiftRows: byte (row r, column c) comes from column (c + r) mod 4
  Array.ofFn (n := 16) fun k => let r := k.val % 4; let c := k.val / 4; sub (s.getD (4 * ((c + r) % 4) + r) 0)

def mixColumns (s : Array UInt8) : Array UInt8 :=
  Array.ofFn (n := 16) fun k =>
    let c := k.val / 4
    let a0 := s.getD (4 * c) 0
    let a1 := s.getD (4 * c + 1) 0
    let a2 := s.getD (4 * c + 2) 0
    let a3 := s.getD (4 * c + 3) 0
    match k.val % 4 with
    | 0 => xtime a0 ^^^ (xtime a1 ^^^ a1) ^^^ a2 ^^^ a3
    | 1 => a0 ^^^ xtime a1 ^^^ (xtime a2 ^^^ a2) ^^^ a3
    | 2 => a0 ^^^ a1 ^^^ xtime a2 ^^^ (xtime a3 ^^^ a3)
    | _ => (xtime a0 ^^^ a0) ^^^ a1 ^^^ a2 ^^^ xtime a3

/-- encrypt one block with an already expanded key: the textbook round functions (reference) -/
def aesEncExpandedRef (w : Array UInt8) (nr : Nat) (block : Array UInt8) : Array UInt8 := Id.run do
  let mut s := addRoundKey block w 0
  for round in [1:nr] do
    s := addRoundKey (mixColumns (subShift s)) w round
  return addRoundKey (subShift s) w nr

/-- SubBytes + MixColumns of one byte in row 0 of a column, packed big-endian: `(2s, s, s, 3s)` -/
def aesTe0 : Array UInt32 := Array.ofFn (n := 256) fun x =>
  let s := aesSbox.getD x.val 0
  let s2 := xtime s
  (s2.toUInt32 <<< 24) ||| (s.toUInt32 <<< 16) ||| (s.toUInt32 <<< 8) ||| (s2 ^^^ s).toUInt32

/-- the expanded key as big-endian column words -/
def keyWords (w : Array UInt8) : Array UInt32 := Array.ofFn (n := w.size / 4) fun i => be32 w (4 * i.val)

@[inline] def te (x : UInt32) : UInt32 := aesTe0.getD x.toNat 0

/-- the same cipher on four column words with one table (rows 1–3 are byte rotations of row 0) -/
def aesEncWords (rk : Array UInt32) (nr : Nat) (block : Array UInt8) : Array UInt8 := Id.run do
  let mut c0 := be32 block 0 ^^^ rk.getD 0 0
  let mut c1 := be32 block 4 ^^^ rk.getD 1 0
  let mut c2 := be32 block 8 ^^^ rk.getD 2 0
  let mut c3 := be32 block 12 ^^^ rk.getD 3 0
  for round in [1:nr] do
    let t0 := te (c0 >>> 24) ^^^ rotr32 (te ((c1 >>> 16) &&& 0xff)) 8 ^^^ rotr32 (te ((c2 >>> 8) &&& 0xff)) 16 ^^^ rotr32 (te (c3 &&& 0xff)) 24 ^^^ rk.getD (4 * round) 0
    let t1 := te (c1 >>> 24) ^^^ rotr32 (te ((c2 >>> 16) &&& 0xff)) 8 ^^^ rotr32 (te ((c3 >>> 8) &&& 0xff)) 16 ^^^ rotr32 (te (c0 &&& 0xff)) 24 ^^^ rk.getD (4 * round + 1) 0
    let t2 := te (c2 >>> 24) ^^^ rotr32 (te ((c3 >>> 16) &&& 0xff)) 8 ^^^ rotr32 (te ((c0 >>> 8) &&& 0xff)) 16 ^^^ rotr32 (te (c1 &&& 0xff)) 24 ^^^ rk.getD (4 * round + 2) 0
    let t3 := te (c3 >>> 24) ^^^ rotr32 (te ((c0 >>> 16) &&& 0xff)) 8 ^^^ rotr32 (te ((c1 >>> 8) &&& 0xff)) 16 ^^^ rotr32 (te (c2 &&& 0xff)) 24 ^^^ rk.getD (4 * round + 3) 0
    c0 := t0; c1 := t1; c2 := t2; c3 := t3
  let sb (x : UInt32) : UInt32 := (sub x.toUInt8).toUInt32
  let f0 := (sb (c0 >>> 24) <<< 24) ||| (sb ((c1 >>> 16) &&& 0xff) <<< 16) ||| (sb ((c2 >>> 8) &&& 0xff) <<< 8) ||| sb (c3 &&& 0xff)
  let f1 := (sb (c1 >>> 24) <<< 24) ||| (sb ((c2 >>> 16) &&& 0xff) <<< 16) ||| (sb ((c3 >>> 8) &&& 0xff) <<< 8) ||| sb (c0 &&& 0xff)
  let f2 := (sb (c2 >>> 24) <<< 24) ||| (sb ((c3 >>> 16) &&& 0xff) <<< 16) ||| (sb ((c0 >>> 8) &&& 0xff) <<< 8) ||| sb (c1 &&& 0xff)
  let f3 := (sb (c3 >>> 24) <<< 24) ||| (sb ((c0 >>> 16) &&& 0xff) <<< 16) ||| (sb ((c1 >>> 8) &&& 0xff) <<< 8) ||| sb (c2 &&& 0xff)
  return pushBe32 (pushBe32 (pushBe32 (pushBe32 (Array.mkEmpty 16) (f0 ^^^ rk.getD (4 * nr) 0)) (f1 ^^^ rk.getD (4 * nr + 1) 0)) (f2 ^^^ rk.getD (4 * nr + 2) 0)) (f3 ^^^ rk.getD (4 * nr + 3) 0)

def aesEncExpanded (w : Array UInt8) (nr : Nat) (block : Array UInt8) : Array UInt8 :=
  aesEncWords (keyWords w) nr block

/-- `none` unless the key has 16 or 32 bytes and the block 16 -/
def aesEnc (key block : Bytes) : Option Bytes :=
  if (key.length = 16 ∨ key.length = 32) ∧ block.length = 16 then
    let k := key.toArray
    some (aesEncExpanded (aesExpand k) (k.size / 4 + 6) block.toArray).toList
  else none

/-! ### inverse cipher -/

def aesInvSbox : Array UInt8 := Id.run do
  let mut a : Array UInt8 := Array.replicate 256 0
  for x in [0:256] do
    a := a.set! (aesSbox.getD x 0).toNat (UInt8.ofNat x)
  return a

@[inline] def gmul (a : UInt8) (k : Nat) : UInt8 :=
  -- multiplication by 9, 11, 13, 14 in GF(2^8)
  let a2 := xtime a
  let a4 := xtime a2
  let a8 := xtime a4
  match k with
  | 9 => a8 ^^^ a
  | 11 => a8 ^^^ a2 ^^^ a
  | 13 => a8 ^^^ a4 ^^^ a
  | _ => a8 ^^^ a4 ^^^ a2

def invShiftSub (s : Array UInt8) : Array UInt8 :=
  Array.ofFn (n := 16) fun k => let r := k.val % 4; let c := k.val / 4; aesInvSbox.getD (s.getD (4 * ((c + 4 - r) % 4) + r) 0).toNat 0

def invMixColumns (s : Array UInt8) : Array UInt8 :=
  Array.ofFn (n := 16) fun k =>
    let c := k.val / 4
    let a0 := s.getD (4 * c) 0
    let a1 := s.getD (4 * c + 1) 0
    let a2 := s.getD (4 * c + 2) 0
    let a3 := s.getD (4 * c + 3) 0
    match k.val % 4 with
    | 0 => gmul a0 14 ^^^ gmul a1 11 ^^^ gmul a2 13 ^^^ gmul a3 9
    | 1 => gmul a0 9 ^^^ gmul a1 14 ^^^ gmul a2 11 ^^^ gmul a3 13
    | 2 => gmul a0 13 ^^^ gmul a1 9 ^^^ gmul a2 14 ^^^ gmul a3 11
    | _ => gmul a0 11 ^^^ gmul a1 13 ^^^ gmul a2 9 ^^^ gmul a3 14

def aesDecExpanded (w : Array UInt8) (nr : Nat) (block : Array UInt8) : Array UInt8 := Id.run do
  let mut s := addRoundKey block w nr
  for k in [1:nr] do
    s := invMixColumns (addRoundKey (invShiftSub s) w (nr - k))
  return addRoundKey (invShiftSub s) w 0

def aesDec (key block : Bytes) : Option Bytes :=
  if (key.length = 16 ∨ key.length = 32) ∧ block.length = 16 then
    let k := key.toArray
    some (aesDecExpanded (aesExpand k) (k.size / 4 + 6) block.toArray).toList
  else none

/-! ## published test vectors (checked when this file is compiled) -/

def hexOf (bs : Bytes) : String :=
  String.ofList (bs.flatMap fun b =>
    let d (n : Nat) : Char := if n < 10 then Char.ofNat (48 + n) else Char.ofNat (87 + n)
    [d (b.toNat / 16), d (b.toNat % 16)])

def ascii (s : String) : Bytes := s.toList.map fun c => UInt8.ofNat c.toNat

-- RFC 1321 A.5
#guard hexOf (md5 (ascii "")) == "d41d8cd98f00b204e9800998ecf8427e"
#guard hexOf (md5 (ascii "abc")) == "900150983cd24fb0d6963f7d28e17f72"
#guard hexOf (md5 (ascii "12345678901234567890123456789012345678901234567890123456789012345678901234567890")) == "57edf4a22be3c955ac49da2e2107b67a"
-- FIPS 180-4 examples
#guard hexOf (sha256 (ascii "abc")) == "ba7816bf8f01cfea414140de5dae2223b00361a396177a9cb410ff61f20015ad"
#guard hexOf (sha256 (ascii "abcdbcdecdefdefgefghfghighijhijkijkljklmklmnlmnomnopnopq")) == "248d6a61d20638b8e5c026930c3e6039a33ce45964ff2167f6ecedd419db06c1"
#guard hexOf (sha384 (ascii "abc")) == "cb00753f45a35e8bb5a03d699ac65007272c32ab0eded1631a8b605a43ff5bed8086072ba1e7cc2358baeca134c825a7"
#guard hexOf (sha512 (ascii "abc")) == "ddaf35a193617abacc417349ae20413112e6fa4e89a97ea20a9eeee64b55d39a2192992a274fc1a836ba3c23a3feebbd454d4423643ce80e2a9ac94fa54ca49f"
#guard hexOf (sha512 (ascii "abcdefghbcdefghicdefghijdefghijkefghijklfghijklmghijklmnhijklmnoijklmnopjklmnopqklmnopqrlmnopqrsmnopqrstnopqrstu")) == "8e959b75dae313da8cf4f72814fc143f8f7779c6eb9f7fa17299aeadb6889018501d289e4900f7e4331b99dec4b5433ac7d329eeb6dd26545e96e55b874be909"
-- FIPS 197 appendix C.1 / C.3
#guard (aesEnc (List.range 16 |>.map UInt8.ofNat) ((List.range 16).map fun k => UInt8.ofNat (17 * k))).map hexOf == some "69c4e0d86a7b0430d8cdb78070b4c55a"
#guard (aesEnc (List.range 32 |>.map UInt8.ofNat) ((List.range 16).map fun k => UInt8.ofNat (17 * k))).map hexOf == some "8ea2b7ca516745bfeafc49904b496089"
#guard (aesDec (List.range 16 |>.map UInt8.ofNat) ((aesEnc (List.range 16 |>.map UInt8.ofNat) ((List.range 16).map fun k => UInt8.ofNat (17 * k))).getD [])).map hexOf == some "00112233445566778899aabbccddeeff"
#guard (aesDec (List.range 32 |>.map UInt8.ofNat) ((aesEnc (List.range 32 |>.map UInt8.ofNat) ((List.range 16).map fun k => UInt8.ofNat (17 * k))).getD [])).map hexOf == some "00112233445566778899aabbccddeeff"
-- the table-driven cipher against the textbook round functions
#guard (List.range 40).all fun n =>
  let key := (List.range 32).map fun k => UInt8.ofNat (k * 7 + n * 13)
  let blk := ((List.range 16).map fun k => UInt8.ofNat (k * 31 + n * 5 + 1)).toArray
  let w16 := aesExpand (key.take 16).toArray
  let w32 := aesExpand key.toArray
  aesEncExpanded w16 10 blk == aesEncExpandedRef w16 10 blk && aesEncExpanded w32 14 blk == aesEncExpandedRef w32 14 blk

end Prim
