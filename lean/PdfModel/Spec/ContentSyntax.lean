import PdfModel.Spec.Syntax
import PdfModel.Model.ContentBytes

/-!
# Statement side of the lexical composition of C08: spellings of a content stream

`SpellsToks pr toks txt`: the bytes `txt` are a conformant spelling of the token sequence `toks` of a content
stream (ISO 32000-1 §7.8.2: operands and operators are tokens of §7.2): every operand is spelled as an object
(`PdfSyntax.Spells`, any of its spellings), every operator as its keyword, with white-space and comments
(`Gap`) before, between and after them, and none where the syntax needs none (after a `)`, `>`, `]` or before a
delimiter).  Independent of the lexer / parser / content models.

`kwOK`: the lexemes that can be operators here: regular characters only, not a number, and none of the
lexemes that belong to objects or to the inline-image construct (`R`, `stream`, `true`, `false`, `null`, `BI`).
-/

namespace ContentSyntax
open Content ContentBytes
open PdfSyntax (Gap Bnd Spells needsBnd)

def kwOK (t : List UInt8) : Bool :=
  !t.isEmpty && t.all PdfLex.isRegular && !PdfLex.isInteger t && (PdfLex.realNumber t).isNone &&
    t != [82] && t != PdfSyntax.kwStream && t != PdfSyntax.kwTrue && t != PdfSyntax.kwFalse && t != PdfSyntax.kwNull &&
    t != kwBI

inductive SpellsToks {R : Type} (pr : List UInt8 → Option R) : List (Tok R) → List UInt8 → Prop where
  /-- after the last token: white-space and comments up to the end of the data -/
  | nil (g : List UInt8) : Gap g → SpellsToks pr [] g
  | prim (g : List UInt8) (p : Content.Prim R) (txt rest : List UInt8) (toks : List (Tok R)) :
      Gap g → Spells pr (toLex p) txt → (needsBnd (toLex p) = true → Bnd rest) → SpellsToks pr toks rest →
      SpellsToks pr (.prim p :: toks) (g ++ txt ++ rest)
  | kw (g : List UInt8) (s : String) (rest : List UInt8) (toks : List (Tok R)) :
      Gap g → kwOK (strBytes s) = true → Bnd rest → SpellsToks pr toks rest →
      SpellsToks pr (.kw s :: toks) (g ++ strBytes s ++ rest)

end ContentSyntax
