import PdfModel.Spec.Codecs

/-! Executable membership tests for the encoder relations of `Spec/Codecs.lean`. They are proved sound in
    `Lemmas/EncCheck.lean` (`checkHex_sound`, `check85_sound`, `checkRL_sound`); the driver runs them on the
    encodings the harness generates, which certifies that those inputs lie in the domain of the C05 theorems. -/

namespace Codecs

/-! ### ASCIIHex -/

def isHexDigitB (c n : UInt8) : Bool :=
  (decide (n < 10) && c == 48 + n) || (decide (10 ≤ n) && decide (n < 16) && (c == 87 + n || c == 55 + n))

def matchHex : Bytes → Bytes → Bool
  | [], [] => true
  | [b], [h] => isHexDigitB h (b >>> 4) && (b &&& 15 == 0)
  | b :: bs, h :: l :: t => isHexDigitB h (b >>> 4) && isHexDigitB l (b &&& 15) && matchHex bs t
  | _, _ => false

/-- `text` is a conforming ASCIIHex encoding of `bs` -/
def checkHex (bs text : Bytes) : Bool :=
  let pre := text.takeWhile (· != 62)
  decide (pre.length < text.length) && matchHex bs (pre.filter fun b => !isWs b)

/-! ### ASCII85 -/

def matchA85 : Bytes → Bytes → Bool
  | [], t => t == []
  | [b0], t => t == (group85 (be32 b0 0 0 0)).take 2
  | [b0, b1], t => t == (group85 (be32 b0 b1 0 0)).take 3
  | [b0, b1, b2], t => t == (group85 (be32 b0 b1 b2 0)).take 4
  | b0 :: b1 :: b2 :: b3 :: bs, t =>
    (b0 == 0 && b1 == 0 && b2 == 0 && b3 == 0 && t.head? == some 122 && matchA85 bs t.tail) ||
    (t.take 5 == group85 (be32 b0 b1 b2 b3) && matchA85 bs (t.drop 5))

/-- `text` is a conforming ASCII85 encoding of `bs` -/
def check85 (bs text : Bytes) : Bool :=
  let s := text.filter fun b => !isWs b
  decide (2 ≤ s.length) && s.drop (s.length - 2) == [126, 62] && matchA85 bs (s.take (s.length - 2))

/-! ### RunLength -/

def matchRL : Nat → Bytes → Bytes → Bool
  | 0, _, _ => false
  | _ + 1, _, [] => false
  | fuel + 1, bs, len :: rest =>
    if len = 128 then bs == []
    else if len < 128 then
      let n := len.toNat + 1
      decide (n ≤ rest.length) && decide (n ≤ bs.length) && bs.take n == rest.take n && matchRL fuel (bs.drop n) (rest.drop n)
    else
      let n := 257 - len.toNat
      match rest with
      | [] => false
      | b :: rest' => decide (n ≤ bs.length) && bs.take n == List.replicate n b && matchRL fuel (bs.drop n) rest'

/-- `text` is a conforming RunLength encoding of `bs` -/
def checkRL (bs text : Bytes) : Bool := matchRL (text.length + 1) bs text

end Codecs
