import PdfModel.Spec.CMapSpell

/-!
  Executable membership test for `CMapSpells` (`Lemmas/CMapSpellCheck.lean`: `spellsCheck es text = true →
  CMapSpells es text`). The driver runs it on every conformant CMap text the harness generates, together with the
  entries the generator meant, so that the generated inputs are certified to lie in the domain of
  `cmap_reads_spelling`. It is a recogniser written from the grammar, it shares no code with the reader model.
-/

namespace CMap

def hexValue (c : UInt8) : Option Nat :=
  if 48 ≤ c && c ≤ 57 then some (c.toNat - 48)
  else if 65 ≤ c && c ≤ 70 then some (c.toNat - 55)
  else if 97 ≤ c && c ≤ 102 then some (c.toNat - 87)
  else none

/-- the text after the end of line that closes a comment -/
def afterComment : Bytes → Option Bytes
  | [] => none
  | c :: r => if isEolChar c then some r else afterComment r

/-- strip separators -/
def dropSeps : Nat → Bytes → Bytes
  | 0, t => t
  | _ + 1, [] => []
  | f + 1, b :: r =>
    if isWhite b then dropSeps f r
    else if b == 37 then
      match afterComment r with
      | some r' => dropSeps f r'
      | none => b :: r
    else b :: r

/-- the nibbles up to `>` and the text after it -/
def readNibs : Bytes → Option (List Nat × Bytes)
  | [] => none
  | c :: r =>
    if c == 62 then some ([], r)
    else if isWhite c then readNibs r
    else match hexValue c with
      | some n => (readNibs r).map (fun p => (n :: p.1, p.2))
      | none => none

def readHexStr : Bytes → Option (List Nat × Bytes)
  | 60 :: r => readNibs r
  | _ => none

def codeOk (c : Nat) (ns : List Nat) : Bool :=
  ns == nibbles [c / 256, c % 256] || (decide (c < 256) && ns == nibbles [c])

def dstOk (s : List Nat) (ns : List Nat) : Bool := ns == nibbles (unitBytes (utf16Encode s))

/-- elements of an array up to `]`; the text after `]` -/
def chkArr : Nat → List (List Nat) → Bytes → Option Bytes
  | 0, _, _ => none
  | f + 1, ss, t =>
    match dropSeps t.length t with
    | 93 :: r => if ss.isEmpty then some r else none
    | 60 :: r =>
      match ss, readHexStr (60 :: r) with
      | s :: ss', some (ns, r1) => if dstOk s ns then chkArr f ss' r1 else none
      | _, _ => none
    | _ => none

/-- `<code> seps <code> seps` of a range entry: the text after them -/
def chkCodes (lo hi : Nat) (t : Bytes) : Option Bytes :=
  match readHexStr t with
  | some (n1, r1) =>
    if codeOk lo n1 then
      match readHexStr (dropSeps r1.length r1) with
      | some (n2, r2) => if codeOk hi n2 then some (dropSeps r2.length r2) else none
      | none => none
    else none
  | none => none

def chk : Nat → St → List Ent → Bytes → Bool
  | 0, _, _, _ => false
  | _ + 1, st, es, [] => st == .outer && es.isEmpty
  | f + 1, st, es, b :: r =>
    if isWhite b then chk f st es r
    else if b == 37 then
      match afterComment r with
      | some r' => chk f st es r'
      | none => false
    else
      let w := (b :: r).takeWhile isRegularChar
      let t := (b :: r).dropWhile isRegularChar
      match st with
      | .outer =>
        if isRegularChar b then
          if w = kwEndcmap then es.isEmpty
          else if w = kwBfchar then chk f .chars es t
          else if w = kwBfrange then chk f .ranges es t
          else chk f .outer es t
        else if b == 47 then chk f .outer es (r.dropWhile isRegularChar)
        else if b == 40 || b == 41 || b == 91 || b == 93 || b == 123 || b == 125 then chk f .outer es r
        else if b == 60 then
          match r with
          | 60 :: r2 => chk f .outer es r2
          | _ => chk f .outer es r
        else if b == 62 then
          match r with
          | 62 :: r2 => chk f .outer es r2
          | _ => chk f .outer es r
        else false
      | .chars =>
        if isRegularChar b then decide (w = wordEndbfchar) && chk f .outer es t
        else match es with
          | .char c s :: es' =>
            (Ent.char c s).wf &&
            match readHexStr (b :: r) with
            | some (n1, r1) =>
              codeOk c n1 &&
              match readHexStr (dropSeps r1.length r1) with
              | some (n2, r2) => dstOk s n2 && chk f .chars es' r2
              | none => false
            | none => false
          | _ => false
      | .ranges =>
        if isRegularChar b then decide (w = wordEndbfrange) && chk f .outer es t
        else match es with
          | .rstr lo ss :: es' =>
            (Ent.rstr lo ss).wf &&
            match chkCodes lo (lo + ss.length - 1) (b :: r) with
            | some r2 =>
              match readHexStr r2 with
              | some (n3, r3) => dstOk (ss.headD []) n3 && chk f .ranges es' r3
              | none => false
            | none => false
          | .rarr lo ss :: es' =>
            (Ent.rarr lo ss).wf &&
            match chkCodes lo (lo + ss.length - 1) (b :: r) with
            | some (91 :: r2) =>
              match chkArr (r2.length + 1) ss r2 with
              | some r3 => chk f .ranges es' r3
              | none => false
            | _ => false
          | _ => false

/-- is `text` a conformant spelling of the program `es`? -/
def spellsCheck (es : List Ent) (text : Bytes) : Bool := chk (text.length + 1) .outer es text

end CMap
