import PdfModel.Model.Widths

/-!
  Statement side of C19 (widths): a well-formed /W array is a sequence of groups `first [w …]` and
  `first last w`; each group assigns widths to a code range; the array assigns to a code what the *last*
  group mentioning it assigns (for the disjoint ranges the property asks for there is at most one).
-/

namespace Widths
variable {α : Type}

inductive Group (α : Type) where
  /-- `c1 [w₀ w₁ …]` (the array written in place, or as a reference to an array object) -/
  | run (c1 : Nat) (byRef : Bool) (xs : List (WP α))
  /-- `c1 c2 w` -/
  | range (c1 c2 : Nat) (x : WP α)

def isNum (p : WP α) : Bool := (asNumber p).isSome

/-- codes within 0..65535, every width a number -/
def Group.wf : Group α → Bool
  | .run c1 _ xs => decide (c1 + xs.length ≤ 65536) && xs.all isNum
  | .range _ c2 x => decide (c2 ≤ 65535) && isNum x

/-- the elements of the /W array for one group (`cx`: the f32 value tagged to the integer codes, unused) -/
def Group.render (cx : α) : Group α → List (WP α)
  | .run c1 byRef xs => [.int c1 cx, if byRef then .refArr xs else .arr xs]
  | .range c1 c2 x => [.int c1 cx, .int c2 cx, x]

def render (cx : α) (gs : List (Group α)) : List (WP α) := gs.flatMap (Group.render cx)

/-- the width the group gives to code `c`, if any -/
def Group.assign : Group α → Nat → Option α
  | .run c1 _ xs, c => if c1 ≤ c then (xs[c - c1]?).bind asNumber else none
  | .range c1 c2 x, c => if c1 ≤ c ∧ c ≤ c2 then asNumber x else none

/-- the width the array gives to code `c`: that of the last group assigning one -/
def lastAssign (gs : List (Group α)) (c : Nat) : Option α := gs.reverse.findSome? (·.assign c)

/-- groups cover pairwise disjoint code ranges (the property's domain; the theorem does not need it) -/
def Group.covers : Group α → Nat → Bool
  | .run c1 _ xs, c => decide (c1 ≤ c ∧ c < c1 + xs.length)
  | .range c1 c2 _, c => decide (c1 ≤ c ∧ c ≤ c2)

end Widths
