import PdfModel.Model.OffLex

/-
  Specification side of C11: an object-stream *writer* (ISO 32000-1 §7.5.7). The members' texts are
  given; the writer concatenates `text ++ sep` (`sep` = the white-space written behind a member, possibly
  none), records for every member the offset of its text relative to the first member, and puts the
  header `id₀ off₀ id₁ off₁ … ` (decimal, one space behind every number) in front. `/N` is the number of
  members, `/First` the length of the header. Independent of the reader in Model/ObjStm.lean.
-/

namespace ObjStmSpec
open OffLex

structure Member where
  id : Nat
  text : Bytes
  sep : Bytes
deriving Repr, DecidableEq

def digit (d : Nat) : UInt8 := 48 + UInt8.ofNat d

/-- decimal numeral of `n` (`fuel > n` is always enough) -/
def decimalF : Nat → Nat → Bytes
  | 0, _ => []
  | fuel + 1, n => if n < 10 then [digit n] else decimalF fuel (n / 10) ++ [digit (n % 10)]

def decimal (n : Nat) : Bytes := decimalF (n + 1) n

def body : List Member → Bytes
  | [] => []
  | m :: ms => m.text ++ m.sep ++ body ms

/-- offset of every member's text, counted from the first member -/
def offsetsFrom (acc : Nat) : List Member → List Nat
  | [] => []
  | m :: ms => acc :: offsetsFrom (acc + (m.text ++ m.sep).length) ms

def header : List (Nat × Nat) → Bytes
  | [] => []
  | (i, o) :: rest => decimal i ++ 32 :: (decimal o ++ 32 :: header rest)

def pairs (ms : List Member) : List (Nat × Nat) := (ms.map (·.id)).zip (offsetsFrom 0 ms)

structure Packed where
  n : Nat
  first : Nat
  data : Bytes
deriving Repr, DecidableEq

def pack (ms : List Member) : Packed :=
  let h := header (pairs ms)
  ⟨ms.length, h.length, h ++ body ms⟩

end ObjStmSpec
