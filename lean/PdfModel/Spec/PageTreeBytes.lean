import PdfModel.Spec.PageTree
import PdfModel.Model.PageTreeBytes
import PdfModel.Model.SaveBytes

/-!
  Statement side of C07 at byte level: a *writer* of page-tree documents. A tree of nodes and leaves (`PTree`: every
  node with its object number and its own optional attributes) becomes one object per node — /Type, /Parent link,
  /Kids in order, accurate /Count, the attributes where the tree places them — plus a catalog; the objects are handed
  to the writer model of the framework (`SaveBytes`: `create` in number order on an empty storage, then `save`:
  frames `n 0 obj … endobj` rendered by `Model/Serialize`, cross-reference stream, trailer, `startxref`).
  Any numbering: the tree's object numbers are any arrangement of `1..N` over its nodes; the catalog is `N + 1`.
-/

namespace PageTreeB
open PdfLex PageTree BuildBytes SaveBytes Storage

variable {R : Type}

def boxVal (m : Nat) : Prim R := .arr [.int 0, .int 0, .int m, .int 7]
def resVal (m : Nat) : Prim R := .dict [(kProperties, .dict [(77 :: fmtNat m, .dict [])])]

/-- the attribute entries a node carries -/
def attrEntries (a : Attrs) : Dict R :=
  (match a.mediaBox with | some m => [(kMediaBox, boxVal m)] | none => []) ++
  (match a.cropBox with | some m => [(kCropBox, boxVal m)] | none => []) ++
  (match a.resources with | some m => [(kResources, resVal m)] | none => [])

def leafVal (parent : Nat) (a : Attrs) : Prim R :=
  .dict ([(kType, .name kPage), (kParent, .ref parent 0)] ++ attrEntries a)

def nodeVal (parent : Option Nat) (kids : List Nat) (count : Nat) (a : Attrs) : Prim R :=
  .dict ([(kType, .name kPagesT)] ++ (match parent with | some p => [(kParent, .ref p 0)] | none => []) ++
    [(kKids, .arr (kids.map fun k => .ref k 0)), (kCount, .int count)] ++ attrEntries a)

mutual
/-- the objects of a tree: (number, body), depth first -/
def objsOf (parent : Option Nat) : PTree → List (Nat × Prim R)
  | .leaf id a => [(id, leafVal (parent.getD 0) a)]
  | .node id a ks => (id, nodeVal parent (ks.map PTree.id) (nLeavesL ks) a) :: objsOfL id ks
def objsOfL (pid : Nat) : List PTree → List (Nat × Prim R)
  | [] => []
  | k :: ks => objsOf (some pid) k ++ objsOfL pid ks
end

/-- the body written under number `k` (`null` for a number the tree does not use) -/
def bodyAt (objs : List (Nat × Prim R)) (k : Nat) : Prim R :=
  match objs.find? (·.1 == k) with
  | some p => p.2
  | none => .null

/-- the empty storage with a trailer whose /Root is `root` -/
def emptyDoc (root : Nat) : BDoc R :=
  ⟨⟨⟨[.free 0 65535], [], [], false, [], [], 9, 0, 0⟩, ⟨(root, 0), none, none⟩⟩, builderIds, headerBytes⟩

/-- `create` for the objects `1..n` in number order, then the catalog `n + 1` -/
def docOps (t : PTree) (n : Nat) : List (OpB R) :=
  (List.range' 1 n).map (fun k => .create (bodyAt (objsOf none t) k)) ++ [.create (catalogVal t.id)]

/-- the storage in which `save` is called -/
def preparedDoc (fmt : R → List UInt8) (t : PTree) (n : Nat) : BDoc R :=
  (runB fmt (emptyDoc (n + 1)) (docOps t n)).1

/-- the file: header line + one revision -/
def writeDoc (fmt : R → List UInt8) (t : PTree) (n : Nat) : Out (List UInt8) :=
  match saveB fmt true (preparedDoc fmt t n) with
  | (b', .ok _) => .ok b'.bytes
  | (_, .err) => .err
  | (_, .panic) => .panic
  | (_, .oof) => .oof

mutual
def idsOf : PTree → List Nat
  | .leaf id _ => [id]
  | .node id _ ks => id :: idsOfL ks
def idsOfL : List PTree → List Nat
  | [] => []
  | k :: ks => idsOf k ++ idsOfL ks
end

def attrsOK (a : Attrs) : Bool :=
  (a.mediaBox.getD 0 ≤ 2147483647) && (a.cropBox.getD 0 ≤ 2147483647) && (a.resources.getD 0 ≤ 2147483647)

mutual
/-- every marker fits an `i32` (boxes are written as integers) and a `usize` -/
def markersOK : PTree → Bool
  | .leaf _ a => attrsOK a
  | .node _ a ks => attrsOK a && markersOKL ks
def markersOKL : List PTree → Bool
  | [] => true
  | k :: ks => markersOK k && markersOKL ks
end

end PageTreeB
