import PdfModel.Model.Lexer

/-!
  What may follow an object (statement side of the sequence clause of C03): an executable, decidable criterion
  `safeTail` on the bytes after the object.  `Lemmas/RenderTail` proves it sufficient for the side condition
  `Ahead` of the C03 theorems (nothing merges with the object before: no `<int> <int> R`, no `<dict> stream`),
  and that every element of `Spec/Render.tails` satisfies it.
-/

namespace PdfSpec
open PdfLex

/-- drop a comment body up to and including its end-of-line marker; `none` when the line never ends -/
def dropComment : List UInt8 → Option (List UInt8)
  | [] => none
  | b :: r => if b == 10 || b == 13 then some r else dropComment r

/-- strip leading white-space and complete comments (`fuel`: the length suffices) -/
def stripGap : Nat → List UInt8 → List UInt8
  | 0, s => s
  | _, [] => []
  | fuel + 1, b :: r =>
    if isWhitespace b then stripGap fuel r
    else if b == 37 then
      match dropComment r with
      | some r' => stripGap fuel r'
      | none => b :: r
    else b :: r

/-- the next lexeme (if any) is not `R` -/
def notRB (buf : Buf) (q : Nat) : Bool :=
  match nextWord buf q with
  | .err => true
  | .ok w => slice buf w.1 w.2 != [82]
  | _ => false

/-- executable form of `Ahead` (`Lemmas/Parser`) -/
def aheadB (buf : Buf) (q : Nat) : Bool :=
  match nextWord buf q with
  | .err => true
  | .ok w =>
    let t := slice buf w.1 w.2
    t != [82] && t != kwStream && (!isInteger t || notRB buf w.2)
  | _ => false

/-- after its leading white-space and comments the tail is empty, or starts a lexeme and, taken as a buffer of its
    own, does not merge with what is before it -/
def safeTail (tail : List UInt8) : Bool :=
  match stripGap tail.length tail with
  | [] => true
  | b :: r => !isWhitespace b && b != 37 && aheadB (b :: r).toArray 0

end PdfSpec
