import PdfModel.Model.Crypt

/-!
# The standard security handler as the standard states it (ISO 32000-1 §7.6, ISO 32000-2 §7.6.4)

Statement side of C06, written from the text of the standard and *not* from `crypt.rs`:

* writer side: Algorithm 1 / 1.A (`encryptObject`), 2 (`alg2Digest`, `alg2Key`), 3 (`alg3Key`, `makeO`),
  4 / 5 (`makeU`), 8 (`makeU56`, `makeUE`), 9 (`makeO56`, `makeOE`), 2.B (`hash2B`);
* reader side: Algorithm 6 (`authUser`), 7 (`authOwner`), 2.A (`auth56`).

The hash functions and the AES block function are pure functions here (`Hashes`); `PrimsAgree P H` says
that the model's primitives compute them. RC4 is the cipher itself, not part of the handler: both
sides use the same stream cipher `rc4` (pinned to RC4 by test vectors in `Props/C06` and by the
correspondence with the implementation and with the harness' own RC4).

Only vocabulary is shared with the model (`Bytes`, `PADDING`, `rc4`, `xorBytes`, `Method`).
-/

namespace StdSec
open Crypt (Bytes PADDING xorBytes)

structure Hashes where
  md5 : Bytes → Bytes
  sha256 : Bytes → Bytes
  sha384 : Bytes → Bytes
  sha512 : Bytes → Bytes
  /-- AES forward block function `E key block` -/
  aesE : Bytes → Bytes → Bytes
  /-- AES inverse block function -/
  aesD : Bytes → Bytes → Bytes
  /-- SASLprep of a password given as bytes; `none`: not UTF-8 or prohibited -/
  prep : Bytes → Option Bytes

/-- what the theorems assume about the primitives: they are (total) functions with the output sizes of
    MD5 / SHA-2 / AES, and the two AES directions are inverse to each other for 16 and 32 byte keys -/
structure Hashes.WF (H : Hashes) : Prop where
  md5_len : ∀ x, (H.md5 x).length = 16
  sha256_len : ∀ x, (H.sha256 x).length = 32
  sha384_len : ∀ x, (H.sha384 x).length = 48
  sha512_len : ∀ x, (H.sha512 x).length = 64
  aesE_len : ∀ k b, b.length = 16 → (H.aesE k b).length = 16
  aesD_E : ∀ k b, (k.length = 16 ∨ k.length = 32) → b.length = 16 → H.aesD k (H.aesE k b) = b

/-- the model's primitives compute the functions of `H` -/
structure PrimsAgree (P : Crypt.Prims) (H : Hashes) : Prop where
  md5 : ∀ x, P.md5 x = .ok (H.md5 x)
  sha256 : ∀ x, P.sha256 x = .ok (H.sha256 x)
  sha384 : ∀ x, P.sha384 x = .ok (H.sha384 x)
  sha512 : ∀ x, P.sha512 x = .ok (H.sha512 x)
  aesEnc : ∀ k b, P.aesEnc k b = .ok (H.aesE k b)
  aesDec : ∀ k b, P.aesDec k b = .ok (H.aesD k b)
  saslprep : ∀ x, P.saslprep x = (match H.prep x with | some y => .ok y | none => .err)

/-! ## RC4 as a total function -/

/-- the RC4 stream cipher (keys of 1..256 bytes; other keys are never used by the handler) -/
def rc4 (key data : Bytes) : Bytes :=
  match Crypt.Rc4.new key with
  | .ok r => r.apply data
  | _ => data

/-! ## Revisions 2–4 -/

/-- "Pad or truncate the password string to exactly 32 bytes … using the padding string" -/
def pad32 (pw : Bytes) : Bytes := (pw ++ PADDING).take 32

/-- the value of `/P` as an unsigned 32-bit quantity, low-order byte first -/
def le32 (p : Int) : Bytes :=
  let n := (p % 2 ^ 32).toNat
  (List.range 4).map fun k => UInt8.ofNat (n / 256 ^ k % 256)

def iter {α : Type} (f : α → α) : Nat → α → α
  | 0, a => a
  | n + 1, a => iter f n (f a)

/-- Algorithm 2, steps a–h: the final MD5 output (its first `n` bytes are the file key) -/
def alg2Digest (H : Hashes) (r n : Nat) (o : Bytes) (p : Int) (id0 : Bytes) (encryptMetadata : Bool) (userPw : Bytes) : Bytes :=
  let h0 := H.md5 (pad32 userPw ++ o ++ le32 p ++ id0 ++ (if r ≥ 4 ∧ encryptMetadata = false then [0xff, 0xff, 0xff, 0xff] else []))
  if r ≥ 3 then iter (fun h => H.md5 (h.take n)) 50 h0 else h0

def alg2Key (H : Hashes) (r n : Nat) (o : Bytes) (p : Int) (id0 : Bytes) (encryptMetadata : Bool) (userPw : Bytes) : Bytes :=
  (alg2Digest H r n o p id0 encryptMetadata userPw).take n

/-- Algorithm 3, steps a–d: the RC4 key made from the owner password -/
def alg3Key (H : Hashes) (r n : Nat) (ownerPw : Bytes) : Bytes :=
  let h0 := H.md5 (pad32 ownerPw)
  (if r ≥ 3 then iter H.md5 50 h0 else h0).take n

def xorKey (k : Bytes) (i : Nat) : Bytes := k.map (· ^^^ UInt8.ofNat i)

/-- RC4 passes with the keys `k xor i`, `i` running through `is` in order -/
def rc4Chain (k : Bytes) (is : List Nat) (d : Bytes) : Bytes := is.foldl (fun d i => rc4 (xorKey k i) d) d

/-- Algorithm 3: `/O` -/
def makeO (H : Hashes) (r n : Nat) (ownerPw userPw : Bytes) : Bytes :=
  rc4Chain (alg3Key H r n ownerPw) (if r ≥ 3 then List.range 20 else [0]) (pad32 userPw)

/-- Algorithm 4 (revision 2) / Algorithm 5 (revision 3, 4): `/U`; `tail` is the arbitrary padding -/
def makeU (H : Hashes) (r : Nat) (key id0 tail : Bytes) : Bytes :=
  if r = 2 then rc4 key PADDING
  else rc4Chain key (List.range 20) (H.md5 (PADDING ++ id0)) ++ tail

/-- Algorithm 6: the user password is authenticated by recomputing `/U` (first 16 bytes for R ≥ 3).
    Returns the Algorithm 2 digest on success. -/
def authUser (H : Hashes) (r n : Nat) (o u : Bytes) (p : Int) (id0 : Bytes) (em : Bool) (pw : Bytes) : Option Bytes :=
  let dg := alg2Digest H r n o p id0 em pw
  let k := dg.take n
  if r = 2 then (if makeU H 2 k id0 [] = u then some dg else none)
  else (if makeU H r k id0 [] = u.take 16 then some dg else none)

/-- Algorithm 7: decrypt `/O` with the key of Algorithm 3 (keys `k xor 19` … `k xor 0`) and test the
    result as user password -/
def authOwner (H : Hashes) (r n : Nat) (o u : Bytes) (p : Int) (id0 : Bytes) (em : Bool) (pw : Bytes) : Option Bytes :=
  let k := alg3Key H r n pw
  let userPw := rc4Chain k (if r ≥ 3 then (List.range 20).reverse else [0]) o
  authUser H r n o u p id0 em userPw

def authenticate (H : Hashes) (r n : Nat) (o u : Bytes) (p : Int) (id0 : Bytes) (em : Bool) (pw : Bytes) : Option Bytes :=
  match authUser H r n o u p id0 em pw with
  | some d => some d
  | none => authOwner H r n o u p id0 em pw

/-! ## AES-CBC with PKCS#7 padding (RFC 2898 / RFC 8018 as the standard cites it) -/

def cbcEnc (E : Bytes → Bytes) : Nat → Bytes → Bytes → Bytes
  | 0, _, _ => []
  | n + 1, prev, data =>
    let c := E (xorBytes (data.take 16) prev)
    c ++ cbcEnc E n c (data.drop 16)

def cbcDec (D : Bytes → Bytes) : Nat → Bytes → Bytes → Bytes
  | 0, _, _ => []
  | n + 1, prev, data =>
    let c := data.take 16
    xorBytes (D c) prev ++ cbcDec D n c (data.drop 16)

/-- "padded … to a multiple of 16 bytes … the final bytes all have the value of the number of padding
    bytes; a full block when the length is already a multiple of 16" -/
def pkcs7Pad (data : Bytes) : Bytes :=
  let k := 16 - data.length % 16
  data ++ List.replicate k (UInt8.ofNat k)

/-! ## Algorithm 1 / 1.A -/

inductive Cipher where
  | rc4 | aes128 | aes256
deriving DecidableEq, Repr

/-- low-order `k` bytes of `n`, low byte first -/
def lowBytes (k n : Nat) : Bytes := (List.range k).map fun i => UInt8.ofNat (n / 256 ^ i % 256)

/-- the key for object `(id, gen)` -/
def objectKey (H : Hashes) (c : Cipher) (fileKey : Bytes) (id gen : Nat) : Bytes :=
  match c with
  | .aes256 => fileKey
  | .rc4 => (H.md5 (fileKey ++ lowBytes 3 id ++ lowBytes 2 gen)).take (min (fileKey.length + 5) 16)
  | .aes128 => (H.md5 (fileKey ++ lowBytes 3 id ++ lowBytes 2 gen ++ [0x73, 0x41, 0x6C, 0x54])).take (min (fileKey.length + 5) 16)

/-- what a conforming writer stores for the string / stream `data` of object `(id, gen)`; `iv` is the
    arbitrary 16 byte initialisation vector of the AES variants -/
def encryptObject (H : Hashes) (c : Cipher) (fileKey : Bytes) (id gen : Nat) (iv data : Bytes) : Bytes :=
  let k := objectKey H c fileKey id gen
  match c with
  | .rc4 => rc4 k data
  | _ => let p := pkcs7Pad data; iv ++ cbcEnc (H.aesE k) (p.length / 16) iv p

/-! ## Revisions 5 and 6 -/

/-- big-endian value of a byte string -/
def beNat : Bytes → Nat
  | [] => 0
  | b :: bs => b.toNat * 256 ^ bs.length + beNat bs

/-- one round of Algorithm 2.B: the new `K` and the last byte of `E` -/
def round2B (H : Hashes) (pw u k : Bytes) : Bytes × UInt8 :=
  let k1 := (List.replicate 64 (pw ++ k ++ u)).flatten
  let e := cbcEnc (H.aesE (k.take 16)) (k1.length / 16) ((k.drop 16).take 16) k1
  let m := beNat (e.take 16) % 3
  ((if m = 0 then H.sha256 e else if m = 1 then H.sha384 e else H.sha512 e), e.getLast?.getD 0)

/-- "repeat … 64 times; then while the last byte of E is greater than (round number) − 32" — `round` counts
    the rounds done so far; 288 rounds always suffice (`Props/C06.hash2B_fuel`) -/
def loop2B (H : Hashes) (pw u : Bytes) : Nat → Nat → Bytes → Option Bytes
  | 0, _, _ => none
  | fuel + 1, round, k =>
    let (k', last) := round2B H pw u k
    if round + 1 ≥ 64 ∧ last.toNat + 32 ≤ round + 1 then some (k'.take 32)
    else loop2B H pw u fuel (round + 1) k'

/-- Algorithm 2.B (`udata` is empty or the 48 bytes of `/U`) -/
def hash2B (H : Hashes) (pw salt udata : Bytes) : Bytes :=
  (loop2B H pw udata 288 0 (H.sha256 (pw ++ salt ++ udata))).getD []

def hash56 (H : Hashes) (r : Nat) (pw salt udata : Bytes) : Bytes :=
  if r = 6 then hash2B H pw salt udata else H.sha256 (pw ++ salt ++ udata)

def zeroIV : Bytes := List.replicate 16 0

/-- Algorithm 8: `/U` and `/UE` from the (prepared) user password, the two 8 byte salts, the file key -/
def makeU56 (H : Hashes) (r : Nat) (pw vs ks : Bytes) : Bytes := hash56 H r pw vs [] ++ vs ++ ks
def makeUE (H : Hashes) (r : Nat) (pw ks fileKey : Bytes) : Bytes :=
  cbcEnc (H.aesE (hash56 H r pw ks [])) 2 zeroIV fileKey

/-- Algorithm 9: `/O` and `/OE` -/
def makeO56 (H : Hashes) (r : Nat) (pw vs ks u : Bytes) : Bytes := hash56 H r pw vs u ++ vs ++ ks
def makeOE (H : Hashes) (r : Nat) (pw ks u fileKey : Bytes) : Bytes :=
  cbcEnc (H.aesE (hash56 H r pw ks u)) 2 zeroIV fileKey

/-- the password as Algorithm 2.A uses it: SASLprep, UTF-8, at most 127 bytes -/
def prepPw (H : Hashes) (pw : Bytes) : Option Bytes := (H.prep pw).map (·.take 127)

/-- Algorithm 2.A: owner first, then user; the file key on success -/
def auth56 (H : Hashes) (r : Nat) (o u oe ue : Bytes) (pw : Bytes) : Option Bytes :=
  match prepPw H pw with
  | none => none
  | some p =>
    if hash56 H r p ((o.drop 32).take 8) u = o.take 32 then
      some (cbcDec (H.aesD (hash56 H r p ((o.drop 40).take 8) u)) 2 zeroIV oe)
    else if hash56 H r p ((u.drop 32).take 8) [] = u.take 32 then
      some (cbcDec (H.aesD (hash56 H r p ((u.drop 40).take 8) [])) 2 zeroIV ue)
    else none

end StdSec

/-! ## Vocabulary of the C06 statements: which objects are exempt, what a conforming writer stores,
    what a written dictionary looks like -/

namespace Crypt
open StdSec

/-- the objects `Decoder::decrypt` leaves alone -/
def Exempt (d : Decoder) (id gen : Nat) : Prop :=
  d.encryptRef = some (id, gen) ∨ (d.encryptMetadata = false ∧ d.metadataRef = some (id, gen))

instance (d : Decoder) (id gen : Nat) : Decidable (Exempt d id gen) := by unfold Exempt; infer_instance

/-- the comparison of Algorithm 6 for a candidate key -/
def UCheck (H : Hashes) (r : Nat) (u id k : Bytes) : Prop :=
  if r = 2 then makeU H 2 k id [] = u else makeU H r k id [] = u.take 16

instance (H : Hashes) (r : Nat) (u id k : Bytes) : Decidable (UCheck H r u id k) := by unfold UCheck; infer_instance

/-- what a conforming writer puts into `/O` and `/U` (Algorithms 3, 4, 5) for revisions 2–4 -/
structure WrittenRc4 (H : Hashes) (d : CryptDict) (id0 : Bytes) (n : Nat) (userPw ownerPw tail : Bytes) : Prop where
  o : d.o = makeO H d.r n ownerPw userPw
  u : d.u = makeU H d.r (alg2Key H d.r n d.o d.p id0 d.encryptMetadata userPw) id0 tail

/-- the `/U`, `/UE` a conforming writer produces (Algorithm 8) for the prepared user password `pU` -/
structure WrittenU56 (H : Hashes) (d : CryptDict) (pU vs ks fileKey : Bytes) : Prop where
  u : d.u = makeU56 H d.r pU vs ks
  ue : d.ue = some (makeUE H d.r pU ks fileKey)
  vs : vs.length = 8
  ks : ks.length = 8
  key : fileKey.length = 32

/-- the `/O`, `/OE` of Algorithm 9 for the prepared owner password `pO` -/
structure WrittenO56 (H : Hashes) (d : CryptDict) (pO vs ks fileKey : Bytes) : Prop where
  o : d.o = makeO56 H d.r pO vs ks d.u
  oe : d.oe = some (makeOE H d.r pO ks d.u fileKey)
  vs : vs.length = 8
  ks : ks.length = 8
  key : fileKey.length = 32

/-- the decoder holds the file key the writer used, for the writer's cipher -/
def Matches (d : Decoder) (c : Cipher) (fileKey : Bytes) : Prop :=
  match c with
  | .rc4 => d.method = .v2 ∧ d.keyOf = .ok fileKey
  | .aes128 => d.method = .aesv2 ∧ d.keyOf = .ok fileKey ∧ fileKey.length = 16
  | .aes256 => d.method = .aesv3 ∧ d.key = fileKey ∧ fileKey.length = 32

/-- how a conforming writer stores the string / stream data `plain` of object `(id, gen)`: unchanged when
    the object is exempt (the encryption dictionary; the metadata object when `EncryptMetadata` is false),
    otherwise Algorithm 1 / 1.A with an arbitrary 16 byte IV -/
def StoredAs (H : Hashes) (c : Cipher) (fileKey : Bytes) (exempt : Prop) (id gen : Nat) (plain stored : Bytes) : Prop :=
  (exempt ∧ stored = plain) ∨ (¬ exempt ∧ ∃ iv : Bytes, iv.length = 16 ∧ stored = encryptObject H c fileKey id gen iv plain)

mutual
/-- `stored` is `plain` with every string replaced by a stored form (`R plain stored`), same shape -/
def EncVal (R : Bytes → Bytes → Prop) : Val → Val → Prop
  | .str p, .str s => R p s
  | .atom t, .atom t' => t = t'
  | .arr ps, .arr ss => EncVals R ps ss
  | .dict ps, .dict ss => EncKvs R ps ss
  | _, _ => False
def EncVals (R : Bytes → Bytes → Prop) : List Val → List Val → Prop
  | [], [] => True
  | p :: ps, s :: ss => EncVal R p s ∧ EncVals R ps ss
  | _, _ => False
def EncKvs (R : Bytes → Bytes → Prop) : List (Bytes × Val) → List (Bytes × Val) → Prop
  | [], [] => True
  | (k, p) :: ps, (k', s) :: ss => k = k' ∧ EncVal R p s ∧ EncKvs R ps ss
  | _, _ => False
end

end Crypt
