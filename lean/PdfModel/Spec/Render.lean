import PdfModel.Model.Parser
import PdfModel.Model.Serialize
import PdfModel.Spec.Syntax

/-!
  The randomized, specification-conformant printer of C03 (PDF 32000-1 §7.2–7.3).

  `render v tape` spells the value `v`; every choice the syntax leaves open is drawn from `tape`
  (a list of naturals; an exhausted tape yields 0).  The Rust twin (`harness/src/c03_render.rs`) draws
  the same numbers in the same order; the driver compares both outputs byte for byte.

  Choices drawn:
   * gaps between tokens: 0–3 pieces, each one of the six white-space bytes or a comment `% … EOL`
     (EOL = LF | CR | CR LF); a gap is forced to be non-empty only where both neighbours are regular
     characters (`5 6`), so `[/A/B(x)<41>[1]<</K/V>>]` is produced as well;
   * integers: `+`, `-0`, leading zeros; reals: sign, leading zeros, `d.`, `.d`, `d.d`, trailing zeros;
   * names: `#xx` (either case) where mandatory and optionally for regular characters;
   * literal strings: raw byte, named escape, 1–3 digit octal (3 when an octal digit follows; optionally
     with the ignored high-order bit), backslash before a character that starts no escape, raw balanced
     parentheses, line continuations, LF written as LF, CR or CR LF;
   * hexadecimal strings: digit case, white-space between digits, odd number of digits;
   * references `n g R` with leading zeros; dictionaries, arrays; indirect objects; streams with LF or
     CR LF after the keyword.

  Rendering goes right to left (the rest first) because some choices depend on the byte that follows
  (separator needed? three octal digits needed? CR followed by LF?).
-/

namespace PdfSpec
open PdfLex

abbrev Tape := List Nat

/-- a number in `0 .. n-1` (`n > 0`) -/
def draw (n : Nat) : Tape → Nat × Tape
  | [] => (0, [])
  | x :: t => (x % n, t)

def wsByte (i : Nat) : UInt8 :=
  match i with
  | 0 => 32 | 1 => 10 | 2 => 13 | 3 => 9 | 4 => 12 | _ => 0

/-- `k` bytes of comment text (anything but CR and LF) -/
def commentBody : Nat → Tape → List UInt8 × Tape
  | 0, t => ([], t)
  | k + 1, t =>
    let (x, t) := draw 256 t
    let b : UInt8 := if x == 10 || x == 13 then 120 else UInt8.ofNat x
    let (r, t) := commentBody k t
    (b :: r, t)

/-- one piece of a gap: a white-space byte or a comment -/
def gapPiece (t : Tape) : List UInt8 × Tape :=
  let (c, t) := draw 8 t
  if c < 6 then ([wsByte c], t)
  else
    let (k, t) := draw 4 t
    let (body, t) := commentBody k t
    let (e, t) := draw 3 t
    let eol : List UInt8 := if e == 0 then [10] else if e == 1 then [13] else [13, 10]
    (37 :: body ++ eol, t)

def gapPieces : Nat → Tape → List UInt8 × Tape
  | 0, t => ([], t)
  | k + 1, t =>
    let (p, t) := gapPiece t
    let (r, t) := gapPieces k t
    (p ++ r, t)

/-- a gap; never empty when `must` -/
def gap (must : Bool) (t : Tape) : List UInt8 × Tape :=
  let (k, t) := draw 4 t
  let (g, t) := gapPieces k t
  (if must && g.isEmpty then [32] else g, t)

/-- does `s` begin with a regular character (so that a regular token before it needs a separator)? -/
def startsRegular (s : List UInt8) : Bool :=
  match s with
  | [] => false
  | b :: _ => isRegular b

/-- values whose spelling ends in a regular character (`Spec/Syntax`) -/
abbrev needsBnd {R : Type} (v : Prim R) : Bool := PdfSyntax.needsBnd v

def zeros : Nat → List UInt8
  | 0 => []
  | k + 1 => 48 :: zeros k

/-- unsigned integer with 0–2 leading zeros -/
def natTok (n : Nat) (t : Tape) : List UInt8 × Tape :=
  let (z, t) := draw 3 t
  (zeros z ++ fmtNat n, t)

def intTok (i : Int) (t : Tape) : List UInt8 × Tape :=
  let (s, t) := draw 3 t
  let sign : List UInt8 :=
    if i < 0 then [45]
    else if s == 1 then [43]
    else if s == 2 && i == 0 then [45]
    else []
  let (d, t) := natTok i.natAbs t
  (sign ++ d, t)

/-- variants of a decimal text `-?digits(.digits)?` that denote the same number -/
def realTok (base : List UInt8) (t : Tape) : List UInt8 × Tape :=
  let neg := base.head? == some 45
  let body := if neg then base.drop 1 else base
  let (ip, fp) := match splitDot body with
    | some (a, c) => (a, c)
    | none => (body, [])
  let (s, t) := draw 2 t
  let sign : List UInt8 := if neg then [45] else if s == 1 then [43] else []
  let (z, t) := draw 3 t
  let (tz, t) := draw 3 t
  let (dropZero, t) := draw 2 t
  let fp' := fp ++ zeros tz
  -- the integer part may be dropped when it is zero and a fraction digit is there
  let ip' := if dropZero == 1 && ip.all (· == 48) && !fp'.isEmpty then [] else zeros z ++ ip
  (sign ++ ip' ++ [46] ++ fp', t)

def hexDigitCase (n : UInt8) (upper : Bool) : UInt8 :=
  if n < 10 then 48 + n else if upper then 55 + n else 87 + n

def hex2Case (b : UInt8) (t : Tape) : List UInt8 × Tape :=
  let (u1, t) := draw 2 t
  let (u2, t) := draw 2 t
  ([hexDigitCase (b >>> 4) (u1 == 1), hexDigitCase (b &&& 15) (u2 == 1)], t)

def nameBody : List UInt8 → Tape → List UInt8 × Tape
  | [], t => ([], t)
  | b :: bs, t =>
    let (r, t) := nameBody bs t
    let (c, t) := draw 4 t
    if nameVerbatim b && c != 3 then (b :: r, t)
    else
      let (h, t) := hex2Case b t
      (35 :: h ++ r, t)

def nameTok (s : List UInt8) (t : Tape) : List UInt8 × Tape :=
  let (b, t) := nameBody s t
  (47 :: b, t)

/-- 0–2 white-space bytes inside a hexadecimal string -/
def hexWs (t : Tape) : List UInt8 × Tape :=
  let (k, t) := draw 4 t
  if k == 0 then
    let (a, t) := draw 6 t
    ([wsByte a], t)
  else if k == 1 then
    let (a, t) := draw 6 t
    let (b, t) := draw 6 t
    ([wsByte a, wsByte b], t)
  else ([], t)

/-- the digits of a hexadecimal string up to and including `>`; `last` drops a final `0` -/
def hexBody : List UInt8 → Tape → List UInt8 × Tape
  | [], t =>
    let (w, t) := hexWs t
    (w ++ [62], t)
  | b :: bs, t =>
    let (r, t) := hexBody bs t
    let (h, t) := hex2Case b t
    let (w1, t) := hexWs t
    let (w2, t) := hexWs t
    let (odd, t) := draw 2 t
    match h with
    | [d1, d2] =>
      if bs.isEmpty && b &&& 15 == 0 && odd == 1 then (w1 ++ [d1] ++ r, t)
      else (w1 ++ [d1] ++ w2 ++ [d2] ++ r, t)
    | _ => (r, t)

def hexStrTok (s : List UInt8) (t : Tape) : List UInt8 × Tape :=
  let (b, t) := hexBody s t
  (60 :: b, t)

/-- indices of the parentheses that have a partner (left-to-right matching; `stack` = open ones) -/
def matchGo : List UInt8 → Nat → List Nat → List Nat → List Nat
  | [], _, _, acc => acc
  | b :: bs, i, stack, acc =>
    if b == 40 then matchGo bs (i + 1) (i :: stack) acc
    else if b == 41 then
      match stack with
      | j :: st => matchGo bs (i + 1) st (j :: i :: acc)
      | [] => matchGo bs (i + 1) [] acc
    else matchGo bs (i + 1) stack acc

/-- for every byte of a string: is it a parenthesis that has a partner? -/
def matchParens (s : List UInt8) : List Bool :=
  let matched := matchGo s 0 [] []
  (List.range s.length).map fun i => matched.contains i

def octDigit (n : Nat) : UInt8 := UInt8.ofNat (48 + n % 8)

/-- `\ddd`: `digits` ∈ {1,2,3}; fewer than the value needs are widened; 3 when an octal digit follows -/
def octalEsc (v : Nat) (digits : Nat) (next : Option UInt8) : List UInt8 :=
  let need := if v ≥ 64 then 3 else if v ≥ 8 then 2 else 1
  let forced := match next with
    | some b => isOctal b
    | none => false
  let n := if forced then 3 else max need digits
  if n == 1 then [92, octDigit v]
  else if n == 2 then [92, octDigit (v / 8), octDigit v]
  else [92, octDigit (v / 64), octDigit (v / 8), octDigit v]

/-- is `\c` an ignored backslash followed by the plain character `c`? -/
def plainAfterBackslash (c : UInt8) : Bool :=
  !(c == 110 || c == 114 || c == 116 || c == 98 || c == 102 || c == 40 || c == 41 || c == 92
    || c == 10 || c == 13 || isOctal c)

/-- the spelling of one string byte; `next` is the byte that follows in the output,
    `rawParen`: this parenthesis may stand unescaped -/
def strPiece (b : UInt8) (rawParen : Bool) (next : Option UInt8) (t : Tape) : List UInt8 × Tape :=
  let (c, t) := draw 12 t
  let (d, t) := draw 3 t
  let nextIsLf := next == some 10
  let oct := octalEsc b.toNat (d + 1) next
  if (b == 40 || b == 41) && rawParen then ([b], t)
  else if c == 0 then (oct, t)
  else if c == 1 && b.toNat < 256 then
    -- high-order overflow is ignored: \4dd..\7dd
    ([92, octDigit ((b.toNat + 256) / 64), octDigit (b.toNat / 8), octDigit b.toNat], t)
  else if b == 10 then
    if c < 5 then ([92, 110], t)
    else if c < 8 then ([10], t)
    else if c < 10 then ([13, 10], t)
    else if nextIsLf then ([10], t) else ([13], t)
  else if b == 13 then ([92, 114], t)
  else if b == 92 then ([92, 92], t)
  else if b == 40 || b == 41 then ([92, b], t)
  else if b == 9 then (if c < 6 then [92, 116] else [9], t)
  else if b == 8 then (if c < 6 then [92, 98] else [8], t)
  else if b == 12 then (if c < 6 then [92, 102] else [12], t)
  else if c == 2 && plainAfterBackslash b then ([92, b], t)
  else ([b], t)

/-- an optional line continuation in front of what follows (`next` as above) -/
def continuation (next : Option UInt8) (t : Tape) : List UInt8 × Tape :=
  let (c, t) := draw 10 t
  if c == 0 then ([92, 10], t)
  else if c == 1 then ([92, 13, 10], t)
  else if c == 2 && next != some 10 then ([92, 13], t)
  else ([], t)

/-- body of a literal string up to and including the closing `)` -/
def litBody : List UInt8 → List Bool → Tape → List UInt8 × Tape
  | [], _, t =>
    let (k, t) := continuation (some 41) t
    (k ++ [41], t)
  | b :: bs, raws, t =>
    let (r, t) := litBody bs (raws.drop 1) t
    let (p, t) := strPiece b (raws.head?.getD false) r.head? t
    let (k, t) := continuation (p ++ r).head? t
    (k ++ p ++ r, t)

/-- do the parentheses marked raw balance (`n` = open ones so far)?  Checked at run time, so that the printer
    is conformant whatever `matchParens` computes. -/
def rawOkFrom : Nat → List UInt8 → List Bool → Bool
  | n, [], _ => n == 0
  | n, b :: bs, raws =>
    let raw := raws.head?.getD false
    if raw && b == 40 then rawOkFrom (n + 1) bs (raws.drop 1)
    else if raw && b == 41 then (n > 0) && rawOkFrom (n - 1) bs (raws.drop 1)
    else rawOkFrom n bs (raws.drop 1)

def litStrTok (s : List UInt8) (t : Tape) : List UInt8 × Tape :=
  let (rp, t) := draw 2 t
  let cand := if rp == 1 then matchParens s else []
  let raws := if rawOkFrom 0 s cand then cand else []
  let (b, t) := litBody s raws t
  (40 :: b, t)

def strTok (s : List UInt8) (t : Tape) : List UInt8 × Tape :=
  let (h, t) := draw 3 t
  if h == 0 then hexStrTok s t else litStrTok s t

mutual

/-- the spelling of `v` (no gap before or after); `.err`-like cases (an `InFile` stream) are spelled as
    `null` and never generated -/
def render {R : Type} (fmtReal : R → List UInt8) : Prim R → Tape → List UInt8 × Tape
  | .null, t => (kwNull, t)
  | .int i, t => intTok i t
  | .real r, t => realTok (fmtReal r) t
  | .bool b, t => (if b then kwTrue else kwFalse, t)
  | .str s, t => strTok s t
  | .name s, t => nameTok s t
  | .ref id gen, t =>
    let (a, t) := natTok id t
    let (g1, t) := gap true t
    let (b, t) := natTok gen t
    let (g2, t) := gap true t
    (a ++ g1 ++ b ++ g2 ++ [82], t)
  | .arr xs, t =>
    let (r, t) := renderElems fmtReal xs t
    let (g, t) := gap false t
    (91 :: g ++ r, t)
  | .dict kvs, t =>
    let (r, t) := renderEntries fmtReal kvs t
    let (g, t) := gap false t
    ([60, 60] ++ g ++ r, t)
  | .stream info inner, t =>
    match inner with
    | .inFile _ _ _ _ => (kwNull, t)
    | .pending data =>
      let (g3, t) := gap false t
      let (e, t) := draw 2 t
      let eol : List UInt8 := if e == 0 then [10] else [13, 10]
      let (g2, t) := gap false t
      let (r, t) := renderEntries fmtReal info t
      let (g1, t) := gap false t
      ([60, 60] ++ g1 ++ r ++ g2 ++ kwStream ++ eol ++ data ++ g3 ++ kwEndstream, t)

/-- elements of an array and the closing `]` -/
def renderElems {R : Type} (fmtReal : R → List UInt8) : List (Prim R) → Tape → List UInt8 × Tape
  | [], t => ([93], t)
  | x :: xs, t =>
    let (r, t) := renderElems fmtReal xs t
    let (g, t) := gap (needsBnd x && startsRegular r) t
    let (tx, t) := render fmtReal x t
    (tx ++ g ++ r, t)

/-- entries of a dictionary and the closing `>>` -/
def renderEntries {R : Type} (fmtReal : R → List UInt8) : List (List UInt8 × Prim R) → Tape → List UInt8 × Tape
  | [], t => ([62, 62], t)
  | (k, v) :: rest, t =>
    let (r, t) := renderEntries fmtReal rest t
    let (g2, t) := gap (needsBnd v && startsRegular r) t
    let (tv, t) := render fmtReal v t
    let (g1, t) := gap (startsRegular tv) t
    let (tk, t) := nameTok k t
    (tk ++ g1 ++ tv ++ g2 ++ r, t)

end

/-- `v`, a gap where one is needed, then `tail` -/
def renderWithTail {R : Type} (fmtReal : R → List UInt8) (v : Prim R) (tail : List UInt8) (t : Tape) : List UInt8 × Tape :=
  let (g, t) := gap (needsBnd v && startsRegular tail) t
  let (tv, t) := render fmtReal v t
  (tv ++ g ++ tail, t)

/-- `id gen obj … endobj`, a gap, then `tail` -/
def renderIndirect {R : Type} (fmtReal : R → List UInt8) (id gen : Nat) (v : Prim R) (tail : List UInt8) (t : Tape) :
    List UInt8 × Tape :=
  let (g5, t) := gap (startsRegular tail) t
  let (g4, t) := gap (needsBnd v) t
  let (tv, t) := render fmtReal v t
  let (g3, t) := gap (startsRegular tv) t
  let (g2, t) := gap true t
  let (b, t) := natTok gen t
  let (g1, t) := gap true t
  let (a, t) := natTok id t
  (a ++ g1 ++ b ++ g2 ++ kwObj ++ g3 ++ tv ++ g4 ++ kwEndobj ++ g5 ++ tail, t)

/-- a sequence of objects, each followed by a gap -/
def renderSeq {R : Type} (fmtReal : R → List UInt8) : List (Prim R) → List UInt8 → Tape → List UInt8 × Tape
  | [], tail, t => (tail, t)
  | x :: xs, tail, t =>
    let (r, t) := renderSeq fmtReal xs tail t
    let (g, t) := gap (needsBnd x && startsRegular r) t
    let (tx, t) := render fmtReal x t
    (tx ++ g ++ r, t)


/-- The tails the harness appends after a rendering (what follows an object in real files: nothing, white-space,
    a closing delimiter, the next object, a keyword, a comment).  `Lemmas/RenderTail` proves that after any of
    them nothing merges with the object before (`Ahead`), so the headline theorems of C03 have no side
    condition left for them.  The harness compares its own list with this one (`c03.tails`). -/
def tails : List (List UInt8) :=
  [ [],                                   -- end of input
    [32],                                 -- SP
    [10],                                 -- LF
    [93],                                 -- ]
    [62, 62],                             -- >>
    [47, 88],                             -- /X
    [40, 120, 41],                        -- (x)
    [60, 52, 49, 62],                     -- <41>
    [91],                                 -- [
    [101, 110, 100, 111, 98, 106],        -- endobj
    [37, 32, 99, 10],                     -- % c LF
    [32, 49, 32, 48, 32, 111, 98, 106],   -- SP 1 0 obj
    [116, 114, 117, 101] ]                -- true

end PdfSpec
