import PdfModel.Model.Content

/-!
# Statement side of the round-trip clause of C08

`opsEquiv ro ops' ops`: the operations read back (`ops'`) are the operations written (`ops`) *with numeric
equality on reals*: same constructors, same names / strings / enumeration values, every real compared with
`ro.beq` (the `==` of `f32`: `-0 == 0`), and inside a `Primitive` operand an integer is the real of the same
value (`Primitive::serialize` may write the real `3.0` as `3`).

`finiteOp`: every real of the operation is finite.  `acceptedOp`: what the serializer accepts and the token
level can describe: no inline image (the serializer returns `Err`), and — only while D9 is open in
primitive.rs (`cfg.primDot = false`) — no integral real outside the `i32` range inside a `Primitive` operand.
-/

namespace Content

section
variable {R : Type} (ro : RealOps R)

def finiteR (r : R) : Bool := (ro.special r).isNone

mutual
def primEquiv : Prim R → Prim R → Bool
  | .null, .null => true
  | .bool a, .bool b => a == b
  | .int a, .int b => a == b
  | .int a, .real r => ro.beq (ro.ofInt a) r
  | .real r, .int b => ro.beq r (ro.ofInt b)
  | .real a, .real b => ro.beq a b
  | .str a, .str b => a == b
  | .name a, .name b => a == b
  | .ref a b, .ref c d => a == c && b == d
  | .arr xs, .arr ys => primsEquiv xs ys
  | .dict ks xs, .dict ls ys => ks == ls && primsEquiv xs ys
  | _, _ => false
def primsEquiv : List (Prim R) → List (Prim R) → Bool
  | [], [] => true
  | x :: xs, y :: ys => primEquiv x y && primsEquiv xs ys
  | _, _ => false
end

def ptEquiv (a b : Pt R) : Bool := ro.beq a.x b.x && ro.beq a.y b.y

def matrixEquiv (m n : Matrix R) : Bool :=
  ro.beq m.a n.a && ro.beq m.b n.b && ro.beq m.c n.c && ro.beq m.d n.d && ro.beq m.e n.e && ro.beq m.f n.f

def realsEquiv : List R → List R → Bool
  | [], [] => true
  | x :: xs, y :: ys => ro.beq x y && realsEquiv xs ys
  | _, _ => false

def tdaEquiv : TDA R → TDA R → Bool
  | .text a, .text b => a == b
  | .spacing a, .spacing b => ro.beq a b
  | _, _ => false

def tdasEquiv : List (TDA R) → List (TDA R) → Bool
  | [], [] => true
  | x :: xs, y :: ys => tdaEquiv ro x y && tdasEquiv xs ys
  | _, _ => false

def colorEquiv : Color R → Color R → Bool
  | .gray a, .gray b => ro.beq a b
  | .rgb a b c, .rgb d e f => ro.beq a d && ro.beq b e && ro.beq c f
  | .cmyk a b c d, .cmyk e f g h => ro.beq a e && ro.beq b f && ro.beq c g && ro.beq d h
  | .other xs, .other ys => primsEquiv ro xs ys
  | _, _ => false

def propsEquiv : Option (Prim R) → Option (Prim R) → Bool
  | none, none => true
  | some a, some b => primEquiv ro a b
  | _, _ => false

def opEquiv : Op R → Op R → Bool
  | .beginMarkedContent t p, .beginMarkedContent u q => t == u && propsEquiv ro p q
  | .endMarkedContent, .endMarkedContent => true
  | .markedContentPoint t p, .markedContentPoint u q => t == u && propsEquiv ro p q
  | .close, .close => true
  | .moveTo p, .moveTo q => ptEquiv ro p q
  | .lineTo p, .lineTo q => ptEquiv ro p q
  | .curveTo a b c, .curveTo d e f => ptEquiv ro a d && ptEquiv ro b e && ptEquiv ro c f
  | .rect a b c d, .rect e f g h => ro.beq a e && ro.beq b f && ro.beq c g && ro.beq d h
  | .endPath, .endPath => true
  | .stroke, .stroke => true
  | .fillAndStroke v, .fillAndStroke w => v == w
  | .fill v, .fill w => v == w
  | .shade m, .shade n => m == n
  | .clip v, .clip w => v == w
  | .save, .save => true
  | .restore, .restore => true
  | .transform m, .transform n => matrixEquiv ro m n
  | .lineWidth a, .lineWidth b => ro.beq a b
  | .dash p a, .dash q b => realsEquiv ro p q && ro.beq a b
  | .lineJoin a, .lineJoin b => a == b
  | .lineCap a, .lineCap b => a == b
  | .miterLimit a, .miterLimit b => ro.beq a b
  | .flatness a, .flatness b => ro.beq a b
  | .graphicsState m, .graphicsState n => m == n
  | .strokeColor c, .strokeColor d => colorEquiv ro c d
  | .fillColor c, .fillColor d => colorEquiv ro c d
  | .fillColorSpace m, .fillColorSpace n => m == n
  | .strokeColorSpace m, .strokeColorSpace n => m == n
  | .renderingIntent i, .renderingIntent j => i == j
  | .beginText, .beginText => true
  | .endText, .endText => true
  | .charSpacing a, .charSpacing b => ro.beq a b
  | .wordSpacing a, .wordSpacing b => ro.beq a b
  | .textScaling a, .textScaling b => ro.beq a b
  | .leading a, .leading b => ro.beq a b
  | .textFont m a, .textFont n b => m == n && ro.beq a b
  | .textRenderMode a, .textRenderMode b => a == b
  | .textRise a, .textRise b => ro.beq a b
  | .moveTextPosition p, .moveTextPosition q => ptEquiv ro p q
  | .setTextMatrix m, .setTextMatrix n => matrixEquiv ro m n
  | .textNewline, .textNewline => true
  | .textDraw a, .textDraw b => a == b
  | .textDrawAdjusted a, .textDrawAdjusted b => tdasEquiv ro a b
  | .xObject m, .xObject n => m == n
  | .inlineImage a, .inlineImage b => a == b
  | _, _ => false

def opsEquiv : List (Op R) → List (Op R) → Bool
  | [], [] => true
  | x :: xs, y :: ys => opEquiv ro x y && opsEquiv xs ys
  | _, _ => false

-- finiteness of every real of an operation

mutual
def finitePrim : Prim R → Bool
  | .real r => finiteR ro r
  | .arr xs => finitePrims xs
  | .dict _ xs => finitePrims xs
  | _ => true
def finitePrims : List (Prim R) → Bool
  | [] => true
  | x :: xs => finitePrim x && finitePrims xs
end

def finitePt (p : Pt R) : Bool := finiteR ro p.x && finiteR ro p.y

def finiteMatrix (m : Matrix R) : Bool :=
  finiteR ro m.a && finiteR ro m.b && finiteR ro m.c && finiteR ro m.d && finiteR ro m.e && finiteR ro m.f

def finiteTDA : TDA R → Bool
  | .text _ => true
  | .spacing s => finiteR ro s

def finiteColor : Color R → Bool
  | .gray g => finiteR ro g
  | .rgb a b c => finiteR ro a && finiteR ro b && finiteR ro c
  | .cmyk a b c d => finiteR ro a && finiteR ro b && finiteR ro c && finiteR ro d
  | .other xs => finitePrims ro xs

def finiteProps : Option (Prim R) → Bool
  | none => true
  | some p => finitePrim ro p

def finiteOp : Op R → Bool
  | .beginMarkedContent _ p => finiteProps ro p
  | .markedContentPoint _ p => finiteProps ro p
  | .moveTo p => finitePt ro p
  | .lineTo p => finitePt ro p
  | .curveTo a b c => finitePt ro a && finitePt ro b && finitePt ro c
  | .rect a b c d => finiteR ro a && finiteR ro b && finiteR ro c && finiteR ro d
  | .transform m => finiteMatrix ro m
  | .lineWidth a => finiteR ro a
  | .dash p a => p.all (finiteR ro) && finiteR ro a
  | .miterLimit a => finiteR ro a
  | .flatness a => finiteR ro a
  | .strokeColor c => finiteColor ro c
  | .fillColor c => finiteColor ro c
  | .charSpacing a => finiteR ro a
  | .wordSpacing a => finiteR ro a
  | .textScaling a => finiteR ro a
  | .leading a => finiteR ro a
  | .textFont _ a => finiteR ro a
  | .textRise a => finiteR ro a
  | .moveTextPosition p => finitePt ro p
  | .setTextMatrix m => finiteMatrix ro m
  | .textDrawAdjusted a => a.all (finiteTDA ro)
  | _ => true

-- what the serializer accepts (and the token level describes)

/-- the operand survives `Primitive::serialize` + lexer as one operand -/
def primWritable (cfg : Cfg) (p : Prim R) : Bool := (serPrim? ro cfg p).isSome

def acceptedOp (cfg : Cfg) : Op R → Bool
  | .inlineImage _ => false
  | .beginMarkedContent _ (some p) => primWritable ro cfg p
  | .markedContentPoint _ (some p) => primWritable ro cfg p
  | .strokeColor (.other xs) => xs.all (primWritable ro cfg)
  | .fillColor (.other xs) => xs.all (primWritable ro cfg)
  | _ => true

end

end Content
