/-!
# Specification side of the stream filters (ISO 32000-1 §7.4, PNG filter types, TIFF predictor 2)

Encoders are *relations*: `EncodesToHex bs text` etc. hold for **every** text a conforming encoder may
emit for the bytes `bs` (any letter case, white-space anywhere, any segmentation into runs, optional
shorthands), so a theorem `EncodesTo… bs text → decode text = ok bs` covers all conforming encoders at
once. Nothing here refers to the model of pdf-rs.
-/

namespace Codecs

abbrev Bytes := List UInt8

/-- the six white-space characters of §7.2.3: NUL, HT, LF, FF, CR, SP -/
def isWs (b : UInt8) : Bool := b == 0 || b == 9 || b == 10 || b == 12 || b == 13 || b == 32

/-- `Sprinkled core text`: `text` is `core` with white-space characters inserted at arbitrary places -/
inductive Sprinkled : Bytes → Bytes → Prop where
  | nil : Sprinkled [] []
  | keep (b : UInt8) {core text : Bytes} : Sprinkled core text → Sprinkled (b :: core) (b :: text)
  | ws (w : UInt8) {core text : Bytes} : isWs w = true → Sprinkled core text → Sprinkled core (w :: text)

/-! ## ASCIIHex (§7.4.2) -/

/-- `c` is a hexadecimal digit (either case) with value `n` -/
def IsHexDigit (c n : UInt8) : Prop :=
  (n < 10 ∧ c = 48 + n) ∨ (10 ≤ n ∧ n < 16 ∧ (c = 87 + n ∨ c = 55 + n))

/-- two digits per byte; the very last digit may be left out when it is `0` -/
inductive HexBody : Bytes → Bytes → Prop where
  | nil : HexBody [] []
  | byte {b h l : UInt8} {bs t : Bytes} :
      IsHexDigit h (b >>> 4) → IsHexDigit l (b &&& 15) → HexBody bs t → HexBody (b :: bs) (h :: l :: t)
  | oddLast {b h : UInt8} : IsHexDigit h (b >>> 4) → b &&& 15 = 0 → HexBody [b] [h]

/-- digits, white-space anywhere, the EOD marker `>`, then anything -/
def EncodesToHex (bs text : Bytes) : Prop :=
  ∃ body marked rest, HexBody bs body ∧ Sprinkled (body ++ [62]) marked ∧ text = marked ++ rest

/-! ## ASCII85 (§7.4.3) -/

/-- digit `k` (0 = least significant) of `n` in base 85, as the character `!`…`u` -/
def digit85 (n k : Nat) : UInt8 := UInt8.ofNat (n / 85 ^ k % 85 + 33)

def group85 (n : Nat) : Bytes := [digit85 n 4, digit85 n 3, digit85 n 2, digit85 n 1, digit85 n 0]

/-- big-endian value of four bytes -/
def be32 (b0 b1 b2 b3 : UInt8) : Nat :=
  ((b0.toNat * 256 + b1.toNat) * 256 + b2.toNat) * 256 + b3.toNat

/-- groups of four bytes as five digits (`z` allowed for an all-zero group), a final group of
    n = 1, 2, 3 bytes as the first n + 1 digits of the zero-padded group -/
inductive A85Body : Bytes → Bytes → Prop where
  | nil : A85Body [] []
  | z {bs t : Bytes} : A85Body bs t → A85Body (0 :: 0 :: 0 :: 0 :: bs) (122 :: t)
  | group {b0 b1 b2 b3 : UInt8} {bs t : Bytes} :
      A85Body bs t → A85Body (b0 :: b1 :: b2 :: b3 :: bs) (group85 (be32 b0 b1 b2 b3) ++ t)
  | tail1 {b0 : UInt8} : A85Body [b0] ((group85 (be32 b0 0 0 0)).take 2)
  | tail2 {b0 b1 : UInt8} : A85Body [b0, b1] ((group85 (be32 b0 b1 0 0)).take 3)
  | tail3 {b0 b1 b2 : UInt8} : A85Body [b0, b1, b2] ((group85 (be32 b0 b1 b2 0)).take 4)

/-- digits, white-space anywhere, the EOD marker `~>` -/
def EncodesTo85 (bs text : Bytes) : Prop :=
  ∃ body, A85Body bs body ∧ Sprinkled (body ++ [126, 62]) text

/-! ## RunLength (§7.4.5) -/

/-- any segmentation into literal runs of 1…128 bytes (length byte n − 1) and repeat runs of 2…128
    equal bytes (length byte 257 − n), closed by the EOD byte 128 -/
inductive RLBody : Bytes → Bytes → Prop where
  | eod : RLBody [] [128]
  | literal {lit bs t : Bytes} : 1 ≤ lit.length → lit.length ≤ 128 → RLBody bs t →
      RLBody (lit ++ bs) (UInt8.ofNat (lit.length - 1) :: (lit ++ t))
  | repeat {n : Nat} {b : UInt8} {bs t : Bytes} : 2 ≤ n → n ≤ 128 → RLBody bs t →
      RLBody (List.replicate n b ++ bs) (UInt8.ofNat (257 - n) :: b :: t)

/-- the encoded runs followed by anything -/
def EncodesToRL (bs text : Bytes) : Prop := ∃ body rest, RLBody bs body ∧ text = body ++ rest

/-! ## PNG filter types (PNG specification §9) -/

/-- the Paeth predictor as the PNG specification words it: the neighbour closest to `a + b − c`,
    ties broken in the order left, above, upper left -/
def paethSpec (a b c : UInt8) : UInt8 :=
  let p : Int := (a.toNat : Int) + b.toNat - c.toNat
  let pa := (p - a.toNat).natAbs
  let pb := (p - b.toNat).natAbs
  let pc := (p - c.toNat).natAbs
  if pa ≤ pb ∧ pa ≤ pc then a else if pb ≤ pc then b else c

/-- predicted value for filter type `t` (0 None, 1 Sub, 2 Up, 3 Average, 4 Paeth) from the bytes to the
    left (`a`), above (`b`) and upper left (`c`) -/
def pngPredict (t : Nat) (a b c : UInt8) : UInt8 :=
  match t with
  | 0 => 0
  | 1 => a
  | 2 => b
  | 3 => UInt8.ofNat ((a.toNat + b.toNat) / 2)
  | _ => paethSpec a b c

/-- filter one row against the previous *unfiltered* row; `bpp` = bytes per complete pixel (≥ 1);
    positions left of the row count as 0 -/
def pngFilterRow (t bpp : Nat) (prev row : Bytes) : Bytes :=
  (List.range row.length).map fun i =>
    let a := if i < bpp then 0 else row.getD (i - bpp) 0
    let b := prev.getD i 0
    let c := if i < bpp then 0 else prev.getD (i - bpp) 0
    row.getD i 0 - pngPredict t a b c

/-- PNG prediction of an image given as its rows: every row is preceded by its filter-type byte; the row
    above the first one is all zero. `tags` chooses the type of each row (any choice is conforming). -/
def pngPredictRows (bpp : Nat) : (prev : Bytes) → List (Nat × Bytes) → Bytes
  | _, [] => []
  | prev, (t, row) :: rest => UInt8.ofNat t :: pngFilterRow t bpp prev row ++ pngPredictRows bpp row rest

/-! ## TIFF predictor 2 (TIFF 6.0 §14): horizontal differencing of samples of 1, 2, 4, 8 or 16 bits -/

/-- sample `k` of a row: 16-bit samples are big endian; samples of 1, 2, 4 bits are packed `8 / bpc` to a
    byte, the first one in the most significant bits -/
def sampleGet (bpc : Nat) (row : Bytes) (k : Nat) : Nat :=
  if bpc = 16 then (row.getD (2 * k) 0).toNat * 256 + (row.getD (2 * k + 1) 0).toNat
  else if bpc = 8 then (row.getD k 0).toNat
  else
    let per := 8 / bpc
    (row.getD (k / per) 0).toNat / 2 ^ (bpc * (per - 1 - k % per)) % 2 ^ bpc

/-- replace sample `k` by `v mod 2^bpc`, leaving every other bit of the row as it is -/
def samplePut (bpc : Nat) (row : Bytes) (k v : Nat) : Bytes :=
  if bpc = 16 then (row.set (2 * k) (UInt8.ofNat (v / 256))).set (2 * k + 1) (UInt8.ofNat v)
  else if bpc = 8 then row.set k (UInt8.ofNat v)
  else
    let per := 8 / bpc
    let sh := bpc * (per - 1 - k % per)
    let old := (row.getD (k / per) 0).toNat
    row.set (k / per) (UInt8.ofNat (old - (old / 2 ^ sh % 2 ^ bpc) * 2 ^ sh + (v % 2 ^ bpc) * 2 ^ sh))

/-- samples `lo … lo + cnt − 1` are replaced by their difference (mod `M`) to the sample `colors` places
    to the left, all differences taken on the original row -/
def diffFrom (get : Bytes → Nat → Nat) (put : Bytes → Nat → Nat → Bytes) (M colors : Nat) (row : Bytes) : Nat → Nat → Bytes
  | _, 0 => row
  | lo, cnt + 1 =>
    put (diffFrom get put M colors row (lo + 1) cnt) lo ((get row lo + M - get row (lo - colors)) % M)

/-- one row: the first pixel (`colors` samples) stays, padding bits after the last sample stay -/
def tiffDiffRow (colors bpc columns : Nat) (row : Bytes) : Bytes :=
  let n := min (colors * columns) (row.length * 8 / bpc)
  diffFrom (sampleGet bpc) (samplePut bpc) (2 ^ bpc) colors row colors (n - colors)

end Codecs
