import PdfModel.Spec.CMap

/-!
  `CMapSpells entries text`: `text` is a conformant spelling of the bfchar/bfrange program `entries`, with all the
  layout freedom a CMap resource has (ISO 32000-1 7.2 lexical conventions, 9.10.3; Adobe TN 5014/5411):

  * white space = any of NUL, TAB, LF, FF, CR, SP, any amount, wherever tokens meet; comments `% … EOL` (EOL = LF
    or CR) wherever white space may stand (outside hexadecimal strings);
  * hexadecimal strings with upper- or lower-case digits and white space between any two digits;
  * codes written with two bytes, or with one byte when below 256;
  * any number and order of `beginbfchar … endbfchar` and `beginbfrange … endbfrange` blocks, each entry of a
    block spelled with optional separators between its strings, array-form ranges with separators around the
    elements;
  * anything else between blocks — the PostScript header and trailer, `begincodespacerange … endcodespacerange`,
    `usecmap`, the entry counts, dictionaries, names, literal strings — as long as it is made of tokens other
    than the three keywords the reader reacts to: regular words, `/names`, and the delimiters `( ) [ ] { } < > << >>`;
  * the text ends after `endcmap` (whatever follows) or at its end.

  The lexical classes are defined here from the specification's tables; `Lemmas/CMapSpell.lean` proves them equal to
  the model's (so a change of the modelled lexer breaks a proof obligation).
-/

namespace CMap

/-- Table 1: white-space characters -/
def isWhite (b : UInt8) : Bool := b == 0 || b == 9 || b == 10 || b == 12 || b == 13 || b == 32
/-- Table 2: delimiter characters `( ) < > [ ] { } / %` -/
def isDelimiter (b : UInt8) : Bool :=
  b == 40 || b == 41 || b == 60 || b == 62 || b == 91 || b == 93 || b == 123 || b == 125 || b == 47 || b == 37
def isRegularChar (b : UInt8) : Bool := !isWhite b && !isDelimiter b
def isEolChar (b : UInt8) : Bool := b == 10 || b == 13

def hexDigitLower (n : Nat) : UInt8 := if n < 10 then UInt8.ofNat (48 + n) else UInt8.ofNat (87 + n)

/-- one separator: a white-space character or a comment up to and including its end of line -/
inductive Skip : Bytes → Prop where
  | white (b : UInt8) (h : isWhite b = true) : Skip [b]
  | comment (body : Bytes) (eol : UInt8) (hb : body.all (fun c => !isEolChar c) = true) (he : isEolChar eol = true) :
      Skip (37 :: (body ++ [eol]))

/-- a possibly empty run of separators -/
inductive Seps : Bytes → Prop where
  | nil : Seps []
  | cons {p s : Bytes} : Skip p → Seps s → Seps (p ++ s)

/-- the digits of a hexadecimal string: nibble values spelled in either case, white space anywhere -/
inductive HexNibs : List Nat → Bytes → Prop where
  | nil : HexNibs [] []
  | white {ns : List Nat} {t : Bytes} (b : UInt8) (h : isWhite b = true) : HexNibs ns t → HexNibs ns (b :: t)
  | digit {ns : List Nat} {t : Bytes} (n : Nat) (c : UInt8) (hn : n < 16)
      (hc : c = hexDigit n ∨ c = hexDigitLower n) : HexNibs ns t → HexNibs (n :: ns) (c :: t)

def nibbles : List Nat → List Nat
  | [] => []
  | b :: r => b / 16 :: b % 16 :: nibbles r

/-- `<` … `>` spelling the bytes `bs` -/
def HexStr (bs : List Nat) (t : Bytes) : Prop := ∃ body, HexNibs (nibbles bs) body ∧ t = 60 :: (body ++ [62])

/-- a character code: two bytes, or one byte when it fits -/
def CodeSp (c : Nat) (t : Bytes) : Prop := HexStr [c / 256, c % 256] t ∨ (c < 256 ∧ HexStr [c] t)

/-- a destination string: its UTF-16BE code units -/
def DstSp (s : List Nat) (t : Bytes) : Prop := HexStr (unitBytes (utf16Encode s)) t

/-- what stands between `[` and `]` of an array-form range -/
inductive ArrBody : List (List Nat) → Bytes → Prop where
  | nil {sp : Bytes} : Seps sp → ArrBody [] sp
  | cons {s : List Nat} {ss : List (List Nat)} {sp d t : Bytes} :
      Seps sp → DstSp s d → ArrBody ss t → ArrBody (s :: ss) (sp ++ (d ++ t))

/-- the token before `t` ends here: `t` is empty or starts with a non-regular character -/
def Boundary (t : Bytes) : Prop := t = [] ∨ ∃ b r, t = b :: r ∧ isRegularChar b = false

def wordEndbfchar : Bytes := [101, 110, 100, 98, 102, 99, 104, 97, 114]
def wordEndbfrange : Bytes := [101, 110, 100, 98, 102, 114, 97, 110, 103, 101]

inductive St where
  | outer | chars | ranges
deriving DecidableEq, Repr

/-- `Sp st entries text`: reading `text` in state `st` (between blocks / inside a bfchar block / inside a bfrange
    block) spells exactly `entries`, in order -/
inductive Sp : St → List Ent → Bytes → Prop where
  | skip {st : St} {es : List Ent} {p t : Bytes} : Skip p → Sp st es t → Sp st es (p ++ t)
  -- between blocks
  | eof : Sp .outer [] []
  | endcmap (t : Bytes) : Boundary t → Sp .outer [] (kwEndcmap ++ t)
  | word {es : List Ent} {t : Bytes} (a : UInt8) (w : Bytes) (hw : (a :: w).all isRegularChar = true)
      (h1 : a :: w ≠ kwBfchar) (h2 : a :: w ≠ kwBfrange) (h3 : a :: w ≠ kwEndcmap) :
      Boundary t → Sp .outer es t → Sp .outer es (a :: (w ++ t))
  | name {es : List Ent} {t : Bytes} (w : Bytes) (hw : w.all isRegularChar = true) :
      Boundary t → Sp .outer es t → Sp .outer es (47 :: (w ++ t))
  | delim {es : List Ent} {t : Bytes} (b : UInt8)
      (hb : b = 40 ∨ b = 41 ∨ b = 91 ∨ b = 93 ∨ b = 123 ∨ b = 125) : Sp .outer es t → Sp .outer es (b :: t)
  | lt {es : List Ent} {t : Bytes} (h : t.head? ≠ some 60) : Sp .outer es t → Sp .outer es (60 :: t)
  | ltlt {es : List Ent} {t : Bytes} : Sp .outer es t → Sp .outer es (60 :: 60 :: t)
  | gt {es : List Ent} {t : Bytes} (h : t.head? ≠ some 62) : Sp .outer es t → Sp .outer es (62 :: t)
  | gtgt {es : List Ent} {t : Bytes} : Sp .outer es t → Sp .outer es (62 :: 62 :: t)
  | beginChars {es : List Ent} {t : Bytes} : Boundary t → Sp .chars es t → Sp .outer es (kwBfchar ++ t)
  | beginRanges {es : List Ent} {t : Bytes} : Boundary t → Sp .ranges es t → Sp .outer es (kwBfrange ++ t)
  -- inside `beginbfchar`
  | char {es : List Ent} {t a sp b : Bytes} (c : Nat) (s : List Nat) (hwf : (Ent.char c s).wf = true) :
      CodeSp c a → Seps sp → DstSp s b → Sp .chars es t → Sp .chars (.char c s :: es) (a ++ (sp ++ (b ++ t)))
  | endChars {es : List Ent} {t : Bytes} : Boundary t → Sp .outer es t → Sp .chars es (wordEndbfchar ++ t)
  -- inside `beginbfrange`
  | rstr {es : List Ent} {t a s1 b s2 d : Bytes} (lo : Nat) (ss : List (List Nat)) (hwf : (Ent.rstr lo ss).wf = true) :
      CodeSp lo a → Seps s1 → CodeSp (lo + ss.length - 1) b → Seps s2 → DstSp (ss.headD []) d → Sp .ranges es t →
      Sp .ranges (.rstr lo ss :: es) (a ++ (s1 ++ (b ++ (s2 ++ (d ++ t)))))
  | rarr {es : List Ent} {t a s1 b s2 body : Bytes} (lo : Nat) (ss : List (List Nat)) (hwf : (Ent.rarr lo ss).wf = true) :
      CodeSp lo a → Seps s1 → CodeSp (lo + ss.length - 1) b → Seps s2 → ArrBody ss body → Sp .ranges es t →
      Sp .ranges (.rarr lo ss :: es) (a ++ (s1 ++ (b ++ (s2 ++ (91 :: (body ++ 93 :: t))))))
  | endRanges {es : List Ent} {t : Bytes} : Boundary t → Sp .outer es t → Sp .ranges es (wordEndbfrange ++ t)

/-- `text` is a conformant CMap text for the program `entries` -/
def CMapSpells (entries : List Ent) (text : Bytes) : Prop := Sp .outer entries text

end CMap
