import PdfModel.Model.Content

/-!
# Statement side of "operands never leak" (C08, clause 3)

Independent of the reader's loop (`Content.step`, `Content.parseLoop`) and of its operand buffer: a token sequence
is cut, by plain list splitting, into *statements* — an operator together with exactly the operands written since
the previous operator — and the statements are interpreted one by one, each operator being given its own operands
and nothing else.  The only thing that flows from one statement to the next is the builder state
(`last`, `subpath_start`, compatibility flag, the operations so far).  `Props/C08.operands_scoped` says that
`parse_ops` computes exactly this, in strict and in tolerant mode, errors and tolerated errors included.
-/

namespace ContentStmts
open Content

/-- an operator with the operands that precede it (since the previous operator) -/
inductive Stmt (R : Type) where
  | op (args : List (Prim R)) (kw : String)
  /-- a whole inline-image construct (`Tok.bi`); operands written before `BI` are dropped by the library -/
  | image (args : List (Prim R)) (img : Option Nat)
  /-- bytes the token level cannot describe (`Tok.garbage`) -/
  | garbage (args : List (Prim R))

/-- cut a token sequence into statements; `pending`: operands seen since the last operator.  Result: the
    statements and the operands left over after the last operator. -/
def segment {R : Type} : List (Prim R) → List (Tok R) → List (Stmt R) × List (Prim R)
  | pending, [] => ([], pending)
  | pending, .prim p :: ts => segment (pending ++ [p]) ts
  | pending, .kw s :: ts => let r := segment [] ts; (.op pending s :: r.1, r.2)
  | pending, .bi img :: ts => let r := segment [] ts; (.image pending img :: r.1, r.2)
  | pending, .garbage :: ts => let r := segment [] ts; (.garbage pending :: r.1, r.2)

/-- interpret statements one after the other: every operator is applied (`add`) to the operands of its own
    statement; a failing operator ends the run with `Err` in strict mode and is skipped — keeping what it pushed
    before failing — when `allow_invalid_ops` is set -/
def runStmts {R : Type} (ro : RealOps R) (allow : Bool) : PState R → List (Stmt R) → Out (PState R)
  | st, [] => .ok st
  | st, .op args kw :: ss =>
    if (add ro st kw args).ok || allow then runStmts ro allow (add ro st kw args).st ss else .err
  | st, .image _ (some id) :: ss => runStmts ro allow (st.push [.inlineImage id]) ss
  | st, .image _ none :: ss => if allow then runStmts ro allow st ss else .err
  | _, .garbage _ :: _ => .err

/-- the operands handed to the operators, statement by statement -/
def operandsOf {R : Type} : List (Stmt R) → List (List (Prim R))
  | [] => []
  | .op args _ :: ss => args :: operandsOf ss
  | .image args _ :: ss => args :: operandsOf ss
  | .garbage args :: ss => args :: operandsOf ss

end ContentStmts
