import PdfModel.Model.Content

/-!
# The operator table of ISO 32000-1, Annex A (Table A.1), as data

Written from the specification (Table A.1 and the tables it points to: 51, 57, 59, 60, 61, 74, 92, 105–109,
113, 320), not from `OpBuilder::add`: every entry is the keyword, the operand *signature* (kinds of operands,
in order) and the operation(s) of `content::Op` that the operator denotes for operand *values* of that
signature.  Decoding operands against a signature (`decode`) is generic and knows nothing about individual
operators.

The 73 operators of the table are all listed.  Operators for which the library has no `Op` constructor are
listed with `Support.unsupported`; `BI`/`ID`/`EI` are one construct (an inline image), handled below token level.

The current point (needed to say what `v` denotes) follows 8.5.2.1: `m` starts a subpath, `l c v y` move to the
end point of the segment, `h` moves to the start of the subpath, `re` is `x y m … h`, painting operators end the
path.
-/

namespace ContentSpec
open Content

/-- kinds of operands that occur in Table A.1 -/
inductive Kind where
  | num        -- a number: integer or real object
  | int        -- an integer object
  | name
  | str
  | nums       -- an array of numbers (dash array)
  | text       -- an array of strings and numbers (`TJ`)
  | any        -- any object (property list: name or dictionary)
  | intent     -- a name, one of the four standard rendering intents
  | colour     -- `c1 … cn`: any number of numbers (`SC`, `sc`)
  | colourN    -- `c1 … cn [name]` (`SCN`, `scn`)
deriving Repr, DecidableEq

/-- operand values after decoding -/
inductive Val (R : Type) where
  | num (r : R)
  | int (i : Int)
  | name (s : String)
  | str (bs : List UInt8)
  | nums (rs : List R)
  | text (xs : List (TDA R))
  | any (p : Prim R)
  | intent (i : Intent)
  | colour (ps : List (Prim R))

/-- "a number": an integer object (converted) or a real object -/
def numOf {R : Type} (ro : RealOps R) : Prim R → Option R
  | .int n => some (ro.ofInt n)
  | .real r => some r
  | _ => none

def isNum {R : Type} : Prim R → Bool
  | .int _ => true
  | .real _ => true
  | _ => false

def isName {R : Type} : Prim R → Bool
  | .name _ => true
  | _ => false

def mapAll {α β : Type} (f : α → Option β) : List α → Option (List β)
  | [] => some []
  | x :: xs => match f x, mapAll f xs with
    | some y, some ys => some (y :: ys)
    | _, _ => none

def textElem {R : Type} (ro : RealOps R) : Prim R → Option (TDA R)
  | .str bs => some (.text bs)
  | p => match numOf ro p with
    | some r => some (.spacing r)
    | none => none

def standardIntent (s : String) : Option Intent :=
  if s = "AbsoluteColorimetric" then some .absoluteColorimetric
  else if s = "RelativeColorimetric" then some .relativeColorimetric
  else if s = "Saturation" then some .saturation
  else if s = "Perceptual" then some .perceptual
  else none

/-- `c1 … cn [name]`: numbers, optionally followed by one name -/
def colourNOk {R : Type} : List (Prim R) → Bool
  | [] => true
  | [p] => isNum p || isName p
  | p :: ps => isNum p && colourNOk ps

/-- decode one operand of a fixed-arity kind -/
def decode1 {R : Type} (ro : RealOps R) : Kind → Prim R → Option (Val R)
  | .num, p => match numOf ro p with
    | some r => some (.num r)
    | none => none
  | .int, .int i => some (.int i)
  | .name, .name s => some (.name s)
  | .str, .str bs => some (.str bs)
  | .nums, .arr xs => match mapAll (numOf ro) xs with
    | some rs => some (.nums rs)
    | none => none
  | .text, .arr xs => match mapAll (textElem ro) xs with
    | some ts => some (.text ts)
    | none => none
  | .any, p => some (.any p)
  | .intent, .name s => match standardIntent s with
    | some i => some (.intent i)
    | none => none
  | _, _ => none

/-- decode the operands of one operator against its signature: exactly the operands of the signature, in
    order; the variadic kinds take all operands -/
def decode {R : Type} (ro : RealOps R) : List Kind → List (Prim R) → Option (List (Val R))
  | [], [] => some []
  | [.colour], ps => if ps.all isNum then some [.colour ps] else none
  | [.colourN], ps => if colourNOk ps then some [.colour ps] else none
  | k :: ks, p :: ps => match decode1 ro k p, decode ro ks ps with
    | some v, some vs => some (v :: vs)
    | _, _ => none
  | _, _ => none

inductive Support where
  | full
  /-- the library has no operation for it (why) -/
  | unsupported (why : String)
  /-- part of the inline-image construct `BI … ID … EI` -/
  | construct
deriving Repr, DecidableEq

structure Entry (R : Type) where
  kw : String
  sig : List Kind
  /-- operations denoted for decoded operands, given the current point (`none`: operand values outside
      the domain of the operator, or no current point where one is needed) -/
  den : Option (Pt R) → List (Val R) → Option (List (Op R))
  support : Support := .full

def finOf (k : Nat) (n : Int) : Option (Fin k) :=
  if h : 0 ≤ n ∧ n.toNat < k then some ⟨n.toNat, h.2⟩ else none

section
variable {R : Type} (ro : RealOps R)

/-- Table A.1 -/
def table : List (Entry R) := [
  { kw := "b", sig := [], den := fun _ _ => some [.close, .fillAndStroke .nonZero] },
  { kw := "B", sig := [], den := fun _ _ => some [.fillAndStroke .nonZero] },
  { kw := "b*", sig := [], den := fun _ _ => some [.close, .fillAndStroke .evenOdd] },
  { kw := "B*", sig := [], den := fun _ _ => some [.fillAndStroke .evenOdd] },
  { kw := "BDC", sig := [.name, .any], den := fun _ vs => match vs with
      | [.name tag, .any p] => some [.beginMarkedContent tag (some p)] | _ => none },
  { kw := "BI", sig := [], den := fun _ _ => none, support := .construct },
  { kw := "BMC", sig := [.name], den := fun _ vs => match vs with
      | [.name tag] => some [.beginMarkedContent tag none] | _ => none },
  { kw := "BT", sig := [], den := fun _ _ => some [.beginText] },
  { kw := "BX", sig := [], den := fun _ _ => none,
    support := .unsupported "compatibility sections are tracked by the reader but there is no operation for BX" },
  { kw := "c", sig := [.num, .num, .num, .num, .num, .num], den := fun _ vs => match vs with
      | [.num a, .num b, .num c, .num d, .num e, .num f] => some [.curveTo ⟨a, b⟩ ⟨c, d⟩ ⟨e, f⟩] | _ => none },
  { kw := "cm", sig := [.num, .num, .num, .num, .num, .num], den := fun _ vs => match vs with
      | [.num a, .num b, .num c, .num d, .num e, .num f] => some [.transform ⟨a, b, c, d, e, f⟩] | _ => none },
  { kw := "CS", sig := [.name], den := fun _ vs => match vs with
      | [.name n] => some [.strokeColorSpace n] | _ => none },
  { kw := "cs", sig := [.name], den := fun _ vs => match vs with
      | [.name n] => some [.fillColorSpace n] | _ => none },
  { kw := "d", sig := [.nums, .num], den := fun _ vs => match vs with
      | [.nums pattern, .num phase] => some [.dash pattern phase] | _ => none },
  { kw := "d0", sig := [.num, .num], den := fun _ _ => none,
    support := .unsupported "glyph width of a Type 3 glyph description: no operation in content::Op" },
  { kw := "d1", sig := [.num, .num, .num, .num, .num, .num], den := fun _ _ => none,
    support := .unsupported "glyph width and bounding box of a Type 3 glyph description: no operation in content::Op" },
  { kw := "Do", sig := [.name], den := fun _ vs => match vs with
      | [.name n] => some [.xObject n] | _ => none },
  { kw := "DP", sig := [.name, .any], den := fun _ vs => match vs with
      | [.name tag, .any p] => some [.markedContentPoint tag (some p)] | _ => none },
  { kw := "EI", sig := [], den := fun _ _ => none, support := .construct },
  { kw := "EMC", sig := [], den := fun _ _ => some [.endMarkedContent] },
  { kw := "ET", sig := [], den := fun _ _ => some [.endText] },
  { kw := "EX", sig := [], den := fun _ _ => none,
    support := .unsupported "compatibility sections are tracked by the reader but there is no operation for EX" },
  { kw := "f", sig := [], den := fun _ _ => some [.fill .nonZero] },
  { kw := "F", sig := [], den := fun _ _ => some [.fill .nonZero] },
  { kw := "f*", sig := [], den := fun _ _ => some [.fill .evenOdd] },
  { kw := "G", sig := [.num], den := fun _ vs => match vs with
      | [.num g] => some [.strokeColor (.gray g)] | _ => none },
  { kw := "g", sig := [.num], den := fun _ vs => match vs with
      | [.num g] => some [.fillColor (.gray g)] | _ => none },
  { kw := "gs", sig := [.name], den := fun _ vs => match vs with
      | [.name n] => some [.graphicsState n] | _ => none },
  { kw := "h", sig := [], den := fun _ _ => some [.close] },
  { kw := "i", sig := [.num], den := fun _ vs => match vs with
      | [.num t] => some [.flatness t] | _ => none },
  { kw := "ID", sig := [], den := fun _ _ => none, support := .construct },
  { kw := "j", sig := [.int], den := fun _ vs => match vs with
      | [.int n] => (finOf 3 n).map fun j => [.lineJoin j] | _ => none },
  { kw := "J", sig := [.int], den := fun _ vs => match vs with
      | [.int n] => (finOf 3 n).map fun c => [.lineCap c] | _ => none },
  { kw := "K", sig := [.num, .num, .num, .num], den := fun _ vs => match vs with
      | [.num c, .num m, .num y, .num k] => some [.strokeColor (.cmyk c m y k)] | _ => none },
  { kw := "k", sig := [.num, .num, .num, .num], den := fun _ vs => match vs with
      | [.num c, .num m, .num y, .num k] => some [.fillColor (.cmyk c m y k)] | _ => none },
  { kw := "l", sig := [.num, .num], den := fun _ vs => match vs with
      | [.num x, .num y] => some [.lineTo ⟨x, y⟩] | _ => none },
  { kw := "m", sig := [.num, .num], den := fun _ vs => match vs with
      | [.num x, .num y] => some [.moveTo ⟨x, y⟩] | _ => none },
  { kw := "M", sig := [.num], den := fun _ vs => match vs with
      | [.num l] => some [.miterLimit l] | _ => none },
  { kw := "MP", sig := [.name], den := fun _ vs => match vs with
      | [.name tag] => some [.markedContentPoint tag none] | _ => none },
  { kw := "n", sig := [], den := fun _ _ => some [.endPath] },
  { kw := "q", sig := [], den := fun _ _ => some [.save] },
  { kw := "Q", sig := [], den := fun _ _ => some [.restore] },
  { kw := "re", sig := [.num, .num, .num, .num], den := fun _ vs => match vs with
      | [.num x, .num y, .num w, .num h] => some [.rect x y w h] | _ => none },
  { kw := "RG", sig := [.num, .num, .num], den := fun _ vs => match vs with
      | [.num r, .num g, .num b] => some [.strokeColor (.rgb r g b)] | _ => none },
  { kw := "rg", sig := [.num, .num, .num], den := fun _ vs => match vs with
      | [.num r, .num g, .num b] => some [.fillColor (.rgb r g b)] | _ => none },
  { kw := "ri", sig := [.intent], den := fun _ vs => match vs with
      | [.intent i] => some [.renderingIntent i] | _ => none },
  { kw := "s", sig := [], den := fun _ _ => some [.close, .stroke] },
  { kw := "S", sig := [], den := fun _ _ => some [.stroke] },
  { kw := "SC", sig := [.colour], den := fun _ vs => match vs with
      | [.colour ps] => some [.strokeColor (.other ps)] | _ => none },
  { kw := "sc", sig := [.colour], den := fun _ vs => match vs with
      | [.colour ps] => some [.fillColor (.other ps)] | _ => none },
  { kw := "SCN", sig := [.colourN], den := fun _ vs => match vs with
      | [.colour ps] => some [.strokeColor (.other ps)] | _ => none },
  { kw := "scn", sig := [.colourN], den := fun _ vs => match vs with
      | [.colour ps] => some [.fillColor (.other ps)] | _ => none },
  { kw := "sh", sig := [.name], den := fun _ vs => match vs with
      | [.name n] => some [.shade n] | _ => none },
  { kw := "T*", sig := [], den := fun _ _ => some [.textNewline] },
  { kw := "Tc", sig := [.num], den := fun _ vs => match vs with
      | [.num v] => some [.charSpacing v] | _ => none },
  { kw := "Td", sig := [.num, .num], den := fun _ vs => match vs with
      | [.num x, .num y] => some [.moveTextPosition ⟨x, y⟩] | _ => none },
  { kw := "TD", sig := [.num, .num], den := fun _ vs => match vs with
      | [.num x, .num y] => some [.leading (ro.neg y), .moveTextPosition ⟨x, y⟩] | _ => none },
  { kw := "Tf", sig := [.name, .num], den := fun _ vs => match vs with
      | [.name font, .num size] => some [.textFont font size] | _ => none },
  { kw := "Tj", sig := [.str], den := fun _ vs => match vs with
      | [.str bs] => some [.textDraw bs] | _ => none },
  { kw := "TJ", sig := [.text], den := fun _ vs => match vs with
      | [.text xs] => some [.textDrawAdjusted xs] | _ => none },
  { kw := "TL", sig := [.num], den := fun _ vs => match vs with
      | [.num v] => some [.leading v] | _ => none },
  { kw := "Tm", sig := [.num, .num, .num, .num, .num, .num], den := fun _ vs => match vs with
      | [.num a, .num b, .num c, .num d, .num e, .num f] => some [.setTextMatrix ⟨a, b, c, d, e, f⟩] | _ => none },
  { kw := "Tr", sig := [.int], den := fun _ vs => match vs with
      | [.int n] => (finOf 8 n).map fun m => [.textRenderMode m] | _ => none },
  { kw := "Ts", sig := [.num], den := fun _ vs => match vs with
      | [.num v] => some [.textRise v] | _ => none },
  { kw := "Tw", sig := [.num], den := fun _ vs => match vs with
      | [.num v] => some [.wordSpacing v] | _ => none },
  { kw := "Tz", sig := [.num], den := fun _ vs => match vs with
      | [.num v] => some [.textScaling v] | _ => none },
  { kw := "v", sig := [.num, .num, .num, .num], den := fun cur vs => match cur, vs with
      | some p0, [.num a, .num b, .num c, .num d] => some [.curveTo p0 ⟨a, b⟩ ⟨c, d⟩] | _, _ => none },
  { kw := "w", sig := [.num], den := fun _ vs => match vs with
      | [.num v] => some [.lineWidth v] | _ => none },
  { kw := "W", sig := [], den := fun _ _ => some [.clip .nonZero] },
  { kw := "W*", sig := [], den := fun _ _ => some [.clip .evenOdd] },
  { kw := "y", sig := [.num, .num, .num, .num], den := fun _ vs => match vs with
      | [.num a, .num b, .num c, .num d] => some [.curveTo ⟨a, b⟩ ⟨c, d⟩ ⟨c, d⟩] | _ => none },
  { kw := "'", sig := [.str], den := fun _ vs => match vs with
      | [.str bs] => some [.textNewline, .textDraw bs] | _ => none },
  { kw := "\"", sig := [.num, .num, .str], den := fun _ vs => match vs with
      | [.num aw, .num ac, .str bs] => some [.wordSpacing aw, .charSpacing ac, .textNewline, .textDraw bs]
      | _ => none }
]

def lookup (kw : String) : Option (Entry R) := (table ro).find? (fun e => e.kw == kw)

end

/-- the current path as far as the current point is concerned -/
structure Path (R : Type) where
  cur : Option (Pt R)
  start : Option (Pt R)

/-- effect of one operation on the current point (8.5.2.1, 8.5.3.1) -/
def pathAfter {R : Type} (p : Path R) : Op R → Path R
  | .moveTo q => ⟨some q, some q⟩
  | .lineTo q => ⟨some q, p.start⟩
  | .curveTo _ _ q => ⟨some q, p.start⟩
  | .close => ⟨p.start, p.start⟩
  | .rect x y _ _ => ⟨some ⟨x, y⟩, some ⟨x, y⟩⟩
  | .stroke => ⟨none, none⟩
  | .fill _ => ⟨none, none⟩
  | .fillAndStroke _ => ⟨none, none⟩
  | .endPath => ⟨none, none⟩
  | _ => p

/-- one operator with its operands -/
structure Stmt (R : Type) where
  args : List (Prim R)
  kw : String

/-- what one statement denotes, and the path afterwards (`none`: not a fully supported operator of the
    table applied to well-formed operands) -/
def specStmt {R : Type} (ro : RealOps R) (path : Path R) (s : Stmt R) : Option (List (Op R) × Path R) :=
  match lookup ro s.kw with
  | none => none
  | some e =>
    if e.support = .full then
      match decode ro e.sig s.args with
      | none => none
      | some vals =>
        match e.den path.cur vals with
        | none => none
        | some ops => some (ops, ops.foldl pathAfter path)
    else none

/-- the operations a sequence of statements denotes -/
def specRun {R : Type} (ro : RealOps R) (path : Path R) : List (Stmt R) → Option (List (Op R))
  | [] => some []
  | s :: ss => match specStmt ro path s with
    | none => none
    | some (ops, path') => match specRun ro path' ss with
      | none => none
      | some more => some (ops ++ more)

def Stmt.toks {R : Type} (s : Stmt R) : List (Tok R) := s.args.map .prim ++ [.kw s.kw]

end ContentSpec
