import PdfModel.Model.Derive

/-!
# Statement-side definitions for C15 (typed objects round-trip through their dictionary form)

* `RoundTrips rd wr v` — the first law of the property for one value: writing `v` and reading the result back
  gives a value that writes to the identical primitive.
* `Sem.Law` — the law assumed of every *leaf* of a schema (a hand-written type, a nested derived model, a type
  parameter); `ValOk` — what "a value of that shape" means: it has the form the shape's writer accepts, its
  leaves are values their law speaks about, and what it refers to can be loaded in the environment.
* `FieldLaw` — the same at the level of one field of a derived struct (takes `indirect` into account).
* `StructOk` — the domain of the struct law: one value per keyed field, each `ValOk`; the catch-all holds only
  *unrecognised* entries; a defaulted field never writes as `null`.
-/

namespace Derive

/-- writing `v` succeeds with `p` ⇒ reading `p` back succeeds and the value read writes to `p` again -/
def RoundTrips (rd : Prim → R Val) (wr : Val → R Prim) (v : Val) : Prop :=
  ∀ p, wr v = .ok p → ∃ v', rd p = .ok v' ∧ wr v' = .ok p

/-- the leaf law: every value `lok` admits round-trips -/
def Sem.Law (sem : Sem) (env : Env) (lok : Shape → Val → Prop) : Prop :=
  ∀ s v, s.isContainer = false → lok s v → RoundTrips (sem.rd env s) (sem.wr s) v

/-- a value of the shape, all of whose leaves satisfy `lok`, and whose references can be loaded -/
def ValOk (cfg : Cfg) (sem : Sem) (env : Env) (lok : Shape → Val → Prop) : Shape → Val → Prop
  | .option _, .none => True
  | .option a, .some v => ValOk cfg sem env lok a v
  | .vec a, .list vs => ∀ v ∈ vs, ValOk cfg sem env lok a v
  | .hashMap a, .map kvs => ∀ kv ∈ kvs, ValOk cfg sem env lok a kv.2
  | .pair a b, .pair x y => ValOk cfg sem env lok a x ∧ ValOk cfg sem env lok b y
  | .box a, v => ValOk cfg sem env lok a v
  | .maybeRef a, .direct v =>
    ValOk cfg sem env lok a v ∧
      ∀ p, writeShape sem a v = .ok p → p.isRef = true →
        ∃ v', getTyped env (fun q => readShape cfg sem env a q) p = .ok v'
  | .maybeRef a, .indirect r _ =>
    r.isRef = true ∧ ∃ v', getTyped env (fun q => readShape cfg sem env a q) r = .ok v'
  | .rcRef a, .indirect r _ =>
    r.isRef = true ∧ ∃ v', getTyped env (fun q => readShape cfg sem env a q) r = .ok v'
  | .ref _, .leaf r => r.isRef = true
  | .lazy _, .lazy _ => True
  | .option _, _ | .vec _, _ | .hashMap _, _ | .pair _ _, _ | .maybeRef _, _ | .rcRef _, _ | .ref _, _
  | .lazy _, _ => False
  | s, v => lok s v

/-- the law of one field of a derived struct, in terms of what the writer emits for it -/
def FieldLaw (cfg : Cfg) (sem : Sem) (env : Env) (f : Field) (v : Val) : Prop :=
  ∀ e, emit sem f v = .ok e →
    ∃ v', readShape cfg sem env f.shape (e.getD .null) = .ok v' ∧ emit sem f v' = .ok e

/-- one value per keyed field -/
def FieldsOk (P : Field → Val → Prop) : List Field → List Val → Prop
  | [], vs => vs = []
  | f :: fs, vs =>
    if f.skip || f.other then FieldsOk P fs vs
    else match vs with
      | [] => False
      | v :: vs' => P f v ∧ FieldsOk P fs vs'

/-- the catch-all of the value holds none of the keys of the schema's fields -/
def otherUnrecognised (S : Schema) (other : Dict) : Prop :=
  ∀ k ∈ S.fieldKeys, dget k other = none

/-- a defaulted field never writes as `null` (else the reader would replace the omission by the default) -/
def DefaultedNonNull (sem : Sem) (f : Field) (v : Val) : Prop :=
  f.default.isSome = true → emit sem f v ≠ .ok none

/-- entry `k` of `d` is the entry the writer emitted -/
def entryIs (d : Dict) (k : String) (e : Option Prim) : Prop := dget k d = e

/-! ## the first law from the value side

`RoundTrips` starts from a value too, but only says that the value read back *writes* the same. The statements
below say that it *is* the same: what the writer produces for `v` is read back as `v`. -/

/-- writing `v` succeeds with `p` ⇒ reading `p` gives `v` back -/
def ReadsBack (rd : Prim → R Val) (wr : Val → R Prim) (v : Val) : Prop :=
  ∀ p, wr v = .ok p → rd p = .ok v

/-- the exact leaf law -/
def Sem.LawV (sem : Sem) (env : Env) (lok : Shape → Val → Prop) : Prop :=
  ∀ s v, s.isContainer = false → lok s v → ReadsBack (sem.rd env s) (sem.wr s) v

/-- the values the containers give back exactly: `Some(x)` only for an `x` that does not write as `null` (it would
    be read as `None`), `MaybeRef::Direct(x)` only for an `x` that does not write as a reference (it would be read
    as `Indirect`), an `Indirect` / `RcRef` whose loaded value is what the environment loads -/
def ValOkV (cfg : Cfg) (sem : Sem) (env : Env) (lok : Shape → Val → Prop) : Shape → Val → Prop
  | .option _, .none => True
  | .option a, .some v => ValOkV cfg sem env lok a v ∧ ∀ p, writeShape sem a v = .ok p → p.isNull = false
  | .vec a, .list vs => ∀ v ∈ vs, ValOkV cfg sem env lok a v
  | .hashMap a, .map kvs => ∀ kv ∈ kvs, ValOkV cfg sem env lok a kv.2
  | .pair a b, .pair x y => ValOkV cfg sem env lok a x ∧ ValOkV cfg sem env lok b y
  | .box a, v => ValOkV cfg sem env lok a v
  | .maybeRef a, .direct v => ValOkV cfg sem env lok a v ∧ ∀ p, writeShape sem a v = .ok p → p.isRef = false
  | .maybeRef a, .indirect r v => r.isRef = true ∧ getTyped env (fun q => readShape cfg sem env a q) r = .ok v
  | .rcRef a, .indirect r v => r.isRef = true ∧ getTyped env (fun q => readShape cfg sem env a q) r = .ok v
  | .ref _, .leaf r => r.isRef = true
  | .lazy _, .lazy _ => True
  | .option _, _ | .vec _, _ | .hashMap _, _ | .pair _ _, _ | .maybeRef _, _ | .rcRef _, _ | .ref _, _
  | .lazy _, _ => False
  | s, v => lok s v

/-- the exact law of one field, in terms of what the writer emits for it -/
def FieldLawV (cfg : Cfg) (sem : Sem) (env : Env) (f : Field) (v : Val) : Prop :=
  ∀ e, emit sem f v = .ok e → readShape cfg sem env f.shape (e.getD .null) = .ok v

end Derive
