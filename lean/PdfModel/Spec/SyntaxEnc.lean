import PdfModel.Spec.Syntax

/-!
  Encrypted documents (ISO 32000-1 §7.6): inside an indirect object `id gen` every *string* is stored encrypted with
  the key of that object; names, numbers, the structure and the layout are not touched.
  `SpellsEnc pr e id gen v txt`: `txt` is a conformant spelling of `v` with every string `s` replaced by its
  ciphertext `e id gen s` (literal or hexadecimal, any layout) — `e` is the encryptor, a parameter.
-/

namespace PdfSyntax
open PdfLex (Prim)

variable {R : Type}

mutual
/-- apply `f` to every string of a value (also inside stream dictionaries; stream data is not a string object) -/
def mapStrings (f : List UInt8 → List UInt8) : Prim R → Prim R
  | .str s => .str (f s)
  | .stream info inner => .stream (mapStringsE f info) inner
  | .dict kvs => .dict (mapStringsE f kvs)
  | .arr xs => .arr (mapStringsL f xs)
  | .null => .null
  | .int i => .int i
  | .real r => .real r
  | .bool b => .bool b
  | .ref i g => .ref i g
  | .name n => .name n
def mapStringsL (f : List UInt8 → List UInt8) : List (Prim R) → List (Prim R)
  | [] => []
  | x :: xs => mapStrings f x :: mapStringsL f xs
def mapStringsE (f : List UInt8 → List UInt8) : List (List UInt8 × Prim R) → List (List UInt8 × Prim R)
  | [] => []
  | (k, v) :: rest => (k, mapStrings f v) :: mapStringsE f rest
end

/-- the value as it is stored in the encrypted object `id gen` -/
def encrypted (e : Nat → Nat → List UInt8 → List UInt8) (id gen : Nat) (v : Prim R) : Prim R :=
  mapStrings (e id gen) v

/-- `txt` spells `v` inside the encrypted indirect object `id gen` -/
def SpellsEnc (pr : List UInt8 → Option R) (e : Nat → Nat → List UInt8 → List UInt8) (id gen : Nat) (v : Prim R)
    (txt : List UInt8) : Prop :=
  Spells pr (encrypted e id gen v) txt

/-- the same for a stream object: the strings of its dictionary are encrypted (the data is handled by the stream
    filters, not by the parser) -/
def SpellsStreamEnc (pr : List UInt8 → Option R) (e : Nat → Nat → List UInt8 → List UInt8) (id gen : Nat)
    (info : List (List UInt8 × Prim R)) (data txt : List UInt8) : Prop :=
  SpellsStream pr (mapStringsE (e id gen) info) data txt

end PdfSyntax
