import PdfModel.Model.CMap

/-!
  Statement side of C19 (character maps): what a well-formed `bfchar` / `bfrange` program denotes
  (ISO 32000-1 9.10.3, Adobe Technical Note 5411), and a conformant rendering of such a program in the layout
  `write_cmap` uses (one entry per line; `beginbfchar … endbfchar` around every maximal run of single-code
  entries, `beginbfrange … endbfrange` around every maximal run of range entries).

  Destinations are given as Unicode strings (lists of scalar values); the text holds their UTF-16BE code
  units in hexadecimal (`utf16Encode`, `hex4` are shared with the writer model: they are the definition of the
  notation, the reader model has its own decoder).
-/

namespace CMap

/-- a Unicode scalar value -/
def isScalar (c : Nat) : Bool := c < 0xD800 || (0xE000 ≤ c && c ≤ 0x10FFFF)

/-- big-endian bytes of 16-bit units -/
def unitBytes : List Nat → List Nat
  | [] => []
  | u :: r => u / 256 :: u % 256 :: unitBytes r

inductive Ent where
  /-- `<cid> <dst>` in a bfchar section -/
  | char (cid : Nat) (s : List Nat)
  /-- `<lo> <lo+n-1> <dst₀>`: code `lo+i` maps to `ss[i]`, whose encoding is that of `ss[0]` with the last byte
      incremented `i` times -/
  | rstr (lo : Nat) (ss : List (List Nat))
  /-- `<lo> <lo+n-1> [<dst₀> … <dstₙ₋₁>]` -/
  | rarr (lo : Nat) (ss : List (List Nat))
deriving Repr

def Ent.isChar : Ent → Bool
  | .char _ _ => true
  | _ => false

/-- the code units of the next destination of a string-form range: last unit + 1, defined while the low byte
    does not overflow -/
def succUnits : List Nat → Option (List Nat)
  | [] => none
  | [u] => if u % 256 < 255 then some [u + 1] else none
  | u :: r => (succUnits r).map (u :: ·)

def chainOk : List (List Nat) → Bool
  | a :: b :: r => (succUnits (utf16Encode a) == some (utf16Encode b)) && chainOk (b :: r)
  | _ => true

def Ent.wf : Ent → Bool
  | .char cid s => decide (cid < 65536) && s.all isScalar
  | .rstr lo ss =>
    !ss.isEmpty && decide (lo + ss.length ≤ 65536) && ss.all (·.all isScalar) && !(ss.headD []).isEmpty && chainOk ss
  | .rarr lo ss => !ss.isEmpty && decide (lo + ss.length ≤ 65536) && ss.all (·.all isScalar)

/-- the text of one entry (one line) -/
def Ent.line : Ent → Bytes
  | .char cid s => writeCid cid ++ 32 :: writeUnicode s ++ [10]
  | .rstr lo ss => writeCid lo ++ 32 :: writeCid (lo + ss.length - 1) ++ 32 :: writeUnicode (ss.headD []) ++ [10]
  | .rarr lo ss =>
    writeCid lo ++ 32 :: writeCid (lo + ss.length - 1) ++ [32, 91] ++ joinSp (ss.map writeUnicode) ++ [93, 10]

/-- the program text; `st` = kind of the section that is open (`true`: bfchar) -/
def render : Option Bool → List Ent → Bytes
  | none, [] => []
  | some s, [] => footer s
  | st, e :: es =>
    let s := e.isChar
    let pre := match st with
      | none => header s
      | some s0 => if s0 == s then [] else footer s0 ++ header s
    pre ++ e.line ++ render (some s) es

def enumFrom (lo : Nat) : List (List Nat) → List (Nat × List Nat)
  | [] => []
  | s :: ss => (lo, s) :: enumFrom (lo + 1) ss

/-- the (code, text) pairs an entry defines, in code order -/
def Ent.pairs : Ent → List (Nat × List Nat)
  | .char cid s => [(cid, s)]
  | .rstr lo ss => enumFrom lo ss
  | .rarr lo ss => enumFrom lo ss

def pairs (es : List Ent) : List (Nat × List Nat) := es.flatMap Ent.pairs

/-- the text the program assigns to a code: that of the last entry defining it -/
def denote (es : List Ent) (cid : Nat) : Option (List Nat) := ((pairs es).reverse.find? (·.1 == cid)).map (·.2)

end CMap
