import PdfModel.Model.Parser

/-!
  Statement side of C03: which byte strings the PDF syntax (ISO 32000-1 §7.2, §7.3) permits as spellings of
  a value.  `Spells pr v txt`: `txt` is a conformant spelling of `v` (no white-space before or after).
  The definitions are independent of the lexer / parser model (they use only the value type `Prim` and,
  for reals, the text→f32 conversion `pr`, which is third-party code: a real `r` is spelled by any real
  token `t` with `pr t = some r`).

  * `Gap g`        white-space bytes and comments (`% … EOL`) in any number and order
  * `Bnd s`        `s` is empty or begins with a white-space or delimiter byte (a regular token may end there)
  * `IntTok`, `RealTok`, `NatTok`, `NameBody`, `LitBody`, `HexBody`   token grammars
  * `Spells`, `SpellsElems`, `SpellsEntries`                          values (stream-free)
  * `SpellsStream`                                                    stream objects
-/

namespace PdfSyntax
open PdfLex (Prim StreamInner)

/-- table 1: NUL, HT, LF, FF, CR, SP -/
def isWs (b : UInt8) : Bool := b == 0 || b == 9 || b == 10 || b == 12 || b == 13 || b == 32

/-- table 2: `( ) < > [ ] { } / %` -/
def isDelim (b : UInt8) : Bool :=
  b == 40 || b == 41 || b == 60 || b == 62 || b == 91 || b == 93 || b == 123 || b == 125 || b == 47 || b == 37

def isReg (b : UInt8) : Bool := !isWs b && !isDelim b

def isDig (b : UInt8) : Bool := 48 ≤ b && b ≤ 57

inductive Gap : List UInt8 → Prop where
  | nil : Gap []
  | ws (b : UInt8) (g : List UInt8) : isWs b = true → Gap g → Gap (b :: g)
  /-- `%`, any bytes but CR and LF, then CR or LF (CR LF = CR followed by the white-space LF) -/
  | comment (body : List UInt8) (e : UInt8) (g : List UInt8) :
      (∀ b ∈ body, b ≠ 10 ∧ b ≠ 13) → (e = 10 ∨ e = 13) → Gap g → Gap (37 :: body ++ e :: g)

/-- a regular token may end before `s` -/
def Bnd (s : List UInt8) : Prop :=
  match s with
  | [] => True
  | b :: _ => isReg b = false

/-- value of a digit string -/
def digitsVal (ds : List UInt8) : Nat := ds.foldl (fun a d => a * 10 + (d.toNat - 48)) 0

def Digits (ds : List UInt8) : Prop := ∀ b ∈ ds, isDig b = true

/-- unsigned integer (object / generation numbers): digits only -/
def NatTok (t : List UInt8) (n : Nat) : Prop := t ≠ [] ∧ Digits t ∧ digitsVal t = n

/-- `[+-]? digits` with the value `i` -/
def IntTok (t : List UInt8) (i : Int) : Prop :=
  ∃ ds, ds ≠ [] ∧ Digits ds ∧
    ((t = ds ∧ i = digitsVal ds) ∨ (t = 43 :: ds ∧ i = digitsVal ds) ∨ (t = 45 :: ds ∧ i = -(digitsVal ds : Int)))

/-- `[+-]? digits* . digits*` with at least one digit -/
def RealTok (t : List UInt8) : Prop :=
  ∃ sign ip fp, t = sign ++ ip ++ 46 :: fp ∧ (sign = [] ∨ sign = [43] ∨ sign = [45]) ∧
    Digits ip ∧ Digits fp ∧ (ip ≠ [] ∨ fp ≠ [])

def hexVal (c : UInt8) : Option UInt8 :=
  if 48 ≤ c && c ≤ 57 then some (c - 48)
  else if 65 ≤ c && c ≤ 70 then some (c - 55)
  else if 97 ≤ c && c ≤ 102 then some (c - 87)
  else none

/-- the text of a name after `/` and the bytes it denotes -/
inductive NameBody : List UInt8 → List UInt8 → Prop where
  | nil : NameBody [] []
  | raw (b : UInt8) (t s : List UInt8) : isReg b = true → b ≠ 35 → NameBody t s → NameBody (b :: t) (b :: s)
  | esc (h1 h2 v1 v2 : UInt8) (t s : List UInt8) : hexVal h1 = some v1 → hexVal h2 = some v2 →
      NameBody t s → NameBody (35 :: h1 :: h2 :: t) ((v1 * 16 + v2) :: s)

def isOct (b : UInt8) : Bool := 48 ≤ b && b ≤ 55

/-- `\c` for the named escapes of table 3 -/
def namedEscape (c : UInt8) : Option UInt8 :=
  if c == 110 then some 10 else if c == 114 then some 13 else if c == 116 then some 9
  else if c == 98 then some 8 else if c == 102 then some 12 else if c == 40 then some 40
  else if c == 41 then some 41 else if c == 92 then some 92 else none

/-- the next byte is not an octal digit (so a 1- or 2-digit code ends here) -/
def NoOct (r : List UInt8) : Prop :=
  match r with
  | [] => True
  | b :: _ => isOct b = false

/-- the next byte is not LF (so a CR stands alone) -/
def NoLf (r : List UInt8) : Prop := r.head? ≠ some 10

/-- `LitBody txt n s`: `txt` is the text of a literal string after its `(` up to and including the closing
    `)`, read at parenthesis nesting level `n`; it denotes the bytes `s` -/
inductive LitBody : List UInt8 → Nat → List UInt8 → Prop where
  | close : LitBody [41] 0 []
  | popen (r s : List UInt8) (n : Nat) : LitBody r (n + 1) s → LitBody (40 :: r) n (40 :: s)
  | pclose (r s : List UInt8) (n : Nat) : LitBody r n s → LitBody (41 :: r) (n + 1) (41 :: s)
  | plain (b : UInt8) (r s : List UInt8) (n : Nat) : b ≠ 40 → b ≠ 41 → b ≠ 92 → b ≠ 13 →
      LitBody r n s → LitBody (b :: r) n (b :: s)
  | cr (r s : List UInt8) (n : Nat) : NoLf r → LitBody r n s → LitBody (13 :: r) n (10 :: s)
  | crlf (r s : List UInt8) (n : Nat) : LitBody r n s → LitBody (13 :: 10 :: r) n (10 :: s)
  | named (c v : UInt8) (r s : List UInt8) (n : Nat) : namedEscape c = some v →
      LitBody r n s → LitBody (92 :: c :: r) n (v :: s)
  | oct1 (d1 : UInt8) (r s : List UInt8) (n : Nat) : isOct d1 = true → NoOct r →
      LitBody r n s → LitBody (92 :: d1 :: r) n ((d1 - 48) :: s)
  | oct2 (d1 d2 : UInt8) (r s : List UInt8) (n : Nat) : isOct d1 = true → isOct d2 = true → NoOct r →
      LitBody r n s → LitBody (92 :: d1 :: d2 :: r) n (((d1 - 48) * 8 + (d2 - 48)) :: s)
  /-- three digits; the high-order overflow (`\400`…`\777`) is ignored -/
  | oct3 (d1 d2 d3 : UInt8) (r s : List UInt8) (n : Nat) : isOct d1 = true → isOct d2 = true → isOct d3 = true →
      LitBody r n s → LitBody (92 :: d1 :: d2 :: d3 :: r) n (((d1 - 48) * 64 + (d2 - 48) * 8 + (d3 - 48)) :: s)
  /-- a backslash before a character that starts no escape sequence is ignored -/
  | ignored (c : UInt8) (r s : List UInt8) (n : Nat) : namedEscape c = none → isOct c = false → c ≠ 10 → c ≠ 13 →
      LitBody r n s → LitBody (92 :: c :: r) n (c :: s)
  | contLf (r s : List UInt8) (n : Nat) : LitBody r n s → LitBody (92 :: 10 :: r) n s
  | contCr (r s : List UInt8) (n : Nat) : NoLf r → LitBody r n s → LitBody (92 :: 13 :: r) n s
  | contCrLf (r s : List UInt8) (n : Nat) : LitBody r n s → LitBody (92 :: 13 :: 10 :: r) n s

/-- white-space inside a hexadecimal string -/
def HexWs (w : List UInt8) : Prop := ∀ b ∈ w, isWs b = true

/-- text of a hexadecimal string after `<` up to and including `>`, and the bytes it denotes -/
inductive HexBody : List UInt8 → List UInt8 → Prop where
  | close (w : List UInt8) : HexWs w → HexBody (w ++ [62]) []
  | byte (w1 w2 : List UInt8) (h1 h2 v1 v2 : UInt8) (r s : List UInt8) : HexWs w1 → HexWs w2 →
      hexVal h1 = some v1 → hexVal h2 = some v2 → HexBody r s →
      HexBody (w1 ++ h1 :: (w2 ++ h2 :: r)) ((v1 * 16 + v2) :: s)
  /-- an odd number of digits: the last one is followed by an assumed `0` -/
  | odd (w1 w2 : List UInt8) (h1 v1 : UInt8) : HexWs w1 → HexWs w2 → hexVal h1 = some v1 →
      HexBody (w1 ++ h1 :: (w2 ++ [62])) [v1 * 16]

/-- values whose spelling ends in a regular character (a separator or delimiter must follow) -/
def needsBnd {R : Type} : Prim R → Bool
  | .null | .int _ | .real _ | .bool _ | .ref _ _ | .name _ | .stream _ _ => true
  | _ => false

def kwTrue : List UInt8 := [116, 114, 117, 101]
def kwFalse : List UInt8 := [102, 97, 108, 115, 101]
def kwNull : List UInt8 := [110, 117, 108, 108]
def kwStream : List UInt8 := [115, 116, 114, 101, 97, 109]
def kwEndstream : List UInt8 := [101, 110, 100, 115, 116, 114, 101, 97, 109]
def kwObj : List UInt8 := [111, 98, 106]
def kwEndobj : List UInt8 := [101, 110, 100, 111, 98, 106]

mutual

/-- `txt` spells the (stream-free) value `v`; `pr` is the text → f32 conversion -/
def Spells {R : Type} (pr : List UInt8 → Option R) : Prim R → List UInt8 → Prop
  | .null, txt => txt = kwNull
  | .bool b, txt => txt = if b then kwTrue else kwFalse
  | .int i, txt => IntTok txt i ∧ -2147483648 ≤ i ∧ i ≤ 2147483647
  | .real r, txt => RealTok txt ∧ pr txt = some r
  | .str s, txt => (∃ body, txt = 40 :: body ∧ LitBody body 0 s) ∨ (∃ body, txt = 60 :: body ∧ HexBody body s)
  | .name s, txt => ∃ body, txt = 47 :: body ∧ NameBody body s
  | .ref id gen, txt => ∃ a g1 b g2, txt = a ++ g1 ++ b ++ g2 ++ [82] ∧ NatTok a id ∧ NatTok b gen ∧
      Gap g1 ∧ g1 ≠ [] ∧ Gap g2 ∧ g2 ≠ [] ∧ id ≤ 18446744073709551615 ∧ gen ≤ 18446744073709551615
  | .arr xs, txt => ∃ g r, txt = 91 :: g ++ r ∧ Gap g ∧ SpellsElems pr xs r
  | .dict kvs, txt => ∃ g r, txt = 60 :: 60 :: g ++ r ∧ Gap g ∧ SpellsEntries pr kvs r
  | .stream _ _, _ => False

/-- the elements of an array and the closing `]` -/
def SpellsElems {R : Type} (pr : List UInt8 → Option R) : List (Prim R) → List UInt8 → Prop
  | [], txt => txt = [93]
  | x :: xs, txt => ∃ tx g r, txt = tx ++ g ++ r ∧ Spells pr x tx ∧ Gap g ∧ SpellsElems pr xs r ∧
      (needsBnd x = true → Bnd (g ++ r))

/-- the entries of a dictionary and the closing `>>` -/
def SpellsEntries {R : Type} (pr : List UInt8 → Option R) : List (List UInt8 × Prim R) → List UInt8 → Prop
  | [], txt => txt = [62, 62]
  | (k, v) :: rest, txt => ∃ kb g1 tv g2 r, txt = 47 :: kb ++ g1 ++ tv ++ g2 ++ r ∧ NameBody kb k ∧ Gap g1 ∧
      Bnd (g1 ++ tv) ∧ Spells pr v tv ∧ Gap g2 ∧ SpellsEntries pr rest r ∧ (needsBnd v = true → Bnd (g2 ++ r))

end

/-- `txt` spells a stream object with dictionary `info` and data `data`; `lenOk` says that `/Length`
    (direct, or indirect through the resolver) is the length of the data -/
def SpellsStream {R : Type} (pr : List UInt8 → Option R) (info : List (List UInt8 × Prim R)) (data : List UInt8)
    (txt : List UInt8) : Prop :=
  ∃ g1 ents g2 eol g3, txt = 60 :: 60 :: g1 ++ ents ++ g2 ++ kwStream ++ eol ++ data ++ g3 ++ kwEndstream ∧
    Gap g1 ∧ SpellsEntries pr info ents ∧ Gap g2 ∧ (eol = [10] ∨ eol = [13, 10]) ∧ Gap g3


/-! ### side conditions of the theorems -/

mutual
/-- nesting depth of arrays / dictionaries (the parser's `MAX_DEPTH` budget) -/
def vdepth {R : Type} : Prim R → Nat
  | .arr xs => 1 + vdepthL xs
  | .dict kvs => 1 + vdepthE kvs
  | .stream info _ => 1 + vdepthE info
  | _ => 0
def vdepthL {R : Type} : List (Prim R) → Nat
  | [] => 0
  | x :: xs => max (vdepth x) (vdepthL xs)
def vdepthE {R : Type} : List (List UInt8 × Prim R) → Nat
  | [] => 0
  | (_, v) :: rest => max (vdepth v) (vdepthE rest)
end

mutual
/-- fuel that the model's parser needs for a value (at most three times the length of any spelling) -/
def need {R : Type} : Prim R → Nat
  | .arr xs => 2 + needL xs
  | .dict kvs => 2 + needE kvs
  | .stream info _ => 2 + needE info
  | _ => 2
def needL {R : Type} : List (Prim R) → Nat
  | [] => 1
  | x :: xs => 1 + need x + needL xs
def needE {R : Type} : List (List UInt8 × Prim R) → Nat
  | [] => 1
  | (_, v) :: rest => 1 + need v + needE rest
end

def keysOf {R : Type} (kvs : List (List UInt8 × Prim R)) : List (List UInt8) := kvs.map (·.1)

mutual
/-- invariants of the Rust types: a `Name` is a string (valid UTF-8), the keys of a dictionary are distinct -/
def WF {R : Type} : Prim R → Prop
  | .name s => PdfLex.utf8Valid s = true
  | .arr xs => WFL xs
  | .dict kvs => WFE kvs ∧ (keysOf kvs).Nodup
  | .stream info _ => WFE info ∧ (keysOf info).Nodup
  | _ => True
def WFL {R : Type} : List (Prim R) → Prop
  | [] => True
  | x :: xs => WF x ∧ WFL xs
def WFE {R : Type} : List (List UInt8 × Prim R) → Prop
  | [] => True
  | (k, v) :: rest => PdfLex.utf8Valid k = true ∧ WF v ∧ WFE rest
end


mutual
/-- the keys of every dictionary are distinct (the value is a value of the object model: an `IndexMap`) -/
def KeysDistinct {R : Type} : Prim R → Prop
  | .arr xs => KeysDistinctL xs
  | .dict kvs => KeysDistinctE kvs ∧ (keysOf kvs).Nodup
  | .stream info _ => KeysDistinctE info ∧ (keysOf info).Nodup
  | _ => True
def KeysDistinctL {R : Type} : List (Prim R) → Prop
  | [] => True
  | x :: xs => KeysDistinct x ∧ KeysDistinctL xs
def KeysDistinctE {R : Type} : List (List UInt8 × Prim R) → Prop
  | [] => True
  | (_, v) :: rest => KeysDistinct v ∧ KeysDistinctE rest
end

mutual
/-- every name and every dictionary key is valid UTF-8 (what `Name = SmallString` can hold) -/
def namesUtf8 {R : Type} : Prim R → Bool
  | .name s => PdfLex.utf8Valid s
  | .arr xs => namesUtf8L xs
  | .dict kvs => namesUtf8E kvs
  | .stream info _ => namesUtf8E info
  | _ => true
def namesUtf8L {R : Type} : List (Prim R) → Bool
  | [] => true
  | x :: xs => namesUtf8 x && namesUtf8L xs
def namesUtf8E {R : Type} : List (List UInt8 × Prim R) → Bool
  | [] => true
  | (k, v) :: rest => PdfLex.utf8Valid k && namesUtf8 v && namesUtf8E rest
end

mutual
theorem wf_of {R : Type} (v : Prim R) : KeysDistinct v → namesUtf8 v = true → WF v := by
  intro h1 h2
  cases v with
  | name s => simpa [WF, namesUtf8] using h2
  | arr xs => simp only [KeysDistinct] at h1; simp only [namesUtf8] at h2; simp only [WF]; exact wfL_of xs h1 h2
  | dict kvs =>
    simp only [KeysDistinct] at h1; simp only [namesUtf8] at h2; simp only [WF]
    exact ⟨wfE_of kvs h1.1 h2, h1.2⟩
  | stream info inner =>
    simp only [KeysDistinct] at h1; simp only [namesUtf8] at h2; simp only [WF]
    exact ⟨wfE_of info h1.1 h2, h1.2⟩
  | null => simp [WF]
  | int i => simp [WF]
  | real r => simp [WF]
  | bool b => simp [WF]
  | str s => simp [WF]
  | ref a b => simp [WF]
theorem wfL_of {R : Type} (xs : List (Prim R)) : KeysDistinctL xs → namesUtf8L xs = true → WFL xs := by
  intro h1 h2
  cases xs with
  | nil => simp [WFL]
  | cons x xs =>
    simp only [KeysDistinctL] at h1; simp only [namesUtf8L, Bool.and_eq_true] at h2; simp only [WFL]
    exact ⟨wf_of x h1.1 h2.1, wfL_of xs h1.2 h2.2⟩
theorem wfE_of {R : Type} (kvs : List (List UInt8 × Prim R)) : KeysDistinctE kvs → namesUtf8E kvs = true → WFE kvs := by
  intro h1 h2
  cases kvs with
  | nil => simp [WFE]
  | cons kv kvs =>
    obtain ⟨k, v⟩ := kv
    simp only [KeysDistinctE] at h1; simp only [namesUtf8E, Bool.and_eq_true] at h2; simp only [WFE]
    exact ⟨h2.1.1, wf_of v h1.1 h2.1.2, wfE_of kvs h1.2 h2.2⟩
end

end PdfSyntax
