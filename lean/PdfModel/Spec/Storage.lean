import PdfModel.Model.Storage

/-!
  Specification side of C09: the abstract document is a map from references (object numbers) to the
  last value written through that reference. It knows nothing about tables, offsets, caches or
  pending changes; it only follows what the caller did and which references the caller was handed.
-/

namespace Storage

variable {V : Type}

/-- reference ↦ last value written (none: never written by this history) -/
abbrev AMap (V : Type) := Nat → Option V

def AMap.empty : AMap V := fun _ => none

def AMap.set (m : AMap V) (id : Nat) (v : V) : AMap V := fun j => if j = id then some v else m j

/-- one operation together with what the implementation answered: a write is recorded under the
    reference that was handed back -/
def specStep (m : AMap V) : Op V → Res V → AMap V
  | .create v, .ref id _ => m.set id v
  | .update _ v, .ref id _ => m.set id v
  | .fulfil _ v, .ref id _ => m.set id v
  | _, _ => m

def specRun (m : AMap V) : List (Op V) → List (Res V) → AMap V
  | op :: ops, r :: rs => specRun (specStep m op r) ops rs
  | _, _ => m

end Storage
