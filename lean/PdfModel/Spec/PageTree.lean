import PdfModel.Model.PageTree

/-!
  Statement side of C07: the abstract page tree (a rooted ordered tree of nodes and leaves, every node and
  leaf with an object number and its own optional attributes), what it means for an object table to hold a
  well-formed rendering of it (`represents`: typing, /Kids in order, accurate /Count at every node, correct
  /Parent links), its leaves in depth-first document order, and "nearest ancestor" for attributes.

  Nothing here is used by the model; `leavesOf`/`nearest` are the oracle the theorems compare the model with.
-/

namespace PageTree

inductive PTree where
  | leaf (id : Nat) (a : Attrs)
  | node (id : Nat) (a : Attrs) (kids : List PTree)
deriving Repr, Inhabited

def PTree.id : PTree → Nat
  | .leaf id _ => id
  | .node id _ _ => id

mutual
/-- number of leaf pages below -/
def nLeaves : PTree → Nat
  | .leaf _ _ => 1
  | .node _ _ ks => nLeavesL ks
def nLeavesL : List PTree → Nat
  | [] => 0
  | k :: ks => nLeaves k + nLeavesL ks
end

mutual
/-- leaf = 0, node = 1 + max over kids -/
def height : PTree → Nat
  | .leaf _ _ => 0
  | .node _ _ ks => heightL ks + 1
def heightL : List PTree → Nat
  | [] => 0
  | k :: ks => max (height k) (heightL ks)
end

/-- the record a correct rendering of a node loads as: /Kids in order, accurate /Count -/
def nodeRec (id : Nat) (a : Attrs) (ks : List PTree) : TreeRec :=
  ⟨id, ks.map PTree.id, nLeavesL ks, a⟩

mutual
/-- leaves below `t` in depth-first document order, each with the chain of its ancestors (`parent` nearest,
    then `anc`) -/
def dfs (parent : TreeRec) (anc : List TreeRec) : PTree → List Leaf
  | .leaf id a => [⟨id, a, parent, anc⟩]
  | .node id a ks => dfsL (nodeRec id a ks) (parent :: anc) ks
def dfsL (parent : TreeRec) (anc : List TreeRec) : List PTree → List Leaf
  | [] => []
  | k :: ks => dfs parent anc k ++ dfsL parent anc ks
end

/-- the leaves of a whole tree (the root is a node: `Catalog.pages` must be a /Pages object) -/
def leavesOf : PTree → List Leaf
  | .leaf _ _ => []
  | .node id a ks => dfsL (nodeRec id a ks) [] ks

def rootRec : PTree → TreeRec
  | .leaf id a => ⟨id, [], 0, a⟩
  | .node id a ks => nodeRec id a ks

def isNode : PTree → Bool
  | .leaf _ _ => false
  | .node _ _ _ => true

mutual
/-- the object table holds a well-formed rendering of `t` whose /Parent is `parent` -/
def represents (tbl : Tbl) (parent : Option Nat) : PTree → Bool
  | .leaf id a =>
    match parent with
    | some p => decide (tbl id = some (.page p a))
    | none => false
  | .node id a ks =>
    decide (tbl id = some (.pages parent (ks.map PTree.id) (nLeavesL ks) a)) && representsL tbl id ks
def representsL (tbl : Tbl) (pid : Nat) : List PTree → Bool
  | [] => true
  | k :: ks => represents tbl (some pid) k && representsL tbl pid ks
end

/-- own value, else that of the nearest ancestor that has one -/
def nearest (f : Attrs → Option Nat) (own : Attrs) (chain : List TreeRec) : Option Nat :=
  (own :: chain.map (·.a)).findSome? f

end PageTree
