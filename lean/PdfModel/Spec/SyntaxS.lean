import PdfModel.Spec.Syntax

/-!
  `Spec/Syntax` extended to values that contain stream objects anywhere (C04 at full strength: the object model can
  hold a `PdfStream` inside an array or a dictionary, although no PDF file may).

  * `SpellsS env v txt`: as `Spells`, and a stream object (`Pending` data) is spelled `<< … >> stream EOL data endstream`
    with `/Length` equal to the length of the data (directly, or through the resolver `env.resolveLen`).
  * `Reads env buf id p v`: the parser's result `p` *is* the value `v`: equal, except that where `v` holds a `Pending`
    stream `p` holds an `InFile` stream of the indirect object `id` with the same dictionary (recursively) whose
    `file_range` (shifted by the lexer's file offset) covers exactly the data in `buf`.
-/

namespace PdfSyntax
open PdfLex (Prim StreamInner Env Dict dictGet kwLength Buf slice)

variable {R : Type}

/-- `/Length` of the dictionary is `n`: directly, or through the resolver -/
def LengthOK (env : Env R) (info : Dict R) (n : Nat) : Prop :=
  dictGet info kwLength = some (.int (n : Int)) ∨
  ∃ i g, dictGet info kwLength = some (.ref i g) ∧ env.resolveLen i g = .ok n

mutual
def SpellsS (env : Env R) : Prim R → List UInt8 → Prop
  | .arr xs, txt => ∃ g r, txt = 91 :: g ++ r ∧ Gap g ∧ SpellsElemsS env xs r
  | .dict kvs, txt => ∃ g r, txt = 60 :: 60 :: g ++ r ∧ Gap g ∧ SpellsEntriesS env kvs r
  | .stream info inner, txt =>
    ∃ data, inner = .pending data ∧ ∃ g1 ents g2 eol g3,
      txt = 60 :: 60 :: g1 ++ ents ++ g2 ++ kwStream ++ eol ++ data ++ g3 ++ kwEndstream ∧
      Gap g1 ∧ SpellsEntriesS env info ents ∧ Gap g2 ∧ (eol = [10] ∨ eol = [13, 10]) ∧ Gap g3 ∧
      LengthOK env info data.length
  | .null, txt => Spells env.parseReal .null txt
  | .int i, txt => Spells env.parseReal (.int i) txt
  | .real r, txt => Spells env.parseReal (.real r) txt
  | .bool b, txt => Spells env.parseReal (.bool b) txt
  | .str s, txt => Spells env.parseReal (.str s) txt
  | .ref a b, txt => Spells env.parseReal (.ref a b) txt
  | .name s, txt => Spells env.parseReal (.name s) txt
def SpellsElemsS (env : Env R) : List (Prim R) → List UInt8 → Prop
  | [], txt => txt = [93]
  | x :: xs, txt => ∃ tx g r, txt = tx ++ g ++ r ∧ SpellsS env x tx ∧ Gap g ∧ SpellsElemsS env xs r ∧
      (needsBnd x = true → Bnd (g ++ r))
def SpellsEntriesS (env : Env R) : List (List UInt8 × Prim R) → List UInt8 → Prop
  | [], txt => txt = [62, 62]
  | (k, v) :: rest, txt => ∃ kb g1 tv g2 r, txt = 47 :: kb ++ g1 ++ tv ++ g2 ++ r ∧ NameBody kb k ∧ Gap g1 ∧
      Bnd (g1 ++ tv) ∧ SpellsS env v tv ∧ Gap g2 ∧ SpellsEntriesS env rest r ∧ (needsBnd v = true → Bnd (g2 ++ r))
end

mutual
def Reads (env : Env R) (buf : Buf) (id : Nat × Nat) : Prim R → Prim R → Prop
  | p, .arr xs => ∃ ps, p = .arr ps ∧ ReadsL env buf id ps xs
  | p, .dict kvs => ∃ ps, p = .dict ps ∧ ReadsE env buf id ps kvs
  | p, .stream info inner =>
    ∃ data, inner = .pending data ∧ ∃ info' lo,
      p = .stream info' (.inFile id.1 id.2 (env.fileOffset + lo) (env.fileOffset + lo + data.length)) ∧
      ReadsE env buf id info' info ∧ slice buf lo (lo + data.length) = data
  | p, .null => p = .null
  | p, .int i => p = .int i
  | p, .real r => p = .real r
  | p, .bool b => p = .bool b
  | p, .str s => p = .str s
  | p, .ref a b => p = .ref a b
  | p, .name s => p = .name s
def ReadsL (env : Env R) (buf : Buf) (id : Nat × Nat) : List (Prim R) → List (Prim R) → Prop
  | ps, [] => ps = []
  | ps, x :: xs => ∃ p ps', ps = p :: ps' ∧ Reads env buf id p x ∧ ReadsL env buf id ps' xs
def ReadsE (env : Env R) (buf : Buf) (id : Nat × Nat) : Dict R → List (List UInt8 × Prim R) → Prop
  | ps, [] => ps = []
  | ps, (k, v) :: rest => ∃ p ps', ps = (k, p) :: ps' ∧ Reads env buf id p v ∧ ReadsE env buf id ps' rest
end

end PdfSyntax
