/-!
# Specification side of LZWDecode (ISO 32000-1 §7.4.4)

The encoder is a *relation*, stated in the encoder's own terms: the encoder keeps a table of strings
(codes 258, 259, …), emits the code of some string of its table (or of a single byte) that is a prefix of
the remaining input — any such choice, the longest one being the usual greedy encoder — and then adds that
string extended by the next input byte to the table (while there is room: entry 4095 is the last one). It may
emit a clear-table code (256) at any point and closes with the EOD code (257). Codes are written most
significant bit first with 9 to 12 bits: the width grows from `w` to `w + 1` once the *reader* holds the
entry `2^w − 1` (EarlyChange 0, "as late as possible") resp. `2^w − 2` (EarlyChange 1, "one code early");
the reader learns an entry one code after the encoder created it (`fresh`). Nothing here refers to the
model of pdf-rs or of weezl.
-/

namespace LzwSpec

abbrev Bytes := List UInt8

/-- `w` bits of `n`, most significant first -/
def bitsOfNat : Nat → Nat → List Bool
  | 0, _ => []
  | w + 1, n => (n / 2 ^ w % 2 == 1) :: bitsOfNat w n

def bitsOfBytes (data : Bytes) : List Bool := data.flatMap fun b => bitsOfNat 8 b.toNat

structure EncSt where
  /-- the encoder's table: strings of the codes 258, 259, … -/
  table : List Bytes
  /-- the last entry was created while emitting the previous code: the reader does not know it yet -/
  fresh : Bool
deriving Repr, DecidableEq

def encInit : EncSt := { table := [], fresh := false }

/-- code width for a reader whose next free code is `next` -/
def widthFor (early : Bool) (next : Nat) : Nat :=
  let n := next + (if early then 1 else 0)
  if n < 512 then 9 else if n < 1024 then 10 else if n < 2048 then 11 else 12

/-- the width of the code the encoder emits in state `st` -/
def codeWidth (early : Bool) (st : EncSt) : Nat :=
  widthFor early (258 + st.table.length - (if st.fresh then 1 else 0))

/-- `c` is a code for the string `s` in the encoder's table -/
def IsCodeOf (table : List Bytes) (s : Bytes) (c : Nat) : Prop :=
  (∃ b : UInt8, s = [b] ∧ c = b.toNat) ∨ (∃ i, table[i]? = some s ∧ c = 258 + i)

/-- the table after emitting the code of `s` with `rest` still to be encoded -/
def advance (st : EncSt) (s rest : Bytes) : EncSt :=
  match rest with
  | [] => { table := st.table, fresh := false }
  | c :: _ => if 258 + st.table.length < 4096 then { table := st.table ++ [s ++ [c]], fresh := true }
              else { table := st.table, fresh := false }

/-- `codes` (width, value) is a conforming code sequence for the bytes `bs` from encoder state `st` -/
inductive Codes (early : Bool) : EncSt → Bytes → List (Nat × Nat) → Prop where
  | eod {st : EncSt} : Codes early st [] [(codeWidth early st, 257)]
  | clear {st : EncSt} {bs : Bytes} {cs : List (Nat × Nat)} :
      Codes early encInit bs cs → Codes early st bs ((codeWidth early st, 256) :: cs)
  | phrase {st : EncSt} {s rest : Bytes} {c : Nat} {cs : List (Nat × Nat)} :
      s ≠ [] → IsCodeOf st.table s c → Codes early (advance st s rest) rest cs →
      Codes early st (s ++ rest) ((codeWidth early st, c) :: cs)

def bitsOfCodes (cs : List (Nat × Nat)) : List Bool := cs.flatMap fun wc => bitsOfNat wc.1 wc.2

/-- the packed codes, then anything (padding bits of the last byte, trailing bytes) -/
def EncodesToLzw (early : Bool) (bs text : Bytes) : Prop :=
  ∃ cs tail, Codes early encInit bs cs ∧ bitsOfBytes text = bitsOfCodes cs ++ tail

/-! ## The greedy encoder: one executable instance (longest match, clear-table first and whenever the
    table is full) -/

/-- the longest table entry (of length ≥ 2) that is a prefix of `bs`, with its index counted from `i` -/
def longestMatch : List Bytes → Nat → Bytes → Option (Nat × Bytes)
  | [], _, _ => none
  | e :: t, i, bs =>
    let rest := longestMatch t (i + 1) bs
    if decide (e.length ≥ 2) && e.isPrefixOf bs then
      match rest with
      | some (j, s) => if e.length < s.length then some (j, s) else some (i, e)
      | none => some (i, e)
    else rest

def greedyCodes (early : Bool) : Nat → EncSt → Bytes → List (Nat × Nat)
  | 0, _, _ => []
  | _ + 1, st, [] => [(codeWidth early st, 257)]
  | fuel + 1, st, b :: bs =>
    if 258 + st.table.length ≥ 4096 then
      (codeWidth early st, 256) :: greedyCodes early fuel encInit (b :: bs)
    else
      match longestMatch st.table 0 (b :: bs) with
      | some (i, s) =>
        (codeWidth early st, 258 + i) :: greedyCodes early fuel (advance st s ((b :: bs).drop s.length)) ((b :: bs).drop s.length)
      | none => (codeWidth early st, b.toNat) :: greedyCodes early fuel (advance st [b] bs) bs

def natOfBits (bs : List Bool) : Nat := bs.foldl (fun acc b => 2 * acc + (if b then 1 else 0)) 0

/-- bytes from bits, the last byte padded with zero bits -/
def packBits : Nat → List Bool → Bytes
  | 0, _ => []
  | _ + 1, [] => []
  | fuel + 1, b :: bits =>
    let byte := (b :: bits).take 8
    UInt8.ofNat (natOfBits (byte ++ List.replicate (8 - byte.length) false)) :: packBits fuel ((b :: bits).drop 8)

/-- clear-table, greedy phrases, EOD -/
def encodeGreedy (early : Bool) (bs : Bytes) : Bytes :=
  let cs := (codeWidth early encInit, 256) :: greedyCodes early (2 * bs.length + 2) encInit bs
  let bits := bitsOfCodes cs
  packBits (bits.length + 1) bits

/-! ## Executable membership test (proved sound in `Lemmas/LzwCheck.lean`) -/

def entryOf (table : List Bytes) (c : Nat) : Option Bytes :=
  if c < 256 then some [UInt8.ofNat c] else if c < 258 then none else table[c - 258]?

/-- follow the code stream with the encoder's table, checking every phrase against the remaining input -/
def checkCodes (early : Bool) : Nat → EncSt → Bytes → List Bool → Bool
  | 0, _, _, _ => false
  | fuel + 1, st, bs, bits =>
    let w := codeWidth early st
    let head := bits.take w
    if head.length < w then false
    else
      let c := natOfBits head
      if c = 257 then bs.isEmpty
      else if c = 256 then checkCodes early fuel encInit bs (bits.drop w)
      else
        match entryOf st.table c with
        | none => false
        | some s =>
          !s.isEmpty && s.isPrefixOf bs &&
            checkCodes early fuel (advance st s (bs.drop s.length)) (bs.drop s.length) (bits.drop w)

def checkLzw (early : Bool) (bs text : Bytes) : Bool :=
  checkCodes early (8 * text.length + 1) encInit bs (bitsOfBytes text)

end LzwSpec
