import PdfModel.Lemmas.Serialize
import PdfModel.Lemmas.Indirect
import PdfModel.Lemmas.SerializeS
import PdfModel.Generated.Lexical

/-!
  C04 — serialised objects parse back to the same value.

  Model: `Model/Serialize` (writer: `Primitive::serialize`, `serialize_list`, `serialize_name`,
  `Dictionary::serialize`, `PdfString::serialize`, `PdfStream::serialize`, framing of `save`) and
  `Model/Lexer`, `Model/StrLexer`, `Model/Parser` (reader), all after the `fix:` commits listed in notes/C04.md.

  Shape of the proof: the writer only produces *conformant spellings* (`Spec/Syntax.Spells`,
  `serialize_conformant`), and the reader reads every conformant spelling as the value it denotes
  (`PdfLex.parseCtx_spells`, the engine of C03).  All statements are for every value, every buffer, every
  position; no bound on size or depth other than the parser's own `MAX_DEPTH` and a buffer below 2 GiB.

  Hypotheses about third-party code (`f32` ↔ text), explicit in `Serialisable`: for every real `r` in the
  value, `f32::to_string` (+ `.` when it has none) is a real token and converts back to `r`.  They are
  validated on the implementation by the harness stream `c04.f32`.
-/

namespace C04
open PdfLex
open PdfSyntax (Gap Bnd Spells SpellsStream SpellsEntries needsBnd WF WFE WFL vdepth vdepthE vdepthL need needE keysOf)

variable {R : Type}

theorem suffix_of_toList {buf : Buf} {pre s : List UInt8} (h : buf.toList = pre ++ s) : Suffix buf pre.length s := by
  refine ⟨by rw [h]; simp, ?_⟩
  have : buf.size = (pre ++ s).length := by rw [← h]; simp
  simp at this; omega

/-- **Serialising never panics** (and the model needs no fuel): every value, including `InFile` streams
    (`unimplemented!()`, an `Err` in this crate), non-UTF-8 byte strings as names, any reals. -/
theorem serialize_total (fmt : R → List UInt8) (v : Prim R) :
    serialize fmt v ≠ .panic ∧ serialize fmt v ≠ .oof :=
  serialize_returns fmt v

/-- **The writer emits conformant PDF syntax**: the output is a spelling of the value (`Spells`), followed by
    at most one line feed (after `>>`). -/
theorem serialize_conformant (fmt : R → List UInt8) (pr : List UInt8 → Option R) (v : Prim R)
    (h : Serialisable fmt pr v) :
    ∃ txt trail, serialize fmt v = .ok (txt ++ trail) ∧ Spells pr v txt ∧ (trail = [] ∨ trail = [10]) ∧
      (needsBnd v = true → trail = []) :=
  serialize_spells fmt pr v h

/-- **Round trip, any placement** (the general form; the four placements of the property are the corollaries
    below).  The serialisation of `v`, placed anywhere in a buffer (`pre` before it, `rest` after it), is read
    back by `parse_with_lexer_ctx` as exactly `v` (reals with the same value, not merely an equal integer) and
    the cursor rests right after the value's text.  `Ahead`: what follows does not merge with the value
    into another object (`<int> <int> R`, `<dict> stream`): true of everything the writer places there.
    Streams below the top level are outside `Serialisable` here; `parse_serialize_full` covers them. -/
theorem parse_serialize_partial (env : Env R) (hd : env.decrypt = none) (fmt : R → List UInt8) (v : Prim R)
    (hser : Serialisable fmt env.parseReal v) (hwf : WF v) (hdepth : vdepth v ≤ maxDepth) :
    ∃ txt trail, serialize fmt v = .ok (txt ++ trail) ∧ (trail = [] ∨ trail = [10]) ∧
      ∀ {buf : Buf}, buf.size ≤ 2147483647 → ∀ (pre rest : List UInt8) (fuel : Nat) (ctx : Option (Nat × Nat)),
        buf.toList = pre ++ (txt ++ trail ++ rest) → need v ≤ fuel →
        (needsBnd v = true → Bnd rest) → Ahead buf (pre.length + txt.length) →
        parseCtx env buf fuel pre.length ctx Flags.any maxDepth = .ok (v, pre.length + txt.length) := by
  obtain ⟨txt, trail, h1, h2, h3, h4⟩ := serialize_spells fmt env.parseReal v hser
  refine ⟨txt, trail, h1, h3, ?_⟩
  intro buf hsz pre rest fuel ctx hbuf hfuel hb hah
  have hs : Suffix buf pre.length ([] ++ txt ++ (trail ++ rest)) := by
    have := suffix_of_toList hbuf; simpa using this
  have := parseCtx_spells env hd v txt h2 hwf hsz [] (trail ++ rest) pre.length fuel ctx maxDepth Flags.any Gap.nil
    (any_allows v) hs
    (fun hbv => by rw [h4 hbv]; simpa using hb hbv) (by simpa using hah) hfuel hdepth
  simpa using this

/-- **Placement: content-stream operand.**  `<value> <operator>`: the value is read back and the cursor rests
    right after it, so the next lexeme is the operator (`op`: any keyword that is not a number, `R` or
    `stream`). -/
theorem parse_serialize_operand (env : Env R) (hd : env.decrypt = none) (fmt : R → List UInt8) (v : Prim R)
    (hser : Serialisable fmt env.parseReal v) (hwf : WF v) (hdepth : vdepth v ≤ maxDepth) :
    ∃ txt trail, serialize fmt v = .ok (txt ++ trail) ∧
      ∀ {buf : Buf}, buf.size ≤ 2147483647 → ∀ (pre op post : List UInt8) (fuel : Nat),
        buf.toList = pre ++ (txt ++ trail ++ (32 :: op ++ post)) → need v ≤ fuel →
        op ≠ [] → (∀ b ∈ op, isRegular b = true) → isInteger op = false → op ≠ [82] → op ≠ kwStream → Bnd post →
        parseWithLexer env buf fuel pre.length Flags.any = .ok (v, pre.length + txt.length) ∧
        next buf (pre.length + txt.length) =
          .ok (pre.length + txt.length + trail.length + 1, pre.length + txt.length + trail.length + 1 + op.length) := by
  obtain ⟨txt, trail, h1, h3, h5⟩ := parse_serialize_partial env hd fmt v hser hwf hdepth
  refine ⟨txt, trail, h1, ?_⟩
  intro buf hsz pre op post fuel hbuf hfuel hne hreg hint hR hS hpost
  have hs : Suffix buf (pre.length + txt.length) ((trail ++ [32]) ++ op ++ post) := by
    have h0 := suffix_of_toList hbuf
    have := Suffix.drop (a := txt) (s := trail ++ (32 :: op ++ post)) (by simpa using h0)
    simpa using this
  have hgap : Gap (trail ++ [32]) := gap_append (gap_trail h3) (Gap.ws 32 [] (by decide) Gap.nil)
  obtain ⟨hn, hsl⟩ := next_regular (trail ++ [32]) op post _ hgap hs hne hreg hpost
  have hah : Ahead buf (pre.length + txt.length) :=
    ahead_of_lexeme _ op hn hsl hR hS (fun hi => by rw [hint] at hi; simp at hi)
  refine ⟨?_, by simpa [Nat.add_assoc] using hn⟩
  exact h5 hsz pre (32 :: op ++ post) fuel none hbuf hfuel (fun _ => by simp [Bnd]; decide) hah

/-- **Placement: indirect-object body, as `save` frames it** (`"{id} {gen} obj\n" body "\nendobj\n"`).
    `parse_indirect_object` returns the reference and exactly `v`; the cursor rests right after `endobj`. -/
theorem parse_serialize_indirect (env : Env R) (hd : env.decrypt = none) (fmt : R → List UInt8) (v : Prim R)
    (hser : Serialisable fmt env.parseReal v) (hwf : WF v) (hdepth : vdepth v ≤ maxDepth) (id gen : Nat)
    (hid : id ≤ 18446744073709551615) (hgen : gen ≤ 18446744073709551615) :
    ∃ body, serialize fmt v = .ok body ∧
      ∀ {buf : Buf}, buf.size ≤ 2147483647 → ∀ (pre post : List UInt8) (fuel : Nat),
        buf.toList = pre ++ (objFrame id gen body ++ post) → need v ≤ fuel →
        parseIndirectObject env buf fuel pre.length Flags.any =
          .ok (((id, gen), v), pre.length + (objFrame id gen body).length - 1) := by
  obtain ⟨txt, trail, h1, h2, h3, h4⟩ := serialize_spells fmt env.parseReal v hser
  refine ⟨txt ++ trail, h1, ?_⟩
  intro buf hsz pre post fuel hbuf hfuel
  have hs : Suffix buf pre.length ([] ++ fmtNat id ++ [32] ++ fmtNat gen ++ [32] ++ kwObj ++ [10] ++ txt ++ (trail ++ [10]) ++
      kwEndobj ++ ([10] ++ post)) := by
    have := suffix_of_toList hbuf
    simpa [objFrame] using this
  have hsp1 : Gap [32] := Gap.ws 32 [] (by decide) Gap.nil
  have hnl : Gap [10] := Gap.ws 10 [] (by decide) Gap.nil
  have := parseIndirectObject_spells env hd v txt h2 hwf hsz [] (fmtNat id) [32] (fmtNat gen) [32] [10] (trail ++ [10])
    ([10] ++ post) id gen pre.length fuel Gap.nil (fmtNat_spec id) (fmtNat_spec gen) hsp1 (by simp) hsp1 (by simp) hid hgen hnl
    (gap_append (gap_trail h3) hnl) hs (by simp [Bnd]; decide) (fun _ => by simp) (by simp [Bnd]; decide) hfuel hdepth
    Flags.any (any_allows v)
  rw [this]
  simp [objFrame]; omega

/-- **Placements: dictionary value and array element** are instances of the theorems above, because the
    class of serialisable values is closed under wrapping: `<< /k v >>` and `[v w]` are serialisable,
    well-formed values again (one level deeper). -/
theorem placements_closed (fmt : R → List UInt8) (pr : List UInt8 → Option R) (k : List UInt8) (v w : Prim R)
    (hk : utf8Valid k = true) (hv : Serialisable fmt pr v) (hw : Serialisable fmt pr w) (wv : WF v) (ww : WF w) :
    (Serialisable fmt pr (.dict [(k, v)]) ∧ WF (.dict [(k, v)]) ∧ vdepth (.dict [(k, v)]) = 1 + vdepth v) ∧
    (Serialisable fmt pr (.arr [v, w]) ∧ WF (.arr [v, w]) ∧ vdepth (.arr [v, w]) = 1 + max (vdepth v) (vdepth w)) := by
  refine ⟨⟨?_, ?_, ?_⟩, ⟨?_, ?_, ?_⟩⟩
  · simp [Serialisable, SerialisableE, hv]
  · simp [WF, WFE, hk, wv, keysOf]
  · simp [vdepth, vdepthE]
  · simp [Serialisable, SerialisableL, hv, hw]
  · simp [WF, WFL, wv, ww]
  · simp [vdepth, vdepthL]

/-- what `PdfStream::serialize` writes is a conformant stream object followed by a line feed -/
theorem serialize_stream_conformant (fmt : R → List UInt8) (pr : List UInt8 → Option R) (info : Dict R)
    (data : List UInt8) (h : SerialisableE fmt pr info) :
    ∃ txt, serialize fmt (.stream info (.pending data)) = .ok (txt ++ [10]) ∧ SpellsStream pr info data txt := by
  obtain ⟨d, hd, hs⟩ := serializeEntries_spells fmt pr info h
  refine ⟨60 :: 60 :: ([10] ++ (d ++ [62, 62]) ++ [10] ++ PdfSyntax.kwStream ++ [10] ++ data ++ [10] ++ PdfSyntax.kwEndstream), ?_, ?_⟩
  · simp [serialize, hs, PdfSyntax.kwStream, PdfSyntax.kwEndstream, kwStream, kwEndstream]
  · have hnl : Gap [10] := Gap.ws 10 [] (by decide) Gap.nil
    exact ⟨[10], d ++ [62, 62], [10], [10], [10], rfl, hnl, hd, hnl, Or.inl rfl, hnl⟩

/-- **Streams** (`Pending`, `/Length` = length of the data, directly or through the resolver), framed by
    `save`: `parse_indirect_object` returns a stream with the same dictionary whose `file_range`
    (`dataPos`, shifted by the lexer's file offset) covers exactly the data bytes. -/
theorem parse_serialize_stream (env : Env R) (hd : env.decrypt = none) (fmt : R → List UInt8) (info : Dict R)
    (data : List UInt8) (hser : SerialisableE fmt env.parseReal info) (hwf : WFE info) (hnd : (keysOf info).Nodup)
    (hlen : LengthIs env info data.length) (hdepth : 1 + vdepthE info ≤ maxDepth) (id gen : Nat)
    (hid : id ≤ 18446744073709551615) (hgen : gen ≤ 18446744073709551615) :
    ∃ body, serialize fmt (.stream info (.pending data)) = .ok body ∧
      ∀ {buf : Buf}, buf.size ≤ 2147483647 → ∀ (pre post : List UInt8) (fuel : Nat),
        buf.toList = pre ++ (objFrame id gen body ++ post) → 2 + needE info ≤ fuel →
        ∃ dataPos, parseIndirectObject env buf fuel pre.length Flags.any =
            .ok (((id, gen), streamAt env info (id, gen) dataPos data.length),
              pre.length + (objFrame id gen body).length - 1) ∧
          slice buf dataPos (dataPos + data.length) = data := by
  obtain ⟨txt, h1, h2⟩ := serialize_stream_conformant fmt env.parseReal info data hser
  refine ⟨txt ++ [10], h1, ?_⟩
  intro buf hsz pre post fuel hbuf hfuel
  have hs : Suffix buf pre.length ([] ++ fmtNat id ++ [32] ++ fmtNat gen ++ [32] ++ kwObj ++ [10] ++ txt ++ ([10] ++ [10]) ++
      kwEndobj ++ ([10] ++ post)) := by
    have := suffix_of_toList hbuf
    simpa [objFrame] using this
  have hsp1 : Gap [32] := Gap.ws 32 [] (by decide) Gap.nil
  have hnl : Gap [10] := Gap.ws 10 [] (by decide) Gap.nil
  obtain ⟨dataPos, hp, hdata⟩ := parseIndirectObject_stream env hd info data txt h2 hwf hnd hlen hsz [] (fmtNat id) [32]
    (fmtNat gen) [32] [10] ([10] ++ [10]) ([10] ++ post) id gen pre.length fuel Gap.nil (fmtNat_spec id) (fmtNat_spec gen)
    hsp1 (by simp) hsp1 (by simp) hid hgen hnl (gap_append hnl hnl) (by simp) hs (by simp [Bnd]; decide) hfuel hdepth
    Flags.any (by decide)
  refine ⟨dataPos, ?_, hdata⟩
  rw [hp]
  simp [objFrame]; omega

/-- **The full-strength statement** of the property at model level: *every* value the object model can hold —
    32-bit integers, object numbers within `u64`, UTF-8 names and distinct keys (the invariants of the Rust types:
    `Storable`, `WF`), reals satisfying the `f32` text hypotheses, nesting within `MAX_DEPTH`, and **stream objects
    anywhere**, also nested inside arrays, dictionaries and other streams' dictionaries (constructible, though not
    legal PDF), `Pending` with a `/Length` that is the length of their data — serialises, and its serialisation framed
    as `save` frames it is read back by `parse_indirect_object`, anywhere in a buffer, as the same value (`Reads`:
    equal; where the value holds a `Pending` stream the result holds the `InFile` stream of this object with the same
    dictionary whose `file_range` covers exactly the data), the cursor right after `endobj`. -/
def C04_full : Prop :=
  ∀ (R : Type) (env : Env R) (fmt : R → List UInt8) (v : Prim R) (id gen : Nat),
    env.decrypt = none → Storable fmt env v → WF v → vdepth v ≤ maxDepth →
    id ≤ 18446744073709551615 → gen ≤ 18446744073709551615 →
    ∃ body, serialize fmt v = .ok body ∧
      ∀ (buf : Buf) (pre post : List UInt8) (fuel : Nat), buf.size ≤ 2147483647 →
        buf.toList = pre ++ (objFrame id gen body ++ post) → need v ≤ fuel →
        ∃ p, parseIndirectObject env buf fuel pre.length Flags.any =
            .ok (((id, gen), p), pre.length + (objFrame id gen body).length - 1) ∧
          PdfSyntax.Reads env buf (id, gen) p v

/-- **C04 at full strength holds** (nested stream objects included; the implementation agrees: harness witnesses
    `[ <stream> 7 ]`, `<< /S <stream> >>`, a stream inside a stream's dictionary, through hand framing and through the
    real `Storage::save`). -/
theorem parse_serialize_full : C04_full := by
  intro R env fmt v id gen hd hst hwf hdepth hid hgen
  obtain ⟨txt, trail, h1, h2, h3⟩ := serialize_spellsS fmt env v hst
  refine ⟨txt ++ trail, h1, ?_⟩
  intro buf pre post fuel hsz hbuf hfuel
  have hs : Suffix buf pre.length ([] ++ fmtNat id ++ [32] ++ fmtNat gen ++ [32] ++ kwObj ++ [10] ++ txt ++ (trail ++ [10]) ++
      kwEndobj ++ ([10] ++ post)) := by
    have := suffix_of_toList hbuf
    simpa [objFrame] using this
  have hsp1 : Gap [32] := Gap.ws 32 [] (by decide) Gap.nil
  have hnl : Gap [10] := Gap.ws 10 [] (by decide) Gap.nil
  obtain ⟨p, hp, hr⟩ := parseIndirectObject_spellsS env hd v txt h2 hwf hsz [] (fmtNat id) [32] (fmtNat gen) [32] [10] (trail ++ [10])
    ([10] ++ post) id gen pre.length fuel Gap.nil (fmtNat_spec id) (fmtNat_spec gen) hsp1 (by simp) hsp1 (by simp) hid hgen hnl
    (gap_append (gap_trail h3) hnl) hs (by simp [Bnd]; decide) (fun _ => by simp) (by simp [Bnd]; decide) hfuel hdepth
    Flags.any (any_allows v)
  refine ⟨p, ?_, hr⟩
  rw [hp]
  simp [objFrame]; omega

/-- `Reads` at an integer is equality (the single-constructor instance; the general statement is `reads_eq`) -/
theorem reads_atom_eq (env : Env R) (buf : Buf) (id : Nat × Nat) (p : Prim R) (i : Int) :
    PdfSyntax.Reads env buf id p (.int i) ↔ p = .int i := by
  simp [PdfSyntax.Reads]

/-- **For values without stream objects `Reads` is equality** (every constructor, by induction over the value):
    the relational conclusion of `parse_serialize_full` is literal equality on the stream-free part of the domain. -/
theorem reads_eq (env : Env R) (buf : Buf) (id : Nat × Nat) (v p : Prim R)
    (h : PdfSyntax.Reads env buf id p v) (hn : noStreams v = true) : p = v :=
  reads_eq_of_noStreams env buf id v p h hn

/-- **The full theorem contains `parse_serialize_indirect`**: every `Serialisable` value is a `Storable` value without
    streams, so `C04_full` specialises to the literal round trip (the value read back *equals* `v`). Derived from
    `parse_serialize_full` alone, not from the stream-free development. -/
theorem parse_serialize_indirect_of_full (env : Env R) (hd : env.decrypt = none) (fmt : R → List UInt8) (v : Prim R)
    (hser : Serialisable fmt env.parseReal v) (hwf : WF v) (hdepth : vdepth v ≤ maxDepth) (id gen : Nat)
    (hid : id ≤ 18446744073709551615) (hgen : gen ≤ 18446744073709551615) :
    ∃ body, serialize fmt v = .ok body ∧
      ∀ {buf : Buf}, buf.size ≤ 2147483647 → ∀ (pre post : List UInt8) (fuel : Nat),
        buf.toList = pre ++ (objFrame id gen body ++ post) → need v ≤ fuel →
        parseIndirectObject env buf fuel pre.length Flags.any =
          .ok (((id, gen), v), pre.length + (objFrame id gen body).length - 1) := by
  obtain ⟨hst, hns⟩ := storable_of_serialisable fmt env v hser
  obtain ⟨body, h1, h2⟩ := parse_serialize_full R env fmt v id gen hd hst hwf hdepth hid hgen
  refine ⟨body, h1, ?_⟩
  intro buf hsz pre post fuel hbuf hfuel
  obtain ⟨p, hp, hr⟩ := h2 buf pre post fuel hsz hbuf hfuel
  rw [hp, reads_eq env buf (id, gen) v p hr hns]

/-! ### non-vacuity: the hypotheses are satisfiable by non-trivial values, and the conclusions compute -/

/-- a carrier for reals: decimal text; `to_string` is the text, conversion back drops a trailing `.` -/
def txtEnv : Env (List UInt8) :=
  { parseReal := fun t => some (if t.getLast? == some 46 then t.dropLast else t)
    resolveLen := fun _ _ => .err, allowMissingEndobj := false, decrypt := none, fileOffset := 0 }

/-- `<< /A [5 (a\(b) /x#20y 3 0 R 2.5 7.] /B#23 << >> >>`-like value: integer, string with a parenthesis,
    name with a space, reference, reals with and without fraction, key with `#`, nested dictionary -/
def sample : Prim (List UInt8) :=
  .dict [([65], .arr [.int 5, .str [97, 40, 98], .name [120, 32, 121], .ref 3 0, .real [50, 46, 53], .real [55]]),
         ([66, 35], .dict [])]

theorem sample_serialisable : Serialisable id txtEnv.parseReal sample ∧ WF sample ∧ vdepth sample ≤ maxDepth := by
  refine ⟨?_, ?_, by decide⟩
  · simp only [sample, Serialisable, SerialisableE, SerialisableL, and_true, true_and]
    refine ⟨by decide, by decide, ⟨?_, by decide⟩, ?_, by decide⟩
    · exact ⟨[], [50], [53], rfl, Or.inl rfl, by simp [PdfSyntax.Digits, PdfSyntax.isDig], by simp [PdfSyntax.Digits, PdfSyntax.isDig], Or.inl (by simp)⟩
    · exact ⟨[], [55], [], rfl, Or.inl rfl, by simp [PdfSyntax.Digits, PdfSyntax.isDig], by simp [PdfSyntax.Digits], Or.inl (by simp)⟩
  · simp [sample, WF, WFE, WFL, keysOf, utf8Valid]

/-- the round-trip theorem applies to it -/
example : ∃ body, serialize id sample = .ok body ∧
    parseIndirectObject txtEnv (objFrame 12 0 body).toArray 1000 0 Flags.any =
      .ok (((12, 0), sample), (objFrame 12 0 body).length - 1) := by
  obtain ⟨body, h1, h2⟩ := parse_serialize_indirect txtEnv rfl id sample sample_serialisable.1 sample_serialisable.2.1
    sample_serialisable.2.2 12 0 (by decide) (by decide)
  refine ⟨body, h1, ?_⟩
  have hsz : (objFrame 12 0 body).toArray.size ≤ 2147483647 := by
    have : serialize id sample = .ok body := h1
    have hb : body.length ≤ 200 := by
      have e : (match serialize id sample with | .ok b => decide (b.length ≤ 200) | _ => false) = true := by decide +kernel
      rw [this] at e; simpa using e
    simp [objFrame, fmtNat, natDigitsAux, kwObj, kwEndobj]; omega
  have := h2 hsz [] [] 1000 (by simp) (by decide)
  simpa using this

/-- the framed serialisation of `sample` is read back as `sample` by the model (evaluated by the kernel) -/
example :
    (match serialize id sample with
     | .ok body =>
       (match parseIndirectObject txtEnv (objFrame 12 0 body).toArray 400 0 Flags.any with
        | .ok (((12, 0), v), p) => p + 1 == (objFrame 12 0 body).length &&
            (match v with
             | .dict [(_, .arr [.int 5, .str [97, 40, 98], .name [120, 32, 121], .ref 3 0, .real [50, 46, 53], .real [55]]),
                      (_, .dict [])] => true
             | _ => false)
        | _ => false)
     | _ => false) = true := by decide +kernel


/-- `[ <stream /Length 3, data "abc"> 7 ]`: a stream object nested inside an array -/
def nested : Prim (List UInt8) :=
  .arr [.stream [([76, 101, 110, 103, 116, 104], .int 3)] (.pending [97, 98, 99]), .int 7]

theorem nested_storable : Storable id txtEnv nested ∧ WF nested ∧ vdepth nested ≤ maxDepth := by
  refine ⟨?_, ?_, by decide⟩
  · simp only [nested, Storable, StorableL, StorableE, and_true]
    refine ⟨⟨[97, 98, 99], rfl, by decide, Or.inl ?_⟩, by decide, by decide⟩
    simp [dictGet, kwLength]
  · simp [nested, WF, WFL, WFE, keysOf, utf8Valid]

/-- the full theorem applies to it: read back from its frame, the array holds the stream of object `12 0` with the
    same dictionary, a `file_range` of three bytes that are `abc`, and the integer 7 -/
example : ∃ body p, serialize id nested = .ok body ∧
    parseIndirectObject txtEnv (objFrame 12 0 body).toArray 1000 0 Flags.any =
      .ok (((12, 0), p), (objFrame 12 0 body).length - 1) ∧
    PdfSyntax.Reads txtEnv (objFrame 12 0 body).toArray (12, 0) p nested := by
  obtain ⟨body, h1, h2⟩ := parse_serialize_full _ txtEnv id nested 12 0 rfl nested_storable.1 nested_storable.2.1
    nested_storable.2.2 (by decide) (by decide)
  have hb : body.length ≤ 200 := by
    have e : (match serialize id nested with | .ok b => decide (b.length ≤ 200) | _ => false) = true := by decide +kernel
    rw [h1] at e; simpa using e
  have hsz : (objFrame 12 0 body).toArray.size ≤ 2147483647 := by
    simp [objFrame, fmtNat, natDigitsAux, kwObj, kwEndobj]; omega
  obtain ⟨p, hp, hr⟩ := h2 (objFrame 12 0 body).toArray [] [] 1000 hsz (by simp) (by decide)
  exact ⟨body, p, h1, by simpa using hp, hr⟩

/-- and the model computes exactly that (kernel evaluation): `[<<\n/Length 3\n>>\nstream\nabc\nendstream\n 7]` -/
example :
    (match serialize id nested with
     | .ok body =>
       (match parseIndirectObject txtEnv (objFrame 12 0 body).toArray 400 0 Flags.any with
        | .ok (((12, 0), .arr [.stream [(_, .int 3)] (.inFile 12 0 lo hi), .int 7]), _) =>
            slice (objFrame 12 0 body).toArray lo hi == [97, 98, 99]
        | _ => false)
     | _ => false) = true := by decide +kernel

end C04

/-! ## Tie to the source: constants and byte classes (appended by the translator package)

`Generated/Lexical.lean` is re-extracted from `pdf/src` by `./check` before this file is built. -/

namespace C04

/-- the bytes `serialize_name` writes verbatim (all others become `#xx`) are the ones of the source, and so are the delimiters the reader splits names at -/
theorem constants_match_source :
    ((List.range 256).filter (fun n => PdfLex.nameVerbatim (UInt8.ofNat n)) =
      (List.range 256).filter (fun n => decide (Generated.nameVerbatimLo ≤ n) && decide (n ≤ Generated.nameVerbatimHi)
        && !Generated.nameVerbatimExcept.contains n)) ∧
    ((List.range 256).filter (fun n => PdfLex.isDelimiter (UInt8.ofNat n)) = Generated.lexDelimiters) := by
  refine ⟨?_, ?_⟩
  · first | decide +kernel | fail "constants_match_source (C04): the model's PdfLex.nameVerbatim does not match the source (Generated.nameVerbatimExcept, Generated.nameVerbatimHi, Generated.nameVerbatimLo, re-extracted from pdf/src)"
  · first | decide +kernel | fail "constants_match_source (C04): the model's PdfLex.isDelimiter does not match the source (Generated.lexDelimiters, re-extracted from pdf/src)"

end C04
