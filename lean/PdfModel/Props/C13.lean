import PdfModel.Lemmas.ConcurrentLive
import PdfModel.Lemmas.ConcurrentLazyLive
import PdfModel.Lemmas.ConcurrentLocks
import PdfModel.Props.C12

/-!
# C13 — concurrent readers get the answers sequential readers would

Model: `Model/Concurrent.lean`, a transition system whose atomic steps are exactly the critical sections
of `StorageResolver::get` (recursion guard push / pop) and of `SyncCache::get` (lookup-or-claim, store,
wake-up), for any number of threads, any number of calls per thread, any document (`Cache.Doc`: typed
loads are arbitrary programs that call back into the resolver) and every schedule (`Reachable` is the
reflexive-transitive closure of "some thread takes its next step"). Two cache configurations (`objCache`
on / off, `stmCache` on / off); the recursion guard of the code under test is one stack per thread
(`sharedGuard = false`), which is also the situation of threads that use a resolver each.

Proved, for every reachable state of every schedule:

* `guard_is_own_loads`, `no_spurious_recursive` — a thread's guard holds exactly the references of its own
  unfinished loads, so "Recursive reference" is reported only for a reference the same thread is itself in
  the middle of loading (any document); on a document with well-founded typed loads it is never reported.
* `no_pop_assert_failure` — the `assert_eq!(chain.pop(), Some(key))` of the drop guard never fails, no
  thread panics, no lock is poisoned (any document).
* `results_sequential` — on a document with well-founded typed loads every completed call of every thread
  returned `canon (ans …)`, which by C12 (`Cache.outputs_spec_partial`) is what the same calls return when
  the thread runs alone without caches (`results_sequential_run`).
* `deadlock_free_of_acyclic` — on such a document a state in which somebody is not finished always has an
  enabled thread: no deadlock (stretch goal; wait-for edges descend in rank).

Second layer (`Model/ConcurrentLazy.lean`, last section of this file): the once-initialised fields of shared typed
objects (`Lazy<T>::load` = `OnceCell::get_or_try_init`; cell = empty | loading(by) | full), whose initialisers call
back into the system above. `lazy_no_panic`, `lazy_answers_lone_caller`, `lazy_cell_value` / `lazy_cell_set_once` /
`lazy_one_initialiser` (at most one initialisation visible), `lazy_deadlock_free`, `generated_lazy`; counter-example
for the check / initialise outside / `set().expect()` variant: `lazy_racy_panics`.

Third layer (`Model/ConcurrentLocks.lean`, last section of this file): the callbacks into user code (`Log::log_get`,
`Log::load_object`; `Cfg.cb`) as steps of their own and the mutexes of `get` made explicit (lock / body + unlock).
`callback_holds_no_mutex`, `mutex_holder_can_move`, `mutex_wait_is_short`, `locks_refine`, `deadlock_only_in_user_code`;
counter-example for `log_get` under the chain mutex: `log_under_lock_deadlocks`.

Not true of the code, kept as `C13_full` with counter-examples: with *cyclic* typed loads two threads
that enter the cycle at different objects wait for each other's in-process marker for ever (D30, open;
`d30_deadlock`). The guard before the repair of D29 (one stack for all threads of a resolver) is kept as
`sharedGuard = true` with the counter-example traces `d29_pop_assertion_fails`, `d29_spurious_recursive`.

Silent assumptions of the progress theorems (`deadlock_free_of_acyclic`, `lazy_deadlock_free`,
`deadlock_only_in_user_code`), named in their docstrings: typed loads do not panic (`Cache.Prog` has no panic outcome; in
`globalcache` a panicking compute leaves its in-process marker behind and later `get`s of that key block), and the object
cache starts without in-process markers. Every theorem for well-founded documents carries the nesting bound
`N ≤ maxNestedGets = 64` (`hN`, `hD`; generated documents: `d.objs.length + 2 ≤ 64`), also named per theorem.
`no_lock_poisoned` states the poison half of `no_pop_assert_failure`; its flag conjunct holds by construction of the
per-thread-guard branch, the content is `anyPanic = false`.

What lives in the runtime and is not exhibited by this model: memory ordering of the real locks, the inside of
`once_cell` (its waiter queue and wake-ups), the real condvar (spurious wake-ups are harmless: `poll` re-checks), OS scheduling and fairness (the theorems
are safety and deadlock-freedom statements; they say nothing about starvation).
-/

namespace Conc
open Cache
variable {V E : Type}

/-- **Guard = own loads.** In every reachable state (any document, any schedule, own guard stacks) the
    guard of every thread is the list of the references that thread is itself loading, innermost first. -/
theorem guard_is_own_loads {d : Doc V E} {cfg : Cfg} (hg : cfg.sharedGuard = false)
    (slots : List (Nat × Slot V E)) (stm : List (Nat × Res V E)) (css : List (List (Prog V E)))
    {s : State V E} (hr : Reachable d cfg (State.init slots stm css) s)
    (i : Nat) (t : Thread V E) (ht : s.threads[i]? = some t) :
    t.chain = ctlKeys t.ctl ++ keys t.stack :=
  (reachable_allChainOK hg (init_allChainOK slots stm css) hr i t ht).1

/-- **No spurious "Recursive reference".** When a thread arrives at the guard check of `get::<T>(r)` and
    finds `r` on its guard, then `r` is one of that thread's own unfinished loads (a genuine recursion,
    which the same calls run alone would hit too) — never a load of another thread. -/
theorem no_spurious_recursive {d : Doc V E} {cfg : Cfg} (hg : cfg.sharedGuard = false)
    (slots : List (Nat × Slot V E)) (stm : List (Nat × Res V E)) (css : List (List (Prog V E)))
    {s : State V E} (hr : Reachable d cfg (State.init slots stm css) s)
    (i : Nat) (t : Thread V E) (ht : s.threads[i]? = some t)
    (T r : Nat) (k : Res V E → Prog V E) (hc : t.ctl = .enter T r k) (hin : r ∈ t.chain) :
    ∃ f ∈ t.stack, f.r = r := by
  have h := guard_is_own_loads hg slots stm css hr i t ht
  rw [h, hc] at hin
  simpa [ctlKeys, keys] using hin

/-- **No panic, no failed pop assertion.** The statement is `anyPanic = false`: no thread is at `Ctl.panicked`, which
    is where the model sends a thread whose `assert_eq!(chain.pop(), Some(key))` fails. That no lock is poisoned is the
    separate corollary `no_lock_poisoned` below. -/
theorem no_pop_assert_failure {d : Doc V E} {cfg : Cfg} (hg : cfg.sharedGuard = false)
    (slots : List (Nat × Slot V E)) (stm : List (Nat × Res V E)) (css : List (List (Prog V E)))
    {s : State V E} (hr : Reachable d cfg (State.init slots stm css) s) :
    s.anyPanic = false := by
  have h := reachable_allChainOK hg (init_allChainOK slots stm css) hr
  simp only [State.anyPanic, Bool.eq_false_iff, ne_eq, List.any_eq_true, not_exists, not_and]
  intro t ht
  obtain ⟨i, hi, rfl⟩ := List.getElem_of_mem ht
  have := (h i _ (List.getElem?_eq_getElem hi)).2
  cases hc : s.threads[i].ctl <;> simp_all [Ctl.isPanicked]

/-! ### the poisoned flag -/

theorem advP_poisoned (d : Doc V E) (cfg : Cfg) : ∀ (p : Prog V E) (sh : Shared V E), (advP d cfg sh p).2.poisoned = sh.poisoned := by
  intro p
  induction p with
  | ret x => intro sh; rfl
  | get T r k _ => intro sh; rfl
  | data r fs k ih =>
    intro sh
    simp only [advP]
    rw [ih]
    unfold dataS
    split
    · split <;> rfl
    · rfl

theorem runTo_poisoned (d : Doc V E) (cfg : Cfg) (sh : Shared V E) (t : Thread V E) (p : Prog V E) :
    (runTo d cfg sh t p).1.poisoned = sh.poisoned := advP_poisoned d cfg p sh

theorem startLoad_poisoned (d : Doc V E) (cfg : Cfg) (sh : Shared V E) (t : Thread V E) (r : Nat) (p : Prog V E) :
    (startLoad d cfg sh t r p).1.poisoned = sh.poisoned := by
  unfold startLoad
  split
  · rfl
  · exact runTo_poisoned d cfg sh t p

theorem afterLookup_poisoned (d : Doc V E) (cfg : Cfg) (sh : Shared V E) (t : Thread V E) (T r : Nat) (k : Res V E → Prog V E)
    (T' : Nat) (res : Res V E) : (afterLookup d cfg sh t T r k T' res).1.poisoned = sh.poisoned := by
  unfold afterLookup
  cases res with
  | ok v =>
    simp only
    split
    · rfl
    · exact startLoad_poisoned d cfg sh _ _ _
  | err e => exact startLoad_poisoned d cfg sh _ _ _
  | oof => exact startLoad_poisoned d cfg sh _ _ _

/-- with one guard stack per thread no step writes the poisoned flag -/
theorem stepT_poisoned {d : Doc V E} {cfg : Cfg} (hg : cfg.sharedGuard = false) {i : Nat} {sh sh' : Shared V E}
    {t t' : Thread V E} (hs : stepT d cfg i sh t = some (sh', t')) : sh'.poisoned = sh.poisoned := by
  obtain ⟨ctl, stack, chain, todo, out⟩ := t
  have fin : ∀ (x : Shared V E × Thread V E), some x = some (sh', t') → x.1.poisoned = sh.poisoned → sh'.poisoned = sh.poisoned := by
    intro x hx h
    simp only [Option.some.injEq] at hx
    subst hx
    exact h
  cases ctl with
  | done => simp [stepT] at hs
  | panicked => simp [stepT] at hs
  | start =>
    cases todo with
    | nil => simp only [stepT] at hs; exact fin _ hs rfl
    | cons p ps => simp only [stepT] at hs; exact fin _ hs (runTo_poisoned d cfg sh _ p)
  | logging T r k => simp only [stepT] at hs; exact fin _ hs rfl
  | loading r p => simp only [stepT] at hs; exact fin _ hs (runTo_poisoned d cfg sh _ p)
  | enter T r k =>
    simp only [stepT, hg, Bool.false_eq_true, if_false] at hs
    split at hs
    · exact fin _ hs (runTo_poisoned d cfg sh _ _)
    · split at hs
      · exact fin _ hs (runTo_poisoned d cfg sh _ _)
      · exact fin _ hs rfl
  | pushed T r k =>
    simp only [stepT] at hs
    split at hs
    · split at hs
      · exact fin _ hs (startLoad_poisoned d cfg _ _ _ _)
      · exact fin _ hs rfl
      · exact fin _ hs (afterLookup_poisoned d cfg sh _ T r k _ _)
    · exact fin _ hs (startLoad_poisoned d cfg sh _ _ _)
  | waiting T r k =>
    simp only [stepT] at hs
    split at hs
    · exact fin _ hs (afterLookup_poisoned d cfg sh _ T r k _ _)
    · simp at hs
  | storing res =>
    cases stack with
    | nil => simp [stepT] at hs
    | cons g rest => simp only [stepT] at hs; exact fin _ hs rfl
  | popping T r k res =>
    simp only [stepT, hg, Bool.false_eq_true, if_false] at hs
    split at hs
    · split at hs
      · exact fin _ hs (runTo_poisoned d cfg sh _ _)
      · exact fin _ hs rfl
    · exact fin _ hs rfl

/-- **No lock is poisoned** (the corollary the name of `no_pop_assert_failure` promised). In the system with one guard
    stack per thread (`sharedGuard = false`) the flag `Shared.poisoned` stays `false`, and nobody has panicked. Read with
    care: the first conjunct holds *by construction* of that branch of the model — only the old shared-guard branch ever
    writes the flag (`d29_pop_assertion_fails` shows it written there). What carries the content is the second conjunct,
    `anyPanic = false`, i.e. `no_pop_assert_failure`: a `std::sync::Mutex` is poisoned exactly when a thread panics while
    holding it, the only panic site inside a critical section of `get` is the pop assertion, and that assertion never
    fails. Panics raised by the typed loads themselves are outside the model (`Cache.Prog` has no panic outcome). -/
theorem no_lock_poisoned {d : Doc V E} {cfg : Cfg} (hg : cfg.sharedGuard = false)
    (slots : List (Nat × Slot V E)) (stm : List (Nat × Res V E)) (css : List (List (Prog V E)))
    {s : State V E} (hr : Reachable d cfg (State.init slots stm css) s) :
    s.sh.poisoned = false ∧ s.anyPanic = false := by
  refine ⟨?_, no_pop_assert_failure hg slots stm css hr⟩
  induction hr with
  | init => rfl
  | @step s1 s2 i _ hs ih =>
    unfold step at hs
    cases hti : s1.threads[i]? with
    | none => simp [hti] at hs
    | some t =>
      simp only [hti] at hs
      cases hst : stepT d cfg i s1.sh t with
      | none => simp [hst] at hs
      | some x =>
        obtain ⟨sh', t'⟩ := x
        simp only [hst, Option.some.injEq] at hs
        subst hs
        simp only
        rw [stepT_poisoned hg hst]
        exact ih

section Acyclic
variable {d : Doc V E} {filt : Nat → List Nat} {rank : Nat → Nat} {N : Nat}

/-- **Sequential answers.** Document with well-founded typed loads, caches initially holding only
    sequential answers (e.g. empty, or filled by opening the file), any schedule: what a thread has
    answered so far are the sequential answers of a prefix of its calls; a finished thread has answered
    all its calls.
    Nesting bound (explicit hypotheses `hN`, `hD`): all ranks are below `N` and `N ≤ maxNestedGets = 64`, i.e. the typed loads of the document nest fewer than 64 deep, so the `MAX_NESTED_GETS` branch of `get` is never taken. For a well-founded document that nests deeper the code answers an error where the unguarded evaluation has a value; this theorem says nothing about it. -/
theorem results_sequential (wf : WF d filt rank) (hN : ∀ r, rank r < N) (hD : N ≤ maxNestedGets) {cfg : Cfg} (hg : cfg.sharedGuard = false)
    (slots : List (Nat × Slot V E)) (stm : List (Nat × Res V E)) (css : List (List (Prog V E)))
    (hsh : SInv d filt (ans d rank) ⟨slots, stm, [], false⟩)
    (hcalls : ∀ cs ∈ css, ∀ p ∈ cs, FineCall filt p)
    {s : State V E} (hr : Reachable d cfg (State.init slots stm css) s)
    (i : Nat) (t : Thread V E) (cs : List (Prog V E)) (ht : s.threads[i]? = some t) (hcs : css[i]? = some cs) :
    (∃ done rest, cs = done ++ rest ∧ t.out = done.map (canon (ans d rank) d)) ∧
      (t.ctl.isFinal = true → t.out = cs.map (canon (ans d rank) d)) := by
  have hcalls' : ∀ cs ∈ css, ∀ p ∈ cs, Fine filt (fun r' => rank r' < N) p :=
    fun cs hc p hp => (hcalls cs hc p hp).mono fun r _ => hN r
  have h := (reachable_GInv wf hN hD hg hcalls' (init_GInv slots stm css hsh) hr).2.2 i t cs ht hcs
  obtain ⟨hch, done, hout, hm⟩ := h
  constructor
  · cases hres : resid t.ctl with
    | none => rw [hres] at hm; exact ⟨done, t.todo, hm.2.1, hout⟩
    | some p => rw [hres] at hm; obtain ⟨cur, hc, _⟩ := hm; exact ⟨done, cur :: t.todo, hc, hout⟩
  · intro hfin
    have hres : resid t.ctl = none := by
      cases hc : t.ctl <;> simp_all [Ctl.isFinal, resid]
    rw [hres] at hm
    rw [hout, hm.2.1, hm.2.2 hfin, List.append_nil]

/-- the same, against the run of C12: a finished thread answered what its calls answer when they are run
    alone, in order, on a freshly opened document without any cache
    Nesting bound (explicit hypotheses `hN`, `hD`): all ranks are below `N` and `N ≤ maxNestedGets = 64`, i.e. the typed loads of the document nest fewer than 64 deep, so the `MAX_NESTED_GETS` branch of `get` is never taken. For a well-founded document that nests deeper the code answers an error where the unguarded evaluation has a value; this theorem says nothing about it. -/
theorem results_sequential_run (wf : WF d filt rank) (hN : ∀ r, rank r < N) (hD : N ≤ maxNestedGets) {cfg : Cfg} (hg : cfg.sharedGuard = false)
    (css : List (List (Prog V E))) (hcalls : ∀ cs ∈ css, ∀ p ∈ cs, FineCall filt p)
    {s : State V E} (hr : Reachable d cfg (State.init [] [] css) s)
    (i : Nat) (t : Thread V E) (cs : List (Prog V E)) (ht : s.threads[i]? = some t) (hcs : css[i]? = some cs)
    (hfin : t.ctl.isFinal = true) (fuel : Nat) (hf : N ≤ fuel) :
    t.out = Cache.outputs d Cache.Cfg.none fuel cs := by
  have hsh : SInv d filt (ans d rank) ⟨[], [], [], false⟩ := by
    constructor <;> intro r <;> simp
  rw [(results_sequential wf hN hD hg [] [] css hsh hcalls hr i t cs ht hcs).2 hfin]
  exact (outputs_spec_partial wf hN hD Cache.Cfg.none rfl fuel hf cs (hcalls cs (List.mem_of_getElem? hcs))).symm

/-- on a document with well-founded typed loads the guard never fires at all
    Nesting bound (explicit hypotheses `hN`, `hD`): all ranks are below `N` and `N ≤ maxNestedGets = 64`, i.e. the typed loads of the document nest fewer than 64 deep, so the `MAX_NESTED_GETS` branch of `get` is never taken. For a well-founded document that nests deeper the code answers an error where the unguarded evaluation has a value; this theorem says nothing about it. -/
theorem no_recursive_error_of_acyclic (wf : WF d filt rank) (hN : ∀ r, rank r < N) (hD : N ≤ maxNestedGets) {cfg : Cfg} (hg : cfg.sharedGuard = false)
    (slots : List (Nat × Slot V E)) (stm : List (Nat × Res V E)) (css : List (List (Prog V E)))
    (hsh : SInv d filt (ans d rank) ⟨slots, stm, [], false⟩)
    (hcalls : ∀ cs ∈ css, ∀ p ∈ cs, FineCall filt p)
    {s : State V E} (hr : Reachable d cfg (State.init slots stm css) s)
    (i : Nat) (t : Thread V E) (cs : List (Prog V E)) (ht : s.threads[i]? = some t) (hcs : css[i]? = some cs)
    (T r : Nat) (k : Res V E → Prog V E) (hc : t.ctl = .enter T r k) : r ∉ t.chain := by
  have hcalls' : ∀ cs ∈ css, ∀ p ∈ cs, Fine filt (fun r' => rank r' < N) p :=
    fun cs hc p hp => (hcalls cs hc p hp).mono fun r _ => hN r
  have h := (reachable_GInv wf hN hD hg hcalls' (init_GInv slots stm css hsh) hr).2.2 i t cs ht hcs
  obtain ⟨⟨hch, _⟩, done, hout, hm⟩ := h
  rw [hc] at hm hch
  simp only [resid] at hm
  obtain ⟨cur, _, hp, hst, _⟩ := hm
  intro hmem
  rw [hch] at hmem
  simp only [ctlKeys, List.nil_append, keys, List.mem_map] at hmem
  obtain ⟨f, hf, rfl⟩ := hmem
  have h1 := stack_ranks hN t.stack _ cur hst f hf
  have h2 := hp.get_inv.1
  omega

/-- **No deadlock (stretch goal).** Document with well-founded typed loads, any number of threads and
    calls, object cache on or off, any schedule: whenever some thread is not finished, some thread can
    take a step. (A waiting thread waits for a slot whose owner is loading something of *smaller* rank, so
    a cycle of waiting threads is impossible; every thread that is not waiting is enabled.)
    Nesting bound (explicit hypotheses `hN`, `hD`): all ranks are below `N` and `N ≤ maxNestedGets = 64`, i.e. the typed loads of the document nest fewer than 64 deep, so the `MAX_NESTED_GETS` branch of `get` is never taken. For a well-founded document that nests deeper the code answers an error where the unguarded evaluation has a value; this theorem says nothing about it.
    Assumption built into the model, not a hypothesis one could discharge: no typed load panics. A load is a `Cache.Prog`, whose only outcomes are a value, an error, or `oof`; a panic inside `T::from_primitive` / `Storage::decode` (compute closure, initialiser) has no counterpart. In the code such a panic unwinds through `SyncCache::get` of `globalcache`, which leaves the in-process marker of that key behind: every later `get` of the key waits for ever. That situation is outside this theorem (totality of the loads is C01 / C14's subject); also outside: the initial object cache holds no in-process marker (`State.init [] …`). -/
theorem deadlock_free_of_acyclic (wf : WF d filt rank) (hN : ∀ r, rank r < N) (hD : N ≤ maxNestedGets) {cfg : Cfg} (hg : cfg.sharedGuard = false)
    (stm : List (Nat × Res V E)) (css : List (List (Prog V E)))
    (hsh : SInv d filt (ans d rank) ⟨[], stm, [], false⟩)
    (hcalls : ∀ cs ∈ css, ∀ p ∈ cs, FineCall filt p)
    {s : State V E} (hr : Reachable d cfg (State.init [] stm css) s) :
    s.deadlocked d cfg = false := by
  have hcalls' : ∀ cs ∈ css, ∀ p ∈ cs, Fine filt (fun r' => rank r' < N) p :=
    fun cs hc p hp => (hcalls cs hc p hp).mono fun r _ => hN r
  obtain ⟨hsi, hlen, hth⟩ := reachable_GInv wf hN hD hg hcalls' (init_GInv [] stm css hsh) hr
  obtain ⟨hown, hwait⟩ := reachable_ownWait (init_ownWait stm css) hr
  -- facts about one thread
  have thr : ∀ (i : Nat) (t : Thread V E), s.threads[i]? = some t → ∃ cs, css[i]? = some cs ∧ ChainOK t ∧
      TInv d filt rank N (ans d rank) cs t := by
    intro i t ht
    have hi : i < css.length := by rw [← hlen]; exact (List.getElem?_eq_some_iff.mp ht).1
    exact ⟨css[i], List.getElem?_eq_getElem hi, hth i t css[i] ht (List.getElem?_eq_getElem hi)⟩
  -- a thread that cannot move is waiting for a slot somebody else has in process
  have stuck : ∀ (i : Nat) (t : Thread V E), s.threads[i]? = some t → t.ctl.isFinal = false → s.enabled d cfg i = false →
      ∃ T r k j, t.ctl = .waiting T r k ∧ s.sh.slots.lookup r = some (.inProcess j) := by
    intro i t ht hfin hen
    obtain ⟨cs, _, _, done, _, hm⟩ := thr i t ht
    have hnone : stepT d cfg i s.sh t = none := by
      simp only [State.enabled, step, ht] at hen
      cases hst : stepT d cfg i s.sh t with
      | none => rfl
      | some p => simp [hst] at hen
    have hstore : ∀ res, t.ctl = .storing res → t.stack ≠ [] := by
      intro res hc
      rw [hc] at hm
      simp only [resid] at hm
      obtain ⟨cur, _, _, _, h4⟩ := hm
      obtain ⟨f, rest, h5, _⟩ := h4 res rfl
      rw [h5]; simp
    cases hc : t.ctl with
    | waiting T r k =>
      cases hl : s.sh.slots.lookup r with
      | none => exact absurd hl (hwait i t T r k ht hc)
      | some sl =>
        cases sl with
        | inProcess j => exact ⟨T, r, k, j, rfl, hl⟩
        | computed T' res =>
          exfalso
          have := stepT_enabled d cfg i s.sh t hfin hstore
            (fun T1 r1 k1 h1 => by rw [hc] at h1; cases h1; exact ⟨T', res, hl⟩)
          rw [hnone] at this; simp at this
    | _ =>
      exfalso
      have := stepT_enabled d cfg i s.sh t hfin hstore (fun T1 r1 k1 h1 => by rw [hc] at h1; cases h1)
      rw [hnone] at this; simp at this
  -- by contradiction: nobody enabled, somebody unfinished
  cases hdl : s.deadlocked d cfg with
  | false => rfl
  | true =>
    exfalso
    simp only [State.deadlocked, Bool.and_eq_true, Bool.not_eq_true', List.all_eq_true, List.mem_range] at hdl
    obtain ⟨hnd, hnone⟩ := hdl
    -- no thread waits for a slot of rank m, by induction on m
    have key : ∀ (m : Nat) (i : Nat) (t : Thread V E) (T r : Nat) (k : Res V E → Prog V E),
        s.threads[i]? = some t → t.ctl = .waiting T r k → rank r = m → False := by
      intro m
      induction m using Nat.strongRecOn with
      | _ m ih =>
        intro i t T r k ht hc hm
        have hi : i < s.threads.length := (List.getElem?_eq_some_iff.mp ht).1
        have hfin : t.ctl.isFinal = false := by rw [hc]; rfl
        obtain ⟨T1, r1, k1, j, hc1, hslot⟩ := stuck i t ht hfin (by simpa using hnone i hi)
        rw [hc] at hc1
        simp only [Ctl.waiting.injEq] at hc1
        obtain ⟨_, rfl, _⟩ := hc1
        -- the owner j has a frame for r and is itself stuck, waiting for something of smaller rank
        obtain ⟨u, hu, f, hf, hfr, _⟩ := hown r j hslot
        have hj : j < s.threads.length := (List.getElem?_eq_some_iff.mp hu).1
        obtain ⟨cs, _, _, done, _, hmu⟩ := thr j u hu
        have hufin : u.ctl.isFinal = false := by
          cases hres : resid u.ctl with
          | none =>
            rw [hres] at hmu
            rw [hmu.1] at hf; simp at hf
          | some p => cases hcu : u.ctl <;> simp_all [resid, Ctl.isFinal]
        obtain ⟨T2, r2, k2, j2, hc2, _⟩ := stuck j u hu hufin (by simpa using hnone j hj)
        rw [hc2] at hmu
        simp only [resid] at hmu
        obtain ⟨cur, _, hp, hst, _⟩ := hmu
        have h1 := stack_ranks hN u.stack _ cur hst f hf
        have h2 := hp.get_inv.1
        exact ih (rank r2) (by rw [← hm, ← hfr]; omega) j u T2 r2 k2 hu hc2 rfl
    -- an unfinished thread exists
    have hex : ∃ t ∈ s.threads, t.ctl.isFinal = false := by
      simpa [State.allDone] using hnd
    obtain ⟨t, htm, hfin⟩ := hex
    obtain ⟨i, hi, rfl⟩ := List.getElem_of_mem htm
    obtain ⟨T, r, k, j, hc, _⟩ := stuck i _ (List.getElem?_eq_getElem hi) hfin (by simpa using hnone i hi)
    exact key (rank r) i _ T r k (List.getElem?_eq_getElem hi) hc rfl

end Acyclic

/-! ## The generated documents of the correspondence check lie in the domain of the theorems -/

/-- threads running the property's call kinds on a generated document that passes the decidable domain
    check `CacheDoc.okRanks` (evaluated by the model driver on every generated case): sequential
    answers and no deadlock, for every schedule
    Nesting bound (explicit hypothesis): `d.objs.length + 2 ≤ maxNestedGets = 64`, i.e. generated documents of at most 62 objects (the generators stay far below); beyond that the `MAX_NESTED_GETS` branch of `get` could be taken and this theorem says nothing. -/
theorem generated_concurrent (d : CacheDoc.Desc) (h : CacheDoc.okRanks d = true)
    (hD : d.objs.length + 2 ≤ maxNestedGets) {cfg : Cfg} (hg : cfg.sharedGuard = false)
    (root : CacheDoc.R) (calls : List (List CacheDoc.CallK))
    {s : State CacheDoc.Val String}
    (hr : Reachable (CacheDoc.toDoc d) cfg (State.init [] [] (calls.map fun cs => cs.map (·.prog d root))) s) :
    s.deadlocked (CacheDoc.toDoc d) cfg = false ∧ s.anyPanic = false ∧
    ∀ (i : Nat) (t : Thread CacheDoc.Val String) (cs : List CacheDoc.CallK), s.threads[i]? = some t → calls[i]? = some cs →
      t.ctl.isFinal = true →
      t.out = Cache.outputs (CacheDoc.toDoc d) Cache.Cfg.none (d.objs.length + 2) (cs.map (·.prog d root)) := by
  have wf := CacheDoc.wf_of_okRanks h
  have hN := CacheDoc.rk_lt d
  have hcalls : ∀ ps ∈ (calls.map fun cs => cs.map (·.prog d root)), ∀ p ∈ ps, FineCall (CacheDoc.filtersOf d) p := by
    intro ps hps p hp
    simp only [List.mem_map] at hps
    obtain ⟨cs, _, rfl⟩ := hps
    simp only [List.mem_map] at hp
    obtain ⟨c, _, rfl⟩ := hp
    exact CacheDoc.callK_fine h root c
  have hsh : SInv (CacheDoc.toDoc d) (CacheDoc.filtersOf d) (ans (CacheDoc.toDoc d) (CacheDoc.rk d)) ⟨[], [], [], false⟩ := by
    constructor <;> intro r <;> simp
  refine ⟨deadlock_free_of_acyclic wf hN hD hg [] _ hsh hcalls hr, no_pop_assert_failure hg [] [] _ hr, ?_⟩
  intro i t cs ht hcs hfin
  exact results_sequential_run wf hN hD hg _ hcalls hr i t _ ht (by simp [hcs]) hfin _ (Nat.le_refl _)

/-! ## Non-vacuity

The document `Cache.demo` of Props/C12 satisfies `WF` (`Cache.demo_wf`: nested loads, a type mismatch, an
error that is swallowed, an error path that resolves again); two threads load its objects through the
object cache and finish with the sequential answers, whichever of two very different schedules is used. -/

example : ∀ cs ∈ [[getCall (V := Nat) (E := Nat) 1 3, getCall 0 1], [getCall 0 2, getCall 1 3]], ∀ p ∈ cs, FineCall demoFilt p := by
  intro cs hcs p hp
  simp only [List.mem_cons, List.mem_nil_iff, or_false] at hcs
  rcases hcs with rfl | rfl <;>
    (simp only [List.mem_cons, List.mem_nil_iff, or_false] at hp
     rcases hp with rfl | rfl <;> exact getCall_fine _ _ _)

example :
    (fun s : State Nat Nat => (s.allDone, s.threads.map (·.out)))
      (runFirst demo ⟨true, true, false, false⟩ 200 (State.init [] [] [[getCall 1 3, getCall 0 1], [getCall 0 2, getCall 1 3]]))
      = (true, [[.ok 201, .err 7], [.ok 0, .ok 201]]) := by decide +kernel

example : outputs demo Cache.Cfg.none 4 [getCall 1 3, getCall 0 1] = [.ok 201, .err 7] ∧
    outputs demo Cache.Cfg.none 4 [getCall 0 2, getCall 1 3] = [.ok 0, .ok 201] := by decide

/-- an interleaved schedule (thread 1 claims object 2 while thread 0 is inside object 3, thread 0 then waits for it) -/
example :
    ((runSched demo ⟨true, true, false, false⟩ (State.init [] [] [[getCall 1 3], [getCall 1 2]])
        [0, 0, 0, 1, 1, 1, 0, 0]).map fun s => s.threads.map fun t => match t.ctl with
          | .waiting _ r _ => r + 100
          | .enter _ r _ => r
          | .pushed _ r _ => r + 10
          | _ => 0) = some [102, 1] := by decide +kernel

/-! ## Counter-example traces -/

/-- leaf objects 6 and 7 (no nested loads), and two objects 8, 9 that load each other -/
def wBody (T r : Nat) : Prog Nat Nat :=
  match r with
  | 8 => .get T 9 fun x => match x with
      | .ok v => .ret (.ok (v + 10))
      | .err _ => .ret (.ok 1)
      | .oof => .ret .oof
  | 9 => .get T 8 fun x => match x with
      | .ok v => .ret (.ok (v + 10))
      | .err _ => .ret (.ok 1)
      | .oof => .ret .oof
  | _ => .ret (.ok (100 + r))

def wDoc : Doc Nat Nat := ⟨wBody, fun _ => .ret (.ok 0), fun _ _ => .ok 0, 5⟩

def oldGuard : Cfg := ⟨false, false, true, false⟩
def newGuard : Cfg := ⟨false, false, false, false⟩
def cached : Cfg := ⟨true, false, false, false⟩

def twoLoads (a b : Nat) : State Nat Nat := State.init [] [] [[getCall 0 a], [getCall 0 b]]

/-- D29 (repaired), first symptom: thread 0 pushes 6, thread 1 pushes 7 on the *shared* stack, thread 0
    finishes first and pops 7: `assert_eq!` fails, the mutex is poisoned. -/
theorem d29_pop_assertion_fails :
    (runSched wDoc oldGuard (twoLoads 6 7) [0, 0, 1, 1, 0, 0]).map State.anyPanic = some true := by decide +kernel

/-- D29, second symptom: both threads load object 6; the second finds it on the shared stack and gets
    "Recursive reference" although it is not loading 6 itself. -/
theorem d29_spurious_recursive :
    ((runSched wDoc oldGuard (twoLoads 6 6) [0, 0, 1, 1]).bind fun s => s.threads[1]?.map (·.out))
      = some [.err 5] := by decide +kernel

/-- with one stack per thread the same schedules are harmless -/
example : (runSched wDoc newGuard (twoLoads 6 7) [0, 0, 1, 1, 0, 0, 1, 1, 0, 1]).map
    (fun s => (s.anyPanic, s.threads.map (·.out))) = some (false, [[.ok 106], [.ok 107]]) := by decide +kernel
example : ((runSched wDoc newGuard (twoLoads 6 6) [0, 0, 1, 1, 1, 1, 0, 0, 0, 1]).map fun s => s.threads.map (·.out))
    = some [[.ok 106], [.ok 106]] := by decide +kernel

/-- D30 (open): thread 0 loads 8, thread 1 loads 9; each claims its slot, then waits for the other's -/
theorem d30_deadlock :
    (runSched wDoc cached (twoLoads 8 9) [0, 0, 1, 1, 0, 1, 0, 1, 0, 1]).map (State.deadlocked wDoc cached) = some true := by
  decide +kernel

/-- The property for every finite document, cyclic typed loads included: no reachable state is a deadlock. -/
def C13_full : Prop :=
  ∀ (d : Doc Nat Nat) (cfg : Cfg), cfg.sharedGuard = false → ∀ (css : List (List (Prog Nat Nat))) (s : State Nat Nat),
    Reachable d cfg (State.init [] [] css) s → s.deadlocked d cfg = false

theorem reachable_of_runSched {d : Doc V E} {cfg : Cfg} : ∀ (sched : List Nat) (s0 s s' : State V E),
    Reachable d cfg s0 s → runSched d cfg s sched = some s' → Reachable d cfg s0 s' := by
  intro sched
  induction sched with
  | nil => intro s0 s s' hr h; simp [runSched] at h; subst h; exact hr
  | cons i is ih =>
    intro s0 s s' hr h
    simp only [runSched] at h
    cases hs : step d cfg s i with
    | none => simp [hs] at h
    | some s1 => simp only [hs] at h; exact ih s0 s1 s' (.step i hr hs) h

/-- **D30 (open).** -/
theorem C13_counterexample : ¬ C13_full := by
  intro h
  cases hrun : runSched wDoc cached (twoLoads 8 9) [0, 0, 1, 1, 0, 1, 0, 1, 0, 1] with
  | none => have := d30_deadlock; simp [hrun] at this
  | some s =>
    have hd := d30_deadlock
    simp only [hrun, Option.map_some, Option.some.injEq] at hd
    have := h wDoc cached rfl _ s (reachable_of_runSched _ _ _ _ .init hrun)
    rw [hd] at this
    exact absurd this (by decide)

end Conc

/-! ## Once-initialised fields of shared typed objects (`Lazy<T>`, `Model/ConcurrentLazy.lean`)

Any number of threads, each with any list of items — ordinary calls, `load`s of shared cells, reads of shared
cells —, every schedule. `racy = false` is `OnceCell::get_or_try_init`; the initialisers are arbitrary programs
that call back into the resolver, so their nested `get`s take the steps of the system above. -/

namespace Conc
open Cache
variable {V E : Type}

section Lazy
variable {d : Doc V E} {filt : Nat → List Nat} {rank : Nat → Nat} {N : Nat} {init : Nat → Prog V E}

/-- the hypotheses shared by the theorems of this section, packed: a reachable state satisfies the invariant
    Nesting bound (explicit hypotheses `hN`, `hD`): all ranks are below `N` and `N ≤ maxNestedGets = 64`, i.e. the typed loads of the document nest fewer than 64 deep, so the `MAX_NESTED_GETS` branch of `get` is never taken. For a well-founded document that nests deeper the code answers an error where the unguarded evaluation has a value; this theorem says nothing about it. -/
theorem lazy_invariant (wf : WF d filt rank) (hN : ∀ r, rank r < N) (hD : N ≤ maxNestedGets) {lc : LCfg}
    (hg : lc.cfg.sharedGuard = false) (hr : lc.racy = false) (hinit : ∀ c, FineCall filt (init c))
    (slots : List (Nat × Slot V E)) (stm : List (Nat × Res V E)) (items : List (List (Item V E)))
    (hsh : SInv d filt (ans d rank) ⟨slots, stm, [], false⟩)
    (hcalls : ∀ its ∈ items, ∀ p, Item.call p ∈ its → FineCall filt p)
    {s : LState V E} (hreach : LReachable d init lc (LState.init slots stm items) s) :
    LInv d filt rank N init items s :=
  reachable_LInv wf hN hD hg hr (fun c => (hinit c).mono fun r _ => hN r)
    (init_LInv slots stm items hsh fun its hi p hp => (hcalls its hi p hp).mono fun r _ => hN r) hreach

/-- **No panic.** The store step of `get_or_try_init` always finds the cell claimed by the storing thread
    itself (the model's store step panics otherwise), and the nested `get`s never fail their pop assertion.
    Nesting bound (explicit hypotheses `hN`, `hD`): all ranks are below `N` and `N ≤ maxNestedGets = 64`, i.e. the typed loads of the document nest fewer than 64 deep, so the `MAX_NESTED_GETS` branch of `get` is never taken. For a well-founded document that nests deeper the code answers an error where the unguarded evaluation has a value; this theorem says nothing about it. -/
theorem lazy_no_panic (wf : WF d filt rank) (hN : ∀ r, rank r < N) (hD : N ≤ maxNestedGets) {lc : LCfg}
    (hg : lc.cfg.sharedGuard = false) (hr : lc.racy = false) (hinit : ∀ c, FineCall filt (init c))
    (slots : List (Nat × Slot V E)) (stm : List (Nat × Res V E)) (items : List (List (Item V E)))
    (hsh : SInv d filt (ans d rank) ⟨slots, stm, [], false⟩)
    (hcalls : ∀ its ∈ items, ∀ p, Item.call p ∈ its → FineCall filt p)
    {s : LState V E} (hreach : LReachable d init lc (LState.init slots stm items) s) :
    s.anyPanic = false := by
  have h := lazy_invariant wf hN hD hg hr hinit slots stm items hsh hcalls hreach
  obtain ⟨css, hG, _, _⟩ := h.inner
  simp only [LState.anyPanic, Bool.or_eq_false_iff]
  constructor
  · simp only [State.anyPanic, Bool.eq_false_iff, ne_eq, List.any_eq_true, not_exists, not_and]
    intro t ht
    obtain ⟨i, hi, rfl⟩ := List.getElem_of_mem ht
    have hi' : i < css.length := by rw [← hG.2.1]; exact hi
    have := (hG.2.2 i _ _ (List.getElem?_eq_getElem hi) (List.getElem?_eq_getElem hi')).1.2
    cases hc : s.inner.threads[i].ctl <;> simp_all [Ctl.isPanicked]
  · simp only [Bool.eq_false_iff, ne_eq, List.any_eq_true, not_exists, not_and]
    intro lt hlt
    obtain ⟨i, hi, rfl⟩ := List.getElem_of_mem hlt
    obtain ⟨_, _, ht⟩ := h.thr i _ (List.getElem?_eq_getElem hi)
    have := ht.nopanic
    cases hc : s.lthreads[i].lctl <;> simp_all

/-- **Every caller gets the value a lone caller would get.** What a thread has answered so far answers a
    prefix of its items: an ordinary call and a `load` of cell `c` answered `canon (ans …)` of the call / of
    the initialiser of `c` (by C12, `lone_caller_value`, the answer on a freshly opened uncached document
    used by nobody else), a read of a cell saw nothing or that value; a finished thread answered all items.
    Nesting bound (explicit hypotheses `hN`, `hD`): all ranks are below `N` and `N ≤ maxNestedGets = 64`, i.e. the typed loads of the document nest fewer than 64 deep, so the `MAX_NESTED_GETS` branch of `get` is never taken. For a well-founded document that nests deeper the code answers an error where the unguarded evaluation has a value; this theorem says nothing about it. -/
theorem lazy_answers_lone_caller (wf : WF d filt rank) (hN : ∀ r, rank r < N) (hD : N ≤ maxNestedGets) {lc : LCfg}
    (hg : lc.cfg.sharedGuard = false) (hr : lc.racy = false) (hinit : ∀ c, FineCall filt (init c))
    (slots : List (Nat × Slot V E)) (stm : List (Nat × Res V E)) (items : List (List (Item V E)))
    (hsh : SInv d filt (ans d rank) ⟨slots, stm, [], false⟩)
    (hcalls : ∀ its ∈ items, ∀ p, Item.call p ∈ its → FineCall filt p)
    {s : LState V E} (hreach : LReachable d init lc (LState.init slots stm items) s)
    (i : Nat) (lt : LThread V E) (its : List (Item V E)) (hlt : s.lthreads[i]? = some lt) (hits : items[i]? = some its) :
    (∃ rest, its = lt.past ++ rest) ∧ Answers (Expected (ans d rank) d init) lt.past lt.out ∧
      (lt.lctl = .finished → lt.past = its) := by
  have h := lazy_invariant wf hN hD hg hr hinit slots stm items hsh hcalls hreach
  obtain ⟨its0, h0, ht⟩ := h.thr i lt hlt
  rw [hits] at h0
  simp only [Option.some.injEq] at h0
  subst h0
  refine ⟨⟨curItems lt.lctl ++ lt.items, by rw [← ht.orig]; simp⟩, ht.answers, ?_⟩
  intro hf
  have := ht.orig
  rw [ht.fin hf, hf] at this
  simpa [curItems] using this

/-- the value of the two theorems above, in terms of C12's run: what the program returns when it is the only
    call on a freshly opened document without caches
    Nesting bound (explicit hypotheses `hN`, `hD`): all ranks are below `N` and `N ≤ maxNestedGets = 64`, i.e. the typed loads of the document nest fewer than 64 deep, so the `MAX_NESTED_GETS` branch of `get` is never taken. For a well-founded document that nests deeper the code answers an error where the unguarded evaluation has a value; this theorem says nothing about it. -/
theorem lone_caller_value (wf : WF d filt rank) (hN : ∀ r, rank r < N) (hD : N ≤ maxNestedGets) (p : Prog V E)
    (hp : FineCall filt p) (fuel : Nat) (hf : N ≤ fuel) :
    Cache.outputs d Cache.Cfg.none fuel [p] = [canon (ans d rank) d p] := by
  rw [outputs_spec_partial wf hN hD Cache.Cfg.none rfl fuel hf [p] (by intro q hq; simp at hq; subst hq; exact hp)]
  rfl

/-- **At most one initialisation visible**, part 1: whatever a cell holds is the lone caller's value …
    Nesting bound (explicit hypotheses `hN`, `hD`): all ranks are below `N` and `N ≤ maxNestedGets = 64`, i.e. the typed loads of the document nest fewer than 64 deep, so the `MAX_NESTED_GETS` branch of `get` is never taken. For a well-founded document that nests deeper the code answers an error where the unguarded evaluation has a value; this theorem says nothing about it. -/
theorem lazy_cell_value (wf : WF d filt rank) (hN : ∀ r, rank r < N) (hD : N ≤ maxNestedGets) {lc : LCfg}
    (hg : lc.cfg.sharedGuard = false) (hr : lc.racy = false) (hinit : ∀ c, FineCall filt (init c))
    (slots : List (Nat × Slot V E)) (stm : List (Nat × Res V E)) (items : List (List (Item V E)))
    (hsh : SInv d filt (ans d rank) ⟨slots, stm, [], false⟩)
    (hcalls : ∀ its ∈ items, ∀ p, Item.call p ∈ its → FineCall filt p)
    {s : LState V E} (hreach : LReachable d init lc (LState.init slots stm items) s)
    (c : Nat) (v : V) (hc : cellOf s.cells c = .full v) : Res.ok v = canon (ans d rank) d (init c) :=
  (lazy_invariant wf hN hD hg hr hinit slots stm items hsh hcalls hreach).cells c v hc

/-- … part 2: a cell that holds a value keeps that very value for ever (any document, no hypotheses) … -/
theorem lazy_cell_set_once {lc : LCfg} (hr : lc.racy = false) {s0 s s' : LState V E}
    (_ : LReachable d init lc s0 s) {i : Nat} (hs : lstep d init lc s i = some s') (c : Nat) (v : V)
    (hc : cellOf s.cells c = .full v) : cellOf s'.cells c = .full v :=
  lstep_full_stable hr hs c v hc

/-- … part 3: a cell under initialisation is claimed by exactly one thread: two different threads are never
    both between the claim and the store of the same cell.
    Nesting bound (explicit hypotheses `hN`, `hD`): all ranks are below `N` and `N ≤ maxNestedGets = 64`, i.e. the typed loads of the document nest fewer than 64 deep, so the `MAX_NESTED_GETS` branch of `get` is never taken. For a well-founded document that nests deeper the code answers an error where the unguarded evaluation has a value; this theorem says nothing about it. -/
theorem lazy_one_initialiser (wf : WF d filt rank) (hN : ∀ r, rank r < N) (hD : N ≤ maxNestedGets) {lc : LCfg}
    (hg : lc.cfg.sharedGuard = false) (hr : lc.racy = false) (hinit : ∀ c, FineCall filt (init c))
    (slots : List (Nat × Slot V E)) (stm : List (Nat × Res V E)) (items : List (List (Item V E)))
    (hsh : SInv d filt (ans d rank) ⟨slots, stm, [], false⟩)
    (hcalls : ∀ its ∈ items, ∀ p, Item.call p ∈ its → FineCall filt p)
    {s : LState V E} (hreach : LReachable d init lc (LState.init slots stm items) s)
    (i j : Nat) (lti ltj : LThread V E) (hi : s.lthreads[i]? = some lti) (hj : s.lthreads[j]? = some ltj)
    (c : Nat) (hci : Claims lti.lctl c) (hcj : Claims ltj.lctl c) : i = j := by
  have h := lazy_invariant wf hN hD hg hr hinit slots stm items hsh hcalls hreach
  have h1 := h.own i lti hi c hci
  have h2 := h.own j ltj hj c hcj
  rw [h1] at h2
  cases h2
  rfl

/-- **No deadlock.** A state in which some thread is not finished has an enabled thread: a thread kept out of a
    cell waits for the thread that initialises it, which is running; a running thread only ever waits for an
    in-process cache slot whose owner is running and waits for a reference of smaller rank. (Object cache
    initially without in-process markers.)
    Nesting bound (explicit hypotheses `hN`, `hD`): all ranks are below `N` and `N ≤ maxNestedGets = 64`, i.e. the typed loads of the document nest fewer than 64 deep, so the `MAX_NESTED_GETS` branch of `get` is never taken. For a well-founded document that nests deeper the code answers an error where the unguarded evaluation has a value; this theorem says nothing about it.
    Assumption built into the model, not a hypothesis one could discharge: no typed load panics. A load is a `Cache.Prog`, whose only outcomes are a value, an error, or `oof`; a panic inside `T::from_primitive` / `Storage::decode` (compute closure, initialiser) has no counterpart. In the code such a panic unwinds through `SyncCache::get` of `globalcache`, which leaves the in-process marker of that key behind: every later `get` of the key waits for ever. That situation is outside this theorem (totality of the loads is C01 / C14's subject); also outside: the initial object cache holds no in-process marker (`State.init [] …`). -/
theorem lazy_deadlock_free (wf : WF d filt rank) (hN : ∀ r, rank r < N) (hD : N ≤ maxNestedGets) {lc : LCfg}
    (hg : lc.cfg.sharedGuard = false) (hr : lc.racy = false) (hinit : ∀ c, FineCall filt (init c))
    (stm : List (Nat × Res V E)) (items : List (List (Item V E)))
    (hsh : SInv d filt (ans d rank) ⟨[], stm, [], false⟩)
    (hcalls : ∀ its ∈ items, ∀ p, Item.call p ∈ its → FineCall filt p)
    {s : LState V E} (hreach : LReachable d init lc (LState.init [] stm items) s) :
    s.deadlocked d init lc = false := by
  have h := reachable_LInv_LLive wf hN hD hg hr (fun c => (hinit c).mono fun r _ => hN r)
    (init_LInv [] stm items hsh fun its hi p hp => (hcalls its hi p hp).mono fun r _ => hN r) (init_LLive stm items) hreach
  exact h.1.not_deadlocked hN hr h.2

end Lazy

/-! ### The generated documents of the lazy streams lie in the domain of these theorems -/

/-- threads running calls, loads and reads of shared `Lazy` cells (annotation arrays given directly, by
    reference, or absent) on a generated document that passes `CacheDoc.okRanks`: no panic, no deadlock, every
    completed item answered as for a lone caller, for every schedule
    Nesting bound (explicit hypothesis): `d.objs.length + 2 ≤ maxNestedGets = 64`, i.e. generated documents of at most 62 objects (the generators stay far below); beyond that the `MAX_NESTED_GETS` branch of `get` could be taken and this theorem says nothing. -/
theorem generated_lazy (d : CacheDoc.Desc) (h : CacheDoc.okRanks d = true)
    (hD : d.objs.length + 2 ≤ maxNestedGets) {lc : LCfg} (hg : lc.cfg.sharedGuard = false) (hr : lc.racy = false)
    (forms : Nat → CacheDoc.CellForm) (items : List (List (Item CacheDoc.Val String)))
    (hcalls : ∀ its ∈ items, ∀ p, Item.call p ∈ its → FineCall (CacheDoc.filtersOf d) p)
    {s : LState CacheDoc.Val String}
    (hreach : LReachable (CacheDoc.toDoc d) (fun c => CacheDoc.lazyInit (forms c)) lc (LState.init [] [] items) s) :
    s.anyPanic = false ∧ s.deadlocked (CacheDoc.toDoc d) (fun c => CacheDoc.lazyInit (forms c)) lc = false ∧
    ∀ (i : Nat) (lt : LThread CacheDoc.Val String) (its : List (Item CacheDoc.Val String)), s.lthreads[i]? = some lt →
      items[i]? = some its →
      Answers (Expected (ans (CacheDoc.toDoc d) (CacheDoc.rk d)) (CacheDoc.toDoc d) fun c => CacheDoc.lazyInit (forms c)) lt.past lt.out ∧
        (lt.lctl = .finished → lt.past = its) := by
  have wf := CacheDoc.wf_of_okRanks h
  have hN := CacheDoc.rk_lt d
  have hsh : SInv (CacheDoc.toDoc d) (CacheDoc.filtersOf d) (ans (CacheDoc.toDoc d) (CacheDoc.rk d)) ⟨[], [], [], false⟩ := by
    constructor <;> intro r <;> simp
  have hinit : ∀ c, FineCall (CacheDoc.filtersOf d) (CacheDoc.lazyInit (forms c)) := fun c => CacheDoc.lazyInit_fine d _
  refine ⟨lazy_no_panic wf hN hD hg hr hinit [] [] items hsh hcalls hreach,
    lazy_deadlock_free wf hN hD hg hr hinit [] items hsh hcalls hreach, ?_⟩
  intro i lt its hlt hits
  exact (lazy_answers_lone_caller wf hN hD hg hr hinit [] [] items hsh hcalls hreach i lt its hlt hits).2

/-! ### Counter-example: check / initialise outside / `set(..).expect(..)`

`racy = true` is `Lazy::load` written as `if let Some(v) = cache.get() { return v }; let v = init()?;
cache.set(v).expect(..)`. Two threads load cell 0 of one shared object (initialiser: `get::<_>(6)`, a leaf of
`wDoc`); both find it empty, both initialise, the second `set` panics. Under `get_or_try_init` the second thread
is not enabled at that point of the same schedule, and every complete schedule ends without panic, both threads
holding the one value. -/

def wInit (_ : Nat) : Prog Nat Nat := getCall 0 6

def twoLazy : LState Nat Nat := LState.init [] [] [[.lazy 0], [.lazy 0]]

theorem lazy_racy_panics :
    (lrunSched wDoc wInit ⟨newGuard, true⟩ twoLazy [0, 0, 0, 0, 0, 1, 1, 1, 1, 1, 0, 1]).map LState.anyPanic = some true := by
  decide +kernel

/-- the same schedule under `get_or_try_init`: thread 1 is blocked at its second step (cell claimed by thread 0) -/
example : (lrunSched wDoc wInit ⟨newGuard, false⟩ twoLazy [0, 0, 0, 0, 0, 1, 1]).isNone = true := by decide +kernel

example : (lrunSched wDoc wInit ⟨newGuard, false⟩ twoLazy [0, 0, 0, 0, 0, 1]).map
    (fun s => (s.enabled wDoc wInit ⟨newGuard, false⟩ 1, s.enabled wDoc wInit ⟨newGuard, false⟩ 0)) = some (false, true) := by
  decide +kernel

/-- … and goes on after the store: both get the one value, nobody panics -/
example : (lrunSched wDoc wInit ⟨newGuard, false⟩ twoLazy [0, 0, 0, 0, 0, 1, 0, 1, 1, 0]).map
    (fun s => (s.anyPanic, s.allDone, s.lthreads.map fun lt => lt.out.map fun o => match o with | .res (.ok v) => v | _ => 0))
      = some (false, true, [[106], [106]]) := by
  decide +kernel

/-- load + read: the reader sees nothing, then the value -/
example : (lrunSched wDoc wInit ⟨cached, false⟩ (LState.init [] [] [[.lazy 0], [.peek 0, .peek 0]]) [0, 0, 1, 0, 0, 0, 0, 0, 0, 1, 1]).map
    (fun s => s.lthreads.map fun lt => lt.out.map fun o => match o with | .res (.ok v) => v | _ => 0)
      = some [[106], [0, 106]] := by
  decide +kernel

/-- the statement of "no panic" without the hypothesis `racy = false` is false -/
theorem lazy_no_panic_needs_once_cell : ¬ ∀ (lc : LCfg), lc.cfg.sharedGuard = false → ∀ s, LReachable wDoc wInit lc twoLazy s → s.anyPanic = false := by
  intro h
  have hrun := lazy_racy_panics
  cases hs : lrunSched wDoc wInit ⟨newGuard, true⟩ twoLazy [0, 0, 0, 0, 0, 1, 1, 1, 1, 1, 0, 1] with
  | none => simp [hs] at hrun
  | some s =>
    simp only [hs, Option.map_some, Option.some.injEq] at hrun
    have hreach : ∀ (sched : List Nat) (s1 s2 : LState Nat Nat), LReachable wDoc wInit ⟨newGuard, true⟩ twoLazy s1 →
        lrunSched wDoc wInit ⟨newGuard, true⟩ s1 sched = some s2 → LReachable wDoc wInit ⟨newGuard, true⟩ twoLazy s2 := by
      intro sched
      induction sched with
      | nil => intro s1 s2 hr h; simp [lrunSched] at h; subst h; exact hr
      | cons i is ih =>
        intro s1 s2 hr h
        simp only [lrunSched] at h
        cases hst : lstep wDoc wInit ⟨newGuard, true⟩ s1 i with
        | none => simp [hst] at h
        | some s3 => simp only [hst] at h; exact ih s3 s2 (.step i hr hst) h
    have := h ⟨newGuard, true⟩ rfl s (hreach _ _ _ .init hs)
    rw [hrun] at this
    exact absurd this (by decide)

end Conc

/-! ## Callbacks into user code and the mutexes of `get` (`Model/ConcurrentLocks.lean`)

`Cfg.cb = true` makes the callbacks into the user's `Log` steps of their own in the system above (`Ctl.logging`:
inside `log_get`; `Ctl.loading`: inside the first `load_object` of a compute / reload run): every theorem above is
about every schedule, so also about schedules that leave a thread inside a callback for as long as they like.
The explicit-lock system splits each critical section into `lock` and `body; unlock`, and lets the user's code
return when it pleases (`gate`). Proved for the code under test (`logUnderLock = false`), any document, any gate: -/

namespace Conc
open Cache
variable {V E : Type}

section Locks
variable {d : Doc V E}

/-- **At every callback into user code the calling thread holds none of the resolver's mutexes** — and, more
    generally, a thread holds a mutex only at a control point whose step takes exactly that mutex. -/
theorem callback_holds_no_mutex {wc : WCfg} (hw : wc.logUnderLock = false) {gate : Nat → State V E → Bool} (s0 : State V E)
    {s : WState V E} (hr : WReachable d wc gate (WState.init s0) s)
    (i : Nat) (t : Thread V E) (ht : s.inner.threads[i]? = some t) (hcb : isCallback t.ctl = true) :
    s.held[i]? = some none := by
  have h := reachable_WInv hw (init_WInv d wc s0) hr
  have hi : i < s.held.length := by rw [h.len]; exact (List.getElem?_eq_some_iff.mp ht).1
  cases hh : s.held[i] with
  | none => rw [List.getElem?_eq_getElem hi, hh]
  | some L =>
    have := (h.holds i t L ht (by rw [List.getElem?_eq_getElem hi, hh])).1
    rw [lockOf_not_callback this] at hcb
    cases hcb

theorem mutex_holder_at_its_section {wc : WCfg} (hw : wc.logUnderLock = false) {gate : Nat → State V E → Bool} (s0 : State V E)
    {s : WState V E} (hr : WReachable d wc gate (WState.init s0) s)
    (i : Nat) (t : Thread V E) (L : Lock) (ht : s.inner.threads[i]? = some t) (hh : s.held[i]? = some (some L)) :
    lockOf wc.cfg t.ctl = some L :=
  ((reachable_WInv hw (init_WInv d wc s0) hr).holds i t L ht hh).1

theorem mutex_exclusive {wc : WCfg} (hw : wc.logUnderLock = false) {gate : Nat → State V E → Bool} (s0 : State V E)
    {s : WState V E} (hr : WReachable d wc gate (WState.init s0) s)
    (i j : Nat) (L : Lock) (hi : s.held[i]? = some (some L)) (hj : s.held[j]? = some (some L)) : i = j :=
  (reachable_WInv hw (init_WInv d wc s0) hr).excl i j L hi hj

/-- **Nobody waits while holding a mutex**: the holder of a mutex can always take its step (body and unlock),
    whatever the user's code and the other threads do. Hence a thread that finds a mutex taken waits for one step
    of a thread that can move (`mutex_wait_is_short`). -/
theorem mutex_holder_can_move {wc : WCfg} (hw : wc.logUnderLock = false) {gate : Nat → State V E → Bool} (s0 : State V E)
    {s : WState V E} (hr : WReachable d wc gate (WState.init s0) s)
    (i : Nat) (L : Lock) (hh : s.held[i]? = some (some L)) : s.enabled d wc gate i = true := by
  have h := reachable_WInv hw (init_WInv d wc s0) hr
  have hi : i < s.inner.threads.length := by rw [← h.len]; exact (List.getElem?_eq_some_iff.mp hh).1
  have ht : s.inner.threads[i]? = some s.inner.threads[i] := List.getElem?_eq_getElem hi
  obtain ⟨h1, h2⟩ := h.holds i _ L ht hh
  unfold WState.enabled wstep
  simp only [ht, hh, Option.isSome_map]
  unfold userStep
  simp [lockOf_not_callback h1, h2]

theorem mutex_wait_is_short {wc : WCfg} (hw : wc.logUnderLock = false) {gate : Nat → State V E → Bool} (s0 : State V E)
    {s : WState V E} (hr : WReachable d wc gate (WState.init s0) s) (L : Lock) (hb : lockFree s.held L = false) :
    ∃ j, s.held[j]? = some (some L) ∧ s.enabled d wc gate j = true := by
  simp only [lockFree, List.all_eq_false] at hb
  obtain ⟨x, hx, hne⟩ := hb
  have hx' : x = some L := by simpa using hne
  subst hx'
  obtain ⟨j, hj, e⟩ := List.getElem_of_mem hx
  have hh : s.held[j]? = some (some L) := by rw [List.getElem?_eq_getElem hj, e]
  exact ⟨j, hh, mutex_holder_can_move hw s0 hr j L hh⟩

/-- the explicit-lock system refines the system above: what is reachable here is reachable there, so all the
    theorems of this file apply to its states (`reachable_inner`) -/
theorem locks_refine {wc : WCfg} {gate : Nat → State V E → Bool} (s0 : State V E) {s : WState V E}
    (hr : WReachable d wc gate (WState.init s0) s) : Reachable d wc.cfg s0 s.inner :=
  reachable_inner hr

end Locks

section LocksAcyclic
variable {d : Doc V E} {filt : Nat → List Nat} {rank : Nat → Nat} {N : Nat}

/-- **The library adds no wait of its own.** On a document with well-founded typed loads, when no thread can
    move although somebody is not finished, then some thread sits inside user code that has not returned
    (a `Log` callback whose gate is closed): the only deadlocks are the user's.
    Nesting bound (explicit hypotheses `hN`, `hD`): all ranks are below `N` and `N ≤ maxNestedGets = 64`, i.e. the typed loads of the document nest fewer than 64 deep, so the `MAX_NESTED_GETS` branch of `get` is never taken. For a well-founded document that nests deeper the code answers an error where the unguarded evaluation has a value; this theorem says nothing about it.
    Assumption built into the model, not a hypothesis one could discharge: no typed load panics. A load is a `Cache.Prog`, whose only outcomes are a value, an error, or `oof`; a panic inside `T::from_primitive` / `Storage::decode` (compute closure, initialiser) has no counterpart. In the code such a panic unwinds through `SyncCache::get` of `globalcache`, which leaves the in-process marker of that key behind: every later `get` of the key waits for ever. That situation is outside this theorem (totality of the loads is C01 / C14's subject); also outside: the initial object cache holds no in-process marker (`State.init [] …`). -/
theorem deadlock_only_in_user_code (wf : WF d filt rank) (hN : ∀ r, rank r < N) (hD : N ≤ maxNestedGets) {wc : WCfg}
    (hg : wc.cfg.sharedGuard = false) (hw : wc.logUnderLock = false) {gate : Nat → State V E → Bool}
    (stm : List (Nat × Res V E)) (css : List (List (Prog V E)))
    (hsh : SInv d filt (ans d rank) ⟨[], stm, [], false⟩)
    (hcalls : ∀ cs ∈ css, ∀ p ∈ cs, FineCall filt p)
    {s : WState V E} (hr : WReachable d wc gate (WState.init (State.init [] stm css)) s)
    (hdl : s.deadlocked d wc gate = true) :
    ∃ i t, s.inner.threads[i]? = some t ∧ isCallback t.ctl = true ∧ gate i s.inner = false := by
  have hin := deadlock_free_of_acyclic wf hN hD hg stm css hsh hcalls (locks_refine _ hr)
  have h := reachable_WInv hw (init_WInv d wc _) hr
  simp only [WState.deadlocked, Bool.and_eq_true, Bool.not_eq_true', List.all_eq_true, List.mem_range] at hdl
  obtain ⟨hnd, hnone⟩ := hdl
  -- some inner thread can take its inner step
  simp only [State.deadlocked, hnd, Bool.not_false, Bool.true_and, List.all_eq_false, List.mem_range] at hin
  obtain ⟨j, hj, hen⟩ := hin
  have hen : (step d wc.cfg s.inner j).isSome = true := by
    cases hst : step d wc.cfg s.inner j with
    | none => simp [State.enabled, hst] at hen
    | some x => rfl
  have htj : s.inner.threads[j]? = some s.inner.threads[j] := List.getElem?_eq_getElem hj
  have hjh : j < s.held.length := by rw [h.len]; exact hj
  have hblocked := hnone j hj
  cases hh : s.held[j] with
  | some L =>
    have := mutex_holder_can_move hw _ hr j L (by rw [List.getElem?_eq_getElem hjh, hh])
    rw [hblocked] at this; cases this
  | none =>
    have hhj : s.held[j]? = some none := by rw [List.getElem?_eq_getElem hjh, hh]
    cases hlo : lockOf wc.cfg s.inner.threads[j].ctl with
    | none =>
      -- no mutex needed: only the user's gate can hold the thread
      simp only [WState.enabled, wstep, htj, hhj, wlockOf_eq hw, hlo, Option.isSome_map, userStep] at hblocked
      by_cases hc : (isCallback s.inner.threads[j].ctl && !gate j s.inner) = true
      · simp only [Bool.and_eq_true, Bool.not_eq_true'] at hc
        exact ⟨j, _, htj, hc.1, hc.2⟩
      · simp only [hc, Bool.false_eq_true, if_false] at hblocked
        rw [hen] at hblocked; cases hblocked
    | some L =>
      simp only [WState.enabled, wstep, htj, hhj, wlockOf_eq hw, hlo, hen, Bool.and_true] at hblocked
      cases hf : lockFree s.held L with
      | true => simp [hf] at hblocked
      | false =>
        obtain ⟨k, hk, hke⟩ := mutex_wait_is_short hw _ hr L hf
        have hkl : k < s.inner.threads.length := by rw [← h.len]; exact (List.getElem?_eq_some_iff.mp hk).1
        rw [hnone k hkl] at hke; cases hke

end LocksAcyclic

/-! ### Counter-example: `log_get` inside the block that holds the chain mutex

Two threads share a resolver; the user's `log_get` of thread 0 waits until thread 1 has answered its call (for
instance: a progress display that wants the first result before it logs anything more). With `log_get` under the
chain mutex thread 1 can never enter its `get`: nobody can move. With the code under test thread 1 runs its whole
`get` while thread 0 is parked in its callback, then the gate opens and thread 0 finishes too. -/

def cbGuard : Cfg := ⟨false, false, false, true⟩

/-- thread 0's callbacks return once thread 1 has an answer; the others' at once -/
def waitForOther (i : Nat) (s : State Nat Nat) : Bool :=
  i != 0 || (match s.threads[1]? with | some t => !t.out.isEmpty | none => true)

def twoGets : WState Nat Nat := WState.init (State.init [] [] [[getCall 0 6], [getCall 0 7]])

theorem log_under_lock_deadlocks :
    (wrunSched wDoc ⟨cbGuard, true⟩ waitForOther twoGets [0, 0, 1]).map
      (fun s => (s.deadlocked wDoc ⟨cbGuard, true⟩ waitForOther, s.lockAcrossCallback)) = some (true, true) := by
  decide +kernel

/-- the code under test, same beginning: thread 1 is enabled, runs to the end, then thread 0 does -/
example :
    (wrunSched wDoc ⟨cbGuard, false⟩ waitForOther twoGets [0, 1]).map
      (fun s => (s.enabled wDoc ⟨cbGuard, false⟩ waitForOther 0, s.enabled wDoc ⟨cbGuard, false⟩ waitForOther 1, s.lockAcrossCallback))
      = some (false, true, false) := by
  decide +kernel

example :
    (wrunSched wDoc ⟨cbGuard, false⟩ waitForOther twoGets
        [0, 1, 1, 1, 1, 1, 1, 1, 1, 1, 0, 0, 0, 0, 0, 0, 0, 0]).map
      (fun s => (s.inner.allDone, s.inner.anyPanic, s.inner.threads.map (·.out))) = some (true, false, [[.ok 106], [.ok 107]]) := by
  decide +kernel

end Conc
