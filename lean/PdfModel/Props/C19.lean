import PdfModel.Lemmas.Widths
import PdfModel.Lemmas.CMapWrite
import PdfModel.Lemmas.CMapTotal
import PdfModel.Lemmas.CMapSpell
import PdfModel.Lemmas.CMapSpellCheck
import PdfModel.Lemmas.FontEncoding
import PdfModel.Generated.Lexical

/-!
  C19 — "Glyph widths and Unicode maps follow the font dictionaries exactly".

  Widths: `Widths.Widths α` is the table `{values, default, first_char}`, `set` is `_set` with its five growth
  cases, `interp` the /W interpreter of `Font::widths` (after the D33 repairs), `Group`/`render` a well-formed
  /W array, `lastAssign` what such an array assigns to a code.  Width values are opaque (`α`).
  Character maps: `CMap.parseCMap` / `CMap.writeCMap` are `parse_cmap` / `write_cmap` (after the D39 repair) on
  bytes; `CMap.Ent`/`render`/`denote` a conformant bfchar/bfrange program and what the specification says it
  maps.  No hypothesis about third-party code is used.
-/

namespace C19
open Widths

variable {α : Type}

/-- Clause "the width table is an offset vector grown at both ends by insertion order": whatever the table looks
    like (empty, code just past the end, before the start, beyond a gap, inside), setting code `c` changes the
    answer for `c` and for no other code. -/
theorem get_set (w : Widths α) (c : Nat) (x : α) (c' : Nat) :
    (w.set c x).get c' = if c' = c then x else w.get c' := Widths.get_set w c x c'

/-- the `debug_assert_eq!(self.get(cid), width)` at the end of `Widths::set` cannot fire (for a width equal to
    itself, i.e. anything but NaN) -/
theorem get_set_same (w : Widths α) (c : Nat) (x : α) : (w.set c x).get c = x := by
  rw [Widths.get_set]; simp

/-- Clause "for every well-formed composite-font width array (any mix and order of `first [w ...]` and
    `first last w` groups …) and default width, the width reported for every character code is the one the array
    assigns and the default elsewhere" — here for *any* groups, overlapping or not: the last group mentioning a
    code wins; for the disjoint ranges of the property at most one group mentions it. -/
theorem widths_last_assignment (dw cx : α) (gs : List (Group α)) (wf : ∀ g ∈ gs, g.wf = true) :
    ∃ w, cidWidths dw (render cx gs) = .ok w ∧ ∀ c, w.get c = (lastAssign gs c).getD dw := by
  obtain ⟨w, h1, _, h3⟩ := interp_spec cx gs (Widths.new dw) wf
  refine ⟨w, h1, fun c => ?_⟩
  rw [h3 c, assignFrom_eq_lastAssign]
  simp [Widths.new, Widths.get]

/-- "… and the default elsewhere": a code no group covers has the default width -/
theorem widths_uncovered_default (dw cx : α) (gs : List (Group α)) (wf : ∀ g ∈ gs, g.wf = true) (c : Nat)
    (hc : ∀ g ∈ gs, g.covers c = false) :
    ∃ w, cidWidths dw (render cx gs) = .ok w ∧ w.get c = dw := by
  obtain ⟨w, h1, h2⟩ := widths_last_assignment dw cx gs wf
  refine ⟨w, h1, ?_⟩
  rw [h2 c]
  have : lastAssign gs c = none := by
    unfold lastAssign
    rw [List.findSome?_eq_none_iff]
    intro g hg
    have hcov := hc g (List.mem_reverse.mp hg)
    cases g with
    | run c1 r xs =>
      simp only [Group.covers, decide_eq_false_iff_not] at hcov
      simp only [Group.assign]
      split
      · rw [List.getElem?_eq_none (by omega)]; rfl
      · rfl
    | range c1 c2 x =>
      simp only [Group.covers, decide_eq_false_iff_not] at hcov
      simp [Group.assign, hcov]
  simp [this]

/-- "… the one the array assigns": with pairwise disjoint groups, a code covered by group `g` has the width `g`
    gives it, wherever `g` stands in the array -/
theorem widths_disjoint_assigned (dw cx : α) (gs : List (Group α)) (wf : ∀ g ∈ gs, g.wf = true)
    (hd : gs.Pairwise (fun a b => ∀ c, ¬ (a.covers c = true ∧ b.covers c = true)))
    (g : Group α) (hg : g ∈ gs) (c : Nat) (hc : g.covers c = true) :
    ∃ w, cidWidths dw (render cx gs) = .ok w ∧ some (w.get c) = g.assign c := by
  obtain ⟨w, h1, h2⟩ := widths_last_assignment dw cx gs wf
  refine ⟨w, h1, ?_⟩
  rw [h2 c]
  -- a covering well-formed group assigns a value; every other group assigns none
  have assign_none : ∀ g' : Group α, g'.covers c = false → g'.assign c = none := by
    intro g' h
    cases g' with
    | run c1 r xs =>
      simp only [Group.covers, decide_eq_false_iff_not] at h
      simp only [Group.assign]
      split
      · rw [List.getElem?_eq_none (by omega)]; rfl
      · rfl
    | range c1 c2 x =>
      simp only [Group.covers, decide_eq_false_iff_not] at h
      simp [Group.assign, h]
  have assign_some : ∃ v, g.assign c = some v := by
    have hw := wf g hg
    cases g with
    | run c1 r xs =>
      simp only [Group.covers, decide_eq_true_eq] at hc
      simp only [Group.wf, Bool.and_eq_true, List.all_eq_true] at hw
      have hlt : c - c1 < xs.length := by omega
      have hn := hw.2 xs[c - c1] (List.getElem_mem hlt)
      obtain ⟨v, hv⟩ := Option.isSome_iff_exists.mp hn
      exact ⟨v, by simp [Group.assign, hc.1, List.getElem?_eq_getElem hlt, hv]⟩
    | range c1 c2 x =>
      simp only [Group.covers, decide_eq_true_eq] at hc
      simp only [Group.wf, Bool.and_eq_true] at hw
      obtain ⟨v, hv⟩ := Option.isSome_iff_exists.mp hw.2
      exact ⟨v, by simp [Group.assign, hc, hv]⟩
  obtain ⟨v, hv⟩ := assign_some
  have : lastAssign gs c = some v := by
    unfold lastAssign
    clear h1 h2 wf
    induction gs with
    | nil => simp at hg
    | cons a r ih =>
      rw [List.pairwise_cons] at hd
      simp only [List.reverse_cons, List.findSome?_append, List.findSome?_cons, List.findSome?_nil]
      rcases List.mem_cons.mp hg with rfl | hg'
      · -- g is the head: nobody in the tail covers c
        have : r.reverse.findSome? (·.assign c) = none := by
          rw [List.findSome?_eq_none_iff]
          intro g' hg'
          apply assign_none
          have := hd.1 g' (List.mem_reverse.mp hg') c
          cases h : g'.covers c with
          | false => rfl
          | true => exact absurd ⟨hc, h⟩ this
        simp [this, hv]
      · rw [ih hd.2 hg']
        simp
  rw [this, hv]
  rfl

/-- The interpreter returns a table or an error on *every* array (no panic, no unbounded loop): the model-level
    content of the D33 repairs. -/
theorem interp_total (w : Widths α) (items : List (WP α)) : interp w items ≠ .panic ∧ interp w items ≠ .oof := by
  have hrun : ∀ (xs : List (WP α)) (w : Widths α) (c : Nat), setRun w c xs ≠ .panic ∧ setRun w c xs ≠ .oof := by
    intro xs
    induction xs with
    | nil => intro w c; simp [setRun]
    | cons p ps ih =>
      intro w c
      simp only [setRun]
      cases asNumber p with
      | none => simp
      | some x => exact ih _ _
  fun_induction interp w items <;> simp_all
  all_goals first
    | (rename_i h; have := hrun _ _ _; simp_all)
    | skip

/-- Clause "for simple fonts it is the entry at code minus first-character inside the table and the default
    outside" (`FirstChar ≥ 0`; a negative one is cast to a huge `usize`, then every code is "outside"). -/
theorem simple_font_width (zero : α) (first : Nat) (ws : Option (List α)) (c : Nat) :
    (simpleWidths zero (first : Int) ws).get c =
      if first ≤ c then ((ws.getD [])[c - first]?).getD zero else zero := by
  have h : ¬ ((first : Int) < 0) := by omega
  simp only [simpleWidths, h, if_false, Widths.get, Int.toNat_natCast]
  by_cases hc : c < first
  · have : ¬ first ≤ c := by omega
    simp [hc, this]
  · have : first ≤ c := by omega
    simp [hc, this]

theorem simple_font_width_negative (zero : α) (first : Int) (hf : first < 0) (hb : -2147483648 ≤ first)
    (ws : Option (List α)) (c : Nat) (hc : c < 18446744071562067968) :
    (simpleWidths zero first ws).get c = zero := by
  have : c < 18446744073709551616 - first.natAbs := by omega
  simp [simpleWidths, hf, Widths.get, this]

/-- Simple fonts through `Font::widths` with the descriptor's /MissingWidth: inside the table the entry at
    code − FirstChar, outside the table (before FirstChar, after the last entry, or no /Widths at all) the
    /MissingWidth, `0` when the font has no descriptor. (After the `fix:` commit: the table used to default to 0.) -/
theorem simple_font_missing_width (zero : α) (first : Nat) (ws : Option (List α)) (missing : Option α) (c : Nat) :
    ∃ w, widthsOf zero (.simple (some (first : Int)) ws missing) = .ok (some w) ∧
      w.get c = if first ≤ c then ((ws.getD [])[c - first]?).getD (missing.getD zero) else missing.getD zero :=
  ⟨_, rfl, simple_font_width (missing.getD zero) first ws c⟩

/-- What `Font::widths` reports for each of the seven subtypes the library distinguishes: Type1 / TrueType → the
    table above when /FirstChar is present, nothing otherwise; MMType1 / Type3 (kept as raw dictionaries) → nothing;
    Type0 → what its first descendant reports, nothing without a descendant; CIDFontType0 / CIDFontType2 → the /W
    interpreter's table or its error. -/
theorem widths_by_subtype (zero : α) :
    (widthsOf zero (.other : FontM α) = .ok none) ∧
    (∀ ws mw, widthsOf zero (.simple none ws mw : FontM α) = .ok none) ∧
    (widthsOf zero (.type0 [] : FontM α) = .ok none) ∧
    (∀ d ds, widthsOf zero (.type0 (d :: ds) : FontM α) = widthsOf zero d) ∧
    (∀ dw w t, cidWidths dw w = .ok t → widthsOf zero (.cid dw w : FontM α) = .ok (some t)) ∧
    (∀ dw w, cidWidths dw w = .err → widthsOf zero (.cid dw w : FontM α) = .err) := by
  refine ⟨rfl, fun _ _ => rfl, rfl, fun _ _ => rfl, ?_, ?_⟩
  · intro dw w t h; simp [widthsOf, h]
  · intro dw w h; simp [widthsOf, h]

/-- a composite font over a CID font with a well-formed /W array reports exactly what the array assigns -/
theorem type0_widths (zero dw cx : α) (gs : List (Group α)) (wf : ∀ g ∈ gs, g.wf = true) (ds : List (FontM α)) :
    ∃ w, widthsOf zero (.type0 (.cid dw (render cx gs) :: ds)) = .ok (some w) ∧
      ∀ c, w.get c = (lastAssign gs c).getD dw := by
  obtain ⟨w, h1, h2⟩ := widths_last_assignment dw cx gs wf
  exact ⟨w, by simp [widthsOf, h1], h2⟩

/-! ### encoding differences: which glyph name a code of a simple font selects -/

open FontEncoding in
/-- For every well-formed /Differences array — groups `code name₀ name₁ …`, any number and order, overlapping or
    not — the encoding maps `code + i` to `nameᵢ` of the last group mentioning it (and leaves every other code to
    the base encoding). -/
theorem differences_spec {ν : Type} (gs : List (Nat × List ν)) (h : ∀ g ∈ gs, g.1 + g.2.length < 4294967296) :
    ∃ m, readDiffs 0 (renderGroups gs) [] = .ok m ∧
      ∀ code, m.get code = ((groupPairs gs).reverse.find? (·.1 == code)).map (·.2) :=
  ⟨(groupPairs gs).reverse, by simpa using readDiffs_groups gs 0 [] h, fun _ => rfl⟩

open FontEncoding in
/-- `Encoding::to_primitive` then `Encoding::from_primitive`: the /Differences array written for any map (sorted
    entries, codes below 2^32 − 1) reads back as the same map, and the writer's `n + 1` never overflows. -/
theorem differences_roundtrip {ν : Type} (l : List (Nat × ν)) (hs : sortedFrom 0 l) :
    ∃ items m, writeDiffs none l = .ok items ∧ readDiffs 0 items [] = .ok m ∧
      ∀ code, m.get code = (l.find? (·.1 == code)).map (·.2) := by
  obtain ⟨items, h1, h2⟩ := write_read l none 0 [] hs (fun p hp => by cases hp)
  refine ⟨items, l.reverse, h1, by simpa using h2, fun code => ?_⟩
  simp only [DMap.get]
  rw [find_reverse_sorted code l 0 hs]

/-! ### character maps -/

open CMap

/-- Clause "every well-formed map using single-code entries and both range forms assigns each code the text the
    specification defines": the reader on a conformant program yields, for every code, the text of the last
    entry defining it (`denote`), for single codes, string-form ranges (last byte incremented) and array-form
    ranges, BMP and supplementary planes alike. -/
theorem cmap_spec (es : List Ent) (wf : ∀ e ∈ es, e.wf = true) :
    ∃ m, parseCMap (CMap.render none es) = .ok m ∧ ∀ cid, m.get cid = denote es cid :=
  ⟨(pairs es).reverse, parseCMap_render es wf, fun _ => rfl⟩

/-- Clause "every well-formed map using single-code entries and both range forms assigns each code the text the
    specification defines", for *every conformant spelling* of the program, not only the writer's layout:
    any white space (NUL, TAB, LF, FF, CR, SP) and comments between tokens, upper- or lower-case hexadecimal digits
    with white space between them, one- or two-byte codes, any number and order of `beginbfchar` / `beginbfrange`
    blocks, and between the blocks anything made of tokens other than the three keywords the reader reacts to
    (PostScript header and trailer, `begincodespacerange … endcodespacerange`, `usecmap`, counts, dictionaries,
    names, literal strings), up to `endcmap` or the end of the text. Single codes, string-form ranges, array-form
    ranges, supplementary planes (surrogate pairs) and multi-character (ligature) destinations alike. -/
theorem cmap_reads_spelling (es : List Ent) (text : Bytes) (h : CMapSpells es text) :
    ∃ m, parseCMap text = .ok m ∧ ∀ cid, m.get cid = denote es cid :=
  ⟨(pairs es).reverse, parseCMap_spelling h, fun _ => rfl⟩

/-- The domain certificate the driver hands to the harness is sound: the executable recogniser
    `spellsCheck` (run on every conformant CMap text the harness generates, with the entries the generator meant)
    only accepts members of `CMapSpells`, hence texts on which the reader yields `denote`. -/
theorem certificates_sound (es : List Ent) (text : Bytes) (h : spellsCheck es text = true) :
    CMapSpells es text ∧ ∃ m, parseCMap text = .ok m ∧ ∀ cid, m.get cid = denote es cid :=
  ⟨spellsCheck_sound h, cmap_reads_spelling es text (spellsCheck_sound h)⟩

/-- Clause "for every code-to-text map, the character-map text produced by the writer reads back as the same
    map": for the sorted entry list of any map `u16 → Unicode string` (keys strictly increasing below 65536,
    strings of scalar values — BMP or supplementary, empty strings included) `write_cmap` does not overflow its
    `u16` run arithmetic and `parse_cmap` of its text maps every code to exactly the map's text. -/
theorem parse_write_cmap (list : List Entry) (hs : strictFrom 0 list) (hsc : ∀ e ∈ list, e.2.all isScalar = true) :
    ∃ text m, writeCMap list = .ok text ∧ parseCMap text = .ok m ∧
      ∀ cid, m.get cid = (list.find? (·.1 == cid)).map (·.2) := by
  obtain ⟨es, h1, h2, h3⟩ := writeCMap_render list hs hsc
  refine ⟨CMap.render none es, (pairs es).reverse, h1, parseCMap_render es h2, fun cid => ?_⟩
  rw [h3]
  simp only [Map.get]
  rw [find_reverse_sorted cid list 0 hs]

/-- The reader model answers on *every* byte string (a map, `Err`, or "outside the modelled fragment"): every
    step of the lexer, the hexadecimal-string reader, the array loop and the three loops consumes input, so the
    fuel `len + 1` is never the reason for an answer. -/
theorem parse_cmap_total (bs : Bytes) : parseCMap bs ≠ .oof := parseCMap_ne_oof bs

/-! ### non-vacuity and regression examples -/

/-- a program with a single code, a supplementary-plane text (U+1F600), both range forms -/
def exProgram : List Ent :=
  [.char 65535 [0x1F600, 0x41], .rstr 0x10 [[0x41], [0x42]], .rarr 0x20 [[0x61], [0x10FFFF]]]

example : ∀ e ∈ exProgram, e.wf = true := by decide
example : parseCMap (CMap.render none exProgram) =
    .ok [(0x21, [0x10FFFF]), (0x20, [0x61]), (0x11, [0x42]), (0x10, [0x41]), (65535, [0x1F600, 0x41])] := by decide +kernel

/-- a spelling with everything the layout allows: a `%!PS` comment ended by CR, header junk with a dictionary, a
    literal string and names, a codespace range, form feed / NUL / TAB white space, a one-byte code, lower-case
    digits, a space inside a hexadecimal string, a comment between the strings of an entry, two blocks, text after
    `endcmap` -/
def exSpelling : Bytes :=
  "%!PS\r/CIDInit /ProcSet findresource begin << /Registry (Adobe) >> def\n1 begincodespacerange <00> <ffff> endcodespacerange /X usecmap\n2\x0cbeginbfchar\x00<03>\t<00 20>% c <0001>\r<ffff><d83dDE00 0041>endbfchar 2 beginbfrange <0010><0012> % x\n <0041>\n<0020> <0021> [<0061><DBFF dfff>]\rendbfrange\nendcmap x beginbfchar".toUTF8.toList

def exSpellingEntries : List Ent :=
  [.char 3 [0x20], .char 65535 [0x1F600, 0x41], .rstr 0x10 [[0x41], [0x42], [0x43]], .rarr 0x20 [[0x61], [0x10FFFF]]]

theorem exSpelling_certified : spellsCheck exSpellingEntries exSpelling = true := by decide +kernel
/-- hence (no second evaluation) the reader maps every code of that text as the specification says -/
example : ∃ m, parseCMap exSpelling = .ok m ∧ ∀ cid, m.get cid = denote exSpellingEntries cid :=
  (certificates_sound _ _ exSpelling_certified).2
/-- the checker refuses a text that is not a spelling of the entries (here: a wrong destination) -/
example : spellsCheck [.char 3 [0x21]] "1 beginbfchar <03> <0020> endbfchar".toUTF8.toList = false := by decide +kernel

/-- a sorted map with a run at the very end of the code range (no `u16` overflow), singletons and a run -/
def exMap : List Entry := [(1, [0x41]), (2, [0x1F600]), (3, [0x43]), (9, [0x44]), (65534, [0x45]), (65535, [0x46])]
example : strictFrom 0 exMap := by simp [exMap, strictFrom]
example : (match writeCMap exMap with | .ok t => parseCMap t | .panic => .err) = .ok exMap.reverse := by decide +kernel

/-- D39 (repaired): the range form with `", "` between the strings, as `write_cmap` used to write it, is
    unreadable: the reader drops the whole section -/
def d39Text : Bytes :=
  strBfrangeBegin ++ writeCid 1 ++ 32 :: writeCid 2 ++ [32, 91] ++ writeUnicode [0x41] ++ [44, 32] ++ writeUnicode [0x42]
    ++ [93, 10] ++ strBfrangeEnd
example : parseCMap d39Text = .ok [] := by decide +kernel

/-- D33 (repaired): `0 []`, a negative last code, a last code beyond the CID range -/
example : (cidWidths 1000 [.int 0 0, .arr []]).isOk = true := by decide
example : cidWidths 1000 [.int 0 0, .int (-1) 0, .int 500 500] = .err := by decide
example : cidWidths 1000 [.int 0 0, .int 2147483647 0, .int 500 500] = .err := by decide

/-- simple fonts: a table at FirstChar 32 with /MissingWidth 500; no descriptor; MMType1 / Type3 -/
example : (match widthsOf 0 (.simple (some 32) (some [600, 700]) (some 500) : FontM Nat) with
           | .ok (some w) => [w.get 31, w.get 32, w.get 33, w.get 34] | _ => []) = [500, 600, 700, 500] := by decide
example : (match widthsOf 0 (.simple (some 32) (some [600]) none : FontM Nat) with
           | .ok (some w) => [w.get 31, w.get 32, w.get 33] | _ => []) = [0, 600, 0] := by decide
/-- /Differences [39 /quotesingle 96 /grave /a 39 /x]: the later `39` wins -/
example : (match FontEncoding.readDiffs 0 [.int 39, .name "quotesingle", .int 96, .name "grave", .name "a", .int 39, .name "x"] [] with
           | .ok m => [m.get 39, m.get 96, m.get 97, m.get 98] | _ => []) = [some "x", some "grave", some "a", none] := by decide
example : FontEncoding.readDiffs 0 [FontEncoding.DP.int (-1), .name "a"] ([] : FontEncoding.DMap String) = .err := by decide

/-- a /W array in the property's domain, groups out of order, runs and ranges, by reference and in place -/
def exGroups : List (Group Nat) :=
  [.range 100 102 (.int 7 7), .run 3 false [.int 5 5, .real 6], .run 65535 true [.real 9], .run 50 false []]
example : ∀ g ∈ exGroups, g.wf = true := by decide
example : (match cidWidths 1000 (Widths.render 0 exGroups) with
           | .ok w => [w.get 2, w.get 3, w.get 4, w.get 5, w.get 99, w.get 100, w.get 102, w.get 103, w.get 65535]
           | _ => []) = [1000, 5, 6, 1000, 1000, 7, 7, 1000, 9] := by decide +kernel

end C19

/-! ## Tie to the source: constants and byte classes (appended by the translator package)

`Generated/Lexical.lean` is re-extracted from `pdf/src` by `./check` before this file is built. -/

namespace C19

/-- the largest character code of the width table and the lexical classes of the CMap reader are the ones of the source (`MAX_CID`, `is_whitespace`, `is_delimiter`) -/
theorem constants_match_source :
    (Widths.maxCid = Generated.maxCid) ∧
    ((List.range 256).filter (fun n => CMap.isWs (UInt8.ofNat n)) = Generated.lexWhitespace) ∧
    ((List.range 256).filter (fun n => CMap.isDelim (UInt8.ofNat n)) = Generated.lexDelimiters) := by
  refine ⟨?_, ?_, ?_⟩
  · first | decide +kernel | fail "constants_match_source (C19): the model's Widths.maxCid does not match the source (Generated.maxCid, re-extracted from pdf/src)"
  · first | decide +kernel | fail "constants_match_source (C19): the model's CMap.isWs does not match the source (Generated.lexWhitespace, re-extracted from pdf/src)"
  · first | decide +kernel | fail "constants_match_source (C19): the model's CMap.isDelim does not match the source (Generated.lexDelimiters, re-extracted from pdf/src)"

end C19
