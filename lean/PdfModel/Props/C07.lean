import PdfModel.Lemmas.PageTree
import PdfModel.Generated.Lexical
import PdfModel.Lemmas.PageTreeBytes
import PdfModel.Model.PageTreeDerived
import PdfModel.Lemmas.PageTreeDerived
import PdfModel.Lemmas.PageTreeDerivedBoxTrees

/-!
  C07 — "Page n is the n-th leaf of the page tree; attributes come from nearest ancestor".

  `tbl` is the object table of a file, `t` an abstract page tree, `represents tbl none t` says that the table
  holds a well-formed rendering of `t` (typing by /Type, /Kids in order, accurate /Count at every node,
  correct /Parent links; acyclicity is implied because `t` is a finite tree).  No bound on size or fan-out;
  the height bound 16 is the library's depth budget (the property asks for "at least a dozen levels").
  `fuel` only bounds the /Parent chain walked when a node is loaded (any value above the height will do).
-/

namespace C07
open PageTree

/-- Clause "requesting page i returns the i-th leaf in depth-first document order, and any index at or beyond
    the count is an out-of-bounds error": for every well-formed rendering of every tree of height ≤ 16 and
    every index, `get_page` returns exactly the i-th leaf (object number, own attributes, and the loaded
    parent chain equal to the abstract ancestors), or `Err` from the count on. -/
theorem page_nth (tbl : Tbl) (id : Nat) (a : Attrs) (ks : List PTree) (fuel : Nat)
    (wf : represents tbl none (.node id a ks) = true)
    (hh : height (.node id a ks) ≤ 16) (hf : 16 < fuel) (hsz : nLeaves (.node id a ks) < 4294967296) (i : Nat) :
    getPage tbl fuel (rootRec (.node id a ks)) i =
      if h : i < (leavesOf (.node id a ks)).length then .ok ((leavesOf (.node id a ks))[i]) else .err := by
  simp only [represents, Bool.and_eq_true, decide_eq_true_eq] at wf
  simp only [height] at hh
  simp only [nLeaves] at hsz
  have hroot : ChainInv tbl (nodeRec id a ks) [] 0 := chain_root wf.1 hsz
  exact pageLimited_spec 16 id a ks [] 0 hroot wf.2 (by omega) (by omega) hsz i

/-- the catalog's /Pages reference loads as the root record (so `get_page`/`num_pages` start from it) -/
theorem root_loads (tbl : Tbl) (id : Nat) (a : Attrs) (ks : List PTree) (fuel : Nat)
    (wf : represents tbl none (.node id a ks) = true) (hf : 0 < fuel) (hsz : nLeaves (.node id a ks) < 4294967296) :
    loadRoot tbl fuel id = .ok (rootRec (.node id a ks)) := by
  simp only [represents, Bool.and_eq_true, decide_eq_true_eq] at wf
  simp only [nLeaves] at hsz
  have hroot : ChainInv tbl (nodeRec id a ks) [] 0 := chain_root wf.1 hsz
  have := hroot.2 fuel [] hf (by intro x hx; simp at hx)
  simp only [nodeRec] at this
  simp [loadRoot, this, rootRec, nodeRec]

/-- Clause "the reported number of pages equals the number of leaf pages" — **by construction**: `rootRec t` is *defined*
    with the count `nLeaves t`, and `numPages` reads that field, so this is an unfolding (`dfsL_length`), not a fact
    about a file. What carries the content is `root_loads` (the record loaded from a well-formed table *is* `rootRec t`,
    which needs the accurate /Count that `represents` demands) and their composition `num_pages_of_table` below. -/
theorem num_pages_eq_leaves (t : PTree) (hn : isNode t = true) :
    numPages (rootRec t) = (leavesOf t).length := by
  cases t with
  | leaf _ _ => simp [isNode] at hn
  | node id a ks => simp [numPages, rootRec, nodeRec, leavesOf, dfsL_length]

/-- Clause "the reported number of pages equals the number of leaf pages", for a file: the root record loaded from any
    well-formed rendering of the tree reports the number of leaves (composition of `root_loads` and the unfolding above). -/
theorem num_pages_of_table (tbl : Tbl) (id : Nat) (a : Attrs) (ks : List PTree) (fuel : Nat)
    (wf : represents tbl none (.node id a ks) = true) (hf : 0 < fuel) (hsz : nLeaves (.node id a ks) < 4294967296) :
    (loadRoot tbl fuel id).bind (fun r => .ok (numPages r)) = .ok (leavesOf (.node id a ks)).length := by
  rw [root_loads tbl id a ks fuel wf hf hsz, Out.bind_ok, num_pages_eq_leaves _ rfl]

/-- Corollary: every index below `num_pages` is served, every index from `num_pages` on is an error. -/
theorem page_ok_iff_lt_num_pages (tbl : Tbl) (id : Nat) (a : Attrs) (ks : List PTree) (fuel : Nat)
    (wf : represents tbl none (.node id a ks) = true)
    (hh : height (.node id a ks) ≤ 16) (hf : 16 < fuel) (hsz : nLeaves (.node id a ks) < 4294967296) (i : Nat) :
    (getPage tbl fuel (rootRec (.node id a ks)) i).isOk = decide (i < numPages (rootRec (.node id a ks))) := by
  rw [page_nth tbl id a ks fuel wf hh hf hsz i, num_pages_eq_leaves _ rfl]
  by_cases h : i < (leavesOf (.node id a ks)).length <;> simp [h, Out.isOk]

/-- Clause "media box … is its own entry when present and otherwise that of the nearest ancestor that has
    one" (`Err` when nobody has one), for any loaded page. -/
theorem media_box_nearest (l : Leaf) :
    mediaBox l = match nearest (·.mediaBox) l.a (l.parent :: l.anc) with
                 | some b => .ok b
                 | none => .err := by
  simp only [mediaBox, nearest, List.findSome?_cons, inherit_eq_findSome]
  cases l.a.mediaBox <;> rfl

/-- Clause "crop box (falling back to the media box)": own, else nearest ancestor's crop box, else the media
    box (own or inherited). -/
theorem crop_box_nearest (l : Leaf) :
    cropBox l = match nearest (·.cropBox) l.a (l.parent :: l.anc) with
                | some b => .ok b
                | none => mediaBox l := by
  simp only [cropBox, nearest, List.findSome?_cons, inherit_eq_findSome]
  cases l.a.cropBox <;> rfl

/-- Clause "resources": own, else nearest ancestor's. -/
theorem resources_nearest (l : Leaf) :
    resources l = match nearest (·.resources) l.a (l.parent :: l.anc) with
                  | some b => .ok b
                  | none => .err := by
  simp only [resources, nearest, List.findSome?_cons, inherit_eq_findSome]
  cases l.a.resources <;> rfl

/-- End to end: the media box reported for page `i` of a well-formed file is the nearest one along the
    *abstract* ancestors of the i-th leaf (the same holds for crop box and resources by the two theorems
    above, since `page_nth` identifies the whole loaded chain). -/
theorem page_media_box (tbl : Tbl) (id : Nat) (a : Attrs) (ks : List PTree) (fuel : Nat)
    (wf : represents tbl none (.node id a ks) = true)
    (hh : height (.node id a ks) ≤ 16) (hf : 16 < fuel) (hsz : nLeaves (.node id a ks) < 4294967296)
    (i : Nat) (hi : i < (leavesOf (.node id a ks)).length) :
    (getPage tbl fuel (rootRec (.node id a ks)) i).bind mediaBox =
      match nearest (·.mediaBox) ((leavesOf (.node id a ks))[i]).a
              (((leavesOf (.node id a ks))[i]).parent :: ((leavesOf (.node id a ks))[i]).anc) with
      | some b => .ok b
      | none => .err := by
  rw [page_nth tbl id a ks fuel wf hh hf hsz i]
  simp only [hi, dite_true, Out.bind_ok]
  exact media_box_nearest _

/-- Totality of the model on *every* table, well-formed or not (cyclic /Parent or /Kids, dangling references,
    lying counts): with at least as much fuel as there are objects `get_page` never runs out of fuel — the
    recursion guard and the depth budget bound the walk, so `fuel` is never the reason for an answer. -/
theorem get_page_never_out_of_fuel (tbl : Tbl) (keys : List Nat) (hk : ∀ r o, tbl r = some o → r ∈ keys)
    (fuel : Nat) (hf : keys.length ≤ fuel) (root : TreeRec) (n : Nat) : getPage tbl fuel root n ≠ .oof :=
  pageLimited_ne_oof tbl keys hk fuel hf 16 root n

/-! ### Non-vacuity: a concrete file-level table satisfying the hypotheses -/

def noA : Attrs := ⟨none, none, none⟩

/-- a spine of 12 nested /Pages nodes (objects 1..12), each with a leaf before and an empty /Pages node after
    the next level; attributes planted at different levels -/
def spine : Nat → PTree
  | 0 => .node 100 ⟨none, some 7, none⟩ [.leaf 200 noA, .leaf 201 ⟨some 5, none, some 9⟩]
  | n + 1 => .node (n + 1) (if n % 3 = 0 then ⟨some (10 + n), none, some (20 + n)⟩ else noA)
      [.leaf (300 + n) noA, spine n, .node (400 + n) noA [], .leaf (500 + n) ⟨none, some (30 + n), none⟩]

def exTree : PTree := spine 12

mutual
def renderT (parent : Option Nat) : PTree → List (Nat × Obj)
  | .leaf id a => [(id, .page (parent.getD 0) a)]
  | .node id a ks => (id, .pages parent (ks.map PTree.id) (nLeavesL ks) a) :: renderL id ks
def renderL (pid : Nat) : List PTree → List (Nat × Obj)
  | [] => []
  | k :: ks => renderT (some pid) k ++ renderL pid ks
end

def tblOfList (l : List (Nat × Obj)) : Tbl := fun i => (l.find? (·.1 == i)).map (·.2)

def exTbl : Tbl := tblOfList (renderT none exTree)

example : represents exTbl none exTree = true := by decide +kernel
example : height exTree = 13 := by decide +kernel
example : nLeaves exTree = 26 := by decide +kernel
example : (leavesOf exTree).map (·.id) =
    [311, 310, 309, 308, 307, 306, 305, 304, 303, 302, 301, 300, 200, 201,
     500, 501, 502, 503, 504, 505, 506, 507, 508, 509, 510, 511] := by decide +kernel
/-- the model itself, run on the table: page 13 is object 201, whose media box is its own, whose crop box is
    the one of node 100 and page 12 (object 200) takes the media box of the nearest ancestor carrying one (node 1) -/
example : (getPage exTbl 17 (rootRec exTree) 13).bind (fun l => .ok (l.id, mediaBox l, cropBox l, resources l))
    = .ok (201, .ok 5, .ok 7, .ok 9) := by decide +kernel
example : (getPage exTbl 17 (rootRec exTree) 12).bind (fun l => .ok (l.id, mediaBox l, cropBox l, resources l))
    = .ok (200, .ok 10, .ok 7, .ok 20) := by decide +kernel
example : getPage exTbl 17 (rootRec exTree) 26 = .err := by decide +kernel

/-! ### The depth budget is sharp: 16 levels of /Pages nodes are served, a 17th is refused
    (the property asks for "at least a dozen levels"; this documents where the library stops). -/

def chain : Nat → PTree
  | 0 => .leaf 900 noA
  | n + 1 => .node (n + 1) noA [chain n]

example : represents (tblOfList (renderT none (chain 16))) none (chain 16) = true := by decide +kernel
example : (getPage (tblOfList (renderT none (chain 16))) 20 (rootRec (chain 16)) 0).isOk = true := by decide +kernel
example : represents (tblOfList (renderT none (chain 17))) none (chain 17) = true := by decide +kernel
example : getPage (tblOfList (renderT none (chain 17))) 20 (rootRec (chain 17)) 0 = .err := by decide +kernel

end C07

/-! ## Tie to the source: constants and byte classes (appended by the translator package)

`Generated/Lexical.lean` is re-extracted from `pdf/src` by `./check` before this file is built. -/

namespace C07

/-- `PageTree::page` starts `page_limited` with the depth budget of the source (16; the depth-bound theorems and examples above are stated for it) -/
theorem constants_match_source :
    (∀ (tbl : PageTree.Tbl) (fuel : Nat) (self : PageTree.TreeRec) (n : Nat),
      PageTree.page tbl fuel self n = PageTree.pageLimited tbl fuel Generated.pageTreeDepth self n) ∧
    (Generated.pageTreeDepth = 16) := by
  refine ⟨?_, ?_⟩
  · first | ((have _h : Generated.pageTreeDepth = 16 := (by decide +kernel)); intros; rfl) | fail "constants_match_source (C07): the model's PageTree.Tbl, PageTree.TreeRec, PageTree.page, PageTree.pageLimited does not match the source (Generated.pageTreeDepth, re-extracted from pdf/src)"
  · first | decide +kernel | fail "constants_match_source (C07): the model's statement does not match the source (Generated.pageTreeDepth, re-extracted from pdf/src)"

end C07


/-!
## C07 at byte level: the object-table abstraction discharged

`PageTreeB.writeDoc fmt t n` is a *file*: the header line and one revision written by the framework's writer model
(`SaveBytes`: frames `k 0 obj … endobj` with bodies rendered by `Model/Serialize`, cross-reference stream, trailer,
`startxref`) for the objects of the tree `t` — one dictionary per node with /Type, the /Parent link, /Kids in order, the
accurate /Count and the inheritable attributes where `t` places them — under any numbering of the nodes by `1..n`, plus
the catalog `n + 1`. `PageTreeB.getPageB` opens those bytes with the byte-level open path (`OpenBytes.openB`: header,
`startxref`, cross-reference stream, table), follows trailer /Root → catalog /Pages, and runs the page-tree model with
every node obtained by `OpenBytes.resolveB` (the lexer / parser models on the bytes at the object's offset) and the node
reader `nodeOf`.

Hypotheses that remain, all explicit:
* `f32` text only through `fmt` / `env.parseReal` (no real number occurs in these documents: boxes are integers);
  `env.decrypt = none`;
* `NoFilter dec`: object storage is unfiltered (the filter chain — Flate, … — is third-party and never entered);
* the file stays below 2³¹ bytes (`fileMax`, the range of the lexer theorems) and the parser fuel is at least three
  times its length; `n ≤ 1 000 000` objects; markers (the values of the attributes) fit an `i32`;
* height ≤ 16 (the depth budget), fewer than 2³¹ leaves (/Count is written as an `i32`).
Node reader: in this first part `nodeOf`, a hand-written reading of `PagesNode::from_primitive` restricted to the six
keys C07 observes. The generated readers of `PageTree` / `Page` (`Generated/Schemas.lean`) are the subject of the second
part ("the derived readers as node reader"): `page_nth_bytes_partial2` (under `DerivedAgrees`), `…_partial3` (attribute-free
trees) and `…_partial4` (boxes), with `attributes_nearest_bytes_derived`, `media_box_nearest_bytes`,
`crop_box_nearest_bytes`, `resources_nearest_bytes` for the attribute clause. Not discharged there: nodes that carry
/Resources (hypothesis `DerivedAgrees`) and `DefaultZeroEvaluates`; see notes/C07.md.
-/

namespace C07
open PageTree PageTreeB PdfLex OpenBytes SaveBytes RepBytes

variable {R : Type}

/-- **The byte-level statement, for a reader `rd` of page-tree nodes that is fixed before the file**: page `i` of the
    written file is the i-th leaf, the page count is the number of leaves. Note the quantifier order: `rd : Prim R → Obj`
    is chosen first and sees one primitive, not the bytes, so only readers that need nothing but the node's own dictionary
    are instances. `page_nth_bytes_partial` proves it for the hand-written `nodeOf`; `page_nth_bytes_of_reader` for every
    `rd` that agrees with `nodeOf` on the written bodies. The *generated* reader of `Page` is **not** of this form (it
    loads /Parent through the resolver of the opened file), so it is not and cannot be an instance of this `def`: for it
    the statement is `page_nth_bytes_partial2` (reader depending on the opened file, hypothesis `DerivedAgrees`), which
    supersedes this definition, and `…_partial3` / `…_partial4` where that hypothesis is discharged. -/
def C07_bytes_full (rd : Prim R → Obj) : Prop :=
  ∀ (fmt : R → List UInt8) (env : Env R), env.decrypt = none → ∀ (pfuel : Nat)
    (dec : Dict R → List UInt8 → Out (List UInt8)), NoFilter dec → ∀ (id : Nat) (a : Attrs) (ks : List PTree) (n : Nat),
    n ≤ 1000000 → (idsOf (.node id a ks)).Nodup → (∀ x ∈ idsOf (.node id a ks), 1 ≤ x ∧ x ≤ n) →
    markersOK (.node id a ks) = true → height (.node id a ks) ≤ 16 → nLeaves (.node id a ks) ≤ 2147483647 →
    ∀ (bytes : List UInt8), writeDoc fmt (.node id a ks) n = .ok bytes → bytes.length ≤ fileMax → 3 * bytes.length ≤ pfuel →
    ∀ (rfuel lfuel : Nat), 16 < lfuel → ∀ (i : Nat),
    getPageB rd env pfuel dec 2 (rfuel + 2) lfuel bytes i =
      (if h : i < (leavesOf (.node id a ks)).length then .ok ((leavesOf (.node id a ks))[i]) else .err) ∧
    numPagesB rd env pfuel dec 2 (rfuel + 2) lfuel bytes = .ok (leavesOf (.node id a ks)).length

/-- the byte-level statement for every reader that agrees with `nodeOf` on the written bodies -/
theorem page_nth_bytes_for (rd : Prim R → Obj)
    (hrd : ∀ parent (t : PTree), ∀ q ∈ (objsOf parent t : List (Nat × Prim R)), rd q.2 = nodeOf q.2) (fmt : R → List UInt8) (env : Env R) (hd : env.decrypt = none) (pfuel : Nat)
    (dec : Dict R → List UInt8 → Out (List UInt8)) (hdec : NoFilter dec) (id : Nat) (a : Attrs) (ks : List PTree)
    (n : Nat) (hn : n ≤ 1000000) (hnd : (idsOf (.node id a ks)).Nodup)
    (hrange : ∀ x ∈ idsOf (.node id a ks), 1 ≤ x ∧ x ≤ n) (hm : markersOK (.node id a ks) = true)
    (hh : height (.node id a ks) ≤ 16) (hc : nLeaves (.node id a ks) ≤ 2147483647)
    (bytes : List UInt8) (hw : writeDoc fmt (.node id a ks) n = .ok bytes)
    (hsmall : bytes.length ≤ fileMax) (hpf : 3 * bytes.length ≤ pfuel) (rfuel lfuel : Nat) (hl : 16 < lfuel) (i : Nat) :
    getPageB rd env pfuel dec 2 (rfuel + 2) lfuel bytes i =
      (if h : i < (leavesOf (.node id a ks)).length then .ok ((leavesOf (.node id a ks))[i]) else .err) ∧
    numPagesB rd env pfuel dec 2 (rfuel + 2) lfuel bytes = .ok (leavesOf (.node id a ks)).length := by
  -- the save that produced the bytes
  obtain ⟨b', inf, hs, rfl⟩ : ∃ b' inf, saveB fmt true (preparedDoc fmt (.node id a ks) n) = (b', .ok inf) ∧ b'.bytes = bytes := by
    unfold writeDoc at hw
    cases hsv : saveB fmt true (preparedDoc fmt (.node id a ks) n) with
    | mk b' r =>
      rw [hsv] at hw
      cases r with
      | ok inf => simp only [Out.ok.injEq] at hw; exact ⟨b', inf, rfl, hw⟩
      | err => cases hw
      | panic => cases hw
      | oof => cases hw
  obtain ⟨tb, T, hopen, hroot, hcat, hobjs⟩ := written_objects fmt env hd pfuel dec hdec (.node id a ks) n hn hnd hrange hm hc
    b' inf hs hsmall hpf rfuel
  -- trailer → catalog → /Pages
  have hrootOf : rootOf env pfuel dec (rfuel + 2) b'.bytes 0 tb T = .ok id := by
    have e : kRootK = SaveBytes.kRoot := by decide
    simp only [rootOf, e, hroot, hcat, BuildBytes.catalogVal]
    simp [dictGet, BuildBytes.kPagesT, BuildBytes.kVersion, SaveBytes.kType, PTree.id]
  -- the table represents the tree
  have htbl : ∀ q ∈ (objsOf none (.node id a ks) : List (Nat × Prim R)),
      tblB rd env pfuel dec (rfuel + 2) b'.bytes 0 tb q.1 = some (nodeOf q.2) := by
    intro q hq
    simp only [tblB, hobjs q hq, hrd none _ q hq]
  have hrep := represents_of_objs (tblB rd env pfuel dec (rfuel + 2) b'.bytes 0 tb) (.node id a ks) none hm htbl
    (fun _ _ => trivial) rfl
  have hsz : nLeaves (.node id a ks) < 4294967296 := by omega
  have hload := root_loads _ id a ks lfuel hrep (by omega) hsz
  have hpage := page_nth _ id a ks lfuel hrep hh hl hsz i
  have hnum := num_pages_eq_leaves (.node id a ks) rfl
  constructor
  · simp only [getPageB, openPagesB, hopen, hrootOf, hload]
    exact hpage
  · simp only [numPagesB, openPagesB, hopen, hrootOf, hload, hnum]

/-- **Page i of the written file is the i-th leaf — from the bytes**, with the hand-written node reader `nodeOf`. -/
theorem page_nth_bytes_partial : C07_bytes_full (R := R) nodeOf := by
  intro fmt env hd pfuel dec hdec id a ks n hn hnd hrange hm hh hc bytes hw hsmall hpf rfuel lfuel hl i
  exact page_nth_bytes_for nodeOf (fun _ _ _ _ => rfl) fmt env hd pfuel dec hdec id a ks n hn hnd hrange hm hh hc bytes hw
    hsmall hpf rfuel lfuel hl i

/-- `C07_bytes_full rd` for every file-independent reader `rd` that agrees with `nodeOf` on the written bodies (a
    repackaging of `page_nth_bytes_for`). It does not reach the generated `Page` reader, which is file-dependent — see the
    docstring of `C07_bytes_full`; `page_nth_bytes_partial2` is the statement for that reader. -/
theorem page_nth_bytes_of_reader (rd : Prim R → Obj)
    (hrd : ∀ parent (t : PTree), ∀ q ∈ (objsOf parent t : List (Nat × Prim R)), rd q.2 = nodeOf q.2) :
    C07_bytes_full rd := by
  intro fmt env hd pfuel dec hdec id a ks n hn hnd hrange hm hh hc bytes hw hsmall hpf rfuel lfuel hl i
  exact page_nth_bytes_for rd hrd fmt env hd pfuel dec hdec id a ks n hn hnd hrange hm hh hc bytes hw hsmall hpf rfuel lfuel hl i

/-- **Attributes of page i come from the nearest ancestor** — from the bytes, with the hand-written node reader
    `nodeOf` (for the generated readers see `attributes_nearest_bytes_derived`): media box, crop box (falling back to the
    media box) and resources of the page `get_page(i)` returns are the leaf's own value or that of the nearest
    ancestor of the i-th leaf in the tree that was written. -/
theorem attributes_nearest_bytes_partial (fmt : R → List UInt8) (env : Env R) (hd : env.decrypt = none) (pfuel : Nat)
    (dec : Dict R → List UInt8 → Out (List UInt8)) (hdec : NoFilter dec) (id : Nat) (a : Attrs) (ks : List PTree)
    (n : Nat) (hn : n ≤ 1000000) (hnd : (idsOf (.node id a ks)).Nodup)
    (hrange : ∀ x ∈ idsOf (.node id a ks), 1 ≤ x ∧ x ≤ n) (hm : markersOK (.node id a ks) = true)
    (hh : height (.node id a ks) ≤ 16) (hc : nLeaves (.node id a ks) ≤ 2147483647)
    (bytes : List UInt8) (hw : writeDoc fmt (.node id a ks) n = .ok bytes)
    (hsmall : bytes.length ≤ fileMax) (hpf : 3 * bytes.length ≤ pfuel) (rfuel lfuel : Nat) (hl : 16 < lfuel)
    (i : Nat) (hi : i < (leavesOf (.node id a ks)).length) :
    let l := (leavesOf (.node id a ks))[i]
    let pg := getPageB nodeOf env pfuel dec 2 (rfuel + 2) lfuel bytes i
    (pg.bind mediaBox = match nearest (·.mediaBox) l.a (l.parent :: l.anc) with | some b => .ok b | none => .err) ∧
    (pg.bind cropBox = match nearest (·.cropBox) l.a (l.parent :: l.anc) with | some b => .ok b | none => mediaBox l) ∧
    (pg.bind resources = match nearest (·.resources) l.a (l.parent :: l.anc) with | some b => .ok b | none => .err) := by
  have := (page_nth_bytes_partial fmt env hd pfuel dec hdec id a ks n hn hnd hrange hm hh hc bytes hw hsmall hpf rfuel lfuel hl i).1
  simp only [hi, dite_true] at this
  simp only [this, Out.bind_ok]
  exact ⟨media_box_nearest _, crop_box_nearest _, resources_nearest _⟩

/-! ### the derived readers as node reader

`PageTreeB.getPageBD` is the same composition with `PagesNode::from_primitive` read by the *generated* readers:
`Derive.readPagesNode` (the /Type dispatch) over `Generated.generatedSchemas` — `Page` with all its fields, its
`parent: PagesRc` loaded through the resolver (`envD`: `resolveB` on the opened file, primitives translated by `toD`),
`Rectangle` through `baseRd`, `Resources` through its own schema — projected to what C07 observes (`projectNode`).
The driver runs it on every file of the stream `c07.bytes.derived`. -/

/-- **the one obligation left**: on the bodies the writer produced, read in the opened file, the generated readers
    yield the node the hand-written `nodeOf` yields (kids, count, parent, media box, crop box, resources) -/
def DerivedAgrees (bitsOf : R → Nat) (resolve : Nat → Out (Offsets.Obj (Prim R))) (t : PTree) : Prop :=
  ∀ q ∈ (objsOf none t : List (Nat × Prim R)), derivedNode bitsOf resolve q.2 = nodeOf q.2

/-- **Page i of the written file is the i-th leaf — from the bytes, with the generated readers of `Page` / `PageTree`**,
    under the hypothesis `DerivedAgrees` for the opened file (everything else as in `page_nth_bytes_partial`). -/
theorem page_nth_bytes_partial2 (bitsOf : R → Nat) (fmt : R → List UInt8) (env : Env R) (hd : env.decrypt = none)
    (pfuel : Nat) (dec : Dict R → List UInt8 → Out (List UInt8)) (hdec : NoFilter dec) (id : Nat) (a : Attrs)
    (ks : List PTree) (n : Nat) (hn : n ≤ 1000000) (hnd : (idsOf (.node id a ks)).Nodup)
    (hrange : ∀ x ∈ idsOf (.node id a ks), 1 ≤ x ∧ x ≤ n) (hm : markersOK (.node id a ks) = true)
    (hh : height (.node id a ks) ≤ 16) (hc : nLeaves (.node id a ks) ≤ 2147483647)
    (bytes : List UInt8) (hw : writeDoc fmt (.node id a ks) n = .ok bytes)
    (hsmall : bytes.length ≤ fileMax) (hpf : 3 * bytes.length ≤ pfuel) (rfuel lfuel : Nat) (hl : 16 < lfuel)
    (hagree : ∀ tb T, openB env pfuel dec 2 bytes = .ok (0, tb, T) →
      DerivedAgrees bitsOf (resolveB env pfuel dec (rfuel + 2) bytes 0 tb) (.node id a ks)) (i : Nat) :
    getPageBD bitsOf env pfuel dec 2 (rfuel + 2) lfuel bytes i =
      (if h : i < (leavesOf (.node id a ks)).length then .ok ((leavesOf (.node id a ks))[i]) else .err) ∧
    numPagesBD bitsOf env pfuel dec 2 (rfuel + 2) lfuel bytes = .ok (leavesOf (.node id a ks)).length := by
  obtain ⟨b', inf, hs, rfl⟩ : ∃ b' inf, saveB fmt true (preparedDoc fmt (.node id a ks) n) = (b', .ok inf) ∧ b'.bytes = bytes := by
    unfold writeDoc at hw
    cases hsv : saveB fmt true (preparedDoc fmt (.node id a ks) n) with
    | mk b' r =>
      rw [hsv] at hw
      cases r with
      | ok inf => simp only [Out.ok.injEq] at hw; exact ⟨b', inf, rfl, hw⟩
      | err => cases hw
      | panic => cases hw
      | oof => cases hw
  obtain ⟨tb, T, hopen, hroot, hcat, hobjs⟩ := written_objects fmt env hd pfuel dec hdec (.node id a ks) n hn hnd hrange hm hc
    b' inf hs hsmall hpf rfuel
  have hrootOf : rootOf env pfuel dec (rfuel + 2) b'.bytes 0 tb T = .ok id := by
    have e : kRootK = SaveBytes.kRoot := by decide
    simp only [rootOf, e, hroot, hcat, BuildBytes.catalogVal]
    simp [dictGet, BuildBytes.kPagesT, BuildBytes.kVersion, SaveBytes.kType, PTree.id]
  have hag := hagree tb T hopen
  have htbl : ∀ q ∈ (objsOf none (.node id a ks) : List (Nat × Prim R)),
      tblBD bitsOf env pfuel dec (rfuel + 2) b'.bytes 0 tb q.1 = some (nodeOf q.2) := by
    intro q hq
    simp only [tblBD, tblB, hobjs q hq, hag q hq]
  have hrep := represents_of_objs (tblBD bitsOf env pfuel dec (rfuel + 2) b'.bytes 0 tb) (.node id a ks) none hm htbl
    (fun _ _ => trivial) rfl
  have hsz : nLeaves (.node id a ks) < 4294967296 := by omega
  have hload := root_loads _ id a ks lfuel hrep (by omega) hsz
  have hpage := page_nth _ id a ks lfuel hrep hh hl hsz i
  have hnum := num_pages_eq_leaves (.node id a ks) rfl
  constructor
  · simp only [getPageBD, openPagesBD, hopen, hrootOf, hload]
    exact hpage
  · simp only [numPagesBD, openPagesBD, hopen, hrootOf, hload, hnum]

/-- first step of `DerivedAgrees`, for every file: a /Pages node without /Parent and without attributes — the root of
    an attribute-free tree — is read by the generated `PageTree` reader (through the /Type dispatch, at tower level
    `lvl`) as the node `nodeOf` reads: /Kids in order, /Count. What is open beyond it is listed in notes/C07.md. -/
theorem derived_agrees_bare_root (bitsOf : R → Nat) (resolve : Nat → Out (Offsets.Obj (Prim R))) (kids : List Nat)
    (count : Nat) (hc : count ≤ 2147483647) :
    derivedNode bitsOf resolve (nodeVal none kids count ⟨none, none, none⟩ : Prim R) =
      nodeOf (nodeVal none kids count ⟨none, none, none⟩ : Prim R) := by
  rw [derived_bare_root bitsOf resolve kids count hc, nodeOf_nodeVal none kids count _ (by decide)]

/-- **`DerivedAgrees` discharged for attribute-free trees**: on every object of a written tree whose nodes carry no
    inheritable attribute, the generated readers of `PageTree` and `Page` behind the /Type dispatch — every /Parent chain
    loaded through the resolver of the opened file, one tower level per ancestor — yield the node `nodeOf` yields. The only
    hypothesis is `DefaultZeroEvaluates` (the literal default `"0"` of `Page.rotate` evaluates: a fact about the model's
    string functions that the kernel cannot reduce). -/
theorem derived_agrees_attr_free_bytes (bitsOf : R → Nat) (hdf : DefaultZeroEvaluates)
    (resolve : Nat → Out (Offsets.Obj (Prim R))) (t : PTree) (hn : isNode t = true) (hf : attrFree t = true)
    (hh : height t ≤ 16) (hres : ∀ q ∈ (objsOf none t : List (Nat × Prim R)), resolve q.1 = .ok (.plain q.2)) :
    DerivedAgrees bitsOf resolve t :=
  derived_agrees_attr_free bitsOf resolve hdf t hn hf (by omega) hres

/-- **Page i of the written file is the i-th leaf — from the bytes, with the generated readers, for attribute-free
    trees**: no hypothesis about the reader is left except `DefaultZeroEvaluates`. -/
theorem page_nth_bytes_partial3 (bitsOf : R → Nat) (hdf : DefaultZeroEvaluates) (fmt : R → List UInt8) (env : Env R)
    (hd : env.decrypt = none) (pfuel : Nat) (dec : Dict R → List UInt8 → Out (List UInt8)) (hdec : NoFilter dec) (id : Nat)
    (a : Attrs) (ks : List PTree) (n : Nat) (hn : n ≤ 1000000) (hnd : (idsOf (.node id a ks)).Nodup)
    (hrange : ∀ x ∈ idsOf (.node id a ks), 1 ≤ x ∧ x ≤ n) (hfree : attrFree (.node id a ks) = true)
    (hh : height (.node id a ks) ≤ 16) (hc : nLeaves (.node id a ks) ≤ 2147483647)
    (bytes : List UInt8) (hw : writeDoc fmt (.node id a ks) n = .ok bytes)
    (hsmall : bytes.length ≤ fileMax) (hpf : 3 * bytes.length ≤ pfuel) (rfuel lfuel : Nat) (hl : 16 < lfuel) (i : Nat) :
    getPageBD bitsOf env pfuel dec 2 (rfuel + 2) lfuel bytes i =
      (if h : i < (leavesOf (.node id a ks)).length then .ok ((leavesOf (.node id a ks))[i]) else .err) ∧
    numPagesBD bitsOf env pfuel dec 2 (rfuel + 2) lfuel bytes = .ok (leavesOf (.node id a ks)).length := by
  have hm : markersOK (.node id a ks) = true := markersOK_of_attrFree _ hfree
  refine page_nth_bytes_partial2 bitsOf fmt env hd pfuel dec hdec id a ks n hn hnd hrange hm hh hc bytes hw hsmall hpf rfuel lfuel hl ?_ i
  intro tb T hopen
  -- the objects of the written file resolve to their bodies
  obtain ⟨b', inf, hs, rfl⟩ : ∃ b' inf, saveB fmt true (preparedDoc fmt (.node id a ks) n) = (b', .ok inf) ∧ b'.bytes = bytes := by
    unfold writeDoc at hw
    cases hsv : saveB fmt true (preparedDoc fmt (.node id a ks) n) with
    | mk b' r =>
      rw [hsv] at hw
      cases r with
      | ok inf => simp only [Out.ok.injEq] at hw; exact ⟨b', inf, rfl, hw⟩
      | err => cases hw
      | panic => cases hw
      | oof => cases hw
  obtain ⟨tb', T', hopen', _, _, hobjs⟩ := written_objects fmt env hd pfuel dec hdec (.node id a ks) n hn hnd hrange hm hc
    b' inf hs hsmall hpf rfuel
  rw [hopen] at hopen'
  simp only [Out.ok.injEq, Prod.mk.injEq, true_and] at hopen'
  obtain ⟨rfl, _⟩ := hopen'
  exact derived_agrees_attr_free_bytes bitsOf hdf _ (.node id a ks) rfl hfree hh hobjs

/-- the same for trees whose nodes carry media and crop boxes (markers below 2²⁴ so that `Rectangle`'s `f32` entries are
    exact; no /Resources): the `Rectangle` reader, the float conversion and its decoding are all inside the proof. -/
theorem derived_agrees_boxes_bytes (bitsOf : R → Nat) (hdf : DefaultZeroEvaluates)
    (resolve : Nat → Out (Offsets.Obj (Prim R))) (t : PTree) (hn : isNode t = true) (hf : boxOnly t = true)
    (hh : height t ≤ 16) (hres : ∀ q ∈ (objsOf none t : List (Nat × Prim R)), resolve q.1 = .ok (.plain q.2)) :
    DerivedAgrees bitsOf resolve t :=
  derived_agrees_boxes bitsOf resolve hdf t hn hf (by omega) hres

/-- **Page i of the written file is the i-th leaf, with inherited boxes — from the bytes, with the generated readers, for
    trees carrying media and crop boxes** (no /Resources): the only hypothesis left is `DefaultZeroEvaluates`. -/
theorem page_nth_bytes_partial4 (bitsOf : R → Nat) (hdf : DefaultZeroEvaluates) (fmt : R → List UInt8) (env : Env R)
    (hd : env.decrypt = none) (pfuel : Nat) (dec : Dict R → List UInt8 → Out (List UInt8)) (hdec : NoFilter dec) (id : Nat)
    (a : Attrs) (ks : List PTree) (n : Nat) (hn : n ≤ 1000000) (hnd : (idsOf (.node id a ks)).Nodup)
    (hrange : ∀ x ∈ idsOf (.node id a ks), 1 ≤ x ∧ x ≤ n) (hbox : boxOnly (.node id a ks) = true)
    (hh : height (.node id a ks) ≤ 16) (hc : nLeaves (.node id a ks) ≤ 2147483647)
    (bytes : List UInt8) (hw : writeDoc fmt (.node id a ks) n = .ok bytes)
    (hsmall : bytes.length ≤ fileMax) (hpf : 3 * bytes.length ≤ pfuel) (rfuel lfuel : Nat) (hl : 16 < lfuel) (i : Nat) :
    getPageBD bitsOf env pfuel dec 2 (rfuel + 2) lfuel bytes i =
      (if h : i < (leavesOf (.node id a ks)).length then .ok ((leavesOf (.node id a ks))[i]) else .err) ∧
    numPagesBD bitsOf env pfuel dec 2 (rfuel + 2) lfuel bytes = .ok (leavesOf (.node id a ks)).length := by
  have hm : markersOK (.node id a ks) = true := markersOK_of_boxOnly _ hbox
  refine page_nth_bytes_partial2 bitsOf fmt env hd pfuel dec hdec id a ks n hn hnd hrange hm hh hc bytes hw hsmall hpf rfuel lfuel hl ?_ i
  intro tb T hopen
  obtain ⟨b', inf, hs, rfl⟩ : ∃ b' inf, saveB fmt true (preparedDoc fmt (.node id a ks) n) = (b', .ok inf) ∧ b'.bytes = bytes := by
    unfold writeDoc at hw
    cases hsv : saveB fmt true (preparedDoc fmt (.node id a ks) n) with
    | mk b' r =>
      rw [hsv] at hw
      cases r with
      | ok inf => simp only [Out.ok.injEq] at hw; exact ⟨b', inf, rfl, hw⟩
      | err => cases hw
      | panic => cases hw
      | oof => cases hw
  obtain ⟨tb', T', hopen', _, _, hobjs⟩ := written_objects fmt env hd pfuel dec hdec (.node id a ks) n hn hnd hrange hm hc
    b' inf hs hsmall hpf rfuel
  rw [hopen] at hopen'
  simp only [Out.ok.injEq, Prod.mk.injEq, true_and] at hopen'
  obtain ⟨rfl, _⟩ := hopen'
  exact derived_agrees_boxes_bytes bitsOf hdf _ (.node id a ks) rfl hbox hh hobjs

/-- Despite its name this states only that, for `i` below the leaf count, page `i` read from the bytes of such a file by
    the generated readers **is the i-th leaf** (`page_nth_bytes_partial4` with the `if` resolved) — the loaded leaf carries
    its ancestor chain, but no attribute is mentioned in the conclusion. The statements whose conclusion is the nearest
    box are `media_box_nearest_bytes` / `crop_box_nearest_bytes` below (kept under the old name for the merged history). -/
theorem media_box_nearest_bytes_boxes (bitsOf : R → Nat) (hdf : DefaultZeroEvaluates) (fmt : R → List UInt8) (env : Env R)
    (hd : env.decrypt = none) (pfuel : Nat) (dec : Dict R → List UInt8 → Out (List UInt8)) (hdec : NoFilter dec) (id : Nat)
    (a : Attrs) (ks : List PTree) (n : Nat) (hn : n ≤ 1000000) (hnd : (idsOf (.node id a ks)).Nodup)
    (hrange : ∀ x ∈ idsOf (.node id a ks), 1 ≤ x ∧ x ≤ n) (hbox : boxOnly (.node id a ks) = true)
    (hh : height (.node id a ks) ≤ 16) (hc : nLeaves (.node id a ks) ≤ 2147483647)
    (bytes : List UInt8) (hw : writeDoc fmt (.node id a ks) n = .ok bytes)
    (hsmall : bytes.length ≤ fileMax) (hpf : 3 * bytes.length ≤ pfuel) (rfuel lfuel : Nat) (hl : 16 < lfuel) (i : Nat)
    (hi : i < (leavesOf (.node id a ks)).length) :
    getPageBD bitsOf env pfuel dec 2 (rfuel + 2) lfuel bytes i = .ok ((leavesOf (.node id a ks))[i]) := by
  have h := (page_nth_bytes_partial4 bitsOf hdf fmt env hd pfuel dec hdec id a ks n hn hnd hrange hbox hh hc bytes hw hsmall hpf
    rfuel lfuel hl i).1
  rw [h, dif_pos hi]

/-! ### the attribute clause from the bytes, with the generated readers: the conclusion names the nearest attribute -/

/-- **Attributes of page i come from the nearest ancestor — from the bytes, with the generated readers**, under
    `DerivedAgrees` (the hypothesis of `page_nth_bytes_partial2`; it is what remains for nodes carrying /Resources): media
    box, crop box (falling back to the media box) and resources of the page `getPageBD` returns are the i-th leaf's own
    value or that of the nearest ancestor of that leaf in the tree that was written. -/
theorem attributes_nearest_bytes_derived (bitsOf : R → Nat) (fmt : R → List UInt8) (env : Env R) (hd : env.decrypt = none)
    (pfuel : Nat) (dec : Dict R → List UInt8 → Out (List UInt8)) (hdec : NoFilter dec) (id : Nat) (a : Attrs)
    (ks : List PTree) (n : Nat) (hn : n ≤ 1000000) (hnd : (idsOf (.node id a ks)).Nodup)
    (hrange : ∀ x ∈ idsOf (.node id a ks), 1 ≤ x ∧ x ≤ n) (hm : markersOK (.node id a ks) = true)
    (hh : height (.node id a ks) ≤ 16) (hc : nLeaves (.node id a ks) ≤ 2147483647)
    (bytes : List UInt8) (hw : writeDoc fmt (.node id a ks) n = .ok bytes)
    (hsmall : bytes.length ≤ fileMax) (hpf : 3 * bytes.length ≤ pfuel) (rfuel lfuel : Nat) (hl : 16 < lfuel)
    (hagree : ∀ tb T, openB env pfuel dec 2 bytes = .ok (0, tb, T) →
      DerivedAgrees bitsOf (resolveB env pfuel dec (rfuel + 2) bytes 0 tb) (.node id a ks))
    (i : Nat) (hi : i < (leavesOf (.node id a ks)).length) :
    let l := (leavesOf (.node id a ks))[i]
    let pg := getPageBD bitsOf env pfuel dec 2 (rfuel + 2) lfuel bytes i
    (pg.bind mediaBox = match nearest (·.mediaBox) l.a (l.parent :: l.anc) with | some b => .ok b | none => .err) ∧
    (pg.bind cropBox = match nearest (·.cropBox) l.a (l.parent :: l.anc) with | some b => .ok b | none => mediaBox l) ∧
    (pg.bind resources = match nearest (·.resources) l.a (l.parent :: l.anc) with | some b => .ok b | none => .err) := by
  have := (page_nth_bytes_partial2 bitsOf fmt env hd pfuel dec hdec id a ks n hn hnd hrange hm hh hc bytes hw hsmall hpf rfuel
    lfuel hl hagree i).1
  simp only [hi, dite_true] at this
  simp only [this, Out.bind_ok]
  exact ⟨media_box_nearest _, crop_box_nearest _, resources_nearest _⟩

/-- **The media box of page i, read from the bytes by the generated readers, is the page's own or that of the nearest
    ancestor that has one** (`Err` when nobody has one) — for trees whose nodes carry media / crop boxes (markers below
    2²⁴, no /Resources); the only hypothesis about the reader is `DefaultZeroEvaluates`. -/
theorem media_box_nearest_bytes (bitsOf : R → Nat) (hdf : DefaultZeroEvaluates) (fmt : R → List UInt8) (env : Env R)
    (hd : env.decrypt = none) (pfuel : Nat) (dec : Dict R → List UInt8 → Out (List UInt8)) (hdec : NoFilter dec) (id : Nat)
    (a : Attrs) (ks : List PTree) (n : Nat) (hn : n ≤ 1000000) (hnd : (idsOf (.node id a ks)).Nodup)
    (hrange : ∀ x ∈ idsOf (.node id a ks), 1 ≤ x ∧ x ≤ n) (hbox : boxOnly (.node id a ks) = true)
    (hh : height (.node id a ks) ≤ 16) (hc : nLeaves (.node id a ks) ≤ 2147483647)
    (bytes : List UInt8) (hw : writeDoc fmt (.node id a ks) n = .ok bytes)
    (hsmall : bytes.length ≤ fileMax) (hpf : 3 * bytes.length ≤ pfuel) (rfuel lfuel : Nat) (hl : 16 < lfuel) (i : Nat)
    (hi : i < (leavesOf (.node id a ks)).length) :
    (getPageBD bitsOf env pfuel dec 2 (rfuel + 2) lfuel bytes i).bind mediaBox =
      match nearest (·.mediaBox) ((leavesOf (.node id a ks))[i]).a
              (((leavesOf (.node id a ks))[i]).parent :: ((leavesOf (.node id a ks))[i]).anc) with
      | some b => .ok b
      | none => .err := by
  rw [media_box_nearest_bytes_boxes bitsOf hdf fmt env hd pfuel dec hdec id a ks n hn hnd hrange hbox hh hc bytes hw hsmall hpf rfuel lfuel hl i hi, Out.bind_ok]
  exact media_box_nearest _

/-- the same for the crop box: own, else the nearest ancestor's crop box, else the media box (own or inherited) -/
theorem crop_box_nearest_bytes (bitsOf : R → Nat) (hdf : DefaultZeroEvaluates) (fmt : R → List UInt8) (env : Env R)
    (hd : env.decrypt = none) (pfuel : Nat) (dec : Dict R → List UInt8 → Out (List UInt8)) (hdec : NoFilter dec) (id : Nat)
    (a : Attrs) (ks : List PTree) (n : Nat) (hn : n ≤ 1000000) (hnd : (idsOf (.node id a ks)).Nodup)
    (hrange : ∀ x ∈ idsOf (.node id a ks), 1 ≤ x ∧ x ≤ n) (hbox : boxOnly (.node id a ks) = true)
    (hh : height (.node id a ks) ≤ 16) (hc : nLeaves (.node id a ks) ≤ 2147483647)
    (bytes : List UInt8) (hw : writeDoc fmt (.node id a ks) n = .ok bytes)
    (hsmall : bytes.length ≤ fileMax) (hpf : 3 * bytes.length ≤ pfuel) (rfuel lfuel : Nat) (hl : 16 < lfuel) (i : Nat)
    (hi : i < (leavesOf (.node id a ks)).length) :
    (getPageBD bitsOf env pfuel dec 2 (rfuel + 2) lfuel bytes i).bind cropBox =
      match nearest (·.cropBox) ((leavesOf (.node id a ks))[i]).a
              (((leavesOf (.node id a ks))[i]).parent :: ((leavesOf (.node id a ks))[i]).anc) with
      | some b => .ok b
      | none => mediaBox ((leavesOf (.node id a ks))[i]) := by
  rw [media_box_nearest_bytes_boxes bitsOf hdf fmt env hd pfuel dec hdec id a ks n hn hnd hrange hbox hh hc bytes hw hsmall hpf rfuel lfuel hl i hi, Out.bind_ok]
  exact crop_box_nearest _

/-- **Resources of page i, read from the bytes by the generated readers, are the page's own or the nearest ancestor's** —
    under `DerivedAgrees`: trees that carry /Resources are outside `boxOnly`, so unlike the two box theorems this one keeps
    the agreement of the generated `Resources` reader with `nodeOf` as a hypothesis (third conjunct of
    `attributes_nearest_bytes_derived`; the driver evaluates the hypothesis per file, request `c07.agree`). -/
theorem resources_nearest_bytes (bitsOf : R → Nat) (fmt : R → List UInt8) (env : Env R) (hd : env.decrypt = none)
    (pfuel : Nat) (dec : Dict R → List UInt8 → Out (List UInt8)) (hdec : NoFilter dec) (id : Nat) (a : Attrs)
    (ks : List PTree) (n : Nat) (hn : n ≤ 1000000) (hnd : (idsOf (.node id a ks)).Nodup)
    (hrange : ∀ x ∈ idsOf (.node id a ks), 1 ≤ x ∧ x ≤ n) (hm : markersOK (.node id a ks) = true)
    (hh : height (.node id a ks) ≤ 16) (hc : nLeaves (.node id a ks) ≤ 2147483647)
    (bytes : List UInt8) (hw : writeDoc fmt (.node id a ks) n = .ok bytes)
    (hsmall : bytes.length ≤ fileMax) (hpf : 3 * bytes.length ≤ pfuel) (rfuel lfuel : Nat) (hl : 16 < lfuel)
    (hagree : ∀ tb T, openB env pfuel dec 2 bytes = .ok (0, tb, T) →
      DerivedAgrees bitsOf (resolveB env pfuel dec (rfuel + 2) bytes 0 tb) (.node id a ks))
    (i : Nat) (hi : i < (leavesOf (.node id a ks)).length) :
    (getPageBD bitsOf env pfuel dec 2 (rfuel + 2) lfuel bytes i).bind resources =
      match nearest (·.resources) ((leavesOf (.node id a ks))[i]).a
              (((leavesOf (.node id a ks))[i]).parent :: ((leavesOf (.node id a ks))[i]).anc) with
      | some b => .ok b
      | none => .err :=
  (attributes_nearest_bytes_derived bitsOf fmt env hd pfuel dec hdec id a ks n hn hnd hrange hm hh hc bytes hw hsmall hpf rfuel
    lfuel hl hagree i hi).2.2

/-! ### non-vacuity at byte level: a document is written, its bytes are opened, its pages are found -/

/-- root 3 (media box 11, resources 5) with leaf 1 (crop box 12) and node 2 with leaf 4 (media box 13): objects numbered
    against the document order -/
def exT : PTree :=
  .node 3 ⟨some 11, none, some 5⟩ [.leaf 1 ⟨none, some 12, none⟩, .node 2 ⟨none, none, none⟩ [.leaf 4 ⟨some 13, none, none⟩]]
def exEnv : Env (List UInt8) :=
  { parseReal := fun t => some t, resolveLen := fun _ _ => .err, allowMissingEndobj := false, decrypt := none, fileOffset := 0 }
def exDec : Dict (List UInt8) → List UInt8 → Out (List UInt8) :=
  fun d raw => match dictGet d kFilter with | none => .ok raw | some _ => .err

/-- `ok n` ↦ `n + 1`, anything else ↦ 0 -/
def code : Out Nat → Nat
  | .ok n => n + 1
  | _ => 0

example : (idsOf exT).Nodup ∧ (∀ x ∈ idsOf exT, 1 ≤ x ∧ x ≤ 4) ∧ markersOK exT = true ∧ height exT ≤ 16 := by decide
/-- the model run on the written bytes (kernel evaluation of writer, open path, resolver, parser, page walk) -/
example : (match writeDoc (R := List UInt8) id exT 4 with
    | .ok bytes =>
      (decide (bytes.length ≤ fileMax), code (numPagesB nodeOf exEnv (3 * bytes.length + 64) exDec 2 3 17 bytes),
        (List.range 3).map fun i =>
          match getPageB nodeOf exEnv (3 * bytes.length + 64) exDec 2 3 17 bytes i with
          | .ok l => [l.id, code (mediaBox l), code (cropBox l), code (resources l)]
          | _ => [])
    | _ => (false, 0, [])) =
    (true, 3, [[1, 12, 13, 6], [4, 14, 14, 6], []]) := by decide +kernel

/-! ### non-vacuity of `page_nth_bytes_partial3` / `page_nth_bytes_partial4` (and the two box corollaries)

Every hypothesis of the two theorems is instantiated on a concrete document, except `DefaultZeroEvaluates`, which the kernel
cannot decide (`String.toInt?` does not reduce; the driver evaluates it, request `c07.dflt0`) and which therefore stays a
hypothesis of the examples. The conclusions are then specialised to concrete pages. (The derived composition itself is
not kernel-evaluable for the same reason; the driver runs it on every file of the stream `c07.bytes.derived`.) -/

/-- root 3 (media box 11) with leaf 1 (crop box 12) and node 2 (crop box 15) with leaf 4 (media box 13): boxes only -/
def exB : PTree :=
  .node 3 ⟨some 11, none, none⟩ [.leaf 1 ⟨none, some 12, none⟩, .node 2 ⟨none, some 15, none⟩ [.leaf 4 ⟨some 13, none, none⟩]]
/-- the same shape without attributes -/
def exF : PTree := .node 3 noAttrs [.leaf 1 noAttrs, .node 2 noAttrs [.leaf 4 noAttrs]]

theorem exDec_noFilter : NoFilter exDec := by
  intro d raw h
  simp only [exDec, h]

example : boxOnly exB = true ∧ (idsOf exB).Nodup ∧ (∀ x ∈ idsOf exB, 1 ≤ x ∧ x ≤ 4) ∧ height exB ≤ 16 ∧
    nLeaves exB ≤ 2147483647 ∧ (leavesOf exB).length = 2 := by decide
example : attrFree exF = true ∧ (idsOf exF).Nodup ∧ (∀ x ∈ idsOf exF, 1 ≤ x ∧ x ≤ 4) ∧ height exF ≤ 16 ∧
    nLeaves exF ≤ 2147483647 ∧ (leavesOf exF).length = 2 := by decide

/-- the writer succeeds on both documents and the files are small -/
theorem exB_written : ∃ bytes, writeDoc (R := List UInt8) id exB 4 = .ok bytes ∧ bytes.length ≤ fileMax := by
  have h : (match writeDoc (R := List UInt8) id exB 4 with | .ok b => decide (b.length ≤ fileMax) | _ => false) = true := by
    decide +kernel
  cases hw : writeDoc (R := List UInt8) id exB 4 with
  | ok b => rw [hw] at h; exact ⟨b, rfl, by simpa using h⟩
  | err => rw [hw] at h; cases h
  | panic => rw [hw] at h; cases h
  | oof => rw [hw] at h; cases h
theorem exF_written : ∃ bytes, writeDoc (R := List UInt8) id exF 4 = .ok bytes ∧ bytes.length ≤ fileMax := by
  have h : (match writeDoc (R := List UInt8) id exF 4 with | .ok b => decide (b.length ≤ fileMax) | _ => false) = true := by
    decide +kernel
  cases hw : writeDoc (R := List UInt8) id exF 4 with
  | ok b => rw [hw] at h; exact ⟨b, rfl, by simpa using h⟩
  | err => rw [hw] at h; cases h
  | panic => rw [hw] at h; cases h
  | oof => rw [hw] at h; cases h

/-- `page_nth_bytes_partial3` instantiated: the written attribute-free document has two pages, page 1 is object 4 below
    node 2 below root 3, page 2 is out of bounds -/
example (hdf : DefaultZeroEvaluates) : ∃ bytes, writeDoc (R := List UInt8) id exF 4 = .ok bytes ∧
    numPagesBD (fun _ => 0) exEnv (3 * bytes.length) exDec 2 3 17 bytes = .ok 2 ∧
    (getPageBD (fun _ => 0) exEnv (3 * bytes.length) exDec 2 3 17 bytes 1).bind (fun l => .ok (l.id, l.parent.id, l.anc.map (·.id)))
      = .ok (4, 2, [3]) ∧
    getPageBD (fun _ => 0) exEnv (3 * bytes.length) exDec 2 3 17 bytes 2 = .err := by
  obtain ⟨bytes, hw, hsmall⟩ := exF_written
  refine ⟨bytes, hw, ?_⟩
  have h := fun i => page_nth_bytes_partial3 (fun _ => 0) hdf id exEnv rfl (3 * bytes.length) exDec exDec_noFilter 3 noAttrs
    [.leaf 1 noAttrs, .node 2 noAttrs [.leaf 4 noAttrs]] 4 (by decide) (by decide) (by decide) (by decide) (by decide) (by decide)
    bytes hw hsmall (Nat.le_refl _) 1 17 (by decide) i
  refine ⟨?_, ?_, ?_⟩
  · rw [(h 0).2]; rfl
  · rw [(h 1).1]; rfl
  · rw [(h 2).1]; rfl

/-- `page_nth_bytes_partial4`, `media_box_nearest_bytes`, `crop_box_nearest_bytes` instantiated: page 0 (object 1) has its
    own crop box 12 and inherits media box 11 from the root; page 1 (object 4) has its own media box 13 and inherits crop
    box 15 from node 2 (not from further up) -/
example (hdf : DefaultZeroEvaluates) : ∃ bytes, writeDoc (R := List UInt8) id exB 4 = .ok bytes ∧
    numPagesBD (fun _ => 0) exEnv (3 * bytes.length) exDec 2 3 17 bytes = .ok 2 ∧
    (getPageBD (fun _ => 0) exEnv (3 * bytes.length) exDec 2 3 17 bytes 0).bind mediaBox = .ok 11 ∧
    (getPageBD (fun _ => 0) exEnv (3 * bytes.length) exDec 2 3 17 bytes 0).bind cropBox = .ok 12 ∧
    (getPageBD (fun _ => 0) exEnv (3 * bytes.length) exDec 2 3 17 bytes 1).bind mediaBox = .ok 13 ∧
    (getPageBD (fun _ => 0) exEnv (3 * bytes.length) exDec 2 3 17 bytes 1).bind cropBox = .ok 15 ∧
    getPageBD (fun _ => 0) exEnv (3 * bytes.length) exDec 2 3 17 bytes 2 = .err := by
  obtain ⟨bytes, hw, hsmall⟩ := exB_written
  refine ⟨bytes, hw, ?_⟩
  have h := fun i => page_nth_bytes_partial4 (fun _ => 0) hdf id exEnv rfl (3 * bytes.length) exDec exDec_noFilter 3
    ⟨some 11, none, none⟩ [.leaf 1 ⟨none, some 12, none⟩, .node 2 ⟨none, some 15, none⟩ [.leaf 4 ⟨some 13, none, none⟩]] 4
    (by decide) (by decide) (by decide) (by decide) (by decide) (by decide) bytes hw hsmall (Nat.le_refl _) 1 17 (by decide) i
  have hm := fun i hi => media_box_nearest_bytes (fun _ => 0) hdf id exEnv rfl (3 * bytes.length) exDec exDec_noFilter 3
    ⟨some 11, none, none⟩ [.leaf 1 ⟨none, some 12, none⟩, .node 2 ⟨none, some 15, none⟩ [.leaf 4 ⟨some 13, none, none⟩]] 4
    (by decide) (by decide) (by decide) (by decide) (by decide) (by decide) bytes hw hsmall (Nat.le_refl _) 1 17 (by decide) i hi
  have hcb := fun i hi => crop_box_nearest_bytes (fun _ => 0) hdf id exEnv rfl (3 * bytes.length) exDec exDec_noFilter 3
    ⟨some 11, none, none⟩ [.leaf 1 ⟨none, some 12, none⟩, .node 2 ⟨none, some 15, none⟩ [.leaf 4 ⟨some 13, none, none⟩]] 4
    (by decide) (by decide) (by decide) (by decide) (by decide) (by decide) bytes hw hsmall (Nat.le_refl _) 1 17 (by decide) i hi
  refine ⟨?_, ?_, ?_, ?_, ?_, ?_⟩
  · rw [(h 0).2]; rfl
  · rw [hm 0 (by decide)]; rfl
  · rw [hcb 0 (by decide)]; rfl
  · rw [hm 1 (by decide)]; rfl
  · rw [hcb 1 (by decide)]; rfl
  · rw [(h 2).1]; rfl

end C07
