import PdfModel.Lemmas.ContentInst
import PdfModel.Lemmas.ContentTable
import PdfModel.Lemmas.ContentF32
import PdfModel.Lemmas.ContentInline
import PdfModel.Lemmas.ContentBytesCompose
import PdfModel.Lemmas.ContentBytesInst
import PdfModel.Lemmas.ContentBytesParts
import PdfModel.Spec.ContentStatements

/-!
# C08 — content-stream operators round-trip and mean what the operator table says

Token level (`Model/Content.lean`): an operand is a `Prim`, everything else a keyword; the byte level is the
subject of C03/C04.  `serializeOps` mirrors `content::serialize_ops` (with every look-ahead merge: `s b b* ' " TD`,
`v`/`y` chosen against `current_point`), `parseOps` mirrors `content::parse_ops` (operand buffer, `OpBuilder::add`,
`last` / `subpath_start`, `allow_invalid_ops`).  The model is the code *after* the `fix:` commits of this package
(D19, D20, D21, `Tr` 6/7, reals ≥ 2^31, current point after `h` / `re`).

Reals are a parameter: any type `R` with operations `ro : RealOps R` satisfying `RealLaws ro` (for `f32`:
`==` is an equivalence on finite values, unary minus respects it, an integral value that `{}` prints as an
integer token converts back with `i32 as f32` to an `==` value).  For the bit-level `f32` instance that the
model driver runs (`Content.F32.ops`: IEEE-754 binary32 as integer arithmetic on the bit pattern) the laws are
*proved* (`Content.F32.f32Laws`, `Lemmas/ContentF32.lean`), so `parse_serialize_ops_f32` has no hypothesis about
reals; that this instance computes what Rust's `f32` computes (`==`, `-`, `as f32`, `{}`) is what the
correspondence stream `c08.real` compares, and the oracle `c08.laws` checks the laws on Rust's `f32` directly.
`intLaws`, `zLaws` are further instances (`zLaws`: two zeros that are `==`).

**Lexical composition (L2).**  `Model/ContentBytes.lean` is the byte level around the token level: what
`serialize_ops` writes byte for byte (`serializeBytes`: `struct Real`, `serialize_name`, `PdfString::serialize`,
`Primitive::serialize` — the shared writer model of C04 —, one space after every operand, a line feed after every
operator) and the loop of `OpBuilder::parse` on bytes (`parseBytes`: the shared `parseWithLexer` until it fails, then
`next` as operator, `Content.add`).  `parse_any_spelling` (every conformant spelling of a token sequence — any
white-space, comments, omitted separators, any spelling of each operand — reads as the token sequence),
`parse_serialize_bytes` (`parse_bytes (serialize_bytes ops) ≈ ops`) and `parse_contents_parts` (a `/Contents`
array) compose the token-level theorems with the operand round trip of C04 (`serialize_spells`,
`parseCtx_spells`) and the lexer's token-boundary lemmas.  Additional hypotheses, all about third-party code or
about what the shared parser model does not carry: `FmtLaws` (`Display for f32` / `f32::from_str` agree with the
real-number interface; checked on Rust's `f32` by the oracle `c08.laws`) and `EofFacts` (which errors are
`PdfError::EOF`; proved for the driver's oracle, `lexOracle_facts`).

`cfg.primDot` says whether `Primitive::Number` is written with a decimal point always (D9 of the C03/C04
package repaired in primitive.rs); the check detects it on the tree under test and passes it to the model.
-/

namespace Content
open ContentSpec
open PdfSyntax (Gap)

section
variable {R : Type} (ro : RealOps R)

/-- **Round trip (clause 1), general form.**  For every real-number interface satisfying the laws, both
    settings of `allow_invalid_ops`, both states of D9, and every sequence of operations with finite operands
    that the serializer accepts: the serializer succeeds, the reader succeeds on its output, and returns the
    same sequence with numeric equality on reals — whatever shorthand (`s b b* ' " TD v y`) the writer chose.
    By induction over the sequence with the invariant "`current_point = Some p` ⇒ the reader's `last` is `p`,
    `subpath_start = Some q` ⇒ the reader's `subpath_start` is `q`" (`Lemmas/ContentSim.lean`). -/
theorem parse_serialize_ops (laws : RealLaws ro) (cfg : Cfg) (allow : Bool) (ops : List (Op R))
    (hfin : ∀ o ∈ ops, finiteOp ro o = true) (hacc : ∀ o ∈ ops, acceptedOp ro cfg o = true) :
    ∃ toks ops', serializeOps ro cfg ops = .ok toks ∧ parseOps ro allow toks = .ok ops' ∧
      opsEquiv ro ops' ops = true := by
  have hinv : Inv ro ⟨none, none⟩ (initState ro) := ⟨fun q hq => by simp at hq, fun q hq => by simp at hq⟩
  obtain ⟨toks, st', new, h1, h2, h3, _, h5⟩ :=
    serLoop_sim ro laws cfg allow ops.length ops ⟨none, none⟩ (initState ro) (Nat.le_refl _) hfin hacc hinv
  refine ⟨toks, new, h1, ?_, h5⟩
  unfold parseOps
  rw [h2]
  simp [h3, initState]

/-- **Round trip for `f32`** (the instance the driver runs, laws proved): no assumption about the reals. -/
theorem parse_serialize_ops_f32 (cfg : Cfg) (allow : Bool) (ops : List (Op UInt32))
    (hfin : ∀ o ∈ ops, finiteOp F32.ops o = true) (hacc : ∀ o ∈ ops, acceptedOp F32.ops cfg o = true) :
    ∃ toks ops', serializeOps F32.ops cfg ops = .ok toks ∧ parseOps F32.ops allow toks = .ok ops' ∧
      opsEquiv F32.ops ops' ops = true :=
  parse_serialize_ops F32.ops F32.f32Laws cfg allow ops hfin hacc

/-- The full-strength statement of clause 1 for a given state of D9: *every* sequence of operations with
    finite operands other than inline images (which the serializer rejects, `serialize_total`) round-trips. -/
def C08_roundtrip_full (cfg : Cfg) : Prop :=
  ∀ (R : Type) (ro : RealOps R), RealLaws ro → ∀ (allow : Bool) (ops : List (Op R)),
    (∀ o ∈ ops, finiteOp ro o = true) → (∀ o ∈ ops, isInlineImage o = false) →
    ∃ toks ops', serializeOps ro cfg ops = .ok toks ∧ parseOps ro allow toks = .ok ops' ∧
      opsEquiv ro ops' ops = true

/-- **Round trip (clause 1), full strength** once `Primitive::Number` is written with a decimal point
    (D9 repaired in primitive.rs): no hypothesis besides finiteness and "not an inline image". -/
theorem roundtrip_full_primDot : C08_roundtrip_full ⟨true⟩ := by
  intro R ro laws allow ops hfin hni
  exact parse_serialize_ops ro laws ⟨true⟩ allow ops hfin
    (fun o ho => accepted_of_finite ro o (hfin o ho) (hni o ho))

/-- While D9 is open (`primDot = false`) the full statement fails: an integral real ≥ 2^31 inside a
    `Primitive` operand (`2147483648 scn`) is written as an integer token that does not fit an `i32`.
    That defect belongs to primitive.rs (C03/C04 package); `parse_serialize_ops` excludes it through
    `acceptedOp` (decidable), and the generators of the check stay away from it. -/
theorem roundtrip_counterexample_D9 : ¬ C08_roundtrip_full ⟨false⟩ := by
  intro h
  obtain ⟨toks, ops', h1, h2, _⟩ := h Int intOps intLaws false [.fillColor (.other [.real 2147483648])]
    (by decide) (by decide)
  have e1 : serializeOps intOps ⟨false⟩ [.fillColor (.other [.real (2147483648 : Int)])] = .ok [.garbage, .kw "scn"] := by
    rfl
  rw [e1] at h1
  cases h1
  have e2 : parseOps intOps false [.garbage, .kw "scn"] = .err := by rfl
  rw [e2] at h2
  cases h2

/-- **The serializer is total**: never a panic, never out of fuel; `Err` exactly when the sequence contains
    an inline image (`Op::InlineImage => unimplemented!()`): inline images are read-only in the library. -/
theorem serialize_total (cfg : Cfg) (ops : List (Op R)) :
    (ops.any isInlineImage = false → ∃ toks, serializeOps ro cfg ops = .ok toks) ∧
    (ops.any isInlineImage = true → serializeOps ro cfg ops = .err) :=
  serLoop_total ro cfg ops.length ops ⟨none, none⟩ (Nat.le_refl _)

/-- **Table A.1 is complete (clause 2), one operator.**  For every entry of the operator table that the library
    supports, every operand list that is well-formed for the entry's signature (`decode`), every reader state
    whose `last` / `subpath_start` are the current point / subpath start of the specification: `add` succeeds,
    pushes exactly the operation(s) the table denotes with the operands in order, leaves the compatibility flag
    alone and keeps tracking the current point. -/
theorem table_complete (e : Entry R) (he : e ∈ table ro) (hs : e.support = .full) (args : List (Prim R))
    (vals : List (Val R)) (ops : List (Op R)) (path : Path R) (st : PState R) (ht : Tracks path st)
    (hd : decode ro e.sig args = some vals) (hden : e.den path.cur vals = some ops) :
    (add ro st e.kw args).ok = true ∧ (add ro st e.kw args).st.ops = st.ops ++ ops ∧
      (add ro st e.kw args).st.compat = st.compat ∧
      Tracks (ops.foldl pathAfter path) (add ro st e.kw args).st :=
  table_step ro e he hs args vals ops path st ht hd hden

/-- **Table A.1 is complete (clause 2), sequences.**  A content stream made of well-formed statements of
    supported operators reads, in strict and in tolerant mode, as exactly the operations the specification
    defines (`specRun`, which threads the current point of 8.5.2.1 through `m l c v y h re` and the painting
    operators): in particular `v` is expanded with the specification's current point, also after `h` and `re`. -/
theorem table_complete_seq (allow : Bool) (ss : List (Stmt R)) (ops : List (Op R))
    (h : specRun ro ⟨none, none⟩ ss = some ops) :
    parseOps ro allow (ss.flatMap Stmt.toks) = .ok ops := by
  have ht : Tracks (⟨none, none⟩ : Path R) (initState ro) :=
    ⟨fun p hp => by simp at hp, fun p hp => by simp at hp⟩
  obtain ⟨st', h1, h2, _⟩ := specRun_parse ro allow ss ⟨none, none⟩ (initState ro) ops ht h
  unfold parseOps
  rw [h1]
  simp [h2, initState]

/-- The table has the 73 operators of Table A.1, each once. -/
theorem table_has_73_distinct : (table intOps).length = 73 ∧ ((table intOps).map (·.kw)).Nodup := by
  constructor
  · rfl
  · decide

/-- **Unsupported operators are named, not skipped**: the entries of the table that are not fully supported are
    exactly `BI ID EI` (one construct: an inline image, read below token level, rejected on write) and
    `BX EX d0 d1` (no `Op` constructor). -/
theorem unsupported_listed :
    ((table intOps).filter (fun e => e.support != .full)).map (·.kw) = ["BI", "BX", "d0", "d1", "EI", "EX", "ID"] := by
  decide

/-- What the reader does with the unsupported operators: `d0 d1` succeed and push nothing (operands dropped),
    `BX` / `EX` only switch the compatibility flag, a stray `ID` / `EI` is an error; none of them pushes an
    operation. -/
theorem unsupported_push_nothing (st : PState R) (args : List (Prim R)) :
    (add ro st "d0" args = ⟨st, true⟩) ∧ (add ro st "d1" args = ⟨st, true⟩) ∧
    (add ro st "BX" args = ⟨{ st with compat := true }, true⟩) ∧
    (add ro st "EX" args = ⟨{ st with compat := false }, true⟩) ∧
    (add ro st "ID" args = ⟨st, false⟩) ∧ (add ro st "EI" args = ⟨st, false⟩) := by
  simp [fail]

/-- Operands never leak (clause 3), buffer form: after every operator — keyword or inline image, accepted,
    failed-and-tolerated alike — the operand buffer of the model is empty.
    This holds *by construction*: `Content.step` writes the literal `[]` in every operator arm, which is the
    model's rendering of `buffer.drain(..)` being dropped when `add` returns (that the rendering is faithful is
    what the correspondence streams `c08.parse*`, `c08.kw*` and the oracle `c08.leak` check on the real
    `parse_ops`).  The statement with content is `operands_scoped` below. -/
theorem buffer_empty_after_operator (allow : Bool) (c c' : PCfg R) (t : Tok R)
    (ht : ∀ p, t ≠ .prim p) (h : step ro allow c t = .ok c') : c'.buf = [] := by
  cases t with
  | prim p => exact absurd rfl (ht p)
  | kw s =>
    simp only [step] at h
    split at h
    · cases h; rfl
    · cases h
  | bi img =>
    cases img with
    | none =>
      simp only [step] at h
      split at h
      · cases h; rfl
      · cases h
    | some id => simp only [step] at h; cases h; rfl
  | garbage => simp [step] at h

/-- Operands never leak (clause 3), one operator: the loop applied to operands followed by a keyword applies
    `add` to `buf ++ ps` and continues from an empty buffer (tolerated error) or stops with `Err` (strict).
    This is one unfolding of `parseLoop` / `step` (a definition unfolded, as the audit says); it is kept as the
    rewriting lemma the byte-level proofs use.  The property over whole token sequences is `operands_scoped`. -/
theorem operands_never_leak (allow : Bool) (st : PState R) (buf ps : List (Prim R)) (s : String)
    (rest : List (Tok R)) :
    parseLoop ro allow ⟨st, buf⟩ (ps.map .prim ++ .kw s :: rest) =
      if (add ro st s (buf ++ ps)).ok || allow then parseLoop ro allow ⟨(add ro st s (buf ++ ps)).st, []⟩ rest
      else .err := by
  rw [parseLoop_prims]
  simp only [parseLoop, step]
  by_cases h : ((add ro st s (buf ++ ps)).ok || allow) = true <;> simp [h]

section
open ContentStmts

/-- the loop started with `pending` operands in the buffer: statements from `segment pending` -/
theorem parseLoop_segment (allow : Bool) (toks : List (Tok R)) : ∀ (st : PState R) (pending : List (Prim R)),
    parseLoop ro allow ⟨st, pending⟩ toks =
      match runStmts ro allow st (segment pending toks).1 with
      | .ok st' => .ok ⟨st', (segment pending toks).2⟩
      | .err => .err
      | .panic => .panic
      | .oof => .oof := by
  induction toks with
  | nil => intro st pending; simp [parseLoop, segment, runStmts]
  | cons t ts ih =>
    intro st pending
    cases t with
    | prim p =>
      simp only [parseLoop, step, segment]
      exact ih st (pending ++ [p])
    | kw s =>
      simp only [parseLoop, step, segment, runStmts]
      by_cases h : ((add ro st s pending).ok || allow) = true
      · simp only [h, if_true]
        exact ih (add ro st s pending).st []
      · simp [h]
    | bi img =>
      cases img with
      | some id =>
        simp only [parseLoop, step, segment, runStmts]
        exact ih (st.push [.inlineImage id]) []
      | none =>
        cases allow with
        | true =>
          simp only [parseLoop, step, segment, runStmts, if_true]
          exact ih st []
        | false => simp [parseLoop, step, segment, runStmts]
    | garbage => simp [parseLoop, step, segment, runStmts]

/-- **Operands never leak (clause 3), over token sequences.**  `parse_ops` on any token sequence — well-formed or
    not, strict or tolerant — is the statement-by-statement interpretation of `Spec/ContentStatements`: the
    sequence is cut by plain list splitting (`segment`, which knows nothing of the reader) into operators with
    exactly the operands written since the previous operator, and every operator is applied to the operands of
    *its own* statement and to nothing else; from one statement to the next only the builder state flows.  So no
    operand of operator k can reach operator k+1 — also when operator k fails and the failure is tolerated, when
    it takes fewer operands than were written, or when it is an inline image; operands after the last operator
    are dropped.  (Proof: induction over the token sequence; the buffer of the loop is the `pending` argument of
    `segment`.) -/
theorem operands_scoped (allow : Bool) (toks : List (Tok R)) :
    parseOps ro allow toks =
      match runStmts ro allow (initState ro) (segment [] toks).1 with
      | .ok st => .ok st.ops
      | .err => .err
      | .panic => .panic
      | .oof => .oof := by
  unfold parseOps
  rw [parseLoop_segment ro allow toks (initState ro) []]
  cases runStmts ro allow (initState ro) (segment [] toks).1 <;> rfl

/-- The operands an operator receives do not depend on the operands of the statement before it: replacing the
    operands `a` of operator `k` by any `a'` leaves the operand lists handed to all later operators unchanged
    (what may change is the builder state that operator `k` leaves behind). -/
theorem next_operands_independent (pre post : List (Tok R)) (a a' : List (Prim R)) (s : String) :
    (operandsOf (segment [] (pre ++ a.map .prim ++ .kw s :: post)).1).drop ((segment [] pre).1.length + 1) =
    (operandsOf (segment [] (pre ++ a'.map .prim ++ .kw s :: post)).1).drop ((segment [] pre).1.length + 1) := by
  have key : ∀ (pre : List (Tok R)) (pending : List (Prim R)) (b : List (Prim R)),
      (operandsOf (segment pending (pre ++ b.map .prim ++ .kw s :: post)).1).drop ((segment pending pre).1.length + 1) =
        operandsOf (segment [] post).1 := by
    intro pre
    induction pre with
    | nil =>
      intro pending b
      induction b generalizing pending with
      | nil => simp [segment, operandsOf]
      | cons x xs ih => simpa [segment] using ih (pending ++ [x])
    | cons t ts ih =>
      intro pending b
      cases t with
      | prim p => simpa [segment] using ih (pending ++ [p]) b
      | kw k => simpa [segment, operandsOf] using ih [] b
      | bi img => simpa [segment, operandsOf] using ih [] b
      | garbage => simpa [segment, operandsOf] using ih [] b
  rw [key pre [] a, key pre [] a']

/-- non-vacuity: extra and wrong operands of one operator (`1 2 3 w`: two too many; `(x) j`: wrong type, tolerated)
    and operands left over at the end never show up in another statement -/
example : (segment [] [.prim (.int 1), .prim (.int 2), .prim (.int 3), .kw "w", .prim (.str [120]), .kw "j",
      .prim (.int 7), .kw "M", .prim (.int 9)] : List (ContentStmts.Stmt Int) × List (Prim Int)).1.length = 3 ∧
    parseOps intOps true [.prim (.int 1), .prim (.int 2), .prim (.int 3), .kw "w", .prim (.str [120]), .kw "j",
      .prim (.int 7), .kw "M", .prim (.int 9)] = .ok [.lineWidth 1, .miterLimit 7] := by
  constructor
  · rfl
  · rfl

end

/-- Consequence: a token sequence that ends with an operator can be cut off; the rest reads as it would read
    on its own from the state reached (compositionality of `parse_ops` at operator boundaries). -/
theorem parse_compositional (allow : Bool) (c : PCfg R) (ts us : List (Tok R)) (s : String) :
    parseLoop ro allow c (ts ++ .kw s :: us) =
      match parseLoop ro allow c (ts ++ [.kw s]) with
      | .ok c' => parseLoop ro allow ⟨c'.st, []⟩ us
      | .err => .err
      | .panic => .panic
      | .oof => .oof := by
  have : ts ++ .kw s :: us = (ts ++ [.kw s]) ++ us := by simp
  rw [this, parseLoop_append]
  cases h : parseLoop ro allow c (ts ++ [.kw s]) with
  | ok c' =>
    have hb : c'.buf = [] := by
      rw [parseLoop_append] at h
      cases h1 : parseLoop ro allow c ts with
      | ok c1 =>
        rw [h1] at h
        simp only [parseLoop] at h
        cases h2 : step ro allow c1 (.kw s) with
        | ok c2 =>
          rw [h2] at h
          simp only [Out.ok.injEq] at h
          subst h
          exact buffer_empty_after_operator ro allow c1 c2 (.kw s) (fun p hp => by cases hp) h2
        | err => rw [h2] at h; cases h
        | panic => rw [h2] at h; cases h
        | oof => rw [h2] at h; cases h
      | err => rw [h1] at h; cases h
      | panic => rw [h1] at h; cases h
      | oof => rw [h1] at h; cases h
    cases c' with
    | mk st' buf' =>
      simp only at hb
      subst hb
      rfl
  | err => rfl
  | panic => rfl
  | oof => rfl

end

-- ---------------------------------------------------------------------------------------------------
-- lexical composition (L2): bytes written by `serialize_ops`, read by the loop of `OpBuilder::parse`

section
open ContentBytes ContentSyntax
variable {R : Type} (ro : RealOps R)

/-- **Any conformant spelling of a content stream reads as its tokens** (the reader half of the lexical
    composition, at the strength of C03): whatever white-space, comments and omitted separators lie between the
    tokens and whichever spelling each operand has (`SpellsToks`), the byte-level loop of `OpBuilder::parse`
    (`parse_with_lexer` until it fails, then `lexer.next()` as operator; shared lexer / parser models of C03/C04)
    returns what the token-level reader returns on the token sequence — in strict and in tolerant mode, errors
    included.  `PrimRT`: operands are values of the Rust types nested within `MAX_DEPTH`; `EofFacts`: the two facts
    about `PdfError::is_eof` that the parser model does not carry. -/
theorem parse_any_spelling (env : PdfLex.Env R) (hd : env.decrypt = none) (o : Oracle) (ho : EofFacts o) (allow : Bool)
    (toks : List (Tok R)) (data : List UInt8) (hsp : SpellsToks env.parseReal toks data)
    (hp : ∀ p ∈ primsOf toks, PrimRT p) (hsz : data.length ≤ 2147483647) :
    parseBytes ro env o allow data = parseOps ro allow toks := by
  have hlen := spellsToks_length hsp
  have hloop := bytesLoop_spells ro env hd o ho allow toks data hsp hp (buf := data.toArray) (by simpa using hsz) 0
    ⟨initState ro, []⟩ (data.toArray.size + 1) (PdfLex.suffix_zero data) (by simp; omega)
  unfold parseBytes parseOps
  simp only [hloop]
  cases parseLoop ro allow ⟨initState ro, []⟩ toks <;> rfl

/-- **Lexical composition, round trip on bytes (L2).**  For every sequence of operations the serializer accepts
    (`OpV`: finite reals, `Primitive` operands that are values of the Rust types nested within `MAX_DEPTH`, no inline
    image; names any strings, strings any bytes): `serialize_ops` succeeds, and the loop of `OpBuilder::parse` on the
    bytes written — the `Real` formatting, names through `serialize_name` (`#xx`), strings (literal with escapes or
    hexadecimal), arrays and dictionaries through `Primitive::serialize`, one space after every operand, a line feed
    after every operator — returns the original sequence with numeric equality on reals, in both modes.
    Composition of `parse_serialize_ops` (token level) with the operand round trip of C04 (`serialize_spells`,
    `parseCtx_spells`) and the lexer's token-boundary lemmas.  Hypotheses on third-party code: `RealLaws`
    (as before) and `FmtLaws` (`Display for f32` / `f32::from_str` agree with the real-number interface). -/
theorem parse_serialize_bytes (laws : RealLaws ro) (env : PdfLex.Env R) (hd : env.decrypt = none)
    (fmt : R → List UInt8) (fl : FmtLaws ro fmt env.parseReal) (o : Oracle) (ho : EofFacts o) (allow : Bool)
    (ops : List (Op R)) (hv : ∀ op ∈ ops, OpV ro op) :
    ∃ bytes, serializeBytes ro fmt ops = .ok bytes ∧
      (bytes.length ≤ 2147483647 →
        ∃ ops', parseBytes ro env o allow bytes = .ok ops' ∧ opsEquiv ro ops' ops = true) := by
  obtain ⟨toks, bytes, h1, h2, h3, h4⟩ :=
    serBytes_spells ro fmt env.parseReal fl ops.length ops ⟨none, none⟩ (Nat.le_refl _) hv
  refine ⟨bytes, h2, fun hsz => ?_⟩
  obtain ⟨toks', ops', h5, h6, h7⟩ := parse_serialize_ops ro laws ⟨true⟩ allow ops (fun o ho => (hv o ho).1)
    (fun o ho => opV_accepted ro (hv o ho))
  have : toks' = toks := by
    unfold serializeOps at h5
    rw [h1] at h5
    cases h5; rfl
  subst this
  refine ⟨ops', ?_, h7⟩
  rw [parse_any_spelling ro env hd o ho allow toks' bytes (by simpa using h3 [] Gap.nil) h4 hsz]
  exact h6

/-- **A `/Contents` array.**  When every part is written by `serialize_ops`, `Content::operations` — the data of
    the parts joined with a line feed after each (the separator added by a `fix:` commit of this package), read by
    the byte-level loop — returns the concatenation of the parts' operations, with numeric equality on reals.  The
    line feed is what keeps the last token of a part and the first token of the next apart (`spellsToks_join`). -/
theorem parse_contents_parts (laws : RealLaws ro) (env : PdfLex.Env R) (hd : env.decrypt = none)
    (fmt : R → List UInt8) (fl : FmtLaws ro fmt env.parseReal) (o : Oracle) (ho : EofFacts o) (allow : Bool)
    (parts : List (List (Op R))) (hv : ∀ p ∈ parts, ∀ op ∈ p, OpV ro op) :
    ∃ bs, serializeParts ro fmt parts = .ok bs ∧
      ((joinParts bs).length ≤ 2147483647 →
        ∃ ops', parseBytes ro env o allow (joinParts bs) = .ok ops' ∧ opsEquiv ro ops' parts.flatten = true) := by
  obtain ⟨toks, bs, st', new, h1, h2, h3, h4, h5, h6⟩ :=
    parts_spell ro fmt env.parseReal laws fl allow parts hv (initState ro)
  refine ⟨bs, h1, fun hsz => ⟨new, ?_, h6⟩⟩
  rw [parse_any_spelling ro env hd o ho allow toks (joinParts bs) (by simpa using h2 [] Gap.nil) h3 hsz]
  unfold parseOps
  rw [h4]
  simp [h5, initState]

end

-- ---------------------------------------------------------------------------------------------------
-- byte level of the inline-image construct: where the image data ends

open ContentInline in
/-- Full statement for the end of inline image data: after `ID` and one white-space byte, image data without an
    `E I` pair, followed by *any* white-space byte, `EI` and then a token boundary (white-space, a delimiter or the
    end of the stream), is cut out exactly, and reading goes on after `EI`. -/
def C08_inline_full : Prop :=
  ∀ (w0 w : UInt8) (data tail : List UInt8), isWs w0 = true → isWs w = true →
    noEI (w0 :: data) = true → endsToken tail = true →
    inlineData (w0 :: data ++ w :: 69 :: 73 :: tail) = some (data, tail)

open ContentInline in
/-- **The end of inline image data, full strength** (after the `fix:` commit that replaced the search for the
    bytes LF `E` `I`; the former counter-example `ID A EI Q` is the example below).  This closes the finding
    `inline-image:EI-not-after-LF`. -/
theorem inline_terminator_full : C08_inline_full := by
  intro w0 w data tail _ hw h ht
  have hf := findEI_append (w0 :: data) tail w hw ht h
  unfold inlineData
  simp only [List.cons_append] at hf ⊢
  rw [hf]
  simp only [List.length_cons]
  have h1 : List.take (data.length + 1) (w0 :: (data ++ w :: 69 :: 73 :: tail)) = w0 :: data := by
    simp
  have h2 : List.drop (data.length + 1 + 3) (w0 :: (data ++ w :: 69 :: 73 :: tail)) = tail := by
    have : data.length + 1 + 3 = (w0 :: (data ++ [w, 69, 73])).length := by simp
    rw [this]
    have e : w0 :: (data ++ w :: 69 :: 73 :: tail) = (w0 :: (data ++ [w, 69, 73])) ++ tail := by simp
    rw [e, List.drop_left]
  rw [h1, h2]
  rfl

open ContentInline in
/-- `ID A EI Q⏎` (space before `EI`): the data is `A`, reading goes on at ` Q⏎`; and `EI` inside a longer word
    (`xEIy`) is not taken for the end -/
example : inlineData [32, 65, 32, 69, 73, 32, 81, 10] = some ([65], [32, 81, 10]) ∧
    inlineData [32, 65, 32, 69, 73, 121, 10, 69, 73] = some ([65, 32, 69, 73, 121], []) := by
  decide

-- ---------------------------------------------------------------------------------------------------
-- non-vacuity: concrete sequences satisfy the hypotheses and exercise every shorthand

/-- every look-ahead merge at once, over the integers: `m v y s b b* h f* " ' TD` -/
def demoOps : List (Op Int) := [
  .moveTo ⟨0, 0⟩, .curveTo ⟨0, 0⟩ ⟨1, 1⟩ ⟨2, 2⟩, .curveTo ⟨9, 9⟩ ⟨3, 3⟩ ⟨3, 3⟩, .close, .stroke,
  .close, .fillAndStroke .nonZero, .close, .fillAndStroke .evenOdd, .close, .fill .evenOdd,
  .wordSpacing 1, .charSpacing 2, .textNewline, .textDraw [120],
  .textNewline, .textDraw [122], .leading (-5), .moveTextPosition ⟨4, 5⟩,
  .rect 7 8 1 1, .curveTo ⟨7, 8⟩ ⟨5, 5⟩ ⟨6, 6⟩, .lineWidth 3000000000, .renderingIntent .perceptual, .shade "Sh1",
  .textRenderMode 7, .fillColor (.other [.real 1, .name "P0"])]

example : (∀ o ∈ demoOps, finiteOp intOps o = true) ∧ (∀ o ∈ demoOps, acceptedOp intOps ⟨false⟩ o = true) := by
  decide

/-- the tokens the model writes for it (shorthands visible) -/
example : serializeOps intOps ⟨false⟩ demoOps = .ok [
    .prim (.int 0), .prim (.int 0), .kw "m",
    .prim (.int 1), .prim (.int 1), .prim (.int 2), .prim (.int 2), .kw "v",
    .prim (.int 9), .prim (.int 9), .prim (.int 3), .prim (.int 3), .kw "y",
    .kw "s", .kw "b", .kw "b*", .kw "h", .kw "f*",
    .prim (.int 1), .prim (.int 2), .prim (.str [120]), .kw "\"",
    .prim (.str [122]), .kw "'",
    .prim (.int 4), .prim (.int 5), .kw "TD",
    .prim (.int 7), .prim (.int 8), .prim (.int 1), .prim (.int 1), .kw "re",
    .prim (.int 5), .prim (.int 5), .prim (.int 6), .prim (.int 6), .kw "v",
    .prim (.real 3000000000), .kw "w",
    .prim (.name "Perceptual"), .kw "ri", .prim (.name "Sh1"), .kw "sh", .prim (.int 7), .kw "Tr",
    .prim (.int 1), .prim (.name "P0"), .kw "scn"] := by
  rfl

/-- and it reads back -/
example : ∃ toks ops', serializeOps intOps ⟨false⟩ demoOps = .ok toks ∧ parseOps intOps true toks = .ok ops' ∧
    opsEquiv intOps ops' demoOps = true :=
  parse_serialize_ops intOps intLaws ⟨false⟩ true demoOps (by decide) (by decide)

/-- the real-number path with `f32` values that are not integers (bit patterns: `0x3f000000` = 0.5,
    `0xbfa00000` = -1.25, `0x3fa00000` = 1.25, `0x40300000` = 2.75, `0x40000000` = 2.0): `0.5 -1.25 m`, a curve whose
    first control point is the current point (`v`, decided by `f32 ==` on non-integers), `Leading 1.25` before
    `Td 0.5 -1.25` (`TD`, decided by `1.25 == -(-1.25)`), a dash array mixing a fraction and an integral value,
    a `Primitive::Number` operand -/
def demoF32Ops : List (Op UInt32) := [
  .moveTo ⟨0x3f000000, 0xbfa00000⟩,
  .curveTo ⟨0x3f000000, 0xbfa00000⟩ ⟨0x40300000, 0x3f000000⟩ ⟨0x3fa00000, 0x3fa00000⟩,
  .leading 0x3fa00000, .moveTextPosition ⟨0x3f000000, 0xbfa00000⟩,
  .lineWidth 0x3f000000, .dash [0x3f000000, 0x40000000] 0xbfa00000,
  .fillColor (.other [.real 0x3f000000, .name "P0"])]

/-- the hypotheses of `parse_serialize_ops_f32` hold of it (both states of D9) -/
example : (∀ o ∈ demoF32Ops, finiteOp F32.ops o = true) ∧ (∀ o ∈ demoF32Ops, acceptedOp F32.ops ⟨true⟩ o = true) ∧
    (∀ o ∈ demoF32Ops, acceptedOp F32.ops ⟨false⟩ o = true) := by
  decide +kernel

/-- so `parse_serialize_ops_f32` applies: the `f32` instance round-trips a sequence with fractional reals -/
example (allow : Bool) : ∃ toks ops', serializeOps F32.ops ⟨true⟩ demoF32Ops = .ok toks ∧
    parseOps F32.ops allow toks = .ok ops' ∧ opsEquiv F32.ops ops' demoF32Ops = true :=
  parse_serialize_ops_f32 ⟨true⟩ allow demoF32Ops (by decide +kernel) (by decide +kernel)

/-- and, evaluated by the kernel: the fractions travel as real tokens (`0.5` is the first token), the integral `2.0`
    of the dash array as the integer `2`, both shorthands are chosen (19 tokens instead of 24), and reading
    returns the sequence -/
example : (match serializeOps F32.ops ⟨true⟩ demoF32Ops with
    | .ok toks =>
      toks.length == 19 &&
      (match (toks.head? : Option (Tok UInt32)) with | some (Tok.prim (Prim.real r)) => r == 0x3f000000 | _ => false) &&
      (match (toks[13]? : Option (Tok UInt32)) with
        | some (Tok.prim (Prim.arr [Prim.real a, Prim.int 2])) => a == 0x3f000000 | _ => false) &&
      (match parseOps F32.ops false toks with
        | .ok ops' => opsEquiv F32.ops ops' demoF32Ops
        | _ => false)
    | _ => false) = true := by
  decide +kernel

/-- numeric equality is not syntactic equality: with two zeros (`none` is `-0`) `c1 = (-0, 0)` is the current
    point `(0, 0)`, the writer chooses `v`, the reader returns `c1 = (0, 0)` -/
example : parseOps zOps false
      ((match serializeOps zOps ⟨true⟩ [.moveTo ⟨some 0, some 0⟩, .curveTo ⟨none, some 0⟩ ⟨some 1, some 1⟩ ⟨some 2, some 2⟩] with
        | .ok t => t
        | _ => [])) =
    .ok [.moveTo ⟨some 0, some 0⟩, .curveTo ⟨some 0, some 0⟩ ⟨some 1, some 1⟩ ⟨some 2, some 2⟩] := by
  rfl

/-- table clause, non-vacuity: `1 2 m 3 4 l h 5 6 7 8 v` is well-formed and denotes a curve whose first control
    point is the *start of the subpath* `(1, 2)` (the current point after `h`), not the end of the line -/
example : specRun intOps ⟨none, none⟩
      [⟨[.int 1, .int 2], "m"⟩, ⟨[.int 3, .int 4], "l"⟩, ⟨[], "h"⟩, ⟨[.int 5, .int 6, .int 7, .int 8], "v"⟩] =
    some [.moveTo ⟨1, 2⟩, .lineTo ⟨3, 4⟩, .close, .curveTo ⟨1, 2⟩ ⟨5, 6⟩ ⟨7, 8⟩] := by
  rfl

/-- error path: `1 '` fails after `TextNewline` was pushed; tolerated, the next operator still sees no operand -/
example : parseOps intOps true [.prim (.int 1), .kw "'", .prim (.int 7), .prim (.int 8), .prim (.int 9), .kw "w"] =
    .ok [.textNewline, .lineWidth 7] := by
  rfl

example : parseOps intOps false [.prim (.int 1), .kw "'", .prim (.int 7), .kw "w"] = .err := by
  rfl


-- non-vacuity of the lexical composition

section
open ContentBytes ContentSyntax

/-- operations whose names hold a space, `#`, a non-ASCII character and a solidus, whose strings hold a parenthesis, a
    CR, a backslash and a byte ≥ 128, with a real ≥ 2^31, a dictionary operand and every kind of array -/
def demoBytesOps : List (Op Int) := [
  .moveTo ⟨0, 0⟩, .curveTo ⟨0, 0⟩ ⟨1, 1⟩ ⟨2, 2⟩, .close, .stroke,
  .textFont "F 1#é" 12, .textNewline, .textDraw [40, 13, 92, 200], .lineWidth 3000000000,
  .beginMarkedContent "Span" (some (.dict ["MCID", "K y"] [.int 3, .arr [.real 2, .name "a/b"]])),
  .fillColor (.other [.real 1, .name "P 0"]), .dash [1, 2] 0, .textDraw [40, 13, 92],
  .textDrawAdjusted [.text [65], .spacing (-7)]]

theorem demoBytesOps_valid : ∀ op ∈ demoBytesOps, OpV intOps op := by
  intro op hop
  simp only [demoBytesOps, List.mem_cons, List.mem_nil_iff, or_false] at hop
  rcases hop with rfl | rfl | rfl | rfl | rfl | rfl | rfl | rfl | rfl | rfl | rfl | rfl | rfl <;>
    refine ⟨by decide, ?_⟩ <;>
    simp [ColorV, PrimV, PrimVL, finiteR, intOps, toLex, toLexL, toLexE, PdfSyntax.vdepth, PdfSyntax.vdepthL,
      PdfSyntax.vdepthE, PdfLex.maxDepth] <;> decide

/-- the bytes the model writes for them: `#xx` in names, `\r` and hexadecimal strings, `3000000000.`, a
    dictionary as `Primitive::serialize` writes it -/
example : (match serializeBytes intOps PdfLex.fmtInt demoBytesOps with
    | .ok b => b == ("0 0 m\n1 1 2 2 v\ns\n/F#201#23#c3#a9 12 Tf\n<280d5cc8> '\n3000000000. w\n" ++
        "/Span <<\n/MCID 3\n/K#20y [2. /a#2fb]\n>>\n BDC\n1. /P#200 scn\n[1 2] 0 d\n(\\(\\r\\\\) Tj\n[(A) -7] TJ\n").toUTF8.data.toList
    | _ => false) = true := by
  decide +kernel

/-- and the byte-level loop reads them back (both modes, the driver's oracle) -/
example (allow : Bool) : ∃ bytes ops', serializeBytes intOps PdfLex.fmtInt demoBytesOps = .ok bytes ∧
    parseBytes intOps intEnv (lexOracle fun _ _ => .err) allow bytes = .ok ops' ∧
    opsEquiv intOps ops' demoBytesOps = true := by
  obtain ⟨bytes, h1, h2⟩ := parse_serialize_bytes intOps intLaws intEnv rfl PdfLex.fmtInt intFmtLaws
    (lexOracle fun _ _ => .err) (lexOracle_facts _) allow demoBytesOps demoBytesOps_valid
  have hlen : bytes.length ≤ 2147483647 := by
    have e : (match serializeBytes intOps PdfLex.fmtInt demoBytesOps with
      | .ok b => decide (b.length ≤ 2147483647) | _ => false) = true := by decide +kernel
    rw [h1] at e
    simpa using e
  obtain ⟨ops', h3, h4⟩ := h2 hlen
  exact ⟨bytes, ops', h1, h3, h4⟩

/-- a layout the writer never produces — no separators where none are needed, comments, a `#xx` name, an octal
    escape — is a spelling too, and reads as its tokens: `[1 2]0 d%c⏎/A#20B<41>Tj(\101)'` -/
example : (match parseBytes intOps intEnv (lexOracle fun _ _ => .err) false
      "[1 2]0 d%c\n/A#20B gs<41>Tj(\\101)'".toUTF8.data.toList with
    | .ok ops => opsEquiv intOps ops [.dash [1, 2] 0, .graphicsState "A B", .textDraw [65], .textNewline, .textDraw [65]]
    | _ => false) = true := by
  decide +kernel

end

end Content
