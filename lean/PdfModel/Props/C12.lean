import PdfModel.Lemmas.Cache
import PdfModel.Lemmas.CacheDocWF

/-!
# C12 — caches are invisible: cached and uncached documents answer identically

The model is `Model/Cache.lean`: `getM` mirrors `StorageResolver::get` (recursion guard, object cache
looked up by reference only, type-checked downcast, uncached fallback on a type mismatch and — since the
repair of D28 — on a cached `Err`), `dataM` mirrors `get_data_or_decode` (stream cache keyed by the
reference only). A *call* is any program that talks to the resolver (`Prog`): a typed load
`get::<T>(r)`, a raw `resolve`, `Stream::data`, `raw_image_data` / `image_data`, a page look-up; the typed
loads of the document (`Doc.body`) are arbitrary deterministic programs of the same kind, so every
nested load goes through the guard and the caches like in the library.

What is proved, for every document whose typed-load dependency relation is well founded (`WF`: some
`rank` decreases along every nested `get`; every `get_data_or_decode` for a stream passes that stream's
own filter list), every one of the cache configurations {both, object cache only, stream cache only,
none} and every finite sequence of calls of any length:

* `cache_transparent_partial` — the answers, call by call, are those of the same document without caches;
* `answer_independent_of_prefix_partial` — the answer to a call does not depend on the calls before it;
* `outputs_spec_partial` — both are the plain recursive evaluation `canon (ans …)`: no guard, no cache;
* `outputs_total_partial` — the model's fuel is never exhausted (fuel > number of ranks).

What is *not* true of the code and therefore not proved (`C12_full`, `C12_counterexample`): on a document
with a reference cycle among typed loads the guard cuts the cycle at a place that depends on where the
load started, tolerant mode turns the cut into `None`, and the value computed below a non-empty guard is
cached and later served to a top level call (D43, known finding). The former defects D27 and D28 are
kept as counter-examples of the *old* rules.
-/

namespace Cache
variable {V E : Type}

/-- a call is admissible if its stream-data requests pass the stream's own filters -/
abbrev FineCall (filt : Nat → List Nat) (p : Prog V E) : Prop := Fine filt (fun _ => True) p

/-- One call on a document in a state satisfying the invariant returns the unguarded uncached answer
    and re-establishes the invariant.
    Nesting bound (explicit hypotheses `hN`, `hD`): all ranks are below `N` and `N ≤ maxNestedGets = 64`, i.e. the typed loads of the document nest fewer than 64 deep, so the `MAX_NESTED_GETS` branch of `get` is never taken. For a well-founded document that nests deeper the code answers an error where the unguarded evaluation has a value; this theorem says nothing about it. -/
theorem call_spec {d : Doc V E} {filt : Nat → List Nat} {rank : Nat → Nat} (wf : WF d filt rank)
    {N : Nat} (hN : ∀ r, rank r < N) (hD : N ≤ maxNestedGets) (cfg : Cfg) (ht : cfg.trustErr = false) (fuel : Nat) (hf : N ≤ fuel)
    (st : St V E) (hi : Inv d filt (ans d rank) st) (p : Prog V E) (hp : FineCall filt p) :
    (call d cfg fuel st p).1 = canon (ans d rank) d p ∧ Inv d filt (ans d rank) (call d cfg fuel st p).2 := by
  unfold call
  exact run_spec cfg wf.dec ((getM_spec wf cfg ht fuel).mono hf) (hp.mono fun r _ => hN r) [] st (by simp)
    (by simpa using hD) hi

/-- Nesting bound (explicit hypotheses `hN`, `hD`): all ranks are below `N` and `N ≤ maxNestedGets = 64`, i.e. the typed loads of the document nest fewer than 64 deep, so the `MAX_NESTED_GETS` branch of `get` is never taken. For a well-founded document that nests deeper the code answers an error where the unguarded evaluation has a value; this theorem says nothing about it. -/
theorem runCalls_spec {d : Doc V E} {filt : Nat → List Nat} {rank : Nat → Nat} (wf : WF d filt rank)
    {N : Nat} (hN : ∀ r, rank r < N) (hD : N ≤ maxNestedGets) (cfg : Cfg) (ht : cfg.trustErr = false) (fuel : Nat) (hf : N ≤ fuel)
    (calls : List (Prog V E)) : ∀ (st : St V E), Inv d filt (ans d rank) st → (∀ p ∈ calls, FineCall filt p) →
    runCalls d cfg fuel st calls = calls.map (canon (ans d rank) d) := by
  induction calls with
  | nil => intro st _ _; rfl
  | cons p ps ih =>
    intro st hi hc
    have h := call_spec wf hN hD cfg ht fuel hf st hi p (hc p (by simp))
    simp only [runCalls, List.map_cons]
    rw [h.1, ih _ h.2 (fun q hq => hc q (by simp [hq]))]

/-- **C12, reference semantics.** Whatever the cache configuration and however long the history, the
    answers are the plain recursive evaluation of the calls: no guard, no cache, no history.
    Nesting bound (explicit hypotheses `hN`, `hD`): all ranks are below `N` and `N ≤ maxNestedGets = 64`, i.e. the typed loads of the document nest fewer than 64 deep, so the `MAX_NESTED_GETS` branch of `get` is never taken. For a well-founded document that nests deeper the code answers an error where the unguarded evaluation has a value; this theorem says nothing about it. -/
theorem outputs_spec_partial {d : Doc V E} {filt : Nat → List Nat} {rank : Nat → Nat} (wf : WF d filt rank)
    {N : Nat} (hN : ∀ r, rank r < N) (hD : N ≤ maxNestedGets) (cfg : Cfg) (ht : cfg.trustErr = false) (fuel : Nat) (hf : N ≤ fuel)
    (calls : List (Prog V E)) (hc : ∀ p ∈ calls, FineCall filt p) :
    outputs d cfg fuel calls = calls.map (canon (ans d rank) d) :=
  runCalls_spec wf hN hD cfg ht fuel hf calls St.empty (Inv_empty _ _ _) hc

/-- **C12, first sentence.** A document opened with object and/or stream cache returns, call by call,
    what the same document opened without caches returns — for all four configurations (`cfg` is
    arbitrary), all call sequences, all well-founded documents.
    Nesting bound (explicit hypotheses `hN`, `hD`): all ranks are below `N` and `N ≤ maxNestedGets = 64`, i.e. the typed loads of the document nest fewer than 64 deep, so the `MAX_NESTED_GETS` branch of `get` is never taken. For a well-founded document that nests deeper the code answers an error where the unguarded evaluation has a value; this theorem says nothing about it. -/
theorem cache_transparent_partial {d : Doc V E} {filt : Nat → List Nat} {rank : Nat → Nat} (wf : WF d filt rank)
    {N : Nat} (hN : ∀ r, rank r < N) (hD : N ≤ maxNestedGets) (cfg : Cfg) (ht : cfg.trustErr = false) (fuel : Nat) (hf : N ≤ fuel)
    (calls : List (Prog V E)) (hc : ∀ p ∈ calls, FineCall filt p) :
    outputs d cfg fuel calls = outputs d Cfg.none fuel calls := by
  rw [outputs_spec_partial wf hN hD cfg ht fuel hf calls hc, outputs_spec_partial wf hN hD Cfg.none rfl fuel hf calls hc]

/-- the four named configurations, spelled out
    Nesting bound (explicit hypotheses `hN`, `hD`): all ranks are below `N` and `N ≤ maxNestedGets = 64`, i.e. the typed loads of the document nest fewer than 64 deep, so the `MAX_NESTED_GETS` branch of `get` is never taken. For a well-founded document that nests deeper the code answers an error where the unguarded evaluation has a value; this theorem says nothing about it. -/
theorem cache_transparent_four_partial {d : Doc V E} {filt : Nat → List Nat} {rank : Nat → Nat} (wf : WF d filt rank)
    {N : Nat} (hN : ∀ r, rank r < N) (hD : N ≤ maxNestedGets) (fuel : Nat) (hf : N ≤ fuel)
    (calls : List (Prog V E)) (hc : ∀ p ∈ calls, FineCall filt p) :
    outputs d Cfg.both fuel calls = outputs d Cfg.none fuel calls ∧
    outputs d Cfg.objOnly fuel calls = outputs d Cfg.none fuel calls ∧
    outputs d Cfg.stmOnly fuel calls = outputs d Cfg.none fuel calls :=
  ⟨cache_transparent_partial wf hN hD _ rfl fuel hf calls hc, cache_transparent_partial wf hN hD _ rfl fuel hf calls hc,
   cache_transparent_partial wf hN hD _ rfl fuel hf calls hc⟩

/-- **C12, second sentence.** The answer to a call never depends on which calls came before it: after
    any prefix `pre`, the call `q` answers what it answers as the first call on a fresh document.
    Nesting bound (explicit hypotheses `hN`, `hD`): all ranks are below `N` and `N ≤ maxNestedGets = 64`, i.e. the typed loads of the document nest fewer than 64 deep, so the `MAX_NESTED_GETS` branch of `get` is never taken. For a well-founded document that nests deeper the code answers an error where the unguarded evaluation has a value; this theorem says nothing about it. -/
theorem answer_independent_of_prefix_partial {d : Doc V E} {filt : Nat → List Nat} {rank : Nat → Nat}
    (wf : WF d filt rank) {N : Nat} (hN : ∀ r, rank r < N) (hD : N ≤ maxNestedGets) (cfg : Cfg) (ht : cfg.trustErr = false)
    (fuel : Nat) (hf : N ≤ fuel) (pre : List (Prog V E)) (q : Prog V E)
    (hc : ∀ p ∈ pre, FineCall filt p) (hq : FineCall filt q) :
    outputs d cfg fuel (pre ++ [q]) = outputs d cfg fuel pre ++ outputs d cfg fuel [q] := by
  rw [outputs_spec_partial wf hN hD cfg ht fuel hf (pre ++ [q]) (by
        intro p hp; simp at hp; rcases hp with hp | rfl
        · exact hc p hp
        · exact hq),
      outputs_spec_partial wf hN hD cfg ht fuel hf pre hc,
      outputs_spec_partial wf hN hD cfg ht fuel hf [q] (by intro p hp; simp at hp; subst hp; exact hq)]
  simp

/-- The fuel of the model is never exhausted: every call returns a value or an error.
    Nesting bound (explicit hypotheses `hN`, `hD`): all ranks are below `N` and `N ≤ maxNestedGets = 64`, i.e. the typed loads of the document nest fewer than 64 deep, so the `MAX_NESTED_GETS` branch of `get` is never taken. For a well-founded document that nests deeper the code answers an error where the unguarded evaluation has a value; this theorem says nothing about it. -/
theorem outputs_total_partial {d : Doc V E} {filt : Nat → List Nat} {rank : Nat → Nat} (wf : WF d filt rank)
    {N : Nat} (hN : ∀ r, rank r < N) (hD : N ≤ maxNestedGets) (cfg : Cfg) (ht : cfg.trustErr = false) (fuel : Nat) (hf : N ≤ fuel)
    (calls : List (Prog V E)) (hc : ∀ p ∈ calls, FineCall filt p) :
    ∀ x ∈ outputs d cfg fuel calls, x ≠ .oof := by
  rw [outputs_spec_partial wf hN hD cfg ht fuel hf calls hc]
  intro x hx
  simp only [List.mem_map] at hx
  obtain ⟨p, hp, rfl⟩ := hx
  exact canon_ne_oof d _ (hc p hp) (fun T r _ => ans_ne_oof wf N r T (hN r)) wf.dec

/-! ## The call kinds of the property as programs -/

/-- `resolve.get::<T>(r)` as a top level call -/
def getCall (T r : Nat) : Prog V E := .get T r .ret

/-- `resolve.get::<T>(r)?.data(resolve)` : `Stream::data` passes the stream's filter list `fs` -/
def dataCall (T r : Nat) (fs : List Nat) : Prog V E :=
  .get T r fun x => match x with
    | .ok _ => .data r fs .ret
    | .err e => .ret (.err e)
    | .oof => .ret .oof

theorem getCall_fine (filt : Nat → List Nat) (T r : Nat) : FineCall (V := V) (E := E) filt (getCall T r) :=
  .get T r _ trivial fun x hx => .ret x hx

theorem dataCall_fine (filt : Nat → List Nat) (T r : Nat) : FineCall (V := V) (E := E) filt (dataCall T r (filt r)) := by
  refine .get T r _ trivial fun x hx => ?_
  cases x with
  | ok v => exact .data r _ _ rfl fun y hy => .ret y hy
  | err e => exact .ret _ (by simp)
  | oof => exact absurd rfl hx

/-! ## Non-vacuity: a document with nested typed loads, a type mismatch, a cached error and stream data

Objects: 1 (leaf), 2 (loads 1, tolerant: an error becomes the value 0), 3 (loads 2 and 1, strict).
Type 0 fails on object 1 and succeeds on the others, type 1 always succeeds. Stream data of `r` has the
filters `[r]`. -/

def demoBody (T r : Nat) : Prog Nat Nat :=
  match r with
  | 1 => if T = 0 then .ret (.err 7) else .ret (.ok 100)
  | 2 => .get T 1 fun x => match x with
      | .ok v => .ret (.ok (v + 1))
      | .err _ => .ret (.ok 0)
      | .oof => .ret .oof
  | 3 => .get T 2 fun x => match x with
      | .ok v => .get 1 1 fun y => match y with
        | .ok w => .ret (.ok (v + w))
        | .err e => .ret (.err e)
        | .oof => .ret .oof
      | .err e => .ret (.err e)
      | .oof => .ret .oof
  | _ => .ret (.err 9)

/-- the re-resolve of a failed load: object 3 sits in "object stream" 1 -/
def demoRelog (r : Nat) : Prog Nat Nat := if r = 3 then .get 1 1 .ret else .ret (.ok 0)

def demo : Doc Nat Nat := ⟨demoBody, demoRelog, fun r fs => .ok (1000 * r + fs.length), 5⟩
def demoFilt (r : Nat) : List Nat := [r]
def demoRank (r : Nat) : Nat := if r ≤ 3 then r else 0

theorem demo_wf : WF demo demoFilt demoRank := by
  refine ⟨fun T r => ?_, fun r => ?_, fun r fs => by simp [demo]⟩
  rotate_left
  · show Fine _ _ (demoRelog r)
    unfold demoRelog
    split
    · rename_i h; subst h
      exact .get _ _ _ (by simp [demoRank]) fun x hx => .ret x hx
    · exact .ret _ (by simp)
  show Fine _ _ (demoBody T r)
  unfold demoBody
  split
  · split <;> exact .ret _ (by simp)
  · refine .get _ _ _ (by simp [demoRank]) fun x hx => ?_
    cases x <;> first | exact absurd rfl hx | exact .ret _ (by simp)
  · refine .get _ _ _ (by simp [demoRank]) fun x hx => ?_
    cases x with
    | ok v =>
      refine .get _ _ _ (by simp [demoRank]) fun y hy => ?_
      cases y <;> first | exact absurd rfl hy | exact .ret _ (by simp)
    | err e => exact .ret _ (by simp)
    | oof => exact absurd rfl hx
  · exact .ret _ (by simp)

def demoCalls : List (Prog Nat Nat) :=
  [getCall 0 3, getCall 1 3, getCall 0 1, getCall 1 1, dataCall 1 2 (demoFilt 2), getCall 0 2, getCall 1 2]

example : ∀ p ∈ demoCalls, FineCall demoFilt p := by
  intro p hp
  simp only [demoCalls, List.mem_cons, List.mem_nil_iff, or_false] at hp
  rcases hp with rfl | rfl | rfl | rfl | rfl | rfl | rfl <;>
    first | exact getCall_fine _ _ _ | exact dataCall_fine _ _ _

/-- the hypotheses are satisfiable and the caches are exercised: mismatch fallback, cached error, hits -/
example : outputs demo Cfg.both 4 demoCalls
    = [.ok 100, .ok 201, .err 7, .ok 100, .ok 2001, .ok 0, .ok 101] := by decide
example : outputs demo Cfg.none 4 demoCalls = outputs demo Cfg.both 4 demoCalls := by decide

/-! ## The generated documents of the correspondence check lie in the domain of the theorems

`CacheDoc.okRanks` is the decidable check the model driver evaluates on every generated description
(stream `c12.domain`); it is sound: -/

/-- a description that passes `okRanks` gives a document with well-founded typed loads (hypothesis `WF`
    of the theorems above, with the explicit rank function `rk`) and bounded ranks -/
theorem generated_doc_wf (d : CacheDoc.Desc) (h : CacheDoc.okRanks d = true) :
    WF (CacheDoc.toDoc d) (CacheDoc.filtersOf d) (CacheDoc.rk d) ∧ ∀ r, CacheDoc.rk d r < d.objs.length + 2 :=
  ⟨CacheDoc.wf_of_okRanks h, CacheDoc.rk_lt d⟩

/-- **C12 on the generated documents.** For every description that passes the check, every cache
    configuration and every history of the property's call kinds (typed loads, raw resolves, `Stream::data`,
    `raw_image_data`, `image_data`, page look-ups): the answers are those of the uncached document.
    Nesting bound (explicit hypothesis): `d.objs.length + 2 ≤ maxNestedGets = 64`, i.e. generated documents of at most 62 objects (the generators stay far below); beyond that the `MAX_NESTED_GETS` branch of `get` could be taken and this theorem says nothing. -/
theorem generated_cache_transparent (d : CacheDoc.Desc) (h : CacheDoc.okRanks d = true) (cfg : Cfg)
    (ht : cfg.trustErr = false) (root : CacheDoc.R) (calls : List CacheDoc.CallK) (fuel : Nat)
    (hf : d.objs.length + 2 ≤ fuel) (hsmall : d.objs.length + 2 ≤ maxNestedGets) :
    outputs (CacheDoc.toDoc d) cfg fuel (calls.map (·.prog d root))
      = outputs (CacheDoc.toDoc d) Cfg.none fuel (calls.map (·.prog d root)) := by
  refine cache_transparent_partial (CacheDoc.wf_of_okRanks h) (CacheDoc.rk_lt d) hsmall cfg ht fuel hf _ ?_
  intro p hp
  simp only [List.mem_map] at hp
  obtain ⟨c, _, rfl⟩ := hp
  exact CacheDoc.callK_fine h root c

/-- a description with an object stream, a three-level page tree, streams and an image passes the check -/
def sampleDesc : CacheDoc.Desc :=
  ⟨12, false,
   [⟨1, .cat 2, .inStm 9 0⟩, ⟨2, .pages 0 [3] 2, .direct⟩, ⟨3, .pages 2 [4, 5] 2, .inStm 9 1⟩,
    ⟨4, .page 3, .direct⟩, ⟨5, .page 3, .inStm 9 2⟩, ⟨6, .int 1006, .direct⟩,
    ⟨7, .stream [1, 4] ["a", "b", "c"], .direct⟩, ⟨8, .image [4] ["x", "y"], .direct⟩,
    ⟨9, .objstm 3 [4] ["p", "q"], .direct⟩]⟩

example : CacheDoc.okRanks sampleDesc = true := by decide +kernel

/-- … and one whose /Parent links form a cycle does not -/
example : CacheDoc.okRanks ⟨6, true, [⟨2, .pages 4 [4] 1, .direct⟩, ⟨4, .pages 2 [] 0, .direct⟩]⟩ = false := by
  decide +kernel

/-! ## What the code does not satisfy, and what it did not satisfy before the repairs -/

/-- The property for *every* finite document (references below `N`), cycles among typed loads included. -/
def C12_full : Prop :=
  ∀ (d : Doc Nat Nat) (filt : Nat → List Nat) (N : Nat),
    (∀ T r, Fine filt (fun r' => r' < N) (d.body T r)) → (∀ r fs, d.decode r fs ≠ .oof) →
    ∀ (cfg : Cfg), cfg.trustErr = false → ∀ calls : List (Prog Nat Nat), (∀ p ∈ calls, FineCall filt p) →
      outputs d cfg (N + 1) calls = outputs d Cfg.none (N + 1) calls

/-- D43: objects 1 and 2 load each other; an error of the nested load is swallowed (tolerant
    `Option<_>` field) -/
def cycBody (T r : Nat) : Prog Nat Nat :=
  match r with
  | 1 => .get T 2 fun x => match x with
      | .ok v => .ret (.ok (v + 10))
      | .err _ => .ret (.ok 1)
      | .oof => .ret .oof
  | 2 => .get T 1 fun x => match x with
      | .ok v => .ret (.ok (v + 10))
      | .err _ => .ret (.ok 1)
      | .oof => .ret .oof
  | _ => .ret (.err 9)

def cyc : Doc Nat Nat := ⟨cycBody, fun _ => .ret (.ok 0), fun _ _ => .ok 0, 5⟩

theorem cyc_fine : ∀ T r, Fine (fun _ => []) (fun r' => r' < 3) (cyc.body T r) := by
  intro T r
  show Fine _ _ (cycBody T r)
  unfold cycBody
  split
  · refine .get _ _ _ (by omega) fun x hx => ?_
    cases x <;> first | exact absurd rfl hx | exact .ret _ (by simp)
  · refine .get _ _ _ (by omega) fun x hx => ?_
    cases x <;> first | exact absurd rfl hx | exact .ret _ (by simp)
  · exact .ret _ (by simp)

/-- with the object cache the second call is served the value computed under the first call's guard -/
example : outputs cyc Cfg.both 4 [getCall 0 1, getCall 0 2] = [.ok 11, .ok 1] := by decide
example : outputs cyc Cfg.none 4 [getCall 0 1, getCall 0 2] = [.ok 11, .ok 11] := by decide

/-- **D43 (open).** The full statement is false of the code: cyclic typed loads. -/
theorem C12_counterexample : ¬ C12_full := by
  intro h
  have := h cyc (fun _ => []) 3 cyc_fine (by intro r fs; simp [cyc]) Cfg.both rfl
    [getCall 0 1, getCall 0 2] (by
      intro p hp
      simp only [List.mem_cons, List.mem_nil_iff, or_false] at hp
      rcases hp with rfl | rfl <;> exact getCall_fine _ _ _)
  revert this
  decide

/-- D28 (repaired): when a cached `Err` is trusted, `get::<T0>(1)` poisons `get::<T1>(1)` -/
theorem D28_old_rule_counterexample :
    outputs demo ⟨true, true, true⟩ 4 [getCall 0 1, getCall 1 1] ≠ outputs demo Cfg.none 4 [getCall 0 1, getCall 1 1] := by
  decide
example : outputs demo Cfg.both 4 [getCall 0 1, getCall 1 1] = [.err 7, .ok 100] := by decide

/-- D27 (repaired): `raw_image_data` used to send a *prefix* of the filters (here `[]` of `[2]`) through
    the stream cache; such a call is not `FineCall`, and it poisons `Stream::data` (and vice versa). -/
theorem D27_old_rule_counterexample :
    outputs demo Cfg.both 4 [dataCall 1 2 [], dataCall 1 2 (demoFilt 2)]
      ≠ outputs demo Cfg.none 4 [dataCall 1 2 [], dataCall 1 2 (demoFilt 2)] := by
  decide
example : outputs demo Cfg.both 4 [dataCall 1 2 [], dataCall 1 2 (demoFilt 2)] = [.ok 2000, .ok 2000] := by decide
example : outputs demo Cfg.none 4 [dataCall 1 2 [], dataCall 1 2 (demoFilt 2)] = [.ok 2000, .ok 2001] := by decide

end Cache
