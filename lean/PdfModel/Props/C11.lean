import PdfModel.Lemmas.ObjStm
import PdfModel.Lemmas.Offsets
import PdfModel.Lemmas.SuffixConcrete
import PdfModel.Lemmas.ShiftDecrypt
import PdfModel.Lemmas.Serialize

/-!
# C11 — an object's value does not depend on how it is stored

Reader side: `Model/ObjStm.lean` (`parseHeader`, `getObjectSlice`, `memberSlice`, `member`) and the
compressed / direct branches of `Offsets.resolveRef` (`Model/Offsets.lean`). Writer side (the
specification): `Spec/ObjStm.lean` — members `(id, text, sep)` are concatenated as `text ++ sep`, the
header records every text's offset, `/N` = number of members, `/First` = length of the header.

The value parser belongs to the C03/C04 package; here it is the parameter `P.parseMember`
(`parser::parse(slice, resolve, flags)`) — and `P.objAt` for the direct path — and what is needed from it
is stated as explicit hypotheses: it ignores trailing white-space (`IgnoresTrailingWs`; this is what D6
broke for integers), and the object parser reads, at a place where `text` is written, what the value
parser reads from `text` (`DirectHolds`). Filters are third-party code: the hypothesis is that decoding
the stored bytes gives the packed bytes (`hdec`), whatever the filter chain.
-/

namespace C11
open OffLex ObjStm ObjStmSpec Offsets

/-- everything fits the machine integers the reader computes with -/
def WellSized (ms : List Member) : Prop :=
  (pack ms).data.length ≤ usizeMax ∧ ∀ m ∈ ms, m.id ≤ usizeMax

/-- **Header.** The reader's loop recovers exactly the offsets the writer recorded, for any number of
    members (also none) and any member texts. -/
theorem objstm_header (ms : List Member) (hw : WellSized ms) :
    parseHeader (pack ms).n (pack ms).data = .ok (offsetsFrom 0 ms) := by
  obtain ⟨hlen, hids⟩ := hw
  have hb : ∀ pr ∈ pairs ms, pr.1 ≤ usizeMax ∧ pr.2 ≤ usizeMax := by
    intro pr hpr
    obtain ⟨h1, h2⟩ := List.of_mem_zip hpr
    constructor
    · simp only [List.mem_map] at h1
      obtain ⟨m, hm, heq⟩ := h1
      rw [← heq]; exact hids m hm
    · have := offsetsFrom_le ms 0 _ h2
      simp [pack] at hlen
      omega
  have := parseHeader_header (pairs ms) [] (body ms) (by simp) hb
  rw [pairs_length, pairs_snd] at this
  simpa [pack] using this

/-- (Scope: the *canonical* layout of the specification's writer `pack` — header numbers separated by single
    spaces, members back to back. An object stream with another legal header layout (several spaces, line breaks,
    comments) is covered by `member_total` (no panic) and by the correspondence streams `c11.member(.outside)`, not
    by this theorem; likewise every theorem below that assumes `decode … = (pack ms).data`.)

    **`objstm_slice`.** For every member `i` of a packed stream — first, middle or last, with or without
    white-space behind it — the reader's slice is exactly that member's text followed by its separator. -/
theorem objstm_slice (ms : List Member) (i : Nat) (hi : i < ms.length) (hw : WellSized ms) :
    member (pack ms).n (pack ms).first (pack ms).data i = .ok (ms[i].text ++ ms[i].sep) := by
  unfold member
  rw [objstm_header ms hw]
  obtain ⟨hlen, _⟩ := hw
  have hsplit := body_split ms i hi
  have hoi := offsetsFrom_get ms 0 i hi
  simp only [Nat.zero_add] at hoi
  have hdata : (pack ms).data = (header (pairs ms) ++ body (ms.take i)) ++ ((ms[i].text ++ ms[i].sep) ++ body (ms.drop (i + 1))) := by
    simp only [pack]; rw [hsplit]; simp [List.append_assoc]
  have hfirst : (pack ms).first = (header (pairs ms)).length := rfl
  have hdl : (pack ms).data.length = (header (pairs ms)).length + (body (ms.take i)).length
      + (ms[i].text ++ ms[i].sep).length + (body (ms.drop (i + 1))).length := by
    rw [hdata]; simp only [List.length_append]; omega
  unfold getObjectSlice
  simp only [offsetsFrom_length, hoi]
  have h1 : ¬ i ≥ ms.length := by omega
  have h2 : ¬ (pack ms).first + (body (ms.take i)).length > usizeMax := by rw [hfirst]; omega
  simp only [h1, h2, if_false]
  have hcut : ∀ stop, stop = (pack ms).first + (body (ms.take i)).length + (ms[i].text ++ ms[i].sep).length →
      memberSlice (pack ms).data ((pack ms).first + (body (ms.take i)).length) stop = .ok (ms[i].text ++ ms[i].sep) := by
    intro stop hs
    unfold memberSlice
    have hc : (pack ms).first + (body (ms.take i)).length ≤ stop ∧ stop ≤ (pack ms).data.length := by
      rw [hfirst] at hs ⊢; omega
    simp only [hc, and_self, if_true]
    have : stop - ((pack ms).first + (body (ms.take i)).length) = (ms[i].text ++ ms[i].sep).length := by omega
    rw [this, hdata, hfirst]
    have := slice_mid (header (pairs ms) ++ body (ms.take i)) (ms[i].text ++ ms[i].sep) (body (ms.drop (i + 1)))
    simpa [List.length_append] using this
  by_cases hlast : i = ms.length - 1
  · rw [if_pos hlast]
    apply hcut
    have : ms.drop (i + 1) = [] := by apply List.drop_eq_nil_of_le; omega
    rw [this] at hdl
    simp only [body, List.length_nil, Nat.add_zero] at hdl
    rw [hdl, hfirst]
  · rw [if_neg hlast]
    have hoi1 := offsetsFrom_get ms 0 (i + 1) (by omega)
    simp only [Nat.zero_add] at hoi1
    have htake : body (ms.take (i + 1)) = body (ms.take i) ++ (ms[i].text ++ ms[i].sep) := by
      have h3 := body_split (ms.take (i + 1)) i (by simp; omega)
      have e1 : (ms.take (i + 1)).take i = ms.take i := by simp [List.take_take]
      have e2 : (ms.take (i + 1)).drop (i + 1) = [] := by
        apply List.drop_eq_nil_of_le; exact List.length_take_le _ _
      have e3 : (ms.take (i + 1))[i]'(by simp; omega) = ms[i] := by simp
      rw [e1, e2, e3] at h3
      simpa [body] using h3
    simp only [hoi1]
    have h4 : ¬ (pack ms).first + (body (ms.take (i + 1))).length > usizeMax := by
      rw [htake, hfirst]; simp only [List.length_append] at hdl ⊢; omega
    simp only [h4, if_false]
    apply hcut
    rw [htake]; simp only [List.length_append]; omega

/-- … and beyond the last member the reader reports an error (never a panic). -/
theorem objstm_index_out_of_range (ms : List Member) (i : Nat) (hi : ms.length ≤ i) (hw : WellSized ms) :
    member (pack ms).n (pack ms).first (pack ms).data i = .err := by
  unfold member
  rw [objstm_header ms hw]
  simp [getObjectSlice, offsetsFrom_length, hi]

/-- **No panic.** Whatever the header, `/N`, `/First`, the data and the index are: looking a member up
    ends in a slice or an error — the index expressions `offsets[index]`, `offsets[index + 1]` are
    guarded and the additions are checked. -/
theorem member_total (n first : Nat) (data : Bytes) (i : Nat) : (member n first data i).Returns := by
  unfold member Out.Returns
  have h1 := parseHeader_returns n data
  cases hh : parseHeader n data with
  | ok offsets =>
    simp only
    have h2 := getObjectSlice_returns offsets first data i
    cases hg : getObjectSlice offsets first (.ok data) i with
    | ok r => simp only; unfold memberSlice; split <;> simp
    | err => simp
    | panic => simp [hg] at h2
    | oof => simp [hg] at h2
  | err => simp
  | panic => simp [hh] at h1
  | oof => simp [hh] at h1

example : addOld 19 (usizeMax - 3) = .panic := by decide

variable {V T : Type}

def allWs (ws : Bytes) : Prop := ∀ b ∈ ws, isWs b = true

/-- what is assumed of the value parser (another package's theorem; D6 was its counter-example) -/
def IgnoresTrailingWs (P : Parsers V T) : Prop :=
  ∀ (fl : Flags) (t ws : Bytes), allWs ws → P.parseMember fl (t ++ ws) = P.parseMember fl t

def plainOf : Out V → Out (Obj V)
  | .ok v => .ok (.plain v)
  | .err => .err | .panic => .panic | .oof => .oof

/-- the object parser, at a suffix where `n g obj text endobj` is written, reads what the value parser
    reads from `text` -/
def DirectHolds (P : Parsers V T) (fl : Flags) (sfx text : Bytes) : Prop :=
  P.objAt fl sfx = match P.parseMember fl text with
    | .ok v => .ok (.plain v)
    | .err => .err | .panic => .panic | .oof => .oof

/-- **`stored_equal`, compressed side.** Resolving a number whose entry is compressed — in any object
    stream that resolves to a stream object, under any filter chain that decodes to the packed bytes, at
    any index, with *any* flags — calls the value parser on exactly `text ++ sep` of that member. -/
theorem compressed_reads_member (P : Parsers V T) (buf : Bytes) (start : Nat) (t : Xref.Table)
    (fuel : Nat) (chain : List Nat) (flags : Flags) (id sid idx : Nat) (info : V) (a b : Nat) (raw : Bytes)
    (ms : List Member)
    (hlook : Xref.lookup t id = .compressed sid idx)
    (hchain : chain.contains sid = false)
    (hstm : resolveRef P buf start t fuel (sid :: chain) .any sid = .ok (.stream info a b))
    (hhead : P.stmHead info = .ok ((pack ms).n, (pack ms).first))
    (hraw : readRange buf a b = .ok raw)
    (hdec : P.decode info raw = .ok (pack ms).data)
    (hi : idx < ms.length) (hw : WellSized ms) :
    resolveRef P buf start t (fuel + 1) chain flags id
      = plainOf (P.parseMember flags (ms[idx].text ++ ms[idx].sep)) := by
  have hm := objstm_slice ms idx hi hw
  unfold member at hm
  simp only [resolveRef, hlook, hchain, Bool.false_eq_true, if_false, compressedBody, hstm, hhead, hraw, hdec]
  cases hh : parseHeader (pack ms).n (pack ms).data with
  | ok offsets =>
    simp only [hh] at hm ⊢
    cases hg : getObjectSlice offsets (pack ms).first (.ok (pack ms).data) idx with
    | ok dse =>
      obtain ⟨d, s, e⟩ := dse
      simp only [hg] at hm ⊢
      simp only [hm]
      cases P.parseMember flags (ms[idx].text ++ ms[idx].sep) <;> rfl
    | err => simp [hg] at hm
    | panic => simp [hg] at hm
    | oof => simp [hg] at hm
  | err => simp [hh] at hm
  | panic => simp [hh] at hm
  | oof => simp [hh] at hm

/-- **`stored_equal`.** Twins: number `id₁` stored as an ordinary indirect object holding `text`, number
    `id₂` stored as member `idx` of an object stream with the same `text` (and any white-space or none
    behind it). If the value parser ignores trailing white-space, both resolve to the same outcome, for
    every flag set. -/
theorem stored_equal (P : Parsers V T) (buf : Bytes) (start : Nat) (t : Xref.Table)
    (fuel : Nat) (chain : List Nat) (flags : Flags) (id₁ pos q : Nat) (sfx : Bytes)
    (id₂ sid idx : Nat) (info : V) (a b : Nat) (raw : Bytes) (ms : List Member)
    (hws : IgnoresTrailingWs P)
    -- the direct twin
    (hlook₁ : Xref.lookup t id₁ = .direct pos)
    (hsfx : suffixAt buf start pos = .ok (q, sfx))
    (hi : idx < ms.length)
    (hdirect : DirectHolds P flags sfx ms[idx].text)
    -- the compressed twin
    (hlook₂ : Xref.lookup t id₂ = .compressed sid idx)
    (hchain : chain.contains sid = false)
    (hstm : resolveRef P buf start t fuel (sid :: chain) .any sid = .ok (.stream info a b))
    (hhead : P.stmHead info = .ok ((pack ms).n, (pack ms).first))
    (hraw : readRange buf a b = .ok raw)
    (hdec : P.decode info raw = .ok (pack ms).data)
    (hsep : allWs ms[idx].sep) (hw : WellSized ms) :
    resolveRef P buf start t (fuel + 1) chain flags id₁ = resolveRef P buf start t (fuel + 1) chain flags id₂ := by
  rw [compressed_reads_member P buf start t fuel chain flags id₂ sid idx info a b raw ms hlook₂ hchain hstm hhead hraw hdec hi hw]
  rw [hws flags _ _ hsep]
  simp only [resolveRef, hlook₁, directBody, hsfx]
  unfold DirectHolds at hdirect
  rw [hdirect]
  cases P.parseMember flags ms[idx].text <;> rfl

/-- **`length_direct_eq_indirect`.** A stream whose `/Length` is a reference to an integer `n` — wherever
    that integer is stored — is read exactly like the stream with `/Length n` written directly.

    Scope: this is the *parametric* layer (`Offsets.streamWithLen`, the object parser reports a length that is still
    to be resolved). The concrete parser of `Model/Parser.lean` never reports `.indirect`: it resolves the reference
    itself through `env.resolveLen`, i.e. it takes the resolver's answer as a parameter. The concrete statement is
    `length_direct_eq_indirect_concrete` + `model_resolver_answers_compressed_length` (section `Concrete`); the
    comparison of the twin streams on the real library is the oracle `c11.twins`. -/
theorem length_direct_eq_indirect (P : Parsers V T) (resolveLen : Nat → Out (Obj V)) (sfx : Bytes) (q : Nat)
    (info : V) (rel lid : Nat) (v : V) (n : Nat)
    (hres : resolveLen lid = .ok (.plain v)) (hlen : P.asLen v = .ok n) :
    streamWithLen P resolveLen sfx q info rel (.indirect lid)
      = streamWithLen P resolveLen sfx q info rel (.direct n) := by
  simp [streamWithLen, hres, hlen]

/-- … in particular when the integer is a member of an object stream: the length request carries
    `ParseFlags::INTEGER`, and the compressed branch answers it like any other request. -/
theorem length_compressed (P : Parsers V T) (buf : Bytes) (start : Nat) (t : Xref.Table)
    (fuel : Nat) (chain : List Nat) (lid sid idx : Nat) (info : V) (a b : Nat) (raw : Bytes) (ms : List Member)
    (sfx : Bytes) (q : Nat) (sinfo : V) (rel : Nat) (v : V) (n : Nat)
    (hlook : Xref.lookup t lid = .compressed sid idx)
    (hchain : chain.contains sid = false)
    (hstm : resolveRef P buf start t fuel (sid :: chain) .any sid = .ok (.stream info a b))
    (hhead : P.stmHead info = .ok ((pack ms).n, (pack ms).first))
    (hraw : readRange buf a b = .ok raw)
    (hdec : P.decode info raw = .ok (pack ms).data)
    (hi : idx < ms.length) (hw : WellSized ms)
    (hval : P.parseMember .integer (ms[idx].text ++ ms[idx].sep) = .ok v) (hlen : P.asLen v = .ok n) :
    streamWithLen P (fun l => resolveRef P buf start t (fuel + 1) chain .integer l) sfx q sinfo rel (.indirect lid)
      = finishStream P sfx q sinfo rel n := by
  have h := compressed_reads_member P buf start t fuel chain .integer lid sid idx info a b raw ms hlook hchain hstm hhead hraw hdec hi hw
  rw [hval] at h
  simp [streamWithLen, h, plainOf, hlen]

/-! ## The gate that was removed (D42)

`if !flags.contains(ParseFlags::STREAM) { return Err(..) }` at the head of the compressed branch turned
every restricted request into an error: the `/Length` request (`INTEGER`) for a compressed integer could
not succeed, whatever the member was. -/

def compressedOld (flags : Flags) (r : Out (Obj V)) : Out (Obj V) := if gateOld flags then r else .err

example : compressedOld (V := Nat) .integer (.ok (.plain 5)) = .err := by decide
example : compressedOld (V := Nat) .any (.ok (.plain 5)) = .ok (.plain 5) := by decide

/-- `compressedOld` is a function *local to this file* that restates the removed gate
    (`if !flags.contains(STREAM) { return Err }`); the theorem says that this local function refuses every request
    carrying `INTEGER`. It is an illustration of D42, not a statement about `Model/Offsets.lean` (which describes the
    repaired code); the regression itself is held by the oracle `c11.twins` (`length-twin:indirect-compressed`). -/
theorem gateOld_refuses_lengths (r : Out (Obj Nat)) : compressedOld .integer r = .err := by
  simp [compressedOld, gateOld]

/-! ## The parser parameters discharged against the parser model (`Model/Parser.lean`)

`Offsets.concreteP env …` instantiates the token-level parsers with the concrete lexer / parser models:
members are read by `parse(slice, flags)`, indirect objects by `parse_indirect_object`. For every value `v`
and every conformant spelling `text` of it (`Spells`, `Spec/Syntax.lean`; by `C03.printer_conformant` every
text of the C03 printer `Spec/Render.lean` is one, and the serializer's output is covered by C04) the
hypotheses `IgnoresTrailingWs` / `DirectHolds` of `stored_equal` become theorems. What remains a parameter is
third-party: `env.parseReal` (`f32::from_str`) and the filter chain `dec`. -/

section Concrete
open PdfLex PdfShift

/-- an environment for the evaluated examples -/
def cEnvC : PdfLex.Env Unit :=
  { parseReal := fun _ => some (), resolveLen := fun _ _ => .err, allowMissingEndobj := false, decrypt := none, fileOffset := 0 }
open PdfSyntax (Gap Bnd Spells needsBnd KeysDistinct namesUtf8 vdepth need wf_of NatTok)

variable {R : Type}

/-- **Trailing white-space within the slice is irrelevant** (the hypothesis `IgnoresTrailingWs`, for the parser
    model): with any white-space or none behind it, up to the end of the buffer, the spelling parses to its
    value — in particular an integer that ends the buffer (D6). -/
theorem slice_parse_ignores_trailing_ws (env : Env R) (hd : env.decrypt = none) (v : Prim R) (text : List UInt8)
    (hsp : Spells env.parseReal v text) (hk : KeysDistinct v) (hu : namesUtf8 v = true) (hdepth : vdepth v ≤ maxDepth)
    (sep : List UInt8) (hsep : AllWs sep) (hsz : (text ++ sep).length ≤ 2147483647)
    (flags : Nat) (hfl : flags &&& flagOf v ≠ 0) :
    omap Prod.fst (parse env (text ++ sep).toArray flags) = .ok v ∧
    omap Prod.fst (parse env text.toArray flags) = .ok v := by
  constructor
  · rw [parse_member_slice env hd v text hsp hk hu hdepth sep hsep hsz flags hfl]; rfl
  · have := parse_member_slice env hd v text hsp hk hu hdepth [] (by intro b hb; cases hb) (by simp at hsz ⊢; omega) flags hfl
    simp only [List.append_nil] at this
    rw [this]; rfl

/-- **End of buffer = followed by a delimiter or white-space.** The value read from a member slice
    (`text ++ sep`, buffer ends) is the value read from the same text anywhere inside a larger buffer
    behind a gap and in front of anything that does not merge with it. -/
theorem slice_parse_eq_embedded (env : Env R) (hd : env.decrypt = none) (v : Prim R) (text : List UInt8)
    (hsp : Spells env.parseReal v text) (hk : KeysDistinct v) (hu : namesUtf8 v = true) (hdepth : vdepth v ≤ maxDepth)
    (sep : List UInt8) (hsep : AllWs sep) (hsz : (text ++ sep).length ≤ 2147483647)
    {buf : Buf} (hbsz : buf.size ≤ 2147483647) (g rest : List UInt8) (pos fuel : Nat) (ctx : Option (Nat × Nat))
    (hg : Gap g) (hs : Suffix buf pos (g ++ text ++ rest)) (hb : needsBnd v = true → Bnd rest)
    (hah : Ahead buf (pos + g.length + text.length)) (hfuel : need v ≤ fuel)
    (flags : Nat) (hfl : flags &&& flagOf v ≠ 0) :
    omap Prod.fst (parse env (text ++ sep).toArray flags)
      = omap Prod.fst (parseCtx env buf fuel pos ctx flags maxDepth) := by
  rw [parse_member_slice env hd v text hsp hk hu hdepth sep hsep hsz flags hfl,
    parseCtx_spells env hd v text hsp (wf_of v hk hu) hbsz g rest pos fuel ctx maxDepth flags hg hfl hs hb hah hfuel hdepth]
  rfl

/-- **`compressed_reads_member`, concrete.** With the parser model in place of the parameter: resolving a
    compressed entry whose member `idx` spells `v` yields `v` — any position, any white-space behind it or
    none, any filter chain that decodes to the packed bytes, any flag set that admits `v`'s kind. -/
theorem compressed_reads_member_concrete (env : Env R) (hd : env.decrypt = none) (pfuel : Nat)
    (dec : Dict R → OffLex.Bytes → Out OffLex.Bytes) (X : OffLex.Bytes → Out (List Xref.Sub × Dict R))
    (S : OffLex.Bytes → List (Out (Obj (Prim R))))
    (buf : OffLex.Bytes) (start : Nat) (t : Xref.Table) (fuel : Nat) (chain : List Nat) (flags : Offsets.Flags)
    (id sid idx : Nat) (info : Prim R) (a b : Nat) (raw : OffLex.Bytes) (ms : List Member) (v : Prim R)
    (hlook : Xref.lookup t id = .compressed sid idx)
    (hchain : chain.contains sid = false)
    (hstm : resolveRef (concreteP env pfuel dec X S) buf start t fuel (sid :: chain) .any sid = .ok (.stream info a b))
    (hhead : (concreteP env pfuel dec X S).stmHead info = .ok ((pack ms).n, (pack ms).first))
    (hraw : readRange buf a b = .ok raw)
    (hdec : (concreteP env pfuel dec X S).decode info raw = .ok (pack ms).data)
    (hi : idx < ms.length) (hw : WellSized ms)
    (hsp : Spells env.parseReal v ms[idx].text) (hk : KeysDistinct v) (hu : namesUtf8 v = true)
    (hdepth : vdepth v ≤ maxDepth) (hsep : AllWs ms[idx].sep)
    (hsz : (ms[idx].text ++ ms[idx].sep).length ≤ 2147483647)
    (hfl : flagsNat flags &&& flagOf v ≠ 0) :
    resolveRef (concreteP env pfuel dec X S) buf start t (fuel + 1) chain flags id = .ok (.plain v) := by
  rw [compressed_reads_member (concreteP env pfuel dec X S) buf start t fuel chain flags id sid idx info a b raw ms
    hlook hchain hstm hhead hraw hdec hi hw]
  have : (concreteP env pfuel dec X S).parseMember flags (ms[idx].text ++ ms[idx].sep) = .ok v := by
    show omap Prod.fst (parse { env with fileOffset := 0 } (ms[idx].text ++ ms[idx].sep).toArray (flagsNat flags)) = .ok v
    rw [parse_member_slice { env with fileOffset := 0 } hd v _ hsp hk hu hdepth _ hsep hsz _ hfl]; rfl
  rw [this]; rfl

/-- the direct twin: `n g obj text endobj` (any gaps the syntax allows) read through
    `Lexer::with_offset(read(start + pos ..), start + pos)` + `parse_indirect_object` -/
theorem direct_reads_text_concrete (env : Env R) (hd : env.decrypt = none) (pfuel : Nat)
    (dec : Dict R → OffLex.Bytes → Out OffLex.Bytes) (X : OffLex.Bytes → Out (List Xref.Sub × Dict R))
    (S : OffLex.Bytes → List (Out (Obj (Prim R))))
    (buf : OffLex.Bytes) (start : Nat) (t : Xref.Table) (fuel : Nat) (chain : List Nat) (flags : Offsets.Flags)
    (id pos q : Nat) (v : Prim R) (text g0 na g1 nb g2 g3 g4 rest : List UInt8) (oid ogen : Nat)
    (hlook : Xref.lookup t id = .direct pos)
    (hsfx : suffixAt buf start pos = .ok (q, g0 ++ na ++ g1 ++ nb ++ g2 ++ kwObj ++ g3 ++ text ++ g4 ++ kwEndobj ++ rest))
    (hsp : Spells env.parseReal v text) (hk : KeysDistinct v) (hu : namesUtf8 v = true) (hdepth : vdepth v ≤ maxDepth)
    (hsz : (g0 ++ na ++ g1 ++ nb ++ g2 ++ kwObj ++ g3 ++ text ++ g4 ++ kwEndobj ++ rest).length ≤ 2147483647)
    (hg0 : Gap g0) (ha : NatTok na oid) (hb : NatTok nb ogen) (hg1 : Gap g1) (hg1ne : g1 ≠ []) (hg2 : Gap g2)
    (hg2ne : g2 ≠ []) (hid : oid ≤ 18446744073709551615) (hgen : ogen ≤ 18446744073709551615) (hg3 : Gap g3) (hg4 : Gap g4)
    (hb3 : Bnd (g3 ++ text)) (hb4 : needsBnd v = true → g4 ≠ []) (hbnd : Bnd rest) (hfuel : need v ≤ pfuel)
    (hfl : flagsNat flags &&& flagOf v ≠ 0) :
    resolveRef (concreteP env pfuel dec X S) buf start t (fuel + 1) chain flags id = .ok (.plain v) := by
  simp only [resolveRef, hlook, directBody, hsfx]
  have hp := parseIndirectObject_spells { env with fileOffset := 0 } hd v text hsp (wf_of v hk hu)
    (buf := (g0 ++ na ++ g1 ++ nb ++ g2 ++ kwObj ++ g3 ++ text ++ g4 ++ kwEndobj ++ rest).toArray) (by simpa using hsz)
    g0 na g1 nb g2 g3 g4 rest oid ogen 0 pfuel hg0 ha hb hg1 hg1ne hg2 hg2ne hid hgen hg3 hg4 (suffix_zero _) hb3 hb4 hbnd
    hfuel hdepth (flagsNat flags) hfl
  have : (concreteP env pfuel dec X S).objAt flags (g0 ++ na ++ g1 ++ nb ++ g2 ++ kwObj ++ g3 ++ text ++ g4 ++ kwEndobj ++ rest)
      = .ok (.plain v) := by
    show toObjParse (parseIndirectObject { env with fileOffset := 0 } _ pfuel 0 (flagsNat flags)) = _
    rw [hp]
    cases v with
    | stream info inner => simp [Spells] at hsp
    | _ => rfl
  rw [this]

/-- **`stored_equal`, concrete.** A value stored as an ordinary indirect object and the same spelling stored
    as a member of an object stream resolve to the same value, for every value the syntax can spell. -/
theorem stored_equal_concrete (env : Env R) (hd : env.decrypt = none) (pfuel : Nat)
    (dec : Dict R → OffLex.Bytes → Out OffLex.Bytes) (X : OffLex.Bytes → Out (List Xref.Sub × Dict R))
    (S : OffLex.Bytes → List (Out (Obj (Prim R))))
    (buf : OffLex.Bytes) (start : Nat) (t : Xref.Table) (fuel : Nat) (chain : List Nat) (flags : Offsets.Flags)
    (v : Prim R) (hk : KeysDistinct v) (hu : namesUtf8 v = true) (hdepth : vdepth v ≤ maxDepth)
    (hfl : flagsNat flags &&& flagOf v ≠ 0)
    -- the direct twin
    (id₁ pos q : Nat) (text g0 na g1 nb g2 g3 g4 rest : List UInt8) (oid ogen : Nat)
    (hlook₁ : Xref.lookup t id₁ = .direct pos)
    (hsfx : suffixAt buf start pos = .ok (q, g0 ++ na ++ g1 ++ nb ++ g2 ++ kwObj ++ g3 ++ text ++ g4 ++ kwEndobj ++ rest))
    (hsp : Spells env.parseReal v text)
    (hsz : (g0 ++ na ++ g1 ++ nb ++ g2 ++ kwObj ++ g3 ++ text ++ g4 ++ kwEndobj ++ rest).length ≤ 2147483647)
    (hg0 : Gap g0) (ha : NatTok na oid) (hb : NatTok nb ogen) (hg1 : Gap g1) (hg1ne : g1 ≠ []) (hg2 : Gap g2)
    (hg2ne : g2 ≠ []) (hid : oid ≤ 18446744073709551615) (hgen : ogen ≤ 18446744073709551615) (hg3 : Gap g3) (hg4 : Gap g4)
    (hb3 : Bnd (g3 ++ text)) (hb4 : needsBnd v = true → g4 ≠ []) (hbnd : Bnd rest) (hfuel : need v ≤ pfuel)
    -- the compressed twin (possibly another conformant spelling of the same value)
    (id₂ sid idx : Nat) (info : Prim R) (a b : Nat) (raw : OffLex.Bytes) (ms : List Member)
    (hlook₂ : Xref.lookup t id₂ = .compressed sid idx)
    (hchain : chain.contains sid = false)
    (hstm : resolveRef (concreteP env pfuel dec X S) buf start t fuel (sid :: chain) .any sid = .ok (.stream info a b))
    (hhead : (concreteP env pfuel dec X S).stmHead info = .ok ((pack ms).n, (pack ms).first))
    (hraw : readRange buf a b = .ok raw)
    (hdec : (concreteP env pfuel dec X S).decode info raw = .ok (pack ms).data)
    (hi : idx < ms.length) (hw : WellSized ms)
    (hsp₂ : Spells env.parseReal v ms[idx].text) (hsep : AllWs ms[idx].sep)
    (hsz₂ : (ms[idx].text ++ ms[idx].sep).length ≤ 2147483647) :
    resolveRef (concreteP env pfuel dec X S) buf start t (fuel + 1) chain flags id₁
      = resolveRef (concreteP env pfuel dec X S) buf start t (fuel + 1) chain flags id₂ := by
  rw [direct_reads_text_concrete env hd pfuel dec X S buf start t fuel chain flags id₁ pos q v text g0 na g1 nb g2 g3 g4 rest
      oid ogen hlook₁ hsfx hsp hk hu hdepth hsz hg0 ha hb hg1 hg1ne hg2 hg2ne hid hgen hg3 hg4 hb3 hb4 hbnd hfuel hfl,
    compressed_reads_member_concrete env hd pfuel dec X S buf start t fuel chain flags id₂ sid idx info a b raw ms v
      hlook₂ hchain hstm hhead hraw hdec hi hw hsp₂ hk hu hdepth hsep hsz₂ hfl]

/-- **`length_compressed`, concrete.** The request `resolve_flags(r, INTEGER)` that `parse_stream_object` issues
    for an indirect `/Length` whose integer `n` is a member of an object stream is answered with `n`
    (`as_usize`): after the D42 repair the compressed branch serves restricted flag sets. -/
theorem length_compressed_concrete (env : Env R) (hd : env.decrypt = none) (pfuel : Nat)
    (dec : Dict R → OffLex.Bytes → Out OffLex.Bytes) (X : OffLex.Bytes → Out (List Xref.Sub × Dict R))
    (S : OffLex.Bytes → List (Out (Obj (Prim R))))
    (buf : OffLex.Bytes) (start : Nat) (t : Xref.Table) (fuel : Nat) (chain : List Nat)
    (lid sid idx : Nat) (info : Prim R) (a b : Nat) (raw : OffLex.Bytes) (ms : List Member) (n : Nat)
    (hlook : Xref.lookup t lid = .compressed sid idx)
    (hchain : chain.contains sid = false)
    (hstm : resolveRef (concreteP env pfuel dec X S) buf start t fuel (sid :: chain) .any sid = .ok (.stream info a b))
    (hhead : (concreteP env pfuel dec X S).stmHead info = .ok ((pack ms).n, (pack ms).first))
    (hraw : readRange buf a b = .ok raw)
    (hdec : (concreteP env pfuel dec X S).decode info raw = .ok (pack ms).data)
    (hi : idx < ms.length) (hw : WellSized ms)
    (hsp : Spells env.parseReal (.int (n : Int)) ms[idx].text) (hsep : AllWs ms[idx].sep)
    (hsz : (ms[idx].text ++ ms[idx].sep).length ≤ 2147483647) :
    (resolveRef (concreteP env pfuel dec X S) buf start t (fuel + 1) chain .integer lid).bind
        (fun o => match o with
          | .plain v => (concreteP env pfuel dec X S).asLen v
          | .stream _ _ _ => .err)
      = .ok n := by
  rw [compressed_reads_member_concrete env hd pfuel dec X S buf start t fuel chain .integer lid sid idx info a b raw ms (.int n)
    hlook hchain hstm hhead hraw hdec hi hw hsp (by simp [KeysDistinct]) (by simp [namesUtf8]) (by simp [vdepth]) hsep hsz
    (by simp only [flagsNat, flagOf]; decide)]
  simp [concreteP, asNat]

/-- … for every value as the C03 printer spells it (`Spec/Render.lean`, any tape of random layout choices) -/
theorem rendered_member_concrete (env : Env R) (hd : env.decrypt = none) (fmt : R → List UInt8) (v : Prim R)
    (tape : List Nat) (hr : PdfSpec.Renderable fmt env.parseReal v) (hk : KeysDistinct v) (hu : namesUtf8 v = true)
    (hdepth : vdepth v ≤ maxDepth) (sep : List UInt8) (hsep : AllWs sep)
    (hsz : ((PdfSpec.render fmt v tape).1 ++ sep).length ≤ 2147483647) (flags : Nat) (hfl : flags &&& flagOf v ≠ 0) :
    omap Prod.fst (parse env ((PdfSpec.render fmt v tape).1 ++ sep).toArray flags) = .ok v :=
  (slice_parse_ignores_trailing_ws env hd v _ (PdfSpec.render_spells fmt env.parseReal v hr tape) hk hu hdepth sep hsep hsz
    flags hfl).1

/-- … and as the library's own serializer writes it (`Model/Serialize.lean`) -/
theorem serialized_member_concrete (env : Env R) (hd : env.decrypt = none) (fmt : R → List UInt8) (v : Prim R)
    (out : List UInt8) (hs : Serialisable fmt env.parseReal v) (hout : serialize fmt v = .ok out)
    (hk : KeysDistinct v) (hu : namesUtf8 v = true) (hdepth : vdepth v ≤ maxDepth) (sep : List UInt8) (hsep : AllWs sep)
    (hsz : (out ++ sep).length ≤ 2147483647) (flags : Nat) (hfl : flags &&& flagOf v ≠ 0) :
    omap Prod.fst (parse env (out ++ sep).toArray flags) = .ok v := by
  obtain ⟨txt, trail, he, hsp, htr, _⟩ := serialize_spells fmt env.parseReal v hs
  rw [he] at hout
  cases hout
  have hws : AllWs (trail ++ sep) := by
    intro b hb
    rcases List.mem_append.mp hb with h | h
    · rcases htr with rfl | rfl
      · cases h
      · simp at h; subst h; decide
    · exact hsep b h
  have := (slice_parse_ignores_trailing_ws env hd v txt hsp hk hu hdepth (trail ++ sep) hws (by simpa using hsz) flags hfl).1
  simpa using this

/-! ### encrypted documents

In an encrypted document the strings of an ordinary indirect object are encrypted with the key of that object
(number, generation); the strings of a member of an object stream are *not* encrypted individually — the
stream's data is, as a whole, and `Stream::data` has already decrypted it.  In the model the difference is the
decryption context of the parser: `parse_indirect_object` runs with `Some(Context { id, .. })`
(`concreteP.objAt`), `parse(slice, resolve, flags)` of the compressed branch with none
(`concreteP.parseMember`).  `e` is the writer's encryptor, `d` the reader's decryptor (third party: RC4 / AES
with the object key), the hypothesis is that `d` inverts `e` for the direct twin's key. -/

theorem flagOf_mapStr (f : List UInt8 → List UInt8) (v : Prim R) : flagOf (mapStr f v) = flagOf v := by
  cases v <;> rfl

/-- the compressed branch does not consult the decryptor: a member reads as its plaintext value -/
theorem compressed_reads_member_encrypted (env : Env R) (hd : env.decrypt = none)
    (d : Nat → Nat → List UInt8 → List UInt8) (pfuel : Nat)
    (dec : Dict R → OffLex.Bytes → Out OffLex.Bytes) (X : OffLex.Bytes → Out (List Xref.Sub × Dict R))
    (S : OffLex.Bytes → List (Out (Obj (Prim R))))
    (buf : OffLex.Bytes) (start : Nat) (t : Xref.Table) (fuel : Nat) (chain : List Nat) (flags : Offsets.Flags)
    (id sid idx : Nat) (info : Prim R) (a b : Nat) (raw : OffLex.Bytes) (ms : List Member) (v : Prim R)
    (hlook : Xref.lookup t id = .compressed sid idx)
    (hchain : chain.contains sid = false)
    (hstm : resolveRef (concreteP (withDec env d) pfuel dec X S) buf start t fuel (sid :: chain) .any sid = .ok (.stream info a b))
    (hhead : (concreteP (withDec env d) pfuel dec X S).stmHead info = .ok ((pack ms).n, (pack ms).first))
    (hraw : readRange buf a b = .ok raw)
    (hdec : (concreteP (withDec env d) pfuel dec X S).decode info raw = .ok (pack ms).data)
    (hi : idx < ms.length) (hw : WellSized ms)
    (hsp : Spells env.parseReal v ms[idx].text) (hk : KeysDistinct v) (hu : namesUtf8 v = true)
    (hdepth : vdepth v ≤ maxDepth) (hsep : AllWs ms[idx].sep)
    (hsz : (ms[idx].text ++ ms[idx].sep).length ≤ 2147483647)
    (hfl : flagsNat flags &&& flagOf v ≠ 0) :
    resolveRef (concreteP (withDec env d) pfuel dec X S) buf start t (fuel + 1) chain flags id = .ok (.plain v) := by
  rw [compressed_reads_member (concreteP (withDec env d) pfuel dec X S) buf start t fuel chain flags id sid idx info a b raw ms
    hlook hchain hstm hhead hraw hdec hi hw]
  have : (concreteP (withDec env d) pfuel dec X S).parseMember flags (ms[idx].text ++ ms[idx].sep) = .ok v := by
    show omap Prod.fst (parse (withDec { env with fileOffset := 0 } d) (ms[idx].text ++ ms[idx].sep).toArray (flagsNat flags)) = .ok v
    rw [parse_ignores_decryptor]
    rw [parse_member_slice (noDec { env with fileOffset := 0 }) rfl v _ hsp hk hu hdepth _ hsep hsz _ hfl]; rfl
  rw [this]; rfl

/-- the direct branch decrypts the strings with the object's own key -/
theorem direct_reads_text_encrypted (env : Env R) (e d : Nat → Nat → List UInt8 → List UInt8) (pfuel : Nat)
    (dec : Dict R → OffLex.Bytes → Out OffLex.Bytes) (X : OffLex.Bytes → Out (List Xref.Sub × Dict R))
    (S : OffLex.Bytes → List (Out (Obj (Prim R))))
    (buf : OffLex.Bytes) (start : Nat) (t : Xref.Table) (fuel : Nat) (chain : List Nat) (flags : Offsets.Flags)
    (id pos q : Nat) (v : Prim R) (text g0 na g1 nb g2 g3 g4 rest : List UInt8) (oid ogen : Nat)
    (hinv : ∀ s, d oid ogen (e oid ogen s) = s)
    (hlook : Xref.lookup t id = .direct pos)
    (hsfx : suffixAt buf start pos = .ok (q, g0 ++ na ++ g1 ++ nb ++ g2 ++ kwObj ++ g3 ++ text ++ g4 ++ kwEndobj ++ rest))
    (hsp : Spells env.parseReal (mapStr (e oid ogen) v) text) (hk : KeysDistinct (mapStr (e oid ogen) v))
    (hu : namesUtf8 (mapStr (e oid ogen) v) = true) (hdepth : vdepth (mapStr (e oid ogen) v) ≤ maxDepth)
    (hsz : (g0 ++ na ++ g1 ++ nb ++ g2 ++ kwObj ++ g3 ++ text ++ g4 ++ kwEndobj ++ rest).length ≤ 2147483647)
    (hg0 : Gap g0) (ha : NatTok na oid) (hb : NatTok nb ogen) (hg1 : Gap g1) (hg1ne : g1 ≠ []) (hg2 : Gap g2)
    (hg2ne : g2 ≠ []) (hid : oid ≤ 18446744073709551615) (hgen : ogen ≤ 18446744073709551615) (hg3 : Gap g3) (hg4 : Gap g4)
    (hb3 : Bnd (g3 ++ text)) (hb4 : needsBnd (mapStr (e oid ogen) v) = true → g4 ≠ []) (hbnd : Bnd rest)
    (hfuel : need (mapStr (e oid ogen) v) ≤ pfuel)
    (hfl : flagsNat flags &&& flagOf v ≠ 0) :
    resolveRef (concreteP (withDec env d) pfuel dec X S) buf start t (fuel + 1) chain flags id = .ok (.plain v) := by
  simp only [resolveRef, hlook, directBody, hsfx]
  have hp := parseIndirectObject_spells (noDec { env with fileOffset := 0 }) rfl (mapStr (e oid ogen) v) text hsp
    (wf_of _ hk hu)
    (buf := (g0 ++ na ++ g1 ++ nb ++ g2 ++ kwObj ++ g3 ++ text ++ g4 ++ kwEndobj ++ rest).toArray) (by simpa using hsz)
    g0 na g1 nb g2 g3 g4 rest oid ogen 0 pfuel hg0 ha hb hg1 hg1ne hg2 hg2ne hid hgen hg3 hg4 (suffix_zero _) hb3 hb4 hbnd
    hfuel hdepth (flagsNat flags) (by rw [flagOf_mapStr]; exact hfl)
  have : (concreteP (withDec env d) pfuel dec X S).objAt flags (g0 ++ na ++ g1 ++ nb ++ g2 ++ kwObj ++ g3 ++ text ++ g4 ++ kwEndobj ++ rest)
      = .ok (.plain v) := by
    show toObjParse (parseIndirectObject (withDec { env with fileOffset := 0 } d) _ pfuel 0 (flagsNat flags)) = _
    rw [parseIndirectObject_dec, hp]
    simp only [omap, mapStr_inverts (e oid ogen) (d oid ogen) hinv v]
    cases v with
    | stream info inner => simp [mapStr, Spells] at hsp
    | _ => rfl
  rw [this]

/-- **`stored_equal_encrypted`.** In an encrypted document a value stored as an ordinary indirect object (its
    strings encrypted with the object's key by `e`) and the same value stored as a member of an object stream
    (strings in clear inside the encrypted stream) resolve to the same — the plaintext — value, under any
    decryptor `d` that inverts the writer's encryptor for the direct object's key.  The direct branch passes the
    object's key to the parser, the compressed branch passes none; passing one there would decrypt the
    member's strings a second time. -/
theorem stored_equal_encrypted (env : Env R) (hd : env.decrypt = none) (e d : Nat → Nat → List UInt8 → List UInt8)
    (pfuel : Nat) (dec : Dict R → OffLex.Bytes → Out OffLex.Bytes) (X : OffLex.Bytes → Out (List Xref.Sub × Dict R))
    (S : OffLex.Bytes → List (Out (Obj (Prim R))))
    (buf : OffLex.Bytes) (start : Nat) (t : Xref.Table) (fuel : Nat) (chain : List Nat) (flags : Offsets.Flags)
    (v : Prim R) (hfl : flagsNat flags &&& flagOf v ≠ 0)
    -- the direct twin: `oid ogen obj <v with encrypted strings> endobj`
    (id₁ pos q : Nat) (text g0 na g1 nb g2 g3 g4 rest : List UInt8) (oid ogen : Nat)
    (hinv : ∀ s, d oid ogen (e oid ogen s) = s)
    (hlook₁ : Xref.lookup t id₁ = .direct pos)
    (hsfx : suffixAt buf start pos = .ok (q, g0 ++ na ++ g1 ++ nb ++ g2 ++ kwObj ++ g3 ++ text ++ g4 ++ kwEndobj ++ rest))
    (hsp : Spells env.parseReal (mapStr (e oid ogen) v) text) (hkE : KeysDistinct (mapStr (e oid ogen) v))
    (huE : namesUtf8 (mapStr (e oid ogen) v) = true) (hdepthE : vdepth (mapStr (e oid ogen) v) ≤ maxDepth)
    (hsz : (g0 ++ na ++ g1 ++ nb ++ g2 ++ kwObj ++ g3 ++ text ++ g4 ++ kwEndobj ++ rest).length ≤ 2147483647)
    (hg0 : Gap g0) (ha : NatTok na oid) (hb : NatTok nb ogen) (hg1 : Gap g1) (hg1ne : g1 ≠ []) (hg2 : Gap g2)
    (hg2ne : g2 ≠ []) (hid : oid ≤ 18446744073709551615) (hgen : ogen ≤ 18446744073709551615) (hg3 : Gap g3) (hg4 : Gap g4)
    (hb3 : Bnd (g3 ++ text)) (hb4 : needsBnd (mapStr (e oid ogen) v) = true → g4 ≠ []) (hbnd : Bnd rest)
    (hfuel : need (mapStr (e oid ogen) v) ≤ pfuel)
    -- the compressed twin: the plaintext spelling as a member
    (id₂ sid idx : Nat) (info : Prim R) (a b : Nat) (raw : OffLex.Bytes) (ms : List Member)
    (hlook₂ : Xref.lookup t id₂ = .compressed sid idx)
    (hchain : chain.contains sid = false)
    (hstm : resolveRef (concreteP (withDec env d) pfuel dec X S) buf start t fuel (sid :: chain) .any sid = .ok (.stream info a b))
    (hhead : (concreteP (withDec env d) pfuel dec X S).stmHead info = .ok ((pack ms).n, (pack ms).first))
    (hraw : readRange buf a b = .ok raw)
    (hdec : (concreteP (withDec env d) pfuel dec X S).decode info raw = .ok (pack ms).data)
    (hi : idx < ms.length) (hw : WellSized ms)
    (hsp₂ : Spells env.parseReal v ms[idx].text) (hk : KeysDistinct v) (hu : namesUtf8 v = true)
    (hdepth : vdepth v ≤ maxDepth) (hsep : AllWs ms[idx].sep)
    (hsz₂ : (ms[idx].text ++ ms[idx].sep).length ≤ 2147483647) :
    resolveRef (concreteP (withDec env d) pfuel dec X S) buf start t (fuel + 1) chain flags id₁ = .ok (.plain v) ∧
    resolveRef (concreteP (withDec env d) pfuel dec X S) buf start t (fuel + 1) chain flags id₂ = .ok (.plain v) :=
  ⟨direct_reads_text_encrypted env e d pfuel dec X S buf start t fuel chain flags id₁ pos q v text g0 na g1 nb g2 g3 g4 rest
      oid ogen hinv hlook₁ hsfx hsp hkE huE hdepthE hsz hg0 ha hb hg1 hg1ne hg2 hg2ne hid hgen hg3 hg4 hb3 hb4 hbnd hfuel hfl,
   compressed_reads_member_encrypted env hd d pfuel dec X S buf start t fuel chain flags id₂ sid idx info a b raw ms v
      hlook₂ hchain hstm hhead hraw hdec hi hw hsp₂ hk hu hdepth hsep hsz₂ hfl⟩

def isStrC (bs : List UInt8) : Out (PdfLex.Prim Unit × Nat) → Bool
  | .ok (.str s, _) => s == bs
  | _ => false

/-- **The variant that decrypts members too is wrong.** A parser run *with* a context on a member slice applies
    the decryptor to the member's strings: with `d` = "flip every byte" the plaintext string `(a)` stored in an
    object stream would read as the byte 0x9E; `parse` (no context) reads `a`. -/
theorem member_with_context_decrypts_twice :
    isStrC [158] (parseCtx (withDec cEnvC (fun _ _ s => s.map (fun b => b ^^^ 255))) #[40, 97, 41] 10 0 (some (7, 0)) 1023 maxDepth)
      = true ∧
    isStrC [97] (parse (withDec cEnvC (fun _ _ s => s.map (fun b => b ^^^ 255))) #[40, 97, 41] 1023) = true := by
  decide +kernel

/-! ### the stream half at the concrete layer

Under the concrete parser the `.indirect` branch of `Offsets.streamWithLen` is not used: `parse_stream_object` of
`Model/Parser.lean` resolves `/Length i g R` itself, through `env.resolveLen` (`concreteP.objAt` then reports the
stream with a direct length). The two theorems below are the concrete counterpart of `length_direct_eq_indirect`:
the data read does not depend on how `/Length` is written, provided the resolver answers the data's length — and the
resolver instantiated with the model's own `resolveRef … .integer` does answer it for an integer stored in an object
stream (`model_resolver_answers_compressed_length`). The end-to-end comparison on the real library (all three forms,
raw and decoded data, unencrypted and encrypted) is the oracle `c11.twins` / `c11.twins.encrypted`. -/

open PdfSyntax (SpellsStream WFE keysOf needE vdepthE) in
/-- `id gen obj << … >> stream … endstream endobj` laid out at `pos` of `buf`, any gaps the syntax allows -/
structure StreamObjectAt (env : Env R) (info : Dict R) (data : List UInt8) (buf : Buf) (pos id gen : Nat) : Prop where
  layout : ∃ txt g0 a g1 b g2 g3 g4 rest, SpellsStream env.parseReal info data txt ∧ Gap g0 ∧ NatTok a id ∧ NatTok b gen ∧
    Gap g1 ∧ g1 ≠ [] ∧ Gap g2 ∧ g2 ≠ [] ∧ Gap g3 ∧ Gap g4 ∧ g4 ≠ [] ∧
    Suffix buf pos (g0 ++ a ++ g1 ++ b ++ g2 ++ kwObj ++ g3 ++ txt ++ g4 ++ kwEndobj ++ rest) ∧ Bnd rest
  wf : WFE info
  nodup : (keysOf info).Nodup
  size : buf.size ≤ 2147483647
  idOk : id ≤ 18446744073709551615
  genOk : gen ≤ 18446744073709551615
  depth : 1 + vdepthE info ≤ maxDepth

open PdfSyntax (needE) in
/-- a stream object whose `/Length` — written either way — is the length of its data is read with exactly that data -/
theorem stream_object_reads_data_concrete (env : Env R) (hd : env.decrypt = none) (info : Dict R) (data : List UInt8)
    (buf : Buf) (pos id gen fuel : Nat) (h : StreamObjectAt env info data buf pos id gen)
    (hlen : LengthIs env info data.length) (hfuel : 2 + needE info ≤ fuel) :
    ∃ dataPos q, parseIndirectObject env buf fuel pos 1023
        = .ok (((id, gen), streamAt env info (id, gen) dataPos data.length), q) ∧
      slice buf dataPos (dataPos + data.length) = data := by
  obtain ⟨txt, g0, a, g1, b, g2, g3, g4, rest, hsp, hg0, ha, hb, hg1, hg1ne, hg2, hg2ne, hg3, hg4, hg4ne, hs, hbnd⟩ := h.layout
  obtain ⟨dp, h1, h2⟩ := parseIndirectObject_stream env hd info data txt hsp h.wf h.nodup hlen h.size g0 a g1 b g2 g3 g4 rest
    id gen pos fuel hg0 ha hb hg1 hg1ne hg2 hg2ne h.idOk h.genOk hg3 hg4 hg4ne hs hbnd hfuel h.depth 1023 (by decide)
  exact ⟨dp, _, h1, h2⟩

open PdfSyntax (needE) in
/-- **`length_direct_eq_indirect`, concrete.** The same stream written once with `/Length n` and once with
    `/Length i g R`, where the resolver answers `n` for `i g`, is read through `parse_indirect_object` of
    `Model/Parser.lean` with the SAME data (and a `file_range` of the same length). The resolver's answer is the
    hypothesis `hres`; `model_resolver_answers_compressed_length` discharges it for the model's own resolve. -/
theorem length_direct_eq_indirect_concrete (env : Env R) (hd : env.decrypt = none) (data : List UInt8)
    (info₁ info₂ : Dict R) (buf₁ buf₂ : Buf) (pos₁ id₁ gen₁ pos₂ id₂ gen₂ fuel li lg : Nat)
    (h₁ : StreamObjectAt env info₁ data buf₁ pos₁ id₁ gen₁) (h₂ : StreamObjectAt env info₂ data buf₂ pos₂ id₂ gen₂)
    (hl₁ : dictGet info₁ kwLength = some (.int (data.length : Int)))
    (hl₂ : dictGet info₂ kwLength = some (.ref li lg)) (hres : env.resolveLen li lg = .ok data.length)
    (hf₁ : 2 + needE info₁ ≤ fuel) (hf₂ : 2 + needE info₂ ≤ fuel) :
    ∃ p₁ q₁ p₂ q₂,
      parseIndirectObject env buf₁ fuel pos₁ 1023 = .ok (((id₁, gen₁), streamAt env info₁ (id₁, gen₁) p₁ data.length), q₁) ∧
      parseIndirectObject env buf₂ fuel pos₂ 1023 = .ok (((id₂, gen₂), streamAt env info₂ (id₂, gen₂) p₂ data.length), q₂) ∧
      slice buf₁ p₁ (p₁ + data.length) = data ∧ slice buf₂ p₂ (p₂ + data.length) = data := by
  obtain ⟨p₁, q₁, e₁, d₁⟩ := stream_object_reads_data_concrete env hd info₁ data buf₁ pos₁ id₁ gen₁ fuel h₁ (Or.inl hl₁) hf₁
  obtain ⟨p₂, q₂, e₂, d₂⟩ := stream_object_reads_data_concrete env hd info₂ data buf₂ pos₂ id₂ gen₂ fuel h₂
    (Or.inr ⟨li, lg, hl₂, hres⟩) hf₂
  exact ⟨p₁, q₁, p₂, q₂, e₁, e₂, d₁, d₂⟩

/-- `r.resolve_flags(reference, INTEGER, 1)?.as_usize()` instantiated with the model's own resolve: the length
    resolver that `parse_stream_object` would be handed by `Storage` (the objects it resolves are integers, so the
    inner environment `env₀` needs no length resolver of its own) -/
def modelLenResolver (env₀ : Env R) (pfuel : Nat) (dec : Dict R → OffLex.Bytes → Out OffLex.Bytes)
    (X : OffLex.Bytes → Out (List Xref.Sub × Dict R)) (S : OffLex.Bytes → List (Out (Obj (Prim R))))
    (buf : OffLex.Bytes) (start : Nat) (t : Xref.Table) (fuel : Nat) (chain : List Nat) : Nat → Nat → Out Nat :=
  fun i _ =>
    (resolveRef (concreteP env₀ pfuel dec X S) buf start t fuel chain .integer i).bind
      (fun o => match o with
        | .plain v => (concreteP env₀ pfuel dec X S).asLen v
        | .stream _ _ _ => .err)

/-- **`env.resolveLen` tied to `resolveRef … .integer`.** With the environment's length resolver instantiated by the
    model's own resolve, a `/Length` reference to an integer `n` that is a member of an object stream is answered
    with `n` (this is `length_compressed_concrete` read as a fact about the resolver): the hypothesis `hres` of
    `length_direct_eq_indirect_concrete` for the compressed storage form. -/
theorem model_resolver_answers_compressed_length (env₀ : Env R) (hd : env₀.decrypt = none) (pfuel : Nat)
    (dec : Dict R → OffLex.Bytes → Out OffLex.Bytes) (X : OffLex.Bytes → Out (List Xref.Sub × Dict R))
    (S : OffLex.Bytes → List (Out (Obj (Prim R))))
    (buf : OffLex.Bytes) (start : Nat) (t : Xref.Table) (fuel : Nat) (chain : List Nat)
    (lid lg sid idx : Nat) (info : Prim R) (a b : Nat) (raw : OffLex.Bytes) (ms : List Member) (n : Nat)
    (hlook : Xref.lookup t lid = .compressed sid idx)
    (hchain : chain.contains sid = false)
    (hstm : resolveRef (concreteP env₀ pfuel dec X S) buf start t fuel (sid :: chain) .any sid = .ok (.stream info a b))
    (hhead : (concreteP env₀ pfuel dec X S).stmHead info = .ok ((pack ms).n, (pack ms).first))
    (hraw : readRange buf a b = .ok raw)
    (hdec : (concreteP env₀ pfuel dec X S).decode info raw = .ok (pack ms).data)
    (hi : idx < ms.length) (hw : WellSized ms)
    (hsp : Spells env₀.parseReal (.int (n : Int)) ms[idx].text) (hsep : AllWs ms[idx].sep)
    (hsz : (ms[idx].text ++ ms[idx].sep).length ≤ 2147483647) :
    ({ env₀ with resolveLen := modelLenResolver env₀ pfuel dec X S buf start t (fuel + 1) chain } : Env R).resolveLen lid lg
      = .ok n :=
  length_compressed_concrete env₀ hd pfuel dec X S buf start t fuel chain lid sid idx info a b raw ms n
    hlook hchain hstm hhead hraw hdec hi hw hsp hsep hsz

end Concrete

/-! ## Non-vacuity: a concrete stream with an integer first, a name in the middle without separator, a
string, and `null` last without anything behind it -/

def sample : List Member :=
  [⟨7, [49, 50], [32]⟩,                       -- `12` + space
   ⟨9, [47, 65, 98], []⟩,                     -- `/Ab`, nothing behind it
   ⟨11, [40, 120, 41], [13, 10]⟩,             -- `(x)` + CR LF
   ⟨12, [110, 117, 108, 108], []⟩]            -- `null`, last, nothing behind it

example : WellSized sample := by unfold WellSized; decide
/-- `7 0 9 3 11 6 12 11 12 /Ab(x)\r\nnull` -/
example : (pack sample).data =
    [55, 32, 48, 32, 57, 32, 51, 32, 49, 49, 32, 54, 32, 49, 50, 32, 49, 49, 32,
     49, 50, 32, 47, 65, 98, 40, 120, 41, 13, 10, 110, 117, 108, 108] := by decide
example : (pack sample).first = 19 ∧ (pack sample).n = 4 := by decide
example : member 4 19 (pack sample).data 0 = .ok [49, 50, 32] := by decide
example : member 4 19 (pack sample).data 1 = .ok [47, 65, 98] := by decide
example : member 4 19 (pack sample).data 3 = .ok [110, 117, 108, 108] := by decide
example : member 4 19 (pack sample).data 4 = .err := by decide

/-! ## Witness: the hypotheses of `compressed_reads_member_concrete` and `stored_equal_concrete` are satisfiable

A complete little file: object 8 is an object stream holding `12` (object 2) and `/A` (object 3); object 9 is the
integer `12` stored as an ordinary indirect object. Every hypothesis of the two theorems is discharged below, so
their conclusions hold of an actual document (the hypotheses about the resolved object stream are read off the
model's own evaluation of `resolveRef` on these bytes). -/

section Witness
open PdfLex PdfShift PdfSyntax

def wMs : List Member := [⟨2, [49, 50], [32]⟩, ⟨3, [47, 65], []⟩]

/-- `%PDF-1.4⏎8 0 obj⏎<</Type/ObjStm/N 2/First 8/Length 13>>⏎stream⏎2 0 3 3 12 /A⏎endstream⏎endobj⏎9 0 obj⏎12⏎endobj⏎` -/
def wBuf : OffLex.Bytes :=
  [37, 80, 68, 70, 45, 49, 46, 52, 10, 56, 32, 48, 32, 111, 98, 106, 10, 60, 60, 47, 84, 121, 112, 101, 47, 79, 98, 106,
   83, 116, 109, 47, 78, 32, 50, 47, 70, 105, 114, 115, 116, 32, 56, 47, 76, 101, 110, 103, 116, 104, 32, 49, 51, 62, 62,
   10, 115, 116, 114, 101, 97, 109, 10, 50, 32, 48, 32, 51, 32, 51, 32, 49, 50, 32, 47, 65, 10, 101, 110, 100, 115, 116,
   114, 101, 97, 109, 10, 101, 110, 100, 111, 98, 106, 10, 57, 32, 48, 32, 111, 98, 106, 10, 49, 50, 10, 101, 110, 100,
   111, 98, 106, 10]

def wTab : Xref.Table :=
  [.free 0 65535, .invalid, .stream 8 0, .stream 8 1, .invalid, .invalid, .invalid, .invalid, .raw 9 0, .raw 94 0]

/-- the concrete parsers with the identity filter (the stream of the witness is stored unfiltered) -/
abbrev wP : Parsers (Prim Unit) (Dict Unit) := concreteP cEnvC 100 (fun _ raw => .ok raw) (fun _ => .err) (fun _ => [])

/-- `Prim` has no decidable equality: the facts about the resolved object stream are checked by a Boolean function -/
def wStmOk : Out (Obj (Prim Unit)) → Bool
  | .ok (.stream info a b) =>
      decide (wP.stmHead info = .ok ((pack wMs).n, (pack wMs).first)) &&
      decide (readRange wBuf a b = .ok (pack wMs).data) &&
      decide (wP.decode info (pack wMs).data = .ok (pack wMs).data)
  | _ => false

theorem wStm : ∃ info a b, resolveRef wP wBuf 0 wTab 1 [8] .any 8 = .ok (.stream info a b) ∧
    wP.stmHead info = .ok ((pack wMs).n, (pack wMs).first) ∧ readRange wBuf a b = .ok (pack wMs).data ∧
    wP.decode info (pack wMs).data = .ok (pack wMs).data := by
  have h : wStmOk (resolveRef wP wBuf 0 wTab 1 [8] .any 8) = true := by decide +kernel
  generalize resolveRef wP wBuf 0 wTab 1 [8] .any 8 = r at h
  match r, h with
  | .ok (.stream info a b), h =>
    simp only [wStmOk, Bool.and_eq_true, decide_eq_true_eq] at h
    exact ⟨info, a, b, rfl, h.1.1, h.1.2, h.2⟩

theorem wSpells12 : Spells cEnvC.parseReal (.int 12 : Prim Unit) [49, 50] :=
  ⟨⟨[49, 50], by simp, by simp [Digits, isDig], Or.inl ⟨rfl, by decide⟩⟩, by decide, by decide⟩

theorem wAllWs : AllWs [32] := by intro b hb; simp at hb; subst hb; decide

/-- every hypothesis of `compressed_reads_member_concrete` holds of the witness -/
example : resolveRef wP wBuf 0 wTab 2 [] .any 2 = .ok (.plain (.int 12)) := by
  obtain ⟨info, a, b, hstm, hhead, hraw, hdec⟩ := wStm
  exact compressed_reads_member_concrete cEnvC rfl 100 _ _ _ wBuf 0 wTab 1 [] .any 2 8 0 info a b _ wMs (.int 12)
    (by decide) (by decide) hstm hhead hraw hdec (by decide) (by unfold WellSized; decide) wSpells12
    (by simp [KeysDistinct]) (by decide) (by decide) wAllWs (by decide) (by decide)

/-- every hypothesis of `stored_equal_concrete` holds of the witness: object 9 (stored directly) and object 2
    (a member of object stream 8) resolve to the same value -/
example : resolveRef wP wBuf 0 wTab 2 [] .any 9 = resolveRef wP wBuf 0 wTab 2 [] .any 2 := by
  obtain ⟨info, a, b, hstm, hhead, hraw, hdec⟩ := wStm
  exact stored_equal_concrete cEnvC rfl 100 _ _ _ wBuf 0 wTab 1 [] .any (.int 12)
    (by simp [KeysDistinct]) (by decide) (by decide) (by decide)
    9 94 94 [49, 50] [] [57] [32] [48] [32] [10] [10] [10] 9 0
    (by decide) (by decide) wSpells12 (by decide)
    .nil ⟨by simp, by simp [Digits, isDig], by decide⟩ ⟨by simp, by simp [Digits, isDig], by decide⟩
    (.ws 32 [] (by decide) .nil) (by simp) (.ws 32 [] (by decide) .nil) (by simp) (by decide) (by decide)
    (.ws 10 [] (by decide) .nil) (.ws 10 [] (by decide) .nil)
    (by show isReg 10 = false; decide) (by intro _; simp) (by show isReg 10 = false; decide) (by decide)
    2 8 0 info a b _ wMs
    (by decide) (by decide) hstm hhead hraw hdec (by decide) (by unfold WellSized; decide) wSpells12 wAllWs (by decide)

/-- the length resolver instantiated with the model's own resolve answers `12` for `/Length 2 0 R` in the witness
    (object 2 is a member of object stream 8): the hypothesis `hres` of `length_direct_eq_indirect_concrete` -/
example : ({ cEnvC with
      resolveLen := modelLenResolver cEnvC 100 (fun _ raw => .ok raw) (fun _ => .err) (fun _ => []) wBuf 0 wTab 2 [] }
      : Env Unit).resolveLen 2 0 = .ok 12 := by
  obtain ⟨info, a, b, hstm, hhead, hraw, hdec⟩ := wStm
  exact model_resolver_answers_compressed_length cEnvC rfl 100 _ _ _ wBuf 0 wTab 1 [] 2 0 8 0 info a b _ wMs 12
    (by decide) (by decide) hstm hhead hraw hdec (by decide) (by unfold WellSized; decide) wSpells12 wAllWs (by decide)

end Witness

end C11
