import PdfModel.Lemmas.Xref
import PdfModel.Lemmas.XrefStream

/-!
# C02 — the newest cross-reference entry for an object always wins

A *history* is the list of sections of a file, oldest first; every section is a list of subsections
(`Sub`), each a first object number and a run of entries (`free | raw | stream`, i.e. free / direct /
compressed). `Backend::read_xref_table_and_trailer` merges the sections newest first
(`mergeAll (newTable size) h.reverse`).

The theorems below are about the model in `Model/Xref.lean`; the correspondence check for C02 ties
`addSub`/`mergeAll`/`lookup` to `XRefTable::add_entries_from`, `read_xref_table_and_trailer` and
`Storage::resolve_ref` of the current source tree.
-/

namespace Xref

/-- all mentions of `id` in the history, newest first -/
def mentionsOf (h : List (List Sub)) (id : Nat) : List XRef := mentions (allPairs h.reverse) id

/-- the entry written by the most recent section that mentions `id` -/
def latest (h : List (List Sub)) (id : Nat) : Option XRef := (mentionsOf h id).head?

/-- Well-formedness of a history w.r.t. one object number: the readers only produce proper entries, and
    the newest mention is either compressed or carries a generation number that no older mention
    exceeds ("generation numbers never decrease over time"). -/
def WF (h : List (List Sub)) (id : Nat) : Prop :=
  pairsOK (allPairs h.reverse) ∧
  match mentionsOf h id with
  | [] => True
  | e :: older => keeps e older

/-- what resolving `id` must do according to the newest mention -/
def expected (size : Nat) (h : List (List Sub)) (id : Nat) : Lookup :=
  match latest h id with
  | some (.raw pos _) => .direct pos
  | some (.stream s i) => .compressed s i
  | some (.free _ _) => .freeObject
  | some _ => .unimplemented   -- excluded by WF
  | none => if id < size then .nullRef else if id = size then .freeObject else .unspecified

/-- The merge never fails and never panics on what the section readers produce. -/
theorem merge_total (size : Nat) (h : List (List Sub)) (hp : pairsOK (allPairs h.reverse)) :
    ∃ t, mergeAll (newTable size) h.reverse = .ok t ∧ t.length = size + 1 := by
  have hnp : noProm (newTable size) := by
    intro e he; simp [newTable] at he; rcases he with ⟨_, rfl⟩ | rfl <;> simp
  refine ⟨_, mergeAll_eq _ _ hnp hp, ?_⟩
  have : ∀ (ps : List (Nat × XRef)) (t : Table), (pureAdd t ps).length = t.length := by
    intro ps
    induction ps with
    | nil => intro t; rfl
    | cons p ps ih => intro t; simp only [pureAdd, List.foldl_cons] at *; rw [ih, setAt_length]
  rw [this]; simp [newTable]

/-- **C02, table level.** For every history, every `/Size`, every object number below `/Size` whose
    mentions are well-formed: the merged table holds exactly the newest mention, or `Invalid` when no
    section mentions the number. Any number of sections, any subsection splitting, any mix of kinds. -/
theorem merge_newest_wins (size : Nat) (h : List (List Sub)) (id : Nat) (hid : id < size) (wf : WF h id) :
    ∃ t, mergeAll (newTable size) h.reverse = .ok t ∧
      t[id]? = some ((latest h id).getD .invalid) := by
  obtain ⟨hp, hk⟩ := wf
  have hnp : noProm (newTable size) := by
    intro e he; simp [newTable] at he; rcases he with ⟨_, rfl⟩ | rfl <;> simp
  refine ⟨_, mergeAll_eq _ _ hnp hp, ?_⟩
  rw [pureAdd_get]
  unfold latest
  unfold mentionsOf at hk ⊢
  have h1 : (newTable size)[id]? = some .invalid := by
    simp [newTable, List.getElem?_append_left, hid]
  cases hm : mentions (allPairs h.reverse) id with
  | nil => simp [mergeList, h1]
  | cons e older =>
    rw [hm] at hk
    have he : isEntry e = true := by
      have : e ∈ mentions (allPairs h.reverse) id := by rw [hm]; simp
      simp only [mentions, List.mem_map, List.mem_filter] at this
      obtain ⟨p, ⟨hp1, _⟩, rfl⟩ := this
      exact hp p hp1
    simp [h1, mergeList_invalid, mergeList_keep e he older hk]

/-- Numbers that no section mentions keep their initial slot: `Invalid` below `/Size`, the trailing free
    entry at `/Size`, nothing beyond (⇒ `UnspecifiedXRefEntry`). -/
theorem unmentioned_untouched (size : Nat) (h : List (List Sub)) (id : Nat)
    (hp : pairsOK (allPairs h.reverse)) (hm : mentionsOf h id = []) :
    ∃ t, mergeAll (newTable size) h.reverse = .ok t ∧ t[id]? = (newTable size)[id]? := by
  have hnp : noProm (newTable size) := by
    intro e he; simp [newTable] at he; rcases he with ⟨_, rfl⟩ | rfl <;> simp
  refine ⟨_, mergeAll_eq _ _ hnp hp, ?_⟩
  rw [pureAdd_get]
  unfold mentionsOf at hm
  rw [hm]
  cases (newTable size)[id]? <;> simp [mergeList]

/-- **C02, resolve level.** What `resolve_ref` does with object number `id < /Size` is decided by the
    newest mention alone: direct → parse at that position, compressed → that object stream and index,
    freed → `FreeObject`, never mentioned → `NullRef`; in particular never an older value. -/
theorem resolve_latest (size : Nat) (h : List (List Sub)) (id : Nat) (hid : id < size) (wf : WF h id) :
    ∃ t, mergeAll (newTable size) h.reverse = .ok t ∧ lookup t id = expected size h id := by
  obtain ⟨t, ht, hg⟩ := merge_newest_wins size h id hid wf
  refine ⟨t, ht, ?_⟩
  unfold lookup expected
  rw [hg]
  obtain ⟨hp, _⟩ := wf
  cases hl : latest h id with
  | none => simp [hid]
  | some e =>
    have he : isEntry e = true := by
      unfold latest mentionsOf at hl
      have : e ∈ mentions (allPairs h.reverse) id := List.mem_of_head? hl
      simp only [mentions, List.mem_map, List.mem_filter] at this
      obtain ⟨p, ⟨hp1, _⟩, rfl⟩ := this
      exact hp p hp1
    cases e <;> simp_all [isEntry]

/-- A number whose newest mention frees it is reported as free; a number nobody defines as missing. -/
theorem free_or_missing_never_stale (size : Nat) (h : List (List Sub)) (id : Nat) (hid : id < size)
    (wf : WF h id) :
    ∃ t, mergeAll (newTable size) h.reverse = .ok t ∧
      ((∃ n g, latest h id = some (.free n g)) → lookup t id = .freeObject) ∧
      (latest h id = none → lookup t id = .nullRef) := by
  obtain ⟨t, ht, hl⟩ := resolve_latest size h id hid wf
  refine ⟨t, ht, ?_, ?_⟩
  · rintro ⟨n, g, hf⟩; rw [hl]; simp [expected, hf]
  · intro hn; rw [hl]; simp [expected, hn, hid]

/-- Subsection splitting is irrelevant: two sections that list the same (number, entry) pairs in the
    same order merge identically, in particular one run versus the same run cut at any point. -/
theorem split_irrelevant (t : Table) (first : Nat) (a b : List XRef) :
    addSubs t [⟨first, a ++ b⟩] = addSubs t [⟨first, a⟩, ⟨first + a.length, b⟩] := by
  have key : ∀ (a : List XRef) (t : Table) (i : Nat),
      addFrom t i (a ++ b) = match addFrom t i a with
        | .ok t' => addFrom t' (i + a.length) b
        | .err => .err | .panic => .panic | .oof => .oof := by
    intro a
    induction a with
    | nil => intro t i; simp [addFrom]
    | cons e es ih =>
      intro t i
      simp only [List.cons_append, addFrom, List.length_cons]
      cases addEntry t i e with
      | ok t' => simp only; rw [ih]; simp [Nat.add_assoc, Nat.add_comm 1]
      | err => rfl
      | panic => rfl
      | oof => rfl
  simp only [addSubs, addSub]
  rw [key]
  cases addFrom t first a <;> simp


/-! ## Cross-reference streams: the byte-level section reader returns what a conforming writer wrote -/

/-- **C02, "each section in either xref format" (stream format, one subsection).** Rows written
    big-endian in any widths `≤ 8` that fit the fields (type field omitted only when every entry is of
    type 1) are read back exactly, in strict and in tolerant mode, and the cursor ends after the rows. -/
theorem stream_section_reads_back (first : Nat) (es : List XRef) (w0 w1 w2 : Nat) (rest : List UInt8)
    (allowErr : Bool) (h0 : w0 ≤ 8) (h1 : w1 ≤ 8) (h2 : w2 ≤ 8)
    (hf : ∀ e ∈ es, Fits w0 w1 w2 e) (hsz : es.length * (w0 + w1 + w2) < U64) :
    parseSection first es.length [w0, w1, w2] (encodeRows w0 w1 w2 es ++ rest) allowErr
      = .ok (⟨first, es⟩, rest) := by
  unfold parseSection
  have hrow : ¬ (w0 + w1 + w2 ≥ U64) := by unfold U64; omega
  have hprod : ¬ (es.length * (w0 + w1 + w2) ≥ U64) := by omega
  have hlen : ¬ (es.length * (w0 + w1 + w2) > (encodeRows w0 w1 w2 es ++ rest).length) := by
    rw [List.length_append, encodeRows_length _ _ _ _ hf]; omega
  simp only [hrow, hprod, hlen, if_false]
  rw [readEntries_encode w0 w1 w2 es rest [] h0 h1 h2 hf]
  simp

/-- **C02, any subsection splitting (stream format).** The `/Index` loop reads every subsection of a
    section back, in order: `parseSections` inverts the concatenation of the encoded subsections. -/
theorem stream_sections_read_back (subs : List Sub) (w0 w1 w2 : Nat) (allowErr : Bool)
    (h0 : w0 ≤ 8) (h1 : w1 ≤ 8) (h2 : w2 ≤ 8)
    (hf : ∀ s ∈ subs, ∀ e ∈ s.entries, Fits w0 w1 w2 e)
    (hsz : ∀ s ∈ subs, s.entries.length * (w0 + w1 + w2) < U64) (acc : List Sub) :
    parseSections [w0, w1, w2] allowErr (subs.map fun s => (s.first, s.entries.length))
        (subs.flatMap fun s => encodeRows w0 w1 w2 s.entries) acc
      = .ok (acc.reverse ++ subs) := by
  induction subs generalizing acc with
  | nil => simp [parseSections]
  | cons s ss ih =>
    simp only [List.map_cons, List.flatMap_cons, parseSections]
    rw [stream_section_reads_back s.first s.entries w0 w1 w2 _ allowErr h0 h1 h2
          (hf s (by simp)) (hsz s (by simp))]
    simp only
    rw [ih (fun x hx => hf x (by simp [hx])) (fun x hx => hsz x (by simp [hx]))]
    simp

/-- a concrete section with all three entry kinds satisfies the hypotheses (non-vacuity) -/
example : ∀ e ∈ [XRef.free 0 65535, .raw 1234 0, .stream 7 3], Fits 1 2 2 e := by
  intro e he
  simp only [List.mem_cons, List.not_mem_nil, or_false] at he
  rcases he with rfl | rfl | rfl <;> simp [Fits, fieldsOf]

example : parseSection 0 3 [1, 2, 2] (encodeRows 1 2 2 [.free 0 65535, .raw 1234 0, .stream 7 3]) false
    = .ok (⟨0, [.free 0 65535, .raw 1234 0, .stream 7 3]⟩, []) := by decide

/-- **C02, file → table, stream format.** A history whose sections are all written as cross-reference
    streams (any widths per section, any subsection splitting) is read and merged to the table that
    holds the newest mention of every well-formed object number: the composition of the byte-level
    reader with `merge_newest_wins`. `enc` describes the file: per section its widths and its bytes. -/
theorem stream_history_newest_wins (size : Nat) (h : List (List Sub)) (id : Nat) (hid : id < size)
    (wf : WF h id) (allowErr : Bool)
    (widths : List Sub → Nat × Nat × Nat)
    (hw : ∀ sec ∈ h, (widths sec).1 ≤ 8 ∧ (widths sec).2.1 ≤ 8 ∧ (widths sec).2.2 ≤ 8)
    (hf : ∀ sec ∈ h, ∀ s ∈ sec, ∀ e ∈ s.entries, Fits (widths sec).1 (widths sec).2.1 (widths sec).2.2 e)
    (hsz : ∀ sec ∈ h, ∀ s ∈ sec,
      s.entries.length * ((widths sec).1 + (widths sec).2.1 + (widths sec).2.2) < U64) :
    (∀ sec ∈ h,
      parseSections [(widths sec).1, (widths sec).2.1, (widths sec).2.2] allowErr
        (sec.map fun s => (s.first, s.entries.length))
        (sec.flatMap fun s => encodeRows (widths sec).1 (widths sec).2.1 (widths sec).2.2 s.entries) []
        = .ok sec) ∧
    ∃ t, mergeAll (newTable size) h.reverse = .ok t ∧ t[id]? = some ((latest h id).getD .invalid) := by
  refine ⟨?_, merge_newest_wins size h id hid wf⟩
  intro sec hsec
  obtain ⟨a, b, c⟩ := hw sec hsec
  have := stream_sections_read_back sec _ _ _ allowErr a b c (hf sec hsec) (hsz sec hsec) []
  simpa using this

/-! ## The rule before the repair (D11) did not satisfy the property

`XRef::Stream { .. } | XRef::Invalid => true` let *any* older section overwrite a compressed entry.
The two-section history below (old: object 1 direct at 100; new: object 1 moved into object stream 5)
resolves to the stale direct object under that rule and to the compressed one under the current rule. -/

def shouldUpdateOld (dst inc : XRef) : Bool :=
  match dst with
  | .raw _ g | .free _ g => decide (gen inc > g)
  | .stream _ _ => true
  | .invalid => true
  | .promised => false

def witnessHistory : List (List Sub) := [[⟨1, [.raw 100 0]⟩], [⟨1, [.stream 5 0]⟩]]

example : mergeAll (newTable 6) witnessHistory.reverse
    = .ok [.invalid, .stream 5 0, .invalid, .invalid, .invalid, .invalid, .free 0 65535] := by decide
example : shouldUpdateOld (.stream 5 0) (.raw 100 0) = true := by decide
example : shouldUpdate (.stream 5 0) (.raw 100 0) = .ok false := by decide

/-! ## Non-vacuity: a three-revision history with reuse, freeing and compression satisfies `WF` -/

def sampleHistory : List (List Sub) :=
  [ [⟨0, [.free 0 65535, .raw 10 0, .raw 20 0, .raw 30 0]⟩],      -- original body
    [⟨2, [.free 0 1]⟩, ⟨4, [.raw 40 0]⟩],                          -- update 1: frees 2, adds 4
    [⟨1, [.stream 4 0]⟩, ⟨2, [.raw 50 1]⟩] ]                       -- update 2: compresses 1, reuses 2

example : ∀ id, id < 5 → WF sampleHistory id := by
  intro id hid
  have : id = 0 ∨ id = 1 ∨ id = 2 ∨ id = 3 ∨ id = 4 := by omega
  rcases this with rfl | rfl | rfl | rfl | rfl <;>
    (refine ⟨by unfold pairsOK; decide, ?_⟩; simp [sampleHistory, mentionsOf, mentions, allPairs, secPairs, subPairs, pairsFrom, keeps, gen])

example : (mergeAll (newTable 5) sampleHistory.reverse)
    = .ok [.free 0 65535, .stream 4 0, .raw 50 1, .raw 30 0, .raw 40 0, .free 0 65535] := by decide

end Xref
