import PdfModel.Lemmas.Xref
import PdfModel.Lemmas.XrefStream
import PdfModel.Lemmas.XrefTable
import PdfModel.Lemmas.XrefTableWriter
import PdfModel.Lemmas.XrefWalk
import PdfModel.Lemmas.XrefFile
import PdfModel.Lemmas.XrefTableTotal
import PdfModel.Lemmas.XrefFiltered
import PdfModel.Lemmas.XrefFilteredSection

/-!
# C02 — the newest cross-reference entry for an object always wins

A *history* is the list of sections of a file, oldest first; every section is a list of subsections
(`Sub`), each a first object number and a run of entries (`free | raw | stream`, i.e. free / direct /
compressed). `Backend::read_xref_table_and_trailer` merges the sections newest first
(`mergeAll (newTable size) h.reverse`).

The theorems below are about the model in `Model/Xref.lean`; the correspondence check for C02 ties
`addSub`/`mergeAll`/`lookup` to `XRefTable::add_entries_from`, `read_xref_table_and_trailer` and
`Storage::resolve_ref` of the current source tree.

What the theorems cover and what they do not.  Proved here: which *entry* (location: offset / object stream and
index / free / invalid) the merged table holds for an object number (`merge_newest_wins`, `resolve_latest`,
`free_or_missing_never_stale`), for histories and — through both byte-level section readers and the `/Prev` walk —
for the bytes of a file (`file_walk_newest_wins`, `file_walk_newest_wins_filtered`), and that the trailer returned is
the newest one (`trailer_is_newest`).  `WF h id` is a hypothesis throughout: generation numbers of an object
number never decrease towards the newest mention (what "well-formed file" means for the merge rule).
The `*_history_newest_wins*` theorems are conjunctions (every section is read back by its reader; the merge of
those sections is newest-wins), not one function from bytes to table.
Not a theorem, oracle / correspondence only: that resolving the object number then yields the *value* written by
that update (object bodies are not modelled here; the oracle `c02.latest` compares planted markers on generated
multi-revision files, and C11 / C17 own the models of `resolve_ref`); where `startxref` points
(`locateXref buf = .ok off` is a hypothesis of the walk theorems; modelled under C17).
-/

namespace Xref

/-- all mentions of `id` in the history, newest first -/
def mentionsOf (h : List (List Sub)) (id : Nat) : List XRef := mentions (allPairs h.reverse) id

/-- the entry written by the most recent section that mentions `id` -/
def latest (h : List (List Sub)) (id : Nat) : Option XRef := (mentionsOf h id).head?

/-- Well-formedness of a history w.r.t. one object number: the readers only produce proper entries, and
    the newest mention is either compressed or carries a generation number that no older mention
    exceeds ("generation numbers never decrease over time"). -/
def WF (h : List (List Sub)) (id : Nat) : Prop :=
  pairsOK (allPairs h.reverse) ∧
  match mentionsOf h id with
  | [] => True
  | e :: older => keeps e older

/-- what resolving `id` must do according to the newest mention -/
def expected (size : Nat) (h : List (List Sub)) (id : Nat) : Lookup :=
  match latest h id with
  | some (.raw pos _) => .direct pos
  | some (.stream s i) => .compressed s i
  | some (.free _ _) => .freeObject
  | some _ => .unimplemented   -- excluded by WF
  | none => if id < size then .nullRef else if id = size then .freeObject else .unspecified

/-- The merge never fails and never panics on what the section readers produce. -/
theorem merge_total (size : Nat) (h : List (List Sub)) (hp : pairsOK (allPairs h.reverse)) :
    ∃ t, mergeAll (newTable size) h.reverse = .ok t ∧ t.length = size + 1 := by
  have hnp : noProm (newTable size) := by
    intro e he; simp [newTable] at he; rcases he with ⟨_, rfl⟩ | rfl <;> simp
  refine ⟨_, mergeAll_eq _ _ hnp hp, ?_⟩
  have : ∀ (ps : List (Nat × XRef)) (t : Table), (pureAdd t ps).length = t.length := by
    intro ps
    induction ps with
    | nil => intro t; rfl
    | cons p ps ih => intro t; simp only [pureAdd, List.foldl_cons] at *; rw [ih, setAt_length]
  rw [this]; simp [newTable]

/-- **C02, table level.** For every history, every `/Size`, every object number below `/Size` whose
    mentions are well-formed: the merged table holds exactly the newest mention, or `Invalid` when no
    section mentions the number. Any number of sections, any subsection splitting, any mix of kinds. -/
theorem merge_newest_wins (size : Nat) (h : List (List Sub)) (id : Nat) (hid : id < size) (wf : WF h id) :
    ∃ t, mergeAll (newTable size) h.reverse = .ok t ∧
      t[id]? = some ((latest h id).getD .invalid) := by
  obtain ⟨hp, hk⟩ := wf
  have hnp : noProm (newTable size) := by
    intro e he; simp [newTable] at he; rcases he with ⟨_, rfl⟩ | rfl <;> simp
  refine ⟨_, mergeAll_eq _ _ hnp hp, ?_⟩
  rw [pureAdd_get]
  unfold latest
  unfold mentionsOf at hk ⊢
  have h1 : (newTable size)[id]? = some .invalid := by
    simp [newTable, List.getElem?_append_left, hid]
  cases hm : mentions (allPairs h.reverse) id with
  | nil => simp [mergeList, h1]
  | cons e older =>
    rw [hm] at hk
    have he : isEntry e = true := by
      have : e ∈ mentions (allPairs h.reverse) id := by rw [hm]; simp
      simp only [mentions, List.mem_map, List.mem_filter] at this
      obtain ⟨p, ⟨hp1, _⟩, rfl⟩ := this
      exact hp p hp1
    simp [h1, mergeList_invalid, mergeList_keep e he older hk]

/-- Numbers that no section mentions keep their initial slot: `Invalid` below `/Size`, the trailing free
    entry at `/Size`, nothing beyond (⇒ `UnspecifiedXRefEntry`). -/
theorem unmentioned_untouched (size : Nat) (h : List (List Sub)) (id : Nat)
    (hp : pairsOK (allPairs h.reverse)) (hm : mentionsOf h id = []) :
    ∃ t, mergeAll (newTable size) h.reverse = .ok t ∧ t[id]? = (newTable size)[id]? := by
  have hnp : noProm (newTable size) := by
    intro e he; simp [newTable] at he; rcases he with ⟨_, rfl⟩ | rfl <;> simp
  refine ⟨_, mergeAll_eq _ _ hnp hp, ?_⟩
  rw [pureAdd_get]
  unfold mentionsOf at hm
  rw [hm]
  cases (newTable size)[id]? <;> simp [mergeList]

/-- **C02, resolve level.** What `resolve_ref` does with object number `id < /Size` is decided by the
    newest mention alone: direct → parse at that position, compressed → that object stream and index,
    freed → `FreeObject`, never mentioned → `NullRef`; in particular never an older value. -/
theorem resolve_latest (size : Nat) (h : List (List Sub)) (id : Nat) (hid : id < size) (wf : WF h id) :
    ∃ t, mergeAll (newTable size) h.reverse = .ok t ∧ lookup t id = expected size h id := by
  obtain ⟨t, ht, hg⟩ := merge_newest_wins size h id hid wf
  refine ⟨t, ht, ?_⟩
  unfold lookup expected
  rw [hg]
  obtain ⟨hp, _⟩ := wf
  cases hl : latest h id with
  | none => simp [hid]
  | some e =>
    have he : isEntry e = true := by
      unfold latest mentionsOf at hl
      have : e ∈ mentions (allPairs h.reverse) id := List.mem_of_head? hl
      simp only [mentions, List.mem_map, List.mem_filter] at this
      obtain ⟨p, ⟨hp1, _⟩, rfl⟩ := this
      exact hp p hp1
    cases e <;> simp_all [isEntry]

/-- A number whose newest mention frees it is reported as free; a number nobody defines as missing. -/
theorem free_or_missing_never_stale (size : Nat) (h : List (List Sub)) (id : Nat) (hid : id < size)
    (wf : WF h id) :
    ∃ t, mergeAll (newTable size) h.reverse = .ok t ∧
      ((∃ n g, latest h id = some (.free n g)) → lookup t id = .freeObject) ∧
      (latest h id = none → lookup t id = .nullRef) := by
  obtain ⟨t, ht, hl⟩ := resolve_latest size h id hid wf
  refine ⟨t, ht, ?_, ?_⟩
  · rintro ⟨n, g, hf⟩; rw [hl]; simp [expected, hf]
  · intro hn; rw [hl]; simp [expected, hn, hid]

/-- Subsection splitting, **one cut**: a run of entries written as one subsection merges exactly as the same run
    cut at any one point into two consecutive subsections. (The general statement — any number of cuts — is
    `split_irrelevant_general` below; subsections in a different *order* are not covered by either.) -/
theorem split_irrelevant (t : Table) (first : Nat) (a b : List XRef) :
    addSubs t [⟨first, a ++ b⟩] = addSubs t [⟨first, a⟩, ⟨first + a.length, b⟩] := by
  have key : ∀ (a : List XRef) (t : Table) (i : Nat),
      addFrom t i (a ++ b) = match addFrom t i a with
        | .ok t' => addFrom t' (i + a.length) b
        | .err => .err | .panic => .panic | .oof => .oof := by
    intro a
    induction a with
    | nil => intro t i; simp [addFrom]
    | cons e es ih =>
      intro t i
      simp only [List.cons_append, addFrom, List.length_cons]
      cases addEntry t i e with
      | ok t' => simp only; rw [ih]; simp [Nat.add_assoc, Nat.add_comm 1]
      | err => rfl
      | panic => rfl
      | oof => rfl
  simp only [addSubs, addSub]
  rw [key]
  cases addFrom t first a <;> simp


/-- a run starting at `first`, cut into consecutive subsections with the given pieces -/
def cutRun (first : Nat) : List (List XRef) → List Sub
  | [] => []
  | p :: ps => ⟨first, p⟩ :: cutRun (first + p.length) ps

/-- **Subsection splitting is irrelevant (any partition).** A run of entries written as one subsection merges
    exactly as the same run cut at any number of points into consecutive subsections (pieces of any length,
    empty ones included): same table, same error / panic outcome.  By induction on the list of pieces. -/
theorem split_irrelevant_general (first : Nat) (parts : List (List XRef)) :
    ∀ t : Table, addSubs t [⟨first, parts.flatten⟩] = addSubs t (cutRun first parts) := by
  have single : ∀ (t : Table) (s : Sub), addSubs t [s] = addFrom t s.first s.entries := by
    intro t s
    simp only [addSubs, addSub]
    cases addFrom t s.first s.entries <;> rfl
  have app : ∀ (b a : List XRef) (t : Table) (i : Nat),
      addFrom t i (a ++ b) = match addFrom t i a with
        | .ok t' => addFrom t' (i + a.length) b
        | .err => .err | .panic => .panic | .oof => .oof := by
    intro b a
    induction a with
    | nil => intro t i; simp [addFrom]
    | cons e es ih =>
      intro t i
      simp only [List.cons_append, addFrom, List.length_cons]
      cases addEntry t i e with
      | ok t' => simp only; rw [ih]; simp [Nat.add_assoc, Nat.add_comm 1]
      | err => rfl
      | panic => rfl
      | oof => rfl
  induction parts generalizing first with
  | nil => intro t; simp [cutRun, addSubs, addSub, addFrom]
  | cons p ps ih =>
    intro t
    rw [single]
    simp only [List.flatten_cons, cutRun, addSubs, addSub]
    rw [app]
    cases addFrom t first p with
    | ok t' =>
      simp only
      rw [← ih (first + p.length) t', single]
    | err => rfl
    | panic => rfl
    | oof => rfl

/-- three pieces, one of them empty -/
example : cutRun 4 [[.raw 1 0], [], [.free 0 1, .stream 9 0]]
    = [⟨4, [.raw 1 0]⟩, ⟨5, []⟩, ⟨5, [.free 0 1, .stream 9 0]⟩] := by decide

/-! ## Cross-reference streams: the byte-level section reader returns what a conforming writer wrote -/

/-- **C02, "each section in either xref format" (stream format, one subsection).** Rows written
    big-endian in any widths `≤ 8`, not all zero, that fit the fields (type field omitted only when every
    entry is of type 1) are read back exactly, in strict and in tolerant mode, and the cursor ends after the rows. -/
theorem stream_section_reads_back (first : Nat) (es : List XRef) (w0 w1 w2 : Nat) (rest : List UInt8)
    (allowErr : Bool) (h0 : w0 ≤ 8) (h1 : w1 ≤ 8) (h2 : w2 ≤ 8)
    (hf : ∀ e ∈ es, Fits w0 w1 w2 e) (hpos : 0 < w0 + w1 + w2) :
    parseSection first es.length [w0, w1, w2] (encodeRows w0 w1 w2 es ++ rest) allowErr
      = .ok (⟨first, es⟩, rest) := by
  unfold parseSection
  have hrow : ¬ (w0 + w1 + w2 ≥ U64) := by unfold U64; omega
  have hz : ¬ (w0 + w1 + w2 = 0) := by omega
  have hlen : ¬ (es.length > (encodeRows w0 w1 w2 es ++ rest).length / (w0 + w1 + w2)) := by
    rw [List.length_append, encodeRows_length _ _ _ _ hf]
    have : es.length ≤ (es.length * (w0 + w1 + w2) + rest.length) / (w0 + w1 + w2) := by
      rw [Nat.le_div_iff_mul_le hpos]; omega
    omega
  simp only [hrow, hz, hlen, if_false]
  rw [readEntries_encode w0 w1 w2 es rest [] h0 h1 h2 hf]
  simp

/-- **C02, any subsection splitting (stream format).** The `/Index` loop reads every subsection of a
    section back, in order: `parseSections` inverts the concatenation of the encoded subsections. -/
theorem stream_sections_read_back (subs : List Sub) (w0 w1 w2 : Nat) (allowErr : Bool)
    (h0 : w0 ≤ 8) (h1 : w1 ≤ 8) (h2 : w2 ≤ 8)
    (hf : ∀ s ∈ subs, ∀ e ∈ s.entries, Fits w0 w1 w2 e)
    (hpos : 0 < w0 + w1 + w2) (acc : List Sub) :
    parseSections [w0, w1, w2] allowErr (subs.map fun s => (s.first, s.entries.length))
        (subs.flatMap fun s => encodeRows w0 w1 w2 s.entries) acc
      = .ok (acc.reverse ++ subs) := by
  induction subs generalizing acc with
  | nil => simp [parseSections]
  | cons s ss ih =>
    simp only [List.map_cons, List.flatMap_cons, parseSections]
    rw [stream_section_reads_back s.first s.entries w0 w1 w2 _ allowErr h0 h1 h2
          (hf s (by simp)) hpos]
    simp only
    rw [ih (fun x hx => hf x (by simp [hx]))]
    simp

/-- a concrete section with all three entry kinds satisfies the hypotheses (non-vacuity) -/
example : ∀ e ∈ [XRef.free 0 65535, .raw 1234 0, .stream 7 3], Fits 1 2 2 e := by
  intro e he
  simp only [List.mem_cons, List.not_mem_nil, or_false] at he
  rcases he with rfl | rfl | rfl <;> simp [Fits, fieldsOf]

example : parseSection 0 3 [1, 2, 2] (encodeRows 1 2 2 [.free 0 65535, .raw 1234 0, .stream 7 3]) false
    = .ok (⟨0, [.free 0 65535, .raw 1234 0, .stream 7 3]⟩, []) := by decide

/-- **C02, stream format, sections and merge side by side.** For a history whose sections are all written as
    (unfiltered) cross-reference streams — `widths` gives the `/W` triple chosen for each section, any
    subsection splitting — the statement is a *conjunction* of two facts about the same sections: (a) for every
    section the row reader `parseSections`, applied to the big-endian rows of that section, returns the
    section; (b) `merge_newest_wins` for the history.  It is not a statement about one function from the bytes
    of a file to the table; that composition (through the `/Prev` walk and the section head) is
    `file_walk_newest_wins_filtered`. -/
theorem stream_history_newest_wins (size : Nat) (h : List (List Sub)) (id : Nat) (hid : id < size)
    (wf : WF h id) (allowErr : Bool)
    (widths : List Sub → Nat × Nat × Nat)
    (hw : ∀ sec ∈ h, (widths sec).1 ≤ 8 ∧ (widths sec).2.1 ≤ 8 ∧ (widths sec).2.2 ≤ 8)
    (hf : ∀ sec ∈ h, ∀ s ∈ sec, ∀ e ∈ s.entries, Fits (widths sec).1 (widths sec).2.1 (widths sec).2.2 e)
    (hpos : ∀ sec ∈ h, 0 < (widths sec).1 + (widths sec).2.1 + (widths sec).2.2) :
    (∀ sec ∈ h,
      parseSections [(widths sec).1, (widths sec).2.1, (widths sec).2.2] allowErr
        (sec.map fun s => (s.first, s.entries.length))
        (sec.flatMap fun s => encodeRows (widths sec).1 (widths sec).2.1 (widths sec).2.2 s.entries) []
        = .ok sec) ∧
    ∃ t, mergeAll (newTable size) h.reverse = .ok t ∧ t[id]? = some ((latest h id).getD .invalid) := by
  refine ⟨?_, merge_newest_wins size h id hid wf⟩
  intro sec hsec
  obtain ⟨a, b, c⟩ := hw sec hsec
  have := stream_sections_read_back sec _ _ _ allowErr a b c (hf sec hsec) (hpos sec hsec) []
  simpa using this


/-! ## Classic tables: the byte-level section reader returns what a conforming writer wrote

`Model/XrefTable` mirrors `parse_xref_table_and_trailer` / `read_xref_and_trailer_at` on the lexer model;
`Spec/XrefTable` says, independently of the reader, which texts a conforming writer may emit
(`TableText`, `SectionText`: every token followed by a non-empty run of white-space / comments, which
covers the 20-byte entries with their three line ends, any white-space / end-of-line around the header
numbers, any splitting into subsections) and contains an executable writer driven by a tape of layout
choices. -/

section ClassicTable
open PdfLex XrefTable XrefTableSpec
open PdfSyntax (Gap Bnd Spells)

/-- **C02, "each section in either xref format" (classic format), reader ∘ writer = sections.**
    For every list of subsections and every text `tbl` the relation permits for it (any legal layout),
    placed anywhere in a buffer behind any gap `g` (the separator after `xref`) and followed by `trailer`:
    the subsection loop returns exactly the subsections — first numbers, entry kinds, offsets, generations,
    splitting — and the lexer rests right behind the keyword `trailer`.  No error, no panic, fuel suffices. -/
theorem table_section_reads_back {buf : Buf} (subs : List Sub) (g tbl rest : List UInt8) (hg : Gap g)
    (htt : TableText subs tbl) (hb : Bnd rest) (p : Nat)
    (h : Suffix buf p (g ++ tbl ++ XrefTable.kwTrailer ++ rest)) :
    parseTable buf (XrefTable.defaultFuel buf) p = .ok (subs, p + (g ++ tbl ++ XrefTable.kwTrailer).length) := by
  apply parseTable_spec subs g tbl rest hg htt hb _ p _ h
  have h1 := tableText_length subs tbl htt
  have h2 := h.size_eq
  simp only [XrefTable.defaultFuel]
  simp at h2; omega

/-- **The fixed 20-byte entry format is covered**: `nnnnnnnnnn ggggg n` / `… f` followed by SP CR, SP LF or
    CR LF is a text the relation permits for that entry (and it is 20 bytes long). -/
theorem strict_entries_covered (e : XRef) (t : List UInt8) (h : StrictEntry e t) : EntryText e t ∧ t.length = 20 :=
  strict_entry_conformant e t h

/-- **The executable writer is conforming** (so everything the harness generates from it lies in the domain
    of the theorems): whatever the layout tape, for subsections that a classic table can hold. -/
theorem table_writer_conformant (subs : List Sub) (h : ∀ s ∈ subs, SubOK s) (tape : List Nat) :
    TableText subs (writeTable subs tape).1 :=
  writeTable_conformant subs h tape

/-- reader ∘ executable writer = sections, for every layout tape -/
theorem table_writer_reads_back (subs : List Sub) (h : ∀ s ∈ subs, SubOK s) (tape : List Nat) (g rest : List UInt8)
    (hg : Gap g) (hb : Bnd rest) :
    parseTable (g ++ (writeTable subs tape).1 ++ XrefTable.kwTrailer ++ rest).toArray
        ((g ++ (writeTable subs tape).1 ++ XrefTable.kwTrailer ++ rest).length + 1) 0
      = .ok (subs, (g ++ (writeTable subs tape).1 ++ XrefTable.kwTrailer).length) := by
  have := table_section_reads_back (buf := (g ++ (writeTable subs tape).1 ++ XrefTable.kwTrailer ++ rest).toArray)
    subs g _ rest hg (writeTable_conformant subs h tape) hb 0 (suffix_zero _)
  simpa [XrefTable.defaultFuel] using this

/-- **The subsection loop ends on every input** (the Rust `while` loop carries no bound; the model's does):
    whatever the bytes, from any lexer position, `buf.size + 1` rounds suffice — every round consumes at
    least the two header numbers, and every lexeme is at least one byte of progress
    (`PdfLex.nextWord_progress`; the comment loop inside `next_word` never exhausts its own fuel either). -/
theorem table_reader_total (buf : Buf) (pos : Nat) (hp : pos ≤ buf.size) :
    parseTable buf (XrefTable.defaultFuel buf) pos ≠ .oof :=
  parseTable_ne_oof buf pos hp

variable {R : Type}

/-- **C02, whole classic section through `read_xref_and_trailer_at`.** A section `txt` (optional gap,
    `xref`, separator, table, `trailer`, optional gap, a conformant spelling of the trailer dictionary
    `d`) anywhere in a buffer: whatever the cross-reference-stream branch `stm` would do, the reader
    returns the subsections and the trailer dictionary.  Hypotheses as in C03 for the dictionary (distinct
    UTF-8 keys, nesting within `MAX_DEPTH`, what follows does not continue the dictionary: `Ahead`). -/
theorem table_section_with_trailer_reads_back (env : Env R) (hd : env.decrypt = none)
    (stm : Buf → Nat → Out (List Sub × Dict R)) (subs : List Sub) (d : Dict R) (dtxt txt rest : List UInt8)
    (hst : SectionText subs dtxt txt) (hsp : Spells env.parseReal (.dict d) dtxt)
    (hwf : PdfSyntax.WF (Prim.dict d)) (hdepth : PdfSyntax.vdepth (Prim.dict d) ≤ maxDepth)
    (hsz : (txt ++ rest).length ≤ 2147483647) (hah : Ahead (txt ++ rest).toArray txt.length) :
    xrefAt env stm (txt ++ rest) = .ok (subs, d) :=
  xrefAt_table env hd stm subs d dtxt txt rest hst hsp hwf hdepth hsz hah

/-- **C02, classic format, sections and merge side by side.** For a history whose sections are all written as
    classic tables (`secs`: every section with its text, oldest first, each in any legal layout) the statement is
    a *conjunction*: (a) wherever the text of a section stands in a buffer, `parseTable` returns that section
    (`table_section_reads_back` for each); (b) `merge_newest_wins` for the history.  The composition from the
    bytes of one file through the `/Prev` walk to the table is `table_file_newest_wins` / `file_walk_newest_wins`. -/
theorem table_history_newest_wins (size : Nat) (secs : List (List Sub × List UInt8)) (id : Nat) (hid : id < size)
    (wf : WF (secs.map (·.1)) id) (hw : ∀ s ∈ secs, TableText s.1 s.2) :
    (∀ s ∈ secs, ∀ {buf : Buf} (g rest : List UInt8) (p : Nat), Gap g → Bnd rest →
        Suffix buf p (g ++ s.2 ++ XrefTable.kwTrailer ++ rest) →
        parseTable buf (XrefTable.defaultFuel buf) p = .ok (s.1, p + (g ++ s.2 ++ XrefTable.kwTrailer).length)) ∧
    ∃ t, mergeAll (newTable size) (secs.map (·.1)).reverse = .ok t ∧
      t[id]? = some ((latest (secs.map (·.1)) id).getD .invalid) := by
  refine ⟨?_, merge_newest_wins size _ id hid wf⟩
  intro s hs buf g rest p hg hb hsuf
  exact table_section_reads_back _ g _ rest hg (hw s hs) hb p hsuf

/-- how one section of a history is stored in the file -/
inductive Stored where
  /-- classic table with this text between `xref` and `trailer` -/
  | table (tbl : List UInt8)
  /-- cross-reference stream with these field widths -/
  | stream (w0 w1 w2 : Nat)

/-- the section is stored by a conforming writer of that format -/
def StoredOK (sec : List Sub) : Stored → Prop
  | .table tbl => TableText sec tbl
  | .stream w0 w1 w2 => w0 ≤ 8 ∧ w1 ≤ 8 ∧ w2 ≤ 8 ∧ (∀ s ∈ sec, ∀ e ∈ s.entries, Fits w0 w1 w2 e) ∧
      0 < w0 + w1 + w2

/-- the byte-level reader of that format returns the section -/
def ReadsBack (allowErr : Bool) (sec : List Sub) : Stored → Prop
  | .table tbl => ∀ {buf : Buf} (g rest : List UInt8) (p : Nat), Gap g → Bnd rest →
      Suffix buf p (g ++ tbl ++ XrefTable.kwTrailer ++ rest) →
      parseTable buf (XrefTable.defaultFuel buf) p = .ok (sec, p + (g ++ tbl ++ XrefTable.kwTrailer).length)
  | .stream w0 w1 w2 =>
      parseSections [w0, w1, w2] allowErr (sec.map fun s => (s.first, s.entries.length))
        (sec.flatMap fun s => encodeRows w0 w1 w2 s.entries) [] = .ok sec

/-- **C02, mixed formats: "each update may use a classic table or a cross-reference stream".** Every section
    of the history (`secs`: section and how it is stored, oldest first) independently in either format (any
    layout / any widths, any subsection splitting).  A *conjunction*: (a) each section is read back by the
    reader of its format (`ReadsBack`: `parseTable` on its text, or `parseSections` on its rows); (b) the merge
    of the sections holds the newest mention of every well-formed object number (`merge_newest_wins`).  The
    two halves share the sections, not a function: the end-to-end statement over the bytes of a file is
    `file_walk_newest_wins` (and `…_filtered`). -/
theorem file_history_newest_wins (size : Nat) (secs : List (List Sub × Stored)) (id : Nat) (hid : id < size)
    (wf : WF (secs.map (·.1)) id) (allowErr : Bool) (hw : ∀ s ∈ secs, StoredOK s.1 s.2) :
    (∀ s ∈ secs, ReadsBack allowErr s.1 s.2) ∧
    ∃ t, mergeAll (newTable size) (secs.map (·.1)).reverse = .ok t ∧
      t[id]? = some ((latest (secs.map (·.1)) id).getD .invalid) := by
  refine ⟨?_, merge_newest_wins size _ id hid wf⟩
  intro s hs
  have hok := hw s hs
  obtain ⟨sec, f⟩ := s
  cases f with
  | table tbl =>
    intro buf g rest p hg hb hsuf
    exact table_section_reads_back _ g _ rest hg hok hb p hsuf
  | stream w0 w1 w2 =>
    obtain ⟨a, b, c, hf, hpos⟩ := hok
    have := stream_sections_read_back sec w0 w1 w2 allowErr a b c hf hpos []
    simpa [ReadsBack] using this

end ClassicTable

/-! ## The `/Prev` walk

`Backend::read_xref_table_and_trailer` is `Offsets.loadTable` (Model/Offsets) over an abstract "section at
offset" function.  A well-formed file is a chain `newest :: older` of sections (`Offsets.Rev`: offset,
subsections, trailer) such that the reader returns each section at its offset (`ReadsAt`), every trailer's
`/Prev` is the offset of the next older section and the oldest has none (`Linked`), and the older offsets
are pairwise distinct. -/

section Walk
open Offsets OffLex

variable {V T : Type}

/-- **The walk visits exactly the chain, newest → oldest.** The result is the merge, into a fresh table of
    `/Size + 1` slots (`/Size` of the *newest* trailer), of the newest section and then every older one in
    chain order — no section skipped, none merged twice, nothing else read — paired with the newest trailer;
    errors of the merge are passed on unchanged. `fuel` need only cover the number of older sections. -/
theorem walk_visits_chain (P : Parsers V T) (buf : Bytes) (start fuel : Nat) (newest : Rev T) (older : List (Rev T))
    (size : Nat) (hx : locateXref buf = .ok newest.off) (hin : start + newest.off < buf.length)
    (hfit : start + newest.off ≤ usizeMax)
    (hnew : P.xrefAt (buf.drop (start + newest.off)) = .ok (newest.subs, newest.trailer))
    (hsize : P.sizeOf newest.trailer = .ok size) (hmax : size ≤ maxId)
    (hread : ∀ r ∈ older, ReadsAt P buf start r) (hlink : Linked P (newest :: older))
    (hnd : (older.map (·.off)).Nodup) (hfuel : older.length ≤ fuel) :
    loadTable P fuel buf start
      = withTrailer newest.trailer (mergeAll (newTable size) ((newest :: older).map (·.subs))) :=
  loadTable_chain P buf start fuel newest older size hx hin hfit hnew hsize hmax hread hlink hnd hfuel

/-- **C02, "the document trailer is that of the newest section"**, and `/Size` of the newest trailer sizes
    the table: whenever the walk over a well-formed chain succeeds, the trailer it returns is the newest
    one and the table has `/Size + 1` slots. -/
theorem trailer_is_newest (P : Parsers V T) (buf : Bytes) (start fuel : Nat) (newest : Rev T) (older : List (Rev T))
    (size : Nat) (hx : locateXref buf = .ok newest.off) (hin : start + newest.off < buf.length)
    (hfit : start + newest.off ≤ usizeMax)
    (hnew : P.xrefAt (buf.drop (start + newest.off)) = .ok (newest.subs, newest.trailer))
    (hsize : P.sizeOf newest.trailer = .ok size) (hmax : size ≤ maxId)
    (hread : ∀ r ∈ older, ReadsAt P buf start r) (hlink : Linked P (newest :: older))
    (hnd : (older.map (·.off)).Nodup) (hfuel : older.length ≤ fuel)
    (t : Table) (tr : T) (hok : loadTable P fuel buf start = .ok (t, tr)) :
    tr = newest.trailer ∧ t.length = size + 1 ∧
      mergeAll (newTable size) ((newest :: older).map (·.subs)) = .ok t := by
  rw [walk_visits_chain P buf start fuel newest older size hx hin hfit hnew hsize hmax hread hlink hnd hfuel] at hok
  cases hm : mergeAll (newTable size) ((newest :: older).map (·.subs)) with
  | ok t' =>
    rw [hm] at hok
    simp only [withTrailer, Out.ok.injEq, Prod.mk.injEq] at hok
    obtain ⟨rfl, rfl⟩ := hok
    exact ⟨rfl, by rw [mergeAll_length _ hm, newTable_length], rfl⟩
  | err => rw [hm] at hok; simp [withTrailer] at hok
  | panic => rw [hm] at hok; simp [withTrailer] at hok
  | oof => rw [hm] at hok; simp [withTrailer] at hok

/-- the history (oldest first) that a chain (newest first) stands for -/
def historyOf (chain : List (Rev T)) : List (List Sub) := (chain.map (·.subs)).reverse

/-- **C02 through the walk.** On a well-formed chain the walk succeeds, returns the newest trailer, and the
    table holds for every well-formed object number below the newest `/Size` exactly its newest mention
    (or `Invalid` when no section mentions it). -/
theorem walk_newest_wins (P : Parsers V T) (buf : Bytes) (start fuel : Nat) (newest : Rev T) (older : List (Rev T))
    (size : Nat) (hx : locateXref buf = .ok newest.off) (hin : start + newest.off < buf.length)
    (hfit : start + newest.off ≤ usizeMax)
    (hnew : P.xrefAt (buf.drop (start + newest.off)) = .ok (newest.subs, newest.trailer))
    (hsize : P.sizeOf newest.trailer = .ok size) (hmax : size ≤ maxId)
    (hread : ∀ r ∈ older, ReadsAt P buf start r) (hlink : Linked P (newest :: older))
    (hnd : (older.map (·.off)).Nodup) (hfuel : older.length ≤ fuel)
    (id : Nat) (hid : id < size) (wf : WF (historyOf (newest :: older)) id) :
    ∃ t, loadTable P fuel buf start = .ok (t, newest.trailer) ∧ t.length = size + 1 ∧
      t[id]? = some ((latest (historyOf (newest :: older)) id).getD .invalid) := by
  obtain ⟨t, hm, hg⟩ := merge_newest_wins size (historyOf (newest :: older)) id hid wf
  have hrev : (historyOf (newest :: older)).reverse = (newest :: older).map (·.subs) := by
    simp [historyOf]
  rw [hrev] at hm
  refine ⟨t, ?_, by rw [mergeAll_length _ hm, newTable_length], hg⟩
  rw [walk_visits_chain P buf start fuel newest older size hx hin hfit hnew hsize hmax hread hlink hnd hfuel, hm]
  rfl

end Walk

/-! ## From the bytes of a file to the merged table

The walk with the section reader made concrete (`XrefTable.readXrefTableAndTrailer`, Model/XrefFile):
classic sections are read from their bytes by the table reader; for a section stored as a cross-reference
stream the contract `ReadsAt` of the (abstract) stream reader `stm` is assumed — its row reader is
covered by `stream_sections_read_back`. -/

section File
open PdfLex XrefTable XrefTableSpec Offsets

variable {R V : Type}

/-- **C02 for a file, each section independently in table or stream format.** `buf` is the file, the header
    sits at `start`, `startxref` names the newest section; every section of the chain `newest :: older`
    is either a classic section written in any conforming layout at its offset (`ClassicAt`: the bytes
    there are a `SectionText` of its subsections followed by a conformant spelling of its trailer
    dictionary) or is returned by the stream reader (`ReadsAt`); the trailer dictionaries link the chain
    through `/Prev`, the newest one carries `/Size`.  Then `read_xref_table_and_trailer` returns the newest
    trailer dictionary and a table of `/Size + 1` slots that holds, for every well-formed object number
    below `/Size`, exactly its newest mention. -/
theorem file_walk_newest_wins (env : Env R) (hd : env.decrypt = none) (stm : Buf → Nat → Out (List Sub × Dict R))
    (base : Parsers V (Dict R)) (buf : List UInt8) (start fuel : Nat) (hsz : buf.length ≤ 2147483647)
    (newest : Rev (Dict R)) (older : List (Rev (Dict R))) (size : Nat)
    (hx : locateXref buf = .ok newest.off) (hin : start + newest.off < buf.length)
    (hsec : ∀ r ∈ newest :: older, ClassicAt env buf start r ∨ ReadsAt (fileParsers env stm base) buf start r)
    (hsize : dictGet newest.trailer keySize = some (.int (size : Int))) (hmax : size ≤ maxId)
    (hlink : PrevLinked (newest :: older)) (hnd : (older.map (·.off)).Nodup) (hfuel : older.length ≤ fuel)
    (id : Nat) (hid : id < size) (wf : WF (historyOf (newest :: older)) id) :
    ∃ t, readXrefTableAndTrailer env stm base fuel buf start = .ok (t, newest.trailer) ∧ t.length = size + 1 ∧
      t[id]? = some ((latest (historyOf (newest :: older)) id).getD .invalid) := by
  have hreads : ∀ r ∈ newest :: older, ReadsAt (fileParsers env stm base) buf start r := by
    intro r hr
    rcases hsec r hr with h | h
    · exact readsAt_classic env hd stm base buf start r hsz h
    · exact h
  have hn := hreads newest (by simp)
  apply walk_newest_wins (fileParsers env stm base) buf start fuel newest older size hx hin hn.1 hn.2.2
    _ hmax (fun r hr => hreads r (by simp [hr])) (linked_of_prevLinked env stm base _ hlink) hnd hfuel id hid wf
  show trailerSize newest.trailer = _
  simp [trailerSize, hsize, asUnsigned]

/-- the all-classic special case: every section of the file is a classic table in some conforming layout -/
theorem table_file_newest_wins (env : Env R) (hd : env.decrypt = none) (stm : Buf → Nat → Out (List Sub × Dict R))
    (base : Parsers V (Dict R)) (buf : List UInt8) (start fuel : Nat) (hsz : buf.length ≤ 2147483647)
    (newest : Rev (Dict R)) (older : List (Rev (Dict R))) (size : Nat)
    (hx : locateXref buf = .ok newest.off) (hin : start + newest.off < buf.length)
    (hsec : ∀ r ∈ newest :: older, ClassicAt env buf start r)
    (hsize : dictGet newest.trailer keySize = some (.int (size : Int))) (hmax : size ≤ maxId)
    (hlink : PrevLinked (newest :: older)) (hnd : (older.map (·.off)).Nodup) (hfuel : older.length ≤ fuel)
    (id : Nat) (hid : id < size) (wf : WF (historyOf (newest :: older)) id) :
    ∃ t, readXrefTableAndTrailer env stm base fuel buf start = .ok (t, newest.trailer) ∧ t.length = size + 1 ∧
      t[id]? = some ((latest (historyOf (newest :: older)) id).getD .invalid) :=
  file_walk_newest_wins env hd stm base buf start fuel hsz newest older size hx hin
    (fun r hr => Or.inl (hsec r hr)) hsize hmax hlink hnd hfuel id hid wf

end File


/-! ### Non-vacuity (classic tables)

`00%A<LF> 02 0000000000 65535 f<CR><LF>0000000017 00000 n <CR>5 1<CR><LF>0000000100 00001 n <LF> 09<CR>0 `:
three subsections (one of them empty), leading zeros, a comment and a line end between the header
numbers, all three entry line ends. It is what the executable writer emits for the tape below, the relation
permits it, and the model reads it back. -/

def sampleTable : List Sub := [⟨0, [.free 0 65535, .raw 17 0]⟩, ⟨5, [.raw 100 1]⟩, ⟨9, []⟩]

def sampleTape : List Nat := [1, 2, 7, 1, 65, 0, 0, 1, 1, 0, 2, 0, 0, 0, 1, 0, 0, 2, 2, 1, 1, 1, 0, 1, 1, 2]

def sampleTableText : List UInt8 :=
  [48, 48, 37, 65, 10, 32, 48, 50, 32, 48, 48, 48, 48, 48, 48, 48, 48, 48, 48, 32, 54, 53, 53, 51, 53, 32, 102, 13, 10,
   48, 48, 48, 48, 48, 48, 48, 48, 49, 55, 32, 48, 48, 48, 48, 48, 32, 110, 32, 13, 53, 32, 49, 13, 10, 48, 48, 48, 48,
   48, 48, 48, 49, 48, 48, 32, 48, 48, 48, 48, 49, 32, 110, 32, 10, 32, 48, 57, 13, 48, 32]

theorem sampleTable_written : (XrefTableSpec.writeTable sampleTable sampleTape).1 = sampleTableText := by
  decide +kernel

theorem sampleTable_ok : ∀ s ∈ sampleTable, XrefTableSpec.SubOK s := by
  intro s hs
  simp only [sampleTable, List.mem_cons, List.not_mem_nil, or_false] at hs
  rcases hs with rfl | rfl | rfl <;>
    simp [XrefTableSpec.SubOK, XrefTableSpec.Writable, XrefTableSpec.u32Max, XrefTableSpec.u64Max]

/-- the hypothesis `TableText` of the reader theorems holds for it -/
theorem sampleTable_conformant : XrefTableSpec.TableText sampleTable sampleTableText := by
  rw [← sampleTable_written]
  exact table_writer_conformant sampleTable sampleTable_ok sampleTape

/-- `table_section_reads_back` applies: behind `xref<LF>`, followed by `trailer<<` -/
example : XrefTable.parseTable ([10] ++ sampleTableText ++ XrefTable.kwTrailer ++ [60, 60]).toArray
    (XrefTable.defaultFuel ([10] ++ sampleTableText ++ XrefTable.kwTrailer ++ [60, 60]).toArray) 0
      = .ok (sampleTable, 0 + ([10] ++ sampleTableText ++ XrefTable.kwTrailer).length) :=
  table_section_reads_back sampleTable [10] sampleTableText [60, 60]
    (PdfSyntax.Gap.ws 10 [] (by decide) PdfSyntax.Gap.nil) sampleTable_conformant (by simp [PdfSyntax.Bnd]; decide) 0
    (PdfLex.suffix_zero _)

/-- and the model computes exactly that (kernel evaluation of the reader on the bytes) -/
example : XrefTable.parseTable ([10] ++ sampleTableText ++ XrefTable.kwTrailer ++ [60, 60]).toArray 100 0
    = .ok (sampleTable, 88) := by decide +kernel

/-- every entry of the sample is in the fixed 20-byte format -/
example : XrefTableSpec.StrictEntry (.raw 100 1) (XrefTableSpec.entryBytes (.raw 100 1) 1) :=
  XrefTableSpec.entryBytes_strict (.raw 100 1) 1 (by decide)

/-- a damaged table is refused, not misread: entry kind letter `x`, a count larger than the entries present,
    a missing `trailer` -/
example : XrefTable.parseTable "0 1 0000000000 65535 x \ntrailer".toUTF8.toList.toArray 100 0 = .err := by decide +kernel
example : XrefTable.parseTable "0 2 0000000000 65535 f \ntrailer".toUTF8.toList.toArray 100 0 = .err := by decide +kernel
example : XrefTable.parseTable "0 1 0000000000 65535 f \n".toUTF8.toList.toArray 100 0 = .err := by decide +kernel


/-! ## Filtered cross-reference streams

Real files store the rows of a cross-reference stream compressed: `/Filter /FlateDecode /DecodeParms
<< /Predictor 12 /Columns w >>`, sometimes inside an ASCII filter.  The filter model is `Model/Enc`
(C05 package: `decodeChain`, `unpredict` with its row loop; zlib is third-party code, what it returns for
the compressed bytes is the explicit hypothesis carried by the encoder relation `Enc.EncodesStep` of
`Props/C05`); the writer side is `Lemmas/XrefFiltered` (`rowData`, `predicted`, `PngFlate`,
`FilteredData`). -/

section Filtered
open Enc XrefFiltered

/-- **C02, stream format with filters, reader ∘ writer = sections.** For every list of subsections, every
    widths triple `≤ 8` (not all zero) that fits the fields, and every filter chain `fs` under which `y` is a
    conforming encoding of the rows (`FilteredData` = the chain relation of C05: any of the dispatch's
    filters, any length): undoing the filters with the C05 model and reading the rows returns the sections, in
    strict and tolerant mode. -/
theorem filtered_stream_section_reads_back (X : Ext) (fs : List Filter) (subs : List Sub) (w0 w1 w2 : Nat)
    (allowErr : Bool) (h0 : w0 ≤ 8) (h1 : w1 ≤ 8) (h2 : w2 ≤ 8)
    (hf : ∀ s ∈ subs, ∀ e ∈ s.entries, Fits w0 w1 w2 e) (hpos : 0 < w0 + w1 + w2)
    (y : List UInt8) (h : FilteredData X fs w0 w1 w2 subs y) :
    ∃ data, decodeChain X y fs = .ok data ∧
      parseSections [w0, w1, w2] allowErr (subs.map fun s => (s.first, s.entries.length)) data [] = .ok subs := by
  refine ⟨rowData w0 w1 w2 subs, decodeChain_of_encodes h, ?_⟩
  have := stream_sections_read_back subs w0 w1 w2 allowErr h0 h1 h2 hf hpos []
  simpa [rowData] using this

/-- **The usual shape: Flate over PNG-predicted rows.** Parameters of *any* geometry whose row size is the row
    width `w0+w1+w2` (in particular `/Columns w0+w1+w2`, see `png_columns_geometry`), any predictor value
    10–15, *any* PNG filter type chosen per row (`types`), zlib framing (hypothesis: the third-party inflate
    returns the predicted bytes for `z`), bare or wrapped in ASCIIHex / ASCII85 (any conforming encoding of
    `z`): decoding and reading the rows returns the sections. -/
theorem png_flate_stream_section_reads_back (X : Ext) (subs : List Sub) (w0 w1 w2 : Nat) (allowErr : Bool)
    (h0 : w0 ≤ 8) (h1 : w1 ≤ 8) (h2 : w2 ≤ 8)
    (hf : ∀ s ∈ subs, ∀ e ∈ s.entries, Fits w0 w1 w2 e) (hpos : 0 < w0 + w1 + w2)
    (fs : List Filter) (y : List UInt8) (h : PngFlate X w0 w1 w2 subs fs y) :
    ∃ data, decodeChain X y fs = .ok data ∧
      parseSections [w0, w1, w2] allowErr (subs.map fun s => (s.first, s.entries.length)) data [] = .ok subs :=
  filtered_stream_section_reads_back X fs subs w0 w1 w2 allowErr h0 h1 h2 hf hpos y
    (pngFlate_filtered X w0 w1 w2 subs hf h)

/-- `/Predictor k /Columns S` with the defaults `/Colors 1 /BitsPerComponent 8`: the row size is `S` -/
theorem png_columns_geometry (k : Int) (S : Nat) (hS : 1 ≤ S) (hb : S ≤ 24) (early : Int) :
    predictorGeometry { predictor := k, colors := 1, bpc := 8, columns := (S : Int), earlyChange := early } = .ok (1, S) :=
  columns_geometry k S hS (by omega) early

/-- how one section of a history is stored in the file, filters included -/
inductive StoredF where
  | table (tbl : List UInt8)
  | stream (w0 w1 w2 : Nat)
  /-- cross-reference stream with these widths whose data `y` is encoded for the filter list `fs` -/
  | filtered (w0 w1 w2 : Nat) (fs : List Filter) (y : List UInt8)

def StoredFOK (X : Ext) (sec : List Sub) : StoredF → Prop
  | .table tbl => XrefTableSpec.TableText sec tbl
  | .stream w0 w1 w2 => w0 ≤ 8 ∧ w1 ≤ 8 ∧ w2 ≤ 8 ∧ (∀ s ∈ sec, ∀ e ∈ s.entries, Fits w0 w1 w2 e) ∧ 0 < w0 + w1 + w2
  | .filtered w0 w1 w2 fs y => w0 ≤ 8 ∧ w1 ≤ 8 ∧ w2 ≤ 8 ∧ (∀ s ∈ sec, ∀ e ∈ s.entries, Fits w0 w1 w2 e) ∧
      0 < w0 + w1 + w2 ∧ FilteredData X fs w0 w1 w2 sec y

def ReadsBackF (X : Ext) (allowErr : Bool) (sec : List Sub) : StoredF → Prop
  | .table tbl => ReadsBack allowErr sec (.table tbl)
  | .stream w0 w1 w2 => ReadsBack allowErr sec (.stream w0 w1 w2)
  | .filtered w0 w1 w2 fs y => ∃ data, decodeChain X y fs = .ok data ∧
      parseSections [w0, w1, w2] allowErr (sec.map fun s => (s.first, s.entries.length)) data [] = .ok sec

/-- **C02, mixed formats with filters.** Every section of the history independently a classic table (any
    layout), an unfiltered cross-reference stream, or a filtered one (any conforming filter chain, e.g. Flate
    with a PNG predictor and any row filter types).  A *conjunction*, as `file_history_newest_wins`: (a) each
    section is read back by the reader of its format — for the filtered ones the C05 filter model followed by
    the row reader; (b) the merge of the sections holds the newest mention of every well-formed object number.
    End to end over the bytes of a file: `file_walk_newest_wins_filtered`. -/
theorem file_history_newest_wins_filtered (X : Ext) (size : Nat) (secs : List (List Sub × StoredF)) (id : Nat)
    (hid : id < size) (wf : WF (secs.map (·.1)) id) (allowErr : Bool) (hw : ∀ s ∈ secs, StoredFOK X s.1 s.2) :
    (∀ s ∈ secs, ReadsBackF X allowErr s.1 s.2) ∧
    ∃ t, mergeAll (newTable size) (secs.map (·.1)).reverse = .ok t ∧
      t[id]? = some ((latest (secs.map (·.1)) id).getD .invalid) := by
  refine ⟨?_, merge_newest_wins size _ id hid wf⟩
  intro s hs
  have hok := hw s hs
  obtain ⟨sec, f⟩ := s
  cases f with
  | table tbl =>
    intro buf g rest p hg hb hsuf
    exact table_section_reads_back _ g _ rest hg hok hb p hsuf
  | stream w0 w1 w2 =>
    obtain ⟨a, b, c, hf, hpos⟩ := hok
    have := stream_sections_read_back sec w0 w1 w2 allowErr a b c hf hpos []
    simpa [ReadsBackF, ReadsBack] using this
  | filtered w0 w1 w2 fs y =>
    obtain ⟨a, b, c, hf, hpos, hfd⟩ := hok
    exact filtered_stream_section_reads_back X fs sec w0 w1 w2 allowErr a b c hf hpos y hfd

end Filtered


section FilteredFile
open PdfLex XrefTable XrefFiltered Offsets
open PdfSyntax (Gap Bnd WFE keysOf vdepthE needE)

variable {R V : Type}

/-- **C02, a (filtered) cross-reference stream section in a file.** The contract `ReadsAt` of the `/Prev` walk holds
    for every section `StreamAt` describes — an indirect stream object at the section's offset, any gaps, whose
    dictionary names the filter list under which its data is a conforming encoding of the rows — with the
    section-head model of the C17 package (`XrefSec.stmC`: `parse_indirect_stream`, `XRefInfo::from_dict`, `/Index`
    parity) and the filter model of the C05 package (`XrefFilters.decOf` over `Enc.decodeChain`) plugged in. -/
theorem filtered_stream_section_at_reads_back (env : Env R) (hd : env.decrypt = none) (X : Enc.Ext) (tolerant allowErr : Bool)
    (base : Offsets.Parsers V (Dict R)) (buf : List UInt8) (start : Nat) (r : Offsets.Rev (Dict R))
    (hsz : buf.length ≤ 2147483647) (h : StreamAt env X tolerant buf start r) :
    Offsets.ReadsAt (fileParsers { env with fileOffset := 0 }
      (XrefSec.stmC env (XrefFilters.decOf X tolerant) allowErr) base) buf start r := by
  obtain ⟨y, txt, rest, w0, w1, w2, size, fs, hdrop, hle, hst, hbr, hwf, hnd, hlen, hdepth, hxi, hfs, h0, h1, h2, hf, hpos,
    hfd⟩ := h
  refine ⟨by unfold OffLex.usizeMax; omega, hle, ?_⟩
  show xrefAt _ _ (buf.drop (start + r.off)) = _
  rw [hdrop]
  have hlen2 : (txt ++ rest).length ≤ 2147483647 := by
    have : (buf.drop (start + r.off)).length ≤ buf.length := by simp
    rw [hdrop] at this; omega
  have hneed := streamSectionText_need env.parseReal r.trailer y txt hst
  have hsuf : Suffix (txt ++ rest).toArray 0 (txt ++ rest) := suffix_zero _
  -- the rows are decoded and read back
  have hdec : XrefFilters.decOf X tolerant r.trailer y = .ok (rowData w0 w1 w2 r.subs) := by
    simp [XrefFilters.decOf, hfs, Enc.decodeChain_of_encodes hfd]
  have hps := stream_sections_read_back r.subs w0 w1 w2 allowErr h0 h1 h2 hf hpos []
  have hhead := parseXrefStreamAndTrailer_spec env hd (XrefFilters.decOf X tolerant) allowErr r.trailer y txt rest hst hwf hnd
    hlen hdepth (buf := (txt ++ rest).toArray) (by simpa using hlen2) (PdfLex.defaultFuel (txt ++ rest).toArray) 0
    (by simp [PdfLex.defaultFuel]; omega) hsuf hbr _ hxi _ hdec _ (pairsOf_flat r.subs) r.subs
    (by simpa [rowData] using hps)
  -- the dispatch: the first lexeme is the object number, `back` returns to it
  obtain ⟨a, g1, b, g2, g3, stxt, g4, g5, tailw, id, gen, htxt, ha, _, hid, _, hg1, hg1ne, _⟩ := hst
  obtain ⟨_, _, a3, a4⟩ := natTok_spec a id ha hid
  have hs1 : Suffix (txt ++ rest).toArray 0 ([] ++ a ++ (g1 ++ b ++ g2 ++ kwObj ++ g3 ++ stxt ++ g4 ++ kwEndobj ++ g5 ++ tailw ++ rest)) := by
    have e : [] ++ a ++ (g1 ++ b ++ g2 ++ kwObj ++ g3 ++ stxt ++ g4 ++ kwEndobj ++ g5 ++ tailw ++ rest) = txt ++ rest := by
      rw [htxt]; simp
    rw [e]; exact hsuf
  obtain ⟨hn, hsl⟩ := next_regular [] a _ 0 Gap.nil hs1 a3 a4 (by simpa using gap_bnd hg1 hg1ne _)
  have hback := RepBytes.back_first_token a _ (by simpa using hs1) a3 (fun c hc => reg_not_ws c (a4 c hc))
  simp only [List.length_nil, Nat.zero_add, Nat.add_zero] at hn hsl
  simp only [xrefAt, readXrefAndTrailerAt, hn, hsl, natTok_ne_xref a id ha, Bool.false_eq_true, if_false, hback,
    XrefSec.stmC, hhead]


/-- **C02 for a file whose sections are classic tables or (filtered) cross-reference streams.**
    `XrefSec.loadTableC` is `Backend::read_xref_table_and_trailer` with both section readers concrete (C17) and the
    stream data decoded by the filter model (C05).  Every section of the chain is a classic section in any
    conforming layout (`ClassicAt`) or a cross-reference stream object whose rows are stored under any
    conforming filter chain (`StreamAt`: e.g. `/FlateDecode` with `/Predictor 12 /Columns w`, any PNG filter type
    per row, see `png_flate_stream_section_reads_back`); the dictionaries link the chain through `/Prev`, the newest
    carries `/Size`.  Then the walk returns the newest trailer dictionary and a table of `/Size + 1` slots that holds
    the newest mention of every well-formed object number.  The only hypothesis on third-party code is the one
    inside `FilteredData` (what zlib returns for the compressed bytes). -/
theorem file_walk_newest_wins_filtered (env : Env R) (hd : env.decrypt = none) (X : Enc.Ext) (tolerant allowErr : Bool)
    (base : Parsers V (Dict R)) (buf : List UInt8) (start fuel : Nat) (hsz : buf.length ≤ 2147483647)
    (newest : Rev (Dict R)) (older : List (Rev (Dict R))) (size : Nat)
    (hx : locateXref buf = .ok newest.off) (hin : start + newest.off < buf.length)
    (hsec : ∀ r ∈ newest :: older, ClassicAt { env with fileOffset := 0 } buf start r ∨ StreamAt env X tolerant buf start r)
    (hsize : dictGet newest.trailer keySize = some (.int (size : Int))) (hmax : size ≤ maxId)
    (hlink : PrevLinked (newest :: older)) (hnd : (older.map (·.off)).Nodup) (hfuel : older.length ≤ fuel)
    (id : Nat) (hid : id < size) (wf : WF (historyOf (newest :: older)) id) :
    ∃ t, XrefSec.loadTableC env (XrefFilters.decOf X tolerant) allowErr base fuel buf start = .ok (t, newest.trailer) ∧
      t.length = size + 1 ∧ t[id]? = some ((latest (historyOf (newest :: older)) id).getD .invalid) := by
  apply file_walk_newest_wins { env with fileOffset := 0 } hd (XrefSec.stmC env (XrefFilters.decOf X tolerant) allowErr)
    base buf start fuel hsz newest older size hx hin _ hsize hmax hlink hnd hfuel id hid wf
  intro r hr
  rcases hsec r hr with h | h
  · exact Or.inl h
  · exact Or.inr (filtered_stream_section_at_reads_back env hd X tolerant allowErr base buf start r hsz h)

end FilteredFile

/-! ### Non-vacuity (file level)

`exFile`: `%PDF-1.4`, a first section at offset 9 (objects 0–2) and an update at offset 98 that moves
object 1 and frees object 2, both written by the executable writer (table) and the C03 printer (trailer
dictionary), `/Prev 9` in the newer trailer, `startxref 98`.  Every hypothesis of `table_file_newest_wins`
holds for it, and the model computes the merged table from the bytes. -/

section FileExample
open XrefTableSpec XrefTable PdfLex Offsets

def exEnv : Env Unit :=
  { parseReal := fun _ => some (), resolveLen := fun _ _ => .err, allowMissingEndobj := false, decrypt := none, fileOffset := 0 }

def exBase : Parsers Unit (Dict Unit) where
  xrefAt := fun _ => .err
  sizeOf := fun _ => .err
  prevOf := fun _ => none
  objAt := fun _ _ => .err
  streamEnd := fun _ => .err
  asLen := fun _ => .err
  stmHead := fun _ => .err
  decode := fun _ _ => .err
  parseMember := fun _ _ => .err
  scanItems := fun _ => []

def exRev0 : Rev (Dict Unit) := ⟨9, [⟨0, [.free 0 65535, .raw 9 0, .raw 20 0]⟩], [(keySize, .int 3)]⟩
def exRev1 : Rev (Dict Unit) := ⟨98, [⟨1, [.raw 50 0]⟩, ⟨2, [.free 0 1]⟩], [(keySize, .int 3), (keyPrev, .int 9)]⟩

def exTable (r : Rev (Dict Unit)) : List UInt8 := (writeTable r.subs []).1
def exDictText (r : Rev (Dict Unit)) : List UInt8 := (PdfSpec.render (fun _ => [48, 46]) (Prim.dict r.trailer) []).1
def exSection (r : Rev (Dict Unit)) : List UInt8 :=
  [] ++ XrefTableSpec.kwXref ++ [10] ++ exTable r ++ XrefTableSpec.kwTrailer ++ [10] ++ exDictText r

def exTail : List UInt8 := "\nstartxref\n98\n%%EOF".toUTF8.toList
def exFile : List UInt8 := "%PDF-1.4\n".toUTF8.toList ++ exSection exRev0 ++ [10] ++ exSection exRev1 ++ exTail

theorem exSubOK (r : Rev (Dict Unit)) (h : r = exRev0 ∨ r = exRev1) : ∀ s ∈ r.subs, SubOK s := by
  intro s hs
  rcases h with rfl | rfl <;>
    (simp only [exRev0, exRev1, List.mem_cons, List.not_mem_nil, or_false] at hs) <;>
    (try rcases hs with rfl | rfl) <;> (try subst hs) <;>
    simp [SubOK, Writable, XrefTableSpec.u32Max, XrefTableSpec.u64Max]

theorem exSectionText (r : Rev (Dict Unit)) (h : r = exRev0 ∨ r = exRev1) :
    SectionText r.subs (exDictText r) (exSection r) :=
  ⟨[], [10], exTable r, [10], rfl, PdfSyntax.Gap.nil,
    ⟨PdfSyntax.Gap.ws 10 [] (by decide) PdfSyntax.Gap.nil, by simp⟩,
    writeTable_conformant r.subs (exSubOK r h) [], PdfSyntax.Gap.ws 10 [] (by decide) PdfSyntax.Gap.nil⟩

theorem exSpells (r : Rev (Dict Unit)) (h : r = exRev0 ∨ r = exRev1) :
    PdfSyntax.Spells exEnv.parseReal (Prim.dict r.trailer) (exDictText r) := by
  apply PdfSpec.render_spells
  rcases h with rfl | rfl <;> simp [exRev0, exRev1, PdfSpec.Renderable, PdfSpec.RenderableE]

theorem exClassic0 : ClassicAt exEnv exFile 0 exRev0 := by
  refine ⟨exDictText exRev0, exSection exRev0, [10] ++ exSection exRev1 ++ exTail, by decide +kernel, by decide +kernel,
    exSectionText _ (Or.inl rfl), exSpells _ (Or.inl rfl), ?_, by decide, ?_⟩
  · simp [exRev0, PdfSyntax.WF, PdfSyntax.WFE, PdfSyntax.keysOf, keySize]; decide
  · exact Or.inr ⟨(89, 93), by decide +kernel, by decide +kernel, by decide +kernel,
      fun hi => absurd hi (by decide +kernel)⟩

theorem exClassic1 : ClassicAt exEnv exFile 0 exRev1 := by
  refine ⟨exDictText exRev1, exSection exRev1, exTail, by decide +kernel, by decide +kernel,
    exSectionText _ (Or.inr rfl), exSpells _ (Or.inr rfl), ?_, by decide, ?_⟩
  · simp [exRev1, PdfSyntax.WF, PdfSyntax.WFE, PdfSyntax.keysOf, keySize, keyPrev]; decide
  · exact Or.inr ⟨(80, 89), by decide +kernel, by decide +kernel, by decide +kernel,
      fun hi => absurd hi (by decide +kernel)⟩

theorem exWF : ∀ id, id < 3 → WF (historyOf [exRev1, exRev0]) id := by
  intro id hid
  have : id = 0 ∨ id = 1 ∨ id = 2 := by omega
  rcases this with rfl | rfl | rfl <;>
    (refine ⟨by unfold pairsOK; decide, ?_⟩
     simp [historyOf, exRev0, exRev1, mentionsOf, mentions, allPairs, secPairs, subPairs, pairsFrom, keeps, gen])

/-- all hypotheses of `table_file_newest_wins` hold for the two-revision file `exFile`:
    `%PDF-1.4`, a first section (objects 0–2), an update that moves object 1 and frees object 2 -/
theorem exFile_newest_wins (id : Nat) (hid : id < 3) :
    ∃ t, readXrefTableAndTrailer exEnv (fun _ _ => .err) exBase 5 exFile 0 = .ok (t, exRev1.trailer) ∧
      t.length = 3 + 1 ∧ t[id]? = some ((latest (historyOf [exRev1, exRev0]) id).getD .invalid) :=
  table_file_newest_wins exEnv rfl (fun _ _ => .err) exBase exFile 0 5 (by decide +kernel) exRev1 [exRev0] 3
    (by decide +kernel) (by decide +kernel)
    (by intro r hr; simp only [List.mem_cons, List.not_mem_nil, or_false] at hr
        rcases hr with rfl | rfl
        · exact exClassic1
        · exact exClassic0)
    rfl (by decide) ⟨rfl, rfl⟩ (by simp) (by simp) id hid (exWF id hid)

/-- and the model computes the table from the bytes: object 1 moved, object 2 freed, trailer of the update -/
example : (match readXrefTableAndTrailer exEnv (fun _ _ => .err) exBase 5 exFile 0 with
    | .ok (t, _) => t == [.free 0 65535, .raw 50 0, .free 0 1, .free 0 65535]
    | _ => false) = true := by decide +kernel


end FileExample

/-! ### Non-vacuity (filtered cross-reference streams)

`fxFile`: `%PDF-1.5`, then object `1 0` = a cross-reference stream `<</Type/XRef/Size 6/W[1 2 2]/Index[0 2 5 1]
/Filter/FlateDecode/DecodeParms<</Predictor 12/Columns 5>>/Length 3>>` (printed by the C03 printer) whose three
rows (free, in use, compressed) are PNG-predicted with the filter types Sub, Paeth, Average.  The writer relation
holds (`fx_pngFlate`), the data-level theorem applies and the model computes the same; the section satisfies
`StreamAt`, every hypothesis of `file_walk_newest_wins_filtered` is proved, and the model computes the table from
the bytes. -/

section FilteredExample
open Enc XrefFiltered PdfLex XrefTable Offsets

def fxSubs : List Sub := [⟨0, [.free 0 65535, .raw 17 0]⟩, ⟨5, [.stream 9 2]⟩]
def fxParams : Params := { predictor := 12, colors := 1, bpc := 8, columns := 5 }
def fxTypes : List PredictorType := [.sub, .paeth, .avg]
/-- what the writer hands to zlib: three rows of 1 + 5 bytes (tag, then the filtered row) -/
def fxPredicted : List UInt8 := predicted 1 fxTypes 1 2 2 fxSubs
/-- stands for the compressed bytes -/
def fxZ : List UInt8 := [120, 94, 55]
def fxExt : Ext :=
  { inflateZlib := fun z => if z = fxZ then some fxPredicted else none, inflateRaw := fun _ => none,
    dct := fun _ => none, zlibEncode := fun _ => [], lzwEncode := fun _ => none }


theorem fx_fits : ∀ s ∈ fxSubs, ∀ e ∈ s.entries, Fits 1 2 2 e := by
  intro s hs e he
  simp only [fxSubs, List.mem_cons, List.not_mem_nil, or_false] at hs
  rcases hs with rfl | rfl <;> simp only [List.mem_cons, List.not_mem_nil, or_false] at he
  · rcases he with rfl | rfl <;> simp [Fits, fieldsOf]
  · subst he; simp [Fits, fieldsOf]

theorem fx_pngFlate : PngFlate fxExt 1 2 2 fxSubs [.flate fxParams] fxZ :=
  PngFlate.bare fxParams 1 fxTypes fxZ (by decide) (png_columns_geometry 12 5 (by omega) (by omega) 1)
    (by simp [fxExt, fxPredicted])

example : ∃ data, decodeChain fxExt fxZ [.flate fxParams] = .ok data ∧
    parseSections [1, 2, 2] false (fxSubs.map fun s => (s.first, s.entries.length)) data [] = .ok fxSubs :=
  png_flate_stream_section_reads_back fxExt fxSubs 1 2 2 false (by omega) (by omega) (by omega) fx_fits (by omega) _ _ fx_pngFlate

example : (match decodeChain fxExt fxZ [.flate fxParams] with
    | .ok data => parseSections [1, 2, 2] false [(0, 2), (5, 1)] data [] == .ok fxSubs
    | _ => false) = true := by decide +kernel

def fxInfo : Dict Unit :=
  [([84, 121, 112, 101], .name [88, 82, 101, 102]), ([83, 105, 122, 101], .int 6), ([87], .arr [.int 1, .int 2, .int 2]),
   ([73, 110, 100, 101, 120], .arr [.int 0, .int 2, .int 5, .int 1]), ([70, 105, 108, 116, 101, 114], .name [70, 108, 97, 116, 101, 68, 101, 99, 111, 100, 101]),
   ([68, 101, 99, 111, 100, 101, 80, 97, 114, 109, 115], .dict [([80, 114, 101, 100, 105, 99, 116, 111, 114], .int 12), ([67, 111, 108, 117, 109, 110, 115], .int 5)]), ([76, 101, 110, 103, 116, 104], .int 3)]
def fxStreamText : List UInt8 := (PdfSpec.render (fun _ => [48, 46]) (Prim.stream fxInfo (.pending fxZ)) []).1
def fxSection : List UInt8 := [49, 32, 48, 32, 111, 98, 106, 10] ++ fxStreamText ++ [10, 101, 110, 100, 111, 98, 106, 10, 115, 116, 97, 114, 116, 120, 114, 101, 102]
def fxFile : List UInt8 := [37, 80, 68, 70, 45, 49, 46, 53, 10] ++ fxSection ++ [10, 57, 10, 37, 37, 69, 79, 70]

def fxRev : Rev (Dict Unit) := ⟨9, fxSubs, fxInfo⟩

theorem fx_streamSectionText : StreamSectionText exEnv.parseReal fxInfo fxZ fxSection := by
  refine ⟨[49], [32], [48], [32], [10], fxStreamText, [10], [10], [115, 116, 97, 114, 116, 120, 114, 101, 102], 1, 0, by decide +kernel,
    ⟨by decide, by simp [PdfSyntax.Digits, PdfSyntax.isDig], by decide⟩, ⟨by decide, by simp [PdfSyntax.Digits, PdfSyntax.isDig], by decide⟩, by decide, by decide,
    PdfSyntax.Gap.ws 32 [] (by decide) PdfSyntax.Gap.nil, by simp, PdfSyntax.Gap.ws 32 [] (by decide) PdfSyntax.Gap.nil, by simp,
    PdfSyntax.Gap.ws 10 [] (by decide) PdfSyntax.Gap.nil, ?_, PdfSyntax.Gap.ws 10 [] (by decide) PdfSyntax.Gap.nil, by simp,
    PdfSyntax.Gap.ws 10 [] (by decide) PdfSyntax.Gap.nil, by simp, by decide, by decide +kernel, by decide⟩
  apply PdfSpec.render_stream_spells
  simp [fxInfo, PdfSpec.RenderableE, PdfSpec.Renderable, PdfSpec.RenderableL]

theorem fx_streamAt : StreamAt exEnv fxExt false fxFile 0 fxRev := by
  refine ⟨fxZ, fxSection, [10, 57, 10, 37, 37, 69, 79, 70], 1, 2, 2, 6, [.flate fxParams], by decide +kernel, by decide +kernel,
    fx_streamSectionText, by simp [PdfSyntax.Bnd]; decide, ?_, by decide +kernel, rfl, by decide, by decide +kernel,
    by decide +kernel, by omega, by omega, by omega, fx_fits, by omega, pngFlate_filtered fxExt 1 2 2 fxSubs fx_fits fx_pngFlate⟩
  show PdfSyntax.WFE fxInfo
  simp only [fxInfo, PdfSyntax.WFE, PdfSyntax.WF, PdfSyntax.WFL, PdfSyntax.keysOf]
  decide

theorem fx_WF : ∀ id, id < 6 → WF (historyOf [fxRev]) id := by
  intro id hid
  have : id = 0 ∨ id = 1 ∨ id = 2 ∨ id = 3 ∨ id = 4 ∨ id = 5 := by omega
  rcases this with rfl | rfl | rfl | rfl | rfl | rfl <;>
    (refine ⟨by unfold pairsOK; decide, ?_⟩
     simp [historyOf, fxRev, fxSubs, mentionsOf, mentions, allPairs, secPairs, subPairs, pairsFrom, keeps, gen])

/-- all hypotheses of `file_walk_newest_wins_filtered` hold for `fxFile`: one revision stored as a cross-reference
    stream `/Filter /FlateDecode /DecodeParms << /Predictor 12 /Columns 5 >>` with row filter types Sub, Paeth, Average
    (the three bytes `x^7` stand for the compressed data; what zlib returns for them is `fxExt`) -/
theorem fxFile_newest_wins (id : Nat) (hid : id < 6) :
    ∃ t, XrefSec.loadTableC exEnv (XrefFilters.decOf fxExt false) false exBase 5 fxFile 0 = .ok (t, fxInfo) ∧
      t.length = 6 + 1 ∧ t[id]? = some ((latest (historyOf [fxRev]) id).getD .invalid) :=
  file_walk_newest_wins_filtered exEnv rfl fxExt false false exBase fxFile 0 5 (by decide +kernel) fxRev [] 6
    (by decide +kernel) (by decide +kernel)
    (by intro r hr; simp only [List.mem_cons, List.not_mem_nil, or_false] at hr; subst hr; exact Or.inr fx_streamAt)
    rfl (by decide) rfl (by simp) (by simp) id hid (fx_WF id hid)

/-- and the model computes the table from the bytes -/
example : (match XrefSec.loadTableC exEnv (XrefFilters.decOf fxExt false) false exBase 5 fxFile 0 with
    | .ok (t, _) => t == [.free 0 65535, .raw 17 0, .invalid, .invalid, .invalid, .stream 9 2, .free 0 65535]
    | _ => false) = true := by decide +kernel

end FilteredExample

/-! ### Non-vacuity (a mixed chain: older classic section, newer filtered stream section)

`mxFile`: `%PDF-1.5`, the classic section of `exRev0` at offset 9 with its `startxref 9 %%EOF`, then at offset 116
the update: object `1 0`, a cross-reference stream with `/Prev 9`, `/Filter /FlateDecode`, `/DecodeParms
<< /Predictor 12 /Columns 5 >>` (rows as in `fxFile`).  `older = [exRev0] ≠ []`: the `/Prev` link, `ClassicAt` for the
older and `StreamAt` for the newer section, and `WF` across both revisions are all proved. -/

section MixedExample
open Enc XrefFiltered PdfLex XrefTable Offsets

/-- the stream dictionary of the update: `fxInfo` with `/Prev 9` -/
def mxInfo : Dict Unit :=
  [([84, 121, 112, 101], .name [88, 82, 101, 102]), ([83, 105, 122, 101], .int 6), ([87], .arr [.int 1, .int 2, .int 2]),
   ([73, 110, 100, 101, 120], .arr [.int 0, .int 2, .int 5, .int 1]), ([80, 114, 101, 118], .int 9),
   ([70, 105, 108, 116, 101, 114], .name [70, 108, 97, 116, 101, 68, 101, 99, 111, 100, 101]),
   ([68, 101, 99, 111, 100, 101, 80, 97, 114, 109, 115], .dict [([80, 114, 101, 100, 105, 99, 116, 111, 114], .int 12), ([67, 111, 108, 117, 109, 110, 115], .int 5)]),
   ([76, 101, 110, 103, 116, 104], .int 3)]
def mxStreamText : List UInt8 := (PdfSpec.render (fun _ => [48, 46]) (Prim.stream mxInfo (.pending fxZ)) []).1
def mxSection : List UInt8 := [49, 32, 48, 32, 111, 98, 106, 10] ++ mxStreamText ++ [10, 101, 110, 100, 111, 98, 106, 10, 115, 116, 97, 114, 116, 120, 114, 101, 102]
/-- `\nstartxref\n9\n%%EOF\n` behind the first revision -/
def mxMid : List UInt8 := [10, 115, 116, 97, 114, 116, 120, 114, 101, 102, 10, 57, 10, 37, 37, 69, 79, 70, 10]
def mxTail : List UInt8 := [10, 49, 49, 54, 10, 37, 37, 69, 79, 70]
def mxFile : List UInt8 := [37, 80, 68, 70, 45, 49, 46, 53, 10] ++ exSection exRev0 ++ mxMid ++ mxSection ++ mxTail
def mxRev : Rev (Dict Unit) := ⟨116, fxSubs, mxInfo⟩

theorem mx_classic : ClassicAt { exEnv with fileOffset := 0 } mxFile 0 exRev0 := by
  refine ⟨exDictText exRev0, exSection exRev0, mxMid ++ mxSection ++ mxTail, by decide +kernel, by decide +kernel,
    exSectionText _ (Or.inl rfl), exSpells _ (Or.inl rfl), ?_, by decide, ?_⟩
  · simp [exRev0, PdfSyntax.WF, PdfSyntax.WFE, PdfSyntax.keysOf, keySize]; decide
  · exact Or.inr ⟨(89, 98), by decide +kernel, by decide +kernel, by decide +kernel,
      fun hi => absurd hi (by decide +kernel)⟩

theorem mx_streamSectionText : StreamSectionText exEnv.parseReal mxInfo fxZ mxSection := by
  refine ⟨[49], [32], [48], [32], [10], mxStreamText, [10], [10], [115, 116, 97, 114, 116, 120, 114, 101, 102], 1, 0, by decide +kernel,
    ⟨by decide, by simp [PdfSyntax.Digits, PdfSyntax.isDig], by decide⟩, ⟨by decide, by simp [PdfSyntax.Digits, PdfSyntax.isDig], by decide⟩, by decide, by decide,
    PdfSyntax.Gap.ws 32 [] (by decide) PdfSyntax.Gap.nil, by simp, PdfSyntax.Gap.ws 32 [] (by decide) PdfSyntax.Gap.nil, by simp,
    PdfSyntax.Gap.ws 10 [] (by decide) PdfSyntax.Gap.nil, ?_, PdfSyntax.Gap.ws 10 [] (by decide) PdfSyntax.Gap.nil, by simp,
    PdfSyntax.Gap.ws 10 [] (by decide) PdfSyntax.Gap.nil, by simp, by decide, by decide +kernel, by decide⟩
  apply PdfSpec.render_stream_spells
  simp [mxInfo, PdfSpec.RenderableE, PdfSpec.Renderable, PdfSpec.RenderableL]

theorem mx_streamAt : StreamAt exEnv fxExt false mxFile 0 mxRev := by
  refine ⟨fxZ, mxSection, mxTail, 1, 2, 2, 6, [.flate fxParams], by decide +kernel, by decide +kernel,
    mx_streamSectionText, by simp [PdfSyntax.Bnd, mxTail]; decide, ?_, by decide +kernel, rfl, by decide, by decide +kernel,
    by decide +kernel, by omega, by omega, by omega, fx_fits, by omega, pngFlate_filtered fxExt 1 2 2 fxSubs fx_fits fx_pngFlate⟩
  show PdfSyntax.WFE mxInfo
  simp only [mxInfo, PdfSyntax.WFE, PdfSyntax.WF, PdfSyntax.WFL, PdfSyntax.keysOf]
  decide

theorem mx_WF : ∀ id, id < 6 → WF (historyOf [mxRev, exRev0]) id := by
  intro id hid
  have : id = 0 ∨ id = 1 ∨ id = 2 ∨ id = 3 ∨ id = 4 ∨ id = 5 := by omega
  rcases this with rfl | rfl | rfl | rfl | rfl | rfl <;>
    (refine ⟨by unfold pairsOK; decide, ?_⟩
     simp [historyOf, mxRev, exRev0, fxSubs, mentionsOf, mentions, allPairs, secPairs, subPairs, pairsFrom, keeps, gen])

/-- **a mixed chain** (`older ≠ []`): all hypotheses of `file_walk_newest_wins_filtered` hold for `mxFile`, whose
    first revision is a classic table (objects 0–2) and whose update is a `/Predictor 12` Flate cross-reference stream
    with `/Prev 9` (object 1 moved, object 5 added in an object stream) -/
theorem mxFile_newest_wins (id : Nat) (hid : id < 6) :
    ∃ t, XrefSec.loadTableC exEnv (XrefFilters.decOf fxExt false) false exBase 5 mxFile 0 = .ok (t, mxInfo) ∧
      t.length = 6 + 1 ∧ t[id]? = some ((latest (historyOf [mxRev, exRev0]) id).getD .invalid) :=
  file_walk_newest_wins_filtered exEnv rfl fxExt false false exBase mxFile 0 5 (by decide +kernel) mxRev [exRev0] 6
    (by decide +kernel) (by decide +kernel)
    (by intro r hr; simp only [List.mem_cons, List.not_mem_nil, or_false] at hr
        rcases hr with rfl | rfl
        · exact Or.inr mx_streamAt
        · exact Or.inl mx_classic)
    rfl (by decide) ⟨rfl, rfl⟩ (by simp) (by simp) id hid (mx_WF id hid)

/-- and the model computes the merged table from the bytes: object 1 from the update, object 2 from the original
    table, object 5 compressed -/
example : (match XrefSec.loadTableC exEnv (XrefFilters.decOf fxExt false) false exBase 5 mxFile 0 with
    | .ok (t, _) => t == [.free 0 65535, .raw 17 0, .raw 20 0, .invalid, .invalid, .stream 9 2, .free 0 65535]
    | _ => false) = true := by decide +kernel
end MixedExample

/-! ## The rule before the repair (D11) did not satisfy the property

`XRef::Stream { .. } | XRef::Invalid => true` let *any* older section overwrite a compressed entry.
The two-section history below (old: object 1 direct at 100; new: object 1 moved into object stream 5)
resolves to the stale direct object under that rule and to the compressed one under the current rule. -/

def shouldUpdateOld (dst inc : XRef) : Bool :=
  match dst with
  | .raw _ g | .free _ g => decide (gen inc > g)
  | .stream _ _ => true
  | .invalid => true
  | .promised => false

def witnessHistory : List (List Sub) := [[⟨1, [.raw 100 0]⟩], [⟨1, [.stream 5 0]⟩]]

example : mergeAll (newTable 6) witnessHistory.reverse
    = .ok [.invalid, .stream 5 0, .invalid, .invalid, .invalid, .invalid, .free 0 65535] := by decide
example : shouldUpdateOld (.stream 5 0) (.raw 100 0) = true := by decide
example : shouldUpdate (.stream 5 0) (.raw 100 0) = .ok false := by decide

/-! ## Non-vacuity: a three-revision history with reuse, freeing and compression satisfies `WF` -/

def sampleHistory : List (List Sub) :=
  [ [⟨0, [.free 0 65535, .raw 10 0, .raw 20 0, .raw 30 0]⟩],      -- original body
    [⟨2, [.free 0 1]⟩, ⟨4, [.raw 40 0]⟩],                          -- update 1: frees 2, adds 4
    [⟨1, [.stream 4 0]⟩, ⟨2, [.raw 50 1]⟩] ]                       -- update 2: compresses 1, reuses 2

example : ∀ id, id < 5 → WF sampleHistory id := by
  intro id hid
  have : id = 0 ∨ id = 1 ∨ id = 2 ∨ id = 3 ∨ id = 4 := by omega
  rcases this with rfl | rfl | rfl | rfl | rfl <;>
    (refine ⟨by unfold pairsOK; decide, ?_⟩; simp [sampleHistory, mentionsOf, mentions, allPairs, secPairs, subPairs, pairsFrom, keeps, gen])

example : (mergeAll (newTable 5) sampleHistory.reverse)
    = .ok [.free 0 65535, .stream 4 0, .raw 50 1, .raw 30 0, .raw 40 0, .free 0 65535] := by decide

end Xref
