import PdfModel.Lemmas.Import

/-!
# C20 — a page imported into another document is equal and self-contained

The source document is a graph of indirect objects (`Src`); an importer (`St`: memo `map`, typed copies
`rcrefs`, copies under construction `pending`, the objects created in the new document `objs`) serves a
sequence of page imports (`clonePages`, one `clonePage` = `PageBuilder::clone_page` each) or of single
clone requests (`cloneRoots`). The model (`Model/Import.lean`) is the code *after* the two repairs of this
package (D41 cycle guard, D46 typed copy rebuilt on demand); `Import.Old.cloneRef` is the code before.

The theorems hold for **every** source graph (cyclic or not, with or without missing objects), every
sequence of pages, every amount of fuel and every outcome of the individual imports (a page that fails is
skipped, the state it leaves behind is covered too). The correspondence check for C20 ties `cloneRef`,
`clonePage` to `Importer::{clone_plainref, clone_ref, clone_rcref}` and `PageBuilder::clone_page` of the
current tree (same request answered by both, compared up to renaming of the new object numbers).

What the theorems do not carry — read this before reading more into a theorem than it says:

* **Payload equality** ("a resource whose content (dictionaries, stream data) equals the original's"): the payload of
  an object is an abstract number here. Equality of dictionaries, strings and stream bytes after the typed
  re-serialisation, decryption included, is the oracle's comparison on the real library against the generator's
  plaintext (harness/src/c20.rs), and the correspondence carries a payload digest. No theorem.
* **"The same operation sequence"** and **"the new document saved and reloaded"**: no model statement at all. The
  model keeps the operations of a page verbatim by construction (`OpM` values are never rewritten; only the
  resources they name are looked at), `PdfBuilder::build`, `Storage::save`, `serialize_ops` and the reload are not
  modelled. Both clauses are decided by the oracle only (import + build + reload, operations compared with the
  source's and with the generator's plaintext; the serialiser itself is C08's, saving is C09's / C10's).
* **"Importing never panics"**: `import_never_panics`, `clone_never_panics`, `tree_import_never_panics` hold *by
  construction of the model* — after the repairs no branch of `cloneRef` / `cloneOp` / `clonePage` produces `.panic`,
  the proofs only show that `.panic` cannot appear from nowhere. What carries the content is (a) `Old.cloneRef`,
  which has the panic branch of the code before the repair (`d46_old_code_panics`), (b) the correspondence (the
  implementation's outcome `panic` would disagree with the model's), and (c) the oracle on the real library, where
  the panic sites actually were: `rcrefs.get(&new_ref).unwrap()` in `clone_rcref` (D46), `assert!(params.is_none())`
  in `Stream::to_pdf_stream` (D47), `serialize_ops(..).unwrap()` in `Content::from_ops` under
  `CatalogBuilder::build` (D49), and the stack overflow of the unguarded recursion (D41, an abort rather than a
  panic) — all found by, and now regression witnesses of, the oracle; the last three lie outside the model.
* **Sources with a reference cycle.** Every theorem whose premise is `(clonePage …).1 = .ok out` (or
  `clonePageT`) says nothing about a page from which a reference cycle is reachable: the repaired importer answers
  `.err` there (`cyclic_page_is_rejected` below), so the premise is false. That is the library's behaviour after the
  D41 repair — a cyclic page is *refused*, not imported — and it is within the property as stated: its clauses are
  conditioned on "when importing it into a new document succeeds", and the unconditional clause ("importing never
  panics") is what the cycle guard establishes (`import_terminates`: no `.oof` on any finite source;
  `d41_old_code_diverges`: the old code did not terminate). The property's quantifier lists cyclic sources because
  of that unconditional clause. The state-level theorems (`clone_closed`, `clone_once`, `clone_iso`, `memo_stable`,
  `copies_get_fresh_numbers`) have no such premise: they hold after refused pages too, and
  `acyclic_page_beside_a_cycle_imports` shows a page of a source that has a cycle elsewhere importing normally,
  before and after a refused page. That cyclic pages cannot be imported at all is recorded as a limitation in
  notes/C20.md, not as a violation.
* **Boxes and entry points.** `from_page_attributes` and the box fields of `tree_page_attributes` read the
  definitions of `fromPageT` / `clonePageT` back (the model *is* "take the nearest entry"); their content is that
  the statement is in terms of `nearest`, which `nearest_is_first` characterises independently (first entry on the
  way up — see the corollaries `tree_page_boxes_first_on_the_way_up`, `from_page_boxes_first_on_the_way_up`), and
  that the correspondence streams `c20.page*` / `c20.frompage*` (6⁴ placements exhaustively) tie those definitions
  to `Page::media_box` / `crop_box` / `resources` and the two builders. The resource part of
  `tree_page_attributes` (`PageOK`) is a real consequence of the invariant.
* **Resource categories** other than ExtGState / Font / XObject / Properties are not copied by the code (D40, open
  for ColorSpace, Pattern, Shading): `C20_full` is kept below with its counter-example; inherited /Rotate is not
  read by the library: `C20_rotate_full` with its counter-example.
-/

namespace Import

/-- the state of an importer after a sequence of page imports into a document that had `n` objects -/
def after (f : Nat) (src : Src) (n : Nat) (pages : List PageM) : St := (clonePages f src pages (St.init n)).2

/-- Every state reachable by importing pages satisfies the invariant all the clauses below follow from. -/
theorem reachable_inv (src : Src) (f n : Nat) (pages : List PageM) : Inv src (after f src n pages) :=
  (clonePages_spec src f pages _ (Inv.init src n)).1

/-- **C20, closure** ("every reference in the new document points to an object of the new document").
    After any sequence of page imports — any source graph, any sharing, failed imports included — every
    reference held by a created object is the number of a created object. -/
theorem clone_closed (src : Src) (f n : Nat) (pages : List PageM) : Closed (after f src n pages) :=
  (reachable_inv src f n pages).closed

/-- **C20, single copy** ("shared source objects are copied once"). The memo has one entry per source
    object, every entry owns exactly one created object and created objects have distinct numbers: a source
    object reached through several pages, several resources or several paths is allocated at most once. -/
theorem clone_once (src : Src) (f n : Nat) (pages : List PageM) : Once (after f src n pages) :=
  (reachable_inv src f n pages).once

/-- **C20, single copy, counted**: the number of objects created equals the number of distinct source
    objects copied. -/
theorem clone_once_count (src : Src) (f n : Nat) (pages : List PageM) :
    (after f src n pages).objs.length = ((after f src n pages).map.map Prod.fst).length ∧
    ((after f src n pages).map.map Prod.fst).Nodup := by
  have h := reachable_inv src f n pages
  refine ⟨?_, h.keys_nodup⟩
  have := congrArg List.length h.ids_eq
  simpa using this

/-- **C20, equality of the copied graph** (stretch `clone_iso`). The copy of a source object carries the
    payload of the source object, has as many references, and its i-th reference is the copy of the
    target of the source object's i-th reference. -/
theorem clone_iso (src : Src) (f n : Nat) (pages : List PageM) : Iso src (after f src n pages) :=
  (reachable_inv src f n pages).iso

/-- Copies are never moved, replaced or dropped by later imports: what the memo says after some pages it
    still says after more pages, and the objects created stay. -/
theorem memo_stable (src : Src) (f n : Nat) (pages more : List PageM) :
    MemoExt (after f src n pages) (after f src n (pages ++ more)) ∧
    ∀ ob ∈ (after f src n pages).objs, ob ∈ (after f src n (pages ++ more)).objs := by
  have h := clonePages_spec src f more _ (reachable_inv src f n pages)
  have e : after f src n (pages ++ more) = (clonePages f src more (after f src n pages)).2 :=
    clonePages_append src f pages more _
  rw [e]
  exact ⟨h.2.map_ext, h.2.objs_ext⟩

/-- **C20, resources** (`pruned_resources_cover_used`, categories ExtGState / Font / XObject / Properties).
    (Premise `= .ok out`: silent about pages from which a reference cycle or a missing object is reachable — those
    are refused, see the header.) When a page
    is imported successfully after any history: for every operation naming a resource of a category
    `deep_clone_op` looks at, if the page's resources have an entry of that name, the new page's resources
    have an entry of the same name that is a copy of it (same payload, references mapped); the new table
    holds nothing else; the page-level references (`metadata`, `lgi`, `vp`, `other`) are mapped. -/
theorem pruned_resources_cover_used (src : Src) (f n : Nat) (before : List PageM) (p : PageM) (out : PageOut)
    (hok : (clonePage f src p (after f src n before)).1 = .ok out) :
    PageOK p out (clonePage f src p (after f src n before)).2 :=
  (clonePage_spec src f p _ (reachable_inv src f n before)).2.2 out hok

/-- … and the entries stay copies when further pages are imported (the memo only grows). -/
theorem pruned_resources_stay (src : Src) (f n : Nat) (before : List PageM) (p : PageM) (more : List PageM)
    (out : PageOut) (hok : (clonePage f src p (after f src n before)).1 = .ok out) :
    PageOK p out (after f src n (before ++ p :: more)) := by
  have h0 := reachable_inv src f n before
  have h1 := clonePage_spec src f p _ h0
  have h2 := clonePages_spec src f more _ h1.1
  have e : after f src n (before ++ p :: more) =
      (clonePages f src more (clonePage f src p (after f src n before)).2).2 := by
    show (clonePages f src (before ++ p :: more) _).2 = _
    rw [clonePages_append]; rfl
  rw [e]
  have ok := h1.2.2 out hok
  refine ⟨?_, ?_, mapped_mono _ _ h2.2.map_ext _ _ ok.rest⟩
  · intro k name hop hh ent hent
    obtain ⟨ks, h3, h4⟩ := ok.cover k name hop hh ent hent
    exact ⟨ks, h3, mapped_mono _ _ h2.2.map_ext _ _ h4⟩
  · intro k name pl ks hg
    obtain ⟨hh, ent, h3, h4, h5⟩ := ok.only k name pl ks hg
    exact ⟨hh, ent, h3, h4, mapped_mono _ _ h2.2.map_ext _ _ h5⟩

/-- **C20, closure, seen from the page**: every reference held by the resources of a successfully imported
    page and by its page-level entries is the number of an object created in the new document. -/
theorem page_refs_closed (src : Src) (f n : Nat) (before : List PageM) (p : PageM) (out : PageOut)
    (hok : (clonePage f src p (after f src n before)).1 = .ok out) :
    (∀ k name pl ks, resGet out.res k name = some (pl, ks) → ∀ r ∈ ks,
        ∃ ob ∈ (clonePage f src p (after f src n before)).2.objs, ob.id = r) ∧
    (∀ r ∈ out.rest, ∃ ob ∈ (clonePage f src p (after f src n before)).2.objs, ob.id = r) := by
  have h1 := clonePage_spec src f p _ (reachable_inv src f n before)
  have ok := h1.2.2 out hok
  constructor
  · intro k name pl ks hg r hr
    obtain ⟨_, ent, _, _, hm⟩ := ok.only k name pl ks hg
    obtain ⟨e, _, hl⟩ := mapped_mem _ _ _ hm r hr
    exact h1.1.map_obj _ _ hl
  · intro r hr
    obtain ⟨e, _, hl⟩ := mapped_mem _ _ _ ok.rest r hr
    exact h1.1.map_obj _ _ hl

/-- **Self-contained, the other direction**: the objects the importer creates get numbers the new document
    did not use before (`n` objects existed), so nothing that was there is overwritten. -/
theorem copies_get_fresh_numbers (src : Src) (f n : Nat) (pages : List PageM) :
    ∀ ob ∈ (after f src n pages).objs, n ≤ ob.id := by
  intro ob hob
  have h := (clonePages_spec src f pages _ (Inv.init src n)).2
  rcases h.new_ids ob hob with hb | hb
  · simp [St.init] at hb
  · exact hb

/-- **C20, "importing never panics"**, model level — *true by construction*: the model of the repaired importer has
    no branch that produces `.panic` (`cloneRef`, `cloneOp`, `clonePage` only pass one on), so this says no more
    than that. The clause is carried by the correspondence (outcome `panic` of the implementation would disagree),
    by `d46_old_code_panics` for the code before the repair, and by the oracle, which is where the real panic sites
    were found: `clone_rcref`'s `unwrap` (D46), `to_pdf_stream`'s `assert!` (D47), `Content::from_ops`' `unwrap`
    (D49) — the last two are not in the model at all. -/
theorem import_never_panics (src : Src) (f : Nat) (p : PageM) (st : St) : (clonePage f src p st).1 ≠ .panic :=
  clonePage_ne_panic src f p st

/-- … nor a single clone request (by construction of `cloneRef`, as above). -/
theorem clone_never_panics (src : Src) (f : Nat) (e : Edge) (st : St) : (cloneRef f src e st).1 ≠ .panic :=
  cloneRef_ne_panic src f e st

/-- **C20, termination** (D41 repaired): on *every* finite source — reference cycles included — importing a
    page needs no more recursion depth than the source has objects. `support` lists the existing objects. -/
theorem import_terminates (src : Src) (support : List Nat) (hsup : ∀ o, src o ≠ none → o ∈ support)
    (f n : Nat) (hf : support.length < f) (before : List PageM) (p : PageM) :
    (clonePage f src p (after f src n before)).1 ≠ .oof :=
  clonePage_ne_oof src support hsup f hf p _ (by
    show (clonePages f src before (St.init n)).2.pending = []
    rw [clonePages_pending]; rfl)

/-- **The fuel is a proof device only**: once a page import does not run out of fuel, more fuel changes neither
    the result nor the state — together with `import_terminates` the model's answer for fuel > number of
    source objects is *the* answer of the unbounded recursion in the code. -/
theorem answer_independent_of_fuel (src : Src) (f : Nat) (p : PageM) (st : St)
    (h : (clonePage f src p st).1 ≠ .oof) : clonePage (f + 1) src p st = clonePage f src p st :=
  clonePage_fuel_mono src f p st h

/-- … likewise for a single clone request and any larger amount of fuel. -/
theorem clone_independent_of_fuel (src : Src) (f f' : Nat) (hle : f ≤ f') (e : Edge) (st : St)
    (h : (cloneRef f src e st).1 ≠ .oof) : cloneRef f' src e st = cloneRef f src e st :=
  cloneRef_fuel_le src f f' hle e st h

/-- **Non-vacuity of "when importing succeeds"**: over a source whose references all lead to existing objects
    and go down a rank (no cycle), the import of a page succeeds after any history — the cycle guard and the
    error paths never reject a well-formed acyclic page. -/
theorem import_succeeds_on_acyclic (src : Src) (rank : Nat → Nat) (hac : Acyclic src rank) (f n : Nat)
    (before : List PageM) (p : PageM) (hedges : ∀ e ∈ pageEdges p, src e.tgt ≠ none ∧ rank e.tgt < f) :
    ∃ out, (clonePage f src p (after f src n before)).1 = .ok out :=
  clonePage_ok_of_acyclic src rank hac f p _ (by
    show (clonePages f src before (St.init n)).2.pending = []
    rw [clonePages_pending]; rfl) hedges

/-- The same clauses for raw clone requests (`clone_plainref` / `clone_ref` / `clone_rcref` called directly). -/
theorem roots_closed_once_iso (src : Src) (f n : Nat) (roots : List Edge) :
    Closed (cloneRoots f src roots (St.init n)).2 ∧ Once (cloneRoots f src roots (St.init n)).2 ∧
    Iso src (cloneRoots f src roots (St.init n)).2 := by
  have h := (cloneRoots_spec src f roots _ (Inv.init src n)).1
  exact ⟨h.closed, h.once, h.iso⟩

/-- A request for an object that already has a copy returns that copy and creates nothing. -/
theorem second_request_is_a_hit (src : Src) (f : Nat) (k : Kind) (r n : Nat) (st : St)
    (hk : k ≠ .rc) (hl : lk st.map r = some n) : cloneRef (f + 1) src ⟨k, r⟩ st = (.ok n, st) := by
  cases k with
  | prim => simp [cloneRef, hl]
  | ref => simp [cloneRef, hl]
  | rc => exact absurd rfl hk

/-! ## Pages in the page tree: inherited attributes, the two entry points (`clone_page`, `from_page`) -/

/-- the state after importing a sequence of pages given with their place in the page tree -/
def afterT (f : Nat) (src : Src) (n : Nat) (pages : List PageT) : St := (clonePagesT f src pages (St.init n)).2

/-- Importing pages of the tree reaches only states that satisfy the invariant: closure, single copy and
    equality of the copied graph hold for them exactly as for `after`. -/
theorem tree_pages_closed_once_iso (src : Src) (f n : Nat) (pages : List PageT) :
    Closed (afterT f src n pages) ∧ Once (afterT f src n pages) ∧ Iso src (afterT f src n pages) := by
  have h := (clonePagesT_spec src f pages _ (Inv.init src n)).1
  exact ⟨h.closed, h.once, h.iso⟩

/-- **C20, boxes and resources of a page in the tree** (`clone_page`). The *box* fields (`media`, `crop`, `trim`,
    `rotate`) restate the definition of `clonePageT` — their content is the use of `nearest` (characterised by
    `nearest_is_first`, composed in `tree_page_boxes_first_on_the_way_up`) and the correspondence that ties
    `clonePageT` to the code; the *resource* field (`PageOK` over the nearest dictionary) follows from the invariant.
    Premise `= .ok out`: silent about refused (cyclic / dangling) pages. When the import of a page succeeds after
    any history, the new page's own /MediaBox is the entry of the nearest node (page, parent, grand-parent, …)
    that has one, its /CropBox likewise and the media box if no node has one, its /TrimBox the page's own; its
    resources are the pruned copy (`PageOK`: per category *and* name — the same name in two categories is two
    entries) of the nearest /Resources dictionary, taken whole. -/
theorem tree_page_attributes (src : Src) (f n : Nat) (before : List PageT) (pt : PageT) (out : PageOutT)
    (hok : (clonePageT f src pt (afterT f src n before)).1 = .ok out) :
    PageTOK pt out (clonePageT f src pt (afterT f src n before)).2 :=
  (clonePageT_spec src f pt _ (clonePagesT_spec src f before _ (Inv.init src n)).1).2.2 out hok

/-- `nearest` is "the first entry on the way up": the chosen value is an entry of the chain and every
    node below it has none. -/
theorem nearest_is_first {α : Type} (c : List (Option α)) (v : α) (h : nearest c = some v) :
    ∃ i : Nat, c[i]? = some (some v) ∧ ∀ j : Nat, j < i → c[j]? = some none :=
  nearest_spec c v h

/-- **The other entry point** (`from_page`): same effective boxes; the effective resource dictionary whole
    (minus the category the typed `Resources` has no field for). This reads the definition of `fromPageT` back: it is
    a statement about the *model*, made in terms of `nearest`; that `PageBuilder::from_page` behaves like `fromPageT`
    is the correspondence stream `c20.frompage` / `c20.frompage.exhaustive`, not a theorem. The independent
    characterisation of the chosen entries is `from_page_boxes_first_on_the_way_up`. -/
theorem from_page_attributes (pt : PageT) (out : FromOut) (hok : fromPageT pt = .ok out) :
    nearest pt.media = some out.media ∧ out.crop = (nearest pt.crop).getD out.media ∧ out.trim = pt.trim ∧
    out.rotate = pt.ownRotate ∧ ∃ r, nearest pt.resChain = some r ∧ out.res = typedRes r := by
  simp only [fromPageT] at hok
  cases hm : nearest pt.media with
  | none => simp [hm] at hok
  | some m =>
    cases hr : nearest pt.resChain with
    | none => simp [hm, hr] at hok
    | some r =>
      simp only [hm, hr, Out.ok.injEq] at hok
      subst hok
      exact ⟨rfl, rfl, rfl, rfl, r, rfl, rfl⟩

/-- **Boxes, stated without `nearest`**: the /MediaBox of a successfully imported page is the entry of some node `i`
    steps up (0 = the page itself) and no node below `i` has a /MediaBox; the /CropBox is such an entry of the
    /CropBox chain, or — when *no* node on the way up has a /CropBox — the media box. -/
theorem tree_page_boxes_first_on_the_way_up (src : Src) (f n : Nat) (before : List PageT) (pt : PageT) (out : PageOutT)
    (hok : (clonePageT f src pt (afterT f src n before)).1 = .ok out) :
    (∃ i : Nat, pt.media[i]? = some (some out.media) ∧ ∀ j : Nat, j < i → pt.media[j]? = some none) ∧
    ((∃ i : Nat, pt.crop[i]? = some (some out.crop) ∧ ∀ j : Nat, j < i → pt.crop[j]? = some none) ∨
     (nearest pt.crop = none ∧ out.crop = out.media)) := by
  have h := tree_page_attributes src f n before pt out hok
  refine ⟨nearest_spec _ _ h.media, ?_⟩
  cases hc : nearest pt.crop with
  | none => right; exact ⟨rfl, by rw [h.crop, hc]; rfl⟩
  | some c =>
    left
    have : out.crop = c := by rw [h.crop, hc]; rfl
    rw [this]
    exact nearest_spec _ _ hc

/-- `nearest c = none` means what it should: no node on the way up has the entry. -/
theorem nearest_none_iff {α : Type} (c : List (Option α)) : nearest c = none ↔ ∀ x ∈ c, x = none := by
  induction c with
  | nil => simp [nearest]
  | cons x c ih =>
    cases x with
    | some v => simp [nearest]
    | none => simp [nearest, ih]

/-- the same for `from_page` -/
theorem from_page_boxes_first_on_the_way_up (pt : PageT) (out : FromOut) (hok : fromPageT pt = .ok out) :
    (∃ i : Nat, pt.media[i]? = some (some out.media) ∧ ∀ j : Nat, j < i → pt.media[j]? = some none) ∧
    ((∃ i : Nat, pt.crop[i]? = some (some out.crop) ∧ ∀ j : Nat, j < i → pt.crop[j]? = some none) ∨
     ((∀ x ∈ pt.crop, x = none) ∧ out.crop = out.media)) := by
  obtain ⟨hm, hcrop, _, _, _⟩ := from_page_attributes pt out hok
  refine ⟨nearest_spec _ _ hm, ?_⟩
  cases hc : nearest pt.crop with
  | none => right; exact ⟨(nearest_none_iff _).mp hc, by rw [hcrop, hc]; rfl⟩
  | some c =>
    left
    have : out.crop = c := by rw [hcrop, hc]; rfl
    rw [this]
    exact nearest_spec _ _ hc

/-- `clone_page` on a page of the tree: no `.panic` outcome — by construction of `clonePageT`, see
    `import_never_panics`. -/
theorem tree_import_never_panics (src : Src) (f : Nat) (pt : PageT) (st : St) : (clonePageT f src pt st).1 ≠ .panic :=
  clonePageT_ne_panic src f pt st

/-- The rotation clause as the property states it: the new page has the source page's rotation, i.e. the
    /Rotate of the nearest node that has one (0 if none). -/
def C20_rotate_full : Prop :=
  ∀ (src : Src) (f n : Nat) (before : List PageT) (pt : PageT) (out : PageOutT),
    (clonePageT f src pt (afterT f src n before)).1 = .ok out → out.rotate = (nearest pt.rotate).getD 0

/-- proved part: the page has its own /Rotate, or no ancestor has one -/
theorem C20_rotate_partial (src : Src) (f n : Nat) (before : List PageT) (pt : PageT) (out : PageOutT)
    (hok : (clonePageT f src pt (afterT f src n before)).1 = .ok out)
    (hown : (pt.rotate.head?.join).isSome = true ∨ nearest pt.rotate = none) :
    out.rotate = (nearest pt.rotate).getD 0 := by
  have h := (tree_page_attributes src f n before pt out hok).rotate
  rw [h]
  simp only [PageT.ownRotate]
  cases hc : pt.rotate with
  | nil => rfl
  | cons x c =>
    cases x with
    | some v => rfl
    | none =>
      rw [hc] at hown
      rcases hown with h1 | h1
      · simp at h1
      · rw [h1]; rfl

/-- **open**: the library reads only the page's own /Rotate (`PageTree` has no such field): a page below a
    /Pages node with /Rotate 90 is imported unrotated. -/
theorem C20_rotate_counterexample : ¬ C20_rotate_full := by
  intro h
  have := h (srcOf []) 1 0 [] ⟨[], [some []], [some 1], [none], none, [none, some 90], []⟩
    ⟨[], [], 1, 1, none, 0⟩ (by decide)
  simp [nearest] at this

/-- non-vacuity: a page that takes everything from its grand-parent, with one name in two categories -/
example : clonePageT 5 (srcOf [(1, ⟨7, [], []⟩), (2, ⟨8, [], []⟩)])
      ⟨[.use .xobject 1, .use .font 1, .use .xobject 1], [none, none, some [((.font, 1), ⟨0, [⟨.prim, 1⟩]⟩), ((.xobject, 1), ⟨0, [⟨.ref, 2⟩]⟩)]],
        [none, none, some 3], [none, some 44, some 45], some 81, [some 90, none, some 180], []⟩ (St.init 0) =
    (.ok ⟨[((.font, 1), (0, [1])), ((.xobject, 1), (0, [0]))], [], 3, 44, some 81, 90⟩,
      ⟨[(1, 1), (2, 0)], [], [], 2, [⟨1, 7, []⟩, ⟨0, 8, []⟩]⟩) := by decide

/-! ## Regressions: the code before the repairs -/

/-- **D41** (fixed). Before the cycle guard, an object whose first reference leads back to itself made
    `clone_*` recurse without bound: for every amount of fuel the old cloner runs out of it. -/
theorem d41_old_code_diverges (payload : Nat) (f : Nat) :
    (Old.cloneRef f (srcOf [(1, ⟨payload, [⟨.prim, 1⟩], [⟨.prim, 1⟩]⟩)]) ⟨.prim, 1⟩ (St.init 0)).1 = .oof :=
  Old.selfloop_diverges _ 1 ⟨payload, [⟨.prim, 1⟩], [⟨.prim, 1⟩]⟩ rfl
    (fun k => by cases k <;> exact ⟨.prim, [], rfl⟩) f .prim (St.init 0) rfl

/-- the repaired cloner reports the cycle -/
example : (cloneRef 5 (srcOf [(1, ⟨7, [⟨.prim, 1⟩], [⟨.prim, 1⟩]⟩)]) ⟨.prim, 1⟩ (St.init 0)).1 = .err := by decide

/-- a two-object cycle reached below a shared object: reported as well, and the state stays clean -/
example : cloneRef 9 (srcOf [(1, ⟨1, [⟨.prim, 2⟩], []⟩), (2, ⟨2, [⟨.prim, 3⟩, ⟨.prim, 1⟩], []⟩), (3, ⟨3, [], []⟩)])
    ⟨.prim, 1⟩ (St.init 0) = (.err, ⟨[(3, 0)], [], [], 1, [⟨0, 3, []⟩]⟩) := by decide

/-- **What the repaired importer does with a cyclic page**: an object whose references (for the kind of edge it is
    reached by) lead straight back to itself is refused with `.err` — for every amount of fuel ≥ 2, whatever else the
    importer has done before, as long as the object has no copy yet. (The general statement "a reachable cycle ⇒
    `.err`" is not proved; `import_terminates` gives "not `.oof`" and `import_never_panics` "not `.panic`" on every
    finite source, the examples below show `.err` on longer cycles.) Consequently every theorem with premise
    `… = .ok out` is silent about such pages; see the header for why that is within the property. -/
theorem cyclic_page_is_rejected (src : Src) (r : Nat) (node : Node) (k : Kind) (f : Nat) (st : St)
    (hs : src r = some node) (hk : ∃ k' rest, node.kids k = ⟨k', r⟩ :: rest) (hl : lk st.map r = none)
    (hp : r ∉ st.pending) : (cloneRef (f + 2) src ⟨k, r⟩ st).1 = .err := by
  obtain ⟨k', rest, hkids⟩ := hk
  have inner : cloneRef (f + 1) src ⟨k', r⟩ (st.push r) = (.err, st.push r) := by
    have hin : r ∈ (st.push r).pending := by show r ∈ r :: st.pending; simp
    cases k' <;> simp [cloneRef, St.push, hl] <;> (try simp [St.push] at hin) <;> simp [hl]
  rw [cloneRef.eq_2]
  simp only [hl, hp, if_false, hs, hkids, mapSt, inner]

/-- **Sharing and a cycle elsewhere.** Objects 1–4 form a shared acyclic part (1 → 3, 2 → 3 and 4, 3 → 4), objects
    5 ⇄ 6 a cycle. Page A (ExtGState → 1, font → 2) imports; page C (font → 5) is refused and leaves the state as it
    was; page A′ (font → 2 again, page entry → 3) imports after the refusal, re-using the copies: four objects in
    all, one per source object reached, none for 5 and 6. -/
theorem acyclic_page_beside_a_cycle_imports :
    clonePages 7
      (srcOf [(1, ⟨11, [⟨.prim, 3⟩], []⟩), (2, ⟨12, [⟨.prim, 3⟩, ⟨.prim, 4⟩], []⟩), (3, ⟨13, [⟨.prim, 4⟩], []⟩),
              (4, ⟨14, [], []⟩), (5, ⟨15, [⟨.prim, 6⟩], []⟩), (6, ⟨16, [⟨.prim, 4⟩, ⟨.prim, 5⟩], []⟩)])
      [⟨[.use .gs 1, .use .font 2], [((.gs, 1), ⟨100, [⟨.prim, 1⟩]⟩), ((.font, 2), ⟨0, [⟨.prim, 2⟩]⟩)], []⟩,
       ⟨[.use .font 9], [((.font, 9), ⟨0, [⟨.prim, 5⟩]⟩)], []⟩,
       ⟨[.use .font 2], [((.font, 2), ⟨0, [⟨.prim, 2⟩]⟩)], [⟨.prim, 3⟩]⟩] (St.init 0) =
    ([.ok ⟨[((.font, 2), (0, [3])), ((.gs, 1), (100, [2]))], []⟩, .err, .ok ⟨[((.font, 2), (0, [3]))], [1]⟩],
     ⟨[(2, 3), (1, 2), (3, 1), (4, 0)], [], [], 4,
      [⟨3, 12, [1, 0]⟩, ⟨2, 11, [1]⟩, ⟨1, 13, [0]⟩, ⟨0, 14, []⟩]⟩) := by decide

/-- **D46** (fixed). Before the repair `clone_rcref` on an object already copied through a plain reference
    hit `rcrefs.get(..).unwrap()` on `None`. -/
theorem d46_old_code_panics :
    (Old.cloneRef 3 (srcOf [(1, ⟨7, [], []⟩)]) ⟨.rc, 1⟩
      (Old.cloneRef 3 (srcOf [(1, ⟨7, [], []⟩)]) ⟨.prim, 1⟩ (St.init 0)).2).1 = .panic := by decide

/-- the repaired cloner returns the existing copy and allocates nothing -/
example : cloneRef 3 (srcOf [(1, ⟨7, [], []⟩)]) ⟨.rc, 1⟩
      (cloneRef 3 (srcOf [(1, ⟨7, [], []⟩)]) ⟨.prim, 1⟩ (St.init 0)).2 =
    (.ok 0, ⟨[(1, 0)], [0], [], 1, [⟨0, 7, []⟩]⟩) := by decide

/-! ## Non-vacuity: a concrete shared, acyclic document satisfies the hypotheses and exercises every clause -/

/-- objects 1..4: 1 and 2 both refer to 3, 3 refers to 4 (typed: through an `RcRef`) -/
def demoNodes : List (Nat × Node) :=
  [(1, ⟨11, [⟨.prim, 3⟩], [⟨.prim, 3⟩]⟩), (2, ⟨12, [⟨.prim, 3⟩, ⟨.prim, 4⟩], [⟨.ref, 3⟩, ⟨.rc, 4⟩]⟩),
   (3, ⟨13, [⟨.prim, 4⟩], [⟨.rc, 4⟩]⟩), (4, ⟨14, [], []⟩)]
def demoSrc : Src := srcOf demoNodes

/-- page A names an ExtGState (→ object 1), a font (→ 2) and a colour space; page B names the same font -/
def demoA : PageM := ⟨[.use .gs 1, .other 0, .use .font 2, .use .colorspace 5, .use .gs 1],
  [((.gs, 1), ⟨100, [⟨.prim, 1⟩]⟩), ((.font, 2), ⟨0, [⟨.ref, 2⟩]⟩), ((.colorspace, 5), ⟨500, [⟨.prim, 4⟩]⟩)], [⟨.prim, 4⟩]⟩
def demoB : PageM := ⟨[.use .font 2, .inline [⟨.rc, 4⟩]], [((.font, 2), ⟨0, [⟨.ref, 2⟩]⟩)], []⟩

def demoRank : Nat → Nat := fun o => 5 - o

/-- the hypotheses of `import_succeeds_on_acyclic` are satisfiable: the demo source is acyclic … -/
example : Acyclic demoSrc demoRank := acyclic_of_check demoNodes demoRank (by decide)

/-- … and every reference of the demo pages leads to an existing object of rank below the fuel -/
example : ∀ e ∈ pageEdges demoA ++ pageEdges demoB, demoSrc e.tgt ≠ none ∧ demoRank e.tgt < 6 := by decide

/-- both pages import; four source objects are copied into four objects although 3 and 4 are reached several
    times; the colour space named by page A is *not* in the new resources (D40) -/
example : clonePages 6 demoSrc [demoA, demoB] (St.init 0) =
    ([.ok ⟨[((.font, 2), (0, [3])), ((.gs, 1), (100, [2]))], [0]⟩, .ok ⟨[((.font, 2), (0, [3]))], []⟩],
     ⟨[(2, 3), (1, 2), (3, 1), (4, 0)], [0], [], 4,
      [⟨3, 12, [1, 0]⟩, ⟨2, 11, [1]⟩, ⟨1, 13, [0]⟩, ⟨0, 14, []⟩]⟩) := by decide

/-! ## Full strength and what is still open (D40) -/

/-- The resource clause as the property states it: **every** resource the operations name — whatever its
    category — is copied into the new page's resources. -/
def C20_full : Prop :=
  ∀ (src : Src) (f n : Nat) (before : List PageM) (p : PageM) (out : PageOut),
    (clonePage f src p (after f src n before)).1 = .ok out →
    ∀ k name, OpM.use k name ∈ p.ops → ∀ ent, resGet p.res k name = some ent →
      ∃ ks, resGet out.res k name = some (ent.payload, ks) ∧
        Mapped (clonePage f src p (after f src n before)).2.map ent.kids ks

/-- The proved part: the categories `deep_clone_op` handles (the explicit, decidable exclusion is
    `handled k = true`, i.e. k ∈ {ExtGState, Font, XObject, Properties}). -/
theorem C20_partial (src : Src) (f n : Nat) (before : List PageM) (p : PageM) (out : PageOut)
    (hok : (clonePage f src p (after f src n before)).1 = .ok out)
    (k : RKind) (name : Nat) (hop : OpM.use k name ∈ p.ops) (hk : handled k = true)
    (ent : Entry) (hent : resGet p.res k name = some ent) :
    ∃ ks, resGet out.res k name = some (ent.payload, ks) ∧
      Mapped (clonePage f src p (after f src n before)).2.map ent.kids ks :=
  (pruned_resources_cover_used src f n before p out hok).cover k name hop hk ent hent

/-- **D40** (open): a page that sets a named colour space imports "successfully" without it. The same
    witness with `.pattern` or `.shading` behaves alike (`.properties` is copied since its repair). -/
theorem C20_counterexample : ¬ C20_full := by
  intro h
  have := h (srcOf []) 1 0 [] ⟨[.use .colorspace 1], [((.colorspace, 1), ⟨5, []⟩)], []⟩ ⟨[], []⟩ (by decide)
    .colorspace 1 (by simp) ⟨5, []⟩ (by decide)
  obtain ⟨ks, hks, _⟩ := this
  simp [resGet] at hks

example : ∀ k, handled k = false ↔ k = .colorspace ∨ k = .pattern ∨ k = .shading := by
  intro k; cases k <;> simp [handled]

end Import
