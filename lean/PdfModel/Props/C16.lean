import PdfModel.Model.Enc
namespace Enc
/-- placeholder while the harness is brought up -/
theorem placeholder_c16 : encodeHex [65] = .ok [52, 49, 62] := by decide
end Enc
