import PdfModel.Lemmas.EncEncode
import PdfModel.Props.C05

/-!
# C16 — every encoder is inverted by its decoder and emits the standard format

`encode_hex` and `encode_85` are modelled completely (`encodeHex`, `encode85` in `Model/Enc.lean`). The
Flate encoder is a call into libflate and appears as the parameter `X.zlibEncode` with the assumed
round-trip property as an explicit hypothesis (`hflate`) — the only third-party hypothesis left.
LZW: the decoder is modelled (`Model/Lzw.lean`) and proved to invert every conforming encoding (C05); the
greedy encoder of `Spec/Lzw.lean` is proved to conform (`lzw_decode_encode`); for weezl's own encoder
(`X.lzwEncode`) the hypothesis `hlzw` is a *conformance obligation* — its output lies in the encoder
relation — which the stream `c16.lzw.encode` checks on the real crate with the sound membership test.
"Emits the standard format" is membership in the C05 relations (`EncodesToHex`, `EncodesTo85`,
`EncodesToLzw`: the set of all texts a conforming encoder may produce), EOD markers included; by the C05
theorems anything in those relations is decoded to the original bytes — by this decoder and by any other
conforming one.
-/

namespace Enc
open Codecs

/-- **ASCIIHex encoder conforms**: two digits per byte and the EOD marker `>` -/
theorem encodeHex_conforms (bs : Bytes) :
    ∃ t, encodeHex bs = .ok t ∧ EncodesToHex bs t ∧ t.getLast? = some 62 := by
  obtain ⟨body, h1, h2⟩ := encodeHexGo_spec bs
  refine ⟨body ++ [62], h1, ⟨body, body ++ [62], [], h2, Sprinkled.refl _, by simp⟩, by simp⟩

/-- **ASCIIHex round trip** -/
theorem decodeHex_encodeHex (bs : Bytes) : ∃ t, encodeHex bs = .ok t ∧ decodeHex t = .ok bs := by
  obtain ⟨t, h1, h2, _⟩ := encodeHex_conforms bs
  exact ⟨t, h1, decodeHex_of_encodes h2⟩

/-- **ASCII85 encoder conforms**: five digits per group, `z` for a zero group, n + 1 digits for a final
    group of n bytes, the EOD marker `~>` -/
theorem encode85_conforms (bs : Bytes) :
    ∃ body, encode85 bs = .ok (body ++ [126, 62]) ∧ EncodesTo85 bs (body ++ [126, 62]) := by
  obtain ⟨body, h1, h2⟩ := encode85Go_spec bs
  exact ⟨body, h1, body, h2, Sprinkled.refl _⟩

/-- **ASCII85 round trip** -/
theorem decode85_encode85 (bs : Bytes) : ∃ t, encode85 bs = .ok t ∧ decode85 t = .ok bs := by
  obtain ⟨body, h1, h2⟩ := encode85_conforms bs
  exact ⟨_, h1, decode85_of_encodes h2⟩

/-- the zero-group shorthand is used: four zero bytes become the single character `z` -/
theorem encode85_zero_group (rest : Bytes) :
    ∃ t, encode85 rest = .ok t ∧ encode85 (0 :: 0 :: 0 :: 0 :: rest) = .ok (122 :: t) := by
  obtain ⟨body, h1, _⟩ := encode85Go_spec rest
  refine ⟨_, h1, ?_⟩
  show encode85Go (0 :: 0 :: 0 :: 0 :: rest) = _
  simp [encode85Go, h1]

/-- **Every encodable filter**: whenever `encode` succeeds, `decode` with the same filter returns the
    input — for the ASCII filters unconditionally; for LZW provided weezl's encoder emits a conforming
    stream (`hlzw`: membership in the relation, checked on the crate by `c16.lzw.encode`; the decoder side
    is a theorem); for Flate under the hypothesis that libflate's inflate inverts its deflate. A requested
    predictor or EarlyChange ≠ 0 is refused by `encode` (an error), never silently ignored. -/
theorem decode_encode (X : Ext)
    (hflate : ∀ x, X.inflateZlib (X.zlibEncode x) = some x)
    (hlzw : ∀ x y, X.lzwEncode x = some y → LzwSpec.EncodesToLzw false x y)
    (f : Filter) (x y : Bytes) (h : encode X x f = .ok y) : decode X y f = .ok x := by
  cases f with
  | asciiHex =>
    obtain ⟨t, h1, h2⟩ := decodeHex_encodeHex x
    simp only [encode] at h
    rw [h1] at h; cases h; exact h2
  | ascii85 =>
    obtain ⟨t, h1, h2⟩ := decode85_encode85 x
    simp only [encode] at h
    rw [h1] at h; cases h; exact h2
  | flate p =>
    simp only [encode] at h
    split at h
    · simp at h
    · rename_i hp
      cases h
      have hnp : ¬ p.predictor ≥ 10 := by omega
      have hn2 : ¬ p.predictor = 2 := by omega
      simp [decode, flateDecode, hflate, unpredict, hnp, hn2]
  | lzw p =>
    simp only [encode] at h
    split at h
    · simp at h
    · split at h
      · simp at h
      · rename_i he hp
        cases hx : X.lzwEncode x with
        | none => simp [hx] at h
        | some d =>
          simp [hx] at h; subst h
          have hnp : ¬ p.predictor ≥ 10 := by omega
          have hn2 : ¬ p.predictor = 2 := by omega
          have he0 : p.earlyChange = 0 := by simpa using he
          simp [decode, lzwDecode, he0, Lzw.decode_of_encodesToLzw false (hlzw x d hx), unpredict, hnp, hn2]
  | runLength => simp [encode] at h
  | jpx => simp [encode] at h
  | dct => simp [encode] at h
  | ccittFax => simp [encode] at h
  | jbig2 => simp [encode] at h
  | crypt => simp [encode] at h

/-- **LZW round trip for the executable greedy encoder** (clear-table first, longest match, clear-table
    when the table is full, EOD, zero padding), both EarlyChange values: its output conforms and the
    decoder returns the input -/
theorem lzw_decode_encode (early : Bool) (bs : Bytes) :
    LzwSpec.EncodesToLzw early bs (LzwSpec.encodeGreedy early bs) ∧
    Lzw.decode early (LzwSpec.encodeGreedy early bs) = .ok bs :=
  ⟨LzwSpec.encodeGreedy_conforms early bs, Lzw.decode_of_encodesToLzw early (LzwSpec.encodeGreedy_conforms early bs)⟩

/-- the greedy encoder reproduces the example of ISO 32000-1 §7.4.4.2 bit for bit -/
example : LzwSpec.encodeGreedy true [45, 45, 45, 45, 45, 65, 45, 45, 45, 66]
    = [0x80, 0x0B, 0x60, 0x50, 0x22, 0x0C, 0x0C, 0x85, 0x01] := by decide

/-- the two modelled encoders never panic (`encode_nibble`'s `unreachable!()` and the `u8` addition in
    `a85` cannot be reached) -/
theorem encode_ascii_total (bs : Bytes) : (∃ t, encodeHex bs = .ok t) ∧ (∃ t, encode85 bs = .ok t) := by
  obtain ⟨t, h, _⟩ := decodeHex_encodeHex bs
  obtain ⟨u, h', _⟩ := decode85_encode85 bs
  exact ⟨⟨t, h⟩, ⟨u, h'⟩⟩

/-! ## Before the repairs -/

/-- D16: the hex encoder wrote the digits only -/
def encodeHexOld : Bytes → Bytes
  | [] => []
  | b :: bs => (if b >>> 4 < 10 then (48 : UInt8) + (b >>> 4) else (87 : UInt8) + (b >>> 4)) ::
      (if b &&& 15 < 10 then (48 : UInt8) + (b &&& 15) else (87 : UInt8) + (b &&& 15)) :: encodeHexOld bs

/-- every conforming ASCIIHex text contains the EOD marker … -/
theorem encodesToHex_has_eod {bs text : Bytes} (h : EncodesToHex bs text) : 62 ∈ text := by
  obtain ⟨body, marked, rest, _, hs, rfl⟩ := h
  obtain ⟨t1, t2, rfl, _, _⟩ := hs.split
  simp

/-- … the old output has none, so no reader is obliged to accept it -/
example : encodeHexOld [0x4a, 0xff] = [52, 97, 102, 102] := by decide
example : ¬ EncodesToHex [0x4a, 0xff] (encodeHexOld [0x4a, 0xff]) := by
  intro h; have := encodesToHex_has_eod h; revert this; decide
example : encodeHex [0x4a, 0xff] = .ok [52, 97, 102, 102, 62] := by decide

/-! ## Non-vacuity -/

example : encode85 [104, 101, 108, 108, 111, 32, 119, 111, 114, 108, 100, 33]
    = .ok [66, 79, 117, 33, 114, 68, 93, 106, 55, 66, 69, 98, 111, 56, 48, 126, 62] := by decide
example : encode85 [0, 0, 0, 0, 0] = .ok [122, 33, 33, 126, 62] := by decide
example : (match encode85 [1, 2, 3, 4, 5, 6, 7] with | .ok t => decode85 t | o => o) = .ok [1, 2, 3, 4, 5, 6, 7] := by decide

end Enc
