import PdfModel.Lemmas.Build
import PdfModel.Lemmas.XrefWidths
import PdfModel.Lemmas.BuildBytes
import PdfModel.Props.C09

/-!
# C10 — documents built from scratch reload with the same pages and are valid PDF

The theorems are about the model in `Model/Build.lean` (`CatalogBuilder::build` and `PdfBuilder::build`:
the order of promises, creations and fulfilments, then `save`) on top of `Model/Storage.lean`. They hold
for every page list and every info dictionary, for all payload types (page attributes, resources,
operations, information entries are abstract: their dictionary / operator form is C15 / C08) and every
record layout with positive lengths. The correspondence check for C10 ties `build` to
`PdfBuilder::build` of the current source tree: object numbers handed out, rows, widths, offsets and the
bytes of the cross-reference stream.
-/

namespace Build
open Storage Xref

variable {A R C I : Type}

/-- **C10, `byte_len`**: `byte_len n` bytes hold `n` (and for `n ≥ 256` no fewer do) — a statement about the function
    `byteLen` alone. That the `/W` of a save *is* `byteLen` of the largest field of each column is `save_ok_widths`
    (Lemmas/SaveShape.lean) and is used by `rows_fit_widths` below; the two together say that the widths announced are the
    exact number of base-256 digits. -/
theorem byteLen_bounds (n : Nat) :
    1 ≤ byteLen n ∧ n < 256 ^ byteLen n ∧ (256 ≤ n → 256 ^ (byteLen n - 1) ≤ n) :=
  ⟨byteLen_pos n, lt_pow_byteLen n, pow_byteLen_le n⟩

/-- **C10, /W at the boundaries**: at every power of 256 the width steps exactly there — `256^k − 1` still
    takes `k` bytes, `256^k` and `256^k + 1` take `k + 1` (so an offset of exactly 256, 65536, 16777216, …
    gets the extra byte). -/
theorem byteLen_at_powers (k : Nat) (hk : 1 ≤ k) :
    byteLen (256 ^ k - 1) = k ∧ byteLen (256 ^ k) = k + 1 ∧ byteLen (256 ^ k + 1) = k + 1 := by
  have hpos : 1 ≤ 256 ^ (k - 1) := Nat.pow_pos (by decide)
  have hstep : 256 ^ k = 256 ^ (k - 1) * 256 := by rw [← Nat.pow_succ]; congr 1; omega
  have hnext : 256 ^ (k + 1) = 256 ^ k * 256 := Nat.pow_succ ..
  refine ⟨?_, ?_, ?_⟩
  · have := byteLen_unique (256 ^ k - 1) (k - 1) (by omega) (by
      have : k - 1 + 1 = k := by omega
      rw [this]; omega)
    omega
  · exact byteLen_unique (256 ^ k) k (Nat.le_refl _) (by omega)
  · exact byteLen_unique (256 ^ k + 1) k (by omega) (by omega)

/-- **C10, /W, rows**: in every successful save of a document reached from a base document — so in every
    build — each field of each row fits its column and the bytes written for the row
    (`type, field₁ big-endian, field₂ big-endian`) decode to the row. -/
theorem rows_fit_widths {V : Type} (P : Params V) (L : Layout) (hL : L.Pos) (d0 d d' : Doc V) (chain0) (i : SaveInfo)
    (hb : BaseOK d0 chain0) (hi : Inv d0 d) (h : save P L d = (d', .ok i)) :
    ∀ r ∈ i.rows, ∀ ty a b, Storage.fieldsOf r = some (ty, a, b) →
      a < 256 ^ i.aw ∧ b < 256 ^ i.bw ∧
      rowBytes i.aw i.bw r = ty :: (beBytes i.aw a ++ beBytes i.bw b) ∧
      (beBytes i.aw a).length = i.aw ∧ (beBytes i.bw b).length = i.bw ∧
      decodeBE (beBytes i.aw a) = a ∧ decodeBE (beBytes i.bw b) = b := by
  intro r hr ty a b hf
  obtain ⟨_, _, hw⟩ := width_fits P L hL d0 d d' chain0 i hb hi h
  obtain ⟨h1, h2, h3, h4, h5⟩ := hw r hr ty a b hf
  exact ⟨h1, h2, h3, beBytes_length _ _, beBytes_length _ _, h4, h5⟩

/-- **C10, the builder never fails** on a page list that fits the reader's object limit (and whose catalog reads
    back as a catalog: `L.typed`, the typed reload of the trailer at the end of `save`):
    no promise stays open, every value is serialisable, the catalog is there. -/
theorem build_total (L : Layout) (hL : L.Pos) (ht : L.typed = true) (cached : Bool) (pages : List (PageSpec A R C)) (info : Option I)
    (hsize : 3 * pages.length + 5 ≤ MAX_ID) : ∃ d' i, build L cached pages info = .ok (d', i) := by
  obtain ⟨d, hp, hpr⟩ := prepare_spec cached pages info
  have hb := emptyDoc_ok (A := A) (R := R) (C := C) (I := I) cached d.tr hpr.tr_prev
  have hsv : Savable params d := by
    refine ⟨?_, fun _ _ => rfl, ?_, ?_⟩
    · simp [allOk, params]
    · intro j hj
      have hlt : j < d.st.refs.length := (List.getElem?_eq_some_iff.mp hj).1
      by_cases h0 : j = 0
      · subst h0
        have := hpr.inv.refs_old 0 (by simp [emptySt])
        intro hc
        rw [this hc] at hj
        simp [emptySt] at hj
      · exact hpr.all_pending j (by omega) hlt
    · obtain ⟨t, ht⟩ := hpr.root_pending
      exact ⟨_, resolve_changed _ _ _ 0 ht⟩
  obtain ⟨d', i, hs⟩ := save_succeeds params L hL ht _ d [] hb hpr.inv hsv (by rw [hpr.refs_len]; omega)
  exact ⟨d', i, by simp [build, hp, hs]⟩

/-- **C10, "the same number of pages in the same order with equal … "** in the document the builder
    holds: reading catalog → page tree root → kids gives back exactly the page list that went in (each
    page with its attributes, its resources and its operations, under a /Count that matches). -/
theorem build_pages (L : Layout) (cached : Bool) (pages : List (PageSpec A R C)) (info : Option I)
    (d' : Doc (BV A R C I)) (i : SaveInfo) (h : build L cached pages info = .ok (d', i)) (hL : L.Pos) :
    pagesOf (resolve d'.st) d'.tr.root.1 = some pages := by
  obtain ⟨d, hp, hpr, hs⟩ := build_ok_iff L cached pages info d' i h
  have hb := emptyDoc_ok (A := A) (R := R) (C := C) (I := I) cached d.tr hpr.tr_prev
  have htr := save_tr_eq params L _ d d' [] i hb hpr.inv hs
  have hi' := inv_save_ok params L hL _ d d' [] i hb hpr.inv hs
  rw [htr]
  apply hpr.pages_ok
  intro j v g hc
  have hlt := hpr.inv.ch_lt j _ hc
  have := save_changes_old params L _ d [] hb hpr.inv j hlt
  rw [hs] at this
  exact resolve_changed _ _ v g (by rw [this]; exact hc)

/-- **C10, reload**: the bytes the builder returns open again (cached or not), with the catalog the
    trailer names and the information dictionary that was given, and reading catalog → page tree →
    leaves in the reloaded document gives back exactly the page list: same number, same order, same
    attributes, resources and operations. In particular every reference on those paths
    (trailer → catalog → tree → kid → resources / contents, trailer → info) is to a defined object. -/
theorem build_reload (L : Layout) (cached : Bool) (pages : List (PageSpec A R C)) (info : Option I)
    (d' : Doc (BV A R C I)) (i : SaveInfo) (h : build L cached pages info = .ok (d', i)) (hL : L.Pos) (c : Bool) :
    ∃ dr, reload d'.st c = .ok dr ∧ dr.tr.root = d'.tr.root ∧ dr.tr.info = info.map .info ∧
      pagesOf (resolve dr.st) dr.tr.root.1 = some pages := by
  obtain ⟨d, hp, hpr, hs⟩ := build_ok_iff L cached pages info d' i h
  have hb := emptyDoc_ok (A := A) (R := R) (C := C) (I := I) cached d.tr hpr.tr_prev
  have htr := save_tr_eq params L _ d d' [] i hb hpr.inv hs
  have pf := prep_facts _ d [] hb hpr.inv
  obtain ⟨t, hr, facts⟩ := reload_after_save params L hL _ d d' [] i hb hpr.inv hs c
  refine ⟨_, hr, by rw [htr], hpr.tr_info, ?_⟩
  apply hpr.pages_ok
  intro j v g hc
  exact facts.pending j v g (pf.ch_sup j _ hc) c

/-- **C10, structural validity of the built file** (model level; the same facts are checked on the real
    bytes by the independent reader): the header is at offset 0; at offset `i.xpos` (the `SaveInfo` field the model
    writes after `startxref`: that the *bytes* end with it is `build_bytes_valid`) stands a
    cross-reference section with `/Index [0 n]`, the rows of the theorem, `/Size` = `i.size`, no `/Prev`;
    `/Size` is above every row and above the number of every object in the file; row 0 is the head of
    the free list; every other row is in use, has generation 0 and is the offset of the record
    `j 0 obj` of exactly that number. -/
theorem build_valid (L : Layout) (cached : Bool) (pages : List (PageSpec A R C)) (info : Option I)
    (d' : Doc (BV A R C I)) (i : SaveInfo) (h : build L cached pages info = .ok (d', i)) (hL : L.Pos) :
    d'.st.start = 0 ∧
    (∃ s, secAt d'.st.secs i.xpos = some s ∧ s.subs = [⟨0, i.rows⟩] ∧ s.size = i.size ∧ s.prev = none ∧
      s.root = d'.tr.root) ∧
    i.rows.length ≤ i.size ∧ i.size ≤ MAX_ID ∧ (∀ o ∈ d'.st.objs, o.id < i.size) ∧
    i.rows[0]? = some (.free 0 65535) ∧
    (∀ j : Nat, 1 ≤ j → j < i.rows.length →
      ∃ pos o, i.rows[j]? = some (.raw pos 0) ∧ objAt d'.st.objs pos = some o ∧ o.off = pos ∧ o.id = j ∧ o.gen = 0) := by
  obtain ⟨d, hp, hpr, hs⟩ := build_ok_iff L cached pages info d' i h
  have hb := emptyDoc_ok (A := A) (R := R) (C := C) (I := I) cached d.tr hpr.tr_prev
  have htr := save_tr_eq params L _ d d' [] i hb hpr.inv hs
  have hi' := inv_save_ok params L hL _ d d' [] i hb hpr.inv hs
  have pf := prep_facts _ d [] hb hpr.inv
  have sh := save_shape params L hL _ d d' [] i hb hpr.inv hs
  obtain ⟨_, _, _, _, _, _, hxid, _, hsz, _, hmax⟩ := save_ok_spec params L d d' i hs
  have hstart : d'.st.start = 0 := by rw [hi'.start_eq]; rfl
  obtain ⟨s, s1, s2, s3, s4, s5⟩ := sh.section_at
  obtain ⟨ext, e1, e2⟩ := sh.ids_lt
  -- pending values of the new state
  have hst : ∀ j, chLookup d'.st.changes j =
      if j = (prep d).xid then some (params.xrefVal i, 0) else chLookup (prep d).st2.changes j := by
    obtain ⟨w, rows, _, _, hst, _⟩ := save_ok_spec params L d d' i hs
    intro j; rw [hst]; simp [commit, chLookup_chInsert, params]
  refine ⟨hstart, ⟨s, by rw [hstart, Nat.zero_add] at s1; exact s1, s2, s3, by rw [s5, hpr.tr_prev], by rw [s4, htr]⟩,
    by have := sh.rows_len; omega, by rw [hsz, pf.size_eq]; exact hmax, ?_, ?_, ?_⟩
  · intro o ho
    rw [e1, hpr.backend.1] at ho
    exact e2 o (by simpa using ho)
  · -- row 0: the table still starts with the head of the free list
    have h0 : chLookup d'.st.changes 0 = none := by
      rcases Option.eq_none_or_eq_some (chLookup d'.st.changes 0) with hc | ⟨⟨v, g⟩, hc⟩
      · exact hc
      · obtain ⟨e, a, b, _⟩ := hi'.ch_old 0 v g hc (by simp [emptySt])
        simp [emptySt] at a; subst a; simp [rawOrStream] at b
    have hr0 := hi'.refs_old 0 (by simp [emptySt]) h0
    obtain ⟨r, a1, a2⟩ := sh.rows_of_table 0 (.free 0 65535) (by rw [hr0]; simp [emptySt])
    simp only [rowOf, Option.some.injEq] at a1; subst a1
    exact a2
  · intro j h1 h2
    have hjx : j < (prep d).xid + 1 := by have := sh.rows_len.1; omega
    -- every number from 1 on has a pending value
    have hpend : ∃ v g, chLookup d'.st.changes j = some (v, g) := by
      rw [hst]
      by_cases hx : j = (prep d).xid
      · rw [if_pos hx]; exact ⟨_, _, rfl⟩
      · rw [if_neg hx]
        by_cases hjl : j < d.st.refs.length
        · have := hpr.all_pending j h1 hjl
          rcases Option.eq_none_or_eq_some (chLookup d.st.changes j) with hc | ⟨⟨v, g⟩, hc⟩
          · exact absurd hc this
          · exact ⟨v, g, pf.ch_sup j _ hc⟩
        · have := pf.ch_mid j (by omega) (by omega)
          rcases Option.eq_none_or_eq_some (chLookup (prep d).st2.changes j) with hc | ⟨⟨v, g⟩, hc⟩
          · exact absurd hc this
          · exact ⟨v, g, hc⟩
    obtain ⟨v, g, hc⟩ := hpend
    have hg : g = 0 := (hi'.ch_new j v g hc (by simp [emptySt]; omega)).1
    subst hg
    obtain ⟨off, a, b, o, o1, o2, o3, o4, _⟩ := sh.pending j v 0 hc
    rw [hstart] at b
    exact ⟨off, o, by simpa using b, o1, o2, o3, o4⟩

/-! ## Non-vacuity: a two-page document with an info dictionary -/

def samplePages : List (PageSpec Nat Nat Nat) := [⟨10, 20, 30⟩, ⟨11, 21, 31⟩]
def L9 : Layout := ⟨fun id => 40 + id, fun _ => 90, fun _ => 25, true⟩

example : (match build L9 false samplePages (some 5) with
    | .ok (d, i) =>
      i.size == 11 && i.rows.length == 11 && d.st.objs.length == 10 &&
      pagesOf (resolve d.st) d.tr.root.1 == some samplePages &&
      (match reload d.st true with
        | .ok dr => pagesOf (resolve dr.st) dr.tr.root.1 == some samplePages && dr.tr.info == some (.info 5)
        | _ => false)
    | _ => false) = true := by decide

/-- no pages at all is a document too -/
example : (match build L9 true ([] : List (PageSpec Nat Nat Nat)) (none : Option Nat) with
    | .ok (d, _) => pagesOf (resolve d.st) d.tr.root.1 == some []
    | _ => false) = true := by decide

end Build

/-!
## C10 at byte level (L2)

`BuildBytes.buildB` is `PdfBuilder::build` with every object a primitive and the file rendered by `SaveBytes.saveB`
(Model/BuildBytes.lean) — the correspondence stream `c10.bytes` compares its output with the bytes `PdfBuilder::build`
returns, byte for byte. The theorems below are about those bytes: they load again through the byte-level open path
and every object the builder wrote is read back with its value (`build_bytes_reload`), and they are structurally valid
(`build_bytes_valid`). The base is the empty storage, whose bytes (the header line) represent it trivially: no
hypothesis about a base file remains. What remains explicit: the page payloads are within the limits of the
round-trip theorems (`PageOK`, `OKVal`), `f32` text only through `Serialisable`, no filter, no encryption, the output
below 2³¹ bytes.
-/

namespace C10Bytes
open Storage PdfLex Xref OpenBytes SaveBytes RepBytes BuildBytes
open PdfSyntax (SpellsStream)

variable {R : Type}

/-- the state in which the builder calls `save` satisfies the invariant of byte-level histories -/
theorem hinv_prepared (fmt : R → List UInt8) (env : Env R) (hd : env.decrypt = none) (pfuel : Nat)
    (dec : Dict R → List UInt8 → Out (List UInt8)) (hdec : NoFilter dec) (pages : List (PageB R)) (info : Option (Prim R))
    (hn : pages.length ≤ 1000000) (hp : ∀ p ∈ pages, PageOK fmt env.parseReal p)
    (hinfo : ∀ v, info = some v → OKVal fmt env.parseReal v)
    (hsmall : (prepared fmt pages info).bytes.length ≤ fileMax) (hpf : 3 * (prepared fmt pages info).bytes.length ≤ pfuel) :
    HInv fmt env pfuel dec (emptyB info pages.length) (prepared fmt pages info) :=
  hinv_runB fmt env hd pfuel dec hdec _ [] (baseOK_empty info _) (baseVals_empty fmt env.parseReal info _ hinfo hn)
    (buildOps pages) _ (hinv_base fmt env pfuel dec _ [] (baseOK_empty info _) (rep_empty _ info _))
    (goodHist_buildOps fmt env.parseReal pages hn hp _) hsmall hpf

/-- a value within the limits of the round-trip theorems is accepted by the writer model -/
theorem okVal_serialize (fmt : R → List UInt8) (pr : List UInt8 → Option R) (v : Prim R) (h : OKVal fmt pr v) :
    (serialize fmt v).isOk = true := by
  cases h with
  | direct v hs _ _ =>
    obtain ⟨txt, trail, h1, _⟩ := serialize_spells fmt pr v hs
    rw [h1]; rfl
  | stream info data hs _ _ _ _ =>
    obtain ⟨txt, h1, _⟩ := serialize_stream_ok fmt pr info data hs
    rw [h1]; rfl

/-- **C10 at byte level, the builder's save succeeds**: for page payloads within the limits (`PageOK`, `OKVal` for the
    info dictionary) and at most 333 331 pages (the reader's `MAX_ID` of 10⁶ numbers: three per page and five more),
    `saveB` on the state the builder has prepared returns `Ok` — every pending value is accepted by the writer model, no
    promise is open (every number `1 … 3n+2` has its value pending: `prepared_changes`), the catalog is pending under the
    number the trailer names. So the hypothesis `hs` of `build_bytes_reload` / `build_bytes_pages` / `build_bytes_valid`
    can always be discharged; `buildB` returns the bytes. (`typed = true`: the catalog the builder made loads as a
    catalog — the typed readers are C15's.) -/
theorem build_bytes_total (fmt : R → List UInt8) (env : Env R) (hd : env.decrypt = none) (pfuel : Nat)
    (dec : Dict R → List UInt8 → Out (List UInt8)) (hdec : NoFilter dec) (pages : List (PageB R)) (info : Option (Prim R))
    (hn : 3 * pages.length + 5 ≤ 1000000) (hp : ∀ p ∈ pages, PageOK fmt env.parseReal p)
    (hinfo : ∀ v, info = some v → OKVal fmt env.parseReal v) (hpf : 27 ≤ pfuel) :
    ∃ b' i, saveB fmt true (prepared fmt pages info) = (b', .ok i) ∧ buildB fmt pages info = .ok b'.bytes := by
  have hb0 := baseOK_empty info pages.length
  obtain ⟨hbytes, _, _, _, _⟩ := prepared_backend fmt pages info
  have h1 := hinv_prepared fmt env hd pfuel dec hdec pages info (by omega) hp hinfo
    (by rw [hbytes]; simp [headerBytes, fileMax]) (by rw [hbytes]; simp [headerBytes]; omega)
  obtain ⟨hlen, c1, c2, c3⟩ := prepared_changes fmt pages info
  have htr : (prepared fmt pages info).doc.tr = (emptyB info pages.length).doc.tr := h1.inv.tr_eq
  have hsv : Savable (params fmt (prepared fmt pages info).ids) (prepared fmt pages info).doc := by
    refine ⟨?_, ?_, ?_, ?_⟩
    · unfold allOk
      rw [List.all_eq_true]
      intro c hc
      obtain ⟨j, v, g⟩ := c
      have hl := chLookup_of_mem_sorted _ h1.inv.sorted _ hc
      exact okVal_serialize fmt env.parseReal v (h1.ch j v g hl)
    · intro v hv
      rw [htr] at hv
      exact okVal_serialize fmt env.parseReal v (hinfo v hv)
    · intro j hj hnone
      have hjl : j < 3 * pages.length + 3 := by rw [← hlen]; exact (List.getElem?_eq_some_iff.mp hj).1
      by_cases h0 : j = 0
      · subst h0
        have := h1.inv.refs_old 0 (by simp [emptyB]) hnone
        rw [hj] at this; simp [emptyB] at this
      by_cases hk : j ≤ pages.length
      · obtain ⟨p, hp'⟩ : ∃ p, pages[j - 1]? = some p := ⟨pages[j - 1]'(by omega), by simp⟩
        have := (c3 (j - 1) p hp').1
        rw [show j - 1 + 1 = j by omega, hnone] at this; cases this
      by_cases hk1 : j = pages.length + 1
      · subst hk1; rw [hnone] at c2; cases c2
      by_cases hk2 : j = 3 * pages.length + 2
      · subst hk2; rw [hnone] at c1; cases c1
      -- resources `n + 2 + 2k` or content `n + 3 + 2k`
      have hk' : (j - pages.length - 2) / 2 < pages.length := by omega
      obtain ⟨p, hp'⟩ : ∃ p, pages[(j - pages.length - 2) / 2]? = some p := ⟨pages[(j - pages.length - 2) / 2]'hk', by simp⟩
      obtain ⟨_, d2, d3⟩ := c3 _ p hp'
      by_cases hpar : (j - pages.length - 2) % 2 = 0
      · rw [show pages.length + 2 + 2 * ((j - pages.length - 2) / 2) = j by omega, hnone] at d2; cases d2
      · rw [show pages.length + 3 + 2 * ((j - pages.length - 2) / 2) = j by omega, hnone] at d3; cases d3
    · refine ⟨catalogVal (pages.length + 1), ?_⟩
      rw [htr]
      exact resolve_changed _ _ _ 0 c1
  obtain ⟨d', i, hs⟩ := save_succeeds _ (layoutOf fmt true (prepared fmt pages info)) (layoutOf_pos fmt true _) rfl
    _ _ [] hb0 h1.inv hsv (by rw [hlen]; unfold MAX_ID; omega)
  have h2 : (saveB fmt true (prepared fmt pages info)).2 = .ok i := by
    unfold saveB; simp only [hs]; split <;> rfl
  refine ⟨(saveB fmt true (prepared fmt pages info)).1, i, by rw [← h2], ?_⟩
  unfold buildB
  rw [show saveB fmt true (prepared fmt pages info) = ((saveB fmt true (prepared fmt pages info)).1, .ok i) from by rw [← h2]]

/-- **C10 at byte level, reload.** The file `PdfBuilder::build` returns opens through the byte-level open path
    (header at 0, table of `/Size + 1` slots from the cross-reference stream), and every object the builder wrote —
    catalog, page tree, leaves, resources, content streams, the info dictionary — is read back by the byte-level
    resolver with the value written (streams: same dictionary, a `file_range` covering exactly the data).
    (`hs`: the save succeeded — always the case for these inputs up to 333 331 pages: `build_bytes_total`.) -/
theorem build_bytes_reload (fmt : R → List UInt8) (env : Env R) (hd : env.decrypt = none) (pfuel : Nat)
    (dec : Dict R → List UInt8 → Out (List UInt8)) (hdec : NoFilter dec) (pages : List (PageB R)) (info : Option (Prim R))
    (hn : pages.length ≤ 1000000) (hp : ∀ p ∈ pages, PageOK fmt env.parseReal p)
    (hinfo : ∀ v, info = some v → OKVal fmt env.parseReal v)
    (b' : BDoc R) (i : SaveInfo) (hs : saveB fmt true (prepared fmt pages info) = (b', .ok i))
    (hsmall : b'.bytes.length ≤ fileMax) (hpf : 3 * b'.bytes.length ≤ pfuel) (rfuel : Nat) :
    buildB fmt pages info = .ok b'.bytes ∧
    ∃ t T, openB env pfuel dec 2 b'.bytes = .ok (0, t, T) ∧ t.length = i.size + 1 ∧
      dictGet T kRoot = some (.ref (3 * pages.length + 2) 0) ∧
      (∀ id v g, chLookup (prep (prepared fmt pages info).doc).st2.changes id = some (v, g) →
        ∃ o, resolveB env pfuel dec (rfuel + 2) b'.bytes 0 t id = .ok o ∧ Denotes b'.bytes o v) := by
  have hmono : (prepared fmt pages info).bytes.length ≤ b'.bytes.length := by
    rw [(saveB_ok_iff fmt true _ _ i hs).2.2]; simp
  have h1 := hinv_prepared fmt env hd pfuel dec hdec pages info hn hp hinfo (by omega) (by omega)
  have bk := saveB_backend fmt _ [] _ b' i (baseOK_empty info _) h1.inv h1.rep.len true (committedB_of_ok fmt true _ _ i hs)
  have hsecs : b'.doc.st.secs.length + 1 ≤ 2 := by
    rw [bk.secs, (prepared_backend fmt pages info).2.1]; simp
  refine ⟨by simp [buildB, hs], ?_⟩
  exact C09Bytes.reload_sees_pending_bytes fmt env hd pfuel dec hdec _ _ [] (baseOK_empty info _)
    (baseVals_empty fmt env.parseReal info _ hinfo hn) h1 b' i true hs hsmall hpf 2 hsecs rfuel

/-- **C10 at byte level, "reload with the same pages".** In the file `PdfBuilder::build` returns, read through the
    byte-level open path and resolver: `/Root` of the trailer (object `3n + 2`) is the catalog, whose `/Pages` (object
    `n + 1`) is the page tree with `/Kids [1 0 R … n 0 R]` and `/Count n`; leaf `k + 1` is page `k` — its dictionary as
    built, `/Parent` the tree, `/Resources` object `n + 2 + 2k` = the resources given, `/Contents` object `n + 3 + 2k` =
    a stream whose data are exactly the content bytes given. Same number of pages, same order, same payloads. -/
theorem build_bytes_pages (fmt : R → List UInt8) (env : Env R) (hd : env.decrypt = none) (pfuel : Nat)
    (dec : Dict R → List UInt8 → Out (List UInt8)) (hdec : NoFilter dec) (pages : List (PageB R)) (info : Option (Prim R))
    (hn : pages.length ≤ 1000000) (hp : ∀ p ∈ pages, PageOK fmt env.parseReal p)
    (hinfo : ∀ v, info = some v → OKVal fmt env.parseReal v)
    (b' : BDoc R) (i : SaveInfo) (hs : saveB fmt true (prepared fmt pages info) = (b', .ok i))
    (hsmall : b'.bytes.length ≤ fileMax) (hpf : 3 * b'.bytes.length ≤ pfuel) (rfuel : Nat) :
    ∃ t T, openB env pfuel dec 2 b'.bytes = .ok (0, t, T) ∧
      dictGet T kRoot = some (.ref (3 * pages.length + 2) 0) ∧
      (∃ o, resolveB env pfuel dec (rfuel + 2) b'.bytes 0 t (3 * pages.length + 2) = .ok o ∧
        Denotes b'.bytes o (catalogVal (pages.length + 1))) ∧
      (∃ o, resolveB env pfuel dec (rfuel + 2) b'.bytes 0 t (pages.length + 1) = .ok o ∧
        Denotes b'.bytes o (treeVal (List.range' 1 pages.length))) ∧
      ∀ k p, pages[k]? = some p →
        (∃ o, resolveB env pfuel dec (rfuel + 2) b'.bytes 0 t (k + 1) = .ok o ∧
          Denotes b'.bytes o (pageVal (pages.length + 1) (pages.length + 2 + 2 * k) (pages.length + 3 + 2 * k) p)) ∧
        (∃ o, resolveB env pfuel dec (rfuel + 2) b'.bytes 0 t (pages.length + 2 + 2 * k) = .ok o ∧ Denotes b'.bytes o p.res) ∧
        (∃ o, resolveB env pfuel dec (rfuel + 2) b'.bytes 0 t (pages.length + 3 + 2 * k) = .ok o ∧
          Denotes b'.bytes o (contentVal p.content)) := by
  have hmono : (prepared fmt pages info).bytes.length ≤ b'.bytes.length := by
    rw [(saveB_ok_iff fmt true _ _ i hs).2.2]; simp
  have hb0 := baseOK_empty info pages.length
  have h1 := hinv_prepared fmt env hd pfuel dec hdec pages info hn hp hinfo (by omega) (by omega)
  have pf := prep_facts _ (prepared fmt pages info).doc [] hb0 h1.inv
  obtain ⟨_, c1, c2, c3⟩ := prepared_changes fmt pages info
  obtain ⟨_, t, T, hopen, _, hroot, hres⟩ := build_bytes_reload fmt env hd pfuel dec hdec pages info hn hp hinfo b' i hs hsmall hpf rfuel
  refine ⟨t, T, hopen, hroot, hres _ _ _ (pf.ch_sup _ _ c1), hres _ _ _ (pf.ch_sup _ _ c2), fun k p hk => ?_⟩
  obtain ⟨d1, d2, d3⟩ := c3 k p hk
  exact ⟨hres _ _ _ (pf.ch_sup _ _ d1), hres _ _ _ (pf.ch_sup _ _ d2), hres _ _ _ (pf.ch_sup _ _ d3)⟩

/-- **C10 at byte level, end to end without assuming that the save succeeds**: for payloads within the limits the
    builder returns a file (`build_bytes_total`), and — provided that file is below 2³¹ bytes and the parser fuel at least
    three times its length — reading it back gives the pages that went in (`build_bytes_pages`). -/
theorem build_bytes_pages_total (fmt : R → List UInt8) (env : Env R) (hd : env.decrypt = none) (pfuel : Nat)
    (dec : Dict R → List UInt8 → Out (List UInt8)) (hdec : NoFilter dec) (pages : List (PageB R)) (info : Option (Prim R))
    (hn : 3 * pages.length + 5 ≤ 1000000) (hp : ∀ p ∈ pages, PageOK fmt env.parseReal p)
    (hinfo : ∀ v, info = some v → OKVal fmt env.parseReal v) (hpf0 : 27 ≤ pfuel) :
    ∃ bytes, buildB fmt pages info = .ok bytes ∧
      (bytes.length ≤ fileMax → 3 * bytes.length ≤ pfuel → ∀ rfuel,
        ∃ t T, openB env pfuel dec 2 bytes = .ok (0, t, T) ∧
          dictGet T kRoot = some (.ref (3 * pages.length + 2) 0) ∧
          (∃ o, resolveB env pfuel dec (rfuel + 2) bytes 0 t (3 * pages.length + 2) = .ok o ∧
            Denotes bytes o (catalogVal (pages.length + 1))) ∧
          (∃ o, resolveB env pfuel dec (rfuel + 2) bytes 0 t (pages.length + 1) = .ok o ∧
            Denotes bytes o (treeVal (List.range' 1 pages.length))) ∧
          ∀ k p, pages[k]? = some p →
            (∃ o, resolveB env pfuel dec (rfuel + 2) bytes 0 t (k + 1) = .ok o ∧
              Denotes bytes o (pageVal (pages.length + 1) (pages.length + 2 + 2 * k) (pages.length + 3 + 2 * k) p)) ∧
            (∃ o, resolveB env pfuel dec (rfuel + 2) bytes 0 t (pages.length + 2 + 2 * k) = .ok o ∧ Denotes bytes o p.res) ∧
            (∃ o, resolveB env pfuel dec (rfuel + 2) bytes 0 t (pages.length + 3 + 2 * k) = .ok o ∧
              Denotes bytes o (contentVal p.content))) := by
  obtain ⟨b', i, hs, hbuild⟩ := build_bytes_total fmt env hd pfuel dec hdec pages info hn hp hinfo hpf0
  refine ⟨b'.bytes, hbuild, ?_⟩
  intro hsmall hpf rfuel
  exact build_bytes_pages fmt env hd pfuel dec hdec pages info (by omega) hp hinfo b' i hs hsmall hpf rfuel

/-- **C10 at byte level, structural validity** of the file `PdfBuilder::build` returns, as statements about its bytes:
    * it is the header line followed by one revision;
    * the cross-reference stream has one row for every number `0 ..= xid`, all below `/Size`;
    * every in-use row points at `n g obj` of that number and generation;
    * the file ends with `startxref`, the offset of the cross-reference stream object and `%%EOF`; that object stands
      at this offset and its dictionary announces `/Size`, the `/Length` of the rows' bytes and `/Root`;
    * every stream the builder wrote carries a `/Length` equal to the number of bytes between `stream\n` and
      `\nendstream` of the record that the stream's own cross-reference row points at (`off`). -/
theorem build_bytes_valid (fmt : R → List UInt8) (env : Env R) (hd : env.decrypt = none) (pfuel : Nat)
    (dec : Dict R → List UInt8 → Out (List UInt8)) (hdec : NoFilter dec) (pages : List (PageB R)) (info : Option (Prim R))
    (hn : pages.length ≤ 1000000) (hp : ∀ p ∈ pages, PageOK fmt env.parseReal p)
    (hinfo : ∀ v, info = some v → OKVal fmt env.parseReal v)
    (b' : BDoc R) (i : SaveInfo) (hs : saveB fmt true (prepared fmt pages info) = (b', .ok i))
    (hsmall : b'.bytes.length ≤ fileMax) (hpf : 3 * b'.bytes.length ≤ pfuel) :
    (∃ rev, b'.bytes = headerBytes ++ rev) ∧
    (i.rows.length = i.xid + 1 ∧ i.xid + 1 ≤ i.size) ∧
    (∀ j pos g, i.rows[j]? = some (.raw pos g) →
      ∃ rest, b'.bytes.drop pos = fmtNat j ++ [32] ++ fmtNat g ++ [32] ++ kwObj ++ [10] ++ rest) ∧
    (∃ body D, D = xrefDict (prepared fmt pages info).doc.tr builderIds (prep (prepared fmt pages info).doc).infoRef i ∧
      serialize fmt (.stream D (.pending (rowsData i))) = .ok body ∧
      b'.bytes.drop i.xpos = (fmtNat i.xid ++ [32, 48, 32] ++ kwObj ++ [10] ++ body ++ kwEndobj ++ [10]) ++ tailBytes i ∧
      dictGet D SaveBytes.kSize = some (.int i.size) ∧ dictGet D kwLength = some (.int (rowsData i).length) ∧
      dictGet D kRoot = some (.ref (3 * pages.length + 2) 0)) ∧
    (∀ j info' data g,
      chLookup (prep (prepared fmt pages info).doc).st2.changes j = some (.stream info' (.pending data), g) →
      dictGet info' kwLength = some (.int (data.length : Int)) ∧
      ∃ off txt rest, i.rows[j]? = some (.raw off g) ∧ SpellsStream env.parseReal info' data txt ∧
        b'.bytes.drop off = objFrame j g (txt ++ [10]) ++ rest) := by
  have hmono : (prepared fmt pages info).bytes.length ≤ b'.bytes.length := by
    rw [(saveB_ok_iff fmt true _ _ i hs).2.2]; simp
  have hb0 := baseOK_empty info pages.length
  have hv0 := baseVals_empty fmt env.parseReal info pages.length hinfo hn
  have h1 := hinv_prepared fmt env hd pfuel dec hdec pages info hn hp hinfo (by omega) (by omega)
  obtain ⟨hpb, _, _, hstart, _⟩ := prepared_backend fmt pages info
  obtain ⟨s1, hids, _⟩ := saveB_ok_iff fmt true _ _ i hs
  have hLpos := layoutOf_pos fmt true (prepared fmt pages info)
  have bk := saveB_backend fmt _ [] _ b' i hb0 h1.inv h1.rep.len true (committedB_of_ok fmt true _ _ i hs)
  have hbd := bounds_of_save fmt env.parseReal _ _ hLpos _ _ b'.doc [] i hb0 h1.inv (committed_of_ok _ _ _ _ _ s1)
    (save_tr_eq _ _ _ _ _ [] i hb0 h1.inv s1) hv0 (by have := bk.xpos_le; omega)
  have sb := saveB_spec fmt env.parseReal _ [] _ b' i hb0 h1.inv h1.rep.len true (committedB_of_ok fmt true _ _ i hs) hbd
  have sh := save_shape _ _ hLpos _ _ b'.doc [] i hb0 h1.inv s1
  have hi' := inv_save_ok _ _ hLpos _ _ b'.doc [] i hb0 h1.inv s1
  have hidsP : (prepared fmt pages info).ids = builderIds := h1.ids
  have htr : (prepared fmt pages info).doc.tr = (emptyB info pages.length).doc.tr := h1.inv.tr_eq
  obtain ⟨_, _, _, _, _, _, _, _, _, _, hmax⟩ := save_ok_spec _ _ _ _ _ s1
  have hvals := prep_vals fmt env pfuel dec _ _ [] hb0 hv0 h1 hmax
  have pf := prep_facts _ (prepared fmt pages info).doc [] hb0 h1.inv
  refine ⟨⟨_, by rw [sb.bytes, hpb]⟩, sh.rows_len, ?_, ?_, ?_⟩
  · -- every in-use row is a row of this revision
    intro j pos g hrow
    have hjl : j < i.rows.length := (List.getElem?_eq_some_iff.mp hrow).1
    have hjt : j < b'.doc.st.refs.length := by rw [sh.table_len]; have := sh.rows_len.1; omega
    obtain ⟨r, hr1, hr2⟩ := sh.rows_of_table j b'.doc.st.refs[j] (by simp [hjt])
    rw [hrow] at hr2; simp only [Option.some.injEq] at hr2; subst hr2
    have he := rowOf_raw _ _ _ hr1
    cases hc : chLookup b'.doc.st.changes j with
    | none =>
      exfalso
      by_cases hj0 : j < (emptyB info pages.length).doc.st.refs.length
      · have := hi'.refs_old j hj0 hc
        have hj00 : j = 0 := by simp [emptyB] at hj0; exact hj0
        subst hj00
        rw [List.getElem?_eq_getElem hjt, he] at this
        simp [emptyB] at this
      · have := hi'.refs_new j (by omega) hjt hc
        rw [List.getElem?_eq_getElem hjt, he] at this
        simp at this
    | some x =>
      obtain ⟨v, g'⟩ := x
      by_cases hjx : j = i.xid
      · subst hjx
        rw [sb.xrow] at hrow
        simp only [Option.some.injEq, XRef.raw.injEq] at hrow
        obtain ⟨rfl, rfl⟩ := hrow
        obtain ⟨body, _, hdrop⟩ := sb.xbody
        rw [hstart, Nat.zero_add] at hdrop
        exact ⟨body ++ kwEndobj ++ [10] ++ tailBytes i, by rw [hdrop, fmtNat_zero]; simp⟩
      · -- a pending value of the builder
        obtain ⟨w, rows, hw, hr, hst, _, hxid, _, _, _, _⟩ := save_ok_spec _ _ _ _ _ s1
        have hc2 : chLookup (prep (prepared fmt pages info).doc).st2.changes j = some (v, g') := by
          rw [hst] at hc
          simp only [commit, chLookup_chInsert] at hc
          rw [if_neg (by rw [← hxid]; exact hjx)] at hc
          exact hc
        obtain ⟨off, rest, body, _, hrw, _, hdrop⟩ := sb.frames j v g' hc2
        rw [hrow, hstart, Nat.sub_zero] at hrw
        simp only [Option.some.injEq, XRef.raw.injEq] at hrw
        obtain ⟨rfl, rfl⟩ := hrw
        exact ⟨body ++ [10] ++ kwEndobj ++ [10] ++ rest, by rw [hdrop]; simp [objFrame]⟩
  · obtain ⟨body, hbody, hdrop⟩ := sb.xbody
    have hf := xrefDict_facts fmt env.parseReal _ _ (prepared fmt pages info).ids i hbd
    rw [hidsP] at hbody hf
    rw [hstart, Nat.zero_add] at hdrop
    refine ⟨body, _, rfl, hbody, hdrop, hf.size, hf.length, ?_⟩
    rw [hf.root, htr]; rfl
  · intro j info' data g hc
    have hmem : (j, Prim.stream info' (.pending data), g) ∈ (prep (prepared fmt pages info).doc).st2.changes := by
      exact chLookup_mem _ _ _ hc
    obtain ⟨hok, _, _⟩ := hvals _ hmem
    simp only at hok
    generalize hov : Prim.stream info' (StreamInner.pending data) = ov at hok
    cases hok with
    | direct v hsr _ _ => rw [← hov] at hsr; exact absurd hsr (by simp [Serialisable])
    | stream info2 data2 hs2 _ _ hl2 _ =>
      cases hov
      obtain ⟨off, rest, body, _, hrow, hser, hdrop⟩ := sb.frames j _ g hc
      rw [hstart, Nat.sub_zero] at hrow
      obtain ⟨txt, hser2, hsp⟩ := serialize_stream_ok fmt env.parseReal info' data hs2
      rw [hser2] at hser
      simp only [Out.ok.injEq] at hser
      subst hser
      exact ⟨hl2, off, txt, rest, hrow, hsp, hdrop⟩

/-! ### Non-vacuity: a one-page document, built, opened and resolved by the model inside the kernel -/

/-- a page with a media box, a rotation, empty resources and the content stream `BT ET` -/
def samplePage : PageB (List UInt8) :=
  ⟨[], [([77, 101, 100, 105, 97, 66, 111, 120], .arr [.int 0, .int 0, .int 612, .int 792])], [([82, 111, 116, 97, 116, 101], .int 90)],
   .dict [], [66, 84, 10, 69, 84, 10]⟩

def sampleEnv : Env (List UInt8) :=
  { parseReal := fun t => some t, resolveLen := fun _ _ => .err, allowMissingEndobj := false, decrypt := none, fileOffset := 0 }

def sampleDec : Dict (List UInt8) → List UInt8 → Out (List UInt8) :=
  fun d raw => match dictGet d kFilter with | none => .ok raw | some _ => .err

example : NoFilter sampleDec := by intro d raw h; simp [sampleDec, h]

/-- the payload hypotheses of the theorems hold for it -/
example : PageOK id sampleEnv.parseReal samplePage where
  other_ser := by simp [samplePage, SerialisableE]
  other_wf := by simp [samplePage, PdfSyntax.WFE]
  other_nd := by simp [samplePage, PdfSyntax.keysOf]
  other_depth := by simp [samplePage, PdfSyntax.vdepthE]
  boxes_ser := by simp [samplePage, SerialisableE, Serialisable, SerialisableL]
  boxes_wf := by simp only [samplePage, PdfSyntax.WFE, PdfSyntax.WF, PdfSyntax.WFL, and_true]; decide
  boxes_depth := by simp [samplePage, PdfSyntax.vdepthE, PdfSyntax.vdepth, PdfSyntax.vdepthL]
  rest_ser := by simp [samplePage, SerialisableE, Serialisable]
  rest_wf := by simp only [samplePage, PdfSyntax.WFE, PdfSyntax.WF, and_true]; decide
  rest_depth := by simp [samplePage, PdfSyntax.vdepthE, PdfSyntax.vdepth]
  res := .direct _ (by simp [samplePage, Serialisable, SerialisableE]) (by simp [samplePage, PdfSyntax.WF, PdfSyntax.WFE, PdfSyntax.keysOf])
    (by simp [samplePage, PdfSyntax.vdepth, PdfSyntax.vdepthE, maxDepth])
  content := by simp [samplePage]

/-- the model builds the 504-byte file, opens it (header at 0, table of 9 slots) and resolves the content stream of
    the page (object 4) to a stream whose `file_range` is the six bytes `BT\nET\n`, and the catalog (object 5) to a
    dictionary of three entries -/
example : (match buildB id [samplePage] none with
    | .ok bs =>
      bs.length == 504 &&
      (match openB sampleEnv 1600 sampleDec 2 bs with
        | .ok (st, t, _) => st == 0 && t.length == 9 &&
          (match resolveB sampleEnv 1600 sampleDec 3 bs st t 4 with
            | .ok (.stream _ a b) => (bs.drop a).take (b - a) == [66, 84, 10, 69, 84, 10]
            | _ => false) &&
          (match resolveB sampleEnv 1600 sampleDec 3 bs st t 5 with
            | .ok (.plain (.dict d)) => d.length == 3
            | _ => false)
        | _ => false)
    | _ => false) = true := by decide +kernel

end C10Bytes
