import PdfModel.Lemmas.EncEncode
import PdfModel.Lemmas.EncCheck
import PdfModel.Lemmas.LzwCheck
import PdfModel.Generated.Lexical

/-!
# C05 — stream filters decode what standard encoders produce; broken data never panics

Statement side: `Spec/Codecs.lean` (encoders as relations: every text a conforming encoder may emit).
Model side: `Model/Enc.lean` (mirror of `pdf/src/enc.rs` after the `fix:` commits of this package, tied to
the code by the C05 correspondence streams).

Third-party code is the parameter `X : Ext`; after the LZW deepening only **Flate** (libflate's inflate,
zlib and raw framing) is left as a hypothesis *inside* `EncodesStep`: "the compressed bytes `y` make the
zlib decoder return `pre`". The LZW decoder weezl runs is modelled (`Model/Lzw.lean`), its encoder side is
the relation `LzwSpec.EncodesToLzw` (`Spec/Lzw.lean`), `lzw_decode_of_encodes` is a theorem, and the tie to
the crate is a correspondence obligation (streams `c05.lzw.decode*`, `c16.lzw.encode`).
-/

namespace Enc
open Codecs

/-! ## ASCIIHex, ASCII85, RunLength: any conforming encoding decodes to the original bytes -/

/-- **ASCIIHex.** Any letter case, white-space anywhere, an omitted final `0`, anything after `>`. -/
theorem decodeHex_of_encodes {bs text : Bytes} (h : EncodesToHex bs text) : decodeHex text = .ok bs := by
  obtain ⟨body, marked, rest, hb, hs, rfl⟩ := h
  obtain ⟨t1, t2, rfl, h1, _⟩ := hs.split
  have hclean := hexBody_clean hb
  have hpre : ∀ c ∈ t1, (c != 62) = true := by
    intro c hc
    rcases h1.mem c hc with h | h
    · exact (hclean c h).2
    · exact ws_not_gt c h
  unfold decodeHex
  have e : t1 ++ 62 :: t2 ++ rest = t1 ++ 62 :: (t2 ++ rest) := by simp
  rw [e, takeWhile_append_stop hpre (by decide), hexWs_eq_isWs, h1.filter_eq (fun c hc => (hclean c hc).1)]
  exact decodeHexDigits_of_body hb

/-- **ASCII85.** Every group of four bytes (with or without the `z` shorthand), every partial final
    group of 1, 2 or 3 bytes, white-space anywhere, `~>`. The arithmetic core is
    `word85 (digits n) = n` for `n < 2^32` and "padding with `u` keeps the top k bytes". -/
theorem decode85_of_encodes {bs text : Bytes} (h : EncodesTo85 bs text) : decode85 text = .ok bs := by
  obtain ⟨body, hb, hs⟩ := h
  have e : body ++ [126, 62] = body ++ 126 :: [62] := rfl
  rw [e] at hs
  obtain ⟨t1, t2, rfl, h1, h2⟩ := hs.split
  have hclean := a85Body_clean hb
  unfold decode85
  have hf : (t1 ++ 126 :: t2).filter (fun b => !ws85 b) = body ++ 126 :: [62] := by
    rw [ws85_eq_isWs, List.filter_append, h1.filter_eq (fun c hc => (hclean c hc).1)]
    have : isWs 126 = false := by decide
    simp only [List.filter_cons, this, Bool.not_false, if_true]
    rw [h2.filter_eq (by intro c hc; simp at hc; subst hc; decide)]
  simp only [hf]
  rw [takeWhile_append_stop (fun c hc => (hclean c hc).2) (by decide),
    dropWhile_append_stop (fun c hc => (hclean c hc).2) (by decide), decode85Groups_of_body hb]
  simp

/-- **RunLength.** Any segmentation into literal and repeat runs, EOD, anything after it. -/
theorem runLength_of_encodes {bs text : Bytes} (h : EncodesToRL bs text) : runLengthDecode text = .ok bs := by
  obtain ⟨body, rest, hb, rfl⟩ := h
  exact runLengthLoop_of_body hb rest _ (by simp; omega)

/-! ## PNG and TIFF predictors -/

/-- **Row level, all five PNG filter types, any pixel size.** `unfilter` inverts the PNG filter of the
    same type for every distance `bpp` between 1 and the row length, whatever the output buffer held. -/
theorem unfilter_filter_all (t : PredictorType) (bpp : Nat) (prev row out0 : Bytes)
    (hb1 : 1 ≤ bpp) (hbl : bpp ≤ row.length) (hp : prev.length = row.length) (ho : out0.length = row.length) :
    unfilter t bpp prev (pngFilterRow (tagOf t) bpp prev row) out0 = .ok row :=
  unfilter_filter t bpp prev row out0 hb1 hbl hp ho

/-- **Paeth.** `filterPaeth` is the Rust computation in `i16` (each `+`, `-`, `abs` followed by the
    two's-complement `wrap16`); `paethSpec` is the PNG specification's function over the unbounded integers
    (`p = a + b − c`, `pa = |p − a|`, `pb = |p − b|`, `pc = |p − c|`, ties a, then b, then c). The two agree
    on all 2^24 triples because no intermediate value leaves the `i16` range (`paeth_in_i16`), so this is a
    range argument, not a definitional unfolding. -/
theorem paeth_eq_spec (a b c : UInt8) : filterPaeth a b c = paethSpec a b c := filterPaeth_eq_spec a b c

/-- every intermediate value of `filter_paeth` lies in the `i16` range: with overflow checks on, none of its
    additions, subtractions or `abs` calls can panic (the values are in fact within [−255, 765]) -/
theorem paeth_in_i16 (a b c : UInt8) :
    let ia : Int := a.toNat; let ib : Int := b.toNat; let ic : Int := c.toNat
    let p := ia + ib - ic
    (∀ x ∈ [ia + ib, p, p - ia, p - ib, p - ic, ((p - ia).natAbs : Int), ((p - ib).natAbs : Int), ((p - ic).natAbs : Int)],
      -32768 ≤ x ∧ x < 32768) := by
  have ha : a.toNat < 256 := by have := a.toNat_lt_size; simpa [UInt8.size] using this
  have hb : b.toNat < 256 := by have := b.toNat_lt_size; simpa [UInt8.size] using this
  have hc : c.toNat < 256 := by have := c.toNat_lt_size; simpa [UInt8.size] using this
  intro ia ib ic p x hx
  simp only [List.mem_cons, List.not_mem_nil, or_false] at hx
  rcases hx with rfl | rfl | rfl | rfl | rfl | rfl | rfl | rfl <;> (simp only [ia, ib, ic, p]; omega)

/-- the result is one of the three neighbours and none of them is closer to `a + b − c` … -/
theorem paeth_nearest (a b c : UInt8) :
    let p : Int := (a.toNat : Int) + b.toNat - c.toNat
    let r := filterPaeth a b c
    (r = a ∨ r = b ∨ r = c) ∧
    (p - r.toNat).natAbs ≤ (p - a.toNat).natAbs ∧ (p - r.toNat).natAbs ≤ (p - b.toNat).natAbs ∧
    (p - r.toNat).natAbs ≤ (p - c.toNat).natAbs := by
  simp only [paeth_eq_spec, paethSpec]
  split
  · refine ⟨Or.inl rfl, ?_, ?_, ?_⟩ <;> omega
  · split
    · refine ⟨Or.inr (Or.inl rfl), ?_, ?_, ?_⟩ <;> omega
    · refine ⟨Or.inr (Or.inr rfl), ?_, ?_, ?_⟩ <;> omega

/-- … and ties are broken in the order left, above, upper left — stated declaratively, independent of the
    `if` cascade of either definition: left wins when it is weakly nearest; above wins when it is strictly
    nearer than left and weakly nearer than upper left; upper left only when strictly nearer than both.
    Together with `paeth_nearest` this determines the function: the three cases are exhaustive and exclusive. -/
theorem paeth_tie_order (a b c : UInt8) :
    let p : Int := (a.toNat : Int) + b.toNat - c.toNat
    let da := (p - a.toNat).natAbs; let db := (p - b.toNat).natAbs; let dc := (p - c.toNat).natAbs
    (da ≤ db ∧ da ≤ dc → filterPaeth a b c = a) ∧
    (db < da ∧ db ≤ dc → filterPaeth a b c = b) ∧
    (dc < da ∧ dc < db → filterPaeth a b c = c) ∧
    ((da ≤ db ∧ da ≤ dc) ∨ (db < da ∧ db ≤ dc) ∨ (dc < da ∧ dc < db)) := by
  simp only [paeth_eq_spec, paethSpec]
  refine ⟨?_, ?_, ?_, ?_⟩
  · intro h; simp [h]
  · intro h
    rw [if_neg (by omega), if_pos (by omega)]
  · intro h
    rw [if_neg (by omega), if_neg (by omega)]
  · omega

/-- non-vacuity of the tie rule: (left 3, above 0, upper-left 2) is a tie between above and upper left,
    above wins; (1, 2, 3) has left nearest -/
example : filterPaeth 3 0 2 = 0 ∧ filterPaeth 1 2 3 = 1 ∧ filterPaeth 10 20 15 = 15 := by decide

/-- the byte distance and the row size computed from Colors / BitsPerComponent / Columns are usable:
    1 ≤ bpp ≤ stride -/
theorem geometry_sound {p : Params} {bpp S : Nat} (h : predictorGeometry p = .ok (bpp, S)) : 1 ≤ bpp ∧ bpp ≤ S :=
  geometry_bounds h

/-- **Whole image, PNG predictors 10–15**, any colours / bits per component / columns accepted by
    `predictor_geometry`, any per-row choice of filter types: the row loop (offsets, slices, reference
    row) restores the image and neither panics nor runs out of fuel. -/
theorem unpredict_predict_png (p : Params) (bpp S : Nat) (hp : p.predictor ≥ 10)
    (hg : predictorGeometry p = .ok (bpp, S)) (rs : Rows) (hrows : ∀ r ∈ rs, r.2.length = S) :
    unpredict (encRows bpp (List.replicate S 0) rs) p = .ok (flat rs) :=
  unpredict_png p bpp S hp hg rs hrows

/-- **One row, TIFF predictor 2**, samples of 1, 2, 4, 8 or 16 bits, padding bits preserved. -/
theorem tiffRow_inverts (colors bpc columns : Nat) (hc : 1 ≤ colors) (hb : ValidBpc bpc) (row : Bytes) :
    tiffRow colors bpc columns (tiffDiffRow colors bpc columns row) = row :=
  tiffRow_diffRow colors bpc columns hc hb row

/-- the byte indices `get(row, bpc, k)` / `set(row, bpc, k, _)` of `tiff_unpredict` read and write:
    `row[2*k]`, `row[2*k + 1]` (16 bit), `row[k]` (8 bit), `row[k*bpc / 8]` (1, 2, 4 bit) -/
def tiffIndices (bpc k : Nat) : List Nat :=
  if bpc = 16 then [2 * k, 2 * k + 1] else if bpc = 8 then [k] else [k * bpc / 8]

/-- **TIFF path, index safety.** The model writes `tiffGet` / `tiffSet` with the total `getD` / `List.set`
    (no `.panic` branch), so `decode_never_panics` says nothing about the Rust slice indexing there. This
    theorem supplies it: the row loop only touches samples `k` and `k − colors` with
    `colors ≤ k < min (colors·columns) (row.len()·8 / bpc)`, and for every such sample, every bit depth the
    geometry guard admits and every row length (also a last row cut short) all indices are inside the row;
    `tiffSet` keeps the row length (`Lens.len_set`), so this holds throughout the loop. -/
theorem tiff_indices_in_range (colors bpc columns : Nat) (hb : ValidBpc bpc) (row : Bytes) (k : Nat)
    (hk : k < min (colors * columns) (row.length * 8 / bpc)) :
    (∀ i ∈ tiffIndices bpc k, i < row.length) ∧ (∀ i ∈ tiffIndices bpc (k - colors), i < row.length) := by
  have key : ∀ j, j ≤ k → ∀ i ∈ tiffIndices bpc j, i < row.length := by
    intro j hj i hi
    unfold tiffIndices at hi
    rcases hb with rfl | rfl | rfl | rfl | rfl <;> simp at hi <;> omega
  exact ⟨key k (Nat.le_refl _), key (k - colors) (Nat.sub_le _ _)⟩

/-- **Whole image, TIFF predictor 2.** -/
theorem unpredict_predict_tiff (p : Params) (bpp S : Nat) (hp : p.predictor = 2)
    (hg : predictorGeometry p = .ok (bpp, S)) (rows : List Bytes) (hrows : ∀ r ∈ rows, r.length = S) :
    unpredict (rows.map (tiffDiffRow p.colors.toNat p.bpc.toNat p.columns.toNat)).flatten p = .ok rows.flatten :=
  unpredict_tiff p bpp S hp hg rows hrows

/-! ## LZW (ISO 32000-1 §7.4.4): the decoder weezl runs, against every conforming encoder -/

/-- **LZW.** For every byte string, both EarlyChange values, every choice of phrases from the encoder's
    table (not only the longest match), clear-table codes anywhere, anything after the EOD code: the decoder
    returns the original bytes. The proof is the classical simulation: the decoder's table is the encoder's
    table delayed by one entry (`Lzw.Sim`), the delayed entry being exactly what the cScSc / KwKwK code
    (`code = next_code`) refers to; weezl's stateful code-size switch equals the closed form of the
    specification (`Lzw.bump_eq`), the table stops growing at entry 4095. -/
theorem lzw_decode_of_encodes (early : Bool) {bs text : Bytes} (h : LzwSpec.EncodesToLzw early bs text) :
    Lzw.decode early text = .ok bs :=
  Lzw.decode_of_encodesToLzw early h

/-- **LZW, error clause.** Arbitrary bytes (invalid codes, missing EOD, truncated codes): an error or a
    value. The model of the code automaton has no `.panic` branch (weezl's automaton has no operation that
    could panic at this level; its buffer mechanics are not modelled), so the content of this theorem is
    `≠ .oof`: the fuel `8·len + 1` always suffices, and every malformed stream is `.err`. That weezl itself
    does not panic on damaged streams is checked by `c05.nopanic` / `c05.lzw.decode.broken`. -/
theorem lzw_decode_never_panics (early : Bool) (data : Bytes) : (Lzw.decode early data).Returns :=
  Lzw.decode_returns early data

/-- the executable membership test the driver runs on LZW streams (the harness's own encoder with random
    clear codes; weezl's encoder output in C16) is sound -/
theorem lzw_certificate_sound (early : Bool) (bs text : Bytes) (h : LzwSpec.checkLzw early bs text = true) :
    Lzw.decode early text = .ok bs :=
  Lzw.decode_of_encodesToLzw early (LzwSpec.checkLzw_sound h)

/-- non-vacuity: the example of ISO 32000-1 §7.4.4.2 is a conforming encoding (EarlyChange 1) … -/
example : LzwSpec.checkLzw true [45, 45, 45, 45, 45, 65, 45, 45, 45, 66]
    [0x80, 0x0B, 0x60, 0x50, 0x22, 0x0C, 0x0C, 0x85, 0x01] = true := by decide
/-- … decoded by the model, with its KwKwK code 258 right after the first `45` … -/
example : Lzw.decode true [0x80, 0x0B, 0x60, 0x50, 0x22, 0x0C, 0x0C, 0x85, 0x01]
    = .ok [45, 45, 45, 45, 45, 65, 45, 45, 45, 66] := by decide
/-- … a non-greedy encoding with a clear code in the middle conforms too … -/
example : LzwSpec.checkLzw false [7, 7, 7] (LzwSpec.packBits 64 (LzwSpec.bitsOfCodes
    [(9, 256), (9, 7), (9, 7), (9, 256), (9, 7), (9, 257)])) = true := by decide
/-- … and damaged streams are errors: a code beyond the table, a missing EOD -/
example : Lzw.decode true [0x80, 0x0B, 0xFF, 0xFF] = .err := by decide
example : Lzw.decode true [0x80, 0x0B, 0x60] = .err := by decide

/-! ## One filter, then chains -/

/-- `pre` is what a conforming encoder hands to the compressor for the data `x` under parameters `p` -/
inductive Predicts (p : Params) : Bytes → Bytes → Prop where
  | none {x : Bytes} : p.predictor < 10 → p.predictor ≠ 2 → Predicts p x x
  | png {bpp S : Nat} {rs : Rows} : p.predictor ≥ 10 → predictorGeometry p = .ok (bpp, S) →
      (∀ r ∈ rs, r.2.length = S) → Predicts p (flat rs) (encRows bpp (List.replicate S 0) rs)
  | tiff {bpp S : Nat} {rows : List Bytes} : p.predictor = 2 → predictorGeometry p = .ok (bpp, S) →
      (∀ r ∈ rows, r.length = S) →
      Predicts p rows.flatten (rows.map (tiffDiffRow p.colors.toNat p.bpc.toNat p.columns.toNat)).flatten

theorem unpredict_of_predicts {p : Params} {x pre : Bytes} (h : Predicts p x pre) : unpredict pre p = .ok x := by
  cases h with
  | none h1 h2 => simp [unpredict, show ¬ p.predictor ≥ 10 by omega, h2]
  | png h1 hg hr => exact unpredict_png p _ _ h1 hg _ hr
  | tiff h1 hg hr => exact unpredict_tiff p _ _ h1 hg _ hr

/-- `y` is a conforming encoding of `x` for the filter `f`. For Flate and LZW the behaviour of the
    third-party decompressor on `y` is the explicit hypothesis (zlib framing: the zlib decoder returns
    the predicted bytes; raw deflate framing: the zlib decoder rejects `y` and the raw decoder returns
    them). LZW needs no such hypothesis: `y` only has to be a conforming LZW encoding of the predicted
    bytes for the EarlyChange value of the parameters. -/
inductive EncodesStep (X : Ext) : Filter → Bytes → Bytes → Prop where
  | hex {x y : Bytes} : EncodesToHex x y → EncodesStep X .asciiHex x y
  | a85 {x y : Bytes} : EncodesTo85 x y → EncodesStep X .ascii85 x y
  | rl {x y : Bytes} : EncodesToRL x y → EncodesStep X .runLength x y
  | flateZlib {p : Params} {x pre y : Bytes} : Predicts p x pre → X.inflateZlib y = some pre →
      EncodesStep X (.flate p) x y
  | flateRaw {p : Params} {x pre y : Bytes} : Predicts p x pre → X.inflateZlib y = none →
      X.inflateRaw y = some pre → EncodesStep X (.flate p) x y
  | lzw {p : Params} {x pre y : Bytes} : Predicts p x pre →
      LzwSpec.EncodesToLzw (decide (p.earlyChange ≠ 0)) pre y → EncodesStep X (.lzw p) x y

/-- **One filter**: every decode filter of the dispatch returns the original bytes. -/
theorem decode_of_encodes {X : Ext} {f : Filter} {x y : Bytes} (h : EncodesStep X f x y) : decode X y f = .ok x := by
  cases h with
  | hex h => exact decodeHex_of_encodes h
  | a85 h => exact decode85_of_encodes h
  | rl h => exact runLength_of_encodes h
  | flateZlib hp hz => simp [decode, flateDecode, hz, unpredict_of_predicts hp]
  | flateRaw hp hz hr => simp [decode, flateDecode, hz, hr, unpredict_of_predicts hp]
  | lzw hp hl =>
    simp only [decode, lzwDecode]
    rw [Lzw.decode_of_encodesToLzw _ hl]
    exact unpredict_of_predicts hp

/-- `y` is `x` encoded for the chain `fs` (the first filter of the list is the outermost encoding,
    i.e. the first one the reader undoes) -/
inductive EncodesChain (X : Ext) : List Filter → Bytes → Bytes → Prop where
  | nil {x : Bytes} : EncodesChain X [] x x
  | cons {f : Filter} {fs : List Filter} {x mid y : Bytes} :
      EncodesChain X fs x mid → EncodesStep X f mid y → EncodesChain X (f :: fs) x y

/-- **Chains of any length** (`Stream::data` / `Storage::decode` fold the filters in stream order). -/
theorem decodeChain_of_encodes {X : Ext} {fs : List Filter} {x y : Bytes} (h : EncodesChain X fs x y) :
    decodeChain X y fs = .ok x := by
  induction h with
  | nil => rfl
  | cons _ hs ih => simp [decodeChain, decode_of_encodes hs, ih]

/-- **`/Filter`–`/DecodeParms` pairing**: the i-th filter gets the i-th parameter dictionary; a missing
    or `null` entry means the defaults; surplus dictionaries are ignored. -/
theorem pairing_ok {α β : Type} (dflt : β) : ∀ (fs : List α) (ps : List (Option β)),
    (pairFilters dflt fs ps).length = fs.length ∧
    ∀ i (h : i < fs.length), (pairFilters dflt fs ps)[i]? = some (fs[i], (ps[i]?.join).getD dflt) := by
  intro fs
  induction fs with
  | nil => intro ps; simp [pairFilters]
  | cons f fs ih =>
    intro ps
    cases ps with
    | nil =>
      obtain ⟨h1, h2⟩ := ih []
      refine ⟨by simp [pairFilters, h1], ?_⟩
      intro i h
      cases i with
      | zero => simp [pairFilters]
      | succ i =>
        simp at h
        simpa [pairFilters] using h2 i h
    | cons p ps =>
      obtain ⟨h1, h2⟩ := ih ps
      refine ⟨by simp [pairFilters, h1], ?_⟩
      intro i h
      cases i with
      | zero => simp [pairFilters]
      | succ i =>
        simp at h
        simpa [pairFilters] using h2 i h

/-! ## Error clause: truncated or corrupted data gives an error or a value, never a panic -/

/-- **Error clause, one filter**: for every byte string, every parameter set and whatever the third-party
    decompressors return, the *model* of `decode` ends in a value or an error (`≠ .panic ∧ ≠ .oof`).
    What that means depends on which Rust panics the model makes explicit:
    * PNG predictor path — real content: `unfilter`'s three `assert_eq!`, every slice of the row loop
      (`inp[in_off]`, `&inp[in_off..in_off+stride]`, `out[out_off..]`, `split_at_mut`, `&prev[last..]`,
      `&mut curr[..stride]`) and `chunks_mut(0)` are `.panic` branches of `pngLoop` / `unfilter` /
      `tiffUnpredict`, and the theorem proves none is reached (`pngLoop_returns`: offset invariants);
      `predictor_geometry` turns bad parameters into `.err`.
    * TIFF predictor path — `tiffGet` / `tiffSet` are written with total `getD` / `List.set`: there is no
      panic branch, index safety is the separate theorem `tiff_indices_in_range` (and the correspondence
      stream `c05.unpredict.*`).
    * ASCIIHex, ASCII85, RunLength (after the D13 repair), LZW — the Rust code has no indexing / arithmetic
      that can panic and the models have no `.panic` branch: for them the content is `≠ .oof` (the fuel handed
      out by the entry points suffices: `runLengthLoop_returns`, `Lzw.loop_returns`) plus "every malformed
      input is `.err`"; the absence of panics in the real functions is what the oracle `c05.nopanic` and the
      out-of-domain correspondence streams check.
    * Flate / DCT — third-party parameters: whatever they return, the code around them does not panic. -/
theorem decode_never_panics (X : Ext) (data : Bytes) (f : Filter) : (decode X data f).Returns :=
  decode_returns X data f

/-- every chain (same reading as `decode_never_panics`; the fold itself has no panic) -/
theorem decodeChain_never_panics (X : Ext) (fs : List Filter) (data : Bytes) : (decodeChain X data fs).Returns :=
  decodeChain_returns X fs data

/-- with its three slices equally long `unfilter` returns a row of that length (one direction; the converse
    is `unfilter_panics_iff`) -/
theorem unfilter_total (t : PredictorType) (bpp : Nat) (prev inp out : Bytes)
    (h1 : inp.length = out.length) (h2 : inp.length = prev.length) :
    ∃ o, unfilter t bpp prev inp out = .ok o ∧ o.length = out.length :=
  unfilter_ok t bpp prev inp out h1 h2

/-- `unfilter` panics **exactly when** its three slices differ in length (the two `assert_eq!`s) -/
theorem unfilter_panics_iff (t : PredictorType) (bpp : Nat) (prev inp out : Bytes) :
    unfilter t bpp prev inp out = .panic ↔ ¬ (inp.length = out.length ∧ inp.length = prev.length) := by
  constructor
  · intro h hl
    obtain ⟨o, ho, _⟩ := unfilter_ok t bpp prev inp out hl.1 hl.2
    rw [ho] at h; cases h
  · intro h
    unfold unfilter
    by_cases h1 : inp.length = out.length
    · have h2 : inp.length ≠ prev.length := fun h2 => h ⟨h1, h2⟩
      simp [h1]
      intro h3; exact absurd (h1 ▸ h3) h2
    · simp [h1]

example : unfilter .up 1 [1] [1, 2] [0, 0] = .panic := by decide
example : unfilter .up 1 [1, 1] [1, 2] [0, 0] = .ok [2, 3] := by decide

/-! ## The domain certificates the driver hands to the harness are sound -/

/-- the executable membership tests of `Spec/CodecsCheck.lean` (run by the driver on every conforming
    encoding the harness generates) only accept texts that lie in the encoder relations, hence in the
    domain of the three theorems above -/
theorem certificates_sound (bs text : Bytes) :
    (checkHex bs text = true → decodeHex text = .ok bs) ∧
    (check85 bs text = true → decode85 text = .ok bs) ∧
    (checkRL bs text = true → runLengthDecode text = .ok bs) :=
  ⟨fun h => decodeHex_of_encodes (checkHex_sound h), fun h => decode85_of_encodes (check85_sound h),
   fun h => runLength_of_encodes (checkRL_sound h)⟩

example : checkHex [0x41, 0x40] [52, 49, 32, 52, 62] = true := by decide
example : check85 [0, 0, 0, 0, 1] [122, 32, 33, 60, 126, 62] = true := by decide
example : checkRL [7, 7, 7, 1, 2] [254, 7, 1, 1, 2, 128, 99] = true := by decide
example : checkHex [0x41] [52, 49] = false := by decide          -- no EOD marker

/-! ## The behaviour before the repairs did not satisfy the property (checked counter-examples) -/

/-- D12: `a..=h` / `A..=H` were accepted as digits -/
def decodeNibbleOld (c : UInt8) : Option UInt8 :=
  if 48 ≤ c ∧ c ≤ 57 then some (c - 48)
  else if 97 ≤ c ∧ c ≤ 104 then some (c - 97 + 10)
  else if 65 ≤ c ∧ c ≤ 72 then some (c - 65 + 10)
  else none

/-- D12: `.tuples()` dropped an odd final digit -/
def decodeHexDigitsOld : Bytes → Out Bytes
  | hi :: lo :: rest =>
    match decodeNibbleOld lo, decodeNibbleOld hi with
    | some l, some h =>
      match decodeHexDigitsOld rest with
      | .ok t => .ok ((h <<< 4 ||| l) :: t)
      | o => o
    | _, _ => .err
  | _ => .ok []

/-- `41 4>` is a conforming encoding of the bytes 41 40 … -/
theorem d12_witness_conforms : EncodesToHex [0x41, 0x40] [52, 49, 32, 52, 62] := by
  refine ⟨[52, 49, 52], [52, 49, 32, 52, 62], [], ?_, ?_, rfl⟩
  · exact .byte (by unfold IsHexDigit; decide) (by unfold IsHexDigit; decide) (.oddLast (by unfold IsHexDigit; decide) (by decide))
  · exact .keep _ (.keep _ (.ws _ (by decide) (.keep _ (.keep _ .nil))))

/-- … the repaired decoder returns them, the old digit loop lost the last byte, and read `gh` as a byte -/
example : decodeHex [52, 49, 32, 52, 62] = .ok [0x41, 0x40] := decodeHex_of_encodes d12_witness_conforms
example : decodeHexDigitsOld [52, 49, 52] = .ok [0x41] := by decide
example : decodeHexDigitsOld [103, 104] = .ok [0x11] := by decide
example : decodeHex [103, 104, 62] = .err := by decide

/-- D13: the run-length loop indexed past the end (`d[start..end]`, `d[c + 1]`) -/
def runLengthLoopOld : Nat → Bytes → Out Bytes
  | 0, _ => .oof
  | _ + 1, [] => .ok []
  | fuel + 1, len :: rest =>
    if len < 128 then
      let n := len.toNat + 1
      if rest.length < n then .panic
      else match runLengthLoopOld fuel (rest.drop n) with
        | .ok t => .ok (rest.take n ++ t)
        | o => o
    else if len ≥ 129 then
      match rest with
      | [] => .panic
      | b :: rest' => match runLengthLoopOld fuel rest' with
        | .ok t => .ok (List.replicate (257 - len.toNat) b ++ t)
        | o => o
    else .ok []

example : runLengthLoopOld 4 [5, 1, 2] = .panic := by decide
example : runLengthLoopOld 2 [200] = .panic := by decide
example : runLengthDecode [5, 1, 2] = .err := by decide
example : runLengthDecode [200] = .err := by decide

/-- ASCII85: form feed and NUL were not skipped (the old filter knew only SP, LF, CR, HT) -/
def ws85Old (b : UInt8) : Bool := b == 32 || b == 10 || b == 13 || b == 9
example : ws85Old 12 = false ∧ ws85 12 = true ∧ ws85Old 0 = false ∧ ws85 0 = true := by decide

/-- D14: the geometry ignored BitsPerComponent (`stride = columns * colors`, `bpp = colors`). For
    1 bit per component and 16 columns the real row is 2 bytes long, the old code took 16. -/
example : predictorGeometry { predictor := 12, colors := 1, bpc := 1, columns := 16 } = .ok (1, 2) := by decide
example : unpredict [2, 0xff, 0x0f, 2, 0x01, 0x01] { predictor := 12, colors := 1, bpc := 1, columns := 16 }
    = .ok [0xff, 0x0f, 0x00, 0x10] := by decide

/-! ## Non-vacuity: concrete inputs satisfy the hypotheses -/

/-- `BOu!rD]j7BEbo80~>` with white-space is a conforming ASCII85 encoding of `hello world!` -/
example : decode85 [66, 79, 117, 33, 114, 10, 68, 93, 106, 55, 66, 69, 98, 111, 56, 48, 12, 126, 62]
    = .ok [104, 101, 108, 108, 111, 32, 119, 111, 114, 108, 100, 33] := by decide

example : EncodesTo85 [0, 0, 0, 0, 1] [122, 32, 33, 60, 126, 62] := by
  refine ⟨[122, 33, 60], .z ?_, ?_⟩
  · have : A85Body [1] ((group85 (Codecs.be32 1 0 0 0)).take 2) := .tail1
    have e : (group85 (Codecs.be32 1 0 0 0)).take 2 = [33, 60] := by decide
    rw [e] at this; exact this
  · exact .keep _ (.ws _ (by decide) (.keep _ (.keep _ (.keep _ (.keep _ .nil)))))

example : EncodesToRL [7, 7, 7, 1, 2] [254, 7, 1, 1, 2, 128, 99] := by
  refine ⟨[254, 7, 1, 1, 2, 128], [99], ?_, rfl⟩
  have h1 : RLBody [1, 2] [1, 1, 2, 128] := RLBody.literal (lit := [1, 2]) (by decide) (by decide) .eod
  exact RLBody.repeat (n := 3) (b := 7) (by decide) (by decide) h1

/-- a 2 × 2 RGB-less image (2 colours, 8 bits, 2 columns) predicted with Sub and Paeth rows -/
def sampleRows : Rows := [(.sub, [1, 2, 3, 4]), (.paeth, [5, 6, 7, 250])]
def sampleParams : Params := { predictor := 15, colors := 2, bpc := 8, columns := 2 }

example : predictorGeometry sampleParams = .ok (2, 4) := by decide
example : ∀ r ∈ sampleRows, r.2.length = 4 := by decide
example : unpredict (encRows 2 (List.replicate 4 0) sampleRows) sampleParams = .ok [1, 2, 3, 4, 5, 6, 7, 250] :=
  unpredict_predict_png sampleParams 2 4 (by decide) (by decide) sampleRows (by decide)

/-- a three-filter chain: ASCIIHex over RunLength over Flate (zlib framing, PNG Up predictor) -/
example (X : Ext) (z : Bytes) (hz : X.inflateZlib z = some [2, 9, 8, 2, 1, 1])
    (rl : Bytes) (hrl : EncodesToRL z rl) (hx : Bytes) (hhx : EncodesToHex rl hx) :
    decodeChain X hx [.asciiHex, .runLength, .flate { predictor := 12, colors := 1, bpc := 8, columns := 2 }]
      = .ok [9, 8, 10, 9] := by
  apply decodeChain_of_encodes
  refine .cons (.cons (.cons .nil (.flateZlib ?_ hz)) (.rl hrl)) (.hex hhx)
  exact Predicts.png (p := { predictor := 12, colors := 1, bpc := 8, columns := 2 }) (bpp := 1) (S := 2)
    (rs := [(.up, [9, 8]), (.up, [10, 9])]) (by decide) (by decide) (by decide)

end Enc

/-! ## Tie to the source: constants and byte classes (appended by the translator package)

`Generated/Lexical.lean` is re-extracted from `pdf/src` by `./check` before this file is built. -/

namespace Enc

/-- the white-space bytes skipped by the ASCIIHex and ASCII85 decoders are the ones of `decode_hex` / `decode_85` -/
theorem constants_match_source :
    ((List.range 256).filter (fun n => Enc.hexWs (UInt8.ofNat n)) = Generated.hexDecodeWhitespace) ∧
    ((List.range 256).filter (fun n => Enc.ws85 (UInt8.ofNat n)) = Generated.a85DecodeWhitespace) := by
  refine ⟨?_, ?_⟩
  · first | decide +kernel | fail "constants_match_source (C05): the model's Enc.hexWs does not match the source (Generated.hexDecodeWhitespace, re-extracted from pdf/src)"
  · first | decide +kernel | fail "constants_match_source (C05): the model's Enc.ws85 does not match the source (Generated.a85DecodeWhitespace, re-extracted from pdf/src)"

end Enc
