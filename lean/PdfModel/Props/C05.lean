import PdfModel.Model.Enc
namespace Enc
/-- placeholder while the harness is brought up -/
theorem placeholder_c05 : decodeHex [52, 49, 62] = .ok [65] := by decide
end Enc
