import PdfModel.Lemmas.Indirect
import PdfModel.Lemmas.Sequence
import PdfModel.Lemmas.Render
import PdfModel.Lemmas.ParserCursor
import PdfModel.Lemmas.RenderTail
import PdfModel.Lemmas.ParserFlags
import PdfModel.Lemmas.ParserEnc
import PdfModel.Generated.Lexical

/-!
  C03 — every spec-conformant spelling of an object parses to the value it denotes.

  Statement side: `Spec/Syntax` defines, independently of the reader, which byte strings the PDF syntax
  permits as spellings of a value (`Spells`, `SpellsStream`; gaps of white-space and comments `Gap`,
  integers with sign and leading zeros, reals `d.`, `.d`, `d.d`, names with `#xx`, literal strings with
  all escapes, octal codes, line continuations, balanced parentheses and EOL normalisation, hexadecimal
  strings with white-space and an odd digit count, references, arrays, dictionaries, omitted separators
  where a delimiter follows, streams with LF or CR LF after the keyword).
  Model side: `Model/Lexer`, `Model/StrLexer`, `Model/Parser` (the code after the `fix:` commits).

  All theorems quantify over every value, every conformant spelling, every buffer and position.
  Explicit hypotheses: the buffer is shorter than 2 GiB (`nested: i32`, `usize` arithmetic), the parser's
  `MAX_DEPTH`, dictionaries have distinct keys, no decryption context, and `pr` = `f32::from_str`
  (third-party; `Spells` only says that the real token is converted by it).
  Known finding kept open (DESIGN D7): names that are not UTF-8 — hypothesis `namesUtf8`, `C03_full`,
  `C03_counterexample`.
-/

namespace C03
open PdfLex
open PdfSyntax (Gap Bnd Spells SpellsStream SpellsEntries needsBnd WF WFE vdepth vdepthE need needE keysOf
  KeysDistinct KeysDistinctE namesUtf8 namesUtf8E wf_of wfE_of)

variable {R : Type}

/-- **Character classes**: the reader's white-space set is NUL HT LF FF CR SP and its delimiter set is
    `( ) < > [ ] { } / %` (tables 1 and 2 of the specification), for all 256 bytes. -/
theorem character_classes :
    (∀ b, isWhitespace b = PdfSyntax.isWs b) ∧ (∀ b, isDelimiter b = PdfSyntax.isDelim b) ∧
    (∀ b, isHexWs b = PdfSyntax.isWs b) :=
  ⟨isWhitespace_eq, isDelimiter_eq, isHexWs_eq⟩

/-- **White-space and comments between tokens are skipped**: after any gap the lexer is at the next lexeme. -/
theorem gap_skipped {buf : Buf} (g s : List UInt8) (hg : Gap g) (hs : StartsTok s) (pos : Nat)
    (h : Suffix buf pos (g ++ s)) : nextWord buf pos = lexemeAt buf (pos + g.length) :=
  nextWord_gap g s hg hs pos h

/-- **Literal strings**: every conformant body (escapes, octal codes with high-order overflow ignored, ignored
    backslashes, line continuations, balanced parentheses, CR / CR LF read as LF) is read as the bytes it
    denotes; the string lexer stops right after the closing parenthesis. -/
theorem literal_string_read {buf : Buf} (body s rest : List UInt8) (h : PdfSyntax.LitBody body 0 s) (pos : Nat)
    (hs : Suffix buf pos (body ++ rest)) (hsz : buf.size ≤ 2147483647) :
    collectString buf (buf.size - pos + 2) pos 0 [] = .ok (s, pos + body.length) := by
  have hl := hs.size_eq
  have := collectString_lit s body 0 h buf pos rest [] (buf.size - pos + 2) hs (by simp at hl; omega) (by simp at hl ⊢; omega)
  simpa using this

/-- **Hexadecimal strings**: white-space between digits, either digit case, odd number of digits. -/
theorem hex_string_read {buf : Buf} (body s rest : List UInt8) (h : PdfSyntax.HexBody body s) (pos : Nat)
    (hs : Suffix buf pos (body ++ rest)) :
    collectHex buf pos (buf.size - pos + 2) pos [] = .ok (s, pos + body.length) := by
  have hl := hs.size_eq
  have := collectHex_hex body s h buf pos pos rest [] (buf.size - pos + 2) hs (Nat.le_refl _) (by simp at hl; omega)
  simpa using this

/-- **Main theorem** (partial: names must be UTF-8, see `C03_full`).  `flags`: any `ParseFlags` set that admits
    the kind of the value (`flagOf`); the values nested inside are parsed with `ANY` by the code itself.  Every conformant spelling `txt` of a
    value `v`, anywhere in a buffer, after any gap `g`, followed by anything (`rest`) that does not merge
    with it (`Bnd`: a regular token needs a separator or delimiter after it; `Ahead`: not `<int> <int> R`
    / `<dict> stream`), is parsed by `parse_with_lexer_ctx` to exactly `v`, and the cursor rests right
    after `txt`. -/
theorem parse_spelling_partial (env : Env R) (hd : env.decrypt = none) (v : Prim R) (txt : List UInt8)
    (hsp : Spells env.parseReal v txt) (hk : KeysDistinct v) (hu : namesUtf8 v = true) (hdepth : vdepth v ≤ maxDepth)
    {buf : Buf} (hsz : buf.size ≤ 2147483647) (g rest : List UInt8) (pos fuel : Nat) (ctx : Option (Nat × Nat))
    (hg : Gap g) (hs : Suffix buf pos (g ++ txt ++ rest)) (hb : needsBnd v = true → Bnd rest)
    (hah : Ahead buf (pos + g.length + txt.length)) (hfuel : need v ≤ fuel)
    (flags : Nat) (hfl : flags &&& flagOf v ≠ 0) :
    parseCtx env buf fuel pos ctx flags maxDepth = .ok (v, pos + g.length + txt.length) :=
  parseCtx_spells env hd v txt hsp (wf_of v hk hu) hsz g rest pos fuel ctx maxDepth flags hg hfl hs hb hah hfuel hdepth

/-- The same for the public entry point `parse(data, resolve, flags)` with the model's default fuel:
    the whole buffer is the spelling plus a tail. -/
theorem parse_api_partial (env : Env R) (hd : env.decrypt = none) (v : Prim R) (txt : List UInt8)
    (hsp : Spells env.parseReal v txt) (hk : KeysDistinct v) (hu : namesUtf8 v = true) (hdepth : vdepth v ≤ maxDepth)
    (rest : List UInt8) (hsz : (txt ++ rest).length ≤ 2147483647) (hb : needsBnd v = true → Bnd rest)
    (hah : Ahead (txt ++ rest).toArray txt.length) (flags : Nat) (hfl : flags &&& flagOf v ≠ 0) :
    parse env (txt ++ rest).toArray flags = .ok (v, txt.length) := by
  have hs : Suffix (txt ++ rest).toArray 0 ([] ++ txt ++ rest) := by simpa using suffix_zero (txt ++ rest)
  have hn := need_bound env.parseReal v txt hsp
  have := parse_spelling_partial env hd v txt hsp hk hu hdepth (buf := (txt ++ rest).toArray) (by simpa using hsz) [] rest 0
    (defaultFuel (txt ++ rest).toArray) none Gap.nil hs hb (by simpa using hah) (by simp [defaultFuel]; omega) flags hfl
  simpa [parse, parseWithLexer] using this

/-- **Indirect objects** `n g obj … endobj` with any gaps (also none where a delimiter makes it legal:
    `1 0 obj<<>>endobj`): `parse_indirect_object` returns the reference and the value, the cursor rests
    right after `endobj`, with and without `allow_missing_endobj`. -/
theorem parse_indirect_spelling_partial (env : Env R) (hd : env.decrypt = none) (v : Prim R) (txt : List UInt8)
    (hsp : Spells env.parseReal v txt) (hk : KeysDistinct v) (hu : namesUtf8 v = true) (hdepth : vdepth v ≤ maxDepth)
    {buf : Buf} (hsz : buf.size ≤ 2147483647)
    (g0 a g1 b g2 g3 g4 rest : List UInt8) (id gen pos fuel : Nat) (hg0 : Gap g0)
    (ha : PdfSyntax.NatTok a id) (hb : PdfSyntax.NatTok b gen) (hg1 : Gap g1) (hg1ne : g1 ≠ []) (hg2 : Gap g2)
    (hg2ne : g2 ≠ []) (hid : id ≤ 18446744073709551615) (hgen : gen ≤ 18446744073709551615) (hg3 : Gap g3) (hg4 : Gap g4)
    (h : Suffix buf pos (g0 ++ a ++ g1 ++ b ++ g2 ++ kwObj ++ g3 ++ txt ++ g4 ++ kwEndobj ++ rest))
    (hb3 : Bnd (g3 ++ txt)) (hb4 : needsBnd v = true → g4 ≠ []) (hbnd : Bnd rest) (hfuel : need v ≤ fuel)
    (flags : Nat) (hfl : flags &&& flagOf v ≠ 0) :
    parseIndirectObject env buf fuel pos flags =
      .ok (((id, gen), v), pos + (g0 ++ a ++ g1 ++ b ++ g2 ++ kwObj ++ g3 ++ txt ++ g4 ++ kwEndobj).length) :=
  parseIndirectObject_spells env hd v txt hsp (wf_of v hk hu) hsz g0 a g1 b g2 g3 g4 rest id gen pos fuel hg0 ha hb hg1 hg1ne
    hg2 hg2ne hid hgen hg3 hg4 h hb3 hb4 hbnd hfuel hdepth flags hfl

/-- **Stream objects**: dictionary, any gap (comments included), `stream`, LF or CR LF, the data, any gap,
    `endstream`, inside `n g obj … endobj`; `/Length` direct or indirect (resolver).  The returned stream has the
    spelled dictionary and a `file_range` that covers exactly the data (`dataPos` existential, characterised by the
    slice equation; see `parse_render_stream_partial`). -/
theorem parse_stream_spelling_partial (env : Env R) (hd : env.decrypt = none) (info : Dict R) (data txt : List UInt8)
    (hsp : SpellsStream env.parseReal info data txt) (hk : KeysDistinctE info) (hnd : (keysOf info).Nodup)
    (hu : namesUtf8E info = true) (hlen : LengthIs env info data.length) {buf : Buf} (hsz : buf.size ≤ 2147483647)
    (g0 a g1 b g2 g3 g4 rest : List UInt8) (id gen pos fuel : Nat) (hg0 : Gap g0)
    (ha : PdfSyntax.NatTok a id) (hb : PdfSyntax.NatTok b gen) (hg1 : Gap g1) (hg1ne : g1 ≠ []) (hg2 : Gap g2)
    (hg2ne : g2 ≠ []) (hid : id ≤ 18446744073709551615) (hgen : gen ≤ 18446744073709551615) (hg3 : Gap g3) (hg4 : Gap g4)
    (hg4ne : g4 ≠ [])
    (h : Suffix buf pos (g0 ++ a ++ g1 ++ b ++ g2 ++ kwObj ++ g3 ++ txt ++ g4 ++ kwEndobj ++ rest))
    (hbnd : Bnd rest) (hfuel : 2 + needE info ≤ fuel) (hdepth : 1 + vdepthE info ≤ maxDepth)
    (flags : Nat) (hfl : flags &&& Flags.dict ≠ 0) :
    ∃ dataPos, parseIndirectObject env buf fuel pos flags =
        .ok (((id, gen), streamAt env info (id, gen) dataPos data.length),
          pos + (g0 ++ a ++ g1 ++ b ++ g2 ++ kwObj ++ g3 ++ txt ++ g4 ++ kwEndobj).length) ∧
      slice buf dataPos (dataPos + data.length) = data :=
  parseIndirectObject_stream env hd info data txt hsp (wfE_of info hk hu) hnd hlen hsz g0 a g1 b g2 g3 g4 rest id gen pos fuel
    hg0 ha hb hg1 hg1ne hg2 hg2ne hid hgen hg3 hg4 hg4ne h hbnd hfuel hdepth flags hfl

/-- **Sequences: each parse consumes exactly its own text.**  `n` consecutive calls of `parse_with_lexer` on a
    conformant sequence of `n` objects return the `n` values, each time with the cursor right after that
    object's own text. -/
theorem parse_sequence_partial (env : Env R) (hd : env.decrypt = none) (items : List (Item R))
    {buf : Buf} (hsz : buf.size ≤ 2147483647) (g0 rest : List UInt8) (pos fuel : Nat)
    (hok : SeqOK env.parseReal rest items) (hg0 : Gap g0) (hs : Suffix buf pos (g0 ++ seqText items ++ rest))
    (hah : Ahead buf (pos + g0.length + (seqText items).length)) (hfuel : seqNeed items ≤ fuel) :
    parseSeq env buf fuel items.length pos = .ok (seqExpected (pos + g0.length) items) :=
  parseSeq_spells env hd items hsz g0 rest pos fuel hok hg0 hs hah hfuel

/-- **The randomized printer is specification-conformant**: whatever the tape of random choices, the text
    `Spec/Render.render` produces for a value is a conformant spelling of that value (so every rendering the
    harness generates — the Rust twin is compared with this printer byte for byte on every case — lies in
    the domain of the theorems above).  `Renderable`: 32-bit integers, object numbers within `u64`, no
    stream below the top level, and for reals the third-party hypothesis that every variant text the
    printer derives from `f32::to_string` is a real token that `f32::from_str` maps back to the same value. -/
theorem printer_conformant (fmt : R → List UInt8) (pr : List UInt8 → Option R) (v : Prim R)
    (h : PdfSpec.Renderable fmt pr v) (tape : List Nat) : Spells pr v (PdfSpec.render fmt v tape).1 :=
  PdfSpec.render_spells fmt pr v h tape

/-- the same for stream objects -/
theorem printer_stream_conformant (fmt : R → List UInt8) (pr : List UInt8 → Option R) (info : Dict R) (data : List UInt8)
    (h : PdfSpec.RenderableE fmt pr info) (tape : List Nat) :
    SpellsStream pr info data (PdfSpec.render fmt (.stream info (.pending data)) tape).1 :=
  PdfSpec.render_stream_spells fmt pr info data h tape

/-- and for a value followed by a tail: the printer inserts a separator exactly where one is needed -/
theorem printer_tail_conformant (fmt : R → List UInt8) (pr : List UInt8 → Option R) (v : Prim R) (tail : List UInt8)
    (h : PdfSpec.Renderable fmt pr v) (tape : List Nat) :
    ∃ txt g, (PdfSpec.renderWithTail fmt v tail tape).1 = txt ++ g ++ tail ∧ Spells pr v txt ∧ Gap g ∧
      (needsBnd v = true → Bnd (g ++ tail)) :=
  PdfSpec.renderWithTail_spec fmt pr v tail h tape

theorem suffix_of_toList {buf : Buf} {pre s : List UInt8} (h : buf.toList = pre ++ s) : Suffix buf pre.length s := by
  refine ⟨by rw [h]; simp, ?_⟩
  have : buf.size = (pre ++ s).length := by rw [← h]; simp
  simp at this; omega

/-- **Headline: parse ∘ render = id.**  For every value the printer can spell, every tape of random choices and
    every tail: the rendering is `txt ++ g ++ tail` with `g` a gap, and wherever it is placed in a buffer the
    parser returns exactly the value and stops right after `txt` — provided what follows does not merge with
    it (`Ahead`; the harness never appends `<int> R` to an integer or `stream` to a dictionary). -/
theorem parse_render_partial (env : Env R) (hd : env.decrypt = none) (fmt : R → List UInt8) (v : Prim R) (tail : List UInt8)
    (tape : List Nat) (hr : PdfSpec.Renderable fmt env.parseReal v) (hk : KeysDistinct v) (hu : namesUtf8 v = true)
    (hdepth : vdepth v ≤ maxDepth) :
    ∃ txt g, (PdfSpec.renderWithTail fmt v tail tape).1 = txt ++ g ++ tail ∧ Gap g ∧
      ∀ {buf : Buf}, buf.size ≤ 2147483647 → ∀ (pre : List UInt8) (fuel : Nat) (ctx : Option (Nat × Nat)),
        buf.toList = pre ++ (PdfSpec.renderWithTail fmt v tail tape).1 → need v ≤ fuel →
        Ahead buf (pre.length + txt.length) →
        parseCtx env buf fuel pre.length ctx Flags.any maxDepth = .ok (v, pre.length + txt.length) := by
  obtain ⟨txt, g, e, hsp, hg, hb⟩ := PdfSpec.renderWithTail_spec fmt env.parseReal v tail hr tape
  refine ⟨txt, g, e, hg, ?_⟩
  intro buf hsz pre fuel ctx hbuf hfuel hah
  have hs : Suffix buf pre.length ([] ++ txt ++ (g ++ tail)) := by
    rw [e] at hbuf
    have := suffix_of_toList hbuf
    simpa using this
  have := parse_spelling_partial env hd v txt hsp hk hu hdepth hsz [] (g ++ tail) pre.length fuel ctx Gap.nil hs hb
    (by simpa using hah) hfuel Flags.any (any_allows v)
  simpa using this

/-- **Headline for indirect objects**: `parse_indirect_object ∘ renderIndirect = id`, no side condition on what
    follows: the rendering is `objText ++ rest`, the parser returns the reference and the value and stops at the
    end of `objText`.  `objText` and `rest` are existential in THIS statement (only their concatenation is fixed);
    `parse_render_indirect_shape` below says what they are: `objText` ends with the keyword `endobj`, `rest` is a gap
    followed by the tail. -/
theorem parse_render_indirect_partial (env : Env R) (hd : env.decrypt = none) (fmt : R → List UInt8) (v : Prim R)
    (id gen : Nat) (tail : List UInt8) (tape : List Nat) (hr : PdfSpec.Renderable fmt env.parseReal v) (hk : KeysDistinct v)
    (hu : namesUtf8 v = true) (hdepth : vdepth v ≤ maxDepth) (hid : id ≤ 18446744073709551615)
    (hgen : gen ≤ 18446744073709551615) :
    ∃ objText rest, (PdfSpec.renderIndirect fmt id gen v tail tape).1 = objText ++ rest ∧
      ∀ {buf : Buf}, buf.size ≤ 2147483647 → ∀ (pre : List UInt8) (fuel : Nat),
        buf.toList = pre ++ (PdfSpec.renderIndirect fmt id gen v tail tape).1 → need v ≤ fuel →
        parseIndirectObject env buf fuel pre.length Flags.any = .ok (((id, gen), v), pre.length + objText.length) := by
  obtain ⟨a, g1, b, g2, g3, tv, g4, g5, e, h1, h2, h3, h4, h5, h6, h7, h8, h9, h10, h11, h12, h13⟩ :=
    PdfSpec.renderIndirect_spec fmt env.parseReal id gen v tail hr tape
  refine ⟨[] ++ a ++ g1 ++ b ++ g2 ++ kwObj ++ g3 ++ tv ++ g4 ++ kwEndobj, g5 ++ tail, e, ?_⟩
  intro buf hsz pre fuel hbuf hfuel
  have hs : Suffix buf pre.length ([] ++ a ++ g1 ++ b ++ g2 ++ kwObj ++ g3 ++ tv ++ g4 ++ kwEndobj ++ (g5 ++ tail)) := by
    rw [e] at hbuf
    exact suffix_of_toList hbuf
  exact parse_indirect_spelling_partial env hd v tv h8 hk hu hdepth hsz [] a g1 b g2 g3 g4 (g5 ++ tail) id gen pre.length fuel
    Gap.nil h1 h2 h3 h4 h5 h6 hid hgen h7 h9 hs h11 h12 h13 hfuel Flags.any (any_allows v)

/-- **What `objText` is**: the rendering of an indirect object is `head ++ "endobj" ++ g ++ tail` with `g` a gap (never
    empty in front of a tail that starts with a regular character), and the parser stops exactly behind that `endobj`. -/
theorem parse_render_indirect_shape (env : Env R) (hd : env.decrypt = none) (fmt : R → List UInt8) (v : Prim R)
    (id gen : Nat) (tail : List UInt8) (tape : List Nat) (hr : PdfSpec.Renderable fmt env.parseReal v) (hk : KeysDistinct v)
    (hu : namesUtf8 v = true) (hdepth : vdepth v ≤ maxDepth) (hid : id ≤ 18446744073709551615)
    (hgen : gen ≤ 18446744073709551615) :
    ∃ head g, (PdfSpec.renderIndirect fmt id gen v tail tape).1 = head ++ kwEndobj ++ (g ++ tail) ∧ Gap g ∧ Bnd (g ++ tail) ∧
      ∀ {buf : Buf}, buf.size ≤ 2147483647 → ∀ (pre : List UInt8) (fuel : Nat),
        buf.toList = pre ++ (PdfSpec.renderIndirect fmt id gen v tail tape).1 → need v ≤ fuel →
        parseIndirectObject env buf fuel pre.length Flags.any =
          .ok (((id, gen), v), pre.length + (head ++ kwEndobj).length) := by
  obtain ⟨a, g1, b, g2, g3, tv, g4, g5, e, h1, h2, h3, h4, h5, h6, h7, h8, h9, h10, h11, h12, h13⟩ :=
    PdfSpec.renderIndirect_spec fmt env.parseReal id gen v tail hr tape
  refine ⟨[] ++ a ++ g1 ++ b ++ g2 ++ kwObj ++ g3 ++ tv ++ g4, g5, by rw [e], h10, h13, ?_⟩
  intro buf hsz pre fuel hbuf hfuel
  have hs : Suffix buf pre.length ([] ++ a ++ g1 ++ b ++ g2 ++ kwObj ++ g3 ++ tv ++ g4 ++ kwEndobj ++ (g5 ++ tail)) := by
    rw [e] at hbuf
    exact suffix_of_toList hbuf
  exact parse_indirect_spelling_partial env hd v tv h8 hk hu hdepth hsz [] a g1 b g2 g3 g4 (g5 ++ tail) id gen pre.length fuel
    Gap.nil h1 h2 h3 h4 h5 h6 hid hgen h7 h9 hs h11 h12 h13 hfuel Flags.any (any_allows v)

/-- **What `items` and `rest` are**: the rendering of a sequence is the concatenation of (a conformant spelling of the
    i-th value, a gap) for the values in order — the last object without a gap of its own — followed by a gap and the
    tail (`SeqOK`: every text spells its value, gaps are gaps, regular tokens are separated). -/
theorem render_sequence_shape (fmt : R → List UInt8) (pr : List UInt8 → Option R) (xs : List (Prim R)) (tail : List UInt8)
    (tape : List Nat) (hr : PdfSpec.RenderableL fmt pr xs) (hw : ∀ x ∈ xs, WF x ∧ vdepth x ≤ maxDepth) :
    ∃ items g, (PdfSpec.renderSeq fmt xs tail tape).1 = seqText items ++ (g ++ tail) ∧ Gap g ∧
      SeqOK pr (g ++ tail) items ∧ items.map (·.1) = xs := by
  obtain ⟨items, rest, e, hok, hmap, g, hg, erest⟩ := PdfSpec.renderSeq_spec fmt pr xs tail hr hw tape
  subst erest
  exact ⟨items, g, e, hg, hok, hmap⟩

/-- **Headline for stream objects**: `parse_indirect_object ∘ renderIndirect = id` for `n g obj << … >> stream … endstream
    endobj` as the printer writes it (any gaps and comments, LF or CR LF after the keyword): the dictionary is read back
    exactly and the returned `file_range` covers exactly the data.  `dataPos` is existential: it is characterised by the
    slice equation only (`buf[dataPos .. dataPos + len] = data`; the returned range is that range shifted by the lexer's
    file offset) — where a data string occurs more than once in the buffer the statement does not say which occurrence
    (the underlying lemma `parseIndirectObject_stream` computes it: right after the EOL that follows `stream`);
    `objText` / `rest` as in `parse_render_indirect_partial`. -/
theorem parse_render_stream_partial (env : Env R) (hd : env.decrypt = none) (fmt : R → List UInt8) (info : Dict R)
    (data : List UInt8) (id gen : Nat) (tail : List UInt8) (tape : List Nat) (hr : PdfSpec.RenderableE fmt env.parseReal info)
    (hk : KeysDistinctE info) (hnd : (keysOf info).Nodup) (hu : namesUtf8E info = true) (hlen : LengthIs env info data.length)
    (hdepth : 1 + vdepthE info ≤ maxDepth) (hid : id ≤ 18446744073709551615) (hgen : gen ≤ 18446744073709551615) :
    ∃ objText rest, (PdfSpec.renderIndirect fmt id gen (.stream info (.pending data)) tail tape).1 = objText ++ rest ∧
      ∀ {buf : Buf}, buf.size ≤ 2147483647 → ∀ (pre : List UInt8) (fuel : Nat),
        buf.toList = pre ++ (PdfSpec.renderIndirect fmt id gen (.stream info (.pending data)) tail tape).1 →
        2 + needE info ≤ fuel →
        ∃ dataPos, parseIndirectObject env buf fuel pre.length Flags.any =
            .ok (((id, gen), streamAt env info (id, gen) dataPos data.length), pre.length + objText.length) ∧
          slice buf dataPos (dataPos + data.length) = data := by
  obtain ⟨a, g1, b, g2, g3, tv, g4, g5, e, h1, h2, h3, h4, h5, h6, h7, h8, h9, h10, h11, h13⟩ :=
    PdfSpec.renderIndirect_stream_spec fmt env.parseReal id gen info data tail hr tape
  refine ⟨[] ++ a ++ g1 ++ b ++ g2 ++ kwObj ++ g3 ++ tv ++ g4 ++ kwEndobj, g5 ++ tail, e, ?_⟩
  intro buf hsz pre fuel hbuf hfuel
  have hs : Suffix buf pre.length ([] ++ a ++ g1 ++ b ++ g2 ++ kwObj ++ g3 ++ tv ++ g4 ++ kwEndobj ++ (g5 ++ tail)) := by
    rw [e] at hbuf
    exact suffix_of_toList hbuf
  exact parse_stream_spelling_partial env hd info data tv h8 hk hnd hu hlen hsz [] a g1 b g2 g3 g4 (g5 ++ tail) id gen pre.length
    fuel Gap.nil h1 h2 h3 h4 h5 h6 hid hgen h7 h9 h10 hs h13 hfuel hdepth Flags.any (by decide)

/-- **Headline for sequences**: a sequence of objects as the printer writes it (`renderSeq`) is parsed back, by as
    many consecutive `parse_with_lexer` calls as there are objects, to exactly these values, each call stopping
    right after its own object's text.  `items` (value, its text, the gap after it) and `rest` are existential here, tied
    to the input by `items.map (·.1) = xs` and the text equation; `render_sequence_shape` below adds that every item's text
    is a conformant spelling of its value, the gaps are gaps, and `rest` is a gap followed by the tail. -/
theorem parse_render_sequence_partial (env : Env R) (hd : env.decrypt = none) (fmt : R → List UInt8) (xs : List (Prim R))
    (tail : List UInt8) (tape : List Nat) (hr : PdfSpec.RenderableL fmt env.parseReal xs)
    (hw : ∀ x ∈ xs, KeysDistinct x ∧ namesUtf8 x = true ∧ vdepth x ≤ maxDepth) :
    ∃ items rest, (PdfSpec.renderSeq fmt xs tail tape).1 = seqText items ++ rest ∧ items.map (·.1) = xs ∧
      ∀ {buf : Buf}, buf.size ≤ 2147483647 → ∀ (pre : List UInt8) (fuel : Nat),
        buf.toList = pre ++ (PdfSpec.renderSeq fmt xs tail tape).1 → seqNeed items ≤ fuel →
        Ahead buf (pre.length + (seqText items).length) →
        parseSeq env buf fuel xs.length pre.length = .ok (seqExpected pre.length items) := by
  obtain ⟨items, rest, e, hok, hmap, _⟩ := PdfSpec.renderSeq_spec fmt env.parseReal xs tail hr
    (fun x hx => ⟨wf_of x (hw x hx).1 (hw x hx).2.1, (hw x hx).2.2⟩) tape
  refine ⟨items, rest, e, hmap, ?_⟩
  intro buf hsz pre fuel hbuf hfuel hah
  have hs : Suffix buf pre.length ([] ++ seqText items ++ rest) := by
    rw [e] at hbuf
    have := suffix_of_toList hbuf
    simpa using this
  have hl : xs.length = items.length := by rw [← hmap]; simp
  have := parse_sequence_partial env hd items hsz [] rest pre.length fuel hok Gap.nil hs (by simpa using hah) hfuel
  rw [hl]; simpa using this

/-- **`ParseFlags`: the exact acceptance condition.**  For every conformant spelling of `v` (same hypotheses as
    `parse_spelling_partial`) and *every* flag set: `parse_with_lexer_ctx` returns the value iff the set contains the bit of
    `v`'s kind (`flagOf`: NULL, INTEGER, NUMBER, BOOL, STRING, NAME, ARRAY, DICT, REF), and otherwise returns `Err`
    (`PrimitiveNotAllowed`).  The look-ahead cases are included: an integer is accepted under INTEGER (alone or with REF)
    and rejected under REF alone — after the look-ahead has run and been rolled back —, `n g R` is accepted under REF and
    rejected under INTEGER alone. -/
theorem parse_flags_exact (env : Env R) (hd : env.decrypt = none) (v : Prim R) (txt : List UInt8)
    (hsp : Spells env.parseReal v txt) (hk : KeysDistinct v) (hu : namesUtf8 v = true) (hdepth : vdepth v ≤ maxDepth)
    {buf : Buf} (hsz : buf.size ≤ 2147483647) (g rest : List UInt8) (pos fuel : Nat) (ctx : Option (Nat × Nat))
    (hg : Gap g) (hs : Suffix buf pos (g ++ txt ++ rest)) (hb : needsBnd v = true → Bnd rest)
    (hah : Ahead buf (pos + g.length + txt.length)) (hfuel : need v ≤ fuel) (hf2 : 2 ≤ fuel) (flags : Nat) :
    parseCtx env buf fuel pos ctx flags maxDepth =
      if flags &&& flagOf v = 0 then .err else .ok (v, pos + g.length + txt.length) := by
  by_cases hfl : flags &&& flagOf v = 0
  · rw [if_pos hfl]
    exact parseCtx_reject env v txt hsp g rest pos fuel ctx flags maxDepth hg hfl hs hb hah hf2
  · rw [if_neg hfl]
    exact parse_spelling_partial env hd v txt hsp hk hu hdepth hsz g rest pos fuel ctx hg hs hb hah hfuel flags hfl

/-- **… and a rejected parse restores the cursor**: under a flag set that does not admit the value the lexer ends where
    it started (`parse_err_restores_pos` applied to the rejection). -/
theorem parse_flags_reject (env : Env R) (v : Prim R) (txt : List UInt8) (hsp : Spells env.parseReal v txt)
    {buf : Buf} (g rest : List UInt8) (pos fuel : Nat) (ctx : Option (Nat × Nat)) (flags depth : Nat) (hg : Gap g)
    (hfl : flags &&& flagOf v = 0) (hs : Suffix buf pos (g ++ txt ++ rest)) (hb : needsBnd v = true → Bnd rest)
    (hah : Ahead buf (pos + g.length + txt.length)) (hfuel : 2 ≤ fuel) :
    parseCtx env buf fuel pos ctx flags depth = .err ∧ parseCtxC env buf fuel pos ctx flags depth = (.err, pos) := by
  have h1 := parseCtx_reject env v txt hsp g rest pos fuel ctx flags depth hg hfl hs hb hah hfuel
  have h2 : (parseCtxC env buf fuel pos ctx flags depth).1 = .err := by
    rw [parseCtxC_fst env buf fuel pos ctx flags depth hs.le]; exact h1
  exact ⟨h1, Prod.ext h2 (parseCtxC_err env buf fuel pos ctx flags depth hs.le h2)⟩

/-- **Encrypted spellings** (`Spec/SyntaxEnc`: every string of `v` replaced by its ciphertext under the key of the
    object `id gen`, then spelled — literal or hexadecimal, any layout).  Parsing in the context of that object with a
    decryptor `d` that inverts the encryptor `e` on that key returns the plaintext value `v`, for every value, layout,
    object number and generation.  `e`, `d` are parameters (RC4 / AES are third-party code); the inverse law is the
    explicit hypothesis. -/
theorem parse_spelling_encrypted (env : Env R) (d e : Nat → Nat → List UInt8 → List UInt8) (id gen : Nat)
    (hinv : ∀ s, d id gen (e id gen s) = s) (v : Prim R) (txt : List UInt8)
    (hsp : PdfSyntax.SpellsEnc env.parseReal e id gen v txt)
    (hk : KeysDistinct v) (hu : namesUtf8 v = true) (hdepth : vdepth v ≤ maxDepth) {buf : Buf} (hsz : buf.size ≤ 2147483647)
    (g rest : List UInt8) (pos fuel : Nat) (hg : Gap g) (hs : Suffix buf pos (g ++ txt ++ rest))
    (hb : needsBnd v = true → Bnd rest) (hah : Ahead buf (pos + g.length + txt.length)) (hfuel : need v ≤ fuel)
    (flags : Nat) (hfl : flags &&& flagOf v ≠ 0) :
    parseCtx (PdfShift.withDec env d) buf fuel pos (some (id, gen)) flags maxDepth = .ok (v, pos + g.length + txt.length) :=
  parseCtx_enc env d e id gen hinv v txt hsp hk hu hdepth hsz g rest pos fuel hg hs hb hah hfuel flags hfl

/-- **Headline for encrypted indirect objects**: `parse_indirect_object` with a decoder ∘ `renderIndirect` of the encrypted
    value = the plaintext value, for every tape of layout choices, every tail, every object number and generation; the
    cursor rests right after `endobj`. -/
theorem parse_render_indirect_encrypted (env : Env R) (d e : Nat → Nat → List UInt8 → List UInt8) (fmt : R → List UInt8)
    (v : Prim R) (id gen : Nat) (hinv : ∀ s, d id gen (e id gen s) = s) (tail : List UInt8) (tape : List Nat)
    (hr : PdfSpec.Renderable fmt env.parseReal v) (hk : KeysDistinct v) (hu : namesUtf8 v = true) (hdepth : vdepth v ≤ maxDepth)
    (hid : id ≤ 18446744073709551615) (hgen : gen ≤ 18446744073709551615) :
    ∃ objText rest, (PdfSpec.renderIndirect fmt id gen (PdfSyntax.encrypted e id gen v) tail tape).1 = objText ++ rest ∧
      ∀ {buf : Buf}, buf.size ≤ 2147483647 → ∀ (pre : List UInt8) (fuel : Nat),
        buf.toList = pre ++ (PdfSpec.renderIndirect fmt id gen (PdfSyntax.encrypted e id gen v) tail tape).1 → need v ≤ fuel →
        parseIndirectObject (PdfShift.withDec env d) buf fuel pre.length Flags.any =
          .ok (((id, gen), v), pre.length + objText.length) := by
  have hr' : PdfSpec.Renderable fmt env.parseReal (PdfSyntax.encrypted e id gen v) :=
    renderable_mapStrings fmt env.parseReal (e id gen) v hr
  obtain ⟨a, g1, b, g2, g3, tv, g4, g5, eq, h1, h2, h3, h4, h5, h6, h7, h8, h9, h10, h11, h12, h13⟩ :=
    PdfSpec.renderIndirect_spec fmt env.parseReal id gen (PdfSyntax.encrypted e id gen v) tail hr' tape
  refine ⟨[] ++ a ++ g1 ++ b ++ g2 ++ kwObj ++ g3 ++ tv ++ g4 ++ kwEndobj, g5 ++ tail, eq, ?_⟩
  intro buf hsz pre fuel hbuf hfuel
  have hs : Suffix buf pre.length ([] ++ a ++ g1 ++ b ++ g2 ++ kwObj ++ g3 ++ tv ++ g4 ++ kwEndobj ++ (g5 ++ tail)) := by
    rw [eq] at hbuf
    exact suffix_of_toList hbuf
  have sh := sameShape_mapStrings (e id gen) v
  exact parseIndirectObject_enc env d e id gen hinv v tv h8 hk hu hdepth hsz [] a g1 b g2 g3 g4 (g5 ++ tail) pre.length fuel
    Gap.nil h1 h2 h3 h4 h5 h6 hid hgen h7 h9 hs h11 (fun hb => h12 (by rw [PdfSyntax.encrypted, sh.nb]; exact hb)) h13 hfuel
    Flags.any (any_allows v)

/-- **Encrypted stream objects**: the strings of the stream dictionary are decrypted with the object key, the `file_range`
    covers exactly the (still encrypted) data: decrypting the data is the business of the stream layer, not of the parser. -/
theorem parse_stream_encrypted (env : Env R) (d e : Nat → Nat → List UInt8 → List UInt8) (id gen : Nat)
    (hinv : ∀ s, d id gen (e id gen s) = s) (info : Dict R) (data txt : List UInt8)
    (hsp : PdfSyntax.SpellsStreamEnc env.parseReal e id gen info data txt) (hk : KeysDistinctE info)
    (hnd : (keysOf info).Nodup) (hu : namesUtf8E info = true) (hlen : LengthIs env info data.length)
    {buf : Buf} (hsz : buf.size ≤ 2147483647)
    (g0 a g1 b g2 g3 g4 rest : List UInt8) (pos fuel : Nat) (hg0 : Gap g0)
    (ha : PdfSyntax.NatTok a id) (hb : PdfSyntax.NatTok b gen) (hg1 : Gap g1) (hg1ne : g1 ≠ []) (hg2 : Gap g2)
    (hg2ne : g2 ≠ []) (hid : id ≤ 18446744073709551615) (hgen : gen ≤ 18446744073709551615) (hg3 : Gap g3) (hg4 : Gap g4)
    (hg4ne : g4 ≠ [])
    (h : Suffix buf pos (g0 ++ a ++ g1 ++ b ++ g2 ++ kwObj ++ g3 ++ txt ++ g4 ++ kwEndobj ++ rest))
    (hbnd : Bnd rest) (hfuel : 2 + needE info ≤ fuel) (hdepth : 1 + vdepthE info ≤ maxDepth) :
    ∃ dataPos, parseIndirectObject (PdfShift.withDec env d) buf fuel pos Flags.any =
        .ok (((id, gen), streamAt env info (id, gen) dataPos data.length),
          pos + (g0 ++ a ++ g1 ++ b ++ g2 ++ kwObj ++ g3 ++ txt ++ g4 ++ kwEndobj).length) ∧
      slice buf dataPos (dataPos + data.length) = data :=
  parseIndirectObject_stream_enc env d e id gen hinv info data txt hsp hk hnd hu hlen hsz g0 a g1 b g2 g3 g4 rest pos fuel
    hg0 ha hb hg1 hg1ne hg2 hg2ne hid hgen hg3 hg4 hg4ne h hbnd hfuel hdepth

/-- **A failing decryptor ⇒ `Err`**: a string object whose ciphertext the decryptor rejects is not read as garbage, the
    parse fails (and, by `parse_err_restores_pos`, the cursor is put back). -/
theorem parse_string_decrypt_fails (env : Env R) (f : Nat → Nat → List UInt8 → Out (List UInt8)) (hdec : env.decrypt = some f)
    (id gen : Nat) (c : List UInt8) (hfail : f id gen c = .err) (txt : List UInt8) (hsp : Spells env.parseReal (.str c) txt)
    {buf : Buf} (hsz : buf.size ≤ 2147483647) (g rest : List UInt8) (pos fuel : Nat) (depth flags : Nat)
    (hfl : flags &&& Flags.string ≠ 0) (hg : Gap g) (hs : Suffix buf pos (g ++ txt ++ rest)) (hfuel : 2 ≤ fuel) :
    parseCtx env buf fuel pos (some (id, gen)) flags depth = .err :=
  parseCtx_str_decrypt_fails env f hdec id gen c hfail txt hsp hsz g rest pos fuel depth flags hfl hg hs hfuel

/-- **What may follow an object**: the decidable criterion `safeTail` (`Spec/Tail`: after white-space and comments
    the tail is empty, or starts a lexeme that is not `R` / `stream` and, if it is an integer, is not followed by `R`)
    guarantees the side condition `Ahead` of the theorems above, whatever gap precedes the tail; and every tail the
    harness appends (`Spec/Render.tails`, compared with the harness' own list on every run) satisfies it. -/
theorem safe_tail_never_merges {buf : Buf} (tail g : List UInt8) (q : Nat) (hs : PdfSpec.safeTail tail = true) (hg : Gap g)
    (h : Suffix buf q (g ++ tail)) : Ahead buf q :=
  ahead_of_safeTail tail g q hs hg h

theorem printer_tails_safe : ∀ t ∈ PdfSpec.tails, PdfSpec.safeTail t = true := tails_safe

/-- **Headline without side condition**: value + safe tail.  Nothing is assumed beyond conformance of the rendering
    (and the known-finding exclusion `namesUtf8`): the rendering placed behind any prefix, up to the end of the
    buffer, parses to the value and the cursor rests right after its text. -/
theorem parse_render (env : Env R) (hd : env.decrypt = none) (fmt : R → List UInt8) (v : Prim R) (tail : List UInt8)
    (tape : List Nat) (hr : PdfSpec.Renderable fmt env.parseReal v) (hk : KeysDistinct v) (hu : namesUtf8 v = true)
    (hdepth : vdepth v ≤ maxDepth) (ht : PdfSpec.safeTail tail = true) :
    ∃ txt g, (PdfSpec.renderWithTail fmt v tail tape).1 = txt ++ g ++ tail ∧ Gap g ∧
      ∀ {buf : Buf}, buf.size ≤ 2147483647 → ∀ (pre : List UInt8) (fuel : Nat) (ctx : Option (Nat × Nat)),
        buf.toList = pre ++ (PdfSpec.renderWithTail fmt v tail tape).1 → need v ≤ fuel →
        parseCtx env buf fuel pre.length ctx Flags.any maxDepth = .ok (v, pre.length + txt.length) := by
  obtain ⟨txt, g, e, hg, hp⟩ := parse_render_partial env hd fmt v tail tape hr hk hu hdepth
  refine ⟨txt, g, e, hg, ?_⟩
  intro buf hsz pre fuel ctx hbuf hfuel
  apply hp hsz pre fuel ctx hbuf hfuel
  have hs : Suffix buf (pre.length + txt.length) (g ++ tail) := by
    rw [e] at hbuf
    have := Suffix.drop (a := txt) (s := g ++ tail) (by simpa using suffix_of_toList hbuf)
    simpa using this
  exact ahead_of_safeTail tail g _ ht hg hs

/-- **The sequence clause at full strength**: a sequence of objects as the printer writes it, followed by any safe
    tail (in particular each of `Spec/Render.tails`), is parsed back by as many consecutive `parse_with_lexer`
    calls as there are objects to exactly these values, each call consuming exactly its own object's text.  No
    side condition is left beyond conformance (and `namesUtf8`).  (`items` / `rest`: see `render_sequence_shape`.) -/
theorem parse_render_sequence (env : Env R) (hd : env.decrypt = none) (fmt : R → List UInt8) (xs : List (Prim R))
    (tail : List UInt8) (tape : List Nat) (hr : PdfSpec.RenderableL fmt env.parseReal xs)
    (hw : ∀ x ∈ xs, KeysDistinct x ∧ namesUtf8 x = true ∧ vdepth x ≤ maxDepth) (ht : PdfSpec.safeTail tail = true) :
    ∃ items rest, (PdfSpec.renderSeq fmt xs tail tape).1 = seqText items ++ rest ∧ items.map (·.1) = xs ∧
      ∀ {buf : Buf}, buf.size ≤ 2147483647 → ∀ (pre : List UInt8) (fuel : Nat),
        buf.toList = pre ++ (PdfSpec.renderSeq fmt xs tail tape).1 → seqNeed items ≤ fuel →
        parseSeq env buf fuel xs.length pre.length = .ok (seqExpected pre.length items) := by
  obtain ⟨items, rest, e, hok, hmap, g, hg, erest⟩ := PdfSpec.renderSeq_spec fmt env.parseReal xs tail hr
    (fun x hx => ⟨wf_of x (hw x hx).1 (hw x hx).2.1, (hw x hx).2.2⟩) tape
  refine ⟨items, rest, e, hmap, ?_⟩
  intro buf hsz pre fuel hbuf hfuel
  have hs : Suffix buf pre.length ([] ++ seqText items ++ rest) := by
    rw [e] at hbuf
    have := suffix_of_toList hbuf
    simpa using this
  have hs2 : Suffix buf (pre.length + (seqText items).length) (g ++ tail) := by
    have := Suffix.drop (a := seqText items) (s := rest) (by simpa using hs)
    rw [erest] at this; exact this
  have hah : Ahead buf (pre.length + (seqText items).length) := ahead_of_safeTail tail g _ ht hg hs2
  have hl : xs.length = items.length := by rw [← hmap]; simp
  have := parse_sequence_partial env hd items hsz [] rest pre.length fuel hok Gap.nil hs (by simpa using hah) hfuel
  rw [hl]; simpa using this

/-- **The cursor is restored after a failed parse** (`Lexer.pos`, anchor of the property): for every buffer, every
    start position inside it, every context, flag set, depth budget and fuel, if `parse_with_lexer_ctx` returns
    `Err` then the lexer stands where the call started.  `parseCtxC` (`Model/ParserCursor`) is the parser with the
    cursor tracked on every path — also the failing ones, where the inner functions leave it wherever the error
    struck; `cursor_model_refines` ties it to the model all other theorems are about. -/
theorem parse_err_restores_pos (env : Env R) (buf : Buf) (fuel pos : Nat) (ctx : Option (Nat × Nat)) (flags depth : Nat)
    (h : pos ≤ buf.size) (herr : (parseCtxC env buf fuel pos ctx flags depth).1 = .err) :
    (parseCtxC env buf fuel pos ctx flags depth).2 = pos :=
  parseCtxC_err env buf fuel pos ctx flags depth h herr

/-- the cursor-tracking parser returns exactly what the parser model returns, for all inputs; and after `Ok` its
    cursor is the returned position (so "the cursor rests right after the text" in the theorems above is a
    statement about `Lexer.pos`) -/
theorem cursor_model_refines (env : Env R) (buf : Buf) (fuel pos : Nat) (ctx : Option (Nat × Nat)) (flags depth : Nat)
    (h : pos ≤ buf.size) :
    (parseCtxC env buf fuel pos ctx flags depth).1 = parseCtx env buf fuel pos ctx flags depth ∧
    ∀ v p, parseCtx env buf fuel pos ctx flags depth = .ok (v, p) →
      (parseCtxC env buf fuel pos ctx flags depth).2 = p ∧ p ≤ buf.size :=
  ⟨parseCtxC_fst env buf fuel pos ctx flags depth h, fun v p hok => parseCtxC_ok env buf fuel pos ctx flags depth h v p hok⟩

/-- The full-strength statement: as `parse_spelling_partial` but for *all* names the syntax can spell
    (`/#ff` is a legal name), i.e. without `namesUtf8`. -/
def C03_full : Prop :=
  ∀ (R : Type) (env : Env R) (v : Prim R) (txt : List UInt8) (buf : Buf) (g rest : List UInt8) (pos fuel : Nat)
    (ctx : Option (Nat × Nat)),
    env.decrypt = none → Spells env.parseReal v txt → KeysDistinct v → vdepth v ≤ maxDepth → buf.size ≤ 2147483647 →
    Gap g → Suffix buf pos (g ++ txt ++ rest) → (needsBnd v = true → Bnd rest) → Ahead buf (pos + g.length + txt.length) →
    need v ≤ fuel → parseCtx env buf fuel pos ctx Flags.any maxDepth = .ok (v, pos + g.length + txt.length)

def unitEnv : Env Unit :=
  { parseReal := fun _ => some (), resolveLen := fun _ _ => .err, allowMissingEndobj := false, decrypt := none, fileOffset := 0 }

def isErr {α : Type} : Out α → Bool
  | .err => true
  | _ => false

/-- non-vacuity of `parse_err_restores_pos`: `[1 2 (a` fails after the lexer has advanced to the end of the buffer, and
    the cursor is back at the start (position 2, behind a prefix) -/
example : (match parseCtxC unitEnv (#[120, 120, 91, 49, 32, 50, 32, 40, 97] : Buf) 40 2 none Flags.any maxDepth with
    | (.err, 2) => true
    | _ => false) = true := by
  decide +kernel

/-- **Counter-example (known finding, DESIGN D7)**: `/#ff` spells the name whose only byte is 0xFF; the
    reader rejects it because `Name` is a `SmallString` (UTF-8). -/
theorem C03_counterexample : ¬ C03_full := by
  intro h
  have hsp : Spells unitEnv.parseReal (.name [255]) [47, 35, 102, 102] := by
    simp only [Spells]
    exact ⟨[35, 102, 102], rfl, PdfSyntax.NameBody.esc 102 102 15 15 [] [] (by decide) (by decide) PdfSyntax.NameBody.nil⟩
  have hah : Ahead (#[47, 35, 102, 102] : Buf) (0 + ([] : List UInt8).length + [47, 35, 102, 102].length) := by
    left; decide +kernel
  have := h Unit unitEnv (.name [255]) [47, 35, 102, 102] #[47, 35, 102, 102] [] [] 0 10 none rfl hsp (by simp [KeysDistinct])
    (by simp [vdepth]) (by simp) Gap.nil (by simp [Suffix]) (fun _ => by simp [Bnd]) hah (by simp [need])
  have e : isErr (parseCtx unitEnv (#[47, 35, 102, 102] : Buf) 10 0 none Flags.any maxDepth) = true := by decide +kernel
  rw [this] at e
  simp [isErr] at e

/-! ### non-vacuity -/

/-- `[ 1%c␍/A#20B(a\)\053\␊b)<4 1>-.5 ]`: an array with a comment ended by CR, a name with `#20`, a literal
    string with an escaped parenthesis, an octal code and a line continuation, a hexadecimal string with
    white-space, a fraction-only real; every hypothesis of `parse_spelling_partial` holds for it. -/
def sampleValue : Prim Unit :=
  .arr [.int 1, .name [65, 32, 66], .str [97, 41, 43, 98], .str [65], .real ()]

def sampleText : List UInt8 :=
  [91, 32, 49, 37, 99, 13, 47, 65, 35, 50, 48, 66, 40, 97, 92, 41, 92, 48, 53, 51, 92, 10, 98, 41, 60, 52, 32, 49, 62,
   45, 46, 53, 32, 93]

theorem sample_conformant : Spells unitEnv.parseReal sampleValue sampleText ∧ KeysDistinct sampleValue ∧
    namesUtf8 sampleValue = true ∧ vdepth sampleValue ≤ maxDepth := by
  refine ⟨?_, by simp [sampleValue, KeysDistinct, PdfSyntax.KeysDistinctL], by decide, by decide⟩
  simp only [sampleValue, sampleText, Spells]
  refine ⟨[32], _, rfl, Gap.ws 32 [] (by decide) Gap.nil, ?_⟩
  -- 1 %c<CR>
  refine ⟨[49], [37, 99, 13], _, rfl, ?_, Gap.comment [99] 13 [] (by intro b hb; simp at hb; subst hb; decide) (Or.inr rfl) Gap.nil, ?_, fun _ => by simp [Bnd]; decide⟩
  · simp only [Spells]; exact ⟨⟨[49], by simp, by simp [PdfSyntax.Digits, PdfSyntax.isDig], Or.inl ⟨rfl, by decide⟩⟩, by decide, by decide⟩
  -- /A#20B
  refine ⟨[47, 65, 35, 50, 48, 66], [], _, rfl, ?_, Gap.nil, ?_, fun _ => by simp [Bnd]; decide⟩
  · simp only [Spells]
    exact ⟨_, rfl, PdfSyntax.NameBody.raw 65 _ _ (by decide) (by decide)
      (PdfSyntax.NameBody.esc 50 48 2 0 _ _ (by decide) (by decide)
        (PdfSyntax.NameBody.raw 66 _ _ (by decide) (by decide) PdfSyntax.NameBody.nil))⟩
  -- (a\)\053\<LF>b)
  refine ⟨[40, 97, 92, 41, 92, 48, 53, 51, 92, 10, 98, 41], [], _, rfl, ?_, Gap.nil, ?_, fun h => by simp [needsBnd] at h⟩
  · simp only [Spells]
    left
    exact ⟨_, rfl, PdfSyntax.LitBody.plain 97 _ _ _ (by decide) (by decide) (by decide) (by decide)
      (PdfSyntax.LitBody.named 41 41 _ _ _ (by decide)
        (PdfSyntax.LitBody.oct3 48 53 51 _ _ _ (by decide) (by decide) (by decide)
          (PdfSyntax.LitBody.contLf _ _ _
            (PdfSyntax.LitBody.plain 98 _ _ _ (by decide) (by decide) (by decide) (by decide) PdfSyntax.LitBody.close))))⟩
  -- <4 1>
  refine ⟨[60, 52, 32, 49, 62], [], _, rfl, ?_, Gap.nil, ?_, fun h => by simp [needsBnd] at h⟩
  · simp only [Spells]
    right
    exact ⟨_, rfl, PdfSyntax.HexBody.byte [] [32] 52 49 4 1 _ _ (by simp [PdfSyntax.HexWs]) (by simp [PdfSyntax.HexWs]; decide)
      (by decide) (by decide) (PdfSyntax.HexBody.close [] (by simp [PdfSyntax.HexWs]))⟩
  -- -.5
  refine ⟨[45, 46, 53], [32], _, rfl, ?_, Gap.ws 32 [] (by decide) Gap.nil, by simp [PdfSyntax.SpellsElems], fun _ => by simp [Bnd]; decide⟩
  simp only [Spells]
  exact ⟨⟨[45], [], [53], rfl, Or.inr (Or.inr rfl), by simp [PdfSyntax.Digits], by simp [PdfSyntax.Digits, PdfSyntax.isDig], Or.inr (by simp)⟩, rfl⟩

/-- the main theorem applies to it: all hypotheses (including `Ahead` at the end of the buffer) are met -/
example : parse unitEnv (sampleText ++ []).toArray Flags.any = .ok (sampleValue, sampleText.length) :=
  parse_api_partial unitEnv rfl sampleValue sampleText sample_conformant.1 sample_conformant.2.1 sample_conformant.2.2.1
    sample_conformant.2.2.2 [] (by decide) (fun _ => by simp [Bnd]) (Or.inl (by decide +kernel)) Flags.any (by decide)

/-- and the model computes that value from that text (kernel evaluation) -/
example :
    (match parse unitEnv sampleText.toArray Flags.any with
     | .ok (.arr [.int 1, .name [65, 32, 66], .str [97, 41, 43, 98], .str [65], .real ()], 34) => true
     | _ => false) = true := by decide +kernel

/-! ### non-vacuity of the encrypted-spelling theorems: a toy cipher (reversal, its own inverse) -/

def revCipher : Nat → Nat → List UInt8 → List UInt8 := fun _ _ s => s.reverse

/-- `[(abc) 7]` stored in object `7 0` as `[(cba) 7]`: `SpellsEnc` holds and the theorem gives back `abc` -/
example : parseCtx (PdfShift.withDec unitEnv revCipher) (#[91, 40, 99, 98, 97, 41, 32, 55, 93] : Buf) 20 0 (some (7, 0)) Flags.any maxDepth
    = .ok (.arr [.str [97, 98, 99], .int 7], 9) := by
  have hsp : PdfSyntax.SpellsEnc unitEnv.parseReal revCipher 7 0 (.arr [.str [97, 98, 99], .int 7] : Prim Unit)
      [91, 40, 99, 98, 97, 41, 32, 55, 93] := by
    simp only [PdfSyntax.SpellsEnc, PdfSyntax.encrypted, PdfSyntax.mapStrings, PdfSyntax.mapStringsL, revCipher, Spells]
    refine ⟨[], _, rfl, Gap.nil, ?_⟩
    refine ⟨[40, 99, 98, 97, 41], [32], _, rfl, ?_, Gap.ws 32 [] (by decide) Gap.nil, ?_, fun h => by simp [needsBnd] at h⟩
    · simp only [Spells]; left
      exact ⟨_, rfl, PdfSyntax.LitBody.plain 99 _ _ _ (by decide) (by decide) (by decide) (by decide)
        (PdfSyntax.LitBody.plain 98 _ _ _ (by decide) (by decide) (by decide) (by decide)
          (PdfSyntax.LitBody.plain 97 _ _ _ (by decide) (by decide) (by decide) (by decide) PdfSyntax.LitBody.close))⟩
    · refine ⟨[55], [], _, rfl, ?_, Gap.nil, by simp [PdfSyntax.SpellsElems], fun _ => by simp [Bnd]; decide⟩
      simp only [Spells]
      exact ⟨⟨[55], by simp, by simp [PdfSyntax.Digits, PdfSyntax.isDig], Or.inl ⟨rfl, by decide⟩⟩, by decide, by decide⟩
  have := parse_spelling_encrypted unitEnv revCipher revCipher 7 0 (fun s => by simp [revCipher]) _ _ hsp
    (by simp [KeysDistinct, PdfSyntax.KeysDistinctL]) (by decide) (by decide) (buf := #[91, 40, 99, 98, 97, 41, 32, 55, 93])
    (by decide) [] [] 0 20 Gap.nil (by simp [Suffix]) (fun h => by simp [needsBnd] at h) (Or.inl (by decide +kernel)) (by decide)
    Flags.any (by decide)
  simpa using this

/-- and the model computes it (kernel evaluation of `7 0 obj[(cba) 7]endobj` with the decoder) -/
example :
    (match parseIndirectObject (PdfShift.withDec unitEnv revCipher)
        (#[55, 32, 48, 32, 111, 98, 106, 91, 40, 99, 98, 97, 41, 32, 55, 93, 101, 110, 100, 111, 98, 106] : Buf) 60 0 Flags.any with
     | .ok (((7, 0), .arr [.str [97, 98, 99], .int 7]), 22) => true
     | _ => false) = true := by decide +kernel

/-! ### non-vacuity of the indirect-object, stream-object and sequence headlines (printer output, theorems applied) -/

def exTape : List Nat := [3, 1, 4, 1, 5, 9, 2, 6, 5, 3, 5, 8, 9, 7, 9, 3, 2, 3, 8, 4, 6, 2, 6, 4, 3, 3, 8, 3, 2, 7, 9, 5]

def exValue : Prim Unit := .arr [.int 1, .name [65, 32], .str [120, 40]]

/-- `parse_render_indirect_partial` applied: object `7 0` holding `[1 /A#20 (x\()]` in the layout drawn from `exTape` -/
example : ∃ p, parseIndirectObject unitEnv (PdfSpec.renderIndirect (fun _ => []) 7 0 exValue [] exTape).1.toArray 200 0 Flags.any =
    .ok (((7, 0), exValue), p) := by
  obtain ⟨objText, rest, e, h⟩ := parse_render_indirect_partial unitEnv rfl (fun _ => []) exValue 7 0 [] exTape
    (by simp [exValue, PdfSpec.Renderable, PdfSpec.RenderableL]) (by simp [exValue, KeysDistinct, PdfSyntax.KeysDistinctL])
    (by decide) (by decide) (by decide) (by decide)
  have hl : (PdfSpec.renderIndirect (fun _ => ([] : List UInt8)) 7 0 exValue [] exTape).1.length ≤ 200 := by decide +kernel
  exact ⟨_, h (by simp; omega) [] 200 (by simp) (by decide)⟩

/-- `parse_render_stream_partial` applied: a stream object with `/Length 3` and the data `abc` -/
example : ∃ dataPos p, parseIndirectObject unitEnv
      (PdfSpec.renderIndirect (fun _ => []) 7 0 (.stream [(kwLength, .int 3)] (.pending [97, 98, 99]) : Prim Unit) [] exTape).1.toArray
      200 0 Flags.any = .ok (((7, 0), streamAt unitEnv [(kwLength, .int 3)] (7, 0) dataPos 3), p) ∧
    slice (PdfSpec.renderIndirect (fun _ => []) 7 0 (.stream [(kwLength, .int 3)] (.pending [97, 98, 99]) : Prim Unit) [] exTape).1.toArray
      dataPos (dataPos + 3) = [97, 98, 99] := by
  obtain ⟨objText, rest, e, h⟩ := parse_render_stream_partial unitEnv rfl (fun _ => []) [(kwLength, .int 3)] [97, 98, 99] 7 0 [] exTape
    (by simp [PdfSpec.RenderableE, PdfSpec.Renderable]) (by simp [KeysDistinctE, KeysDistinct]) (by simp [keysOf]) (by decide)
    (Or.inl (by simp [dictGet, kwLength])) (by decide) (by decide) (by decide)
  have hl : (PdfSpec.renderIndirect (fun _ => ([] : List UInt8)) 7 0
      (.stream [(kwLength, .int 3)] (.pending [97, 98, 99]) : Prim Unit) [] exTape).1.length ≤ 200 := by decide +kernel
  obtain ⟨dataPos, hp, hd⟩ := h (buf := (PdfSpec.renderIndirect (fun _ => ([] : List UInt8)) 7 0
      (.stream [(kwLength, .int 3)] (.pending [97, 98, 99]) : Prim Unit) [] exTape).1.toArray) (by simp; omega) [] 200 (by simp) (by decide)
  exact ⟨dataPos, _, hp, hd⟩

/-- `parse_render_sequence` applied: `1 2 /A` in the layout drawn from `exTape`, followed by the tail `]` -/
example : ∃ items, items.map (·.1) = [.int 1, .int 2, (.name [65] : Prim Unit)] ∧
    parseSeq unitEnv (PdfSpec.renderSeq (fun _ => []) [.int 1, .int 2, (.name [65] : Prim Unit)] [93] exTape).1.toArray 100 3 0 =
      .ok (seqExpected 0 items) := by
  obtain ⟨items, rest, e, hmap, h⟩ := parse_render_sequence unitEnv rfl (fun _ => []) [.int 1, .int 2, (.name [65] : Prim Unit)] [93]
    exTape (by simp [PdfSpec.RenderableL, PdfSpec.Renderable])
    (by intro x hx; simp at hx; rcases hx with rfl | rfl | rfl <;> (refine ⟨by simp [KeysDistinct], by decide, by decide⟩))
    (by decide +kernel)
  have hl : (PdfSpec.renderSeq (fun _ => ([] : List UInt8)) [.int 1, .int 2, (.name [65] : Prim Unit)] [93] exTape).1.length ≤ 200 := by
    decide +kernel
  refine ⟨items, hmap, ?_⟩
  have := h (buf := (PdfSpec.renderSeq (fun _ => ([] : List UInt8)) [.int 1, .int 2, (.name [65] : Prim Unit)] [93] exTape).1.toArray)
    (by simp; omega) [] 100 (by simp)
    (seqNeed_le items 100 (by rw [hmap]; intro x hx; simp at hx; rcases hx with rfl | rfl | rfl <;> decide))
  simpa using this

/-! ### the look-ahead cases of `parse_flags_exact`, evaluated (flags: INTEGER = 1, REF = 512) -/

def outcome {α : Type} : Out (Prim α × Nat) → Nat
  | .ok (.int _, p) => 100 + p
  | .ok (.ref _ _, p) => 200 + p
  | .ok _ => 300
  | .err => 0
  | _ => 999

/-- `12` (end of buffer: the member of an object stream, the D42-style restricted request for an indirect `/Length`
    asks with INTEGER only): accepted under INTEGER and INTEGER|REF, rejected under REF alone and under NAME -/
example : (outcome (parseWithLexer unitEnv #[49, 50] 20 0 1), outcome (parseWithLexer unitEnv #[49, 50] 20 0 513),
    outcome (parseWithLexer unitEnv #[49, 50] 20 0 512), outcome (parseWithLexer unitEnv #[49, 50] 20 0 16)) = (102, 102, 0, 0) := by
  decide +kernel

/-- `12 0 R`: a reference under REF and INTEGER|REF; under INTEGER alone it is rejected (not read as the integer 12) -/
example : (outcome (parseWithLexer unitEnv #[49, 50, 32, 48, 32, 82] 20 0 512),
    outcome (parseWithLexer unitEnv #[49, 50, 32, 48, 32, 82] 20 0 513),
    outcome (parseWithLexer unitEnv #[49, 50, 32, 48, 32, 82] 20 0 1)) = (206, 206, 0) := by
  decide +kernel

/-- `12 0 obj`: the look-ahead reads `0` and `obj`, rolls back: the integer 12 under INTEGER; rejected under REF alone with
    the cursor back at the start -/
example : outcome (parseWithLexer unitEnv #[49, 50, 32, 48, 32, 111, 98, 106] 20 0 1) = 102 ∧
    (match parseWithLexerC unitEnv #[49, 50, 32, 48, 32, 111, 98, 106] 20 0 512 with | (.err, 0) => true | _ => false) = true := by
  decide +kernel

end C03

/-! ## Tie to the source: constants and byte classes (appended by the translator package)

`Generated/Lexical.lean` is re-extracted from `pdf/src` by `./check` before this file is built. -/

namespace C03

/-- white-space, delimiter and regular characters of the lexer model and the parser's nesting bound are the ones of the source -/
theorem constants_match_source :
    ((List.range 256).filter (fun n => PdfLex.isWhitespace (UInt8.ofNat n)) = Generated.lexWhitespace) ∧
    ((List.range 256).filter (fun n => PdfLex.isDelimiter (UInt8.ofNat n)) = Generated.lexDelimiters) ∧
    ((List.range 256).filter (fun n => PdfLex.isRegular (UInt8.ofNat n)) =
      (List.range 256).filter (fun n => !Generated.lexWhitespace.contains n && !Generated.lexDelimiters.contains n)) ∧
    (PdfLex.maxDepth = Generated.parserMaxDepth) := by
  refine ⟨?_, ?_, ?_, ?_⟩
  · first | decide +kernel | fail "constants_match_source (C03): the model's PdfLex.isWhitespace does not match the source (Generated.lexWhitespace, re-extracted from pdf/src)"
  · first | decide +kernel | fail "constants_match_source (C03): the model's PdfLex.isDelimiter does not match the source (Generated.lexDelimiters, re-extracted from pdf/src)"
  · first | decide +kernel | fail "constants_match_source (C03): the model's PdfLex.isRegular does not match the source (Generated.lexDelimiters, Generated.lexWhitespace, re-extracted from pdf/src)"
  · first | decide +kernel | fail "constants_match_source (C03): the model's PdfLex.maxDepth does not match the source (Generated.parserMaxDepth, re-extracted from pdf/src)"

end C03
