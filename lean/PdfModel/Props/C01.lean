import PdfModel.Lemmas.TotalLexer
import PdfModel.Lemmas.TotalStr
import PdfModel.Lemmas.TotalParser
import PdfModel.Lemmas.TotalContent
import PdfModel.Lemmas.TotalContentEI
import PdfModel.Lemmas.TotalXrefTable
import PdfModel.Lemmas.TotalXrefStream
import PdfModel.Lemmas.TotalOpen
import PdfModel.Lemmas.TotalGlue
import PdfModel.Lemmas.DeriveRegistryTotal
import PdfModel.Lemmas.ReadLinear
import PdfModel.Lemmas.TotalTyped
import PdfModel.Lemmas.TotalDate
import PdfModel.Lemmas.TotalColorSpace
import PdfModel.Lemmas.TotalFont
import PdfModel.Lemmas.TotalHandTower
import PdfModel.Lemmas.TotalCrypt
import PdfModel.Lemmas.TotalContentTyped
import PdfModel.Lemmas.TotalScan
import PdfModel.Generated.Schemas
import PdfModel.Props.C02
import PdfModel.Props.C05
import PdfModel.Props.C11
import PdfModel.Props.C14
import PdfModel.Props.C17
import PdfModel.Props.C19
import PdfModel.Generated.Lexical

/-!
# C01 — reading arbitrary bytes never panics, aborts or hangs

The model-level content of the property: every modelled function of the lexical, syntactic and structural
core returns `ok` or `err` — never `panic` (the explicit outcome of every Rust index, slice, `unwrap`,
`assert!` and checked arithmetic operation) and never `oof` (out of fuel, for a fuel that is a linear function
of the input: "returns within resources proportional to the input") — for EVERY buffer and EVERY cursor
inside it, both option sets.

Standing facts about the inputs (explicit hypotheses, never axioms):
* `pos ≤ buf.size` — the cursor invariant of `Lexer` (`pos` is private, `set_pos` clamps). `lexer_inv` shows
  that every method re-establishes it.
* `RealSize buf : buf.size ≤ isize::MAX` — true of every Rust slice. Needed where `usize` arithmetic must not
  wrap (`offset_pos`, `get_pos() + 1`) and for the nesting counter of the string lexer.
* `EnvOk env` — the resolver behind an indirect `/Length` and the string decryption return `Ok` or `Err`; they
  are parameters of the parser model (`Resolve::resolve_flags`, `Decoder::decrypt`).
* a search pattern is not empty (`slice::windows(0)` panics; the library only passes constants).

Repairs this package made to the code and that the models describe (`notes/C01.md`): `next_lexeme` is a loop
(it recursed once per line continuation: stack overflow on a long run), its nesting counter is an `i64`
(`nested_i32_overflows`), `read_n` and `seek_newline` saturate (`read_n_old_panics`).
-/

namespace C01
open PdfLex

-- ===================================================================================================
-- 1. the lexer

/-- `Lexer::skip_whitespace` from any cursor inside the buffer: `Err(EOF)` or the position of a byte. -/
theorem skip_whitespace_total (buf : Buf) (pos : Nat) (h : pos ≤ buf.size) :
    skipWhitespace buf pos = .err ∨ ∃ p, skipWhitespace buf pos = .ok p ∧ pos ≤ p ∧ p < buf.size := by
  rcases skipWhitespace_spec buf pos h with he | ⟨p, hp, h1, h2, _⟩
  · exact Or.inl he
  · exact Or.inr ⟨p, hp, h1, h2⟩

/-- `Lexer::next_word` / `next`: never panics, never runs out of fuel (the comment loop consumes a byte per
    round); an `Ok` lexeme is not empty, lies at or behind the cursor and inside the buffer. -/
theorem next_word_total (buf : Buf) (pos : Nat) (h : pos ≤ buf.size) :
    nextWord buf pos ≠ .panic ∧ nextWord buf pos ≠ .oof ∧
    ∀ w, nextWord buf pos = .ok w → pos ≤ w.1 ∧ w.1 < w.2 ∧ w.2 ≤ buf.size := by
  rcases nextWord_spec buf pos h with he | ⟨w, hw, h1, h2, h3⟩
  · rw [he]; exact ⟨by simp, by simp, fun w hh => by cases hh⟩
  · rw [hw]; exact ⟨by simp, by simp, fun w' hh => by cases hh; exact ⟨h1, h2, h3⟩⟩

/-- `Lexer::next` is `next_word` plus the cursor update. -/
theorem next_total (buf : Buf) (pos : Nat) (h : pos ≤ buf.size) :
    next buf pos ≠ .panic ∧ next buf pos ≠ .oof ∧
    ∀ w, next buf pos = .ok w → pos ≤ w.1 ∧ w.1 < w.2 ∧ w.2 ≤ buf.size :=
  next_word_total buf pos h

/-- `Lexer::peek` always returns a substring inside the buffer (the empty one at the end of the data). -/
theorem peek_total (buf : Buf) (pos : Nat) (h : pos ≤ buf.size) :
    ∃ w, peek buf pos = .ok w ∧ w.1 ≤ w.2 ∧ w.2 ≤ buf.size := by
  obtain ⟨w, hw, _, h2, h3⟩ := peek_spec buf pos h
  exact ⟨w, hw, h2, h3⟩

/-- `Lexer::back` always returns; the cursor moves to the start of the previous lexeme, never forward. -/
theorem back_total (buf : Buf) (pos : Nat) (h : pos ≤ buf.size) :
    ∃ w, back buf pos = .ok w ∧ w.1 ≤ w.2 ∧ w.2 ≤ pos :=
  back_spec buf pos h

/-- `Lexer::next_stream`: `end - word.len()` cannot underflow, `pos + 6` / `pos + 7` are bounds-checked reads. -/
theorem next_stream_total (buf : Buf) (pos : Nat) (h : pos ≤ buf.size) :
    nextStream buf pos = .err ∨ ∃ p, nextStream buf pos = .ok p ∧ pos < p ∧ p ≤ buf.size :=
  nextStream_cases buf pos h

/-- `Lexer::next_expect`. -/
theorem next_expect_total (buf : Buf) (pos : Nat) (expected : List UInt8) (h : pos ≤ buf.size) :
    nextExpect buf pos expected = .err ∨ ∃ p, nextExpect buf pos expected = .ok p ∧ pos < p ∧ p ≤ buf.size :=
  nextExpect_spec buf pos expected h

/-- `Lexer::set_pos` clamps: whatever position is asked for, the cursor ends inside the buffer. -/
theorem set_pos_total (buf : Buf) (pos wanted : Nat) (h : pos ≤ buf.size) :
    setPos buf pos wanted = .ok (min wanted buf.size) :=
  setPos_spec buf pos wanted h

/-- `Lexer::offset_pos` (`wrapping_add`, then `set_pos`). -/
theorem offset_pos_total (buf : Buf) (pos offset : Nat) (h : pos ≤ buf.size) :
    ∃ p, offsetPos buf pos offset = .ok p ∧ p ≤ buf.size :=
  offsetPos_spec buf pos offset h

/-- `Lexer::set_pos_from_end` (two `saturating_sub`s, then `set_pos`). -/
theorem set_pos_from_end_total (buf : Buf) (pos n : Nat) (h : pos ≤ buf.size) :
    setPosFromEnd buf pos n = .ok (buf.size - n - 1) :=
  setPosFromEnd_spec buf pos n h

/-- `Lexer::read_n` (after the repair) for every count, on every buffer including the empty one. -/
theorem read_n_total (buf : Buf) (pos n : Nat) (h : pos ≤ buf.size) :
    ∃ s p, readN buf pos n = .ok (s, p) ∧ s.1 ≤ s.2 ∧ s.2 ≤ buf.size ∧ p ≤ buf.size :=
  readN_total buf pos n h

/-- Before the repair `read_n` on an empty buffer panicked (`self.buf.len() - 1`), for every count. -/
theorem read_n_old_panics (n : Nat) : readNOld #[] 0 n = .panic :=
  readNOld_panics_empty n

/-- `Lexer::seek_substr` with a non-empty pattern: the cursor moves forward only and stays inside. -/
theorem seek_substr_total (buf : Buf) (pos : Nat) (pat : List UInt8) (h : pos ≤ buf.size) (hp : pat ≠ []) :
    ∃ r p, seekSubstr buf pos pat = .ok (r, p) ∧ pos ≤ p ∧ p ≤ buf.size := by
  obtain ⟨r, p, hr, h1, h2, _⟩ := seekSubstr_spec buf pos pat h hp
  exact ⟨r, p, hr, h1, h2⟩

/-- `Lexer::seek_substr_back` with a non-empty pattern: `Err(NotFound)` or a cursor at or before the old one. -/
theorem seek_substr_back_total (buf : Buf) (pos : Nat) (pat : List UInt8) (h : pos ≤ buf.size) (hp : pat ≠ []) :
    seekSubstrBack buf pos pat = .err ∨ ∃ s p, seekSubstrBack buf pos pat = .ok (s, p) ∧ p ≤ pos := by
  rcases seekSubstrBack_spec buf pos pat h hp with he | ⟨s, p, hs, _, _, h3⟩
  · exact Or.inl he
  · exact Or.inr ⟨s, p, hs, h3⟩

/-- The empty pattern is the one way to make the search functions panic (`slice::windows(0)`). -/
theorem seek_substr_empty_pattern_panics (buf : Buf) (pos : Nat) (h : pos ≤ buf.size) :
    seekSubstr buf pos [] = .panic :=
  seekSubstr_empty_panics buf pos h

/-- `Lexer::seek_newline` (after the repair). -/
theorem seek_newline_total (buf : Buf) (pos : Nat) (h : pos ≤ buf.size) :
    ∃ s p, seekNewline buf pos = .ok (s, p) ∧ pos ≤ p ∧ p ≤ buf.size :=
  seekNewline_spec buf pos h

/-- **The cursor invariant.** Started at a cursor inside the buffer, every cursor-moving method of `Lexer`
    leaves the cursor inside the buffer — so the hypothesis `pos ≤ buf.size` of all the theorems here holds at
    every call site, by induction over any sequence of calls. -/
theorem lexer_inv (buf : Buf) (pos : Nat) (h : pos ≤ buf.size) :
    (∀ w, next buf pos = .ok w → w.2 ≤ buf.size) ∧
    (∀ w, back buf pos = .ok w → w.1 ≤ buf.size) ∧
    (∀ e p, nextExpect buf pos e = .ok p → p ≤ buf.size) ∧
    (∀ p, nextStream buf pos = .ok p → p ≤ buf.size) ∧
    (∀ x p, setPos buf pos x = .ok p → p ≤ buf.size) ∧
    (∀ x p, offsetPos buf pos x = .ok p → p ≤ buf.size) ∧
    (∀ x p, setPosFromEnd buf pos x = .ok p → p ≤ buf.size) ∧
    (∀ n s p, readN buf pos n = .ok (s, p) → p ≤ buf.size) ∧
    (∀ pat r p, pat ≠ [] → seekSubstr buf pos pat = .ok (r, p) → p ≤ buf.size) ∧
    (∀ pat s p, pat ≠ [] → seekSubstrBack buf pos pat = .ok (s, p) → p ≤ buf.size) ∧
    (∀ s p, seekNewline buf pos = .ok (s, p) → p ≤ buf.size) := by
  refine ⟨?_, ?_, ?_, ?_, ?_, ?_, ?_, ?_, ?_, ?_, ?_⟩
  · intro w hw; exact ((next_total buf pos h).2.2 w hw).2.2
  · intro w hw
    obtain ⟨w', hw', h1, h2⟩ := back_spec buf pos h
    rw [hw'] at hw; cases hw; omega
  · intro e p hp
    rcases nextExpect_spec buf pos e h with he | ⟨p', hp', _, h2⟩
    · rw [he] at hp; cases hp
    · rw [hp'] at hp; cases hp; exact h2
  · intro p hp
    rcases nextStream_cases buf pos h with he | ⟨p', hp', _, h2⟩
    · rw [he] at hp; cases hp
    · rw [hp'] at hp; cases hp; exact h2
  · intro x p hp; rw [setPos_spec buf pos x h] at hp; cases hp; omega
  · intro x p hp
    obtain ⟨p', hp', h2⟩ := offsetPos_spec buf pos x h
    rw [hp'] at hp; cases hp; exact h2
  · intro x p hp; rw [setPosFromEnd_spec buf pos x h] at hp; cases hp; omega
  · intro n s p hp
    obtain ⟨s', p', hp', _, _, h3⟩ := readN_total buf pos n h
    rw [hp'] at hp; cases hp; exact h3
  · intro pat r p hne hp
    obtain ⟨r', p', hp', _, h2, _⟩ := seekSubstr_spec buf pos pat h hne
    rw [hp'] at hp; cases hp; exact h2
  · intro pat s p hne hp
    rcases seekSubstrBack_spec buf pos pat h hne with he | ⟨s', p', hp', _, _, h3⟩
    · rw [he] at hp; cases hp
    · rw [hp'] at hp; cases hp; omega
  · intro s p hp
    obtain ⟨s', p', hp', _, h2⟩ := seekNewline_spec buf pos h
    rw [hp'] at hp; cases hp; exact h2

-- ===================================================================================================
-- 2. the string lexers

/-- `StringLexer::next_lexeme` from any cursor and any non-negative nesting: `Err(EOF)` or a lexeme with the
    cursor strictly further and inside the buffer. No panic on any buffer that can exist (the nesting counter
    has room: `nested + bytes left ≤ i64::MAX`), no `oof` with fuel `bytes left + 1` — a run of line
    continuations of any length is consumed by the loop. -/
theorem next_lexeme_total (buf : Buf) (pos : Nat) (nested : Int) (h : pos ≤ buf.size) (hn : 0 ≤ nested)
    (hm : nested + ((buf.size - pos : Nat) : Int) ≤ 9223372036854775807) :
    nextLexeme buf (buf.size - pos + 1) pos nested = .err ∨
    ∃ r p n', nextLexeme buf (buf.size - pos + 1) pos nested = .ok (r, p, n') ∧ pos < p ∧ p ≤ buf.size := by
  rcases nextLexeme_spec buf (buf.size - pos + 1) pos nested h hn hm (by omega) with he | ⟨r, p, n', hp, h1, h2, _⟩
  · exact Or.inl he
  · exact Or.inr ⟨r, p, n', hp, h1, h2⟩

/-- The step that panicked before the repair: the 2^31-th unbalanced `(` with an `i32` counter. -/
theorem nested_i32_overflows : nestedStepOld32 2147483647 = .panic :=
  PdfLex.nested_i32_overflows

/-- The iterator loop over a literal string (as `_parse_with_lexer_ctx` runs it), on every real buffer. -/
theorem literal_string_total (buf : Buf) (hs : RealSize buf) (pos : Nat) (h : pos ≤ buf.size) :
    collectString buf (buf.size - pos + 2) pos 0 [] = .err ∨
    ∃ s p, collectString buf (buf.size - pos + 2) pos 0 [] = .ok (s, p) ∧ pos < p ∧ p ≤ buf.size := by
  apply collectString_spec buf _ pos 0 [] h (Int.le_refl 0) _ (by omega)
  unfold RealSize at hs; unfold i64Max; omega

/-- `HexStringLexer::next_hex_byte`: the `back()` before a lone `>` cannot fail. -/
theorem next_hex_byte_total (buf : Buf) (base pos : Nat) (hb : base ≤ pos) :
    nextHexByte buf base pos = .err ∨ ∃ r p, nextHexByte buf base pos = .ok (r, p) ∧ pos < p ∧ p ≤ buf.size :=
  nextHexByte_spec buf base pos hb

/-- The iterator loop over a hexadecimal string, on every buffer. -/
theorem hex_string_total (buf : Buf) (pos : Nat) (h : pos ≤ buf.size) :
    collectHex buf pos (buf.size - pos + 2) pos [] = .err ∨
    ∃ s p, collectHex buf pos (buf.size - pos + 2) pos [] = .ok (s, p) ∧ pos < p ∧ p ≤ buf.size :=
  collectHex_spec buf pos _ pos [] (Nat.le_refl _) h (by omega)

-- ===================================================================================================
-- 3. the object parser

/-- **`parse` is total.** For every byte string (of a size a slice can have), every flag set, every total
    resolver: `parse(data, r, flags)` with the default fuel `3·len + 64` is neither `panic` nor `oof`. The fuel
    is adequate for EVERY input, not only for renderings of values: every recursive call of the parser happens
    behind at least one consumed byte (`Lemmas/TotalParser`). -/
theorem parse_total {R : Type} (env : Env R) (henv : EnvOk env) (buf : Buf) (hs : RealSize buf) (flags : Nat) :
    parse env buf flags ≠ .panic ∧ parse env buf flags ≠ .oof := by
  have h := (parseWithLexer_good env henv buf hs (defaultFuel buf) 0 flags (Nat.zero_le _)
    (by have := defaultFuel_enough buf 0; omega)).ret
  exact ⟨h.ne_panic, h.ne_oof⟩

/-- `parse_with_lexer` from any cursor: `err`, or a value with the cursor strictly further and inside the
    buffer — a successful parse consumes at least one byte, which is what makes every loop around it
    (arrays, dictionaries, content streams, cross-reference sections) terminate. -/
theorem parse_with_lexer_total {R : Type} (env : Env R) (henv : EnvOk env) (buf : Buf) (hs : RealSize buf)
    (pos flags : Nat) (h : pos ≤ buf.size) :
    parseWithLexer env buf (defaultFuel buf) pos flags = .err ∨
    ∃ v p, parseWithLexer env buf (defaultFuel buf) pos flags = .ok (v, p) ∧ pos < p ∧ p ≤ buf.size :=
  parseWithLexer_good env henv buf hs (defaultFuel buf) pos flags h (by have := defaultFuel_enough buf pos; omega)

/-- **Recursion depth ≤ MAX_DEPTH.** Every value the parser returns nests at most `MAX_DEPTH = 20` arrays /
    dictionaries: an activation for a container at budget 0 returns `Err(MaxDepth)` before it recurses, and
    every nested activation runs with the budget minus one. The native stack of `_parse_with_lexer_ctx` is
    therefore bounded by a constant, whatever the input. -/
theorem parse_nesting_bounded {R : Type} (env : Env R) (henv : EnvOk env) (buf : Buf) (hs : RealSize buf)
    (pos flags : Nat) (h : pos ≤ buf.size) (v : Prim R) (p : Nat)
    (hv : parseWithLexer env buf (defaultFuel buf) pos flags = .ok (v, p)) : nest v ≤ maxDepth := by
  rcases parseWithLexer_goodq env henv buf hs (defaultFuel buf) pos flags h
    (by have := defaultFuel_enough buf pos; omega) with he | ⟨v', p', hp, _, _, hn⟩
  · rw [he] at hv; cases hv
  · rw [hp] at hv; cases hv; exact hn

/-- `parse_stream_object` with the resolver a parameter that returns `Ok` or `Err`. -/
theorem parse_stream_object_total {R : Type} (env : Env R) (henv : EnvOk env) (buf : Buf) (hs : RealSize buf)
    (pos : Nat) (dict : Dict R) (id : Nat × Nat) (h : pos ≤ buf.size) :
    parseStreamObject env buf pos dict id = .err ∨
    ∃ v p, parseStreamObject env buf pos dict id = .ok (v, p) ∧ pos < p ∧ p ≤ buf.size :=
  parseStreamObject_good env henv buf hs pos dict id h

/-- `parse_indirect_object`, strict (`allow_missing_endobj = false`) and tolerant alike. -/
theorem parse_indirect_object_total {R : Type} (env : Env R) (henv : EnvOk env) (buf : Buf) (hs : RealSize buf)
    (pos flags : Nat) (h : pos ≤ buf.size) :
    parseIndirectObject env buf (defaultFuel buf) pos flags = .err ∨
    ∃ v p, parseIndirectObject env buf (defaultFuel buf) pos flags = .ok (v, p) ∧ pos < p ∧ p ≤ buf.size :=
  parseIndirectObject_good env henv buf hs (defaultFuel buf) pos flags h (by unfold defaultFuel; omega)

/-- `parse_stream` / `parse_stream_with_lexer`. -/
theorem parse_stream_total {R : Type} (env : Env R) (henv : EnvOk env) (buf : Buf) (hs : RealSize buf)
    (pos : Nat) (id : Nat × Nat) (h : pos ≤ buf.size) :
    parseStream env buf (defaultFuel buf) pos id = .err ∨
    ∃ v p, parseStream env buf (defaultFuel buf) pos id = .ok (v, p) ∧ pos < p ∧ p ≤ buf.size :=
  parseStream_good env henv buf hs (defaultFuel buf) pos id h (by unfold defaultFuel; omega)

/-- `parse_indirect_stream` (the reader of cross-reference streams and object streams by position). -/
theorem parse_indirect_stream_total {R : Type} (env : Env R) (henv : EnvOk env) (buf : Buf) (hs : RealSize buf)
    (pos : Nat) (h : pos ≤ buf.size) :
    parseIndirectStream env buf (defaultFuel buf) pos = .err ∨
    ∃ v p, parseIndirectStream env buf (defaultFuel buf) pos = .ok (v, p) ∧ pos < p ∧ p ≤ buf.size :=
  parseIndirectStream_good env henv buf hs (defaultFuel buf) pos h (by unfold defaultFuel; omega)

-- ===================================================================================================
-- 4. content streams

/-- **The content-stream loop terminates on every input**, for every classification of the errors it
    branches on (`is_eof`), every outcome of the operand conversions, strict and tolerant
    (`allow_invalid_ops`): `OpBuilder::parse` is `Ok` or `Err` within `len + 1` rounds. -/
theorem content_total {R : Type} (env : Env R) (henv : EnvOk env) (buf : Buf) (hs : RealSize buf) (o : Oracle)
    (allowInvalidOps : Bool) :
    parseOps env buf o allowInvalidOps ≠ .panic ∧ parseOps env buf o allowInvalidOps ≠ .oof := by
  have h := parseOps_ret env henv buf hs o allowInvalidOps
  exact ⟨h.ne_panic, h.ne_oof⟩

/-- `ContentReadPastBoundary` is dead code: after a round of the loop the cursor never lies beyond the data. -/
theorem content_never_past_boundary {R : Type} (env : Env R) (henv : EnvOk env) (buf : Buf) (hs : RealSize buf)
    (o : Oracle) (allowInvalidOps : Bool) (pos : Nat) (h : pos ≤ buf.size) (p : Nat)
    (hp : contentStep env buf o allowInvalidOps pos = .ok (some p)) : pos < p ∧ p ≤ buf.size := by
  rcases contentStep_spec env henv buf hs o allowInvalidOps pos h with he | he | ⟨p', hp', h1, h2⟩
  · rw [he] at hp; cases hp
  · rw [he] at hp; cases hp
  · rw [hp'] at hp; cases hp; exact ⟨h1, h2⟩

/-- The position arithmetic of `inline_image`: `get_pos() + 1` and `get_pos() - 3` neither over- nor underflow,
    and `data_start .. data_end` is always a range that `new_substr` accepts (forward, or the backward range of
    an empty image), whatever follows `BI`. -/
theorem inline_image_total {R : Type} (env : Env R) (henv : EnvOk env) (buf : Buf) (hs : RealSize buf) (o : Oracle)
    (pos : Nat) (h : pos ≤ buf.size) :
    ∃ b p d, inlineImage env buf o pos = .ok ((b, p), d) ∧ pos ≤ p ∧ p ≤ buf.size ∧
      (∀ s, d = some s → s.1 ≤ s.2 ∧ s.2 ≤ buf.size) :=
  inlineImage_spec env henv buf hs o pos h

/-- The same for the end-of-data search of repo commit 4386f8d (white-space followed by the token `EI`;
    `data_end = max(pos + i, data_start)`, `offset_pos(i + 3)`): whichever of the two searches the tree has, the
    position arithmetic is total. -/
theorem inline_image_ei_total {R : Type} (env : Env R) (henv : EnvOk env) (buf : Buf) (hs : RealSize buf) (o : Oracle)
    (pos : Nat) (h : pos ≤ buf.size) :
    ∃ b p d, inlineImageEI env buf o pos = .ok ((b, p), d) ∧ pos ≤ p ∧ p ≤ buf.size ∧
      (∀ s, d = some s → s.1 ≤ s.2 ∧ s.2 ≤ buf.size) :=
  inlineImageEI_spec env henv buf hs o pos h

-- ===================================================================================================
-- 5. cross-reference sections

/-- `read_xref_and_trailer_at`, BOTH section formats (the one model of them: `Model/XrefTable` with its stream
    branch `Model/XrefStreamRead`, over the row reader `Model/XrefStream`), strict and tolerant. What the statement
    says, no more: the outcome is never `panic` and never `oof` for every buffer and cursor, and the sections of an
    `Ok` satisfy `Xref.pairsOK` (`Free` / `Raw` / `Stream` entries only, firsts and lengths in range), which is what
    the merge needs (`merge_total`). The bound on the entry loop of a table (at most `len / 3` rounds whatever count
    the header claims) is NOT part of this statement: it is `xref_table_total` and item 4 of `read_core_linear`. The
    typed reader of the stream dictionary (`Stream::<XRefInfo>`) and the data of the stream (`Resolve::stream_data` +
    filters) are parameters assumed to return `Ok` or `Err` (`htyped`, `hdata`). -/
theorem read_xref_at_total {R : Type} (env : Env R) (henv : EnvOk env) (typed : Dict R → Out XrefTable.XInfo)
    (htyped : ∀ d, Ret (typed d)) (sdata : Dict R → StreamInner → Out (List UInt8)) (hdata : ∀ d i, Ret (sdata d i))
    (allowErr : Bool) (buf : Buf) (hs : RealSize buf) (pos : Nat) (h : pos ≤ buf.size) :
    XrefTable.readXrefAt env typed sdata allowErr buf pos ≠ .panic ∧
    XrefTable.readXrefAt env typed sdata allowErr buf pos ≠ .oof ∧
    ∀ secs d, XrefTable.readXrefAt env typed sdata allowErr buf pos = .ok (secs, d) → Xref.pairsOK (Xref.secPairs secs) := by
  rcases XrefTable.readXrefAt_total env henv typed htyped sdata hdata allowErr buf hs pos h with he | ⟨subs, d, hr, hok⟩
  · rw [he]; exact ⟨by simp, by simp, fun _ _ hh => by cases hh⟩
  · rw [hr]
    refine ⟨by simp, by simp, fun secs d' hh => ?_⟩
    cases hh
    exact subsOk_pairsOK _ hok

/-- The classic table reader alone, with the progress that bounds its work: what `parse_xref_table_and_trailer`
    returns lies strictly behind the cursor, and (`XrefTable.entryLoop_total`) `n` entries cost at least `3 n` bytes. -/
theorem xref_table_total {R : Type} (env : Env R) (henv : EnvOk env) (buf : Buf) (hs : RealSize buf) (pos : Nat)
    (h : pos ≤ buf.size) :
    XrefTable.parseXrefTableAndTrailer env buf (XrefTable.defaultFuel buf) (defaultFuel buf) pos = .err ∨
    ∃ subs d q, XrefTable.parseXrefTableAndTrailer env buf (XrefTable.defaultFuel buf) (defaultFuel buf) pos = .ok ((subs, d), q) ∧
      pos < q ∧ q ≤ buf.size :=  by
  rcases XrefTable.parseXrefTableAndTrailer_total env henv buf hs pos h with he | ⟨subs, d, q, hq, q1, q2, _⟩
  · exact Or.inl he
  · exact Or.inr ⟨subs, d, q, hq, q1, q2⟩

/-- The row reader of cross-reference streams at byte level (the model `Props/C02` reads sections back with): the two
    panic sites of `read_u64_from_stream` are unreachable behind its guards; a section never holds more entries than
    the decoded data has bytes. -/
theorem xref_stream_rows_total (first n : Nat) (width : List Nat) (data : List UInt8) (allowErr : Bool) :
    Xref.parseSection first n width data allowErr = .err ∨
    ∃ s rest, Xref.parseSection first n width data allowErr = .ok (s, rest) ∧ s.entries.length ≤ data.length := by
  rcases Xref.parseSection_spec first n width data allowErr with he | ⟨s, rest, hr, _, _, hl⟩
  · exact Or.inl he
  · exact Or.inr ⟨s, rest, hr, hl⟩

/-- The section reader of cross-reference *streams* (`parse_xref_section_from_stream`, the `/Index` loop), for
    every width triple, count and amount of data, strict and tolerant (imported from the C14 package). -/
theorem xref_stream_sections_total (tolerant : Bool) (width : List Nat) (pairs : List (Nat × Nat)) (data : List Nat) :
    Numeric.xrefSections 64 true tolerant width pairs data [] ≠ .panic ∧
    Numeric.xrefSections 64 true tolerant width pairs data [] ≠ .oof :=
  C14.xref_sections_total 64 tolerant width pairs data []

-- ===================================================================================================
-- 6. the open path

/-- **`open_core_total`.** For every byte string `buf`, whatever token-level parsers `P` the structural model is
    run with, provided they are total on the suffixes of the file (`Offsets.TotalOn P len` — met by the byte-level
    models: `core_parsers_total`), and for both option sets:

    * the header search and the `startxref` search return (C17);
    * loading the chain of cross-reference sections — `startxref`, every `/Prev`, each section merged into the
      table (C02's merge: total on what the section readers deliver) — returns with `len + 2` rounds of fuel;
    * resolving ANY object number against ANY table through direct or compressed storage returns with fuel
      `2·(table length) + 3` (the guard `chain` is duplicate-free: pigeonhole), raw stream data and `scan` return
      (`scan`: the call, and every item *given that the items of the parameter `P.scanItems` return* — that is part of
      `TotalOn`; the concrete item loop is `scan_loop_total` / `open_core_total_scan`);
    * member lookup in an object stream returns (C11), every filter chain returns whatever the third-party
      decompressors deliver (C05), a cross-reference stream's sections are read without overflow (C14);
    * typed loading under the recursion guard returns on every object graph, cyclic or not (C14);
    * the `/W` interpreter and the ToUnicode reader return on every array / byte string (C19).

    What is *not* in this theorem (glue exercised only by the walker): the derive-generated typed loaders that sit
    between these pieces (`Stream::<XRefInfo>`, `ObjectStream`, `Catalog`, `Page`, fonts …), third-party
    decoders (they are the parameter `X` of the filter model), allocation sizes, the native stack. -/
theorem open_core_total {V T : Type} (P : Offsets.Parsers V T) (buf : List UInt8) (hP : Offsets.TotalOn P buf.length) :
    (Offsets.locateStart buf).Returns ∧ (Offsets.locateXref buf).Returns ∧
    (Offsets.openFile P (buf.length + 2) buf).Returns ∧
    (∀ start, (Offsets.loadTable P (buf.length + 2) buf start).Returns) ∧
    (∀ (start : Nat) (t : Xref.Table) (flags : Offsets.Flags) (id : Nat),
        (Offsets.resolveRef P buf start t (2 * t.length + 3) [] flags id).Returns) ∧
    (∀ o : Offsets.Obj V, (Offsets.rawData buf o).Returns) ∧
    (∀ start, (Offsets.scan P buf start).Returns ∧
        ∀ items, Offsets.scan P buf start = .ok items → ∀ it ∈ items, it.Returns) ∧
    (∀ (n first : Nat) (data : List UInt8) (i : Nat), (ObjStm.member n first data i).Returns) ∧
    (∀ (X : Enc.Ext) (fs : List Enc.Filter) (data : List UInt8), (Enc.decodeChain X data fs).Returns) ∧
    (∀ (tolerant : Bool) (width : List Nat) (pairs : List (Nat × Nat)) (data : List Nat),
        Numeric.xrefSections 64 true tolerant width pairs data [] ≠ .panic ∧
        Numeric.xrefSections 64 true tolerant width pairs data [] ≠ .oof) ∧
    (∀ (g : TypedLoad.Graph) (tolerant : Bool) (k : Nat),
        TypedLoad.load g tolerant (g.length + 1) [] k ≠ .oof ∧ TypedLoad.load g tolerant (g.length + 1) [] k ≠ .panic) ∧
    (∀ (w : Widths.Widths Nat) (items : List (Widths.WP Nat)),
        Widths.interp w items ≠ .panic ∧ Widths.interp w items ≠ .oof) ∧
    (∀ bs : List UInt8, CMap.parseCMap bs ≠ .oof) := by
  refine ⟨(Offsets.locate_total buf).1, (Offsets.locate_total buf).2,
    Offsets.openFile_returns P buf hP _ (Nat.le_refl _),
    fun start => Offsets.loadTable_returns P buf hP start _ (Nat.le_refl _),
    fun start t flags id => Offsets.resolveRef_returns_top P buf hP start t _ flags id (Nat.le_refl _),
    fun o => Offsets.rawData_returns buf o,
    fun start => Offsets.scan_returns P buf hP start,
    fun n first data i => C11.member_total n first data i,
    fun X fs data => Enc.decodeChain_never_panics X fs data,
    fun tolerant width pairs data => C14.xref_sections_total 64 tolerant width pairs data [],
    fun g tolerant k => ⟨C14.guarded_load_terminates g tolerant k, C14.guarded_load_never_panics g tolerant _ _ _⟩,
    fun w items => C19.interp_total w items,
    fun bs => C19.parse_cmap_total bs⟩

/-- The merge of any history of sections that the readers can deliver is total (C02). -/
theorem merge_total (size : Nat) (h : List (List Xref.Sub)) (hp : Xref.pairsOK (Xref.allPairs h.reverse)) :
    ∃ t, Xref.mergeAll (Xref.newTable size) h.reverse = .ok t ∧ t.length = size + 1 :=
  Xref.merge_total size h hp

/-- **The hypotheses of `open_core_total` are met by the byte-level models.** `Offsets.coreParsers` plugs together the
    models that exist once each — `XrefTable.readXrefAndTrailerAt` with both section formats, `parse_indirect_object`,
    `parse` (`Model/XrefFile`, `Model/XrefStreamRead`, `Model/OffsetsConcrete`) — and is total on every file a slice
    can hold, strict and tolerant, for parameters (typed reader of the xref stream dictionary, stream data, filter
    chain, `scan` items, resolver, decryption) that return `Ok` or `Err`. -/
theorem core_parsers_total {R : Type} (env : Env R) (typed : Dict R → Out XrefTable.XInfo)
    (sdata : Dict R → StreamInner → Out (List UInt8)) (allowErr : Bool)
    (dec : Dict R → List UInt8 → Out (List UInt8)) (S : List UInt8 → List (Out (Offsets.Obj (Prim R)))) (n : Nat)
    (hn : n ≤ Offsets.isizeMax) (hp : Offsets.ParamsOk env typed sdata dec S) :
    Offsets.TotalOn (Offsets.coreParsers env typed sdata allowErr dec S n) n :=
  Offsets.coreParsers_total env typed sdata allowErr dec S n hn hp

/-- **The composition on the concrete parsers, both section formats.** Opening ANY byte string (header, `startxref`,
    the `/Prev` walk over table and stream sections, merge) and resolving ANY object number through direct or
    compressed storage returns `Ok` or `Err`. The item loop of `Storage::scan` is a PARAMETER here (`S`, with the
    hypothesis `ParamsOk.scan` that its items return) and this statement says nothing about the scan;
    `open_core_total_scan` instantiates `S` with the concrete loop of `Model/ScanLoop.lean` and proves that hypothesis. -/
theorem open_core_total_concrete {R : Type} (env : Env R) (typed : Dict R → Out XrefTable.XInfo)
    (sdata : Dict R → StreamInner → Out (List UInt8)) (allowErr : Bool)
    (dec : Dict R → List UInt8 → Out (List UInt8)) (S : List UInt8 → List (Out (Offsets.Obj (Prim R))))
    (hp : Offsets.ParamsOk env typed sdata dec S) (buf : List UInt8) (hn : buf.length ≤ Offsets.isizeMax) :
    (Offsets.openFile (Offsets.coreParsers env typed sdata allowErr dec S buf.length) (buf.length + 2) buf).Returns ∧
    ∀ (start : Nat) (t : Xref.Table) (flags : Offsets.Flags) (id : Nat),
      (Offsets.resolveRef (Offsets.coreParsers env typed sdata allowErr dec S buf.length) buf start t
        (2 * t.length + 3) [] flags id).Returns := by
  have h := open_core_total _ buf (core_parsers_total env typed sdata allowErr dec S buf.length hn hp)
  exact ⟨h.2.2.1, h.2.2.2.2.1⟩

/-- **The recovery scan on the concrete lexer / parser** (`Model/ScanLoop.lean`, C17: the item loop of `Storage::scan`
    after the D26 repair). For EVERY slice: one call of the iterator's closure ends the iteration or yields an item
    (object, trailer, error) at a cursor strictly further inside the slice — it has no `Err` outcome of its own, never
    panics, and its `startxref … continue` recursion never uses up the fuel `len + 2`; so the iterator yields at most one
    item per byte and ends within `len + 1` calls (`ScanLoop.items` with fuel `len + 2` from cursor 0 is `Ok`). -/
theorem scan_loop_total {R : Type} (env : Env R) (henv : EnvOk env) (buf : Buf) (hs : RealSize buf) :
    (∀ (fuel pos : Nat), pos ≤ buf.size → buf.size - pos < fuel →
      (∃ p, ScanLoop.step env buf (defaultFuel buf) fuel pos = .ok (none, p)) ∨
      ∃ it q, ScanLoop.step env buf (defaultFuel buf) fuel pos = .ok (some it, q) ∧ pos < q ∧ q ≤ buf.size) ∧
    ∃ l, ScanLoop.items env buf (defaultFuel buf) (buf.size + 2) 0 = .ok l ∧ l.length ≤ buf.size := by
  refine ⟨ScanLoop.step_spec env henv buf hs, ?_⟩
  obtain ⟨l, hl, hn⟩ := ScanLoop.items_spec env henv buf hs (buf.size + 2) 0 (Nat.zero_le _) (by omega)
  exact ⟨l, hl, by simpa using hn⟩

/-- **The composition with the scan loop made concrete.** `open_core_total_concrete` takes the item loop of
    `Storage::scan` as a parameter `S` and *assumes* that its items return (`ParamsOk.scan`). Here `S` is
    `ScanLoop.scanItemsOf env`: the loop of `Model/ScanLoop.lean` on the concrete lexer / parser, where a `panic` or
    `oof` of the loop would be an item that does not return — and nothing is assumed about it: `scan_loop_total`
    discharges the hypothesis. Opening any byte string, resolving any object number AND the recovery scan (the call
    and every item it yields) return. Still parameters, assumed to return `Ok` or `Err`: the typed reader of a
    cross-reference stream dictionary, stream data, the filter chain of an object stream (`typed`, `sdata`, `dec`). -/
theorem open_core_total_scan {R : Type} (env : Env R) (typed : Dict R → Out XrefTable.XInfo)
    (sdata : Dict R → StreamInner → Out (List UInt8)) (allowErr : Bool) (dec : Dict R → List UInt8 → Out (List UInt8))
    (henv : EnvOk env) (htyped : ∀ d, Ret (typed d)) (hsdata : ∀ d i, Ret (sdata d i))
    (hdec : ∀ d raw, Ret (dec d raw) ∧ ∀ out, dec d raw = .ok out → out.length ≤ Offsets.isizeMax)
    (buf : List UInt8) (hn : buf.length ≤ Offsets.isizeMax) :
    let P := Offsets.coreParsers env typed sdata allowErr dec (ScanLoop.scanItemsOf env) buf.length
    (Offsets.openFile P (buf.length + 2) buf).Returns ∧
    (∀ (start : Nat) (t : Xref.Table) (flags : Offsets.Flags) (id : Nat),
      (Offsets.resolveRef P buf start t (2 * t.length + 3) [] flags id).Returns) ∧
    (∀ start, (Offsets.scan P buf start).Returns ∧
      ∀ items, Offsets.scan P buf start = .ok items → ∀ it ∈ items, it.Returns) ∧
    (∀ sl : List UInt8, (ScanLoop.scanItemsOf env sl).length ≤ sl.length) := by
  intro P
  have hp := ScanLoop.paramsOk_scan env typed sdata dec henv htyped hsdata hdec
  have hT := core_parsers_total env typed sdata allowErr dec (ScanLoop.scanItemsOf env) buf.length hn hp
  have h := open_core_total_concrete env typed sdata allowErr dec (ScanLoop.scanItemsOf env) hp buf hn
  exact ⟨h.1, h.2, fun start => Offsets.scan_returns P buf hT start,
    fun sl => (ScanLoop.scanItemsOf_spec env henv sl).2⟩

/-- **… and on a well-formed chain it is the real `/Prev` walk** (`Props/C02.walk_visits_chain`, here for the concrete
    parsers): totality says the walk always comes back; on a chain `newest :: older` of sections that the concrete
    reader returns at their offsets, linked through `/Prev`, it comes back with exactly the merge of the chain,
    newest first, and the newest trailer — using `older.length ≤ len` rounds of the loop. -/
theorem open_walk_concrete {R : Type} (env : Env R) (typed : Dict R → Out XrefTable.XInfo)
    (sdata : Dict R → StreamInner → Out (List UInt8)) (allowErr : Bool)
    (dec : Dict R → List UInt8 → Out (List UInt8)) (S : List UInt8 → List (Out (Offsets.Obj (Prim R))))
    (buf : List UInt8) (start fuel : Nat) (newest : Offsets.Rev (Dict R)) (older : List (Offsets.Rev (Dict R))) (size : Nat)
    (hx : Offsets.locateXref buf = .ok newest.off) (hin : start + newest.off < buf.length)
    (hfit : start + newest.off ≤ OffLex.usizeMax)
    (hnew : (Offsets.coreParsers env typed sdata allowErr dec S buf.length).xrefAt (buf.drop (start + newest.off))
        = .ok (newest.subs, newest.trailer))
    (hsize : (Offsets.coreParsers env typed sdata allowErr dec S buf.length).sizeOf newest.trailer = .ok size)
    (hmax : size ≤ Offsets.maxId)
    (hread : ∀ r ∈ older, Offsets.ReadsAt (Offsets.coreParsers env typed sdata allowErr dec S buf.length) buf start r)
    (hlink : Offsets.Linked (Offsets.coreParsers env typed sdata allowErr dec S buf.length) (newest :: older))
    (hnd : (older.map (·.off)).Nodup) (hfuel : older.length ≤ fuel) :
    Offsets.loadTable (Offsets.coreParsers env typed sdata allowErr dec S buf.length) fuel buf start
      = Offsets.withTrailer newest.trailer (Xref.mergeAll (Xref.newTable size) ((newest :: older).map (·.subs))) :=
  Xref.walk_visits_chain _ buf start fuel newest older size hx hin hfit hnew hsize hmax hread hlink hnd hfuel

-- ===================================================================================================
-- 7. the typed layer: derive-generated loaders

/-- **`derived_reader_total`.** The reader that `#[derive(Object)]` generates for a struct (`Model/Derive.readStruct`:
    the `/Type` test, the checks, the fields in declaration order with `default`, catch-all and error wrapping, on top of
    the container impls `Option` / `Vec` / `HashMap` / pair / `Box` / `MaybeRef` / `RcRef` / `Ref` / `Lazy`) returns a
    value or an error of the implementation — never the model's `oof`; the model has no panic outcome, none of these
    functions indexes, unwraps or computes — for EVERY schema, every input primitive, strict and tolerant, given
    readers of the leaf shapes and default expressions that do (`SchemaOk`) and a resolver that does (`EnvOk`). -/
theorem derived_reader_total (cfg : Derive.Cfg) (sem : Derive.Sem) (env : Derive.Env) (he : Derive.EnvOk env)
    (S : Derive.Schema) (hS : Derive.SchemaOk sem env S) (p : Derive.Prim) (hp : p.plain = true) :
    Derive.Clean (Derive.readStruct cfg sem env S p) :=
  Derive.readStruct_clean cfg sem he S hS p hp

/-- The derived enum readers (name enums with an `other` variant, integer enums). -/
theorem derived_enum_total (env : Derive.Env) (he : Derive.EnvOk env) (S : Derive.Schema) (p : Derive.Prim)
    (hp : p.plain = true) : Derive.Clean (Derive.readEnum env S p) :=
  Derive.readEnum_clean he S p hp

/-- **Over the generated schemas.** Reading ANY primitive as ANY of the derived models extracted from `pdf/src` (60 at
    this commit; regenerated from the source on every run), to ANY nesting budget `n`, through all nested derived
    models, `PagesNode` / `PagesRc` / `PageRc` and every `default = ".."`, is a value or an error — given readers `hand` of
    the hand-written shapes (`Derive.isHand`) that are. `hreg` is the decidable `RegistryOk` of the generated data (every
    default is of a form that evaluates; `Page` and `PageTree` exist): Lean's kernel cannot run `String.toInt?` /
    `splitOn`, so it is an explicit hypothesis here and is evaluated by the compiled model driver on every run
    (stream `c01.registry`). -/
theorem typed_registry_total (cfg : Derive.Cfg) (hreg : Derive.RegistryOk Generated.generatedSchemas)
    (hand : Derive.Env → Derive.Shape → Derive.Prim → Derive.R Derive.Val)
    (hhand : ∀ env, Derive.EnvOk env → ∀ s p, p.plain = true → Derive.Clean (hand env s p))
    (n : Nat) (env : Derive.Env) (he : Derive.EnvOk env) (S : Derive.Schema) (hS : S ∈ Generated.generatedSchemas)
    (p : Derive.Prim) (hp : p.plain = true) :
    Derive.Clean ((Derive.semH cfg Generated.generatedSchemas hand (n + 1)).rd env (.model S.name) p) ∧
    Derive.Clean (Derive.readStruct cfg (Derive.semH cfg Generated.generatedSchemas hand n) env S p) := by
  refine ⟨Derive.semH_clean cfg _ hreg hand hhand (n + 1) env he _ p hp, ?_⟩
  exact Derive.readStruct_clean cfg _ he S
    (Derive.schemaOk_of cfg _ hand n env (fun s q hq => Derive.semH_clean cfg _ hreg hand hhand n env he s q hq) S
      (hreg.dflt S hS)) p hp

/-- The registry has the four derived models `Font::from_primitive` dispatches to (`FontType`, `Type0Font`, `TFont`,
    `CIDFont`). -/
theorem generated_font_schemas : (Derive.fontSchemas Generated.generatedSchemas).isSome = true := by decide +kernel

/-- **Typed load of any object terminates without panic: derived schema OR one of the modelled hand-written readers.**
    Two theorems about the same code, side by side.

    *Values.* `Derive.semM` (`Model/HandTower`) is the typed layer with everything that has a model on primitives plugged
    in: the derived struct / enum readers over the generated schemas, `PagesNode` / `PagesRc` / `PageRc`, and the
    hand-written `Date`, `Dest`, `Action`, `NumberTree<T>`, `NameTree<T>`, `ColorSpace` and `Font` (`typed_load_uses_models`
    says which model reads which shape). At EVERY nesting budget `n`, for every shape, every plain primitive, strict and
    tolerant, it returns a value or an error — never `oof`; a used-up budget is the guard's `Err`. What is left as a
    parameter (`other`) are the hand-written readers of *stream objects* (`Stream<T>`, `XObject`, `Pattern`,
    `CidToGidMap`, `AppearanceStreamEntry`, `Content`): `Derive.Prim` leaves streams out; their models are on
    `Derive.TPrim` / `APrim` and are total there (`stream_readers_total`, `content_typed_total`).

    *Control.* The nested loads (`StorageResolver::get`: recursion guard, 64 nested gets; `Model/TypedLoad`, C14) return
    on every object graph — cyclic, self-referential, dangling — with fuel `objects + 1`.

    What links the two is not proved: that the budget `n` of the value model is the guard of the control model (64 gets
    × at most `MAX_DEPTH` = 20 directly nested dictionaries per object, `parse_nesting_bounded`). -/
theorem typed_load_total (cfg : Derive.Cfg) (hreg : Derive.RegistryOk Generated.generatedSchemas)
    (other : Derive.Env → Derive.Shape → Derive.Prim → Derive.R Derive.Val)
    (hother : ∀ env, Derive.EnvOk env → ∀ s p, p.plain = true → Derive.Clean (other env s p)) :
    (∀ (n : Nat) (env : Derive.Env), Derive.EnvOk env → ∀ (s : Derive.Shape) (p : Derive.Prim), p.plain = true →
        Derive.Clean ((Derive.semM cfg Generated.generatedSchemas other n).rd env s p)) ∧
    (∀ (g : TypedLoad.Graph) (tolerant : Bool) (k : Nat),
        TypedLoad.load g tolerant (g.length + 1) [] k ≠ .oof ∧ TypedLoad.load g tolerant (g.length + 1) [] k ≠ .panic) :=
  ⟨Derive.semM_clean cfg _ hreg generated_font_schemas other hother,
   fun g tolerant k => ⟨C14.guarded_load_terminates g tolerant k, C14.guarded_load_never_panics g tolerant _ _ _⟩⟩

/-- which model reads which hand-written shape of the generated schemas (above the bottom level of the tower) -/
theorem typed_load_uses_models (cfg : Derive.Cfg) (other : Derive.Env → Derive.Shape → Derive.Prim → Derive.R Derive.Val)
    (n : Nat) (env : Derive.Env) (p : Derive.Prim) :
    let G := Generated.generatedSchemas
    let below := Derive.semM cfg G other n
    let rd := (Derive.semM cfg G other (n + 1)).rd env
    rd (.leaf "Date") p = Derive.readDateP env p ∧
    rd (.leaf "Dest") p = (Derive.readDest env p).map Derive.destVal ∧
    rd (.leaf "Action") p = Derive.readAction (Derive.readDestP env) env p ∧
    rd (.leaf "ColorSpace") p = (CSLoad.csLoad { env := env, streams := fun _ => none } p).map Derive.csVal ∧
    (∀ S, Derive.fontSchemas G = some S →
      rd (.leaf "Font") p = (FontLoad.readFont cfg below S env p).map Derive.fontVal) ∧
    (∀ t, rd (.leafApp "NumberTree" t) p
      = (Derive.readNumTree (Derive.readShape cfg below env t) env p).map Derive.numTreeVal) ∧
    (∀ t, rd (.leafApp "NameTree" t) p
      = (Derive.readNameTree (Derive.readShape cfg below env t) env p).map Derive.nameTreeVal) ∧
    rd (.leafApp "Stream" (.leaf "()")) p = other env (.leafApp "Stream" (.leaf "()")) p := by
  intro G below rd
  have hD : Derive.isHand G (.leaf "Date") = true := by decide +kernel
  have hDe : Derive.isHand G (.leaf "Dest") = true := by decide +kernel
  have hA : Derive.isHand G (.leaf "Action") = true := by decide +kernel
  have hC : Derive.isHand G (.leaf "ColorSpace") = true := by decide +kernel
  have hF : Derive.isHand G (.leaf "Font") = true := by decide +kernel
  refine ⟨?_, ?_, ?_, ?_, ?_, ?_, ?_, ?_⟩
  · simp [rd, G, Derive.semM, hD, Derive.isModelledHand, Derive.handM]
  · simp [rd, G, Derive.semM, hDe, Derive.isModelledHand, Derive.handM, Derive.readDestP]
  · simp [rd, G, Derive.semM, hA, Derive.isModelledHand, Derive.handM]
  · simp [rd, G, Derive.semM, hC, Derive.isModelledHand, Derive.handM, Derive.readColorSpaceP, CSLoad.csLoad]
  · intro S hS
    have hS' : Derive.fontSchemas Generated.generatedSchemas = some S := hS
    simp [rd, below, G, Derive.semM, hF, Derive.isModelledHand, Derive.handM, hS']
  · intro t; simp [rd, below, G, Derive.semM, Derive.isHand, Derive.isModelledHand, Derive.handM]
  · intro t; simp [rd, below, G, Derive.semM, Derive.isHand, Derive.isModelledHand, Derive.handM]
  · simp [rd, G, Derive.semM, Derive.isHand, Derive.isModelledHand]

-- ===================================================================================================
-- 7b. the typed layer: hand-written readers, each on ARBITRARY input

/-- **`Date::from_primitive`** (byte-level model `DateRead.readDate`, this package): on EVERY byte string a date or
    `Err`. The three slicing expressions `&s[p..p+1]`, `&s[..p]`, `&s[p+1..]` would panic off a character boundary; `p` is
    the position of an ASCII sign in a string that passed `str::from_utf8`, and both sides of an ASCII byte of a
    well-formed string are boundaries (`DateRead.boundary_around_ascii`). The `unreachable!()` is unreachable; the fields
    fit their types (`u16`, `u8`). -/
theorem date_total (data : List UInt8) :
    (DateRead.readDate data).Returns ∧
    ∀ d, DateRead.readDate data = .ok d →
      d.year ≤ 65535 ∧ d.month ≤ 255 ∧ d.day ≤ 255 ∧ d.hour ≤ 255 ∧ d.minute ≤ 255 ∧ d.second ≤ 255 ∧
      d.rel ≤ 2 ∧ d.tzHour ≤ 255 ∧ d.tzMinute ≤ 255 := by
  exact ⟨DateRead.readDate_total data, fun d h => DateRead.readDate_bounds data d h⟩

/-- **`Dest`, `MaybeNamedDest`, `Action`** (`Model/Handwritten*.lean`, C15): every primitive, every resolver that answers
    with a value or an error. No indexing beyond `array.get(i)`, no arithmetic: values or errors. -/
theorem dest_action_total (env : Derive.Env) (hc : ∀ id, Derive.Clean (env.resolve id)) (p : Derive.Prim) :
    Derive.Clean (Derive.readDest env p) ∧
    Derive.Clean (Derive.readNamedDestV env p) ∧
    (∀ xs, Derive.Clean (Derive.readDestArr env.tolerant xs)) ∧
    (∀ rdDest : Derive.Prim → Derive.R Derive.Val, (∀ q, Derive.Clean (rdDest q)) →
      Derive.Clean (Derive.readNamedDest rdDest env p) ∧ Derive.Clean (Derive.readAction rdDest env p)) :=
  ⟨Derive.readDest_clean hc p, Derive.readNamedDestV_clean hc p, fun xs => Derive.readDestArr_clean _ xs,
   fun rdDest hd => ⟨Derive.readNamedDest_clean hc rdDest hd p, Derive.readAction_clean hc rdDest hd p⟩⟩

/-- **`NumberTree<T>` / `NameTree<T>::from_primitive`** (one node; C15's model): every primitive, given a reader of `T`
    that answers. The walk over the kids is `tree_walks_bounded`. -/
theorem tree_node_total (env : Derive.Env) (he : Derive.EnvOk env) (rdT : Derive.Prim → Derive.R Derive.Val)
    (h : ∀ v, v.plain = true → Derive.Clean (rdT v)) (p : Derive.Prim) (hp : p.plain = true) :
    Derive.Clean (Derive.readNumTree rdT env p) ∧ Derive.Clean (Derive.readNameTree rdT env p) :=
  ⟨Derive.readNumTree_clean_plain he rdT h p hp, Derive.readNameTree_clean_plain he rdT h p hp⟩

/-- **Name / number tree walks and the page lookup** (`Model/TypedLoad`, C14; corollaries of `C14.walk_total`,
    `C14.walk_work_linear`, `C14.page_total`). Three conjuncts: (1) a tree walk returns on every graph — cyclic, shared,
    dangling (the model recurses on the depth budget and has no fuel: "never `oof`" holds by construction there, the
    content is "never `panic`" and (2)); (2) the bound the name promises, for tree walks only: if every kid number is
    below `B`, a walk makes at most `B` gets and enters no node twice, whether it ends with a value or an error; (3) the
    page lookup returns for every table, `/Count` and `/Kids` — totality only, no bound on its work is stated here. -/
theorem tree_walks_bounded :
    (∀ (g : List TypedLoad.TNode) (root : TypedLoad.TNode),
      (TypedLoad.walkTree g root).out ≠ .panic ∧ (TypedLoad.walkTree g root).out ≠ .oof) ∧
    (∀ (g : List TypedLoad.TNode) (root : TypedLoad.TNode) (B : Nat),
      (∀ node ∈ g, ∀ kid ∈ TypedLoad.kidsOf node, kid < B) → (∀ kid ∈ TypedLoad.kidsOf root, kid < B) →
      (TypedLoad.walkTree g root).st.gets ≤ B ∧ (TypedLoad.walkTree g root).st.visited.Nodup) ∧
    (∀ (g : List TypedLoad.PNode) (kids : List Nat) (n : Nat),
      (TypedLoad.page g true kids n).out ≠ .panic ∧ (TypedLoad.page g true kids n).out ≠ .oof) :=
  ⟨fun g root => C14.walk_total g root, fun g root B hg hr => C14.walk_work_linear g root B hg hr,
   fun g kids n => C14.page_total g kids n⟩

/-- **The readers of stream objects** (`CidToGidMap`, `Pattern`, `XObject` dispatch, `AppearanceStreamEntry`; C15's
    models on `TPrim` / `APrim`): every input. `unfiltered`: a stream handed to `unitStreamData` has a direct `/Length`
    and no filter — with filters `Stream::data` runs the decoders, `stream_decoders_total`. `AppearanceStreamEntry`:
    for EVERY nesting budget — a used-up budget is the error "nested too deeply". -/
theorem stream_readers_total :
    (∀ t : Derive.TPrim, t.unfiltered → Derive.Clean (Derive.readCidMap t)) ∧
    (∀ (rdDict : Derive.Dict → Derive.R Derive.Val) (parseOps : List UInt8 → Derive.R (List UInt8)),
      (∀ d, Derive.Clean (rdDict d)) → (∀ b, Derive.Clean (parseOps b)) →
      ∀ t : Derive.TPrim, t.unfiltered → Derive.Clean (Derive.readPattern rdDict parseOps t)) ∧
    (∀ (variants : List Derive.Variant) (rdInner : String → Derive.Dict → List UInt8 → Derive.R Derive.Val),
      (∀ s d b, Derive.Clean (rdInner s d b)) → ∀ t, Derive.Clean (Derive.readXObject variants rdInner t)) ∧
    (∀ (rdForm : Derive.Dict → List UInt8 → Derive.R Derive.Val), (∀ d b, Derive.Clean (rdForm d b)) →
      ∀ (n : Nat) (a : Derive.APrim), Derive.Clean (Derive.readASE rdForm n a)) :=
  ⟨fun t h => Derive.readCidMap_clean t h,
   fun rdDict parseOps hd hp t h => Derive.readPattern_clean rdDict parseOps hd hp t h,
   fun variants rdInner hi t => Derive.readXObject_clean variants rdInner hi t,
   fun rdForm hf n a => Derive.readASE_clean rdForm hf n a⟩

/-- the nesting budget of appearance entries and colour spaces over abstract object graphs (C14) -/
theorem nesting_budgets_total :
    (∀ (g : List TypedLoad.CObj) (k : Nat), TypedLoad.csLoad g 5 k ≠ .panic ∧ TypedLoad.csLoad g 5 k ≠ .oof) ∧
    (∀ (g : List TypedLoad.AObj) (k : Nat), TypedLoad.apLoad g 2 k ≠ .panic ∧ TypedLoad.apLoad g 2 k ≠ .oof) :=
  ⟨fun g k => C14.colorspace_total g k, fun g k => C14.appearance_total g k⟩

/-- **`Encoding::from_primitive`** (C15 / C19 models): every primitive. The `/Differences` loop is total — `gid + 1` is a
    checked addition, a code of −1 is an error, not an overflow (`Numeric.differences`, C14, is the same loop over
    numbers) — and one unit of fuel for the reference is enough. -/
theorem encoding_total (env : Derive.Env) (he : Derive.EnvOk env) (n : Nat) (p : Derive.Prim) :
    Derive.Clean (Derive.readEncoding env (n + 1) p) ∧
    (∀ (gid : Nat) (xs : List (FontEncoding.DP String)) (m : FontEncoding.DMap String),
      (FontEncoding.readDiffs gid xs m).Returns) ∧
    (∀ (parts : List Numeric.DPart) (gid : Nat) (m : List (Nat × Nat)),
      Numeric.differences true parts gid m ≠ .panic ∧ Numeric.differences true parts gid m ≠ .oof) :=
  ⟨Derive.readEncoding_clean he n p, fun gid xs m => Derive.readDiffs_returns gid xs m,
   fun parts gid m => C14.differences_total parts gid m⟩

/-- **`ColorSpace::from_primitive_depth`** (`Model/ColorSpaceLoad`, this package): EVERY budget, every plain primitive,
    every object table with plain objects and streams. All families; `get_index` never indexes (`Err(Bounds)`), `hival`
    is a `u8` by test, `depth - 1` is behind `depth == 0`. The value nests base / alternate spaces at most `depth` deep.
    The three loaders it hands over to (tint `Function`, `RcRef<Stream<IccInfo>>`, `Vec<Name>`) are recorded, not run:
    `cs.subs`. -/
theorem colorspace_load_total (se : CSLoad.SEnv) (he : Derive.EnvOk se.env) (depth : Nat) (p : Derive.Prim)
    (hp : p.plain = true) :
    Derive.Clean (CSLoad.csRead se depth p) ∧
    (∀ cs, CSLoad.csRead se depth p = .ok cs → cs.nesting ≤ depth) ∧
    (∀ h n, CSLoad.asU8 h = .ok n → n < 256) :=
  ⟨CSLoad.csRead_clean he depth p hp, fun cs h => CSLoad.csRead_nesting se depth p cs h,
   fun h n hn => CSLoad.asU8_range h n hn⟩

/-- **`Font::from_primitive`** (`Model/FontLoad`, this package): the dispatch on `/Subtype`, the `/BaseFont` rule,
    `/Encoding`, the cut of `/DescendantFonts` to one element answer on every plain primitive (`fontPlan`), and what the
    plan hands on is plain; run through the derived readers of `Type0Font` / `TFont` / `CIDFont` and the reader of
    `/ToUnicode` (`readFont`) it answers whenever the leaf readers one level down do (`SemOk`; in the tower:
    `typed_load_total`). -/
theorem font_load_total (cfg : Derive.Cfg) (sem : Derive.Sem) (S : FontLoad.Schemas) (env : Derive.Env)
    (he : Derive.EnvOk env) (p : Derive.Prim) (hp : p.plain = true) :
    Derive.Clean (FontLoad.fontPlan env S.fontType p) ∧
    (FontLoad.SemOk sem S env → Derive.Clean (FontLoad.readFont cfg sem S env p)) :=
  ⟨(FontLoad.fontPlan_spec he S.fontType p hp).1, fun hs => FontLoad.readFont_clean cfg sem S he hs p hp⟩

-- ===================================================================================================
-- 7c. what the accessors of a loaded object run on attacker-controlled data (models of C05, C06, C08, C14, C19)

/-- **`Font::widths`** (`Model/Widths`, C19): the `/W` interpreter and the per-subtype dispatch answer on EVERY array —
    runs past `MAX_CID`, descending ranges, non-numbers, a composite font over a composite font. -/
theorem font_widths_total {α : Type} (zero : α) :
    (∀ (w : Widths.Widths α) (items : List (Widths.WP α)), (Widths.interp w items).Returns) ∧
    (∀ f : Widths.FontM α, (Widths.widthsOf zero f).Returns) := by
  refine ⟨fun w items => C19.interp_total w items, fun f => ?_⟩
  fun_induction Widths.widthsOf zero f with
  | case1 => simp [Out.Returns]
  | case2 d ds ih => exact ih
  | case3 => simp [Out.Returns]
  | case4 => simp [Out.Returns]
  | case5 dw w t h => simp [Out.Returns]
  | case6 dw w h => simp [Out.Returns]
  | case7 dw w h => exact absurd h (C19.interp_total (Widths.Widths.new dw) w).1
  | case8 dw w h => exact absurd h (C19.interp_total (Widths.Widths.new dw) w).2
  | case9 => simp [Out.Returns]

/-- **`Font::to_unicode` → `parse_cmap`** (`Model/CMap`, C19): the reader model answers on every byte string — a map,
    `Err`, or "outside the modelled fragment" — and the fuel `len + 1` is never the reason (the model has no panic
    outcome: no indexing, `checked` code arithmetic). -/
theorem cmap_total (bs : CMap.Bytes) : CMap.parseCMap bs ≠ .oof := C19.parse_cmap_total bs

/-- **`Stream::data` → the filters** (`Model/Enc`, `Model/Lzw`, C05): every decoder and every chain on every byte
    string, every parameter set, whatever the third-party decompressors return; LZW with both `EarlyChange` settings;
    undoing a predictor for every `/Predictor /Colors /BitsPerComponent /Columns`; the fax geometry. -/
theorem stream_decoders_total :
    (∀ (X : Enc.Ext) (fs : List Enc.Filter) (data : Enc.Bytes), (Enc.decodeChain X data fs).Returns) ∧
    (∀ (X : Enc.Ext) (data : Enc.Bytes) (f : Enc.Filter), (Enc.decode X data f).Returns) ∧
    (∀ (early : Bool) (data : Enc.Bytes), (Lzw.decode early data).Returns) ∧
    (∀ (decoded : Enc.Bytes) (p : Enc.Params), Enc.unpredict decoded p ≠ .panic ∧ Enc.unpredict decoded p ≠ .oof) ∧
    (∀ c r, Numeric.faxDims true c r ≠ .panic ∧ Numeric.faxDims true c r ≠ .oof) ∧
    (∀ columns rows dataLen c r, Numeric.faxDimsData columns rows dataLen = .ok (c, r) → c ≤ 65535 ∧ r ≤ 8 * dataLen) :=
  ⟨fun X fs data => Enc.decodeChain_never_panics X fs data, fun X data f => Enc.decode_never_panics X data f,
   fun early data => Enc.lzw_decode_never_panics early data, fun d p => C14.unpredict_total d p,
   fun c r => C14.fax_dims_total c r, fun columns rows dataLen c r h => C14.fax_output_bounded columns rows dataLen c r h⟩

/-- **Decryption** (`Model/Crypt`, C06; key lengths: `Model/Numeric`, C14): `Decoder::decrypt` on ARBITRARY ciphertext,
    object number and generation returns a plaintext or `DecryptionFailure` — given hash / block primitives that are
    functions with the digest lengths of MD5 and AES, a cipher method (`Decoder::new` builds no other) and a key of at
    least `min(key_size, 16)` bytes, which is what `from_password` hands over for EVERY `/Length`, `/R` and crypt filter
    (`keySchedule`, `objectKeySlices`, `cfKeyBits`). -/
theorem decrypt_total {P : Crypt.Prims} {H : StdSec.Hashes} (hp : StdSec.PrimsAgree P H) (hw : H.WF) :
    (∀ (d : Crypt.Decoder), d.method ≠ .none → min d.keySize 16 ≤ d.key.length →
      ∀ (id gen : Nat) (data : Crypt.Bytes), (Crypt.decrypt P d id gen data).Returns) ∧
    (∀ revision keyBits userOk,
      Numeric.keySchedule true revision keyBits userOk ≠ .panic ∧ Numeric.keySchedule true revision keyBits userOk ≠ .oof) ∧
    (∀ aes keySize keyLen, min keySize 16 ≤ keyLen →
      Numeric.objectKeySlices aes keySize keyLen ≠ .panic ∧ Numeric.objectKeySlices aes keySize keyLen ≠ .oof) ∧
    (∀ n, Numeric.cfKeyBits true n ≠ .panic ∧ Numeric.cfKeyBits true n ≠ .oof) ∧
    (∀ (d : Crypt.CryptDict) (id pass : Crypt.Bytes) (level keyBits : Nat) (m : Crypt.Method),
      Crypt.fromPasswordRc4 P d id pass level keyBits m ≠ .panic ∧ Crypt.fromPasswordRc4 P d id pass level keyBits m ≠ .oof) :=
  ⟨fun d hm hk id gen data => Crypt.decrypt_total hp hw d hm hk id gen data,
   fun revision keyBits userOk => C14.key_schedule_total revision keyBits userOk,
   fun aes keySize keyLen h => C14.object_key_total aes keySize keyLen h,
   fun n => C14.cf_key_bits_total n,
   fun d id pass level keyBits m => C14.from_password_rc4_total hp hw d id pass level keyBits m⟩

/-- **`content::parse_ops` WITH the typed conversion of the operators** (`Model/ContentBytes.parseBytes` over
    `Model/Content.add`, C08: all 73 operators, their operand conversions and the graphics-state bookkeeping): the
    operations or `Err` for EVERY byte string, strict and `allow_invalid_ops`, within `len + 1` rounds — `content_total`
    with the oracle "the operands convert" replaced by the conversion itself. `ImgOk`: the inline-image reader below
    stays inside the data, which is `inline_image_total`. -/
theorem content_typed_total {R : Type} (ro : Content.RealOps R) (env : Env R) (henv : EnvOk env)
    (o : ContentBytes.Oracle) (ho : ContentBytes.ImgOk o) (allow : Bool) (data : List UInt8)
    (hs : RealSize data.toArray) : (ContentBytes.parseBytes ro env o allow data).Returns :=
  ContentBytes.parseBytes_total ro env henv o ho allow data hs

/-- the inline-image reader of `Model/ContentLoop` (`inline_image`'s position arithmetic, `inline_image_total`) as the
    `inlineImage` field of C08's oracle: the image is identified by where its data starts -/
def imgReader {R : Type} (env : Env R) (o : Oracle) (buf : Buf) (pos : Nat) : Out (Option Nat × Nat) :=
  if buf.size ≤ 9223372036854775807 then          -- `RealSize`: no Rust slice is longer than `isize::MAX`
    match inlineImage env buf o pos with
    | .ok ((true, p), some s) => .ok (some s.1, p)
    | .ok ((_, p), _) => .ok (none, p)
    | .err => .err
    | .panic => .panic
    | .oof => .oof
  else .err

/-- **`ImgOk` is what `inline_image_total` proves**: the hypothesis of `content_typed_total` about the inline-image reader
    holds for the model of `inline_image` with ANY classification oracle, so for that reader `content_typed_total` has no
    assumption left about images. (`isEof`, the error-kind oracle, stays arbitrary.) -/
theorem inline_image_img_ok {R : Type} (env : Env R) (henv : EnvOk env) (o : Oracle) (isEof : Buf → Nat → Bool) :
    ContentBytes.ImgOk { isEof := isEof, inlineImage := imgReader env o } := by
  intro buf pos h
  show imgReader env o buf pos = .err ∨ ∃ img q, imgReader env o buf pos = .ok (img, q) ∧ pos ≤ q ∧ q ≤ buf.size
  unfold imgReader
  split
  · rename_i hsz
    obtain ⟨b, p, d, hp, h1, h2, _⟩ := inline_image_total env henv buf hsz o pos h
    right
    rw [hp]
    cases b <;> cases d <;> exact ⟨_, p, rfl, h1, h2⟩
  · left; rfl

/-- `content_typed_total` with the inline-image reader made concrete: no hypothesis about images is left -/
theorem content_typed_total_concrete {R : Type} (ro : Content.RealOps R) (env : Env R) (henv : EnvOk env) (o : Oracle)
    (isEof : Buf → Nat → Bool) (allow : Bool) (data : List UInt8) (hs : RealSize data.toArray) :
    (ContentBytes.parseBytes ro env { isEof := isEof, inlineImage := imgReader env o } allow data).Returns :=
  content_typed_total ro env henv _ (inline_image_img_ok env henv o isEof) allow data hs

/-- **Functions** (`Model/Numeric`, C14): the PostScript calculator body parser and the interpreter's stack
    arithmetic answer on every token list / every operator list and input. Sampled (type 0) and stitching functions
    beyond the clamp repaired in 28a4efa are walker-only. -/
theorem function_eval_total :
    (∀ s, Numeric.psBody true s ≠ .panic ∧ Numeric.psBody true s ≠ .oof) ∧
    (∀ {V : Type} (A : Numeric.Arith V) (ops : List (Numeric.PsOp V)) (input : List V) (outLen : Nat),
      Numeric.exec A true ops input outLen ≠ .panic ∧ Numeric.exec A true ops input outLen ≠ .oof) :=
  ⟨fun s => C14.ps_body_total s, fun A ops input outLen => C14.ps_exec_total A ops input outLen⟩

-- ===================================================================================================
-- 8. resources

/-- **`read_core_linear`: the step bounds of the read core, in one place.** Wherever the model of a loop or a recursion
    has fuel, the fuel that never runs out is an explicit linear function of the input (`len` = bytes of the file /
    buffer, `data` = bytes a stream decodes to, `objects` = entries of the tables involved); where the model recurses
    structurally, what it produces is bounded by what it consumes:

    1. object parser: `3·len + 64` levels of recursion / loop rounds for `parse` from any cursor (and a successful parse
       consumes ≥ 1 byte; values nest ≤ 20);
    2. string lexers: `bytes left + 2` lexemes, `bytes left + 1` loop rounds per lexeme;
    3. content stream: ≤ `len + 1` rounds of `OpBuilder::parse`, each round one `parse` (1.) — the rounds are linear, a
       round's parse is linear in what lies ahead; that the total is ≤ `(MAX_DEPTH + 1)·len` follows from the nesting
       limit but is not proved here;
    4. classic cross-reference section: ≤ `len + 1` subsections, and `n` entries cost ≥ `3 n` bytes whatever the header
       claims;
    5. cross-reference stream section: never more entries than decoded bytes;
    6. the `/Prev` walk: `len + 2` rounds (on a well-formed chain exactly its length: `open_walk_concrete`), and the table it
       returns has ≤ `MAX_ID + 1` = 1 000 001 slots whatever `/Size` says;
    7. resolving an object: `2·(table length) + 3` nested calls;
    8. typed loads: `objects + 1` nested gets, and never more than 64 (the guard's depth limit);
    9. name / number tree walks: ≤ `B` gets for kid numbers below `B`, no node entered twice; page lookup: ≤ `16·m` gets
       for `/Kids` arrays of ≤ `m` entries (C14).
    The walker's limits (10 s per document in the quick tier, 8 MiB stack, 1.5 GiB address space) are generous
    stand-ins for these bounds; what the bounds do not cover is named in the claim (third-party decoders, the
    hand-written loaders, allocation sizes). -/
theorem read_core_linear {R : Type} (env : Env R) (henv : EnvOk env) (buf : Buf) (hs : RealSize buf) :
    -- 1
    (∀ pos flags, pos ≤ buf.size → parseWithLexer env buf (3 * buf.size + 64) pos flags ≠ .oof) ∧
    -- 2
    (∀ pos, pos ≤ buf.size → collectString buf (buf.size - pos + 2) pos 0 [] ≠ .oof ∧
        collectHex buf pos (buf.size - pos + 2) pos [] ≠ .oof) ∧
    -- 3
    (∀ (o : Oracle) (allow : Bool), contentLoop env buf o allow (buf.size + 1) 0 ≠ .oof) ∧
    -- 4
    (∀ pos, pos ≤ buf.size → XrefTable.tableLoop buf (buf.size + 1) pos [] ≠ .oof) ∧
    (∀ n pos es q, pos ≤ buf.size → XrefTable.entryLoop buf n pos [] = .ok (es, q) → 3 * es.length ≤ q - pos ∧ q ≤ buf.size) ∧
    -- 5
    (∀ first n width data allowErr s rest, Xref.parseSection first n width data allowErr = .ok (s, rest) →
        s.entries.length ≤ data.length) ∧
    -- 6
    (∀ {V T : Type} (P : Offsets.Parsers V T) (bytes : List UInt8) (hP : Offsets.TotalOn P bytes.length) (start : Nat),
        Offsets.loadTable P (bytes.length + 2) bytes start ≠ .oof ∧
        ∀ t tr, Offsets.loadTable P (bytes.length + 2) bytes start = .ok (t, tr) → t.length ≤ Offsets.maxId + 1) ∧
    -- 7
    (∀ {V T : Type} (P : Offsets.Parsers V T) (bytes : List UInt8) (hP : Offsets.TotalOn P bytes.length)
        (start : Nat) (t : Xref.Table) (flags : Offsets.Flags) (id : Nat),
        Offsets.resolveRef P bytes start t (2 * t.length + 3) [] flags id ≠ .oof) ∧
    -- 8
    (∀ (g : TypedLoad.Graph) (tolerant : Bool) (k : Nat),
        TypedLoad.load g tolerant (g.length + 1) [] k ≠ .oof ∧ TypedLoad.load g tolerant (TypedLoad.maxNest + 1) [] k ≠ .oof) ∧
    -- 9
    (∀ (g : List TypedLoad.TNode) (root : TypedLoad.TNode) (B : Nat),
        (∀ node ∈ g, ∀ kid ∈ TypedLoad.kidsOf node, kid < B) → (∀ kid ∈ TypedLoad.kidsOf root, kid < B) →
        (TypedLoad.walkTree g root).st.gets ≤ B) ∧
    (∀ (g : List TypedLoad.PNode) (m : Nat), (∀ kids count, TypedLoad.PNode.tree kids count ∈ g → kids.length ≤ m) →
        ∀ kids, kids.length ≤ m → ∀ n, (TypedLoad.page g true kids n).gets ≤ 16 * m) := by
  refine ⟨?_, ?_, ?_, ?_, ?_, ?_, ?_, ?_, ?_, ?_, ?_⟩
  · intro pos flags h
    exact (parseWithLexer_good env henv buf hs _ pos flags h (by omega)).ret.ne_oof
  · intro pos h
    constructor
    · have hm : (0 : Int) + ((buf.size - pos : Nat) : Int) ≤ i64Max := by unfold RealSize at hs; unfold i64Max; omega
      rcases collectString_spec buf (buf.size - pos + 2) pos 0 [] h (Int.le_refl 0) hm (by omega) with he | ⟨s, p, hp, _⟩
      · rw [he]; simp
      · rw [hp]; simp
    · rcases collectHex_spec buf pos (buf.size - pos + 2) pos [] (Nat.le_refl _) h (by omega) with he | ⟨s, p, hp, _⟩
      · rw [he]; simp
      · rw [hp]; simp
  · intro o allow
    rcases contentLoop_spec env henv buf hs o allow (buf.size + 1) 0 (Nat.zero_le _) (by omega) with he | ⟨p, hp, _⟩
    · rw [he]; simp
    · rw [hp]; simp
  · intro pos h
    rcases XrefTable.tableLoop_total buf (buf.size + 1) pos [] h (by omega) (fun s hs => by cases hs)
      with he | ⟨subs, q, hq, _⟩
    · rw [he]; simp
    · rw [hq]; simp
  · intro n pos es q h heq
    rcases XrefTable.entryLoop_total buf n pos [] h (fun e he => by cases he) with he | ⟨es', q', hq', q1, q2, _, q4⟩
    · rw [he] at heq; cases heq
    · rw [hq'] at heq; cases heq; simp at q4; exact ⟨by omega, q2⟩
  · intro first n width data allowErr s rest heq
    rcases Xref.parseSection_spec first n width data allowErr with he | ⟨s', rest', hr, _, _, hl⟩
    · rw [he] at heq; cases heq
    · rw [hr] at heq; cases heq; exact hl
  · intro V T P bytes hP start
    exact ⟨(Offsets.loadTable_returns P bytes hP start _ (Nat.le_refl _)).2,
      fun t tr h => Offsets.loadTable_length P _ bytes start t tr h⟩
  · intro V T P bytes hP start t flags id
    exact (Offsets.resolveRef_returns_top P bytes hP start t _ flags id (Nat.le_refl _)).2
  · intro g tolerant k
    exact ⟨C14.guarded_load_terminates g tolerant k, C14.load_depth_bounded g tolerant k⟩
  · intro g root B hg hr
    exact (C14.walk_work_linear g root B hg hr).1
  · intro g m hm kids hk n
    exact C14.page_steps_bound g true m hm kids hk n

-- ===================================================================================================
-- 9. non-vacuity, regression witnesses

/-- an environment without resolver and without decryption; reals are kept as their token text -/
def textEnv : Env (List UInt8) :=
  { parseReal := fun t => some t, resolveLen := fun _ _ => .err, allowMissingEndobj := false, decrypt := none,
    fileOffset := 0 }

theorem textEnv_ok : EnvOk textEnv :=
  ⟨fun _ _ => Or.inl rfl, fun f hf => by cases hf⟩

def outTag {α : Type} : Out α → Nat
  | .ok _ => 0 | .err => 1 | .panic => 2 | .oof => 3

/-- `[[1] (a\` LF `b) <4> /N]` parses, and the cursor rests behind the `]` -/
def sampleBuf : Buf := #[91, 91, 49, 93, 32, 40, 97, 92, 10, 98, 41, 32, 60, 52, 62, 32, 47, 78, 93]

example : (match parse textEnv sampleBuf Flags.any with | .ok (_, p) => p | _ => 0) = 19 := by decide +kernel

/-- 21 nested arrays are one too many: `Err(MaxDepth)`, not a deeper recursion -/
example : outTag (parse textEnv (Array.replicate 21 91) Flags.any) = 1 := by decide +kernel
example : outTag (parse textEnv (Array.replicate 20 91 ++ Array.replicate 20 93) Flags.any) = 0 := by decide +kernel

/-- hostile little inputs: every one is `err`, none is `panic` or `oof` -/
example : outTag (parse textEnv #[] Flags.any) = 1 := by decide +kernel
example : outTag (parse textEnv #[40, 92] Flags.any) = 1 := by decide +kernel
example : outTag (parse textEnv #[60, 60, 47] Flags.any) = 1 := by decide +kernel
example : outTag (parse textEnv #[37] Flags.any) = 1 := by decide +kernel
example : outTag (parse textEnv #[49, 32, 48, 32] Flags.any) = 0 := by decide +kernel

/-- five line continuations in a row are skipped by the loop of `next_lexeme` in one call -/
example : (match nextLexeme #[92, 10, 92, 13, 10, 92, 13, 92, 10, 92, 10, 120, 41] 14 0 0 with
    | .ok (some b, p, _) => (b, p) | _ => (0, 0)) = (120, 12) := by decide +kernel

/-- the searches: found, not found, and the cursor afterwards -/
example : seekSubstr #[97, 10, 69, 10, 69, 73, 98] 0 kwLfEI = .ok (some (0, 3), 6) := by decide +kernel
example : seekSubstr #[97, 98] 1 kwLfEI = .ok (none, 2) := by decide +kernel
example : seekSubstrBack #[120, 97, 98, 97, 98, 121] 6 [97, 98] = .ok ((5, 6), 5) := by decide +kernel
example : readN #[] 0 5 = .ok ((0, 0), 0) := by decide +kernel

/-- a content stream whose only operator is unknown, in tolerant mode: the loop ends at the end of the data -/
def noOracle : Oracle := { isEof := fun _ _ => false, opOk := fun _ _ => false, imgOk := fun _ => true }
example : parseOps textEnv #[49, 32, 50, 32, 120, 120] noOracle true = .ok 6 := by decide +kernel
example : parseOps textEnv #[49, 32, 50, 32, 120, 120] noOracle false = .err := by decide +kernel

/-- `BI /W 1 ID x LF EI`: the data range of the image is `11 .. 12` -/
example : (match inlineImage textEnv #[66, 73, 32, 47, 87, 32, 49, 32, 73, 68, 32, 120, 10, 69, 73] noOracle 2 with
    | .ok ((true, p), some s) => (p, s) | _ => (0, (0, 0))) = (15, (11, 12)) := by decide +kernel

/-- a classic table with two subsections is read; an entry count of 4294967295 ends in `Err`, not in a long loop -/
def xrefSample : Buf :=
  "xref\n0 1\n0000000000 65535 f \n3 1\n0000000017 00000 n \ntrailer\n<</Size 4>>".toUTF8.data

def noTyped : Dict (List UInt8) → Out XrefTable.XInfo := fun _ => .err
def noData : Dict (List UInt8) → StreamInner → Out (List UInt8) := fun _ _ => .err

example : (match XrefTable.readXrefAt textEnv noTyped noData false xrefSample 0 with
    | .ok (secs, _) => secs | _ => []) = [⟨0, [.free 0 65535]⟩, ⟨3, [.raw 17 0]⟩] := by decide +kernel

example : outTag (XrefTable.readXrefAt textEnv noTyped noData false
    "xref\n0 4294967295\n0000000000 65535 f \ntrailer\n<<>>".toUTF8.data 0) = 1 := by
  decide +kernel

/-- a cross-reference stream section: `/W [1 1 1]`, two rows (`Free 0 255`, `Raw 16 0`), the typed entries and the
    data supplied the way the typed loader and `Resolve::stream_data` would -/
def xrefStmSample : Buf :=
  "5 0 obj\n<</Type/XRef/Size 2/W[1 1 1]/Length 6>>\nstream\nabcdef\nendstream\nendobj\nstartxref".toUTF8.data

example : (match XrefTable.readXrefAt textEnv (fun _ => .ok ⟨[1, 1, 1], [0, 2]⟩) (fun _ _ => .ok [0, 0, 255, 1, 16, 0]) false
      xrefStmSample 0 with
    | .ok (secs, _) => secs | _ => []) = [⟨0, [.free 0 255, .raw 16 0]⟩] := by decide +kernel

/-- the recovery scan on `1 0 obj 5 endobj` + junk: one object, then an error item; every item returns -/
example : (ScanLoop.scanItemsOf textEnv [49, 32, 48, 32, 111, 98, 106, 32, 53, 32, 101, 110, 100, 111, 98, 106, 32, 63]).map Out.tag
    = ["ok", "err"] := by decide +kernel

end C01

/-! ## Tie to the source: constants and byte classes (appended by the translator package)

`Generated/Lexical.lean` is re-extracted from `pdf/src` by `./check` before this file is built. -/

namespace C01

/-- the lexical classes of the lexer model, the parser's nesting bound, the object-number bound and the bound on nested typed loads are the ones of the source (`is_whitespace`, `is_delimiter`, `MAX_DEPTH`, `MAX_ID`, `MAX_NESTED_GETS`) -/
theorem constants_match_source :
    ((List.range 256).filter (fun n => PdfLex.isWhitespace (UInt8.ofNat n)) = Generated.lexWhitespace) ∧
    ((List.range 256).filter (fun n => PdfLex.isDelimiter (UInt8.ofNat n)) = Generated.lexDelimiters) ∧
    ((List.range 256).filter (fun n => PdfLex.isRegular (UInt8.ofNat n)) =
      (List.range 256).filter (fun n => !Generated.lexWhitespace.contains n && !Generated.lexDelimiters.contains n)) ∧
    (PdfLex.maxDepth = Generated.parserMaxDepth) ∧
    (Offsets.maxId = Generated.maxId) ∧
    (TypedLoad.maxNest = Generated.maxNestedGets) := by
  refine ⟨?_, ?_, ?_, ?_, ?_, ?_⟩
  · first | decide +kernel | fail "constants_match_source (C01): the model's PdfLex.isWhitespace does not match the source (Generated.lexWhitespace, re-extracted from pdf/src)"
  · first | decide +kernel | fail "constants_match_source (C01): the model's PdfLex.isDelimiter does not match the source (Generated.lexDelimiters, re-extracted from pdf/src)"
  · first | decide +kernel | fail "constants_match_source (C01): the model's PdfLex.isRegular does not match the source (Generated.lexDelimiters, Generated.lexWhitespace, re-extracted from pdf/src)"
  · first | decide +kernel | fail "constants_match_source (C01): the model's PdfLex.maxDepth does not match the source (Generated.parserMaxDepth, re-extracted from pdf/src)"
  · first | decide +kernel | fail "constants_match_source (C01): the model's Offsets.maxId does not match the source (Generated.maxId, re-extracted from pdf/src)"
  · first | decide +kernel | fail "constants_match_source (C01): the model's TypedLoad.maxNest does not match the source (Generated.maxNestedGets, re-extracted from pdf/src)"

end C01
