import PdfModel.Lemmas.TypedLoad
import PdfModel.Lemmas.Numeric

/-!
# C14 — hostile but well-formed object graphs end in an error, not a crash

The statement quantifies over every syntactically valid file whose objects form adversarial
structures. In the models (`Model/TypedLoad.lean`, `Model/Numeric.lean`) a file is an object table of
arbitrary size with arbitrary reference targets (cycles, self references, dangling numbers) and
arbitrary natural / integer values in every numeric field. "Returns a value or an error" is
`≠ .panic`; "does not exhaust the stack / hang" is `≠ .oof` for a fuel that is linear in the size of
the table, or termination by construction (the definitions that need no fuel recurse on a depth
budget that is a constant of the code); "time in proportion" is a bound on the number of `get` calls.

Everything is proved for the code **after** the repairs of D31, D32, D34, D35, D36 and of the four
further defects found by the planted documents (object-stream offsets, /Differences codes, DeviceN
alternates, CCITT dimensions). For each of them the model of the code *before* the repair is kept
(`fixed = false`, `walkUnguarded`, `fromPrimOld`, `csLoadOld`) together with a checked witness that it
panics or never returns.
-/

namespace C14
open TypedLoad Numeric

-- ===================================================================================================
-- 1. the recursion guard: typed loads over arbitrary reference graphs

/-- **Guarded loads terminate.** For every finite object table `g` (any size, any reference targets:
    cycles, self references, dangling numbers), both option sets and every start object, the typed load
    returns with fuel `g.length + 1`: the guard rejects a number that is already on the chain, so the
    nesting depth never exceeds the number of objects (pigeonhole). -/
theorem guarded_load_terminates (g : Graph) (tolerant : Bool) (k : Nat) :
    load g tolerant (g.length + 1) [] k ≠ .oof :=
  load_ne_oof_aux g tolerant (g.length + 1) [] k List.nodup_nil (by simp) (by simp)

/-- The typed load has no panicking step at all: whatever the graph, the fuel and the guard. -/
theorem guarded_load_never_panics (g : Graph) (tolerant : Bool) :
    ∀ (fuel : Nat) (chain : List Nat) (k : Nat), load g tolerant fuel chain k ≠ .panic := by
  intro fuel
  induction fuel with
  | zero => intro chain k; simp [load]
  | succ fuel ih =>
    intro chain k
    unfold load
    split
    · simp
    · split
      · simp
      · simp
      · rename_i tag fields hg
        apply fold_ne g tolerant (load g tolerant fuel (k :: chain)) .panic (fieldOutcome_ne_panic g tolerant) fields (.ok ()) (by simp)
        intro f _
        exact ih _ _

/-- More fuel does not change an answer that was reached. -/
theorem load_fuel_succ (g : Graph) (tol : Bool) :
    ∀ (fuel : Nat) (chain : List Nat) (k : Nat), load g tol fuel chain k ≠ .oof →
      load g tol (fuel + 1) chain k = load g tol fuel chain k := by
  intro fuel
  induction fuel with
  | zero => intro chain k h; simp [load] at h
  | succ fuel ih =>
    intro chain k h
    rw [load.eq_def g tol (fuel + 1 + 1), load.eq_def g tol (fuel + 1)] at *
    simp only at h ⊢
    split
    · rfl
    · rename_i hk
      simp only [hk, if_false] at h
      split
      · rfl
      · rfl
      · rename_i tag fields hg
        simp only [hg] at h
        exact fold_congr g tol (load g tol fuel (k :: chain)) (load g tol (fuel + 1) (k :: chain))
          (fun t ht => ih (k :: chain) t ht) fields (.ok ()) h

/-- **The answer of a load does not depend on the fuel** once the fuel exceeds the number of objects:
    `load g (g.length + 1)` is *the* result of `get`. -/
theorem load_stable (g : Graph) (tol : Bool) (k : Nat) (extra : Nat) :
    load g tol (g.length + 1 + extra) [] k = load g tol (g.length + 1) [] k := by
  induction extra with
  | zero => rfl
  | succ e ih =>
    have h := guarded_load_terminates g tol k
    rw [← ih] at h
    rw [← ih]
    exact load_fuel_succ g tol _ [] k h

/-- non-vacuity: a page whose /Parent is a /Pages node whose /Parent is the page: the guard answers
    "Recursive reference" (strict), and tolerant mode turns the optional /Parent into `None` -/
example : load [.node 1 [⟨1, false, some 0⟩], .node 0 [⟨0, true, some 0⟩]] false 3 [] 0 = .err := by decide
example : load [.node 1 [⟨1, false, some 0⟩], .node 0 [⟨0, true, some 0⟩]] true 3 [] 0 = .ok () := by decide
/-- a self-referencing required field is an error in both modes; an acyclic chain loads -/
example : load [.node 0 [⟨0, false, none⟩]] true 2 [] 0 = .err := by decide
example : load [.node 0 [⟨1, false, none⟩, ⟨2, false, none⟩], .node 0 [⟨2, false, none⟩], .node 0 []] false 4 [] 0 = .ok () := by decide

-- ===================================================================================================
-- 2. objects whose value is a reference (D32)

/-- `resolve` follows at most 16 stored references and then answers with a value or an error: it has no
    panicking step and needs no fuel. -/
theorem resolve_total (g : List Stored) (k : Nat) : resolve g k ≠ .panic ∧ resolve g k ≠ .oof :=
  resolveFlags_ne_bad g 16 k

/-- **After the repair `resolve` never hands back a reference**, so every `from_primitive` of the shape
    `Reference(r) => Self::from_primitive(resolve(r)?)` makes at most one nested call: two units of fuel
    suffice for every object table (self references, cycles and chains of any length included). -/
theorem fromPrim_total (g : List Stored) (p : Prim) : fromPrim g 2 p ≠ .oof ∧ fromPrim g 2 p ≠ .panic := by
  have hr := resolve_total g
  cases p with
  | direct v => simp [fromPrim, fromPrimWith]
  | reference k =>
    simp only [fromPrim, fromPrimWith, resolvePrim]
    have := hr k
    cases h : resolve g k with
    | ok v => simp [fromPrimWith]
    | err => simp
    | panic => exact absurd h this.1
    | oof => exact absurd h this.2

/-- the object `0 0 obj 0 0 R endobj` -/
def selfRef : List Stored := [.ref 0]

/-- **D32 before the repair**: with a resolver that returns the stored reference, `from_primitive` on the
    self-referencing object never returns, whatever the stack (fuel). -/
theorem fromPrimOld_diverges : ∀ fuel, fromPrimOld selfRef fuel (.reference 0) = .oof := by
  intro fuel
  induction fuel with
  | zero => rfl
  | succ fuel ih => simpa [fromPrimOld, fromPrimWith, resolveStored, selfRef] using ih

/-- after the repair the same object is an error; a chain of 16 references still resolves, 17 do not -/
example : fromPrim selfRef 2 (.reference 0) = .err := by decide
example : resolve ((List.range 16).map (fun i => Stored.ref (i + 1)) ++ [.val 7]) 0 = .ok 7 := by decide
example : resolve ((List.range 17).map (fun i => Stored.ref (i + 1)) ++ [.val 7]) 0 = .err := by decide

-- ===================================================================================================
-- 3. name / number tree walks (D31)

/-- **A bounded walk returns**: value or error, never a panic; it needs no fuel at all (the recursion is
    on the depth budget, `MAX_TREE_DEPTH = 64` in the code). Any table, any root, cycles included. -/
theorem walk_total (g : List TNode) (root : TNode) :
    (walkTree g root).out ≠ .panic ∧ (walkTree g root).out ≠ .oof :=
  ⟨walk_out g .panic (by simp) (by simp) _ _ _, walk_out g .oof (by simp) (by simp) _ _ _⟩

/-- **The work of a walk is linear**: if every kid number in the file is below `B` (for a file without
    dangling kids: `B` = number of objects), a walk makes at most `B` calls of `get` and enters no node
    twice — whether it ends with a value or with an error. No exponential walks over shared kids. -/
theorem walk_work_linear (g : List TNode) (root : TNode) (B : Nat)
    (hg : ∀ node ∈ g, ∀ kid ∈ kidsOf node, kid < B) (hr : ∀ kid ∈ kidsOf root, kid < B) :
    (walkTree g root).st.gets ≤ B ∧ (walkTree g root).st.visited.Nodup := by
  have h := walk_inv g B hg maxTreeDepth root hr ⟨0, [], 0⟩ ⟨List.nodup_nil, by simp, rfl⟩
  unfold walkTree
  refine ⟨?_, h.1⟩
  rw [h.2.2]
  exact nodup_bounded_length B _ h.1 h.2.1

/-- the tree `0 0 obj << /Kids [0 0 R] >>` -/
def cyclicTree : List TNode := [.inter [0]]

/-- **D31 before the repair**: the unguarded walk of the cyclic tree never returns (in the
    implementation: the native stack overflows and the process is killed). -/
theorem walkUnguarded_diverges : ∀ fuel, walkUnguarded cyclicTree fuel (.inter [0]) 0 = .oof := by
  intro fuel
  induction fuel with
  | zero => rfl
  | succ fuel ih => simpa [walkUnguarded, cyclicTree] using ih

/-- after the repair the cyclic tree is an error after one `get`; a proper tree is walked completely;
    a kid shared by two parents is rejected -/
example : (walkTree cyclicTree (.inter [0])).out = .err ∧ (walkTree cyclicTree (.inter [0])).st.gets = 1 := by decide
example : (walkTree [.inter [1, 2], .leaf 2, .leaf 3] (.inter [0])).out = .ok () ∧
    (walkTree [.inter [1, 2], .leaf 2, .leaf 3] (.inter [0])).st.calls = 5 := by decide
example : (walkTree [.inter [2], .inter [2], .leaf 1] (.inter [0, 1])).out = .err := by decide

-- ===================================================================================================
-- 4. page lookup (D36, depth budget 16)

/-- **Page lookup is total after the repair**: for every table of page-tree nodes with arbitrary /Count
    values (lying, zero, 2^32 − 1), arbitrary /Kids (cycles, self references, dangling), every page
    number: value or error, no overflow panic, no fuel. -/
theorem page_total (g : List PNode) (kids : List Nat) (n : Nat) :
    (page g true kids n).out ≠ .panic ∧ (page g true kids n).out ≠ .oof := by
  have aux : ∀ (bad : Out Nat), bad ≠ .err → (∀ k, bad ≠ .ok k) →
      ∀ d kids n, (pageLimited g true d kids n).out ≠ bad := by
    intro bad h1 h2 d
    induction d with
    | zero => intro kids n; simp only [pageLimited]; exact fun h => h1 h.symm
    | succ d ih =>
      intro kids n
      simp only [pageLimited]
      exact pageLoop_out g _ bad true h1 h2 (by simp) ih kids 0 n 0
  exact ⟨aux .panic (by simp) (by simp) 16 kids n, aux .oof (by simp) (by simp) 16 kids n⟩

/-- **Step bound**: if no /Kids array (root included) has more than `m` entries, a lookup makes at most
    `16 · m` calls of `get`, whatever the shape of the graph (a cycle costs depth, not time). -/
theorem page_steps_bound (g : List PNode) (checked : Bool) (m : Nat)
    (hm : ∀ kids count, PNode.tree kids count ∈ g → kids.length ≤ m) (kids : List Nat) (hk : kids.length ≤ m) (n : Nat) :
    (page g checked kids n).gets ≤ 16 * m := by
  have aux : ∀ d kids, kids.length ≤ m → ∀ n, (pageLimited g checked d kids n).gets ≤ d * m := by
    intro d
    induction d with
    | zero => intro kids _ n; simp [pageLimited]
    | succ d ih =>
      intro kids hk n
      simp only [pageLimited]
      have := pageLoop_gets g checked (pageLimited g checked d) (d * m)
        (fun kids' count hmem n' => ih kids' (hm kids' count hmem) n') kids 0 n 0
      have e : (d + 1) * m = d * m + m := by rw [Nat.add_mul]; simp
      omega
  exact aux 16 kids hk n

/-- three kids that each claim 2147483647 pages -/
def lyingCounts : List PNode := [.tree [] 2147483647]

/-- **D36 before the repair**: `pos + tree.count` overflows `u32` on the third kid. After: an error. -/
theorem pageOld_panics : (page lyingCounts false [0, 0, 0] 4294967295).out = .panic := by decide
example : (page lyingCounts true [0, 0, 0] 4294967295).out = .err := by decide
/-- a tree whose only kid is the tree itself uses up the depth budget and answers with an error -/
example : (page [.tree [0] 1] true [0] 0).out = .err ∧ (page [.tree [0] 1] true [0] 0).gets = 16 := by decide
/-- an honest two-level tree finds its second page -/
example : (page [.tree [1, 2] 2, .leaf, .leaf] true [0] 1).out = .ok 2 := by decide

-- ===================================================================================================
-- 5. colour spaces (depth budget 5)

/-- **Colour-space loading is total**: the recursion is on the depth budget, every nested base or
    alternate space costs one unit — for every table, cyclic or not. -/
theorem colorspace_total (g : List CObj) (k : Nat) : csLoad g 5 k ≠ .panic ∧ csLoad g 5 k ≠ .oof :=
  csLoad_ne_bad g 5 k

/-- `10 0 obj [/DeviceN [/A] 10 0 R f]`: a DeviceN space whose alternate is itself -/
def selfDeviceN : List CObj := [.deviceN 0]

/-- **Before the repair** the DeviceN alternate restarted the budget: the load never returns. -/
theorem csLoadOld_diverges : ∀ fuel, csLoadOld selfDeviceN fuel 5 0 = .oof := by
  intro fuel
  induction fuel with
  | zero => rfl
  | succ fuel ih => simpa [csLoadOld, selfDeviceN] using ih

/-- after the repair: an error; five nested spaces load, six do not -/
example : csLoad selfDeviceN 5 0 = .err := by decide
example : csLoad [.indexed 1, .separation 2, .deviceN 3, .indexed 4, .indexed 5, .name] 5 0 = .ok () := by decide
example : csLoad [.indexed 1, .separation 2, .deviceN 3, .indexed 4, .indexed 5, .indexed 6, .name] 5 0 = .err := by decide

-- ===================================================================================================
-- 6. the /Prev loop

/-- **The /Prev walk terminates**: for every table of sections (indexed by file position: unreadable, or
    readable with any /Prev — itself, an earlier or later section, a position outside the file), reading
    from any start returns within `len + 1` iterations: the `seen` list never holds a position twice. -/
theorem prev_loop_terminates (secs : Sections) (start : Nat) :
    readChain secs (secs.length + 1) start ≠ .oof ∧ readChain secs (secs.length + 1) start ≠ .panic := by
  unfold readChain
  split
  · simp
  · simp
  · exact ⟨prevLoop_ne_oof_aux secs _ _ [] 1 List.nodup_nil (by simp) (by simp), prevLoop_ne_panic secs _ _ _ _⟩

/-- a section whose /Prev is itself is read twice, then the loop is detected; a ring of three likewise;
    a /Prev that points at
    something unreadable is an error; a proper chain of three sections is merged -/
example : readChain [some (some 0)] 2 0 = .err := by decide
example : readChain [some (some 1), some (some 2), some (some 0)] 4 0 = .err := by decide
example : readChain [some (some 1), none] 3 0 = .err := by decide
example : readChain [some (some 1), some (some 2), some none] 4 0 = .ok 3 := by decide

end C14
