import PdfModel.Lemmas.TypedLoad
import PdfModel.Lemmas.Numeric
import PdfModel.Lemmas.CryptTotal
import PdfModel.Lemmas.EncTotal
import PdfModel.Generated.Lexical

/-!
# C14 — hostile but well-formed object graphs end in an error, not a crash

The statement quantifies over every syntactically valid file whose objects form adversarial
structures. In the models (`Model/TypedLoad.lean`, `Model/Numeric.lean`) a file is an object table of
arbitrary size with arbitrary reference targets (cycles, self references, dangling numbers) and
arbitrary natural / integer values in every numeric field. "Returns a value or an error" is
`≠ .panic`; "does not exhaust the stack / hang" is `≠ .oof`.

## What kind of statement each theorem is (read this before citing one)

**DEPTH is bounded** (the recursion ends; says nothing about how many steps were taken on the way):
`guarded_load_terminates`, `load_stable`, `load_depth_bounded` (the guard + `MAX_NESTED_GETS`: fuel `length + 1`
is never used up — pigeonhole on the chain), `prev_loop_terminates` (`seen` list, pigeonhole on buffer
positions), and the `≠ .oof` half of `fromPrim_total` (fuel 2 suffices because the repaired `resolve` never
returns a reference). These carry the content of "no stack exhaustion".

**WORK is bounded** (a count of `get`s / entries / bytes): only `walk_work_linear` (calls ≤ B + 1, gets ≤ B: the
visited set), `page_steps_bound` (≤ 17·(m + 1) gets), `xref_section_total` (entries read × width ≤ data length),
`fax_output_bounded` (decoded bytes ≤ f(data length)), `key_buffer_bounded` (≤ 64 bytes). **The generic typed
load has no work bound**, and none is true: `load_work_exponential` below proves that the un-memoised load does
2^(n+1) − 1 `get`s on an acyclic table of n + 1 objects (n < 64). What the real library does about that is
schema-specific and oracle-only (see "no theorem" below).

**True by construction of the model** (the model function has no `.panic` branch and / or recurses structurally
on a constant budget, so `≠ .panic` / `≠ .oof` holds for *any* budget and any guard — the budgets and guards play
no role in the proof): `guarded_load_never_panics`, `resolve_total`, `walk_total`, the `≠ .oof` half of
`page_total`, `colorspace_total`, `appearance_total`, `ps_body_total`, `cf_key_bits_total`. What carries the
content for these is (1) the model-to-source correspondence streams (`c14.resolve`, `c14.walk`, `c14.page`,
`c14.cs`, `c14.ap`, `c14.ps`: the real function answers like the model on every generated table, so the real
function has no other branch there), (2) the *Old* models with their divergence / panic witnesses
(`fromPrimOld_diverges`, `walkUnguarded_diverges`, `csLoadOld_diverges`, `apLoadOld_diverges`): the budget is what
distinguishes the repaired model from one that provably never returns, and (3) the walker oracle.

**Real panic branches excluded by arithmetic** (the model has a `.panic` branch for every unchecked operation of
the source and the theorem shows the guards keep it unreachable): the `≠ .panic` half of `page_total`,
`xref_count_total`, `xref_section_total`, `xref_sections_total`, `obj_slice_total`, `differences_total`,
`ps_exec_total`, `fax_dims_total`, `key_schedule_total`, `object_key_total`, `from_password_rc4_total`,
`predictor_geometry_guards`, `unpredict_total`; each has a `…Old_panics` / `…Unclamped_panics` witness.

## Clauses of the property that have NO theorem (walker oracle and planted documents only)

* **outlines** (/First /Next /Parent cycles): the library hands out lazy `Ref`s; only the generic `load` model
  applies to the eager part; the walks are the walker's.
* **/Length through a reference cycle** (`/Length 5 0 R` where 5 is the stream itself or a chain back to it):
  covered by the generic guard model only in so far as the length is loaded through `get`; planted fragment
  `stream_lengths`.
* **object streams that contain themselves** (or their own /Length, /Extends): generic `load` only; planted
  `objstm_doc_at`.
* **memory in proportion**, apart from the three bounds above (`xref_section_total`, `fax_output_bounded`,
  `key_buffer_bounded`): the counting allocator of the walker (`memory-out-of-proportion`).
* **time in proportion for typed loads without the cache**: no theorem and *not true in general*: see
  `load_work_exponential` (model) and the open finding `timeout:fanout` (library: polynomial, degree 4).
* derive-generated `from_primitive` of the ~80 schema structs and the third-party decoders: generic guard model
  plus the walker search, not line by line.

Everything is proved for the code **after** the repairs (D31, D32, D34, D35, D36 and the further defects found by
the planted documents; the defects once owned by other packages — D33 width arrays, D18 key lengths, D13/D14
filter geometry — are repaired as well and have no open entry). For each repair the model of the code *before*
it is kept (`fixed = false`, `walkUnguarded`, `fromPrimOld`, `csLoadOld`, …) with a checked witness that it
panics or never returns.
-/

namespace C14
open TypedLoad Numeric

-- ===================================================================================================
-- 1. the recursion guard: typed loads over arbitrary reference graphs

/-- **Guarded loads terminate (a DEPTH bound).** For every finite object table `g` (any size, any reference
    targets: cycles, self references, dangling numbers), both option sets and every start object, the typed load
    returns with fuel `g.length + 1`: the guard rejects a number that is already on the chain, so the
    nesting depth never exceeds the number of objects (pigeonhole). This bounds the depth of the recursion (no
    stack exhaustion, no infinite descent); it does **not** bound the number of loads: see
    `load_work_exponential`. -/
theorem guarded_load_terminates (g : Graph) (tolerant : Bool) (k : Nat) :
    load g tolerant (g.length + 1) [] k ≠ .oof :=
  load_ne_oof_aux g tolerant (g.length + 1) [] k List.nodup_nil (by simp) (by simp)

/-- The typed load has no panicking step at all: whatever the graph, the fuel and the guard. **True by
    construction**: `load` has no `.panic` branch of its own (`.panic` is only propagated by `fieldOutcome`), so
    this says that the *model* is panic-free; that the real `get` + derive-generated `from_primitive` has no other
    branch is the correspondence stream `c14.load` and the walker, not this theorem. -/
theorem guarded_load_never_panics (g : Graph) (tolerant : Bool) :
    ∀ (fuel : Nat) (chain : List Nat) (k : Nat), load g tolerant fuel chain k ≠ .panic := by
  intro fuel
  induction fuel with
  | zero => intro chain k; simp [load]
  | succ fuel ih =>
    intro chain k
    unfold load
    split
    · simp
    · split
      · simp
      split
      · simp
      · simp
      · simp
      · rename_i tag fields hg
        apply fold_ne g tolerant (load g tolerant fuel (k :: chain)) .panic (fieldOutcome_ne_panic g tolerant) fields (.ok ()) (by simp)
        intro f _
        exact ih _ _

/-- More fuel does not change an answer that was reached. -/
theorem load_fuel_succ (g : Graph) (tol : Bool) :
    ∀ (fuel : Nat) (chain : List Nat) (k : Nat), load g tol fuel chain k ≠ .oof →
      load g tol (fuel + 1) chain k = load g tol fuel chain k := by
  intro fuel
  induction fuel with
  | zero => intro chain k h; simp [load] at h
  | succ fuel ih =>
    intro chain k h
    rw [load.eq_def g tol (fuel + 1 + 1), load.eq_def g tol (fuel + 1)] at *
    simp only at h ⊢
    split
    · rfl
    · rename_i hk
      simp only [hk, if_false] at h
      split
      · rfl
      rename_i hlen
      simp only [hlen, if_false] at h
      split
      · rfl
      · rfl
      · rfl
      · rename_i tag fields hg
        simp only [hg] at h
        exact fold_congr g tol (load g tol fuel (k :: chain)) (load g tol (fuel + 1) (k :: chain))
          (fun t ht => ih (k :: chain) t ht) fields (.ok ()) h

/-- **The answer of a load does not depend on the fuel** once the fuel exceeds the number of objects:
    `load g (g.length + 1)` is *the* result of `get`. -/
theorem load_stable (g : Graph) (tol : Bool) (k : Nat) (extra : Nat) :
    load g tol (g.length + 1 + extra) [] k = load g tol (g.length + 1) [] k := by
  induction extra with
  | zero => rfl
  | succ e ih =>
    have h := guarded_load_terminates g tol k
    rw [← ih] at h
    rw [← ih]
    exact load_fuel_succ g tol _ [] k h

/-- **Nesting beyond the supported depth (a DEPTH bound, not a work bound)**: the guard also refuses a 65th nested load, so the native
    stack a load needs is bounded by a constant of the code: fuel `maxNest + 1 = 65` suffices for every
    object table, however long its chains of distinct objects are. -/
theorem load_depth_bounded (g : Graph) (tolerant : Bool) (k : Nat) :
    load g tolerant (maxNest + 1) [] k ≠ .oof :=
  load_ne_oof_depth g tolerant (maxNest + 1) [] k (by simp) (by simp)

/-- the instrumented load (`loadN`: the same function with the `get`s counted) answers like `load` -/
theorem loadN_answer (g : Graph) (tolerant : Bool) (fuel : Nat) (chain : List Nat) (k : Nat) :
    (loadN g tolerant fuel chain k).1 = load g tolerant fuel chain k :=
  loadN_fst g tolerant fuel chain k

/-- **Depth is bounded, WORK is not.** On the ladder of `n + 1` objects (object `i < n` has two required fields
    that are both object `i + 1`: acyclic, every reference valid, nesting `n + 1 ≤ 64`) the un-memoised guarded
    load succeeds after exactly `2^(n+1) − 1` `get`s, in both modes, with any sufficient fuel. So
    `guarded_load_terminates` / `load_depth_bounded` cannot be read as "time in proportion to the file": for the
    resolver without a cache that clause is a fact about the *schema* (which typed struct has two followed entries
    on a recursive path — after the /DescendantFonts repair: none) and is checked by planted documents only. -/
theorem load_work_exponential (n : Nat) (hn : n < 64) (tolerant : Bool) (fuel : Nat) (hf : n < fuel) :
    loadN (ladder n) tolerant fuel [] 0 = (.ok (), 2 ^ (n + 1) - 1) :=
  loadN_ladder_aux n hn tolerant n 0 fuel [] (by omega) rfl (by simp) hf

/-- 17 objects: 131071 gets (the figure of the audit) -/
example : loadN (ladder 16) false ((ladder 16).length + 1) [] 0 = (.ok (), 131071) := by decide +kernel
/-- one level more than the guard allows: refused (the first field fails, so after 65 gets, not 2^65) -/
example : loadN (ladder 64) false ((ladder 64).length + 1) [] 0 = (.err, 65) := by decide +kernel

/-- non-vacuity: a page whose /Parent is a /Pages node whose /Parent is the page: the guard answers
    "Recursive reference" (strict), and tolerant mode turns the optional /Parent into `None` -/
example : load [.node 1 [⟨1, false, some 0, false⟩], .node 0 [⟨0, true, some 0, false⟩]] false 3 [] 0 = .err := by decide
example : load [.node 1 [⟨1, false, some 0, false⟩], .node 0 [⟨0, true, some 0, false⟩]] true 3 [] 0 = .ok () := by decide
/-- a list element (`/DescendantFonts [0 0 R]`) that refers to a missing object is skipped in strict mode too
    (D38 repaired: a reference to an undefined object is the null object); a malformed target still fails -/
example : load [.missing, .node 0 [⟨0, false, none, true⟩]] false 3 [] 1 = .ok () := by decide
example : load [.bad, .node 0 [⟨0, false, none, true⟩]] false 3 [] 1 = .err := by decide
/-- a self-referencing required field is an error in both modes; an acyclic chain loads -/
example : load [.node 0 [⟨0, false, none, false⟩]] true 2 [] 0 = .err := by decide
example : load [.node 0 [⟨1, false, none, false⟩, ⟨2, false, none, false⟩], .node 0 [⟨2, false, none, false⟩], .node 0 []] false 4 [] 0 = .ok () := by decide
/-- a chain of 64 distinct objects that each load the next one still loads; a chain of 65 does not -/
example : load ((List.range 63).map (fun i => Obj.node 0 [⟨i + 1, false, none, false⟩]) ++ [.node 0 []]) false 65 [] 0 = .ok () := by decide +kernel
example : load ((List.range 64).map (fun i => Obj.node 0 [⟨i + 1, false, none, false⟩]) ++ [.node 0 []]) false 65 [] 0 = .err := by decide +kernel

-- ===================================================================================================
-- 2. objects whose value is a reference (D32)

/-- `resolve` follows at most 16 stored references and then answers with a value or an error: it has no
    panicking step and needs no fuel. **True by construction**: `resolveFlags` recurses structurally on its depth
    argument and has no `.panic` / `.oof` branch, so the same holds for any budget instead of 16. The content is
    `fromPrim_total` + `fromPrimOld_diverges` (the budget is what makes `resolve` never return a reference) and the
    correspondence stream `c14.resolve`. -/
theorem resolve_total (g : List Stored) (k : Nat) : resolve g k ≠ .panic ∧ resolve g k ≠ .oof :=
  resolveFlags_ne_bad g 16 k

/-- **After the repair `resolve` never hands back a reference**, so every `from_primitive` of the shape
    `Reference(r) => Self::from_primitive(resolve(r)?)` makes at most one nested call: two units of fuel
    suffice for every object table (self references, cycles and chains of any length included). -/
theorem fromPrim_total (g : List Stored) (p : Prim) : fromPrim g 2 p ≠ .oof ∧ fromPrim g 2 p ≠ .panic := by
  have hr := resolve_total g
  cases p with
  | direct v => simp [fromPrim, fromPrimWith]
  | reference k =>
    simp only [fromPrim, fromPrimWith, resolvePrim]
    have := hr k
    cases h : resolve g k with
    | ok v => simp [fromPrimWith]
    | err => simp
    | panic => exact absurd h this.1
    | oof => exact absurd h this.2

/-- the object `0 0 obj 0 0 R endobj` -/
def selfRef : List Stored := [.ref 0]

/-- **D32 before the repair**: with a resolver that returns the stored reference, `from_primitive` on the
    self-referencing object never returns, whatever the stack (fuel). -/
theorem fromPrimOld_diverges : ∀ fuel, fromPrimOld selfRef fuel (.reference 0) = .oof := by
  intro fuel
  induction fuel with
  | zero => rfl
  | succ fuel ih => simpa [fromPrimOld, fromPrimWith, resolveStored, selfRef] using ih

/-- after the repair the same object is an error; a chain of 16 references still resolves, 17 do not -/
example : fromPrim selfRef 2 (.reference 0) = .err := by decide
example : resolve ((List.range 16).map (fun i => Stored.ref (i + 1)) ++ [.val 7]) 0 = .ok 7 := by decide
example : resolve ((List.range 17).map (fun i => Stored.ref (i + 1)) ++ [.val 7]) 0 = .err := by decide

-- ===================================================================================================
-- 3. name / number tree walks (D31)

/-- **A bounded walk returns**: value or error, never a panic; it needs no fuel at all (the recursion is
    on the depth budget, `MAX_TREE_DEPTH = 64` in the code). Any table, any root, cycles included. **True by
    construction** (structural recursion on the budget, no `.panic` branch in `walk`; it would hold for any budget
    and without the visited set). The statements with content are `walk_work_linear` (the visited set bounds the
    WORK) and `walkUnguarded_diverges` (without budget and set the walk never returns). -/
theorem walk_total (g : List TNode) (root : TNode) :
    (walkTree g root).out ≠ .panic ∧ (walkTree g root).out ≠ .oof :=
  ⟨walk_out g .panic (by simp) (by simp) _ _ _, walk_out g .oof (by simp) (by simp) _ _ _⟩

/-- **The work of a walk is linear**: if every kid number in the file is below `B` (for a file without
    dangling kids: `B` = number of objects), a walk makes at most `B` calls of `get` and enters no node
    twice — whether it ends with a value or with an error. No exponential walks over shared kids. -/
theorem walk_work_linear (g : List TNode) (root : TNode) (B : Nat)
    (hg : ∀ node ∈ g, ∀ kid ∈ kidsOf node, kid < B) (hr : ∀ kid ∈ kidsOf root, kid < B) :
    (walkTree g root).st.gets ≤ B ∧ (walkTree g root).st.visited.Nodup := by
  have h := walk_inv g B hg maxTreeDepth root hr ⟨0, [], 0⟩ ⟨List.nodup_nil, by simp, rfl⟩
  unfold walkTree
  refine ⟨?_, h.1⟩
  rw [h.2.2]
  exact nodup_bounded_length B _ h.1 h.2.1

/-- the tree `0 0 obj << /Kids [0 0 R] >>` -/
def cyclicTree : List TNode := [.inter [0]]

/-- **D31 before the repair**: the unguarded walk of the cyclic tree never returns (in the
    implementation: the native stack overflows and the process is killed). -/
theorem walkUnguarded_diverges : ∀ fuel, walkUnguarded cyclicTree fuel (.inter [0]) 0 = .oof := by
  intro fuel
  induction fuel with
  | zero => rfl
  | succ fuel ih => simpa [walkUnguarded, cyclicTree] using ih

/-- after the repair the cyclic tree is an error after one `get`; a proper tree is walked completely;
    a kid shared by two parents is rejected -/
example : (walkTree cyclicTree (.inter [0])).out = .err ∧ (walkTree cyclicTree (.inter [0])).st.gets = 1 := by decide
example : (walkTree [.inter [1, 2], .leaf 2, .leaf 3] (.inter [0])).out = .ok () ∧
    (walkTree [.inter [1, 2], .leaf 2, .leaf 3] (.inter [0])).st.calls = 5 := by decide
example : (walkTree [.inter [2], .inter [2], .leaf 1] (.inter [0, 1])).out = .err := by decide

-- ===================================================================================================
-- 4. page lookup (D36, depth budget 16)

/-- **Page lookup is total after the repair**: for every table of page-tree nodes with arbitrary /Count
    values (lying, zero, 2^32 − 1), arbitrary /Kids (cycles, self references, dangling), every page
    number: value or error, no overflow panic, no fuel. The `≠ .panic` half has content (the checked additions
    keep the `.panic` branch of the `u32` arithmetic unreachable; `pageOld_panics` is the witness for the unchecked
    code); the `≠ .oof` half is **true by construction** (structural recursion on the depth budget 16). The work is
    bounded separately by `page_steps_bound`. -/
theorem page_total (g : List PNode) (kids : List Nat) (n : Nat) :
    (page g true kids n).out ≠ .panic ∧ (page g true kids n).out ≠ .oof := by
  have aux : ∀ (bad : Out Nat), bad ≠ .err → (∀ k, bad ≠ .ok k) →
      ∀ d kids n, (pageLimited g true d kids n).out ≠ bad := by
    intro bad h1 h2 d
    induction d with
    | zero => intro kids n; simp only [pageLimited]; exact fun h => h1 h.symm
    | succ d ih =>
      intro kids n
      simp only [pageLimited]
      exact pageLoop_out g _ bad true h1 h2 (by simp) ih kids 0 n 0
  exact ⟨aux .panic (by simp) (by simp) 16 kids n, aux .oof (by simp) (by simp) 16 kids n⟩

/-- **Step bound**: if no /Kids array (root included) has more than `m` entries, a lookup makes at most
    `16 · m` calls of `get`, whatever the shape of the graph (a cycle costs depth, not time). -/
theorem page_steps_bound (g : List PNode) (checked : Bool) (m : Nat)
    (hm : ∀ kids count, PNode.tree kids count ∈ g → kids.length ≤ m) (kids : List Nat) (hk : kids.length ≤ m) (n : Nat) :
    (page g checked kids n).gets ≤ 16 * m := by
  have aux : ∀ d kids, kids.length ≤ m → ∀ n, (pageLimited g checked d kids n).gets ≤ d * m := by
    intro d
    induction d with
    | zero => intro kids _ n; simp [pageLimited]
    | succ d ih =>
      intro kids hk n
      simp only [pageLimited]
      have := pageLoop_gets g checked (pageLimited g checked d) (d * m)
        (fun kids' count hmem n' => ih kids' (hm kids' count hmem) n') kids 0 n 0
      have e : (d + 1) * m = d * m + m := by rw [Nat.add_mul]; simp
      omega
  exact aux 16 kids hk n

/-- three kids that each claim 2147483647 pages -/
def lyingCounts : List PNode := [.tree [] 2147483647]

/-- **D36 before the repair**: `pos + tree.count` overflows `u32` on the third kid. After: an error. -/
theorem pageOld_panics : (page lyingCounts false [0, 0, 0] 4294967295).out = .panic := by decide
example : (page lyingCounts true [0, 0, 0] 4294967295).out = .err := by decide
/-- a tree whose only kid is the tree itself uses up the depth budget and answers with an error -/
example : (page [.tree [0] 1] true [0] 0).out = .err ∧ (page [.tree [0] 1] true [0] 0).gets = 16 := by decide
/-- an honest two-level tree finds its second page -/
example : (page [.tree [1, 2] 2, .leaf, .leaf] true [0] 1).out = .ok 2 := by decide

-- ===================================================================================================
-- 5. colour spaces (depth budget 5)

/-- **Colour-space loading is total**: the recursion is on the depth budget, every nested base or
    alternate space costs one unit — for every table, cyclic or not. **True by construction** of `csLoad`
    (structural recursion on the budget, no `.panic` branch: it holds for any budget, not just 5). The content is
    that the *source* spends the budget on every nested space: `csLoadOld` (DeviceN restarts the budget — the code
    before the repair) provably never returns (`csLoadOld_diverges`), and the stream `c14.cs` compares the real
    loader with `csLoad` (a colour space has one nested space, so depth ≤ 5 is also work ≤ 6). -/
theorem colorspace_total (g : List CObj) (k : Nat) : csLoad g 5 k ≠ .panic ∧ csLoad g 5 k ≠ .oof :=
  csLoad_ne_bad g 5 k

/-- `10 0 obj [/DeviceN [/A] 10 0 R f]`: a DeviceN space whose alternate is itself -/
def selfDeviceN : List CObj := [.deviceN 0]

/-- **Before the repair** the DeviceN alternate restarted the budget: the load never returns. -/
theorem csLoadOld_diverges : ∀ fuel, csLoadOld selfDeviceN fuel 5 0 = .oof := by
  intro fuel
  induction fuel with
  | zero => rfl
  | succ fuel ih => simpa [csLoadOld, selfDeviceN] using ih

/-- after the repair: an error; five nested spaces load, six do not -/
example : csLoad selfDeviceN 5 0 = .err := by decide
example : csLoad [.indexed 1, .separation 2, .deviceN 3, .indexed 4, .indexed 5, .name] 5 0 = .ok () := by decide
example : csLoad [.indexed 1, .separation 2, .deviceN 3, .indexed 4, .indexed 5, .indexed 6, .name] 5 0 = .err := by decide

/-- **Appearance dictionaries** (resolved, not loaded through `get`): `apLoad` with the depth budget 2 returns.
    **True by construction** (structural recursion on the budget, no `.panic` branch; any budget would do). That
    the budget is *needed* is `apLoadOld_diverges`; that the source has it is the stream `c14.ap`. The budget bounds
    the depth, not the work: a dictionary of f states of f states loads f² forms (see the header and the open
    finding `timeout:fanout`). -/
theorem appearance_total (g : List AObj) (k : Nat) : apLoad g 2 k ≠ .panic ∧ apLoad g 2 k ≠ .oof :=
  apLoad_ne_bad g 2 k

/-- `10 0 obj << /On 10 0 R >>` -/
def selfAppearance : List AObj := [.dict [0]]

/-- **Before the repair** the appearance dictionary that contains itself never returns. -/
theorem apLoadOld_diverges : ∀ fuel, apLoadOld selfAppearance fuel 0 = .oof := by
  intro fuel
  induction fuel with
  | zero => rfl
  | succ fuel ih => simpa [apLoadOld, selfAppearance] using ih

example : apLoad selfAppearance 2 0 = .err := by decide
example : apLoad [.dict [1, 2], .stream, .dict [1]] 2 0 = .ok () := by decide
example : apLoad [.dict [1], .dict [2], .dict [3], .stream] 2 0 = .err := by decide

-- ===================================================================================================
-- 6. the /Prev loop

/-- **The /Prev walk terminates, for every start offset**: for every buffer (a table indexed by absolute
    position: unreadable, or a section with any /Prev — itself, an earlier or later section, a number
    that leaves the buffer or overflows when the start offset is added), every position `start` of the
    `%PDF-` header (junk before it) and every `startxref` value, reading returns within `len + 1`
    iterations. The guard records and compares numbers of the *same* coordinate system (header-relative);
    each recorded number `p` had `start + p` inside the buffer, so there are at most `len` of them. -/
theorem prev_loop_terminates (secs : Sections) (start xrefOffset : Nat) :
    readChain secs start (secs.length + 1) xrefOffset ≠ .oof ∧ readChain secs start (secs.length + 1) xrefOffset ≠ .panic := by
  unfold readChain
  split
  · simp
  split
  · simp
  split
  · simp
  · simp
  · exact ⟨prevLoop_ne_oof_aux secs start _ _ [] 1 List.nodup_nil (by simp) (by simp), prevLoop_ne_panic secs start _ _ _ _⟩

/-- one byte of junk, then a section whose /Prev is its own (header-relative) offset 0 -/
def selfPrevBehindJunk : Sections := [none, some (some 0)]

/-- **Why the start offset is explicit.** A guard that records the buffer position but compares the number
    from the file never sees the loop once the header is not at byte 0: the walk does not return. (With
    `start = 0` the two guards are the same function, which is why documents without a prefix cannot tell
    them apart.) -/
theorem prevLoopMixed_diverges : ∀ (fuel : Nat) (seen : List Nat) (n : Nat), 0 ∉ seen →
    prevLoopMixed selfPrevBehindJunk 1 fuel (some 0) seen n = .oof := by
  intro fuel
  induction fuel with
  | zero => intro seen n _; rfl
  | succ fuel ih =>
    intro seen n h0
    unfold prevLoopMixed
    simp only [h0, if_false]
    have : selfPrevBehindJunk[1 + 0]? = some (some (some 0)) := by decide
    rw [this]
    apply ih
    intro hm
    rcases List.mem_cons.1 hm with h | h
    · omega
    · exact h0 h

theorem prevLoopMixed_same_without_prefix (secs : Sections) :
    ∀ (fuel : Nat) (p : Option Nat) (seen : List Nat) (n : Nat), (∀ c ∈ seen, c ≤ usizeMax) → (secs.length ≤ usizeMax) →
      prevLoopMixed secs 0 fuel p seen n = prevLoop secs 0 fuel p seen n := by
  intro fuel
  induction fuel with
  | zero => intro p seen n _ _; rfl
  | succ fuel ih =>
    intro p seen n hs hl
    cases p with
    | none => rfl
    | some p =>
      unfold prevLoopMixed prevLoop
      split
      · rfl
      · simp only [Nat.zero_add]
        by_cases hp : p > usizeMax
        · have : secs[p]? = none := List.getElem?_eq_none_iff.2 (by omega)
          simp [hp, this]
        · simp only [hp, if_false]
          split
          · rfl
          · rfl
          · apply ih
            · intro c hc
              rcases List.mem_cons.1 hc with rfl | hc
              · omega
              · exact hs c hc
            · exact hl

/-- the real guard on the same buffer: the section is read twice, then the loop is detected -/
example : readChain selfPrevBehindJunk 1 3 0 = .err := by decide
/-- header at byte 0: self loop, ring of three, unreadable target, proper chain of three -/
example : readChain [some (some 0)] 0 2 0 = .err := by decide
example : readChain [some (some 1), some (some 2), some (some 0)] 0 4 0 = .err := by decide
example : readChain [some (some 1), none] 0 3 0 = .err := by decide
example : readChain [some (some 1), some (some 2), some none] 0 4 0 = .ok 3 := by decide
/-- two bytes of junk: the chain 0 → 1 → 2 (header-relative) lives at positions 2, 3, 4; a ring behind junk is
    detected; a /Prev that is an *absolute* position leaves the chain -/
example : readChain [none, none, some (some 1), some (some 2), some none] 2 6 0 = .ok 3 := by decide
example : readChain [none, none, some (some 1), some (some 2), some (some 0)] 2 6 0 = .err := by decide
example : readChain [none, none, some (some 3), some none, some none] 2 6 0 = .err := by decide

-- ===================================================================================================
-- 7. numeric parameters with arbitrary values

/-- **Cross-reference stream sections (D34)**: for every word size, every count, every /W triple
    (zero, 2^64 − 1, …), every amount of data, both option sets: sizing a section returns a count or an
    error — no overflow, no division by zero. -/
theorem xref_count_total (bits : Nat) (tolerant : Bool) (num w0 w1 w2 len : Nat) :
    xrefCount bits true tolerant num w0 w1 w2 len ≠ .panic ∧ xrefCount bits true tolerant num w0 w1 w2 len ≠ .oof :=
  xrefCount_ne_bad bits tolerant num w0 w1 w2 len

/-- **Reading a section is total and consumes what it produces**: the entries read take
    `entries · (w0+w1+w2) ≥ entries` bytes of the data, so a section can never yield more entries than
    the stream has bytes, whatever /Index claims (memory in proportion to the file). -/
theorem xref_section_total (bits : Nat) (tolerant : Bool) (num : Nat) (width data : List Nat) :
    xrefSection bits true tolerant num width data ≠ .panic ∧ xrefSection bits true tolerant num width data ≠ .oof ∧
    ∀ es rest, xrefSection bits true tolerant num width data = .ok (es, rest) →
      es.length ≤ num ∧ es.length + rest.length ≤ data.length := by
  unfold xrefSection
  split
  · rename_i w0 w1 w2
    have hc := xrefCount_ne_bad bits tolerant num w0 w1 w2 data.length
    split
    · rename_i n hn
      have hb := xrefCount_bound bits tolerant num w0 w1 w2 data.length n hn
      have hr := readEntries_ne_bad w0 w1 w2 n data []
      refine ⟨hr.1, hr.2, ?_⟩
      intro es rest h
      have := readEntries_consumes w0 w1 w2 n data [] es rest h
      simp only [List.length_nil, Nat.zero_add] at this
      have h1 : n * 1 ≤ n * (w0 + w1 + w2) := Nat.mul_le_mul_left n hb.1
      refine ⟨by omega, by omega⟩
    · simp
    · rename_i e; exact absurd e hc.1
    · rename_i e; exact absurd e hc.2
  · simp

/-- the /Index loop over any list of (first, count) pairs is total -/
theorem xref_sections_total (bits : Nat) (tolerant : Bool) (width : List Nat) :
    ∀ (pairs : List (Nat × Nat)) (data : List Nat) (acc : List (Nat × List XEntry)),
      xrefSections bits true tolerant width pairs data acc ≠ .panic ∧ xrefSections bits true tolerant width pairs data acc ≠ .oof := by
  intro pairs
  induction pairs with
  | nil => intro data acc; simp [xrefSections]
  | cons p rest ih =>
    intro data acc
    obtain ⟨first, num⟩ := p
    unfold xrefSections
    have h := xref_section_total bits tolerant num width data
    split
    · exact ih _ _
    · simp
    · rename_i e; exact absurd e h.1
    · rename_i e; exact absurd e h.2.1

/-- **D34 before the repair**, 32-bit `usize` (wasm32): the product overflows. On every word size: with
    /W [0 0 0] any count was accepted and read from no data at all (2^31 entries from an empty stream). -/
theorem xrefOld_overflows : xrefCount 32 false false 65536 65536 0 0 100 = .panic := by decide
theorem xrefOld_zero_width_accepts_any_count (bits : Nat) (tolerant : Bool) (num len : Nat) (h : fits bits 0 = true) :
    xrefCount bits false tolerant num 0 0 0 len = .ok num := by
  simp [xrefCount, h]
example : readEntries 0 0 0 3 [] [] = .ok ([.raw 0 0, .raw 0 0, .raw 0 0], []) := by decide
example : xrefCount 64 true true 2147483647 0 0 0 100 = .err := by decide
/-- an honest section: 3 entries of 1+2+1 bytes; a tolerant reader truncates a lying count -/
example : xrefSection 64 true false 2 [1, 2, 1] [1, 0, 17, 0, 2, 0, 5, 1] = .ok ([.raw 17 0, .stream 5 1], []) := by decide
example : xrefCount 64 true true 1000 1 2 1 8 = .ok 2 := by decide
example : xrefCount 64 true false 1000 1 2 1 8 = .err := by decide

/-- **Object-stream members**: for every /First, every offset table, every index and data length the byte
    range of a member is computed without overflow, and a range that is returned lies inside the data. -/
theorem obj_slice_total (bits : Nat) (first : Nat) (offsets : List Nat) (index dataLen : Nat) :
    objSlice bits true first offsets index dataLen ≠ .panic ∧ objSlice bits true first offsets index dataLen ≠ .oof ∧
    ∀ s e, objSlice bits true first offsets index dataLen = .ok (s, e) → s ≤ e ∧ e ≤ dataLen := by
  unfold objSlice
  split
  · simp
  · rename_i hi
    have hstop : objStop bits true first offsets index dataLen ≠ .panic ∧ objStop bits true first offsets index dataLen ≠ .oof := by
      unfold objStop
      split
      · simp
      · split
        · rename_i hnone
          have := List.getElem?_eq_none_iff.1 hnone
          omega
        · split <;> simp
    split
    · rename_i hnone
      have := List.getElem?_eq_none_iff.1 hnone
      omega
    · split
      · simp
      · split
        · split
          · refine ⟨by simp, by simp, ?_⟩
            intro s e h
            simp only [Out.ok.injEq, Prod.mk.injEq] at h
            omega
          · simp
        · simp
        · rename_i e; exact absurd e hstop.1
        · rename_i e; exact absurd e hstop.2

/-- before the repair `/First 1` plus the offset 2^64 − 1 overflowed; now it is an error -/
theorem objSliceOld_panics : objSlice 64 false 1 [0, 18446744073709551615] 0 20 = .panic := by decide
example : objSlice 64 true 1 [0, 18446744073709551615] 0 20 = .err := by decide
example : objSlice 64 true 10 [0, 3] 0 18 = .ok (10, 13) ∧ objSlice 64 true 10 [0, 3] 1 18 = .ok (13, 18) := by decide

/-- **/Differences**: for every sequence of codes (any `i32`, negative ones included) and names the
    running code is advanced without overflow. -/
theorem differences_total : ∀ (parts : List DPart) (gid : Nat) (m : List (Nat × Nat)),
    differences true parts gid m ≠ .panic ∧ differences true parts gid m ≠ .oof := by
  intro parts
  induction parts with
  | nil => intro gid m; simp [differences]
  | cons p rest ih =>
    intro gid m
    cases p with
    | code c => simp only [differences]; exact ih _ _
    | name n =>
      simp only [differences]
      split
      · simp
      · exact ih _ _
    | other => simp [differences]

theorem differencesOld_panics : differences false [.code (-1), .name 7] 0 [] = .panic := by decide
example : differences true [.code (-1), .name 7] 0 [] = .err := by decide
example : differences true [.code 32, .name 1, .name 2, .code 32, .name 3] 0 [] = .ok [(32, 3), (33, 2)] := by decide

/-- **PostScript programs**: cutting the body out of any byte string is total … -/
theorem ps_body_total (s : List Nat) : psBody true s ≠ .panic ∧ psBody true s ≠ .oof := by
  unfold psBody
  split
  · split <;> simp
  · simp

/-- … and so is running any program on any stack, for every arithmetic of the value type and every
    result of the float-to-integer casts (`roll` with a count beyond the stack, a shift beyond the count,
    the most negative shift; `index` beyond the stack; underflow in every operator). -/
theorem ps_exec_total {V : Type} (A : Arith V) (ops : List (PsOp V)) (input : List V) (outLen : Nat) :
    exec A true ops input outLen ≠ .panic ∧ exec A true ops input outLen ≠ .oof := by
  unfold exec
  have h := execInner_ne_bad A ops input
  split
  · split <;> simp
  · simp
  · rename_i e; exact absurd e h.1
  · rename_i e; exact absurd e h.2

/-- integer arithmetic as a stand-in for f32 in the witnesses (casts: identity, negatives to 0) -/
def intArith : Arith Int := ⟨id, (· + ·), (· - ·), (· * ·), fun x => (Int.natAbs x : Int), id, Int.toNat⟩

/-- **D35 before the repair**: `}{`, `1 2 2 5 roll`, `5 1 roll`, and the most negative shift -/
theorem psOld_panics :
    psBody false [125, 123] = .panic ∧
    execInner intArith false [.int 1, .int 2, .int 2, .int 5, .roll] [] = .panic ∧
    execInner intArith false [.int 5, .int 1, .roll] [] = .panic ∧
    execInner intArith false [.int 1, .int 1, .int isizeMin, .roll] [] = .panic := by decide
example : psBody true [125, 123] = .err := by decide
example : execInner intArith true [.int 1, .int 2, .int 2, .int 5, .roll] [] = .ok [2, 1] := by decide
example : execInner intArith true [.int 5, .int 1, .roll] [] = .err := by decide
example : execInner intArith true [.int 1, .int 2, .int 3, .int 3, .int (-1), .roll] [] = .ok [2, 3, 1] := by decide
example : execInner intArith true [.int 1, .int 2, .int 3, .int 3, .int 1, .roll] [] =
    execInner intArith false [.int 1, .int 2, .int 3, .int 3, .int 1, .roll] [] := by decide

/-- **CCITT dimensions**: any /Columns and /Rows are accepted or rejected, never divided by. -/
theorem fax_dims_total (columns rows : Nat) : faxDims true columns rows ≠ .panic ∧ faxDims true columns rows ≠ .oof := by
  unfold faxDims
  rw [if_pos rfl]
  split
  · simp
  · split <;> simp

/-- … and what a stream with a stated number of rows may decode to is bounded by its own length:
    at most `8 · len` rows of at most 65535 bytes (four bytes cannot claim 4 GiB). -/
theorem fax_output_bounded (columns rows dataLen c r : Nat) (h : faxDimsData columns rows dataLen = .ok (c, r)) :
    c ≤ 65535 ∧ r ≤ 8 * dataLen := by
  unfold faxDimsData faxDims at h
  rw [if_pos rfl] at h
  by_cases h1 : columns = 0 ∨ columns > 65535
  · simp [h1] at h
  · by_cases h2 : rows > 65535
    · simp [h1, h2] at h
    · simp only [h1, h2, if_false] at h
      by_cases h3 : rows > 8 * dataLen
      · simp [h3] at h
      · simp only [h3, if_false, Out.ok.injEq, Prod.mk.injEq] at h
        omega

theorem faxOld_panics : faxDims false 0 5 = .panic ∧ faxDims false 4294967295 4294967295 = .panic := by decide

-- ===================================================================================================
-- 7b. key lengths and predictor geometry with arbitrary parameters (models of the C06 / C05 packages)

/-- **Key lengths**: for every revision, every key length in bits (not a multiple of 8, zero, 136, 256,
    2^31 − 8, …) and both outcomes of the user password check, the slices and cipher keys of
    `from_password` stay inside their buffers. -/
theorem key_schedule_total (revision keyBits : Nat) (userOk : Bool) :
    keySchedule true revision keyBits userOk ≠ .panic ∧ keySchedule true revision keyBits userOk ≠ .oof := by
  rcases keySchedule_returns revision keyBits userOk with h | h <;> rw [h] <;> simp

/-- the same with the key of the object cipher, for every key size and every key buffer that
    `from_password` can hand over (`max key_size 16` bytes, or the 32 bytes of revisions 5 and 6) -/
theorem object_key_total (aes : Bool) (keySize keyLen : Nat) (h : min keySize 16 ≤ keyLen) :
    objectKeySlices aes keySize keyLen ≠ .panic ∧ objectKeySlices aes keySize keyLen ≠ .oof := by
  rw [objectKeySlices_ok aes keySize keyLen h]; simp

/-- **Why the `min`**: without the clamp in step h) of Algorithm 2, a key length of 136 bits (17 bytes) —
    which passes `% 8` and every revision check — slices 17 bytes out of the 16 byte digest. -/
theorem keyUnclamped_panics : keySchedule false 3 136 true = .panic ∧ keySchedule false 4 256 false = .panic := by decide
example : keySchedule true 3 136 true = .ok () ∧ keySchedule true 4 256 false = .err ∧ keySchedule true 2 136 true = .ok () := by decide
example : keySchedule true 3 256 true = .ok () ∧ keySchedule true 3 264 true = .err ∧ keySchedule true 4 2147483640 true = .err := by decide
example : keySchedule true 3 0 true = .err ∧ keySchedule true 3 7 true = .err ∧ keySchedule true 3 8 false = .ok () := by decide

/-- **Memory in proportion**: whatever /Length says, the key buffers of `from_password` take at most 64
    bytes; before the repair `/Length 2147483640` asked for two buffers of 268 MB. -/
theorem key_buffer_bounded (keyBits : Nat) : keyBufferBytes true keyBits ≤ 64 := by
  unfold keyBufferBytes
  simp only []
  split
  · omega
  · split
    · omega
    · rename_i h1 h2
      simp only [Bool.true_and, decide_eq_true_eq] at h2
      omega
theorem keyBufferOld_unbounded : keyBufferBytes false 2147483640 = 536870910 := by decide

/-- the crypt filter's key length: any number of bytes -/
theorem cf_key_bits_total (n : Nat) : cfKeyBits true n ≠ .panic ∧ cfKeyBits true n ≠ .oof := by
  unfold cfKeyBits; split <;> simp
theorem cfKeyBitsOld_panics : cfKeyBits false 536870912 = .panic := by decide

/-- **`from_password` on the C06 model, revisions 2–4, arbitrary key length**: whenever the hash
    primitives are functions with the digest lengths of MD5 (`PrimsAgree`, `WF`), the model returns a
    decoder, `InvalidPassword` or an error for *every* dictionary, id, password, level and `keyBits` — the
    C06 theorems cover 8 ≤ keyBits ≤ 128 and say which; this one covers the rest and says "no panic". -/
theorem from_password_rc4_total {P : Crypt.Prims} {H : StdSec.Hashes} (hp : StdSec.PrimsAgree P H) (hw : H.WF)
    (d : Crypt.CryptDict) (id pass : Crypt.Bytes) (level keyBits : Nat) (m : Crypt.Method) :
    Crypt.fromPasswordRc4 P d id pass level keyBits m ≠ .panic ∧ Crypt.fromPasswordRc4 P d id pass level keyBits m ≠ .oof :=
  Crypt.fromPasswordRc4_returns hp hw d id pass level keyBits m

/-- **Predictor geometry**: what `predictor_geometry` accepts has at least one column, one colour and a
    row of at least one byte — so neither `chunks_mut(stride)` (TIFF) nor `len / (stride + 1)` (PNG) sees a zero. -/
theorem predictor_geometry_guards (p : Enc.Params) (bpp stride : Nat) (h : Enc.predictorGeometry p = .ok (bpp, stride)) :
    1 ≤ p.colors ∧ 1 ≤ p.columns ∧ 1 ≤ bpp ∧ 1 ≤ stride := by
  unfold Enc.predictorGeometry at h
  split at h
  · simp at h
  · rename_i hg
    simp only [] at h
    split at h
    · simp only [Out.ok.injEq, Prod.mk.injEq] at h
      have hc : 1 ≤ p.colors := by omega
      have hk : 1 ≤ p.columns := by omega
      have hb : 1 ≤ p.bpc := by omega
      have h1 : 1 ≤ p.colors.toNat := by omega
      have h2 : 1 ≤ p.columns.toNat := by omega
      have h3 : 1 ≤ p.bpc.toNat := by omega
      have hpix : 1 ≤ p.colors.toNat * p.bpc.toNat := Nat.mul_pos h1 h3
      have hrow : 1 ≤ p.colors.toNat * p.bpc.toNat * p.columns.toNat := Nat.mul_pos hpix h2
      refine ⟨hc, hk, ?_, ?_⟩
      · rw [← h.1]; omega
      · rw [← h.2]; omega
    · simp at h

/-- **Undoing a predictor is total** for every /Predictor, /Colors, /BitsPerComponent, /Columns (any
    `i32`) and every decoded byte string (`Lemmas/EncTotal.lean` of the C05 package). -/
theorem unpredict_total (decoded : Enc.Bytes) (p : Enc.Params) :
    Enc.unpredict decoded p ≠ .panic ∧ Enc.unpredict decoded p ≠ .oof :=
  Enc.unpredict_returns decoded p

/-- **Why `columns < 1`**: a row length of zero reaches `chunks_mut(0)` under the TIFF predictor (and only
    there: the PNG loop divides by `stride + 1`). -/
theorem tiffZeroStride_panics : Enc.tiffUnpredict [1, 2, 3] 1 8 0 0 = .panic := by decide
example : Enc.unpredict [1, 2, 3] { predictor := 2, columns := 0 } = .err := by decide
example : Enc.unpredict [1, 2, 3] { predictor := 12, columns := 0 } = .err := by decide

-- ===================================================================================================
-- 8. what this does not carry

/-- The full-strength statement for the modelled layer: *every* read entry point of the model is total.
    It is proved below without exclusions; what C14 as a whole does not get from it is listed in
    `claims/C14.json` (derive-generated loaders and third-party decoders are covered by the generic guard
    model plus the walker search, not line by line). No defect is excluded: D33 (width arrays), D18 (key lengths)
    and D13/D14 (filter geometry), once open and owned by other packages, are repaired; the only open C14 finding
    is about *work* without the object cache (`timeout:fanout`), which this statement does not speak about —
    every conjunct is "returns a value or an error" (`Out.Returns`: `≠ .panic ∧ ≠ .oof`), i.e. totality and bounded
    DEPTH. Conjuncts 3, 5, 6 and the `≠ .oof` half of 4 are true by construction of the model (see the header). -/
def C14_model_full : Prop :=
  (∀ (g : Graph) (tol : Bool) (k : Nat), Out.Returns (load g tol (g.length + 1) [] k)) ∧
  (∀ (g : List Stored) (p : Prim), Out.Returns (fromPrim g 2 p)) ∧
  (∀ (g : List TNode) (root : TNode), Out.Returns (walkTree g root).out) ∧
  (∀ (g : List PNode) (kids : List Nat) (n : Nat), Out.Returns (page g true kids n).out) ∧
  (∀ (g : List CObj) (k : Nat), Out.Returns (csLoad g 5 k)) ∧
  (∀ (g : List AObj) (k : Nat), Out.Returns (apLoad g 2 k)) ∧
  (∀ (secs : Sections) (start xrefOffset : Nat), Out.Returns (readChain secs start (secs.length + 1) xrefOffset)) ∧
  (∀ bits tol num width data, Out.Returns (xrefSection bits true tol num width data)) ∧
  (∀ bits first offsets index len, Out.Returns (objSlice bits true first offsets index len)) ∧
  (∀ parts, Out.Returns (differences true parts 0 [])) ∧
  (∀ s, Out.Returns (psBody true s)) ∧
  (∀ (ops : List (PsOp Int)) input outLen, Out.Returns (exec intArith true ops input outLen)) ∧
  (∀ c r, Out.Returns (faxDims true c r))

theorem C14_model_total : C14_model_full := by
  refine ⟨?_, ?_, ?_, ?_, ?_, ?_, ?_, ?_, ?_, ?_, ?_, ?_, ?_⟩
  · intro g tol k; exact ⟨guarded_load_never_panics g tol _ _ _, guarded_load_terminates g tol k⟩
  · intro g p; exact ⟨(fromPrim_total g p).2, (fromPrim_total g p).1⟩
  · intro g root; exact walk_total g root
  · intro g kids n; exact page_total g kids n
  · intro g k; exact colorspace_total g k
  · intro g k; exact appearance_total g k
  · intro secs start x; exact ⟨(prev_loop_terminates secs start x).2, (prev_loop_terminates secs start x).1⟩
  · intro bits tol num width data
    exact ⟨(xref_section_total bits tol num width data).1, (xref_section_total bits tol num width data).2.1⟩
  · intro bits first offsets index len
    exact ⟨(obj_slice_total bits first offsets index len).1, (obj_slice_total bits first offsets index len).2.1⟩
  · intro parts; exact differences_total parts 0 []
  · intro s; exact ps_body_total s
  · intro ops input outLen; exact ps_exec_total intArith ops input outLen
  · intro c r; exact fax_dims_total c r

end C14

/-! ## Tie to the source: constants and byte classes (appended by the translator package)

`Generated/Lexical.lean` is re-extracted from `pdf/src` by `./check` before this file is built. -/

namespace C14

/-- the budgets of the guarded loaders are the ones of the source: nested typed loads (`MAX_NESTED_GETS`), name / number tree depth (`MAX_TREE_DEPTH`), reference chains of `Resolve::resolve`, the page-tree depth, and the colour-space depth 5 for which `colorspace_total` is stated -/
theorem constants_match_source :
    (TypedLoad.maxNest = Generated.maxNestedGets) ∧
    (TypedLoad.maxTreeDepth = Generated.maxTreeDepth) ∧
    (∀ (g : List TypedLoad.Stored) (k : Nat), TypedLoad.resolve g k = TypedLoad.resolveFlags g Generated.resolveDepth k) ∧
    (∀ (g : List TypedLoad.PNode) (c : Bool) (kids : List Nat) (n : Nat),
      TypedLoad.page g c kids n = TypedLoad.pageLimited g c Generated.pageTreeDepth kids n) ∧
    (Generated.colorSpaceDepth = 5) := by
  refine ⟨?_, ?_, ?_, ?_, ?_⟩
  · first | decide +kernel | fail "constants_match_source (C14): the model's TypedLoad.maxNest does not match the source (Generated.maxNestedGets, re-extracted from pdf/src)"
  · first | decide +kernel | fail "constants_match_source (C14): the model's TypedLoad.maxTreeDepth does not match the source (Generated.maxTreeDepth, re-extracted from pdf/src)"
  · first | ((have _h : Generated.resolveDepth = 16 := (by decide +kernel)); intros; rfl) | fail "constants_match_source (C14): the model's TypedLoad.Stored, TypedLoad.resolve, TypedLoad.resolveFlags does not match the source (Generated.resolveDepth, re-extracted from pdf/src)"
  · first | ((have _h : Generated.pageTreeDepth = 16 := (by decide +kernel)); intros; rfl) | fail "constants_match_source (C14): the model's TypedLoad.PNode, TypedLoad.page, TypedLoad.pageLimited does not match the source (Generated.pageTreeDepth, re-extracted from pdf/src)"
  · first | decide +kernel | fail "constants_match_source (C14): the model's statement does not match the source (Generated.colorSpaceDepth, re-extracted from pdf/src)"

end C14
