import PdfModel.Lemmas.StorageRun
import PdfModel.Lemmas.StoragePrefix
import PdfModel.Lemmas.StorageLoad
import PdfModel.Lemmas.HistBytes
import PdfModel.Lemmas.BuildBytes

/-!
# C09 — a reload sees exactly the saved modifications and nothing else changes

The theorems are about the model in `Model/Storage.lean` (`run` over arbitrary operation histories of
`create / update / promise / fulfil / get / resolve / save`, saves that fail included) and the abstract
map of `Spec/Storage.lean` (`specRun`: reference ↦ last value written through it). They hold for every
value type `V`, every serialisability predicate `P.ok`, every record layout with positive lengths and
every base document `d0` that satisfies `BaseOK` (what a freshly loaded well-formed file satisfies: see
the non-vacuity examples at the end). The correspondence check for C09 ties `step`, `save` and `reload`
to `Storage::{create, update, promise, fulfill, save}`, `StorageResolver::{resolve, get}` and
`load_storage_and_trailer` of the current source tree.
-/

namespace Storage
open Xref

variable {V : Type}

/-- every save of the history lays its records out with positive lengths -/
def HistOK (ops : List (Op V)) : Prop := ∀ op ∈ ops, OpOK op

/-- **C09, "for every loadable file"**: the hypothesis `BaseOK` of the theorems below is what opening a
    well-formed file gives. `FileWF` speaks about the bytes only: the newest cross-reference section and
    the sections `/Prev` reaches mention numbers below `/Size`, offsets inside the file, and generations
    that never increase towards older sections (the well-formedness of C02, in its strong form). -/
theorem loaded_file_is_base (s : St V) (s0 : Sec) (chain : List (List Sub)) (wf : FileWF s s0 chain) (c : Bool)
    (d0 : Doc V) (h : reload s c = .ok d0) : BaseOK d0 chain :=
  load_baseOK s s0 chain wf c d0 h

/-- **C09, "before any save every read through the same open document already reflects each write"**
    (and after saves, failed or not): whatever the history, a reference that was written — the very
    reference the caller was handed — resolves to the last value written, through `resolve` and through
    the caching `get`. -/
theorem read_your_writes (P : Params V) (d0 : Doc V) (chain0) (hb : BaseOK d0 chain0) (ops : List (Op V))
    (hops : HistOK ops) (id : Nat) (v : V)
    (hw : specRun AMap.empty ops (run P d0 ops).2 id = some v) :
    resolve (run P d0 ops).1.st id = .val v ∧ (get (run P d0 ops).1.st id).2 = .val v := by
  have hi := run_inv P d0 chain0 hb ops d0 (inv_base d0 chain0 hb) hops
  have hm := run_log P d0 chain0 hb ops d0 AMap.empty (inv_base d0 chain0 hb) (logInv_base d0 chain0 hb) hops
  obtain ⟨g, hg⟩ := hm.written id v hw
  have hr := resolve_changed _ id v g hg
  refine ⟨hr, ?_⟩
  unfold get
  split
  · split
    · rename_i r hc
      exact ((hi.cache_ok id r hc v).mpr hr)
    · exact hr
  · exact hr

/-- **C09, D22**: when `update` / `fulfil` hand back a reference, its *number* is the number they were given (the
    statement is about the number only; that the generation is the one of the table entry, or 0 for a compressed or
    promised one, is in the model's `update` and is compared by the correspondence `c09.hist`). -/
theorem update_keeps_reference (P : Params V) (d : Doc V) (id : Nat) (v : V) (i g : Nat)
    (h : (step P d (.update id v)).2 = .ref i g ∨ (step P d (.fulfil id v)).2 = .ref i g) : i = id := by
  rw [step_fulfil_eq, or_self] at h
  rcases step_update_cases P d id v with ⟨g', h'⟩ | ⟨o, h'⟩
  · rw [h'] at h; simp only [Res.ref.injEq] at h; exact h.1.symm
  · rw [h'] at h; cases h

/-- **C09, untouched objects, in the open document**: a number of the loaded table that the history
    never wrote (nor the object stream holding it) reads exactly as it did after loading. -/
theorem untouched_reads_unchanged (P : Params V) (d0 : Doc V) (chain0) (hb : BaseOK d0 chain0) (ops : List (Op V))
    (hops : HistOK ops) (id : Nat) (hid : id < d0.st.refs.length)
    (hu : specRun AMap.empty ops (run P d0 ops).2 id = none)
    (hcont : ∀ sid idx, d0.st.refs[id]? = some (.stream sid idx) →
      specRun AMap.empty ops (run P d0 ops).2 sid = none) :
    resolve (run P d0 ops).1.st id = resolve d0.st id := by
  have hi := run_inv P d0 chain0 hb ops d0 (inv_base d0 chain0 hb) hops
  have hm := run_log P d0 chain0 hb ops d0 AMap.empty (inv_base d0 chain0 hb) (logInv_base d0 chain0 hb) hops
  apply resolve_untouched d0 _ chain0 hb hi id hid (hm.untouched id hu hid)
  intro sid idx he
  exact hm.untouched sid (hcont sid idx he) (hb.stream_lt id sid idx he)

/-- **C09, reload.** After any history — several saves, failed saves, retries — a successful save
    produces bytes that load again, with the same trailer, and in which
    * every written reference (the one the caller passed or was handed) resolves to the last value written;
    * every untouched number of the loaded table resolves as before (an undefined number may now read as
      free: both are null objects), stream objects and compressed objects included. -/
theorem reload_sees_saved (P : Params V) (d0 : Doc V) (chain0) (hb : BaseOK d0 chain0) (ops : List (Op V))
    (hops : HistOK ops) (L : Layout) (hL : L.Pos) (d' : Doc V) (i : SaveInfo)
    (hs : save P L (run P d0 ops).1 = (d', .ok i)) (c : Bool) :
    ∃ dr, reload d'.st c = .ok dr ∧ dr.tr = d0.tr ∧
      (∀ id v, specRun AMap.empty ops (run P d0 ops).2 id = some v → resolve dr.st id = .val v) ∧
      (∀ id, id < d0.st.refs.length → specRun AMap.empty ops (run P d0 ops).2 id = none →
        (∀ sid idx, d0.st.refs[id]? = some (.stream sid idx) →
          specRun AMap.empty ops (run P d0 ops).2 sid = none) →
        sameRd (resolve dr.st id) (resolve d0.st id)) := by
  have hi := run_inv P d0 chain0 hb ops d0 (inv_base d0 chain0 hb) hops
  have hm := run_log P d0 chain0 hb ops d0 AMap.empty (inv_base d0 chain0 hb) (logInv_base d0 chain0 hb) hops
  have pf := prep_facts d0 _ chain0 hb hi
  obtain ⟨t, hr, facts⟩ := reload_after_save P L hL d0 _ d' chain0 i hb hi hs c
  refine ⟨_, hr, hi.tr_eq, ?_, ?_⟩
  · intro id v hw
    obtain ⟨g, hg⟩ := hm.written id v hw
    exact facts.pending id v g (pf.ch_sup id _ hg) c
  · intro id hid hu hcont
    have hlt : ∀ j, j < d0.st.refs.length → j < (run P d0 ops).1.st.refs.length := by
      intro j hj; have := hi.refs_len; omega
    apply facts.old id hid
    · rw [pf.ch_sub id (hlt id hid)]; exact hm.untouched id hu hid
    · intro sid idx he
      have hsid := hb.stream_lt id sid idx he
      rw [pf.ch_sub sid (hlt sid hsid)]
      exact hm.untouched sid (hcont sid idx he) hsid

/-- a *successful* `save` has written a `/Size` within the reader's limit (`MAX_ID` = 1 000 000) — what the statement
    says. That a save over the limit fails and leaves the document as it was (D46) is `Storage.save_too_big`
    (Lemmas/StorageSave.lean: `MAX_ID < refs.length + 2 → save P L d = (d, .err)`), not this theorem. -/
theorem save_respects_reader_limit (P : Params V) (L : Layout) (d d' : Doc V) (i : SaveInfo)
    (hs : save P L d = (d', .ok i)) : i.size ≤ MAX_ID ∧ d.st.refs.length + 2 ≤ MAX_ID := by
  obtain ⟨_, _, _, _, _, _, _, _, h3, _, h5⟩ := save_ok_spec P L d d' i hs
  refine ⟨?_, h5⟩
  rw [h3]; simp only [prep]; exact h5

/-- **C09, "the bytes of the previous revision remain an unmodified prefix"**: one more operation —
    whatever it is, whether it succeeds or fails — leaves every object and section of the backend at its
    offset and only adds records at or after the old end of the file. No hypothesis at all. -/
theorem prefix_preserved (P : Params V) (d : Doc V) (ops : List (Op V)) (op : Op V) :
    Extends (run P d ops).1.st (run P d (ops ++ [op])).1.st := by
  have happ : ∀ (a b : List (Op V)) (d : Doc V), (run P d (a ++ b)).1 = (run P (run P d a).1 b).1 := by
    intro a
    induction a with
    | nil => intro b d; rfl
    | cons x xs ih => intro b d; simp only [List.cons_append, run]; exact ih b _
  rw [happ]
  simp only [run]
  exact step_extends P _ op

/-- the same over a whole history -/
theorem history_prefix_preserved (P : Params V) (d : Doc V) (ops : List (Op V)) :
    Extends d.st (run P d ops).1.st := run_extends P ops d

/-- **C09, "a save that fails and is retried after the offending object is replaced"**: for a document
    reached by any history (failed saves included), `save` succeeds as soon as every pending value is
    serialisable, no promise is open, the catalog resolves and the table is within the reader's limit —
    the failed attempts leave nothing behind that could stop it — and the reload theorem applies.
    Hypothesis `ht : L.typed = true`: the typed reload of the trailer at the end of this save succeeds (the catalog loads as
    a catalog: an input of the model, see `Layout.typed`); without it the save fails after writing
    (`late_failure_keeps_revision`). `Savable` is the conjunction named above. -/
theorem save_retry_after_failure (P : Params V) (d0 : Doc V) (chain0) (hb : BaseOK d0 chain0) (ops : List (Op V))
    (hops : HistOK ops) (L : Layout) (hL : L.Pos) (ht : L.typed = true) (hsv : Savable P (run P d0 ops).1)
    (hsize : (run P d0 ops).1.st.refs.length + 2 ≤ MAX_ID) (c : Bool) :
    ∃ d' i dr, save P L (run P d0 ops).1 = (d', .ok i) ∧ reload d'.st c = .ok dr ∧
      ∀ id v, specRun AMap.empty ops (run P d0 ops).2 id = some v → resolve dr.st id = .val v := by
  have hi := run_inv P d0 chain0 hb ops d0 (inv_base d0 chain0 hb) hops
  obtain ⟨d', i, hs⟩ := save_succeeds P L hL ht d0 _ chain0 hb hi hsv hsize
  obtain ⟨dr, h1, _, h2, _⟩ := reload_sees_saved P d0 chain0 hb ops hops L hL d' i hs c
  exact ⟨d', i, dr, hs, h1, h2⟩

/-- a save is an `ok` or an `err`, never a panic (first conjunct: this is the content, through `inv_save`). The second
    conjunct — the abstract map after `ops ++ [save]` is the map after `ops` — holds *by construction* of the
    specification (`specStep` records writes of `create / update / fulfil` only and ignores `save`; it needs none of the
    hypotheses). What makes a failed save invisible is that `read_your_writes` and `untouched_reads_unchanged` hold for the
    history *including* the failed save (they are stated for every history): every written reference still reads its last
    value, every untouched number what it read before. -/
theorem failed_save_is_clean (P : Params V) (d0 : Doc V) (chain0) (hb : BaseOK d0 chain0) (ops : List (Op V))
    (hops : HistOK ops) (L : Layout) (hL : L.Pos) :
    ((∃ i, (save P L (run P d0 ops).1).2 = .ok i) ∨ (save P L (run P d0 ops).1).2 = .err) ∧
    specRun AMap.empty (ops ++ [.save L]) (run P d0 (ops ++ [.save L])).2
      = specRun AMap.empty ops (run P d0 ops).2 := by
  have hi := run_inv P d0 chain0 hb ops d0 (inv_base d0 chain0 hb) hops
  refine ⟨(inv_save P L hL d0 _ chain0 hb hi).2, ?_⟩
  have key : ∀ (a : List (Op V)) (d : Doc V) (m : AMap V),
      specRun m (a ++ [.save L]) (run P d (a ++ [.save L])).2 = specRun m a (run P d a).2 := by
    intro a
    induction a with
    | nil =>
      intro d m
      simp only [List.nil_append, run, specRun, step]
      split <;> rfl
    | cons x xs ih => intro d m; simp only [List.cons_append, run, specRun]; exact ih _ _
  exact key ops d0 _

theorem run_append (P : Params V) : ∀ (a b : List (Op V)) (d : Doc V),
    (run P d (a ++ b)).1 = (run P (run P d a).1 b).1 := by
  intro a
  induction a with
  | nil => intro b d; rfl
  | cons x xs ih => intro b d; simp only [List.cons_append, run]; exact ih b _

theorem run_save (P : Params V) (L : Layout) (d : Doc V) : (run P d [.save L]).1 = (save P L d).1 := by
  simp only [run, step]
  generalize save P L d = r
  obtain ⟨d', o⟩ := r
  cases o <;> rfl

/-- **C09, a save that fails after its revision was appended** (`Trailer::from_dict` at the end of `save`: the
    catalog — or whatever else the typed trailer loads — no longer reads back as what it must be; `write_revision`
    had succeeded). The save is an `Err`; the caller's trailer is untouched; the backend has grown by one complete
    revision and nothing in front of it has moved; that revision's table is the table of a completed save (every
    pending number at its record, every untouched number as before: `ReloadFacts`); in the open document every
    written reference still reads the last value written. -/
theorem late_failure_keeps_revision (P : Params V) (d0 : Doc V) (chain0) (hb : BaseOK d0 chain0) (ops : List (Op V))
    (hops : HistOK ops) (L : Layout) (hL : L.Pos) (i : SaveInfo)
    (hc : commitInfo P L (run P d0 ops).1 = some i)
    (hfail : ∀ i', (save P L (run P d0 ops).1).2 ≠ .ok i') :
    (save P L (run P d0 ops).1).2 = .err ∧
    (save P L (run P d0 ops).1).1.tr = (run P d0 ops).1.tr ∧
    Extends (run P d0 ops).1.st (save P L (run P d0 ops).1).1.st ∧
    (run P d0 ops).1.st.len < (save P L (run P d0 ops).1).1.st.len ∧
    (∃ t, mergeAll (newTable (prep (run P d0 ops).1).size) ([⟨0, i.rows⟩] :: chain0) = .ok t ∧
      ReloadFacts P d0 (run P d0 ops).1 (save P L (run P d0 ops).1).1 i t) ∧
    (∀ id v, specRun AMap.empty ops (run P d0 ops).2 id = some v →
      resolve (save P L (run P d0 ops).1).1.st id = .val v) := by
  have hi := run_inv P d0 chain0 hb ops d0 (inv_base d0 chain0 hb) hops
  have pf := prep_facts d0 _ chain0 hb hi
  obtain ⟨hcm, htr⟩ := commitInfo_some P L d0 _ chain0 hb hi i hc
  have htr' : (save P L (run P d0 ops).1).1.tr = (run P d0 ops).1.tr := by
    rcases htr with h | ⟨i', h⟩
    · exact h
    · exact absurd h (hfail i')
  have herr : (save P L (run P d0 ops).1).2 = .err := by
    rcases (inv_save P L hL d0 _ chain0 hb hi).2 with ⟨i', h⟩ | h
    · exact absurd h (hfail i')
    · exact h
  have hlen : (run P d0 ops).1.st.len < (save P L (run P d0 ops).1).1.st.len := by
    obtain ⟨w, rows, hw, hr, hst, _, _⟩ := hcm
    obtain ⟨k1, _, _, _⟩ := writeChanges_ok P L _ hL.1 _ _ _ hw pf.inv.sorted pf.inv.objs_lt
    simp only at k1
    rw [hst]; simp only [commit]
    have := hL.2 (saveInfoOf (prep (run P d0 ops).1) w (w.refs.set (prep (run P d0 ops).1).xid (.raw (w.len - (prep (run P d0 ops).1).st2.start) 0)) rows)
    have := pf.len_same
    omega
  refine ⟨herr, htr', ?_, hlen, reload_table_facts_c P L hL d0 _ _ chain0 i hb hi hcm htr', ?_⟩
  · have := step_extends P (run P d0 ops).1 (.save L)
    rw [show (step P (run P d0 ops).1 (.save L)).1 = (save P L (run P d0 ops).1).1 from by
      have := run_save P L (run P d0 ops).1; simpa [run] using this] at this
    exact this
  · intro id v hw
    have hops' : HistOK (ops ++ [.save L]) := by
      intro op hop
      simp only [List.mem_append, List.mem_singleton] at hop
      rcases hop with hop | rfl
      · exact hops op hop
      · exact hL
    have hclean := (failed_save_is_clean P d0 chain0 hb ops hops L hL).2
    have := (read_your_writes P d0 chain0 hb (ops ++ [.save L]) hops' id v (by rw [hclean]; exact hw)).1
    rw [run_append, run_save] at this
    exact this

/-- **C09, "a save that fails and is retried after the offending object is replaced", for the failure after the
    write**: the history goes on after the late failure (`ops'`: the repair — e.g. `update` of the catalog — and
    anything else), then a save under which the typed trailer loads again. It succeeds as soon as the document is
    savable; the reload of its output sees every write of the whole history (before and after the failed save) at its
    last value; and the backend of the failed save — previous revisions *and* the revision the failed save left
    behind — is an unmodified prefix of the output; the failed save (hypotheses `hc`, `hfail`: it wrote its revision and
    did not return `Ok`) really did lengthen the backend, so the output is longer than the file before it by more than the
    last revision. -/
theorem save_retry_after_late_failure (P : Params V) (d0 : Doc V) (chain0) (hb : BaseOK d0 chain0) (ops : List (Op V))
    (hops : HistOK ops) (L : Layout) (hL : L.Pos) (i : SaveInfo)
    (hc : commitInfo P L (run P d0 ops).1 = some i)
    (hfail : ∀ i', (save P L (run P d0 ops).1).2 ≠ .ok i')
    (ops' : List (Op V)) (hops' : HistOK ops') (L' : Layout) (hL' : L'.Pos) (ht' : L'.typed = true)
    (hsv : Savable P (run P d0 (ops ++ [.save L] ++ ops')).1)
    (hsize : (run P d0 (ops ++ [.save L] ++ ops')).1.st.refs.length + 2 ≤ MAX_ID) (c : Bool) :
    ∃ d' i' dr, save P L' (run P d0 (ops ++ [.save L] ++ ops')).1 = (d', .ok i') ∧ reload d'.st c = .ok dr ∧
      (∀ id v, specRun AMap.empty (ops ++ [.save L] ++ ops') (run P d0 (ops ++ [.save L] ++ ops')).2 id = some v →
        resolve dr.st id = .val v) ∧
      Extends (save P L (run P d0 ops).1).1.st d'.st ∧
      (run P d0 ops).1.st.len < (save P L (run P d0 ops).1).1.st.len ∧ (run P d0 ops).1.st.len < d'.st.len := by
  have hall : HistOK (ops ++ [.save L] ++ ops') := by
    intro op hop
    simp only [List.mem_append, List.mem_singleton] at hop
    rcases hop with (hop | rfl) | hop
    · exact hops op hop
    · exact hL
    · exact hops' op hop
  obtain ⟨d', i', dr, h1, h2, h3⟩ := save_retry_after_failure P d0 chain0 hb _ hall L' hL' ht' hsv hsize c
  obtain ⟨_, _, _, hlate, _, _⟩ := late_failure_keeps_revision P d0 chain0 hb ops hops L hL i hc hfail
  suffices hext : Extends (save P L (run P d0 ops).1).1.st d'.st from
    ⟨d', i', dr, h1, h2, h3, hext, hlate, Nat.lt_of_lt_of_le hlate hext.len⟩
  have e1 : (run P d0 (ops ++ [.save L] ++ ops')).1 = (run P (save P L (run P d0 ops).1).1 ops').1 := by
    rw [run_append, run_append, run_save]
  have hx := run_extends P ops' (save P L (run P d0 ops).1).1
  rw [← e1] at hx
  have hy := step_extends P (run P d0 (ops ++ [.save L] ++ ops')).1 (.save L')
  rw [show (step P (run P d0 (ops ++ [.save L] ++ ops')).1 (.save L')).1 = d' from by
    have := run_save P L' (run P d0 (ops ++ [.save L] ++ ops')).1
    rw [h1] at this; simpa [run] using this] at hy
  exact hx.trans hy

/-- **C09, "several saves in a row"**: from a savable document any number of saves in a row all
    succeed, as long as the table stays within the reader's limit (each save allocates at most two numbers).
    Hypotheses that are easy to overlook: `hx` — the cross-reference stream value a save leaves pending is itself
    serialisable (`P.ok (P.xrefVal i)`: true of `SaveBytes.params` under `Bounds`, an assumption about `P` here); every
    layout has `L.typed = true` (the typed reload of the trailer succeeds each time). -/
theorem saves_in_a_row (P : Params V) (hx : ∀ i, P.ok (P.xrefVal i) = true) (d0 : Doc V) (chain0) (hb : BaseOK d0 chain0) :
    ∀ (Ls : List Layout), (∀ L ∈ Ls, L.Pos ∧ L.typed = true) → ∀ (d : Doc V), Inv d0 d → Savable P d →
      d.st.refs.length + 2 * Ls.length ≤ MAX_ID →
      ∀ r ∈ (run P d (Ls.map Op.save)).2, ∃ i, r = Res.saved i := by
  intro Ls
  induction Ls with
  | nil => intro _ d _ _ _ r hr; simp [run] at hr
  | cons L Ls ih =>
    intro hpos d hi hsv hsz r hr
    simp only [List.length_cons] at hsz
    obtain ⟨d', i, hs⟩ := save_succeeds P L (hpos L (by simp)).1 (hpos L (by simp)).2 d0 d chain0 hb hi hsv (by omega)
    have hi' := inv_save_ok P L (hpos L (by simp)).1 d0 d d' chain0 i hb hi hs
    have hsv' := savable_after_save P L (hpos L (by simp)).1 d0 d d' chain0 i hb hi hx hsv hs
    have hg := save_grows P L d0 d d' chain0 i hb hi hs
    simp only [List.map_cons, run, step, hs, List.mem_cons] at hr
    rcases hr with rfl | hr
    · exact ⟨i, rfl⟩
    · exact ih (fun L' hL' => hpos L' (by simp [hL'])) d' hi' hsv' (by omega) r hr

/-! ## The rules before the repairs did not satisfy the property

A six-number document: 1 catalog (100), 2 a direct object (200), 3 compressed in object stream 4 (300),
5 undefined although below /Size. Values are numbers; `P.ok v` is `v ≠ 13`. -/

def tiny : Doc Nat :=
  ⟨⟨[.free 0 65535, .raw 10 0, .raw 20 0, .stream 4 0, .raw 30 0, .invalid, .free 0 65535], [], [], true,
     [⟨10, 1, 0, 100, []⟩, ⟨20, 2, 0, 200, []⟩, ⟨30, 4, 0, 400, [300]⟩],
     [⟨50, [⟨0, [.free 0 65535, .raw 10 0, .raw 20 0, .stream 4 0, .raw 30 0]⟩], 6, none, (1, 0), none⟩],
     80, 0, 50⟩, ⟨(1, 0), none, none⟩⟩

def PN : Params Nat := ⟨fun v => v != 13, fun _ => 0, fun _ _ _ => 0⟩
def L5 : Layout := ⟨fun _ => 5, fun _ => 7, fun _ => 3, true⟩

/-- `tiny` is what loading its own bytes gives -/
example : (match reload tiny.st true with
    | .ok d => d.st.refs == tiny.st.refs && d.tr.root == tiny.tr.root
    | _ => false) = true := by decide

/-- D22: the old `update` of compressed object 3 hands back a new reference (7) and 3 keeps reading 300 -/
example : (updateOld (fun _ _ => none) tiny.st 3 777).2 = .ok (7, 0) ∧
    resolve (updateOld (fun _ _ => none) tiny.st 3 777).1 3 = .val 300 := by decide
example : (update tiny.st 3 777).2 = .ok (3, 0) ∧ resolve (update tiny.st 3 777).1 3 = .val 777 := by decide

/-- D44: a second old `update` merges (here: adds) instead of replacing -/
example : resolve (updateOld (fun a b => some (a + b)) (updateOld (fun a b => some (a + b)) tiny.st 2 1).1 2 5).1 2
    = .val 6 := by decide
example : resolve (update (update tiny.st 2 1).1 2 5).1 2 = .val 5 := by decide

/-- D24: `get` after the old `update` serves the cached old value -/
example : (get (updateOld (fun _ _ => none) (get tiny.st 2).1 2 999).1 2).2 = .val 200 := by decide
example : (get (update (get tiny.st 2).1 2 999).1 2).2 = .val 999 := by decide

/-- D24 (create): a lookup of the next number that failed is cached; `create` must drop it -/
example : (get (create (get tiny.st 7).1 55).1 7).2 = .val 55 := by decide

/-- D45: the old `save` refuses `tiny` because number 5 is undefined; the repaired one writes it as free -/
example : (saveOld PN L5 ⟨(update tiny.st 2 1).1, tiny.tr⟩).2 = .err := by decide
example : (save PN L5 ⟨(update tiny.st 2 1).1, tiny.tr⟩).2.isOk = true := by decide

/-- D25: after a failed old `save` (value 13 is not serialisable) the promise stays and the retry fails
    although the offender was replaced; the repaired `save` rolls back and the retry succeeds -/
example : (saveOld PN L5 ⟨(update (saveOld PN L5 ⟨(update (update tiny.st 5 0).1 2 13).1, tiny.tr⟩).1.st 2 14).1, tiny.tr⟩).2
    = .err := by decide

def tinyFixed : Doc Nat := { tiny with st := { tiny.st with refs := tiny.st.refs.set 5 (.free 0 0) } }

example : (saveOld PN L5 ⟨(update tinyFixed.st 2 13).1, tinyFixed.tr⟩).2 = .err ∧
    (saveOld PN L5 ⟨(update (saveOld PN L5 ⟨(update tinyFixed.st 2 13).1, tinyFixed.tr⟩).1.st 2 14).1, tinyFixed.tr⟩).2
      = .err := by decide
example : (save PN L5 ⟨(update tinyFixed.st 2 13).1, tinyFixed.tr⟩).2 = .err ∧
    (save PN L5 ⟨(update (save PN L5 ⟨(update tinyFixed.st 2 13).1, tinyFixed.tr⟩).1.st 2 14).1, tinyFixed.tr⟩).2.isOk
      = true := by decide

/-- D23: the same document behind 7 bytes of junk: the old `save` records absolute positions and the
    saved bytes do not load; the repaired one records positions relative to the header -/
def shifted : Doc Nat :=
  ⟨⟨[.free 0 65535, .raw 10 0, .raw 20 0, .stream 4 0, .raw 30 0, .free 0 0, .free 0 65535], [], [], false,
     [⟨17, 1, 0, 100, []⟩, ⟨27, 2, 0, 200, []⟩, ⟨37, 4, 0, 400, [300]⟩],
     [⟨57, [⟨0, [.free 0 65535, .raw 10 0, .raw 20 0, .stream 4 0, .raw 30 0, .free 0 0]⟩], 6, none, (1, 0), none⟩],
     87, 7, 50⟩, ⟨(1, 0), none, none⟩⟩

example : (match reload (saveOld PN L5 ⟨(update shifted.st 2 1).1, shifted.tr⟩).1.st false with
    | .ok _ => true | _ => false) = false := by decide
example : (match reload (save PN L5 ⟨(update shifted.st 2 1).1, shifted.tr⟩).1.st false with
    | .ok d => resolve d.st 2 == .val 1 && resolve d.st 3 == .val 300 && resolve d.st 1 == .val 100
    | _ => false) = true := by decide

/-- the bytes of `tinyFixed` are a well-formed file in the sense of `loaded_file_is_base` -/
example : FileWF tinyFixed.st
    ⟨50, [⟨0, [.free 0 65535, .raw 10 0, .raw 20 0, .stream 4 0, .raw 30 0]⟩], 6, none, (1, 0), none⟩ [] where
  start_le := by decide
  pos_lt := by decide
  sec0 := rfl
  size_ok := by decide
  walk := rfl
  entries := by intro p hp; simp [allPairs, secPairs, subPairs, pairsFrom] at hp; rcases hp with rfl | rfl | rfl | rfl | rfl <;> rfl
  ids_lt := by intro p hp; simp [allPairs, secPairs, subPairs, pairsFrom] at hp; rcases hp with rfl | rfl | rfl | rfl | rfl <;> decide
  newest_dominates := by
    intro j e older h m hm
    rcases j with _ | _ | _ | _ | _ | j <;>
      simp [mentions, allPairs, secPairs, subPairs, pairsFrom] at h
    all_goals (try (obtain ⟨_, rfl⟩ := h; cases hm))
  raw_in_file := by
    intro p hp pos g h
    simp [allPairs, secPairs, subPairs, pairsFrom] at hp
    rcases hp with rfl | rfl | rfl | rfl | rfl <;> simp at h <;> (obtain ⟨rfl, rfl⟩ := h; decide)
  stream_in_table := by
    intro p hp sid idx h
    simp [allPairs, secPairs, subPairs, pairsFrom] at hp
    rcases hp with rfl | rfl | rfl | rfl | rfl <;> simp at h
    obtain ⟨rfl, rfl⟩ := h; decide
  objs_lt := by intro o ho; simp [tinyFixed, tiny] at ho; rcases ho with rfl | rfl | rfl <;> decide
  secs_lt := by intro x hx; simp [tinyFixed, tiny] at hx; subst hx; decide

/-! ## Non-vacuity: `tinyFixed` satisfies the hypotheses, a history with a failed save and a retry runs -/

/-- `tinyFixed` is a base document in the sense of the theorems -/
example : BaseOK tinyFixed [] where
  start_le := by decide
  chain := rfl
  pairs_entry := by intro p hp; simp [allPairs] at hp
  pairs_dom := by intro p hp; simp [allPairs] at hp
  objs_lt := by intro o ho; simp [tinyFixed, tiny] at ho; rcases ho with rfl | rfl | rfl <;> decide
  secs_lt := by intro s hs; simp [tinyFixed, tiny] at hs; subst hs; decide
  raw_lt := by
    intro j pos g h
    rcases j with _ | _ | _ | _ | _ | _ | _ | j <;> simp [tinyFixed, tiny] at h <;>
      (simp [tinyFixed, tiny]; omega)
  stream_lt := by
    intro j sid idx h
    rcases j with _ | _ | _ | _ | _ | _ | _ | j <;> simp [tinyFixed, tiny] at h
    simp [tinyFixed, tiny]; omega
  no_prom := by
    intro e he
    simp [tinyFixed, tiny] at he
    rcases he with rfl | rfl | rfl | rfl | rfl | rfl | rfl <;> simp
  changes_nil := rfl
  cache_nil := rfl

def sampleOps : List (Op Nat) :=
  [.update 3 13, .create 41, .promise, .get 3, .save L5,        -- fails: 13 is not serialisable, a promise is open
   .update 3 31, .fulfil 8 42, .save L5, .update 2 21, .save L5]  -- retry succeeds; one more revision

example : HistOK sampleOps := by
  intro op hop
  simp only [sampleOps, List.mem_cons, List.mem_nil_iff, or_false] at hop
  rcases hop with rfl | rfl | rfl | rfl | rfl | rfl | rfl | rfl | rfl | rfl <;>
    first | trivial | exact ⟨fun _ => (by show 0 < 5; decide), (by intro i; show 0 < 7; decide)⟩

/-- the history runs as described: the first save fails, the other two succeed, and reloading the last
    revision reads every written reference at its last value and the untouched ones as before -/
example : ((run PN tinyFixed sampleOps).2.map fun r => match r with
      | .saved _ => 1 | .failed _ => 2 | _ => 0) = [0, 0, 0, 0, 2, 0, 0, 1, 0, 1] := by decide

example : (match reload (run PN tinyFixed sampleOps).1.st false with
    | .ok d => [resolve d.st 1, resolve d.st 2, resolve d.st 3, resolve d.st 4, resolve d.st 7, resolve d.st 8]
    | _ => []) = [.val 100, .val 21, .val 31, .val 400, .val 41, .val 42] := by decide

/-- a late failure and its retry: with a layout under which the typed reload of the trailer fails, the save is an
    `Err` although its revision (3 records, section, 7 + 3 bytes of trailer) was appended; the next save — typed load
    succeeding — succeeds, and its reload reads the writes made before and after the failed save -/
def L5late : Layout := ⟨fun _ => 5, fun _ => 7, fun _ => 3, false⟩

example : (commitInfo PN L5late (run PN tinyFixed [.update 2 21]).1).isSome = true ∧
    ((run PN tinyFixed [.update 2 21, .save L5late, .update 3 31, .save L5]).2.map fun r => match r with
      | .saved _ => 1 | .failed .err => 2 | .failed _ => 3 | _ => 0) = [0, 2, 0, 1] ∧
    (run PN tinyFixed [.update 2 21]).1.st.len < (run PN tinyFixed [.update 2 21, .save L5late]).1.st.len ∧
    (match reload (run PN tinyFixed [.update 2 21, .save L5late, .update 3 31, .save L5]).1.st false with
      | .ok d => [resolve d.st 1, resolve d.st 2, resolve d.st 3, resolve d.st 4]
      | _ => []) = [.val 100, .val 21, .val 31, .val 400] := by decide

end Storage

/-!
## C09 at byte level (L2): the abstraction discharged

`SaveBytes.saveB` is `save` with every record rendered by the writer model (`Model/Serialize.lean`) — the
correspondence stream `c09.bytes` compares its output with the bytes `Storage::save` appends, byte for byte.
`OpenBytes.openB` / `resolveB` are the byte-level open path (`locate_start_offset`, `locate_xref_offset`,
`read_xref_and_trailer_at` with the cross-reference stream reader `Xref.parseSections`, the `/Prev` walk and merge of
`Offsets.loadTable`) and `Storage::resolve_ref` (`parse_indirect_object` at `start + offset`, object streams) — the
stream `c09.open` compares the table they build with `read_xref_table_and_trailer`.

The theorems below say about the *bytes* what `reload_sees_saved` says about the abstract backend.  The base file is
given as bytes `b0.bytes` that represent the loaded document (`RepBytes.Rep`: every record and section of the
abstract backend is what the byte-level parsers read at its offset, whatever is appended behind) — the
"well-formed table" hypothesis; for a file built from scratch it holds trivially (Props/C10).

Explicit hypotheses (third-party or out of model):
* `env.parseReal` (`f32::from_str`) and `fmt` (`f32` `Display`) only through `Serialisable` (a real is written as a
  token that reads back as the same real), `env.decrypt = none`;
* `NoFilter dec`: a stream dictionary without `/Filter` is decoded to its raw bytes (the filter chain — Flate, … — is
  never entered for what `save` writes);
* sizes: the output stays below 2³¹ bytes (`fileMax`, the range of the lexer theorems), parser fuel `pfuel` at least
  three times the file length (the driver's `3·len + 64`);
* `GoodHist`: the values written are within the limits of `C04.parse_serialize_indirect` / `parse_serialize_stream`
  (`OKVal`). Nothing is asked of the saves of the history: a save may succeed, fail before anything is written
  (truncated away), or fail *after* its revision was appended (`Trailer::from_dict`: the catalog no longer loads) — the
  backend keeps that revision, `saveB` appends it, and the bytes keep representing the document
  (`late_failure_keeps_revision_bytes`); whether the typed reload succeeds is the input `typed` of `OpB.save`
  (typed readers: C15).
-/

namespace C09Bytes
open Storage PdfLex Xref OpenBytes SaveBytes RepBytes

variable {R : Type}

/-- **C09 at byte level, the save itself.** A successful `saveB` appends to the file exactly: the frames
    `id gen obj … endobj` of the pending values in number order, each at the offset its cross-reference row names;
    the cross-reference stream object, at the offset its own row and `startxref` name; `startxref`, the offset,
    `%%EOF`. The length of the new file is the length the abstract model computes from its `Layout` — the measured
    record lengths of the abstract correspondence are a consequence of the values. -/
theorem save_bytes_layout (fmt : R → List UInt8) (pr : List UInt8 → Option R) (d0 : Doc (Prim R)) (chain0)
    (b b' : BDoc R) (i : SaveInfo) (hb : BaseOK d0 chain0) (hi : Inv d0 b.doc) (hlen : b.bytes.length = b.doc.st.len)
    (typed : Bool) (h : saveB fmt typed b = (b', .ok i)) (hbd : Bounds b.doc.tr (prep b.doc).infoRef i) :
    SavedBytes fmt typed b b' i :=
  saveB_spec fmt pr d0 chain0 b b' i hb hi hlen typed (committedB_of_ok fmt typed b b' i h) hbd

/-- **C09 at byte level, reload.** After any history of `create / update / promise / fulfil / get / resolve /
    save` at byte level (saves that fail before writing, and saves that fail after their revision was appended,
    included) on a base file given as bytes, a successful save
    produces bytes which the byte-level open path opens — header found at the same `start`, table rebuilt from the
    new cross-reference stream and the `/Prev` chain — and in which the byte-level resolver returns
    * for every written reference the last value written (streams: the dictionary written and a `file_range` that
      covers exactly the data written);
    * for every untouched number of the base table the value it had in the base document. -/
theorem reload_sees_saved_bytes (fmt : R → List UInt8) (env : Env R) (hd : env.decrypt = none) (pfuel : Nat)
    (dec : Dict R → List UInt8 → Out (List UInt8)) (hdec : NoFilter dec) (b0 : BDoc R) (chain0)
    (hb : BaseOK b0.doc chain0) (hv : BaseVals fmt env.parseReal b0.doc)
    (hrep : Rep (parsers env pfuel dec) b0.bytes b0.doc.st)
    (ops : List (OpB R)) (hgood : GoodHist fmt env.parseReal b0 ops) (b' : BDoc R) (i : SaveInfo) (typed : Bool)
    (hs : saveB fmt typed (runB fmt b0 ops).1 = (b', .ok i))
    (hsmall : b'.bytes.length ≤ fileMax) (hpf : 3 * b'.bytes.length ≤ pfuel)
    (fuel : Nat) (hfuel : b'.doc.st.secs.length + 1 ≤ fuel) (rfuel : Nat) :
    ∃ t T, openB env pfuel dec fuel b'.bytes = .ok (b0.doc.st.start, t, T) ∧
      dictGet T SaveBytes.kRoot = some (.ref b0.doc.tr.root.1 b0.doc.tr.root.2) ∧
      (∀ id v, specRun AMap.empty (liftOps fmt b0 ops) (runB fmt b0 ops).2 id = some v →
        ∃ o, resolveB env pfuel dec (rfuel + 2) b'.bytes b0.doc.st.start t id = .ok o ∧ Denotes b'.bytes o v) ∧
      (∀ id, id < b0.doc.st.refs.length → specRun AMap.empty (liftOps fmt b0 ops) (runB fmt b0 ops).2 id = none →
        (∀ sid idx, b0.doc.st.refs[id]? = some (.stream sid idx) →
          specRun AMap.empty (liftOps fmt b0 ops) (runB fmt b0 ops).2 sid = none) →
        ∀ v, resolve b0.doc.st id = .val v →
          ∃ o, resolveB env pfuel dec (rfuel + 2) b'.bytes b0.doc.st.start t id = .ok o ∧ Denotes b'.bytes o v) := by
  -- the invariant after the history, and after the final save
  have hmono : (runB fmt b0 ops).1.bytes.length ≤ b'.bytes.length := by
    rw [(saveB_ok_iff fmt typed _ _ i hs).2.2]; simp
  have h1 := hinv_runB fmt env hd pfuel dec hdec b0 chain0 hb hv ops b0 (hinv_base fmt env pfuel dec b0 chain0 hb hrep)
    hgood (by omega) (by omega)
  have hstep : stepB fmt (runB fmt b0 ops).1 (.save typed) = (b', .saved i) := by simp [stepB, hs]
  have h2 := hinv_stepB fmt env hd pfuel dec hdec b0 (runB fmt b0 ops).1 chain0 hb hv h1 (.save typed) trivial
    (by rw [hstep]; exact hsmall) (by rw [hstep]; exact hpf)
  rw [hstep] at h2
  -- the abstract theorem on the lifted history
  obtain ⟨r1, r2, r3⟩ := runB_run fmt ops b0
  obtain ⟨s1, _, _⟩ := saveB_ok_iff fmt typed _ _ i hs
  rw [r3, r1] at s1
  obtain ⟨dr, hrl, htr, hw, ho⟩ := reload_sees_saved (params fmt b0.ids) b0.doc chain0 hb (liftOps fmt b0 ops)
    (liftOps_ok fmt ops b0) (layoutOf fmt typed (runB fmt b0 ops).1) (layoutOf_pos fmt _ _) b'.doc i s1 false
  rw [← r2] at hw ho
  -- the bridge
  obtain ⟨T, hopen, hroot⟩ := open_of_rep (parsers env pfuel dec) b'.bytes b'.doc.st h2.rep false dr hrl fuel hfuel
  obtain ⟨_, _, _, _, _, _, _, hdr, _⟩ := reload_ok_spec b'.doc.st false dr hrl
  have hst : b'.doc.st.start = b0.doc.st.start := h2.inv.start_eq
  rw [hst] at hopen
  rw [htr] at hroot
  refine ⟨dr.st.refs, T, hopen, hroot, ?_, ?_⟩
  · intro id v hsp
    have := hw id v hsp
    rw [hdr] at this
    have := resolve_of_rep (parsers env pfuel dec) b'.bytes b'.doc.st h2.rep dr.st.refs false id v this rfuel
    rw [hst] at this; exact this
  · intro id hid hsp hcont v hval
    have := ho id hid hsp hcont
    rw [hval] at this
    have := sameRd_val _ _ this
    rw [hdr] at this
    have := resolve_of_rep (parsers env pfuel dec) b'.bytes b'.doc.st h2.rep dr.st.refs false id v this rfuel
    rw [hst] at this; exact this

/-- **C09 at byte level, reload, in terms of the state.** Whatever state a byte-level history has reached
    (`HInv`: the bytes represent it), a successful save produces bytes which the byte-level open path opens and in
    which the byte-level resolver returns, for every number with a pending value (the info dictionary of the
    trailer included), that value. -/
theorem reload_sees_pending_bytes (fmt : R → List UInt8) (env : Env R) (hd : env.decrypt = none) (pfuel : Nat)
    (dec : Dict R → List UInt8 → Out (List UInt8)) (hdec : NoFilter dec) (b0 b : BDoc R) (chain0)
    (hb : BaseOK b0.doc chain0) (hv : BaseVals fmt env.parseReal b0.doc) (h1 : HInv fmt env pfuel dec b0 b)
    (b' : BDoc R) (i : SaveInfo) (typed : Bool) (hs : saveB fmt typed b = (b', .ok i))
    (hsmall : b'.bytes.length ≤ fileMax) (hpf : 3 * b'.bytes.length ≤ pfuel)
    (fuel : Nat) (hfuel : b'.doc.st.secs.length + 1 ≤ fuel) (rfuel : Nat) :
    ∃ t T, openB env pfuel dec fuel b'.bytes = .ok (b0.doc.st.start, t, T) ∧ t.length = i.size + 1 ∧
      dictGet T SaveBytes.kRoot = some (.ref b0.doc.tr.root.1 b0.doc.tr.root.2) ∧
      (∀ id v g, chLookup (prep b.doc).st2.changes id = some (v, g) →
        ∃ o, resolveB env pfuel dec (rfuel + 2) b'.bytes b0.doc.st.start t id = .ok o ∧ Denotes b'.bytes o v) := by
  have hstep : stepB fmt b (.save typed) = (b', .saved i) := by simp [stepB, hs]
  have h2 := hinv_stepB fmt env hd pfuel dec hdec b0 b chain0 hb hv h1 (.save typed) trivial
    (by rw [hstep]; exact hsmall) (by rw [hstep]; exact hpf)
  rw [hstep] at h2
  obtain ⟨s1, _, _⟩ := saveB_ok_iff fmt typed _ _ i hs
  obtain ⟨t, hrl, facts⟩ := reload_after_save _ _ (layoutOf_pos fmt typed b) b0.doc b.doc b'.doc chain0 i hb h1.inv s1 false
  obtain ⟨T, hopen, hroot⟩ := open_of_rep (parsers env pfuel dec) b'.bytes b'.doc.st h2.rep false _ hrl fuel hfuel
  have hst : b'.doc.st.start = b0.doc.st.start := h2.inv.start_eq
  rw [hst] at hopen
  simp only at hroot
  rw [h1.inv.tr_eq] at hroot
  obtain ⟨_, _, _, _, _, _, _, _, hsize, _, _⟩ := save_ok_spec _ _ _ _ _ s1
  refine ⟨t, T, hopen, by rw [facts.len, hsize], hroot, ?_⟩
  intro id v g hc
  have := facts.pending id v g hc false
  have := resolve_of_rep (parsers env pfuel dec) b'.bytes b'.doc.st h2.rep t false id v this rfuel
  rw [hst] at this; exact this

/-- **C09 at byte level, a save whose revision was written** — successful or failing afterwards in the typed reload of
    the trailer (`typed = false`, or the root no longer resolving): the bytes grow by exactly that revision, every
    record of it lies where its cross-reference row says (`SavedBytes`), and the bytes keep representing the state of
    the open document (`HInv`), so that the history can go on — repair, retry — and `reload_sees_saved_bytes` applies to
    the final successful save with the failed revision in between. -/
theorem late_failure_keeps_revision_bytes (fmt : R → List UInt8) (env : Env R) (hd : env.decrypt = none) (pfuel : Nat)
    (dec : Dict R → List UInt8 → Out (List UInt8)) (hdec : NoFilter dec) (b0 b : BDoc R) (chain0)
    (hb : BaseOK b0.doc chain0) (hv : BaseVals fmt env.parseReal b0.doc) (h1 : HInv fmt env pfuel dec b0 b)
    (typed : Bool) (i : SaveInfo)
    (hc : commitInfo (params fmt b.ids) (layoutOf fmt typed b) b.doc = some i)
    (hsmall : (saveB fmt typed b).1.bytes.length ≤ fileMax) (hpf : 3 * (saveB fmt typed b).1.bytes.length ≤ pfuel) :
    (saveB fmt typed b).1.bytes = b.bytes ++ revisionBytes fmt b i ∧
    SavedBytes fmt typed b (saveB fmt typed b).1 i ∧
    HInv fmt env pfuel dec b0 (saveB fmt typed b).1 := by
  generalize hs : saveB fmt typed b = res at hsmall hpf ⊢
  obtain ⟨b', o⟩ := res
  have hstep : (stepB fmt b (.save typed)).1 = b' := by simp only [stepB, hs]; cases o <;> rfl
  have h2 := hinv_stepB fmt env hd pfuel dec hdec b0 b chain0 hb hv h1 (.save typed) trivial
    (by rw [hstep]; exact hsmall) (by rw [hstep]; exact hpf)
  rw [hstep] at h2
  obtain ⟨e1, e2, e3⟩ := saveB_cases fmt typed b b' o hs
  have hbytes : b'.bytes = b.bytes ++ revisionBytes fmt b i := by
    rcases e3 with ⟨i', hi', hb'⟩ | ⟨hn, _⟩
    · rw [hc] at hi'; cases hi'; exact hb'
    · rw [hc] at hn; cases hn
  obtain ⟨hcm, _⟩ := commitInfo_some _ _ b0.doc b.doc chain0 hb h1.inv i hc
  rw [e1] at hcm
  have hcb : CommittedB fmt typed b b' i := ⟨hcm, e2, hbytes⟩
  have bk := saveB_backend fmt b0.doc chain0 b b' i hb h1.inv h1.rep.len typed hcb
  have htr : b'.doc.tr = b.doc.tr := by rw [h2.inv.tr_eq, h1.inv.tr_eq]
  have hbd := bounds_of_save fmt env.parseReal _ _ (layoutOf_pos fmt typed b) b0.doc b.doc b'.doc chain0 i hb h1.inv hcm htr hv
    (by have := bk.xpos_le; simp only at hsmall; omega)
  exact ⟨hbytes, saveB_spec fmt env.parseReal b0.doc chain0 b b' i hb h1.inv h1.rep.len typed hcb hbd, h2⟩

/-! ### Non-vacuity at byte level: a second save on a file that already holds objects

`Rep` for a file with content is *derived*, not assumed: the history below starts from the bare header (the only base
whose `Rep` is immediate), its first `save` writes a page tree and a catalog, and `rep_saveB` (inside `hinv_stepB`)
establishes `Rep` for the resulting 2-object file; the update and the final save then run on that file, and
`reload_sees_saved_bytes` is applied with every hypothesis discharged. (A base *document* in the sense of `BaseOK` must
have nothing pending, i.e. be a reloaded one; `BaseOK` for the reload of a saved state is `load_baseOK` + `FileWF`, which
Props/C09 instantiates abstractly only — `tinyFixed` — not for this byte-level state: left open.) -/

open BuildBytes in
/-- the bytes after one save on the empty storage represent a state that holds objects -/
theorem rep_nontrivial (fmt : R → List UInt8) (env : Env R) (hd : env.decrypt = none) (pfuel : Nat)
    (dec : Dict R → List UInt8 → Out (List UInt8)) (hdec : NoFilter dec) (b1 : BDoc R) (i : SaveInfo)
    (hs : saveB fmt true (prepared fmt [] none) = (b1, .ok i))
    (hsmall : b1.bytes.length ≤ fileMax) (hpf : 3 * b1.bytes.length ≤ pfuel) :
    Rep (parsers env pfuel dec) b1.bytes b1.doc.st ∧ b1.doc.st.objs ≠ [] ∧ b1.doc.st.secs ≠ [] := by
  have hb0 := baseOK_empty (R := R) none 0
  have hv0 := baseVals_empty fmt env.parseReal (none : Option (Prim R)) 0 (by intro v h; cases h) (by omega)
  have hmono : (prepared fmt ([] : List (PageB R)) none).bytes.length ≤ b1.bytes.length := by
    rw [(saveB_ok_iff fmt true _ _ i hs).2.2]; simp
  have h1 : HInv fmt env pfuel dec (emptyB none 0) (prepared fmt [] none) :=
    hinv_runB fmt env hd pfuel dec hdec _ [] hb0 hv0 (buildOps []) _ (hinv_base fmt env pfuel dec _ [] hb0 (rep_empty _ none 0))
      (goodHist_buildOps fmt env.parseReal [] (by simp) (by intro p hp; simp at hp) _)
      (by show (prepared fmt [] none).bytes.length ≤ fileMax; omega)
      (by show 3 * (prepared fmt [] none).bytes.length ≤ pfuel; omega)
  have hstep : stepB fmt (prepared fmt [] none) (.save true) = (b1, .saved i) := by simp [stepB, hs]
  have h2 := hinv_stepB fmt env hd pfuel dec hdec _ _ [] hb0 hv0 h1 (.save true) trivial
    (by rw [hstep]; exact hsmall) (by rw [hstep]; exact hpf)
  rw [hstep] at h2
  have bk := saveB_backend fmt _ [] _ b1 i hb0 h1.inv h1.rep.len true (committedB_of_ok fmt true _ _ i hs)
  refine ⟨h2.rep, ?_, by rw [bk.secs]; simp⟩
  obtain ⟨ext, e1, _⟩ := bk.objs
  rw [e1]; simp

def nvEnv : Env (List UInt8) :=
  { parseReal := fun t => some t, resolveLen := fun _ _ => .err, allowMissingEndobj := false, decrypt := none, fileOffset := 0 }

def nvDec : Dict (List UInt8) → List UInt8 → Out (List UInt8) :=
  fun d raw => match dictGet d kFilter with | none => .ok raw | some _ => .err

open BuildBytes in
/-- the history: the builder's operations for a document without pages (page tree 1, catalog 2), a save — from here on
    the file holds objects —, then the page tree is replaced -/
def nvOps : List (OpB (List UInt8)) :=
  buildOps [] ++ [.save true, .update 1 (treeVal [])]

open BuildBytes in
/-- every hypothesis of `reload_sees_saved_bytes` holds for this history and its final save (the success of the save and
    the size of the output are computed by the kernel), so its conclusion does: the 2-revision file opens and object 1
    reads the page tree written by the update -/
example : ∃ b' i t T,
    saveB id true (runB id (emptyB none 0) nvOps).1 = (b', .ok i) ∧
    openB nvEnv (3 * b'.bytes.length) nvDec 3 b'.bytes = .ok (0, t, T) ∧
    ∃ o, resolveB nvEnv (3 * b'.bytes.length) nvDec 2 b'.bytes 0 t 1 = .ok o ∧ Denotes b'.bytes o (treeVal []) := by
  have hok : (saveB id true (runB id (emptyB none 0) nvOps).1).2.isOk = true := by decide +kernel
  have hsm : (saveB id true (runB id (emptyB none 0) nvOps).1).1.bytes.length ≤ fileMax := by decide +kernel
  have hsecs : (saveB id true (runB id (emptyB none 0) nvOps).1).1.doc.st.secs.length + 1 ≤ 3 := by decide +kernel
  generalize hs : saveB id true (runB id (emptyB none 0) nvOps).1 = res at hok hsm hsecs
  obtain ⟨b', o⟩ := res
  cases o with
  | ok i =>
    have hb0 := baseOK_empty (R := List UInt8) none 0
    have hv0 := baseVals_empty id nvEnv.parseReal (none : Option (Prim (List UInt8))) 0 (by intro v h; cases h) (by omega)
    have hgood : GoodHist id nvEnv.parseReal (emptyB none 0) nvOps := by
      apply goodHist_of_vals
      intro op hop b
      simp only [nvOps, buildOps, pageOps, List.length_nil, List.replicate_zero, List.nil_append, List.append_nil,
        List.cons_append, List.mem_cons, List.not_mem_nil, or_false] at hop
      rcases hop with rfl | rfl | rfl | rfl
      · exact okVal_tree id nvEnv.parseReal _ (by intro k hk; simp at hk) (by simp)
      · exact okVal_catalog id nvEnv.parseReal _ (by omega)
      · trivial
      · exact okVal_tree id nvEnv.parseReal _ (by intro k hk; simp at hk) (by simp)
    obtain ⟨t, T, hopen, _, hw, _⟩ := reload_sees_saved_bytes id nvEnv rfl (3 * b'.bytes.length) nvDec
      (by intro d raw h; simp [nvDec, h]) (emptyB none 0) [] hb0 hv0 (rep_empty _ none 0) nvOps hgood b' i true hs
      hsm (Nat.le_refl _) 3 hsecs 0
    refine ⟨b', i, t, T, rfl, hopen, hw 1 (treeVal []) ?_⟩
    rfl
  | err => simp [Out.isOk] at hok
  | panic => simp [Out.isOk] at hok
  | oof => simp [Out.isOk] at hok

end C09Bytes
