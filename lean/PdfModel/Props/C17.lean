import PdfModel.Lemmas.Offsets
import PdfModel.Lemmas.OffLex
import PdfModel.Lemmas.OffsetsFuel
import PdfModel.Lemmas.SuffixConcrete
import PdfModel.Lemmas.ShiftXref
import PdfModel.Lemmas.ShiftScan
import PdfModel.Model.XrefStreamSection
import PdfModel.Generated.Lexical

/-!
# C17 — bytes before the header do not change what is read

`f` is a file, `p` arbitrary bytes put in front of it. The theorems are about the model in
`Model/Offsets.lean` (+ `Model/OffLex.lean`): `locateStart` / `locateXref` are byte-level models of
`Backend::locate_start_offset` / `locate_xref_offset`; `loadTable`, `resolveRef`, `rawData`, `scan` model
the arithmetic of every consumer of a file offset, with the token-level parsers as a parameter `P` that
is handed the suffix of the backend at the computed position — exactly what the Rust parsers are handed.
Because `P` is universally quantified the theorems hold for *whatever* those parsers compute.
The correspondence streams of C17 tie both layers to the current source tree.

Hypotheses that appear below and what they mean:
* `headerMarker <+: f`        the file starts with `%PDF-`                     (general form: `locateStart f = .ok s`)
* `¬ headerMarker <:+: p`     the prefix does not contain the marker
* `p.length + 5 ≤ 1024`       the header stays inside the first kilobyte
* `Fits p f`                  `p.length + f.length ≤ usize::MAX` (true of every buffer that exists)
-/

namespace Offsets
open OffLex

/-! ## The header search -/

/-- **Straddling is impossible.** An occurrence of `%PDF-` that begins in the prefix and ends in a file
    that itself begins with `%PDF-` would need one of `P`, `D`, `F`, `-` to be `%`. Hence "the marker does
    not occur in `p`" is the whole condition. -/
theorem straddle_impossible (p f : Bytes) (hf : headerMarker <+: f) (hp : ¬ headerMarker <:+: p) :
    ∀ j, j < p.length → ¬ headerMarker <+: (p ++ f).drop j :=
  no_occurrence_before p f hf hp

/-- a file that starts with the marker has its header at 0 -/
theorem locateStart_zero (f : Bytes) (hf : headerMarker <+: f) : locateStart f = .ok 0 := by
  obtain ⟨f', rfl⟩ := hf
  simp [locateStart, headerMarker, headerWindow]
  have : min 1024 (f'.length + 1 + 1 + 1 + 1 + 1) = (min 1024 (f'.length + 5) - 5) + 5 := by omega
  rw [this]
  simp [List.take, findFirst, List.isPrefixOf]

/-- **C17, header clause (`find_header_prefix`).** If `f` starts with `%PDF-`, the marker does not occur
    in `p` and the header stays within the first kilobyte, the header of `p ++ f` is found exactly
    `p.length` further on. All prefixes of all lengths `0..1019`, all byte values. -/
theorem find_header_prefix (p f : Bytes) (hf : headerMarker <+: f) (hp : ¬ headerMarker <:+: p)
    (hl : p.length + 5 ≤ 1024) :
    locateStart f = .ok 0 ∧ locateStart (p ++ f) = .ok (p.length + 0) := by
  have h0 := locateStart_zero f hf
  exact ⟨h0, locateStart_append p f 0 h0 (no_occurrence_before p f hf hp) (by simp [headerWindow]; omega)⟩

/-- The same for a file whose own header sits at `s` (a file that already carries leading bytes), with
    the exact condition: no occurrence of the marker *starts* inside the prefix. -/
theorem find_header_prefix_general (p f : Bytes) (s : Nat) (hs : locateStart f = .ok s)
    (hno : ∀ j, j < p.length → ¬ headerMarker <+: (p ++ f).drop j)
    (hl : p.length + s + 5 ≤ 1024) :
    locateStart (p ++ f) = .ok (p.length + s) :=
  locateStart_append p f s hs hno (by simpa [headerWindow] using hl)

/-- The condition is exact: when the marker does occur in `p` the search stops inside `p`. -/
theorem header_found_earlier (p f : Bytes) (hp : headerMarker <:+: p) (hl : p.length ≤ 1024) :
    ∃ i, i < p.length ∧ locateStart (p ++ f) = .ok i := by
  obtain ⟨a, b, rfl⟩ := hp
  -- the occurrence at `a.length` lies in the window
  have hocc : headerMarker <+: ((a ++ headerMarker ++ b ++ f).take (min headerWindow (a ++ headerMarker ++ b ++ f).length)).drop a.length := by
    rw [List.drop_take]
    have : (a ++ headerMarker ++ b ++ f).drop a.length = headerMarker ++ (b ++ f) := by
      simp [List.append_assoc]
    rw [this]
    apply List.prefix_take_iff.2
    refine ⟨List.prefix_append _ _, ?_⟩
    simp [headerMarker, headerWindow] at hl ⊢
    omega
  obtain ⟨i, hi, hfi⟩ := findFirst_le headerMarker _ a.length hocc (by
    simp [headerMarker, headerWindow] at hl ⊢; omega)
  refine ⟨i, by simp [headerMarker]; omega, ?_⟩
  unfold locateStart
  rw [hfi]

/-! ## The backward search for `startxref` -/

/-- **C17, `locate_xref_offset_prefix`.** Whatever `locate_xref_offset` answers for a file that contains
    the keyword, it answers for the prefixed file — for *every* prefix (the prefix may even contain
    `startxref` itself: the search runs backwards and stops at the file's own last occurrence). -/
theorem locate_xref_offset_prefix (p f : Bytes) (k : Nat)
    (hk : findLast startxrefKw (f.take (f.length - 1)) = some k) :
    locateXref (p ++ f) = locateXref f :=
  locateXref_append p f k hk

/-- in particular for every file whose `startxref` can be read at all -/
theorem locate_xref_offset_prefix_ok (p f : Bytes) (x : Nat) (hx : locateXref f = .ok x) :
    locateXref (p ++ f) = .ok x := by
  unfold locateXref at hx
  cases hk : findLast startxrefKw (f.take (f.length - 1)) with
  | none => simp [hk] at hx
  | some k =>
    rw [locateXref_append p f k hk]
    unfold locateXref
    simp only [hk]
    simpa [hk] using hx

/-- Neither search can panic or run out of fuel, on any buffer whatsoever. -/
theorem locate_total (buf : Bytes) : (locateStart buf).Returns ∧ (locateXref buf).Returns := by
  constructor
  · unfold locateStart Out.Returns; split <;> simp
  · unfold locateXref Out.Returns
    split
    · simp
    · rename_i s _
      have h1 := nextWord_returns (buf.drop (s + startxrefKw.length))
      cases hw : nextWord (buf.drop (s + startxrefKw.length)) with
      | ok r =>
        have h2 := parseUsize_returns r.1
        simp only
        exact ⟨h2.2, h2.1⟩
      | err => simp
      | panic => simp [hw] at h1
      | oof => simp [hw] at h1

variable {V T : Type}

/-! ## Every consumer of an offset -/

/-- **C17, `load_prefix_invariant` (table and trailer).** `read_xref_table_and_trailer` visits the same
    sections in the same order — `startxref`, then every `/Prev` — and merges the same table, for any
    section parser, any `/Prev` chain (loops and broken links included), any fuel. -/
theorem load_prefix_invariant (P : Parsers V T) (p f : Bytes) (s k fuel : Nat) (hfit : Fits p f)
    (hk : findLast startxrefKw (f.take (f.length - 1)) = some k) :
    loadTable P fuel (p ++ f) (p.length + s) = loadTable P fuel f s :=
  loadTable_append P p f s k fuel hfit hk

/-- **C17, `load_prefix_invariant` (objects).** Resolving any object number with any flags from any
    table — direct objects, stream objects with direct or indirect `/Length`, members of object
    streams (any nesting the guard allows) — gives the same outcome for `p ++ f` as for `f`; the only
    difference is that `file_range`s of streams are `p.length` further on. -/
theorem resolve_prefix_invariant (P : Parsers V T) (p f : Bytes) (s : Nat) (t : Xref.Table) (hfit : Fits p f)
    (fuel : Nat) (chain : List Nat) (flags : Flags) (id : Nat) :
    resolveRef P (p ++ f) (p.length + s) t fuel chain flags id
      = shiftOut p.length (resolveRef P f s t fuel chain flags id) :=
  resolveRef_append P p f s t hfit fuel chain flags id

/-- … and the raw bytes of a stream read through the shifted range are the same bytes. -/
theorem raw_data_prefix_invariant (p f : Bytes) (o : Obj V) :
    rawData (p ++ f) (o.shift p.length) = rawData f o :=
  rawData_shift p f o

/-- the version string is read relative to the header too -/
theorem version_prefix_invariant (p f : Bytes) (s : Nat) :
    version (p ++ f) (p.length + s) = version f s := by
  unfold version
  rw [Nat.add_assoc, Nat.add_assoc, readRange_append]

/-- **C17, `scan_prefix_invariant`.** The recovery scan looks at the same slice (header to newest
    cross-reference section) and therefore lists the same items, stream ranges `p.length` further on. -/
theorem scan_prefix_invariant (P : Parsers V T) (p f : Bytes) (s k : Nat) (hfit : Fits p f)
    (hk : findLast startxrefKw (f.take (f.length - 1)) = some k) :
    scan P (p ++ f) (p.length + s) =
      match scan P f s with
      | .ok items => .ok (items.map (shiftOut p.length))
      | .err => .err | .panic => .panic | .oof => .oof :=
  scan_append P p f s k hfit hk

/-- **C17, whole path.** For every loadable file (the model opens it: header at `s`, table `t`, trailer
    `tr`) and every prefix in which no occurrence of the marker starts and which keeps the header within
    the first kilobyte, the prefixed file opens with the header at `p.length + s` and the *same* table
    and trailer; by `resolve_prefix_invariant`, `raw_data_prefix_invariant` and `scan_prefix_invariant`
    every object, every stream's data and the scan listing then read identically. -/
theorem open_prefix_invariant (P : Parsers V T) (p f : Bytes) (fuel s : Nat) (t : Xref.Table) (tr : T)
    (hopen : openFile P fuel f = .ok (s, t, tr))
    (hno : ∀ j, j < p.length → ¬ headerMarker <+: (p ++ f).drop j)
    (hl : p.length + s + 5 ≤ 1024) (hfit : Fits p f) :
    openFile P fuel (p ++ f) = .ok (p.length + s, t, tr) := by
  unfold openFile at hopen ⊢
  cases hs : locateStart f with
  | ok s' =>
    simp only [hs] at hopen
    cases hload : loadTable P fuel f s' with
    | ok r =>
      obtain ⟨t', tr'⟩ := r
      simp only [hload] at hopen
      cases hopen
      -- the file has a `startxref`, otherwise `loadTable` would have failed
      have hk : ∃ k, findLast startxrefKw (f.take (f.length - 1)) = some k := by
        cases hk : findLast startxrefKw (f.take (f.length - 1)) with
        | none => simp [loadTable, locateXref, hk] at hload
        | some k => exact ⟨k, rfl⟩
      obtain ⟨k, hk⟩ := hk
      rw [find_header_prefix_general p f s hs hno hl]
      simp only [loadTable_append P p f s k fuel hfit hk, hload]
    | err => simp [hload] at hopen
    | panic => simp [hload] at hopen
    | oof => simp [hload] at hopen
  | err => simp [hs] at hopen
  | panic => simp [hs] at hopen
  | oof => simp [hs] at hopen

/-- **Fuel is adequate.** The `/Prev` loop of the model cannot run out of fuel once `fuel ≥ len + 2`
    (the code's `seen` list is duplicate-free and only holds offsets that could be read), for parsers
    that — like the Rust functions they stand for — have no fuel of their own. -/
theorem load_never_out_of_fuel (P : Parsers V T) (hP : NoOof P) (buf : Bytes) (start fuel : Nat)
    (hf : buf.length + 2 ≤ fuel) : loadTable P fuel buf start ≠ .oof :=
  loadTable_ne_oof P hP buf start fuel hf

/-- `open_prefix_invariant` with each side running on its own natural fuel `len + 2`. -/
theorem open_prefix_invariant_natural_fuel (P : Parsers V T) (p f : Bytes) (s : Nat) (t : Xref.Table) (tr : T)
    (hopen : openFile P (f.length + 2) f = .ok (s, t, tr))
    (hno : ∀ j, j < p.length → ¬ headerMarker <+: (p ++ f).drop j)
    (hl : p.length + s + 5 ≤ 1024) (hfit : Fits p f) :
    openFile P ((p ++ f).length + 2) (p ++ f) = .ok (p.length + s, t, tr) := by
  have h := open_prefix_invariant P p f (f.length + 2) s t tr hopen hno hl hfit
  unfold openFile at h ⊢
  cases hs : locateStart (p ++ f) with
  | ok s' =>
    simp only [hs] at h ⊢
    have hne : loadTable P (f.length + 2) (p ++ f) s' ≠ .oof := by
      intro hc; simp [hc] at h
    rw [loadTable_fuel_irrelevant P (p ++ f) s' (f.length + 2) ((p ++ f).length + 2) hne (by simp)]
    exact h
  | err => simp [hs] at h
  | panic => simp [hs] at h
  | oof => simp [hs] at h

/-- **C17 as one statement.** Loadable file, admissible prefix: the prefixed file loads, and every object
    number — with any flags, any fuel — every stream's raw data, the version string and the scan listing
    read the same (stream ranges `p.length` further on). -/
theorem prefix_changes_nothing (P : Parsers V T) (p f : Bytes) (fuel s : Nat) (t : Xref.Table) (tr : T)
    (hopen : openFile P fuel f = .ok (s, t, tr))
    (hno : ∀ j, j < p.length → ¬ headerMarker <+: (p ++ f).drop j)
    (hl : p.length + s + 5 ≤ 1024) (hfit : Fits p f) :
    openFile P fuel (p ++ f) = .ok (p.length + s, t, tr) ∧
    (∀ fuel' chain flags id,
      resolveRef P (p ++ f) (p.length + s) t fuel' chain flags id
        = shiftOut p.length (resolveRef P f s t fuel' chain flags id)) ∧
    (∀ o : Obj V, rawData (p ++ f) (o.shift p.length) = rawData f o) ∧
    version (p ++ f) (p.length + s) = version f s ∧
    scan P (p ++ f) (p.length + s) =
      (match scan P f s with
       | .ok items => .ok (items.map (shiftOut p.length))
       | .err => .err | .panic => .panic | .oof => .oof) := by
  refine ⟨open_prefix_invariant P p f fuel s t tr hopen hno hl hfit,
    fun fuel' chain flags id => resolveRef_append P p f s t hfit fuel' chain flags id,
    fun o => rawData_shift p f o, version_prefix_invariant p f s, ?_⟩
  -- the file has a `startxref`, otherwise it would not have opened
  unfold openFile at hopen
  cases hs : locateStart f with
  | ok s' =>
    simp only [hs] at hopen
    cases hload : loadTable P fuel f s' with
    | ok r =>
      cases hk : findLast startxrefKw (f.take (f.length - 1)) with
      | none => simp [loadTable, locateXref, hk] at hload
      | some k => exact scan_append P p f s k hfit hk
    | err => simp [hload] at hopen
    | panic => simp [hload] at hopen
    | oof => simp [hload] at hopen
  | err => simp [hs] at hopen
  | panic => simp [hs] at hopen
  | oof => simp [hs] at hopen

/-! ## The parser parameters discharged against the lexer / parser models

The theorems above hold for *whatever* the token-level parsers compute, under one modelling assumption: a
parser that is handed `Lexer::with_offset(read(pos ..), pos)` is a function of the suffix and uses the
offset only to report `file_range`s. For the concrete models `Model/Lexer.lean`, `Model/StrLexer.lean`,
`Model/Parser.lean` this is now a theorem (`file_offset_only_moves_ranges`), together with the shift lemmas
for lexing / parsing `p ++ f` from `p.length + k` (`Lemmas/Shift*.lean`). -/

section Concrete
open PdfLex PdfShift

variable {R : Type}

/-- **Shift lemma, lexer.** `next_word` on `p ++ b` from `p.size + k` is `next_word` on `b` from `k`, the
    lexeme's positions `p.size` further on (also `next`, `peek`, `next_expect`, `next_stream`, `set_pos`,
    `offset_pos`, `read_n`: `Lemmas/ShiftLexer.lean`). -/
theorem next_word_prefix_shift (p b : Buf) (k : Nat) :
    nextWord (p ++ b) (p.size + k) = omap (sh2 p.size) (nextWord b k) :=
  nextWord_shift p b k

/-- **Shift lemma, string lexers.** Literal and hexadecimal strings read from `p.size + k` in `p ++ b` are the
    strings read from `k` in `b`; the cursor behind them is `p.size` further on. -/
theorem string_lexers_prefix_shift (p b : Buf) (fuel k : Nat) (nested : Int) (acc : List UInt8) :
    collectString (p ++ b) fuel (p.size + k) nested acc = omap (shL p.size) (collectString b fuel k nested acc) ∧
    collectHex (p ++ b) (p.size + k) fuel (p.size + k) acc = omap (shL p.size) (collectHex b k fuel k acc) :=
  ⟨collectString_shift p b fuel k nested acc, collectHex_shift p b k fuel k acc⟩

/-- **Shift lemma, parser.** `parse_with_lexer_ctx` on `p ++ b` from `p.size + k` with lexer offset `o` returns
    the value that it returns on `b` from `k` with lexer offset `o + p.size` — the same value, stream ranges
    included — and rests `p.size` further on; for every buffer content, conformant or not (errors, panics
    and fuel exhaustion correspond). Buffers below 2 GiB, resolver lengths are `i32`s. -/
theorem parse_prefix_shift (env : Env R) (p b : Buf) (hsz : (p ++ b).size ≤ 2147483647) (hlen : LenBounded env)
    (fuel k : Nat) (ctx : Option (Nat × Nat)) (flags depth : Nat) :
    parseCtx env (p ++ b) fuel (p.size + k) ctx flags depth
      = omap (shV p.size) (parseCtx (env.shiftOffset p.size) b fuel k ctx flags depth) :=
  parseCtx_shift env p b hsz hlen fuel k ctx flags depth

/-- the same for `parse_indirect_object` -/
theorem parse_indirect_prefix_shift (env : Env R) (p b : Buf) (hsz : (p ++ b).size ≤ 2147483647)
    (hlen : LenBounded env) (fuel k flags : Nat) :
    parseIndirectObject env (p ++ b) fuel (p.size + k) flags
      = omap (shI p.size) (parseIndirectObject (env.shiftOffset p.size) b fuel k flags) :=
  parseIndirectObject_shift env p b hsz hlen fuel k flags

/-- **The lexer's file offset only moves the reported ranges**: the modelling assumption of
    `Model/Offsets.lean`, proved for the parser model. Same buffer, offset `o + k` instead of `o`: the same
    outcome, every `file_range` inside the value `k` further on. No hypothesis. -/
theorem file_offset_only_moves_ranges (env : Env R) (k : Nat) (buf : Buf) (fuel pos flags : Nat) :
    parseIndirectObject (env.shiftOffset k) buf fuel pos flags
      = omap (mapI k) (parseIndirectObject env buf fuel pos flags) :=
  parseIndirectObject_offset env k buf fuel pos flags

/-- **`locate_xref_offset_prefix`, concrete lexer.** -/
theorem locate_xref_offset_prefix_concrete (p f : Bytes) (k : Nat)
    (hk : findLast startxrefKw (f.take (f.length - 1)) = some k) :
    locateXrefC (p ++ f) = locateXrefC f :=
  locateXrefC_append p f k hk

/-- **Reading an object, end to end, no parser parameter.** `resolve_ref`'s direct branch in its literal
    call shape — `start.checked_add(offset)`, `read(pos ..)`, `Lexer::with_offset(.., pos)`,
    `parse_indirect_object` of `Model/Parser.lean` — gives for `p ++ f` (header at `p.length + s`) the value
    it gives for `f` (header at `s`), stream ranges `p.length` further on; for every content at the offset,
    every flag set, every fuel. -/
theorem read_object_prefix_concrete (env : Env R) (fuel : Nat) (p f : Bytes) (s off flags : Nat) (hfit : Fits p f) :
    readObjectAt env fuel (p ++ f) (p.length + s) off flags
      = omap (shiftR p.length) (readObjectAt env fuel f s off flags) :=
  readObjectAt_prefix env fuel p f s off flags hfit

/-- **`prefix_changes_nothing` with the concrete parsers.** Objects, members of object streams, `/Length`
    integers are read by the parser model; what stays a parameter is third-party or not modelled at byte
    level (`f32::from_str`, the filter chain `dec`, the cross-reference section reader `X`, the scan item
    loop `S`; the resolver inside `parse_stream_object` is `env.resolveLen`). -/
theorem prefix_changes_nothing_concrete (env : Env R) (pfuel : Nat) (dec : Dict R → Bytes → Out Bytes)
    (X : Bytes → Out (List Xref.Sub × Dict R)) (S : Bytes → List (Out (Obj (Prim R))))
    (p f : Bytes) (fuel s : Nat) (t : Xref.Table) (tr : Dict R)
    (hopen : openFile (concreteP env pfuel dec X S) fuel f = .ok (s, t, tr))
    (hno : ∀ j, j < p.length → ¬ headerMarker <+: (p ++ f).drop j)
    (hl : p.length + s + 5 ≤ 1024) (hfit : Fits p f) :
    openFile (concreteP env pfuel dec X S) fuel (p ++ f) = .ok (p.length + s, t, tr) ∧
    (∀ fuel' chain flags id,
      resolveRef (concreteP env pfuel dec X S) (p ++ f) (p.length + s) t fuel' chain flags id
        = shiftOut p.length (resolveRef (concreteP env pfuel dec X S) f s t fuel' chain flags id)) ∧
    (∀ o : Obj (Prim R), rawData (p ++ f) (o.shift p.length) = rawData f o) ∧
    version (p ++ f) (p.length + s) = version f s :=
  let h := prefix_changes_nothing (concreteP env pfuel dec X S) p f fuel s t tr hopen hno hl hfit
  ⟨h.1, h.2.1, h.2.2.1, h.2.2.2.1⟩

/-! ### the cross-reference section reader and the scan loop, concrete

`Model/XrefTable.lean` (C02 package) is the classic table reader and the dispatch `read_xref_and_trailer_at`;
`Model/XrefStreamSection.lean` adds `parse_xref_stream_and_trailer`, so that the section reader has no parser
parameter left (`XrefSec.sectionAt`, `XrefSec.loadTableC`); `Model/ScanLoop.lean` is the item loop of
`Storage::scan` on the concrete lexer / parser. What remains a parameter: `f32::from_str`, the filter chain of a
cross-reference stream (`dec`), the decryptor. -/

open XrefTable in
/-- **Shift lemma, classic table reader.** `parse_xref_table_and_trailer` on `p ++ b` from `p.size + k` reads the
    subsections and the trailer dictionary it reads on `b` from `k`, and rests `p.size` further on — any
    content. -/
theorem xref_table_reader_prefix_shift (env : Env R) (p b : Buf) (hsz : (p ++ b).size ≤ 2147483647)
    (hlen : LenBounded env) (fuel pfuel k : Nat) :
    parseXrefTableAndTrailer env (p ++ b) fuel pfuel (p.size + k)
      = omap (shT p.size) (parseXrefTableAndTrailer (env.shiftOffset p.size) b fuel pfuel k) :=
  parseXrefTableAndTrailer_shift env p b hsz hlen fuel pfuel k

open XrefTable in
/-- **Shift lemma, section reader** (`read_xref_and_trailer_at`: `xref` → table, else `lexer.back()` and the stream
    reader). The table branch is unconditional. The stream branch looks *backwards* from the first lexeme:
    exactly when the prefix is empty or ends in white-space (`EndsWs`) the scan back stops where it stops
    without the prefix. (That is why the code hands the reader `read(pos ..)`: a buffer that begins at the
    section. `back_needs_boundary` below is the counter-example.) -/
theorem xref_section_reader_prefix_shift (env : Env R) (stm stm' : Buf → Nat → Out (List Xref.Sub × Dict R)) (p b : Buf)
    (hsz : (p ++ b).size ≤ 2147483647) (hlen : LenBounded env) (hp : EndsWs p)
    (hstm : ∀ q, stm (p ++ b) (p.size + q) = stm' b q) (fuel pfuel k : Nat) :
    readXrefAndTrailerAt env stm (p ++ b) fuel pfuel (p.size + k)
      = readXrefAndTrailerAt (env.shiftOffset p.size) stm' b fuel pfuel k :=
  readXrefAndTrailerAt_shift env stm stm' p b hsz hlen hp hstm fuel pfuel k

/-- without the boundary `lexer.back()` runs into the prefix: `12` behind `x` is found as `x12` -/
theorem back_needs_boundary :
    back (#[120] ++ #[49, 50, 32]) (1 + 2) = .ok (0, 3) ∧ back #[49, 50, 32] 2 = .ok (0, 2) := by
  decide +kernel

/-- **`load_prefix_invariant`, concrete: no section-reader parameter.** The table and the trailer that
    `read_xref_table_and_trailer` builds from `p ++ f` (header at `p.length + s`) are those it builds from `f`
    (header at `s`) — classic tables, cross-reference streams, `/Prev` chains through both, any damage: every
    section is read from the suffix of the file at `start + offset`, and those suffixes are the same. -/
theorem load_prefix_invariant_concrete {V : Type} (env : Env R) (dec : Dict R → List UInt8 → Out (List UInt8))
    (allowErr : Bool) (base : Parsers V (Dict R)) (p f : Bytes) (s k fuel : Nat) (hfit : Fits p f)
    (hk : findLast startxrefKw (f.take (f.length - 1)) = some k) :
    XrefSec.loadTableC env dec allowErr base fuel (p ++ f) (p.length + s)
      = XrefSec.loadTableC env dec allowErr base fuel f s :=
  loadTable_append _ p f s k fuel hfit hk

/-- … composed with the header search: a file that opens, opens behind an admissible prefix with the same
    table and trailer (`Model/XrefFile.lean`'s parsers plugged into `openFile`). -/
theorem open_prefix_invariant_concrete {V : Type} (env : Env R) (dec : Dict R → List UInt8 → Out (List UInt8))
    (allowErr : Bool) (base : Parsers V (Dict R)) (p f : Bytes) (fuel s : Nat) (t : Xref.Table) (tr : Dict R)
    (hopen : openFile (XrefTable.fileParsers { env with fileOffset := 0 } (XrefSec.stmC env dec allowErr) base) fuel f
      = .ok (s, t, tr))
    (hno : ∀ j, j < p.length → ¬ headerMarker <+: (p ++ f).drop j)
    (hl : p.length + s + 5 ≤ 1024) (hfit : Fits p f) :
    openFile (XrefTable.fileParsers { env with fileOffset := 0 } (XrefSec.stmC env dec allowErr) base) fuel (p ++ f)
      = .ok (p.length + s, t, tr) :=
  open_prefix_invariant _ p f fuel s t tr hopen hno hl hfit

/-- **`scan_prefix_invariant`, concrete: no item-loop parameter.** `Storage::scan` on the concrete lexer / parser
    (`parse_indirect_object` until it fails, `xref … trailer` skipped into a trailer item, `startxref n` skipped):
    the prefixed file yields the same items in the same order; the lexer's offset is the header position, so the
    `file_range` of every stream among them is `p.length` further on — relative to the header, as the D26 repair
    made it — and nothing else differs. -/
theorem scan_prefix_invariant_concrete (env : Env R) (p f : Bytes) (s k : Nat) (hfit : Fits p f)
    (hk : findLast startxrefKw (f.take (f.length - 1)) = some k) :
    ScanLoop.scanC env (p ++ f) (p.length + s)
      = omap (List.map (ScanLoop.shiftItem p.length)) (ScanLoop.scanC env f s) :=
  ScanLoop.scanC_append env p f s k hfit hk

end Concrete

/-! ## What the code did before the repairs

`scanOld` (D26) read `start .. xref_offset` — an end that is not relative to the header — numbered the
lexer from 0 and `unwrap`ped. With the trivial item parser "one item per byte of the slice" the file
below (header at 0, `startxref 9`) scans 9 bytes; behind a 4-byte prefix the old code scanned 5, behind a
12-byte prefix it panicked. `directPosOld` is the unchecked `start_offset + pos`. -/

def byteItems : Parsers Nat Nat where
  xrefAt := fun _ => .err
  sizeOf := fun _ => .err
  prevOf := fun _ => none
  objAt := fun _ _ => .err
  streamEnd := fun _ => .err
  asLen := fun _ => .err
  stmHead := fun _ => .err
  decode := fun _ _ => .err
  parseMember := fun _ _ => .err
  scanItems := fun slice => slice.map fun b => .ok (.plain b.toNat)

/-- `%PDF-1.4\nstartxref\n9\n%%EOF\n` -/
def tinyFile : Bytes :=
  [37, 80, 68, 70, 45, 49, 46, 52, 10, 115, 116, 97, 114, 116, 120, 114, 101, 102, 10, 57, 10, 37, 37, 69, 79, 70, 10]

def pad (n : Nat) : Bytes := List.replicate n 32

example : (match scan byteItems tinyFile 0 with | .ok l => l.length | _ => 0) = 9 := by decide
example : (match scan byteItems (pad 4 ++ tinyFile) 4 with | .ok l => l.length | _ => 0) = 9 := by decide
example : (match scanOld byteItems (pad 4 ++ tinyFile) 4 with | .ok l => l.length | _ => 0) = 5 := by decide
example : scanOld byteItems (pad 12 ++ tinyFile) 12 = .panic := by decide
example : scan byteItems (pad 12 ++ tinyFile) 12 = scan byteItems tinyFile 0 := by decide

/-- the old code contradicts `scan_prefix_invariant` -/
theorem scanOld_not_invariant :
    ¬ (∀ (p f : Bytes) (s : Nat), scanOld byteItems (p ++ f) (p.length + s) =
        match scanOld byteItems f s with
        | .ok items => .ok (items.map (shiftOut p.length))
        | .err => .err | .panic => .panic | .oof => .oof) := by
  intro h
  have := h (pad 12) tinyFile 0
  revert this
  decide

example : directPosOld 7 (usizeMax - 2) = .panic := by decide
example : checkedAdd 7 (usizeMax - 2) = .err := by decide
example : checkedAdd 0 (usizeMax - 2) = .ok (usizeMax - 2) := by decide

/-! ## Non-vacuity

A concrete two-section file (`tinyDoc`: header, two bytes standing for objects, an "old" section at 11, a
"new" one at 13 with `/Prev 11`, `startxref 13`) under a concrete toy parser: sections are recognised by
their first byte, objects too. The prefix `junk` holds `%PD`, `startxref` look-alikes and ends in `%PDF`
(a proper prefix of the marker). Every hypothesis of `open_prefix_invariant` is discharged by `decide`,
the file really opens, and the resolved stream has data. -/

def toy : Parsers Nat Nat where
  xrefAt := fun sfx =>
    match sfx with
    | 78 :: _ => .ok ([⟨0, [.free 0 65535, .raw 9 0, .raw 10 0]⟩], 1)     -- `N`: newest section, trailer 1
    | 79 :: _ => .ok ([⟨1, [.raw 9 0]⟩, ⟨3, [.raw 10 0]⟩], 2)             -- `O`: older section, trailer 2
    | _ => .err
  sizeOf := fun tr => if tr = 1 then .ok 4 else .err
  prevOf := fun tr => if tr = 1 then some (.ok 11) else none
  objAt := fun _ sfx =>
    match sfx with
    | 65 :: _ => .ok (.plain 65)                                           -- `A`: a plain object
    | 83 :: _ => .ok (.stream 83 1 (.direct 2))                            -- `S`: a stream, data 1 byte further on, 2 bytes
    | _ => .err
  streamEnd := fun _ => .ok ()
  asLen := fun v => .ok v
  stmHead := fun _ => .err
  decode := fun _ raw => .ok raw
  parseMember := fun _ _ => .err
  scanItems := fun _ => []

/-- `%PDF-1.4\nASONxstartxref\n13\n%%EOF\n` — offsets: `A` 9, `S` 10, `O` 11, `N` 12 … the new section
    is announced at 12 -/
def tinyDoc : Bytes :=
  [37, 80, 68, 70, 45, 49, 46, 52, 10, 65, 83, 79, 78, 120,
   115, 116, 97, 114, 116, 120, 114, 101, 102, 10, 49, 50, 10, 37, 37, 69, 79, 70, 10]

/-- `%PD startxref 99 %PDF` -/
def junk : Bytes :=
  [37, 80, 68, 32, 115, 116, 97, 114, 116, 120, 114, 101, 102, 32, 57, 57, 32, 37, 80, 68, 70]

example : openFile toy 5 tinyDoc = .ok (0, [.free 0 65535, .raw 9 0, .raw 10 0, .raw 10 0, .free 0 65535], 1) := by
  decide
example : headerMarker <+: tinyDoc := ⟨_, rfl⟩
example : ¬ headerMarker <:+: junk := by decide
example : junk.length + 0 + 5 ≤ 1024 := by decide
example : Fits junk tinyDoc := by unfold Fits; decide
example : openFile toy 5 (junk ++ tinyDoc)
    = .ok (21, [.free 0 65535, .raw 9 0, .raw 10 0, .raw 10 0, .free 0 65535], 1) := by decide
example : resolveRef toy tinyDoc 0 [.free 0 65535, .raw 9 0, .raw 10 0] 3 [] .any 2 = .ok (.stream 83 11 13) := by decide
example : resolveRef toy (junk ++ tinyDoc) 21 [.free 0 65535, .raw 9 0, .raw 10 0] 3 [] .any 2
    = .ok (.stream 83 32 34) := by decide
example : rawData (V := Nat) (junk ++ tinyDoc) (.stream 83 32 34) = .ok [79, 78] := by decide

/-! ### non-vacuity of the concrete statements

`%PDF-1.4␊1 0 obj␊<</Length 3/K[1 (a)]>>␊stream␊abc␊endstream␊endobj␊startxref␊9␊%%EOF␊`: the parser model reads
the stream object at offset 9 with its data at 47..50; behind `junk` (21 bytes) the same value at 68..71; the
concrete `locate_xref_offset` answers 9 for both. (Kernel evaluation of the models, independent of the theorems.) -/

def cEnv : PdfLex.Env Unit :=
  { parseReal := fun _ => some (), resolveLen := fun _ _ => .err, allowMissingEndobj := false, decrypt := none, fileOffset := 0 }

def cFile : Bytes :=
  [37, 80, 68, 70, 45, 49, 46, 52, 10, 49, 32, 48, 32, 111, 98, 106, 10, 60, 60, 47, 76, 101, 110, 103, 116, 104, 32, 51,
   47, 75, 91, 49, 32, 40, 97, 41, 93, 62, 62, 10, 115, 116, 114, 101, 97, 109, 10, 97, 98, 99, 10, 101, 110, 100, 115,
   116, 114, 101, 97, 109, 10, 101, 110, 100, 111, 98, 106, 10, 115, 116, 97, 114, 116, 120, 114, 101, 102, 10, 57, 10,
   37, 37, 69, 79, 70, 10]

def isStreamAt (lo hi : Nat) : Out (PdfLex.Prim Unit) → Bool
  | .ok (.stream [(_, .int 3), (_, .arr [.int 1, .str [97]])] (.inFile 1 0 a b)) => a == lo && b == hi
  | _ => false

example : isStreamAt 47 50 (readObjectAt cEnv 40 cFile 0 9 1023) = true := by decide +kernel
example : isStreamAt 68 71 (readObjectAt cEnv 40 (junk ++ cFile) 21 9 1023) = true := by decide +kernel
example : locateXrefC cFile = .ok 9 ∧ locateXrefC (junk ++ cFile) = .ok 9 := by decide +kernel
example : Fits junk cFile := by unfold Fits; decide

/-! ### non-vacuity of the concrete section reader and scan loop

`twoRev`: a two-revision file. Revision 1: objects 1 (a dictionary) and 2 (a stream, data at 62..65), a classic
table at 83. Revision 2: object 3 (a string), a cross-reference *stream* (object 4, `/W [1 2 1] /Index [3 2] /Prev 83`)
at 212. The concrete loader merges both sections through the `/Prev` chain, for the file and for the file behind
`junk` (21 bytes); the concrete scan lists objects 1, 2, the trailer of the classic section and object 3, the
stream's range at 62..65 resp. 83..86; the pre-repair scan loses object 3 behind the prefix. -/

def twoRev : Bytes :=
  [37, 80, 68, 70, 45, 49, 46, 52, 10, 49, 32, 48, 32, 111, 98, 106, 10, 60, 60, 47, 65, 32, 49, 62, 62, 10, 101, 110,
   100, 111, 98, 106, 10, 50, 32, 48, 32, 111, 98, 106, 10, 60, 60, 47, 76, 101, 110, 103, 116, 104, 32, 51, 62, 62, 10, 115,
   116, 114, 101, 97, 109, 10, 97, 98, 99, 10, 101, 110, 100, 115, 116, 114, 101, 97, 109, 10, 101, 110, 100, 111, 98, 106, 10, 120,
   114, 101, 102, 10, 48, 32, 51, 10, 48, 48, 48, 48, 48, 48, 48, 48, 48, 48, 32, 54, 53, 53, 51, 53, 32, 102, 32, 10,
   48, 48, 48, 48, 48, 48, 48, 48, 48, 57, 32, 48, 48, 48, 48, 48, 32, 110, 32, 10, 48, 48, 48, 48, 48, 48, 48, 48,
   51, 51, 32, 48, 48, 48, 48, 48, 32, 110, 32, 10, 116, 114, 97, 105, 108, 101, 114, 10, 60, 60, 47, 83, 105, 122, 101, 32,
   51, 62, 62, 10, 115, 116, 97, 114, 116, 120, 114, 101, 102, 10, 56, 51, 10, 37, 37, 69, 79, 70, 10, 51, 32, 48, 32, 111,
   98, 106, 10, 40, 110, 101, 119, 41, 10, 101, 110, 100, 111, 98, 106, 10, 52, 32, 48, 32, 111, 98, 106, 10, 60, 60, 47, 84,
   121, 112, 101, 47, 88, 82, 101, 102, 47, 83, 105, 122, 101, 32, 53, 47, 80, 114, 101, 118, 32, 56, 51, 47, 87, 91, 49, 32,
   50, 32, 49, 93, 47, 73, 110, 100, 101, 120, 91, 51, 32, 50, 93, 47, 76, 101, 110, 103, 116, 104, 32, 56, 62, 62, 10, 115,
   116, 114, 101, 97, 109, 10, 1, 0, 191, 0, 1, 0, 212, 0, 10, 101, 110, 100, 115, 116, 114, 101, 97, 109, 10, 101, 110, 100,
   111, 98, 106, 10, 115, 116, 97, 114, 116, 120, 114, 101, 102, 10, 50, 49, 50, 10, 37, 37, 69, 79, 70, 10]

def idDec : PdfLex.Dict Unit → List UInt8 → Out (List UInt8) := fun _ raw => .ok raw

def baseP : Parsers (PdfLex.Prim Unit) (PdfLex.Dict Unit) := concreteP cEnv 200 idDec (fun _ => .err) (fun _ => [])

def tableIs (t : Xref.Table) : Out (Xref.Table × PdfLex.Dict Unit) → Bool
  | .ok (t', _) => decide (t' = t)
  | _ => false

def twoRevTable : Xref.Table :=
  [.free 0 65535, .raw 9 0, .raw 33 0, .raw 191 0, .raw 212 0, .free 0 65535]

example : tableIs twoRevTable (XrefSec.loadTableC cEnv idDec false baseP 10 twoRev 0) = true := by decide +kernel
example : tableIs twoRevTable (XrefSec.loadTableC cEnv idDec false baseP 10 (junk ++ twoRev) 21) = true := by decide +kernel

def scanIs (lo hi : Nat) : Out (List (ScanLoop.Item Unit)) → Bool
  | .ok [.obj 1 0 (.dict _), .obj 2 0 (.stream _ (.inFile 2 0 a b)), .trailer _, .obj 3 0 (.str [110, 101, 119])] =>
    a == lo && b == hi
  | _ => false

example : scanIs 62 65 (ScanLoop.scanC cEnv twoRev 0) = true := by decide +kernel
example : scanIs 83 86 (ScanLoop.scanC cEnv (junk ++ twoRev) 21) = true := by decide +kernel
example : scanIs 83 86 (ScanLoop.scanOldC cEnv (junk ++ twoRev) 21) = false := by decide +kernel
example : findLast startxrefKw (twoRev.take (twoRev.length - 1)) = some 312 := by decide +kernel

end Offsets

/-! ## Tie to the source: constants and byte classes (appended by the translator package)

`Generated/Lexical.lean` is re-extracted from `pdf/src` by `./check` before this file is built. -/

namespace Offsets

/-- the header search window, the header marker, the object-number bound and the lexical classes of the offset-level lexer are the ones of the source -/
theorem constants_match_source :
    (Offsets.headerWindow = Generated.headerWindow) ∧
    (Offsets.headerMarker.map UInt8.toNat = Generated.headerMarker) ∧
    (Offsets.maxId = Generated.maxId) ∧
    ((List.range 256).filter (fun n => OffLex.isWs (UInt8.ofNat n)) = Generated.lexWhitespace) ∧
    ((List.range 256).filter (fun n => OffLex.isDelim (UInt8.ofNat n)) = Generated.lexDelimiters) := by
  refine ⟨?_, ?_, ?_, ?_, ?_⟩
  · first | decide +kernel | fail "constants_match_source (C17): the model's Offsets.headerWindow does not match the source (Generated.headerWindow, re-extracted from pdf/src)"
  · first | decide +kernel | fail "constants_match_source (C17): the model's Offsets.headerMarker does not match the source (Generated.headerMarker, re-extracted from pdf/src)"
  · first | decide +kernel | fail "constants_match_source (C17): the model's Offsets.maxId does not match the source (Generated.maxId, re-extracted from pdf/src)"
  · first | decide +kernel | fail "constants_match_source (C17): the model's OffLex.isWs does not match the source (Generated.lexWhitespace, re-extracted from pdf/src)"
  · first | decide +kernel | fail "constants_match_source (C17): the model's OffLex.isDelim does not match the source (Generated.lexDelimiters, re-extracted from pdf/src)"

end Offsets
